/-
  A backtracking regular-expression matcher in list-of-successes form, for the fragment of
  Python's `re` that soupsieve uses (measured by the translator `gen/regexes.py`):
  literals, classes, `.`, sequences, branches, capturing groups, greedy/lazy bounded and
  unbounded repeats, `^`, `$`, `\Z`, look-ahead and fixed-width look-behind, IGNORECASE, DOTALL.

  `runs r s i caps` lists, in the engine's priority order, every `(end, captures)` with which
  `r` can match `s` starting at `i`.  `re.match` is the head of that list.
-/
import SoupVerif.Model.Py
namespace SoupVerif

inductive Cat where
  | space | notSpace | digit | notDigit | word | notWord
  deriving Repr, DecidableEq, Inhabited

inductive SetItem where
  | ch (c : Nat)
  | range (lo hi : Nat)
  | cat (c : Cat)
  deriving Repr, DecidableEq, Inhabited

inductive Rx where
  | lit (c : Nat) (ic : Bool)
  | notLit (c : Nat) (ic : Bool)
  | any (dotall : Bool)
  | set (neg : Bool) (items : List SetItem) (ic : Bool)
  | seq (rs : List Rx)
  | alt (rs : List Rx)
  | group (idx : Nat) (r : Rx)
  | rep (min : Nat) (max : Option Nat) (greedy : Bool) (r : Rx)
  | bos            -- `^` without MULTILINE, `\A`
  | eol            -- `$` without MULTILINE: at the end, or before a final `\n`
  | eos            -- `\Z`
  | look (ahead : Bool) (neg : Bool) (r : Rx)
  deriving Repr, Inhabited

abbrev Caps := List (Nat × Nat × Nat)

/-- Character-level parameters of the engine that the model does not fix: simple case folding
    and the Unicode categories. -/
structure CharEnv where
  fold : Nat → Nat
  isSpace : Nat → Bool
  isDigit : Nat → Bool
  isWord : Nat → Bool

/-- ASCII instance used by the driver (the harness keeps non-ASCII cased letters and non-ASCII
    digits/word characters out of case-insensitive / category contexts). -/
def asciiEnv : CharEnv where
  fold := lowerCp
  isSpace := isPySpace
  isDigit := fun c => 48 ≤ c && c ≤ 57
  isWord := fun c => (48 ≤ c && c ≤ 57) || (65 ≤ c && c ≤ 90) || (97 ≤ c && c ≤ 122) || c == 95 || c ≥ 128

/-- "Special" code points: non-ASCII code points that case-insensitive matching identifies with an
    ASCII letter, with that letter (`(code point, its fold)`). -/
abbrev Specials := List (Nat × Nat)

/-- ASCII environment in which, additionally, every special code point folds to its ASCII image. -/
def foldEnv (sp : Specials) : CharEnv :=
  { asciiEnv with fold := fun c => match sp.lookup c with | some a => a | none => lowerCp c }

/-- The four non-ASCII code points that Python's `re.IGNORECASE` identifies with ASCII letters:
    U+0130 `İ` ~ `i` (simple lower-casing), U+0131 `ı` ~ `i`, U+017F `ſ` ~ `s` (sre's
    `_ignorecase_fixes`), U+212A `K` ~ `k` (simple lower-casing). -/
def foldSpecials : Specials := [(304, 105), (305, 105), (383, 115), (8490, 107)]

/-- ASCII environment plus Python's four non-ASCII/ASCII case identifications. -/
def pyFoldEnv : CharEnv :=
  { asciiEnv with
    fold := fun c => match foldSpecials.lookup c with | some a => a | none => lowerCp c }

theorem pyFoldEnv_eq : pyFoldEnv = foldEnv foldSpecials := rfl
theorem asciiEnv_eq : asciiEnv = foldEnv [] := rfl

namespace Rx

def catHas (env : CharEnv) : Cat → Nat → Bool
  | .space, c => env.isSpace c
  | .notSpace, c => !env.isSpace c
  | .digit, c => env.isDigit c
  | .notDigit, c => !env.isDigit c
  | .word, c => env.isWord c
  | .notWord, c => !env.isWord c

def itemHas (env : CharEnv) (ic : Bool) (c : Nat) : SetItem → Bool
  | .ch x => if ic then env.fold x == env.fold c else x == c
  | .range lo hi => (lo ≤ c && c ≤ hi) || (ic && ((lo ≤ env.fold c && env.fold c ≤ hi) ||
      -- an upper-case range member reached through folding, ASCII letters only
      (65 ≤ lo && hi ≤ 90 && 97 ≤ c && c ≤ 122 && lo ≤ c - 32 && c - 32 ≤ hi)))
  | .cat k => catHas env k c

def setHas (env : CharEnv) (neg : Bool) (items : List SetItem) (ic : Bool) (c : Nat) : Bool :=
  (items.any (itemHas env ic c)) != neg

/-- Width of a look-behind body (only fixed-width bodies occur). -/
def width : Rx → Option Nat
  | .lit _ _ | .notLit _ _ | .any _ | .set _ _ _ => some 1
  | .bos | .eol | .eos | .look _ _ _ => some 0
  | .group _ r => width r
  | .seq rs => widthSeq rs
  | .alt rs => widthAlt rs
  | .rep mn mx _ r => if mx == some mn then (width r).map (· * mn) else none
where
  widthSeq : List Rx → Option Nat
    | [] => some 0
    | r :: rs => do let a ← width r; let b ← widthSeq rs; pure (a + b)
  widthAlt : List Rx → Option Nat
    | [] => none
    | [r] => width r
    | r :: rs => do let a ← width r; let b ← widthAlt rs; if a == b then pure a else none

/-- Iterate a body matcher: the engine's `MAX_UNTIL` / `MIN_UNTIL`.  A further iteration is
    attempted only when the previous one advanced (or the minimum is not reached). `fuel` bounds
    the number of iterations by the remaining input. -/
def iter (body : Nat → Caps → List (Nat × Caps)) (mn : Nat) (mx : Option Nat) (greedy : Bool) :
    Nat → Nat → Nat → Caps → List (Nat × Caps)
  | 0, _, _, _ => []
  | fuel + 1, count, pos, caps =>
    let canMore := match mx with
      | none => true
      | some m => count < m
    let more : List (Nat × Caps) :=
      if canMore then
        (body pos caps).flatMap fun (p', c') =>
          if p' > pos || count + 1 < mn then iter body mn mx greedy fuel (count + 1) p' c'
          else if count + 1 ≥ mn then [(p', c')] else []
      else []
    let stop : List (Nat × Caps) := if count ≥ mn then [(pos, caps)] else []
    if greedy then more ++ stop else stop ++ more

mutual
def runs (env : CharEnv) (s : Str) : Rx → Nat → Caps → List (Nat × Caps)
  | .lit c ic, i, caps =>
    match s[i]? with
    | some x => if (if ic then env.fold x == env.fold c else x == c) then [(i + 1, caps)] else []
    | none => []
  | .notLit c ic, i, caps =>
    match s[i]? with
    | some x => if (if ic then env.fold x == env.fold c else x == c) then [] else [(i + 1, caps)]
    | none => []
  | .any dotall, i, caps =>
    match s[i]? with
    | some x => if dotall || x != 10 then [(i + 1, caps)] else []
    | none => []
  | .set neg items ic, i, caps =>
    match s[i]? with
    | some x => if setHas env neg items ic x then [(i + 1, caps)] else []
    | none => []
  | .seq rs, i, caps => runsSeq env s rs i caps
  | .alt rs, i, caps => runsAlt env s rs i caps
  | .group idx r, i, caps =>
    (runs env s r i caps).map fun (j, c) => (j, (idx, i, j) :: c.filter (fun e => e.1 != idx))
  | .rep mn mx greedy r, i, caps =>
    iter (fun p c => runs env s r p c) mn mx greedy (s.length - i + mn + 2) 0 i caps
  | .bos, i, caps => if i == 0 then [(i, caps)] else []
  | .eol, i, caps =>
    if i == s.length || (i + 1 == s.length && s[i]? == some 10) then [(i, caps)] else []
  | .eos, i, caps => if i == s.length then [(i, caps)] else []
  | .look true neg r, i, caps =>
    let ok := !(runs env s r i caps).isEmpty
    if ok != neg then [(i, caps)] else []
  | .look false neg r, i, caps =>
    match width r with
    | some w =>
      let ok := w ≤ i && (runs env s r (i - w) caps).any (fun (j, _) => j == i)
      if ok != neg then [(i, caps)] else []
    | none => []
def runsSeq (env : CharEnv) (s : Str) : List Rx → Nat → Caps → List (Nat × Caps)
  | [], i, caps => [(i, caps)]
  | r :: rs, i, caps => (runs env s r i caps).flatMap fun (j, c) => runsSeq env s rs j c
def runsAlt (env : CharEnv) (s : Str) : List Rx → Nat → Caps → List (Nat × Caps)
  | [], _, _ => []
  | r :: rs, i, caps => runs env s r i caps ++ runsAlt env s rs i caps
end

/-- `pattern.match(s, i)`: end position and captures of the first success. -/
def matchAt (env : CharEnv) (r : Rx) (s : Str) (i : Nat) : Option (Nat × Caps) :=
  (runs env s r i []).head?

/-- `pattern.match(s) is not None`. -/
def isMatch (env : CharEnv) (r : Rx) (s : Str) : Bool := (matchAt env r s 0).isSome

/-- `m.group(idx)` as a span. -/
def capSpan (caps : Caps) (idx : Nat) : Option (Nat × Nat) :=
  (caps.find? (fun e => e.1 == idx)).map (·.2)

/-- `pattern.search(s, i)`: leftmost start at or after `i`. -/
def searchFrom (env : CharEnv) (r : Rx) (s : Str) : Nat → Nat → Option (Nat × Nat × Caps)
  | 0, _ => none
  | fuel + 1, i =>
    match matchAt env r s i with
    | some (j, c) => some (i, j, c)
    | none => if i < s.length then searchFrom env r s fuel (i + 1) else none

def search (env : CharEnv) (r : Rx) (s : Str) (i : Nat := 0) : Option (Nat × Nat × Caps) :=
  searchFrom env r s (s.length + 2 - i) i

end Rx
end SoupVerif

namespace SoupVerif
namespace Rx
/-- `pattern.sub(repl, s)` for a constant replacement (no empty-match subtleties are needed by
    the regexes this is used with; an empty match emits `repl` and moves one character on). -/
def subAll (env : CharEnv) (r : Rx) (repl : Str) (s : Str) : Str :=
  go (s.length + 1) 0
where
  go : Nat → Nat → Str
    | 0, _ => []
    | fuel + 1, i =>
      if i > s.length then [] else
      match matchAt env r s i with
      | some (j, _) =>
        if j > i then repl ++ go fuel j
        else repl ++ (match s[i]? with | some ch => ch :: go fuel (i + 1) | none => [])
      | none => match s[i]? with
        | some ch => ch :: go fuel (i + 1)
        | none => []
end Rx
end SoupVerif
