/-
  `CSSMatch.match_nth` for one `SelectorNth` record, on an abstract sibling walk.

  `walk`    : the contents of the parent in the order `get_children(parent, start=index,
              reverse=last)` yields them (all nodes, not only elements), from the first node.
  `counted` : the node is an element that passes the `of S` filter and, for `-of-type`, has the
              same type as `el`   (the three `continue`s of the inner loop).
  `isEl`    : `child is el`.
  The three loops are transcribed with explicit fuel; `Lemmas/Nth` shows the fuel suffices.
-/
import SoupVerif.Model.Py
namespace SoupVerif
namespace Nth

/-- `idx = a * count + b if var else a`. -/
def idxOf (a b : Int) (var : Bool) (count : Int) : Int := if var then a * count + b else a

/-- The bound-adjust loop (`while idx < 1 or idx > last_index + 1`). Returns `(count, idx)`.
    `adjust`: `none` = `None`, `some false` = -1, `some true` = 1. -/
def adjust (a b lastIndex : Int) : Nat → Int → Int → Option Bool → Int × Int
  | 0, count, idx, _ => (count, idx)
  | fuel + 1, count, idx, adj =>
    if idx < 1 || idx > lastIndex + 1 then
      if idx < 1 then
        let diffLow := 0 - idx
        if adj == some true then (count, idx)
        else
          let count' := count + 1
          let idx' := a * count' + b
          let diff := 0 - idx'
          if diff ≥ diffLow then (count', idx') else adjust a b lastIndex fuel count' idx' (some false)
      else
        let diffHigh := idx - lastIndex
        if adj == some false then (count, idx)
        else
          let count' := count + 1
          let idx' := a * count' + b
          let diff := idx' - lastIndex
          if diff ≥ diffHigh then (count', idx') else adjust a b lastIndex fuel count' idx' (some true)
    else (count, idx)

/-- `while idx >= 1: lowest = count; count += 1; idx = a*count+b` (only run when `a < 0`).
    Returns `lowest`. -/
def floorLoop (a b : Int) : Nat → Int → Int → Int → Int
  | 0, _, _, lowest => lowest
  | fuel + 1, count, idx, lowest =>
    if idx ≥ 1 then floorLoop a b fuel (count + 1) (a * (count + 1) + b) count else lowest

inductive Inner (α : Type) where
  | hit (matched : Bool)            -- `child is el`: both loops end
  | cont (rest : List α) (rel : Int) -- inner `for` ended (break on a non-`el` child, or exhausted)

/-- The inner `for child in get_children(parent, start=index, ...)`. -/
def inner {α} (counted isEl : α → Bool) (idx : Int) : List α → Int → Inner α
  | [], rel => .cont [] rel
  | c :: rest, rel =>
    if !counted c then inner counted isEl idx rest rel
    else
      let rel' := rel + 1
      if rel' == idx then (if isEl c then .hit true else .cont rest rel')
      else if isEl c then .hit false
      else inner counted isEl idx rest rel'

/-- The outer `while 1 <= idx <= last_index + 1`. -/
def outer {α} (counted isEl : α → Bool) (a b : Int) (var : Bool) (lastIndex countIncr : Int) :
    Nat → Int → Int → List α → Int → Bool
  | 0, _, _, _, _ => false
  | fuel + 1, count, idx, rest, rel =>
    if 1 ≤ idx && idx ≤ lastIndex + 1 then
      match inner counted isEl idx rest rel with
      | .hit m => m
      | .cont rest' rel' =>
        let count' := count + countIncr
        if count' < 0 then false
        else
          let idx' := idxOf a b var count'
          if idx' == idx then false
          else outer counted isEl a b var lastIndex countIncr fuel count' idx' rest' rel'
    else false

/-- One iteration of `for n in nth` after the `of S` pre-check on `el`. -/
def matchOne {α} (counted isEl : α → Bool) (a b : Int) (var : Bool) (walk : List α) : Bool :=
  let lastIndex : Int := Int.ofNat walk.length - 1
  let idx0 := idxOf a b var 0
  if var then
    let (count1, idx1) := adjust a b lastIndex (idx0.natAbs + walk.length + 4) 0 idx0 none
    if a < 0 then
      let lowest := floorLoop a b (idx1.natAbs + 2) count1 idx1 count1
      outer counted isEl a b var lastIndex (-1) (walk.length + lowest.natAbs + 3) lowest
        (a * lowest + b) walk 0
    else
      outer counted isEl a b var lastIndex 1 (walk.length + 3) count1 (a * count1 + b) walk 0
  else
    outer counted isEl a b var lastIndex 1 (walk.length + 3) 0 idx0 walk 0

end Nth
end SoupVerif
