/-
C16 model: CPython's import protocol as a state machine over `sys.modules`.

A module body is an ordered list of `Event`s (extracted from the source text by gen/gen_imports.py).
Names are interned by the translator: a name is a number, `Gen.Imports.names` gives its text, and the
numbers below `graph.length` are the modules of the graph (module k is the k-th node).  The set of names
bound in a module is a bit set (a `Nat`), so every step is a constant number of arithmetic operations and
the kernel can evaluate whole import runs.

`importModule` follows `importlib._bootstrap._find_and_load`:

* a module that is already in `sys.modules` -- even partially initialised -- is returned at once;
* otherwise the parent package is imported first, `sys.modules` is checked again (the parent's body may
  have imported the child), an empty module object is inserted, the body runs event by event, the module
  is marked done and bound as an attribute of its parent package;
* modules that are not in the graph (stdlib, lxml, html5lib, ...) are opaque: always importable, every
  attribute exists.

The first failing event aborts everything with an `ImportErr` (the interpreter's clean-up of
`sys.modules` after a failed import is not modelled: the run is already a failure).  The insertion order
of `sys.modules` is not part of the state.  Mathlib-free and executable.
-/
namespace SoupVerif.Imports

/-- An interned name (module name or attribute name). -/
abbrev Name := Nat

/-- One import-time step of a module body. -/
inductive Event where
  /-- `import M`, or the module part of `from M import ...`. -/
  | importMod (m : Name)
  /-- `from M import n`: `n` must be bound in `M` by now, unless `M.n` is a submodule (then it is imported). -/
  | fromImport (m n : Name)
  /-- evaluation of `alias.n` with `alias` bound to module `M`; `viaCall`: inside a function body that
  module-level code may call (over-approximation), otherwise in module-level or class-level code itself. -/
  | useAttr (m n : Name) (viaCall : Bool)
  /-- a top-level binding of the running module. -/
  | define (n : Name)
  /-- something the translator did not understand: always an error (fail closed). -/
  | unknown (what : String)
  deriving DecidableEq, Repr

/-- A module of the graph: its own id, the id of its parent package (`none` for a top-level package), the id
of the last component of its dotted name, and its body. -/
structure Node where
  name : Name
  parent : Option Name
  leaf : Name
  events : List Event
  deriving DecidableEq, Repr

/-- The k-th node must be module k (`Graph.wellFormed`). -/
abbrev Graph := List Node

/-- `sys.modules` as bit sets. Module k of the graph is bit k of `present` (it is in `sys.modules`) and of
`done` (its body has finished); name n is bound in module k iff bit `k * width + n` of `defined` is set.
`width` is fixed when the interpreter starts and must exceed every name id. -/
structure Interp where
  width : Nat
  present : Nat
  done : Nat
  defined : Nat
  deriving DecidableEq, Repr

inductive ImportErr where
  /-- `AttributeError: partially initialized module 'm' has no attribute 'n'` -/
  | attributeError (m n : Name)
  /-- `ImportError: cannot import name 'n' from partially initialized module 'm'` -/
  | cannotImportName (m n : Name)
  /-- an alias of module `m` is used although `m` was never imported (NameError) -/
  | notImported (m : Name)
  | untranslated (what : String)
  | outOfFuel
  deriving DecidableEq, Repr

deriving instance DecidableEq for Except

/-- Evaluate the number before going on (keeps kernel evaluation from piling up suspended updates);
logically the identity: `strict n k = k n`. -/
def strict {α : Type} (n : Nat) (k : Nat → α) : α :=
  match n with
  | 0 => k 0
  | m + 1 => k (m + 1)

@[simp] theorem strict_eq {α : Type} (n : Nat) (k : Nat → α) : strict n k = k n := by
  cases n <;> rfl

/-- A fresh interpreter: nothing imported. -/
def Interp.empty (width : Nat) : Interp := ⟨width, 0, 0, 0⟩

def Graph.node? (g : Graph) (m : Name) : Option Node := g[m]?

/-- The submodule `parent.leaf`, if the graph has it. -/
def Graph.sub? (g : Graph) (parent leaf : Name) : Option Node :=
  g.find? (fun n => n.parent == some parent && n.leaf == leaf)

/-- Node k is module k, parents come before their children, and every name id occurring in the graph is
below `width`. -/
def Graph.wellFormed (g : Graph) (width : Nat) : Bool :=
  g.zipIdx.all fun p =>
    p.1.name == p.2 && p.1.leaf < width &&
    (match p.1.parent with | none => true | some q => q < p.2) &&
    p.1.events.all fun e =>
      match e with
      | .importMod m => m < width
      | .fromImport m n | .useAttr m n _ => m < width && n < width
      | .define n => n < width
      | .unknown _ => true

/-- Module `m` is in `sys.modules` (possibly partially initialised). -/
def Interp.has (st : Interp) (m : Name) : Bool := st.present.testBit m

def Interp.isDone (st : Interp) (m : Name) : Bool := st.done.testBit m

/-- Name `n` is bound in module `m`. -/
def Interp.hasName (st : Interp) (m n : Name) : Bool :=
  decide (n < st.width) && st.defined.testBit (m * st.width + n)

/-- A fresh, empty, not yet initialised module object is put into `sys.modules`. -/
def Interp.insert (st : Interp) (m : Name) : Interp :=
  strict (st.present ||| (1 <<< m)) fun p => { st with present := p }

/-- Bind `n` in module `m`. -/
def Interp.defineIn (st : Interp) (m n : Name) : Interp :=
  strict (st.defined ||| (1 <<< (m * st.width + n))) fun d => { st with defined := d }

def Interp.markDone (st : Interp) (m : Name) : Interp :=
  strict (st.done ||| (1 <<< m)) fun d => { st with done := d }

/-- One event of the body of module `cur` (`none`: the statement is typed into `__main__`); `imp` is the
import statement's implementation. -/
def execEvent (g : Graph) (imp : Interp → Name → Except ImportErr Interp) (cur : Option Name) (st : Interp) :
    Event → Except ImportErr Interp
  | .importMod m => imp st m
  | .fromImport m n =>
    match g.node? m with
    | none => .ok st
    | some _ =>
      if !st.has m then .error (.notImported m)
      else if st.hasName m n then .ok st
      else match g.sub? m n with
        -- `_handle_fromlist` imports the submodule; IMPORT_FROM then finds it in `sys.modules`
        -- even when it is only partially initialised
        | some sub => imp st sub.name
        | none => .error (.cannotImportName m n)
  | .useAttr m n _ =>
    match g.node? m with
    | none => .ok st
    | some _ =>
      if !st.has m then .error (.notImported m)
      else if st.hasName m n then .ok st else .error (.attributeError m n)
  | .define n => .ok (match cur with | some c => st.defineIn c n | none => st)
  | .unknown w => .error (.untranslated w)

def execEvents (g : Graph) (imp : Interp → Name → Except ImportErr Interp) (cur : Option Name) :
    Interp → List Event → Except ImportErr Interp
  | st, [] => .ok st
  | st, e :: es =>
    match execEvent g imp cur st e with
    | .ok st' => execEvents g imp cur st' es
    | .error x => .error x

/-- `import m`. The fuel bounds the nesting depth of imports (at most one level per module of the graph). -/
def importModule (g : Graph) : Nat → Interp → Name → Except ImportErr Interp
  | 0, _, _ => .error .outOfFuel
  | fuel + 1, st, m =>
    match g.node? m with
    | none => .ok st
    | some node =>
      if st.has m then .ok st
      else
        match (match node.parent with | none => Except.ok st | some p => importModule g fuel st p) with
        | .error e => .error e
        | .ok st =>
          if st.has m then .ok st
          else
            match execEvents g (importModule g fuel) (some m) (st.insert m) node.events with
            | .error e => .error e
            | .ok st =>
              let st := st.markDone m
              .ok (match node.parent with | none => st | some p => st.defineIn p node.leaf)

/-- Enough fuel for any nesting the graph allows. -/
def Graph.fuel (g : Graph) : Nat := g.length + 2

/-- The statements a user may type first. -/
inductive EntryPoint where
  | importBs4                      -- import bs4
  | fromBs4ImportBeautifulSoup     -- from bs4 import BeautifulSoup
  | importBs4Element               -- import bs4.element
  | importSoupsieve                -- import soupsieve
  | importCssMatch                 -- import soupsieve.css_match
  | importCssParser                -- import soupsieve.css_parser
  | importCssTypes                 -- import soupsieve.css_types
  | fromSoupsieveImportStar        -- from soupsieve import *
  deriving DecidableEq, Repr

def entryPoints : List EntryPoint :=
  [.importBs4, .fromBs4ImportBeautifulSoup, .importBs4Element, .importSoupsieve, .importCssMatch,
   .importCssParser, .importCssTypes, .fromSoupsieveImportStar]

theorem mem_entryPoints (e : EntryPoint) : e ∈ entryPoints := by cases e <;> simp [entryPoints]

/-- The ids of the names the entry points mention (generated), and `soupsieve.__all__`. -/
structure EntryIds where
  bs4 : Name
  bs4Element : Name
  soupsieve : Name
  cssMatch : Name
  cssParser : Name
  cssTypes : Name
  beautifulSoup : Name
  all : List Name
  deriving Repr

/-- The events the statement performs in `__main__`. -/
def EntryPoint.events (ids : EntryIds) : EntryPoint → List Event
  | .importBs4 => [.importMod ids.bs4]
  | .fromBs4ImportBeautifulSoup => [.importMod ids.bs4, .fromImport ids.bs4 ids.beautifulSoup]
  | .importBs4Element => [.importMod ids.bs4Element]
  | .importSoupsieve => [.importMod ids.soupsieve]
  | .importCssMatch => [.importMod ids.cssMatch]
  | .importCssParser => [.importMod ids.cssParser]
  | .importCssTypes => [.importMod ids.cssTypes]
  | .fromSoupsieveImportStar => .importMod ids.soupsieve :: ids.all.map (fun n => .fromImport ids.soupsieve n)

/-- Python source of the statement (used by the correspondence harness). -/
def EntryPoint.source : EntryPoint → String
  | .importBs4 => "import bs4"
  | .fromBs4ImportBeautifulSoup => "from bs4 import BeautifulSoup"
  | .importBs4Element => "import bs4.element"
  | .importSoupsieve => "import soupsieve"
  | .importCssMatch => "import soupsieve.css_match"
  | .importCssParser => "import soupsieve.css_parser"
  | .importCssTypes => "import soupsieve.css_types"
  | .fromSoupsieveImportStar => "from soupsieve import *"

/-- Run one statement of `__main__`. -/
def execEntry (g : Graph) (ids : EntryIds) (st : Interp) (e : EntryPoint) : Except ImportErr Interp :=
  execEvents g (importModule g g.fuel) none st (e.events ids)

/-- Run a sequence of statements in one interpreter. -/
def run (g : Graph) (ids : EntryIds) : Interp → List EntryPoint → Except ImportErr Interp
  | st, [] => .ok st
  | st, e :: es =>
    match execEntry g ids st e with
    | .ok st' => run g ids st' es
    | .error x => .error x

/-- Every module that is in `sys.modules` is fully initialised. -/
def Interp.allDone (st : Interp) : Bool := st.present == st.done

/-- The modules in `sys.modules`. -/
def Interp.loaded (g : Graph) (st : Interp) : List Name := (List.range g.length).filter st.has

def isOk {ε α : Type} : Except ε α → Bool
  | .ok _ => true
  | .error _ => false

/-! ### Names as text (presentation only) -/

def nameOf (names : List String) (n : Name) : String := names.getD n s!"<name {n}>"

def idOf (names : List String) (s : String) : Name := names.idxOf s

def ImportErr.render (names : List String) : ImportErr → String
  | .attributeError m n =>
    s!"AttributeError: partially initialized module '{nameOf names m}' has no attribute '{nameOf names n}'"
  | .cannotImportName m n => s!"ImportError: cannot import name '{nameOf names n}' from '{nameOf names m}'"
  | .notImported m => s!"NameError: module '{nameOf names m}' used before it was imported"
  | .untranslated w => s!"untranslated statement: {w}"
  | .outOfFuel => "out of fuel"

/-- The modules in `sys.modules` with the names bound in each (as text), for the harness. -/
def Interp.render (g : Graph) (names : List String) (st : Interp) : List (String × Bool × List String) :=
  (st.loaded g).map fun m =>
    (nameOf names m, st.isDone m, ((List.range names.length).filter (st.hasName m)).map (nameOf names))

end SoupVerif.Imports
