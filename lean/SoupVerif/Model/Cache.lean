/-
  C15 model: (1) the object protocol of `css_types.Immutable` instances, driven by the
  generated `ClassInfo`; (2) `functools.lru_cache(maxsize=N)` as an observable state machine;
  (3) the wrapper `soupsieve.compile`, driven by the generated guard list / call arguments.

  Mathlib-free and executable.

  What is NOT modelled (trusted, checked by the correspondence harness only):
    * `object.__setattr__(o, ..)` (the bypass `Immutable.__init__` itself uses): the property is
      about the public protocol `o.x = v`, `del o.x`, `==`, `hash`, pickling, copying;
    * object identity: values of the model are compared structurally, so `copy`/`deepcopy`
      return "an equal object" and `compile(compiled)` is represented by the constructor
      `ApiResult.sameObject` rather than by pointer equality;
    * that CPython's `lru_cache` is the LRU machine below (keys compared with `==`/`hash`,
      `typed=False`): `Key` is therefore an abstract type whose Lean equality stands for Python's
      key equality (so `flags=True` and `flags=1`, or two `Namespaces` built from differently
      ordered dicts, are THE SAME model key).
-/
import SoupVerif.Generated.Classes
namespace SoupVerif
namespace Cache
open Gen.Classes

/-! ## 1. Object protocol -/

/-- What the model needs to know about Python values stored in slots. -/
structure ValOps (V : Type) where
  /-- Python `x == y` -/
  eq : V → V → Bool
  /-- `type(v)`, as an identity number -/
  ty : V → Nat
  /-- `hash(v)` -/
  hash : V → Nat
  /-- `hash(t)` of a type object -/
  tyHash : Nat → Nat
  /-- `hash(tuple(xs))` as a function of the component hashes -/
  tupleHash : List Nat → Nat
  /-- the `int` object with this value (what `_hash` holds) -/
  ofInt : Nat → V
  /-- `tuple(v)` -/
  toTuple : V → V
  /-- `()` -/
  emptyTuple : V
  /-- `v is None` -/
  isNone : V → Bool

/-- The laws of Python values the theorems rely on. -/
structure ValOps.Lawful {V : Type} (vo : ValOps V) : Prop where
  /-- the hash contract of the slot values: `x == y → hash(x) == hash(y)` -/
  hash_eq : ∀ x y, vo.eq x y = true → vo.hash x = vo.hash y
  /-- `tuple(t) == t` for a tuple `t` (as a value) -/
  toTuple_idem : ∀ v, vo.toTuple (vo.toTuple v) = vo.toTuple v
  toTuple_empty : vo.toTuple vo.emptyTuple = vo.emptyTuple
  toTuple_notNone : ∀ v, vo.isNone (vo.toTuple v) = false
  empty_notNone : vo.isNone vo.emptyTuple = false

/-- An instance: its class name and its attribute slots, by name. -/
structure Obj (V : Type) where
  cls : String
  slots : List (String × V)
  deriving DecidableEq, Repr

inductive ObjOp (V : Type)
  | getattr (n : String)
  | setattr (n : String) (v : V)
  | delattr (n : String)
  | hash
  | eq (other : Obj V)
  | reduce
  | copy
  | deepcopy
  deriving Repr

inductive Outcome (V : Type)
  /-- the statement completed (returned `None`) -/
  | done
  | value (v : V)
  | bool (b : Bool)
  /-- `_pickle`'s result: the class and the constructor arguments -/
  | reduced (cls : String) (args : List V)
  | object (o : Obj V)
  | attributeError
  /-- the class info carries an `unknown`/`inherited` kind the model does not predict -/
  | unsupported
  deriving DecidableEq, Repr

variable {V : Type}

def getattr (o : Obj V) (n : String) : Option V := o.slots.lookup n

/-- `object.__setattr__`: replace the slot, or add it. -/
def setSlot (n : String) (v : V) (slots : List (String × V)) : List (String × V) :=
  if slots.any (·.1 == n) then slots.map (fun p => if p.1 == n then (n, v) else p)
  else slots ++ [(n, v)]

/-- `object.__delattr__`. -/
def delSlot (n : String) (slots : List (String × V)) : List (String × V) :=
  slots.filter (·.1 != n)

/-- The value bound to one keyword of `super().__init__(k=<expr>)`. -/
def normKwarg (vo : ValOps V) : KwargExpr → V → V
  | .param, v => v
  | .tupleOfParam, v => vo.toTuple v
  | .tupleOfParamOrEmpty, v => if vo.isNone v then vo.emptyTuple else vo.toTuple v
  | .unknown, v => v

/-- The keyword arguments a subclass constructor hands to `Immutable.__init__`: the positional
    arguments are bound to `initParams`, every keyword expression is evaluated. -/
def kwargsBound (vo : ValOps V) (c : ClassInfo) (args : List V) : List (String × V) :=
  c.kwargs.filterMap fun k =>
    ((c.initParams.zip args).lookup k.param).map fun v => (k.name, normKwarg vo k.expr v)

/-- `hash(tuple(temp))` of `Immutable.__init__`. -/
def initHash (vo : ValOps V) (kind : InitHashKind) (kws : List (String × V)) : Nat :=
  match kind with
  | .tupleOfValuesOverKwargs => vo.tupleHash (kws.map fun p => vo.hash p.2)
  | .tupleOfTypeAndValueOverKwargs =>
      vo.tupleHash (kws.flatMap fun p => [vo.tyHash (vo.ty p.2), vo.hash p.2])
  | .unknown => 0

/-- `cls(*args)`: `Immutable.__init__` stores every keyword, then `_hash`. -/
def construct (vo : ValOps V) (c : ClassInfo) (args : List V) : Obj V :=
  let kws := kwargsBound vo c args
  { cls := c.name, slots := kws ++ [("_hash", vo.ofInt (initHash vo c.initHashKind kws))] }

/-- `[getattr(p, s) for s in names]`; `none` = `AttributeError`. -/
def getAll (o : Obj V) : List String → Option (List V)
  | [] => some []
  | n :: ns =>
    match getattr o n, getAll o ns with
    | some v, some vs => some (v :: vs)
    | _, _ => none

/-- `_pickle(p)`: `(p.__base__(), tuple(getattr(p, s) for s in p.__slots__[:-1]))`. -/
def reduce (c : ClassInfo) (o : Obj V) : Option (String × List V) :=
  (getAll o c.slotsButLast).map fun vs => (o.cls, vs)

/-- `Immutable.__eq__(self, other)`; no IR class has subclasses (`ClassInfo.subclasses = 0`), so
    `isinstance(other, self.__base__())` is "same class".  A missing attribute (which raises in
    Python) counts as `false`. -/
def eqObj (vo : ValOps V) (c : ClassInfo) (self other : Obj V) : Bool :=
  other.cls == self.cls &&
  (c.slots.filter (· != "_hash")).all fun k =>
    match getattr other k, getattr self k with
    | some x, some y => vo.eq x y
    | _, _ => false

/-- `copy.copy`/`copy.deepcopy`/`pickle.loads(pickle.dumps(..))`: `cls(*state)` on the reduced
    state (component values are values; they have no identity in the model). -/
def rebuild (vo : ValOps V) (c : ClassInfo) (o : Obj V) : Option (Obj V) :=
  (reduce c o).map fun r => construct vo c r.2

/-- One public operation on an instance of class `c`: the new state of the object and what
    the caller observes. -/
def applyOp (vo : ValOps V) (c : ClassInfo) (o : Obj V) : ObjOp V → Obj V × Outcome V
  | .getattr n =>
    match getattr o n with
    | some v => (o, .value v)
    | none => (o, .attributeError)
  | .setattr n v =>
    if c.setattrKind = .raisesAttributeError then (o, .attributeError)
    else ({ o with slots := setSlot n v o.slots }, .done)
  | .delattr n =>
    if c.delattrKind = .raisesAttributeError then (o, .attributeError)
    else if (getattr o n).isSome then ({ o with slots := delSlot n o.slots }, .done)
    else (o, .attributeError)
  | .hash =>
    if c.hashKind = .returnsStoredHash then
      match getattr o "_hash" with
      | some v => (o, .value v)
      | none => (o, .attributeError)
    else (o, .unsupported)
  | .eq other =>
    if c.eqKind = .allSlotsButHash then (o, .bool (eqObj vo c o other)) else (o, .unsupported)
  | .reduce =>
    if pickleKind = .baseAndSlotsButLast ∧ c.registered = true then
      match reduce c o with
      | some r => (o, .reduced r.1 r.2)
      | none => (o, .attributeError)
    else (o, .unsupported)
  | .copy | .deepcopy =>
    if pickleKind = .baseAndSlotsButLast ∧ c.registered = true then
      match rebuild vo c o with
      | some o' => (o, .object o')
      | none => (o, .attributeError)
    else (o, .unsupported)

/-- The object after a sequence of operations. -/
def run (vo : ValOps V) (c : ClassInfo) (ops : List (ObjOp V)) (o : Obj V) : Obj V :=
  ops.foldl (fun o op => (applyOp vo c o op).1) o

/-- What each operation of a sequence returned. -/
def outcomes (vo : ValOps V) (c : ClassInfo) : List (ObjOp V) → Obj V → List (Outcome V)
  | [], _ => []
  | op :: ops, o => (applyOp vo c o op).2 :: outcomes vo c ops (applyOp vo c o op).1

/-! ### A concrete value type, for examples -/

/-- A few Python scalars and tuples of scalars. -/
inductive PVal
  | none
  | int (n : Nat)
  | bool (b : Bool)
  | str (s : String)
  | tuple (xs : List Nat)
  deriving DecidableEq, Repr

namespace PVal
/-- numeric value of an `int`/`bool` -/
def num : PVal → Option Nat
  | .int n => some n
  | .bool b => some (if b then 1 else 0)
  | _ => Option.none

/-- Python `==`: `True == 1`, `False == 0`. -/
def pyEq (x y : PVal) : Bool :=
  match x.num, y.num with
  | some a, some b => a == b
  | Option.none, Option.none => x == y
  | _, _ => false

def pyType : PVal → Nat
  | .none => 0 | .int _ => 1 | .bool _ => 2 | .str _ => 3 | .tuple _ => 4

def pyHash : PVal → Nat
  | .none => 7
  | .int n => n
  | .bool b => if b then 1 else 0
  | .str s => s.length + 11
  | .tuple xs => xs.foldl (fun h x => 31 * h + x) 17

def ops : ValOps PVal where
  eq := pyEq
  ty := pyType
  hash := pyHash
  tyHash := fun t => 1000 + t
  tupleHash := fun hs => hs.foldl (fun h x => 1000003 * h + x) 5381
  ofInt := .int
  toTuple := fun v => match v with | .tuple xs => .tuple xs | .str s => .tuple (s.toList.map Char.toNat) | _ => .tuple []
  emptyTuple := .tuple []
  isNone := fun v => v == .none
end PVal

/-! ### `ImmutableDict` -/

/-- An `ImmutableDict` over abstract keys/values (numbers): its items in insertion order. -/
abbrev Items := List (Nat × Nat)

/-- the order `sorted(items)` uses: lexicographic on `(key, value)` -/
def itemLe (a b : Nat × Nat) : Bool := a.1 < b.1 || (a.1 == b.1 && a.2 ≤ b.2)

/-- `Mapping.__eq__`: `dict(self.items()) == dict(other.items())`. -/
def dictEq (m₁ m₂ : Items) : Bool :=
  m₁.length == m₂.length && m₁.all fun p => m₂.lookup p.1 == some p.2

/-- `ImmutableDict._hash`, driven by the generated kind: a tuple hash over the SORTED items. -/
def dictHash (kind : DictHashKind) (tupleHash : List Nat → Nat) (itemHash : Nat × Nat → Nat)
    (m : Items) : Option Nat :=
  match kind with
  | .sortedItems => some (tupleHash ((m.mergeSort itemLe).map itemHash))
  | .sortedItemsTypeAndValue => some (tupleHash ((m.mergeSort itemLe).map itemHash))
  | .unknown => Option.none

/-! ## 2. `functools.lru_cache(maxsize = N)` -/

/-- The key of `_cached_css_compile`: its four arguments. Lean equality of `α` stands for
    Python's `==`-and-`hash` equality of the argument objects. -/
structure Key (α : Type) where
  pattern : α
  namespaces : α
  custom : α
  flags : α
  deriving DecidableEq, Repr

section LRU
variable {K E W : Type} [DecidableEq K]

/-- Cache state: entries most-recently-used first, and the `cache_info()` counters. -/
structure State (K W : Type) where
  entries : List (K × W)
  hits : Nat
  misses : Nat
  currsize : Nat
  deriving DecidableEq, Repr

def State.empty : State K W := ⟨[], 0, 0, 0⟩

inductive CacheOp (K : Type)
  | compile (k : K)
  | purge
  deriving Repr

def find (k : K) : List (K × W) → Option W
  | [] => none
  | (k', v) :: rest => if k' = k then some v else find k rest

def remove (k : K) : List (K × W) → List (K × W)
  | [] => []
  | (k', v) :: rest => if k' = k then rest else (k', v) :: remove k rest

/-- One call of the wrapped function with key `k`.
    * hit: the entry moves to the front, `hits` is incremented, the STORED value is returned;
    * miss: `misses` is incremented, the user function runs; an exception propagates and
      nothing is stored; otherwise the new entry goes to the front and, when the cache was
      full, the entry at the back (least recently used) is evicted. -/
def compile (N : Nat) (parse : K → Except E W) (s : State K W) (k : K) : State K W × Except E W :=
  match find k s.entries with
  | some v => ({ s with entries := (k, v) :: remove k s.entries, hits := s.hits + 1 }, .ok v)
  | none =>
    match parse k with
    | .error e => ({ s with misses := s.misses + 1 }, .error e)
    | .ok v =>
      if s.entries.length + 1 > N then
        ({ s with entries := ((k, v) :: s.entries).dropLast, misses := s.misses + 1,
                  currsize := s.currsize }, .ok v)
      else
        ({ s with entries := (k, v) :: s.entries, misses := s.misses + 1,
                  currsize := s.currsize + 1 }, .ok v)

/-- `cache_clear()`: entries and counters are reset. -/
def purge (_s : State K W) : State K W := State.empty

def step (N : Nat) (parse : K → Except E W) (s : State K W) : CacheOp K → State K W
  | .compile k => (compile N parse s k).1
  | .purge => purge s

def runFrom (N : Nat) (parse : K → Except E W) (s : State K W) (ops : List (CacheOp K)) : State K W :=
  ops.foldl (step N parse) s

/-- The cache after a history of calls, starting empty. -/
def runOps (N : Nat) (parse : K → Except E W) (ops : List (CacheOp K)) : State K W :=
  runFrom N parse State.empty ops

/-- Keys from most to least recently used (specification of "recency", independent of the bound):
    a successful `compile k` moves `k` to the front, a failing one changes nothing, `purge`
    forgets everything. -/
def recStep (parse : K → Except E W) (r : List K) : CacheOp K → List K
  | .compile k => (match parse k with | .ok _ => k :: r.filter (· ≠ k) | .error _ => r)
  | .purge => []

def recency (parse : K → Except E W) (ops : List (CacheOp K)) : List K :=
  ops.foldl (recStep parse) []

end LRU

/-! ## 3. `soupsieve.compile` -/

/-- An argument of `compile`: `None`, an int, or some other object. -/
inductive PyArg (A : Type)
  | none
  | int (n : Int)
  | val (a : A)
  deriving DecidableEq, Repr

/-- `namespaces`, `flags`, `custom` with their defaults. -/
structure CompileArgs (A : Type) where
  namespaces : PyArg A := .none
  flags : PyArg A := .int 0
  custom : PyArg A := .none
  deriving DecidableEq, Repr

inductive PatternArg (A O : Type)
  | str (p : A)
  | compiled (o : O)
  deriving DecidableEq, Repr

inductive ApiResult (A O : Type)
  /-- `return pattern`: the very object that was passed -/
  | sameObject (o : O)
  | raised (exc : String) (which : String)
  /-- `cp._cached_css_compile(*args)` -/
  | cached (args : List (PyArg A))
  | unsupported
  deriving DecidableEq, Repr

/-- The part of the generated data `compileApi` is driven by. -/
structure CompileInfo where
  shapeOk : Bool
  guards : List CompileGuard
  callArgs : List CallArg
  deriving DecidableEq, Repr

def generatedCompileInfo : CompileInfo :=
  { shapeOk := compileShapeOk && compilePassthroughTestOk && compilePassthroughReturnsPattern &&
               compileCallTargetOk,
    guards := compileGuards, callArgs := compileCallArgs }

/-- Truthiness / wrapping of argument objects. -/
structure ApiOps (A : Type) where
  truthy : A → Bool
  /-- `ct.Namespaces(x)` / `ct.CustomSelectors(x)` -/
  wrap : String → A → A

variable {A O : Type}

def argOf (pat : Option (PyArg A)) (a : CompileArgs A) : String → Option (PyArg A)
  | "pattern" => pat
  | "namespaces" => some a.namespaces
  | "flags" => some a.flags
  | "custom" => some a.custom
  | _ => Option.none

def guardFires (ao : ApiOps A) : GuardTest → PyArg A → Option Bool
  | .truthy, .none => some false
  | .truthy, .int n => some (n != 0)
  | .truthy, .val a => some (ao.truthy a)
  | .isNotNone, .none => some false
  | .isNotNone, _ => some true
  | .unknown, _ => Option.none

/-- The `if / elif / elif` chain: the first guard that fires, in source order. -/
def firstGuard (ao : ApiOps A) (pat : Option (PyArg A)) (a : CompileArgs A) :
    List CompileGuard → Option (Option CompileGuard)
  | [] => some Option.none
  | g :: gs =>
    match argOf pat a g.param with
    | Option.none => Option.none
    | some v =>
      match guardFires ao g.test v with
      | Option.none => Option.none
      | some true => some (some g)
      | some false => firstGuard ao pat a gs

def evalCallArg (ao : ApiOps A) (pat : Option (PyArg A)) (a : CompileArgs A) : CallArg → Option (PyArg A)
  | .param p => argOf pat a p
  | .wrapIfNotNone cls p =>
    match argOf pat a p with
    | some (.val x) => some (.val (ao.wrap cls x))
    | some .none => some .none
    | some (.int n) => some (.int n)      -- `C(5)` raises in Python; never reached with dict arguments
    | Option.none => Option.none
  | .unknown => Option.none

def evalCallArgs (ao : ApiOps A) (pat : Option (PyArg A)) (a : CompileArgs A) : List CallArg → Option (List (PyArg A))
  | [] => some []
  | c :: cs =>
    match evalCallArg ao pat a c, evalCallArgs ao pat a cs with
    | some v, some vs => some (v :: vs)
    | _, _ => Option.none

/-- `soupsieve.compile(pattern, namespaces, flags, custom=…)`. -/
def compileApi (ao : ApiOps A) (ci : CompileInfo) (pat : PatternArg A O) (a : CompileArgs A) : ApiResult A O :=
  if !ci.shapeOk then .unsupported else
  match pat with
  | .compiled o =>
    -- inside the branch `pattern` is the compiled object: a guard that looked at it is not modelled
    match firstGuard ao Option.none a ci.guards with
    | Option.none => .unsupported
    | some (some g) => .raised g.raises g.param
    | some Option.none => .sameObject o
  | .str p =>
    match evalCallArgs ao (some (.val p)) a ci.callArgs with
    | some vs => .cached vs
    | Option.none => .unsupported

end Cache
end SoupVerif
