/-
  The loop of `parse_selectors` as a one-step function (definitions only, no Mathlib):

  * `Step`, `stepOf`, `runStep`: one iteration of the `while True` loop of `parse_selectors`
    with the two recursive calls (`parse_selectors` for a nested list / a custom selector, and the
    next iteration) made explicit.  `Lemmas/ParserProgress/Step.lean` proves that the model's
    `parseLoop (fuel+1)` IS `runStep … (stepOf …)` (`parseLoop_succ`).
  * `initLS`, `cleanupLS`, `finalSels`, `finishSel`: the parts of `parse_selectors` before and
    after the loop (`parseSelectors_succ`).

  These definitions used to live in `Lemmas/ParserProgress/Step.lean`; they are here so that
  executable code (the cost twin of `Spec/ParseCost.lean`, the driver) can use them.
-/
import SoupVerif.Model.Parser
namespace SoupVerif
namespace ParserProgress
open Rx SoupVerif.Parser

abbrev SelRes := SelList × Nat × Custom

/-- One iteration of the `parse_selectors` loop with the recursive calls made explicit. -/
inductive Step where
  | done (r : M LS)
  | cont (s : LS)
  | nest (pat : Str) (pos idx fl : Nat) (c : Custom) (k : SelRes → LS)

def runStep (recSel : Str → Nat → Nat → Nat → Custom → M SelRes) (recLoop : LS → M LS) : Step → M LS
  | .done r => r
  | .cont s => recLoop s
  | .nest pat pos idx fl c k =>
    match recSel pat pos idx fl c with
    | .error e => .error e
    | .ok r => recLoop (k r)

def stepOf (env : CharEnv) (L : Lexicon) (B : Builtins) (pattern : Str) (flags : Nat) (s : LS) : Step :=
    let P : PEnv := ⟨env, L, B, pattern⟩
    let has (f : Nat) : Bool := (flags &&& f) != 0
    match nextToken P s.pos with
    | .error e => .done (.error e)
    | .ok none => .done (.ok s)
    | .ok (some t) =>
      let s := { s with pos := t.stop }
      let continue_ (s : LS) : Step := .cont { s with index := t.stop }
      let key := t.name
      if key == "at_rule" then .done (.error (P.err .atRule t.start))
      else if key == "amp" then continue_ { s with sel := s.sel.orFlags SEL_SCOPE, hasSelector := true }
      else if key == "pseudo_class_custom" then
        let pseudo := lower (cssUnescape env L ((t.group P "name").getD []))
        match s.custom.get? pseudo with
        | none => .done (.error (P.err .undefinedCustom t.stop))
        | some (.compiled l) => continue_ { s with sel := s.sel.addSub l, hasSelector := true }
        | some (.src text) =>
          let custom' := s.custom.erase pseudo
          let pat2 := text.map (fun c => if c == 0 then 0xFFFD else c)
          let P2 : PEnv := ⟨env, L, B, pat2⟩
          .nest pat2 (startIndex P2) 0 FLG_PSEUDO custom' fun (l, _, custom'') =>
            { s with sel := s.sel.addSub l, hasSelector := true, custom := custom''.set pseudo (.compiled l), index := t.stop }
      else if key == "pseudo_class" then
        let pseudo := lower (cssUnescape env L ((t.group P "name").getD []))
        let complex := match t.group P "open" with
          | some o => !o.isEmpty
          | none => false
        if complex && inList L.pseudoComplex pseudo then
          let fl := FLG_PSEUDO ||| FLG_OPEN |||
            (if pseudo == ":not".toStr then FLG_NOT
             else if pseudo == ":has".toStr then FLG_RELATIVE
             else if pseudo == ":where".toStr || pseudo == ":is".toStr then FLG_FORGIVE else 0)
          .nest pattern t.stop t.stop fl s.custom fun (l, pos', custom') =>
            { s with sel := s.sel.addSub l, hasSelector := true, pos := pos', custom := custom', index := t.stop }
        else if !complex && inList L.pseudoSimple pseudo then
          continue_ { s with sel := applySimplePseudo P pseudo s.sel, hasSelector := true }
        else if complex && inList L.pseudoComplexNoMatch pseudo then
          .nest pattern t.stop t.stop (FLG_PSEUDO ||| FLG_OPEN) s.custom fun (_, pos', custom') =>
            { s with sel := s.sel.setNoMatch, hasSelector := true, pos := pos', custom := custom', index := t.stop }
        else if !complex && inList L.pseudoSimpleNoMatch pseudo then
          continue_ { s with sel := s.sel.setNoMatch, hasSelector := true }
        else if inList L.pseudoSupported pseudo then .done (.error (P.err .invalidPseudoSyntax t.start))
        else .done (.error (P.err .unknownPseudo t.start))
      else if key == "pseudo_element" then .done (.error (P.err .pseudoElement t.start))
      else if key == "pseudo_contains" then
        let pseudo := lower (cssUnescape env L ((t.group P "name").getD []))
        let own := pseudo == ":-soup-contains-own".toStr
        let vals := parseValues P ((t.group P "values").getD [])
        continue_ { s with sel := s.sel.addContains ⟨vals, own⟩, hasSelector := true }
      else if key == "pseudo_nth_type" || key == "pseudo_nth_child" then
        let isChild := match t.group P "pseudo_nth_child" with
          | some g => !g.isEmpty
          | none => false
        let name := lower (cssUnescape env L ((t.group P "name").getD []))
        let content := lower ((t.group P (if isChild then "nth_child" else "nth_type")).getD [])
        let (a, var, b) := parseAnB P content
        if isChild then
          let ofPresent := match t.group P "of" with
            | some g => !g.isEmpty
            | none => false
          let k : SelRes → LS := fun (nthSel, pos', custom') =>
            let sel :=
              if name == ":nth-child".toStr then s.sel.addNth [nthOf a var b false false nthSel]
              else if name == ":nth-last-child".toStr then s.sel.addNth [nthOf a var b false true nthSel]
              else s.sel
            { s with sel := sel, hasSelector := true, pos := pos', custom := custom', index := t.stop }
          if ofPresent then .nest pattern t.stop t.stop (FLG_PSEUDO ||| FLG_OPEN) s.custom k
          else .cont (k (B.nthOfSDefault, s.pos, s.custom))
        else
          let e := SelList.mk [] false false
          let sel :=
            if name == ":nth-of-type".toStr then s.sel.addNth [nthOf a var b true false e]
            else if name == ":nth-last-of-type".toStr then s.sel.addNth [nthOf a var b true true e]
            else s.sel
          continue_ { s with sel := sel, hasSelector := true }
      else if key == "pseudo_lang" then
        let vals := parseValues P ((t.group P "values").getD [])
        continue_ { s with sel := s.sel.addLang ⟨vals⟩, hasSelector := true }
      else if key == "pseudo_dir" then
        let v := if lower ((t.group P "dir").getD []) == "ltr".toStr then SEL_DIR_LTR else SEL_DIR_RTL
        continue_ { s with sel := s.sel.addSub (.mk [(SelB.empty.setFlags v).freeze] false true), hasSelector := true }
      else if key == "pseudo_close" then
        if !s.hasSelector && !has FLG_FORGIVE then .done (.error (P.err .expectedSelector t.start))
        else
          let s := if !s.hasSelector then { s with sel := s.sel.setNoMatch } else s
          if has FLG_OPEN then .done (.ok { s with closed := true })
          else .done (.error (P.err .unmatchedClose t.start))
      else if key == "combine" then
        let r := if has FLG_RELATIVE then parseHasCombinator P t s s.index
                 else parseCombinator P t s (has FLG_PSEUDO) (has FLG_FORGIVE) s.index
        match r with
        | .error e => .done (.error e)
        | .ok s' => continue_ s'
      else if key == "attribute" then
        continue_ { s with sel := parseAttribute P t s.sel, hasSelector := true }
      else if key == "tag" then
        if s.hasSelector then .done (.error (P.err .tagNotAtStart t.start))
        else
          let pfx : Option Str := match t.group P "tag_ns" with
            | some n => if n.isEmpty then none else some (cssUnescape env L (n.take (n.length - 1)))
            | none => none
          let name := cssUnescape env L ((t.group P "tag_name").getD [])
          continue_ { s with sel := s.sel.setTag ⟨name, pfx⟩, hasSelector := true }
      else if key == "class" || key == "id" then
        let text := slice pattern t.start t.stop
        let v := cssUnescape env L (text.drop 1)
        let sel := if text.head? == some 46 then s.sel.addClass v else s.sel.addId v
        continue_ { s with sel := sel, hasSelector := true }
      else continue_ s

/-- "Cleanup completed selector piece" at the end of `parse_selectors`. -/
def cleanupLS (flags : Nat) (s : LS) : LS :=
  let has (f : Nat) : Bool := (flags &&& f) != 0
  if s.hasSelector then
    let sel := if s.sel.tag.isNone && !has FLG_PSEUDO then s.sel.setTag ⟨[42], none⟩ else s.sel
    if has FLG_RELATIVE then
      { s with selectors := modifyLast s.selectors (·.addRelations [sel.setRelType s.relType]) }
    else
      { s with selectors := s.selectors ++ [sel.addRelations s.relations], relations := [] }
  else if has FLG_FORGIVE && (s.selectors.isEmpty || s.relations.isEmpty) then
    { s with selectors := s.selectors ++ [s.sel.setNoMatch], relations := [], hasSelector := true }
  else s

/-- The flag post-processing of the last selector. -/
def finalSels (flags : Nat) (sels : List SelB) : List SelB :=
  let has (f : Nat) : Bool := (flags &&& f) != 0
  let setLast (f : Nat) (sels : List SelB) : List SelB := modifyLast sels (·.setFlags f)
  let sels := if has FLG_DEFAULT then setLast SEL_DEFAULT sels else sels
  let sels := if has FLG_INDETERMINATE then setLast SEL_INDETERMINATE sels else sels
  let sels := if has FLG_IN_RANGE then setLast SEL_IN_RANGE sels else sels
  let sels := if has FLG_OUT_OF_RANGE then setLast SEL_OUT_OF_RANGE sels else sels
  let sels := if has FLG_PLACEHOLDER_SHOWN then setLast SEL_PLACEHOLDER_SHOWN sels else sels
  sels

/-- The part of `parse_selectors` after the loop. -/
def finishSel (env : CharEnv) (L : Lexicon) (B : Builtins) (pattern : Str) (flags : Nat) (s : LS) : M SelRes :=
  let has (f : Nat) : Bool := (flags &&& f) != 0
  let P : PEnv := ⟨env, L, B, pattern⟩
  if has FLG_OPEN && !s.closed then .error (P.err .unclosedPseudo s.index)
  else
    let s' := cleanupLS flags s
    if !s'.hasSelector then .error (P.err .expectedSelector s'.index)
    else .ok (.mk ((finalSels flags s'.selectors).map SelB.freeze) (has FLG_NOT) s'.isHtml, s'.pos, s'.custom)

def initLS (pos index flags : Nat) (custom : Custom) : LS :=
  { selectors := if (flags &&& FLG_RELATIVE) != 0 then [SelB.empty] else [], isHtml := (flags &&& FLG_HTML) != 0,
    index := index, pos := pos, custom := custom }


end ParserProgress
end SoupVerif
