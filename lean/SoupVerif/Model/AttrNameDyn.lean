/-
  Values and control shapes for the translation of the GENERATOR `CSSMatch.match_attribute_name` by
  `gen/gen_py_attrname.py` (`Generated/PyAttrName.lean`).

  Expressions are translated over the dynamic values `PyMatchSel.PV` of `Model/MatchDyn.lean` (Python
  truthiness is the point of this function: `if prefix:`, `not ns`, `namespace is None`, a conditional
  expression); this file adds

    * the accessors the function uses: `self.supports_namespaces()`, the key `k` of an attribute, the
      pair `self.split_namespace(el, k)`;
    * `Pre`: the outcome of the statements BEFORE the loop (bare `return` / fall through to the loop with
      a value for the one local the loop reads / an exception);
    * `Yields`: what a generator produced (the values in order, and whether it stopped by raising), and
      `pyYieldLoop`: `for k, v in self.iter_attributes(el): <body>` where the translated body says, for
      one attribute, whether the iteration yields `v` (the translator checks that an iteration yields at
      most once and yields nothing but `v`).

  Mathlib-free.
-/
import SoupVerif.Model.MatchDyn
namespace SoupVerif
namespace PyAttrName
open PyMatchSel

/-- `self.supports_namespaces()` -/
def pySupportsNs (c : Ctx) : PV := .bool c.supportsNamespaces

/-- the key `k` of an item of `self.iter_attributes(el)` (a `str`, possibly a `NamespacedAttribute`) -/
def pyKey (x : Attr) : PV := .str x.key

/-- `self.split_namespace(el, k)` = `(getattr(k, 'namespace', None), getattr(k, 'name', None))` -/
def pySplitNamespace (x : Attr) : PV × PV := (PV.ofOptStr x.kns, PV.ofOptStr x.kname)

/-- Outcome of the statements in front of the loop. -/
inductive Pre where
  | ret              -- bare `return`: the generator yields nothing
  | go (ns : PV)     -- reaches the loop; `ns` = the value of the local the loop reads
  | err              -- an exception
  deriving Repr, DecidableEq, Inhabited

/-- `if c: a else: b` on outcomes -/
def Pre.ite (c : PV) (a b : Pre) : Pre :=
  match c with
  | .err => .err
  | c => if c.truthy then a else b

/-- What a generator produced: the yielded values in order; `raised` = it ended with an exception. -/
structure Yields where
  vals : List NVal
  raised : Bool
  deriving Repr, DecidableEq, Inhabited

def Yields.done (l : List NVal) : Yields := ⟨l, false⟩

/-- `if c: a else: b` on generators -/
def Yields.ite (c : PV) (a b : Yields) : Yields :=
  match c with
  | .err => ⟨[], true⟩
  | c => if c.truthy then a else b

/-- statements in front of the loop, then the loop -/
def Pre.run (p : Pre) (loop : PV → Yields) : Yields :=
  match p with
  | .ret => Yields.done []
  | .go ns => loop ns
  | .err => ⟨[], true⟩

/-- `for k, v in self.iter_attributes(el): <body>`; `f x` = does the body yield `v` for the item `x`
    (`err`: the body raises — the generator stops there). -/
def pyYieldLoop (f : Attr → PV) : List Attr → Yields
  | [] => Yields.done []
  | x :: rest =>
    match f x with
    | .err => ⟨[], true⟩
    | r =>
      let t := pyYieldLoop f rest
      if r.truthy then ⟨normalizeValue x.val :: t.vals, t.raised⟩ else t

/-- `self.iter_attributes(el)`: the items of `el.attrs` in order (values normalised by `pyYieldLoop`). -/
def pyIterAttributes (e : Elem) : List Attr := e.attrs

end PyAttrName
end SoupVerif
