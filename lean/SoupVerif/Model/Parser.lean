/-
  `css_parser.py`: tokenizer (`selector_iter`), the state machine `parse_selectors` and its
  helpers, `css_unescape`, `process_custom` and `_Selector.freeze`.

  The token regular expressions are *not* re-written here: the tokenizer runs the regex engine
  model (`Model/Regex.lean`) on the ASTs that the translator extracts from the source on every
  run (`Generated/Regexes.lean`), passed in through `Lexicon`.  The pre-compiled selector lists
  (`CSS_LINK` …) come from `Generated/Builtins.lean` through `Builtins`.
-/
import SoupVerif.Model.IR
namespace SoupVerif
namespace Parser

/-- Everything the parser reads from module level. -/
structure TokenRx where
  name : String
  rx : Rx
  groups : List (String × Nat)
  deriving Inhabited

structure Lexicon where
  /-- `CSSParser.css_tokens` in order; `special` marks the `SpecialPseudoPattern` slot. -/
  tokens : List (TokenRx × Bool)
  specialName : TokenRx
  /-- lower-cased pseudo-class name ↦ sub-pattern of the special slot -/
  special : List (Str × TokenRx)
  reCssEsc : Rx
  reCssStrEsc : Rx
  reNth : TokenRx
  reValues : TokenRx
  reWs : Rx
  reWsBegin : Rx
  reWsEnd : Rx
  reCustom : Rx
  pseudoSimple : List Str
  pseudoSimpleNoMatch : List Str
  pseudoComplex : List Str
  pseudoComplexNoMatch : List Str
  pseudoSupported : List Str

structure Builtins where
  link : SelList
  checked : SelList
  dflt : SelList
  indeterminate : SelList
  disabled : SelList
  enabled : SelList
  required : SelList
  optional : SelList
  placeholderShown : SelList
  readWrite : SelList
  readOnly : SelList
  inRange : SelList
  outOfRange : SelList
  nthOfSDefault : SelList

-- parse flags (css_parser.FLG_*)
def FLG_PSEUDO : Nat := 0x01
def FLG_NOT : Nat := 0x02
def FLG_RELATIVE : Nat := 0x04
def FLG_DEFAULT : Nat := 0x08
def FLG_HTML : Nat := 0x10
def FLG_INDETERMINATE : Nat := 0x20
def FLG_OPEN : Nat := 0x40
def FLG_IN_RANGE : Nat := 0x80
def FLG_OUT_OF_RANGE : Nat := 0x100
def FLG_PLACEHOLDER_SHOWN : Nat := 0x200
def FLG_FORGIVE : Nat := 0x400

/-- Which `raise` site. The number is what the harness maps Python's message text to. -/
inductive ErrKind where
  | undefinedCustom | invalidPseudoSyntax | unknownPseudo | multipleCombinators | combinatorNeedsSelector
  | expectedSelector | unmatchedClose | tagNotAtStart | unclosedPseudo
  | malformedAttribute | malformedClass | malformedId | malformedPseudo | invalidCharacter
  | badCustomName
  | atRule | pseudoElement            -- NotImplementedError
  | customCollision                   -- KeyError
  | pyBug (what : String)             -- an exception CPython would raise that is none of the above
  deriving Repr, DecidableEq, Inhabited

structure Err where
  kind : ErrKind
  /-- The (NUL-replaced) pattern of the parser that raised, and the offset passed. -/
  pattern : Str
  offset : Nat
  deriving Repr, Inhabited

abbrev M := Except Err

-- ---------------------------------------------------------------------------- strings

def slice (s : Str) (a b : Nat) : Str := (s.drop a).take (b - a)

/-- `m.group(name)`. -/
def group (s : Str) (t : TokenRx) (caps : Caps) (name : String) : Option Str :=
  match t.groups.find? (fun g => g.1 == name) with
  | some (_, idx) => (Rx.capSpan caps idx).map fun (a, b) => slice s a b
  | none => none

def hexVal (c : Nat) : Option Nat :=
  if 48 ≤ c && c ≤ 57 then some (c - 48)
  else if 97 ≤ c && c ≤ 102 then some (c - 87)
  else if 65 ≤ c && c ≤ 70 then some (c - 55)
  else none

/-- `int(text, 16)` on the leading hex digits. -/
def hexPrefixVal (s : Str) : Nat :=
  (s.takeWhile (fun c => (hexVal c).isSome)).foldl (fun acc c => acc * 16 + (hexVal c).getD 0) 0

/-- `pattern.sub(replace, s)` with the replacement computed from the captures. -/
def subWith (env : CharEnv) (r : Rx) (f : Caps → Str) (s : Str) : Str :=
  go (s.length + 1) 0
where
  go : Nat → Nat → Str
    | 0, _ => []
    | fuel + 1, i =>
      if i > s.length then [] else
      match Rx.matchAt env r s i with
      | some (j, caps) =>
        if j > i then f caps ++ go fuel j
        else f caps ++ (match s[i]? with | some ch => ch :: go fuel (i + 1) | none => [])
      | none => match s[i]? with
        | some ch => ch :: go fuel (i + 1)
        | none => []

/-- `css_unescape(content, string)`. -/
def cssUnescape (env : CharEnv) (L : Lexicon) (content : Str) (string : Bool := false) : Str :=
  subWith env (if string then L.reCssStrEsc else L.reCssEsc) (fun caps =>
    match Rx.capSpan caps 1 with
    | some (a, b) =>
      -- group 1: hex escape (the text after the backslash starts with the digits)
      if b > a then
        let cp := hexPrefixVal (slice content (a + 1) b)
        let cp := if cp == 0 || cp > 0x10FFFF then 0xFFFD else cp
        [cp]
      else []
    | none =>
      match Rx.capSpan caps 2 with
      | some (a, b) => slice content (a + 1) b
      | none =>
        match Rx.capSpan caps 3 with
        | some _ => [0xFFFD]
        | none => []) content

-- ---------------------------------------------------------------------------- _Selector

/-- `_Selector`: the mutable builder of one compound selector. -/
inductive SelB where
  | mk (tag : Option SelTag) (ids classes : List Str) (attributes : List AttrSel) (nth : List NthSel)
       (selectors : List SelList) (relations : List SelB) (relType : Rel) (contains : List ContainsSel)
       (lang : List LangSel) (flags : Nat) (noMatch : Bool)

namespace SelB
def empty : SelB := .mk none [] [] [] [] [] [] .none [] [] 0 false
instance : Inhabited SelB := ⟨empty⟩
def tag : SelB → Option SelTag | .mk t _ _ _ _ _ _ _ _ _ _ _ => t
def relations : SelB → List SelB | .mk _ _ _ _ _ _ r _ _ _ _ _ => r
def setTag (t : SelTag) : SelB → SelB
  | .mk _ a b c d e f g h i j k => .mk (some t) a b c d e f g h i j k
def addId (x : Str) : SelB → SelB
  | .mk t a b c d e f g h i j k => .mk t (a ++ [x]) b c d e f g h i j k
def addClass (x : Str) : SelB → SelB
  | .mk t a b c d e f g h i j k => .mk t a (b ++ [x]) c d e f g h i j k
def addAttr (x : AttrSel) : SelB → SelB
  | .mk t a b c d e f g h i j k => .mk t a b (c ++ [x]) d e f g h i j k
def addNth (x : List NthSel) : SelB → SelB
  | .mk t a b c d e f g h i j k => .mk t a b c (d ++ x) e f g h i j k
def addSub (x : SelList) : SelB → SelB
  | .mk t a b c d e f g h i j k => .mk t a b c d (e ++ [x]) f g h i j k
def addRelations (x : List SelB) : SelB → SelB
  | .mk t a b c d e f g h i j k => .mk t a b c d e (f ++ x) g h i j k
def setRelType (x : Rel) : SelB → SelB
  | .mk t a b c d e f _ h i j k => .mk t a b c d e f x h i j k
def addContains (x : ContainsSel) : SelB → SelB
  | .mk t a b c d e f g h i j k => .mk t a b c d e f g (h ++ [x]) i j k
def addLang (x : LangSel) : SelB → SelB
  | .mk t a b c d e f g h i j k => .mk t a b c d e f g h (i ++ [x]) j k
def orFlags (x : Nat) : SelB → SelB
  | .mk t a b c d e f g h i j k => .mk t a b c d e f g h i (j ||| x) k
def setFlags (x : Nat) : SelB → SelB
  | .mk t a b c d e f g h i _ k => .mk t a b c d e f g h i x k
def setNoMatch : SelB → SelB
  | .mk t a b c d e f g h i j _ => .mk t a b c d e f g h i j true

mutual
/-- Number of builder nodes (for the fuel of `freeze`). -/
def size : SelB → Nat
  | .mk _ _ _ _ _ _ rels _ _ _ _ _ => 1 + sizeList rels
def sizeList : List SelB → Nat
  | [] => 0
  | x :: xs => size x + sizeList xs
end

/-- `_Selector.freeze` / `_freeze_relations`. -/
def freezeF : Nat → SelB → Sel
  | 0, _ => .null
  | fuel + 1, .mk tag ids classes attrs nth sels rels relType contains lang flags noMatch =>
    if noMatch then .null
    else
      let relation : SelList :=
        match rels with
        | [] => .mk [] false false
        | first :: rest => .mk [freezeF fuel (first.addRelations rest)] false false
      .mk tag ids classes attrs nth sels relation relType contains lang flags

def freeze (b : SelB) : Sel := freezeF (b.size + 1) b
end SelB

-- ---------------------------------------------------------------------------- tokens

structure Token where
  name : String
  rx : TokenRx
  start : Nat
  stop : Nat
  caps : Caps
  deriving Inhabited

structure PEnv where
  env : CharEnv
  L : Lexicon
  B : Builtins
  pattern : Str

def PEnv.err (P : PEnv) (k : ErrKind) (off : Nat) : Err := { kind := k, pattern := P.pattern, offset := off }

def Token.group (P : PEnv) (t : Token) (name : String) : Option Str := Parser.group P.pattern t.rx t.caps name

/-- Try the token table at `i`. -/
def matchToken (P : PEnv) (i : Nat) : List (TokenRx × Bool) → Option Token
  | [] => none
  | (t, isSpecial) :: rest =>
    if isSpecial then
      -- `SpecialPseudoPattern.match`
      match Rx.matchAt P.env P.L.specialName.rx P.pattern i with
      | some (_, caps) =>
        let nm := (Parser.group P.pattern P.L.specialName caps "name").getD []
        let nm := lower (cssUnescape P.env P.L nm)
        match P.L.special.find? (fun e => e.1 == nm) with
        | some (_, sub) =>
          (match Rx.matchAt P.env sub.rx P.pattern i with
           | some (j, c2) => some { name := sub.name, rx := sub, start := i, stop := j, caps := c2 }
           | none => matchToken P i rest)
        | none => matchToken P i rest
      | none => matchToken P i rest
    else
      match Rx.matchAt P.env t.rx P.pattern i with
      | some (j, caps) => some { name := t.name, rx := t, start := i, stop := j, caps := caps }
      | none => matchToken P i rest

/-- One step of `selector_iter`: `none` = the generator is exhausted. -/
def nextToken (P : PEnv) (i : Nat) : M (Option Token) :=
  if i + 1 > P.pattern.length then .ok none       -- `while index <= end`
  else if (Rx.matchAt P.env P.L.reWsEnd P.pattern i).isSome then .ok none
  else match matchToken P i P.L.tokens with
    | some t => .ok (some t)
    | none =>
      let c := P.pattern[i]?.getD 0
      let k := if c == 91 then ErrKind.malformedAttribute
        else if c == 46 then .malformedClass
        else if c == 35 then .malformedId
        else if c == 58 then .malformedPseudo
        else .invalidCharacter
      .error (P.err k i)

/-- Start offset of the token stream: `RE_WS_BEGIN.search(pattern).end(0)`. -/
def startIndex (P : PEnv) : Nat :=
  match Rx.matchAt P.env P.L.reWsBegin P.pattern 0 with
  | some (j, _) => j
  | none => 0

-- ---------------------------------------------------------------------------- attribute patterns

/-- `re.escape(value)` parsed back: a sequence of literals. -/
def lits (v : Str) (ic : Bool) : List Rx := v.map (fun c => Rx.lit c ic)

def wsSet (ic : Bool) : Rx := .set false [.ch 32, .ch 9, .ch 13, .ch 10, .ch 12] ic
def noMatchSet (ic : Bool) : Rx := .set true [.cat .space, .cat .notSpace] ic

/-- Normal form of a sequence as the translator produces it (singletons are not wrapped). -/
def mkSeq : List Rx → Rx
  | [r] => r
  | rs => .seq rs

/-- The compiled pattern of an attribute selector: operator, unescaped value, IGNORECASE. -/
def attrPattern (op : Str) (value : Str) (ic : Bool) (hasWs : Bool) : Rx :=
  let dotStar := Rx.rep 0 none true (.any true)
  let lazyDot := Rx.rep 0 none false (.any true)
  let c0 := op.head?.getD 61
  if (c0 == 94 || c0 == 36 || c0 == 42) && value.isEmpty then noMatchSet ic
  else if c0 == 94 then mkSeq ([.bos] ++ lits value ic ++ [dotStar])
  else if c0 == 36 then mkSeq ([lazyDot] ++ lits value ic ++ [.eos])
  else if c0 == 42 then mkSeq ([lazyDot] ++ lits value ic ++ [dotStar])
  else if c0 == 126 then
    let v : List Rx := if value.isEmpty || hasWs then [noMatchSet ic] else lits value ic
    mkSeq ([lazyDot, .alt [.look false false .bos, .look false false (wsSet ic)]] ++ v ++
      [.look true false (.alt [wsSet ic, .eos]), dotStar])
  else if c0 == 124 then
    mkSeq ([.bos] ++ lits value ic ++ [.rep 0 (some 1) true (.seq [.lit 45 ic, dotStar]), .eos])
  else mkSeq ([.bos] ++ lits value ic ++ [.eos])

-- ---------------------------------------------------------------------------- parser state

/-- `self.custom`: name ↦ source text or compiled list. -/
inductive CustomVal where
  | src (s : Str)
  | compiled (l : SelList)

abbrev Custom := List (Str × CustomVal)

def Custom.get? (c : Custom) (k : Str) : Option CustomVal := (c.find? (fun e => e.1 == k)).map (·.2)
def Custom.erase (c : Custom) (k : Str) : Custom := c.filter (fun e => e.1 != k)
def Custom.set (c : Custom) (k : Str) (v : CustomVal) : Custom :=
  if c.any (fun e => e.1 == k) then c.map (fun e => if e.1 == k then (k, v) else e) else c ++ [(k, v)]

/-- Loop state of `parse_selectors`. -/
structure LS where
  sel : SelB := .empty
  selectors : List SelB := []
  hasSelector : Bool := false
  closed : Bool := false
  relations : List SelB := []
  relType : Rel := .hasDesc
  isHtml : Bool := false
  index : Nat := 0
  pos : Nat := 0
  custom : Custom := []

def nthOf (a : Int) (var : Bool) (b : Int) (ofType last : Bool) (sels : SelList) : NthSel := .mk a var b ofType last sels

def modifyLast (l : List SelB) (f : SelB → SelB) : List SelB :=
  match l.reverse with
  | [] => []
  | x :: xs => (f x :: xs).reverse

def combRel (c : Nat) : Rel := if c == 62 then .child else if c == 43 then .adj else if c == 126 then .sib else .desc
def combHasRel (c : Nat) : Rel := if c == 62 then .hasChild else if c == 43 then .hasAdj else if c == 126 then .hasSib else .hasDesc

/-- `m.group('relation').strip()`, as the combinator character (32 = whitespace, 44 = comma). -/
def combinatorOf (P : PEnv) (t : Token) : Nat :=
  match t.group P "relation" with
  | some s => match s.find? (fun c => !isPySpace c) with
    | some c => c
    | none => 32
  | none => 32

/-- `parse_attribute_selector`. -/
def parseAttribute (P : PEnv) (t : Token) (sel : SelB) : SelB :=
  let op := (t.group P "cmp").getD []
  let case_ : Option Str := match t.group P "case" with
    | some c => if c.isEmpty then none else some (lower c)
    | none => none
  let ns : Str := match t.group P "attr_ns" with
    | some n => if n.isEmpty then [] else cssUnescape P.env P.L (n.take (n.length - 1))
    | none => []
  let attr := cssUnescape P.env P.L ((t.group P "attr_name").getD [])
  let (ic, isType) : Bool × Bool :=
    match case_ with
    | some c => (c == "i".toStr, false)
    | none => if lower attr == "type".toStr then (true, true) else (false, false)
  let value : Str :=
    if op.isEmpty then []
    else
      let raw := (t.group P "value").getD []
      match raw.head? with
      | some q => if q == 34 || q == 39 then cssUnescape P.env P.L (slice raw 1 (raw.length - 1)) true
                  else cssUnescape P.env P.L raw
      | none => cssUnescape P.env P.L raw
  let hasWs := (Rx.search P.env P.L.reWs value).isSome
  let pattern : Option Rx := if op.isEmpty then none else some (attrPattern op value ic hasWs)
  let pattern2 : Option Rx :=
    if isType then pattern.map (fun _ => attrPattern op value false hasWs) else none
  let selAttr : AttrSel := { attrName := attr, pfx := ns, pattern := pattern, xmlTypePattern := pattern2 }
  if op.head? == some 33 then
    let sub := (SelB.empty.addAttr selAttr).freeze
    sel.addSub (.mk [sub] true false)
  else sel.addAttr selAttr

/-- `int(text, 10)` for an optionally signed digit string. -/
def parseInt (s : Str) : Int :=
  match s with
  | 45 :: d => - Int.ofNat (d.foldl (fun acc c => acc * 10 + (c - 48)) 0)
  | d => Int.ofNat (d.foldl (fun acc c => acc * 10 + (c - 48)) 0)

/-- The An+B part of `parse_pseudo_nth`: `(a, var, b)`. -/
def parseAnB (P : PEnv) (content : Str) : Int × Bool × Int :=
  if content == "even".toStr then (2, true, 0)
  else if content == "odd".toStr then (2, true, 1)
  else
    match Rx.matchAt P.env P.L.reNth.rx content 0 with
    | none => (0, false, 0)      -- cannot happen: the token regex guarantees a match
    | some (_, caps) =>
      let g (n : String) : Option Str := Parser.group content P.L.reNth caps n
      let s1 : Str := if g "s1" == some [45] then [45] else []
      let a := (g "a").getD []
      let var := a.getLast? == some 110
      let s1 := if a.head? == some 110 then s1 ++ [49]
        else if var then s1 ++ a.take (a.length - 1)
        else s1 ++ a
      let s2 : Str := if g "s2" == some [45] then [45] else []
      let s2 := match g "b" with
        | some b => if b.isEmpty then [48] else s2 ++ b
        | none => [48]
      (parseInt s1, var, parseInt s2)

/-- Split a `values` group with `RE_VALUES.finditer` and unescape each value. -/
def parseValues (P : PEnv) (values : Str) : List Str :=
  go (values.length + 1) 0
where
  go : Nat → Nat → List Str
    | 0, _ => []
    | fuel + 1, i =>
      if i > values.length then [] else
      match Rx.search P.env P.L.reValues.rx values i with
      | none => []
      | some (_, j, caps) =>
        let next := if j > i then j else i + 1
        match Parser.group values P.L.reValues caps "split" with
        | some sp => if !sp.isEmpty then go fuel next else valueOf caps next fuel
        | none => valueOf caps next fuel
  valueOf (caps : Caps) (next : Nat) (fuel : Nat) : List Str :=
    match Parser.group values P.L.reValues caps "value" with
    | some v =>
      let u := match v.head? with
        | some q => if q == 34 || q == 39 then cssUnescape P.env P.L (slice v 1 (v.length - 1)) true
                    else cssUnescape P.env P.L v
        | none => cssUnescape P.env P.L v
      u :: go fuel next
    | none => go fuel next

def inList (l : List Str) (s : Str) : Bool := l.any (· == s)

/-- The simple pseudo-classes of `parse_pseudo_class` (no parameters). -/
def applySimplePseudo (P : PEnv) (pseudo : Str) (sel : SelB) : SelB :=
  let is (s : String) := pseudo == s.toStr
  let e := SelList.mk [] false false
  if is ":root" then sel.orFlags SEL_ROOT
  else if is ":defined" then
    sel.addSub (.mk [(SelB.empty.setFlags SEL_DEFINED).freeze] false true)
  else if is ":scope" then sel.orFlags SEL_SCOPE
  else if is ":empty" then sel.orFlags SEL_EMPTY
  else if is ":link" || is ":any-link" then sel.addSub P.B.link
  else if is ":checked" then sel.addSub P.B.checked
  else if is ":default" then sel.addSub P.B.dflt
  else if is ":indeterminate" then sel.addSub P.B.indeterminate
  else if is ":disabled" then sel.addSub P.B.disabled
  else if is ":enabled" then sel.addSub P.B.enabled
  else if is ":required" then sel.addSub P.B.required
  else if is ":optional" then sel.addSub P.B.optional
  else if is ":read-only" then sel.addSub P.B.readOnly
  else if is ":read-write" then sel.addSub P.B.readWrite
  else if is ":in-range" then sel.addSub P.B.inRange
  else if is ":out-of-range" then sel.addSub P.B.outOfRange
  else if is ":placeholder-shown" then sel.addSub P.B.placeholderShown
  else if is ":first-child" then sel.addNth [nthOf 1 false 0 false false e]
  else if is ":last-child" then sel.addNth [nthOf 1 false 0 false true e]
  else if is ":first-of-type" then sel.addNth [nthOf 1 false 0 true false e]
  else if is ":last-of-type" then sel.addNth [nthOf 1 false 0 true true e]
  else if is ":only-child" then sel.addNth [nthOf 1 false 0 false false e, nthOf 1 false 0 false true e]
  else if is ":only-of-type" then sel.addNth [nthOf 1 false 0 true false e, nthOf 1 false 0 true true e]
  else sel

/-- `parse_has_combinator`. -/
def parseHasCombinator (P : PEnv) (t : Token) (s : LS) (index : Nat) : M LS :=
  let c := combinatorOf P t
  if c == 44 then
    -- fix c35d1b9: an empty alternative before a comma is a syntax error, as in `parse_combinator`
    if !s.hasSelector then .error (P.err .combinatorNeedsSelector index) else
    let sel := s.sel.setRelType s.relType
    .ok { s with selectors := (modifyLast s.selectors (·.addRelations [sel])) ++ [SelB.empty],
                 relType := .hasDesc, sel := .empty, hasSelector := false }
  else if s.hasSelector then
    let sel := s.sel.setRelType s.relType
    .ok { s with selectors := modifyLast s.selectors (·.addRelations [sel]),
                 relType := combHasRel c, sel := .empty, hasSelector := false }
  else if s.relType != .hasDesc then
    .error (P.err .multipleCombinators index)
  else
    .ok { s with relType := combHasRel c, sel := .empty, hasSelector := false }

/-- `parse_combinator`. -/
def parseCombinator (P : PEnv) (t : Token) (s : LS) (isPseudo isForgive : Bool) (index : Nat) : M LS :=
  let c := combinatorOf P t
  if !s.hasSelector then
    if !isForgive || c != 44 then .error (P.err .combinatorNeedsSelector index)
    else
      -- forgiving list: an empty slot becomes a "no match" selector
      .ok { s with selectors := s.selectors ++ [s.sel.setNoMatch], relations := [], sel := .empty, hasSelector := false }
  else if c == 44 then
    let sel := if s.sel.tag.isNone && !isPseudo then s.sel.setTag ⟨[42], none⟩ else s.sel
    let sel := sel.addRelations s.relations
    .ok { s with selectors := s.selectors ++ [sel], relations := [], sel := .empty, hasSelector := false }
  else
    let sel := if s.sel.tag.isNone && !isPseudo then s.sel.setTag ⟨[42], none⟩ else s.sel
    let sel := (sel.addRelations s.relations).setRelType (combRel c)
    .ok { s with relations := [sel], sel := .empty, hasSelector := false }

mutual
/-- `parse_selectors(iselector, index, flags)`; the iterator is the position `pos`. Returns the
    list, the position after the last token consumed and the (possibly extended) custom map. -/
def parseSelectors (env : CharEnv) (L : Lexicon) (B : Builtins) (pattern : Str) :
    Nat → Nat → Nat → Nat → Custom → M (SelList × Nat × Custom)
  | 0, _, _, _, _ => .error { kind := .pyBug "RecursionError", pattern := pattern, offset := 0 }
  | fuel + 1, pos, index, flags, custom =>
    let has (f : Nat) : Bool := (flags &&& f) != 0
    let isRelative := has FLG_RELATIVE
    let s0 : LS := { selectors := if isRelative then [SelB.empty] else [], isHtml := has FLG_HTML,
                     index := index, pos := pos, custom := custom }
    match parseLoop env L B pattern fuel flags s0 with
    | .error e => .error e
    | .ok s =>
      let P : PEnv := ⟨env, L, B, pattern⟩
      let isOpen := has FLG_OPEN
      let isPseudo := has FLG_PSEUDO
      let isForgive := has FLG_FORGIVE
      if isOpen && !s.closed then .error (P.err .unclosedPseudo s.index)
      else
        -- Cleanup completed selector piece
        let s : LS :=
          if s.hasSelector then
            let sel := if s.sel.tag.isNone && !isPseudo then s.sel.setTag ⟨[42], none⟩ else s.sel
            if isRelative then
              { s with selectors := modifyLast s.selectors (·.addRelations [sel.setRelType s.relType]) }
            else
              { s with selectors := s.selectors ++ [sel.addRelations s.relations], relations := [] }
          else if isForgive && (s.selectors.isEmpty || s.relations.isEmpty) then
            { s with selectors := s.selectors ++ [s.sel.setNoMatch], relations := [], hasSelector := true }
          else s
        if !s.hasSelector then .error (P.err .expectedSelector s.index)
        else
          let setLast (f : Nat) (sels : List SelB) : List SelB := modifyLast sels (·.setFlags f)
          let sels := s.selectors
          let sels := if has FLG_DEFAULT then setLast SEL_DEFAULT sels else sels
          let sels := if has FLG_INDETERMINATE then setLast SEL_INDETERMINATE sels else sels
          let sels := if has FLG_IN_RANGE then setLast SEL_IN_RANGE sels else sels
          let sels := if has FLG_OUT_OF_RANGE then setLast SEL_OUT_OF_RANGE sels else sels
          let sels := if has FLG_PLACEHOLDER_SHOWN then setLast SEL_PLACEHOLDER_SHOWN sels else sels
          .ok (.mk (sels.map SelB.freeze) (has FLG_NOT) s.isHtml, s.pos, s.custom)
/-- The `while True: key, m = next(iselector)` loop. -/
def parseLoop (env : CharEnv) (L : Lexicon) (B : Builtins) (pattern : Str) :
    Nat → Nat → LS → M LS
  | 0, _, s => .ok s
  | fuel + 1, flags, s =>
    let P : PEnv := ⟨env, L, B, pattern⟩
    let has (f : Nat) : Bool := (flags &&& f) != 0
    match nextToken P s.pos with
    | .error e => .error e
    | .ok none => .ok s                       -- StopIteration
    | .ok (some t) =>
      let s := { s with pos := t.stop }
      let continue_ (s : LS) : M LS := parseLoop env L B pattern fuel flags { s with index := t.stop }
      let key := t.name
      if key == "at_rule" then .error (P.err .atRule t.start)
      else if key == "amp" then continue_ { s with sel := s.sel.orFlags SEL_SCOPE, hasSelector := true }
      else if key == "pseudo_class_custom" then
        let pseudo := lower (cssUnescape env L ((t.group P "name").getD []))
        match s.custom.get? pseudo with
        | none => .error (P.err .undefinedCustom t.stop)
        | some (.compiled l) => continue_ { s with sel := s.sel.addSub l, hasSelector := true }
        | some (.src text) =>
          let custom' := s.custom.erase pseudo
          let pat2 := text.map (fun c => if c == 0 then 0xFFFD else c)
          let P2 : PEnv := ⟨env, L, B, pat2⟩
          match parseSelectors env L B pat2 fuel (startIndex P2) 0 FLG_PSEUDO custom' with
          | .error e => .error e
          | .ok (l, _, custom'') =>
            continue_ { s with sel := s.sel.addSub l, hasSelector := true, custom := custom''.set pseudo (.compiled l) }
      else if key == "pseudo_class" then
        let pseudo := lower (cssUnescape env L ((t.group P "name").getD []))
        let complex := match t.group P "open" with
          | some o => !o.isEmpty
          | none => false
        if complex && inList L.pseudoComplex pseudo then
          -- `parse_pseudo_open`
          let fl := FLG_PSEUDO ||| FLG_OPEN |||
            (if pseudo == ":not".toStr then FLG_NOT
             else if pseudo == ":has".toStr then FLG_RELATIVE
             else if pseudo == ":where".toStr || pseudo == ":is".toStr then FLG_FORGIVE else 0)
          match parseSelectors env L B pattern fuel t.stop t.stop fl s.custom with
          | .error e => .error e
          | .ok (l, pos', custom') =>
            continue_ { s with sel := s.sel.addSub l, hasSelector := true, pos := pos', custom := custom' }
        else if !complex && inList L.pseudoSimple pseudo then
          continue_ { s with sel := applySimplePseudo P pseudo s.sel, hasSelector := true }
        else if complex && inList L.pseudoComplexNoMatch pseudo then
          match parseSelectors env L B pattern fuel t.stop t.stop (FLG_PSEUDO ||| FLG_OPEN) s.custom with
          | .error e => .error e
          | .ok (_, pos', custom') =>
            continue_ { s with sel := s.sel.setNoMatch, hasSelector := true, pos := pos', custom := custom' }
        else if !complex && inList L.pseudoSimpleNoMatch pseudo then
          continue_ { s with sel := s.sel.setNoMatch, hasSelector := true }
        else if inList L.pseudoSupported pseudo then .error (P.err .invalidPseudoSyntax t.start)
        else .error (P.err .unknownPseudo t.start)
      else if key == "pseudo_element" then .error (P.err .pseudoElement t.start)
      else if key == "pseudo_contains" then
        let pseudo := lower (cssUnescape env L ((t.group P "name").getD []))
        let own := pseudo == ":-soup-contains-own".toStr
        let vals := parseValues P ((t.group P "values").getD [])
        continue_ { s with sel := s.sel.addContains ⟨vals, own⟩, hasSelector := true }
      else if key == "pseudo_nth_type" || key == "pseudo_nth_child" then
        let isChild := match t.group P "pseudo_nth_child" with
          | some g => !g.isEmpty
          | none => false
        let name := lower (cssUnescape env L ((t.group P "name").getD []))
        let content := lower ((t.group P (if isChild then "nth_child" else "nth_type")).getD [])
        let (a, var, b) := parseAnB P content
        if isChild then
          let ofPresent := match t.group P "of" with
            | some g => !g.isEmpty
            | none => false
          let r : M (SelList × Nat × Custom) :=
            if ofPresent then parseSelectors env L B pattern fuel t.stop t.stop (FLG_PSEUDO ||| FLG_OPEN) s.custom
            else .ok (B.nthOfSDefault, s.pos, s.custom)
          match r with
          | .error e => .error e
          | .ok (nthSel, pos', custom') =>
            let sel :=
              if name == ":nth-child".toStr then s.sel.addNth [nthOf a var b false false nthSel]
              else if name == ":nth-last-child".toStr then s.sel.addNth [nthOf a var b false true nthSel]
              else s.sel
            continue_ { s with sel := sel, hasSelector := true, pos := pos', custom := custom' }
        else
          let e := SelList.mk [] false false
          let sel :=
            if name == ":nth-of-type".toStr then s.sel.addNth [nthOf a var b true false e]
            else if name == ":nth-last-of-type".toStr then s.sel.addNth [nthOf a var b true true e]
            else s.sel
          continue_ { s with sel := sel, hasSelector := true }
      else if key == "pseudo_lang" then
        let vals := parseValues P ((t.group P "values").getD [])
        continue_ { s with sel := s.sel.addLang ⟨vals⟩, hasSelector := true }
      else if key == "pseudo_dir" then
        let v := if lower ((t.group P "dir").getD []) == "ltr".toStr then SEL_DIR_LTR else SEL_DIR_RTL
        continue_ { s with sel := s.sel.addSub (.mk [(SelB.empty.setFlags v).freeze] false true), hasSelector := true }
      else if key == "pseudo_close" then
        if !s.hasSelector && !has FLG_FORGIVE then .error (P.err .expectedSelector t.start)
        else
          let s := if !s.hasSelector then { s with sel := s.sel.setNoMatch } else s
          if has FLG_OPEN then .ok { s with closed := true }     -- break: `index` is not updated
          else .error (P.err .unmatchedClose t.start)
      else if key == "combine" then
        let r := if has FLG_RELATIVE then parseHasCombinator P t s s.index
                 else parseCombinator P t s (has FLG_PSEUDO) (has FLG_FORGIVE) s.index
        match r with
        | .error e => .error e
        | .ok s' => continue_ s'
      else if key == "attribute" then
        continue_ { s with sel := parseAttribute P t s.sel, hasSelector := true }
      else if key == "tag" then
        if s.hasSelector then .error (P.err .tagNotAtStart t.start)
        else
          let pfx : Option Str := match t.group P "tag_ns" with
            | some n => if n.isEmpty then none else some (cssUnescape env L (n.take (n.length - 1)))
            | none => none
          let name := cssUnescape env L ((t.group P "tag_name").getD [])
          continue_ { s with sel := s.sel.setTag ⟨name, pfx⟩, hasSelector := true }
      else if key == "class" || key == "id" then
        let text := slice pattern t.start t.stop
        let v := cssUnescape env L (text.drop 1)
        let sel := if text.head? == some 46 then s.sel.addClass v else s.sel.addId v
        continue_ { s with sel := sel, hasSelector := true }
      else continue_ s
end

/-- `process_custom`: validate names, detect case collisions. -/
def processCustom (env : CharEnv) (L : Lexicon) (custom : List (Str × Str)) : M Custom :=
  custom.foldlM (fun acc (k, v) =>
    let name := lower k
    if !(Rx.isMatch env L.reCustom name) then .error { kind := .badCustomName, pattern := [], offset := 0 }
    else
      let key := lower (cssUnescape env L name)
      if acc.any (fun e => e.1 == key) then .error { kind := .customCollision, pattern := [], offset := 0 }
      else .ok (acc.set key (.src v))) []

/-- `CSSParser(pattern, custom, flags).process_selectors()` as `_cached_css_compile` calls it. -/
def compile (env : CharEnv) (L : Lexicon) (B : Builtins) (pattern : Str) (custom : List (Str × Str))
    (parseFlags : Nat := 0) : M SelList := do
  let c ← processCustom env L custom
  let pat := pattern.map (fun ch => if ch == 0 then 0xFFFD else ch)
  let P : PEnv := ⟨env, L, B, pat⟩
  let (l, _, _) ← parseSelectors env L B pat (2 * pat.length + 4 * (custom.foldl (fun n e => n + e.2.length + 2) 0) + 8)
    (startIndex P) 0 parseFlags c
  pure l

end Parser
end SoupVerif
