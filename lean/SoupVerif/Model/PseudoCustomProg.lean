/-
  `CSSParser.parse_pseudo_class_custom` as a short straight-line PROGRAM (definitions only, no Mathlib).

  The translator `gen/gen_py_pcustom.py` reads the method from the source text of css_parser.py on every run and emits
  `Gen.PyPseudoCustom.program : Prog` (`Generated/PyPseudoCustom.lean`).  `runCustom` is the meaning of such a program
  over the parser model's loop state (`Parser.LS`, `ParserStep.Step`); `Properties/C06GenPseudoCustom.lean` proves that
  the hand model's handler (`ParseDisp.runCall`, "parse_pseudo_class_custom") IS `runCustom` of the generated program.
  A program of any other shape is `stuck` (an error kind no Python run can produce).
-/
import SoupVerif.Model.ParseDispatch
namespace SoupVerif
namespace CustomProg
open Rx SoupVerif.Parser SoupVerif.ParserProgress ParseDisp

/-- the string functions applied to `m.group(…)` -/
inductive NameFn where
  | lower | cssUnescape
  deriving DecidableEq, Repr, Inhabited

/-- the arguments of the sub-compile `CSSParser(<pattern>, custom=<custom>, flags=<flags>)` as written -/
inductive Arg where
  | selector      -- the looked-up text
  | selfCustom    -- `self.custom` (the SAME table object)
  | selfFlags     -- `self.flags`
  | other
  deriving DecidableEq, Repr, Inhabited

inductive CStep where
  /-- `pseudo = f1(f2(m.group(g)))`: `fns` OUTERMOST FIRST -/
  | computeName (fns : List NameFn) (group : String)
  /-- `selector = self.custom.get(pseudo)` -/
  | lookup
  /-- `if selector is None: raise SelectorSyntaxError(f"… {msgAt}", self.pattern, errAt)` -/
  | raiseIfNone (msgAt errAt : Offset)
  /-- `del self.custom[pseudo]` -/
  | erase
  /-- `selector = CSSParser(pat, custom=cu, flags=fl).process_selectors(flags=psFlags)` -/
  | subCompile (pat cu fl : Arg) (psFlags : Nat)
  /-- `self.custom[pseudo] = selector` -/
  | store
  /-- `sel.selectors.append(selector)` -/
  | append
  /-- `has_selector = True` -/
  | setHasSelector
  /-- `return has_selector` -/
  | returnHasSelector
  deriving DecidableEq, Repr, Inhabited

/-- `pre; if not isinstance(selector, ct.SelectorList): guarded; post` -/
structure Prog where
  pre : List CStep
  guarded : List CStep
  post : List CStep
  deriving DecidableEq, Repr, Inhabited

/-- innermost function applied first -/
def applyFns (env : CharEnv) (L : Lexicon) : List NameFn → Str → Str
  | [], x => x
  | .lower :: r, x => lower (applyFns env L r x)
  | .cssUnescape :: r, x => cssUnescape env L (applyFns env L r x)

def isTailStep : CStep → Bool
  | .store | .append | .setHasSelector | .returnHasSelector => true
  | _ => false

/-- the statements after the value of `selector` is settled: the last one must be the `return` -/
def tailOk (l : List CStep) : Bool := l.all isTailStep && l.getLast? == some .returnHasSelector

/-- the effect of the tail statements on the loop state (`l` = the value of `selector`) -/
def applyTail (name : Str) (l : SelList) : List CStep → LS → LS
  | [], s => s
  | .store :: r, s => applyTail name l r { s with custom := s.custom.set name (.compiled l) }
  | .append :: r, s => applyTail name l r { s with sel := s.sel.addSub l }
  | .setHasSelector :: r, s => applyTail name l r { s with hasSelector := true }
  | _ :: _, s => s

/-- the guarded block on a source-text entry: `cur` is `self.custom` as mutated so far -/
def runGuarded (env : CharEnv) (L : Lexicon) (B : Builtins) (pattern : Str) (s : LS) (t : Token) (name text : Str)
    (post : List CStep) : List CStep → Custom → Step
  | .erase :: r, cur => runGuarded env L B pattern s t name text post r (cur.erase name)
  | .subCompile pat cu fl psf :: r, cur =>
    if pat == .selector && cu == .selfCustom && fl == .selfFlags && tailOk (r ++ post) then
      -- `CSSParser.__init__`: NUL replaced; `process_selectors`: index 0, leading whitespace skipped by the caller
      let pat2 := text.map (fun c => if c == 0 then 0xFFFD else c)
      let P2 : PEnv := ⟨env, L, B, pat2⟩
      .nest pat2 (startIndex P2) 0 psf cur fun (l, _, custom'') =>
        applyTail name l (r ++ post) { s with custom := custom'', index := t.stop }
    else stuck pattern
  | _, _ => stuck pattern

/-- The meaning of a program: the model counterpart of `has_selector = self.parse_pseudo_class_custom(sel, m, has_selector)`
    followed by `index = m.end(0)`. -/
def runCustom (env : CharEnv) (L : Lexicon) (B : Builtins) (pattern : Str) (s : LS) (t : Token) (p : Prog) : Step :=
  let P : PEnv := ⟨env, L, B, pattern⟩
  match p.pre with
  | [.computeName fns g, .lookup, .raiseIfNone msgAt errAt] =>
    let name := applyFns env L fns ((t.group P g).getD [])
    match s.custom.get? name with
    | none =>
      -- the message offset is not modelled beyond "same expression as the error position"
      if msgAt == errAt then .done (.error (P.err .undefinedCustom (errAt.eval s t))) else stuck pattern
    | some (.compiled l) =>
      if tailOk p.post then .cont (applyTail name l p.post { s with index := t.stop }) else stuck pattern
    | some (.src text) => runGuarded env L B pattern s t name text p.post p.guarded s.custom
  | _ => stuck pattern

end CustomProg
end SoupVerif
