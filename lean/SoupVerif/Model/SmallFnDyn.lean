/-
  Run-time support of the source-to-Lean translation of `css_parser.process_custom` and of the small
  `CSSMatch` tests `match_defined`, `match_placeholder_shown`, `match_scope`, `match_own_dir`
  (`gen/gen_py_smallfn.py` → `Generated/PySmallFn.lean`).  HAND-WRITTEN, part of the trusted base
  (DESIGN.md §0): each definition says which Python operation it stands for.

  * `process_custom` is translated TYPED (every local is a `str`, the accumulated dictionary is the
    model's `Parser.Custom`); `raise X(...)` becomes `.error .X` in `Except Exc` (messages are not modelled).
  * the `CSSMatch` tests are translated over the dynamic value type `V` with Python truthiness, in the
    style of `Model/MatchDyn.lean` (`PV`), extended with `int` (results of `str.find`) and object
    references (`self.scope is el`).  `err` is absorbing: where CPython would raise, or where an operator is
    applied to a combination this file does not model, the result is `err`; a theorem `f … = .bool b`
    therefore also says that nothing raised.  `and` / `or` / conditional expressions / `if` are lazy.
  The element `el` is the pair `(l, e)` of its location and its tag record, as in `flagPart c l e`.
-/
import SoupVerif.Model.Match
import SoupVerif.Model.Parser
namespace SoupVerif
namespace PySmallFn

/-! ### `process_custom` -/

/-- The exception types `process_custom` raises. -/
inductive Exc where
  | SelectorSyntaxError
  | KeyError
  deriving DecidableEq, Repr, Inhabited

/-- `R.match(s) is None` for a compiled pattern `R`. -/
def reMatchIsNone (env : CharEnv) (r : Rx) (s : Str) : Bool := !(Rx.isMatch env r s)

/-- `k in d` for a `dict` with `str` keys. -/
def dictHas (d : Parser.Custom) (k : Str) : Bool := d.any (fun e => e.1 == k)

/-- `d[k] = v` (the value is the selector source text the caller passed). -/
def dictSet (d : Parser.Custom) (k v : Str) : Parser.Custom := d.set k (.src v)

/-! ### dynamic values -/

inductive V where
  | none
  | bool (b : Bool)
  | int (i : Int)
  | str (s : Str)
  /-- a multi-valued attribute value (`list[str]`) -/
  | strs (l : List Str)
  /-- a reference to a node of the tree -/
  | node (l : Loc)
  | err

instance : Inhabited V := ⟨.err⟩

namespace V

def ofOptStr : Option Str → V
  | .none => .none
  | .some s => .str s

/-- Python truthiness (`err` is handled by the callers, never asked for its truth value; a `bs4.Tag`
    has `__bool__` = True). -/
def ofNVal : NVal → V
  | .str s => .str s
  | .list l => .strs l

def ofOptNat : Option Nat → V
  | .none => .none
  | .some n => .int n

def truthy : V → Bool
  | .none => false
  | .bool b => b
  | .int i => i != 0
  | .str s => !s.isEmpty
  | .strs l => !l.isEmpty
  | .node _ => true
  | .err => false

def isErr : V → Bool
  | .err => true
  | _ => false

/-- `a if c else b`, and the `if c:` statement on one variable. -/
def ite (c a b : V) : V :=
  match c with
  | .err => .err
  | c => if c.truthy then a else b

end V

/-- `not a` -/
def pyNot : V → V
  | .err => .err
  | a => .bool (!a.truthy)

/-- `a and b` (returns an operand, like Python) -/
def pyAnd (a b : V) : V :=
  match a with
  | .err => .err
  | a => if a.truthy then b else a

/-- `a or b` -/
def pyOr (a b : V) : V :=
  match a with
  | .err => .err
  | a => if a.truthy then a else b

/-- `a == b` on `None` / `bool` / `int` / `str` (`True == 1`); two nodes: `bs4.Tag.__eq__` is structural,
    not modelled (`err`). -/
def pyEq : V → V → V
  | .err, _ => .err
  | _, .err => .err
  | .none, .none => .bool true
  | .bool a, .bool b => .bool (a == b)
  | .int a, .int b => .bool (a == b)
  | .bool a, .int b => .bool ((if a then 1 else 0) == b)
  | .int a, .bool b => .bool (a == (if b then 1 else 0))
  | .str a, .str b => .bool (a == b)
  | .strs a, .strs b => .bool (a == b)
  | .node _, .node _ => .err
  | _, _ => .bool false

/-- `a != b` -/
def pyNe (a b : V) : V := pyNot (pyEq a b)

/-- `a is None` -/
def pyIsNone : V → V
  | .err => .err
  | .none => .bool true
  | _ => .bool false

/-- `a is not None` -/
def pyIsNotNone : V → V
  | .err => .err
  | .none => .bool false
  | _ => .bool true

/-- `a is b` on object references and `None` (identity of `int` / `str` / `bool` objects is an
    implementation detail: `err`). -/
def pyIs : V → V → V
  | .node a, .node b => .bool (a.same b)
  | .none, .none => .bool true
  | .none, .node _ => .bool false
  | .node _, .none => .bool false
  | _, _ => .err

/-- `x in (t₀, t₁, …)`: the display is evaluated first, then compared left to right with `==`. -/
def pyInList (x : V) : List V → V
  | [] => .bool false
  | y :: rest =>
    match pyEq x y with
    | .err => .err
    | r => if r.truthy then .bool true else pyInList x rest

def pyInTuple (x : V) (t : List V) : V :=
  if x.isErr || t.any V.isErr then .err else pyInList x t

def pyNotInTuple (x : V) (t : List V) : V := pyNot (pyInTuple x t)

/-- Lowest index `≥ i` at which `t` occurs in `s` (given the suffix from `i`), or `-1`. -/
def strFindFrom (t : Str) : Str → Nat → Int
  | [], i => if t.isEmpty then (i : Int) else -1
  | x :: xs, i => if t.isPrefixOf (x :: xs) then (i : Int) else strFindFrom t xs (i + 1)

/-- `s.find(t)` -/
def strFind (s t : Str) : Int := strFindFrom t s 0

/-- `a.find(b)`: `str` method (`AttributeError` on `None`, `TypeError` on a non-`str` argument). -/
def pyFind : V → V → V
  | .str s, .str t => .int (strFind s t)
  | _, _ => .err

/-- `a & b` on non-negative `int`s. -/
def pyBitAnd : V → V → V
  | .int a, .int b => if 0 ≤ a ∧ 0 ≤ b then .int ((a.toNat &&& b.toNat : Nat) : Int) else .err
  | _, _ => .err

/-- `util.lower(x)`: iterates over its argument and calls `ord` on the items — a `str` only. -/
def pyLower : V → V
  | .str s => .str (lower s)
  | _ => .err

/-- `D.get(k, dflt)` for a module-level `dict` constant with `str` keys (a list is unhashable: `err`). -/
def pyDictGet (d : List (Str × V)) (k dflt : V) : V :=
  match k, dflt with
  | .err, _ => .err
  | _, .err => .err
  | .strs _, _ => .err
  | .str s, dflt =>
    match d.find? (fun e => e.1 == s) with
    | some e => e.2
    | none => dflt
  | _, dflt => dflt

/-- `typing.cast(T, x)` -/
def pyCast (x : V) : V := x

/-- `for ch in s: <body>` followed by `<after>`, for a `str` `s`: `body item k` is the value of the function when
    the body runs on `item` and `k` is the value of everything that follows a normal end of the body. -/
def pyForChars (body : V → V → V) (after : V) : Str → V
  | [] => after
  | ch :: rest => body (.str [ch]) (pyForChars body after rest)

def pyForStr (s : V) (body : V → V → V) (after : V) : V :=
  match s with
  | .str cs => pyForChars body after cs
  | _ => .err

/-- `unicodedata.bidirectional(ch)` as far as the model's `Ctx.bidi` knows it: class 1 is `'L'`, class 2 is
    `'R'` or `'AL'` (NOT distinguished by the model: reported as `'R'`), everything else a class that is none of
    the three (`'ON'`). -/
def pyBidi (c : Ctx) : V → V
  | .str [ch] => if c.bidi ch == 1 then .str [76] else if c.bidi ch == 2 then .str [82] else .str [79, 78]
  | _ => .err

/-! ### accessors: the model's functions, wrapped -/

/-- `self.is_html_tag(el)` -/
def pyIsHtmlTag (c : Ctx) (e : Elem) : V := .bool (c.isHtmlTag e)

/-- `self.is_root(el)` -/
def pyIsRoot (c : Ctx) (l : Loc) : V := .bool (c.isRoot l)

/-- `self.find_bidi(el)` -/
def pyFindBidi (c : Ctx) (l : Loc) : V := V.ofOptNat (findBidi c l)

/-- `self.get_attribute_by_name(el, name, default)` -/
def pyAttrByName (c : Ctx) (e : Elem) (name dflt : V) : V :=
  match name, dflt with
  | .err, _ => .err
  | _, .err => .err
  | .str n, d =>
    match c.attrByName e n with
    | some v => V.ofNVal v
    | .none => d
  | _, _ => .err

/-- `''.join(node for node in self.get_contents(el, no_iframe=…) if self.is_content_string(node))` -/
def pyJoinContentStrings (c : Ctx) (l : Loc) (noIframe : Bool) : V :=
  .str (((c.contents l noIframe).filter (fun d => d.focus.isContentString)).flatMap (fun d => d.focus.strVal))


/-- `self.get_tag(el)` -/
def pyGetTag (c : Ctx) (e : Elem) : V := .str (c.tagName e)

/-- `self.get_prefix(el)` -/
def pyGetPrefix (c : Ctx) (e : Elem) : V := V.ofOptStr (c.prefixName e)

/-- `self.get_text(el, no_iframe=…)` -/
def pyGetText (c : Ctx) (l : Loc) (noIframe : Bool) : V := .str (c.text l noIframe)

/-- `self.scope` -/
def pyScope (c : Ctx) : V :=
  match c.scope with
  | some s => .node s
  | none => .none

/-- the parameter `el` as a value -/
def pyEl (l : Loc) : V := .node l

end PySmallFn
end SoupVerif
