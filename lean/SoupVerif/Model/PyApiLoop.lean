/-
  The fixed Python control/data primitives the source-translated query entry points of
  `Generated/PyApi.lean` (gen/gen_py_api.py) are built on; everything else is emitted by the translator.

  * `forYield step s xs` — a generator `for x in xs: <body>`: `step s x` is ONE run of the body from the
                           local state `s` (`yielded` = the values it yields, in order; `state` = the locals
                           afterwards; `brk` = it ended in `break`); the values of the generator, as a list.
  * `whileOpt`           — `while cond(st): st = body(st)`, fuel-bounded: `none` = the body has no verdict
                           (a Python exception) or the fuel did not suffice (the theorems show neither happens).
  * `getItem l i`        — `l[i]`, `none` = `IndexError`;  `truthy l` — `bool(l)` of a list;  `pyList` — `list(it)`.
  Mathlib-free, executable.
-/
namespace SoupVerif
namespace PyApiLoop

/-- Result of one run of a generator loop body. -/
structure StepOut (σ α : Type) where
  yielded : List α
  state : σ
  brk : Bool

/-- `for x in xs: body` inside a generator; the list of yielded values. -/
def forYield {σ α : Type} (step : σ → α → StepOut σ α) : σ → List α → List α
  | _, [] => []
  | s, x :: xs =>
    let o := step s x
    o.yielded ++ (if o.brk then [] else forYield step o.state xs)

/-- `while cond(st): st = body(st)`. -/
def whileOpt {σ : Type} (cond : σ → Bool) (body : σ → Option σ) : Nat → σ → Option σ
  | 0, st => if cond st then none else some st
  | fuel + 1, st => if cond st then (body st).bind (whileOpt cond body fuel) else some st

/-- `l[i]` for a Python int (negative indices count from the back). -/
def getItem {α : Type} (l : List α) (i : Int) : Option α :=
  let j : Int := if i < 0 then i + (l.length : Int) else i
  if j < 0 then none else l[j.toNat]?

/-- Truth value of a list. -/
def truthy {α : Type} (l : List α) : Bool := !l.isEmpty

/-- `list(iterator)` on the list of the iterator's values. -/
def pyList {α : Type} (l : List α) : List α := l

end PyApiLoop
end SoupVerif
