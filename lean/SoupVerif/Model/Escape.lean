/-
  Model of `soupsieve.css_parser.escape`, `css_unescape(content, string=False)` and of the token
  grammar `IDENTIFIER` (with its sub-patterns `NEWLINE`, `WS`, `CSS_ESCAPES`), for property C10.

  Strings are lists of code points (`Str = List Nat`); any `Nat` is accepted as a code point, so
  lone surrogates and astral characters are ordinary elements.

  Python text modelled (css_parser.py):

    NEWLINE     = (?:\r\n|(?!\r\n)[\n\f\r])
    WS          = (?:[ \t]|NEWLINE)
    CSS_ESCAPES = (?:\\(?:(?:[a-f0-9]{1,5}(?![a-f0-9])|[a-f0-9]{6})(?:WS|(?![ \t\r\n\f]))
                        |[^\r\n\fa-f0-9]|$))
    IDENTIFIER  = (?:(?:-?(?:[^\x00-\x2f\x30-\x40\x5B-\x5E\x60\x7B-\x7f]|CSS_ESCAPES)|--)
                     (?:[^\x00-\x2c\x2e\x2f\x3A-\x40\x5B-\x5E\x60\x7B-\x7f]|CSS_ESCAPES)*)
    RE_CSS_ESC  = (?:(\\[a-f0-9]{1,6}WSC?)|(\\[^\r\n\f])|(\\$))          flags re.I

  The token patterns are compiled with `re.I | re.X | re.U`.  Measured on every code point
  0..0x10FFFF with CPython's `re`: under these flags `[a-f0-9]` is exactly `[0-9A-Fa-f]`,
  `[^\r\n\fa-f0-9]` is exactly the complement of `[\r\n\f0-9A-Fa-f]`, and the two negated
  classes of `IDENTIFIER` contain no cased character, so they are exact code-point classes.

  Why a deterministic scanner is a faithful reading of the backtracking engine:
    * a hex escape has exactly one way to match: the digit run is maximal up to 6 (`{1,5}` needs a
      non-hex look-ahead, so with a run of `k ≤ 5` digits only `k` is accepted, and with `k ≥ 6`
      only `{6}`), then one whitespace unit is taken if a whitespace character follows (`\r\n` only
      as one unit because of `(?!\r\n)`), and nothing otherwise;
    * the three alternatives after the backslash are mutually exclusive on the next character;
    * identifier characters and `\` are disjoint, so each iteration of the `*` loop is forced, the
      loop body never matches the empty string, and the loop (which cannot fail) is never
      backtracked into;
    * `$` (no MULTILINE) holds at the end of the subject and just before a final `"\n"`; since
      the scanner works on a suffix of the subject this is "the suffix is `[]` or `[10]`".

  Everything here is structurally recursive (no fuel, no well-founded recursion) except
  `hexDigits`, whose fuel `n + 1` is never exhausted (`EscapeLemmas.hexDigits_eq`).
-/
import SoupVerif.Model.Py
namespace SoupVerif
namespace Escape

/-! ### Hexadecimal -/

/-- The lower-case hex digit for `d < 16` (`'0'..'9'`, `'a'..'f'`). -/
def hexDigit (d : Nat) : Nat := if d < 10 then 48 + d else 87 + d

/-- Fuelled worker for `hexDigits`. -/
def hexDigitsF : Nat → Nat → Str
  | 0, _ => []
  | f + 1, n => if n < 16 then [hexDigit n] else hexDigitsF f (n / 16) ++ [hexDigit (n % 16)]

/-- `f'{n:x}'`: lower-case hexadecimal, no padding, `"0"` for zero. -/
def hexDigits (n : Nat) : Str := hexDigitsF (n + 1) n

/-- `[a-f0-9]` under `re.I`: `[0-9A-Fa-f]`. -/
def isHex (c : Nat) : Bool := (48 ≤ c && c ≤ 57) || (65 ≤ c && c ≤ 70) || (97 ≤ c && c ≤ 102)

/-- Value of one hex digit (meaningful only when `isHex c`). -/
def hexDigitVal (c : Nat) : Nat := if c ≤ 57 then c - 48 else if c ≤ 70 then c - 55 else c - 87

/-- `int(text, 16)` for a string of hex digits. -/
def hexVal (s : Str) : Nat := s.foldl (fun a c => a * 16 + hexDigitVal c) 0

/-! ### `escape` -/

/-- The piece `escape` appends for one character.  `lead` is the Python condition
    `index == 0 or (start_dash and index == 1)`. -/
def escapeChar (lead : Bool) (c : Nat) : Str :=
  if c == 0 then [0xFFFD]
  else if (1 ≤ c && c ≤ 0x1F) || c == 0x7F then 92 :: hexDigits c ++ [32]
  else if lead && (0x30 ≤ c && c ≤ 0x39) then 92 :: hexDigits c ++ [32]
  else if c == 0x2D || c == 0x5F || c ≥ 0x80 || (0x30 ≤ c && c ≤ 0x39) ||
          (0x41 ≤ c && c ≤ 0x5A) || (0x61 ≤ c && c ≤ 0x7A) then [c]
  else [92, c]

/-- The `for index, c in enumerate(ident)` loop, from index `i`. -/
def escapeGo (startDash : Bool) : Nat → Str → Str
  | _, [] => []
  | i, c :: cs => escapeChar (i == 0 || (startDash && i == 1)) c ++ escapeGo startDash (i + 1) cs

/-- `ident[0] == '-'` (with `length > 0`). -/
def startDash (s : Str) : Bool := s.head? == some 45

/-- `css_parser.escape`. -/
def escape (s : Str) : Str :=
  if s.length == 1 && startDash s then 92 :: s
  else escapeGo (startDash s) 0 s

/-- What the parser does to NUL before tokenising, and what `escape` does to NUL. -/
def nulToFFFD (s : Str) : Str := s.map fun c => if c == 0 then 0xFFFD else c

/-! ### The grammar `IDENTIFIER` -/

/-- `[^\x00-\x2f\x30-\x40\x5B-\x5E\x60\x7B-\x7f]`: `A-Z`, `_`, `a-z`, and everything from U+0080. -/
def identStartChar (c : Nat) : Bool :=
  (65 ≤ c && c ≤ 90) || c == 95 || (97 ≤ c && c ≤ 122) || 128 ≤ c

/-- `[^\x00-\x2c\x2e\x2f\x3A-\x40\x5B-\x5E\x60\x7B-\x7f]`: the above plus `-` and `0-9`. -/
def identContChar (c : Nat) : Bool :=
  c == 45 || (48 ≤ c && c ≤ 57) || (65 ≤ c && c ≤ 90) || c == 95 || (97 ≤ c && c ≤ 122) || 128 ≤ c

/-- Number of leading hex digits, at most `k` (`[a-f0-9]{1,k}` taken greedily). -/
def hexRun : Nat → Str → Nat
  | 0, _ => 0
  | _, [] => 0
  | k + 1, c :: cs => if isHex c then hexRun k cs + 1 else 0

/-- Length of the `WS` unit at the head: 2 for `\r\n`, 1 for a single `[ \t\r\n\f]`, 0 if none. -/
def wsLen (s : Str) : Nat :=
  match s with
  | [] => 0
  | c :: cs =>
    if c == 13 && cs.head? == some 10 then 2
    else if isCssWs c then 1
    else 0

/-- Length of the match of `CSS_ESCAPES` at the head of `s`, where `s` is a suffix of the
    subject (so `$` holds exactly when the text after the backslash is `[]` or `[10]`). -/
def escLen (s : Str) : Option Nat :=
  match s with
  | [] => none
  | b :: cs =>
    if b != 92 then none
    else match cs with
      | [] => some 1                                     -- `\` `\Z`
      | d :: ds =>
        if isHex d then
          let k := hexRun 6 cs
          some (1 + k + wsLen (cs.drop k))               -- `\` hex{1,6} WS?
        else if d == 10 || d == 13 || d == 12 then none   -- `\Z` holds only at the very end
        else some 2                                      -- `\` `[^\r\n\fa-f0-9]`

/-- `CSS_ESCAPES` at the head of `s`: `(matched text, rest)`. -/
def scanEsc (s : Str) : Option (Str × Str) :=
  (escLen s).map fun n => (s.take n, s.drop n)

/-- The loop `(?:[^...]|CSS_ESCAPES)*`, greedy.  `scanCont k s` first copies `k` characters
    unconditionally (the remainder of an escape whose length has already been determined) and
    then scans.  Returns `(matched text, rest)`. -/
def scanCont : Nat → Str → Str × Str
  | _, [] => ([], [])
  | k + 1, c :: cs => let r := scanCont k cs; (c :: r.1, r.2)
  | 0, c :: cs =>
    if identContChar c then
      let r := scanCont 0 cs; (c :: r.1, r.2)
    else
      match escLen (c :: cs) with
      | some n => let r := scanCont (n - 1) cs; (c :: r.1, r.2)
      | none => ([], c :: cs)

/-- `(?:[^...]|CSS_ESCAPES)` at the head: length of the match. -/
def startLen (s : Str) : Option Nat :=
  match s with
  | [] => none
  | c :: _ => if identStartChar c then some 1 else escLen s

/-- `(?:-?(?:[^...]|CSS_ESCAPES)|--)` at the head: length of the match.  With a leading `-` the
    engine first tries `-` followed by a start character or escape; if that fails, `-?` matching
    empty fails too (`-` is neither), and the second branch `--` is tried. -/
def headLen (s : Str) : Option Nat :=
  match s with
  | [] => none
  | c :: cs =>
    if c == 45 then
      match startLen cs with
      | some n => some (n + 1)
      | none => if cs.head? == some 45 then some 2 else none
    else startLen s

/-- `re.compile(IDENTIFIER, re.I|re.X|re.U).match(s)`: `some (m.group(0), s[m.end():])`, or
    `none` when there is no match.  `s` must extend to the end of the subject. -/
def scanIdent (s : Str) : Option (Str × Str) :=
  (headLen s).map fun n => scanCont n s

/-- `r` begins with something the `*` loop of `IDENTIFIER` might consume: an identifier
    character, or a backslash (the start of a possible escape).  Text that does not satisfy this
    cannot extend an identifier placed in front of it. -/
def continuesIdent (r : Str) : Bool :=
  match r with
  | [] => false
  | c :: _ => identContChar c || c == 92

/-- The id / class tokens `\#IDENTIFIER`, `\.IDENTIFIER` (`p` = 35 or 46): `(matched, rest)`. -/
def scanPrefixed (p : Nat) (s : Str) : Option (Str × Str) :=
  match s with
  | [] => none
  | c :: cs => if c == p then (scanIdent cs).map fun r => (c :: r.1, r.2) else none

/-! ### `css_unescape(content, string=False)` -/

/-- `if codepoint == 0 or codepoint > 0x10FFFF: codepoint = 0xFFFD`. -/
def fixCp (n : Nat) : Nat := if n == 0 || n > 0x10FFFF then 0xFFFD else n

/-- `RE_CSS_ESC.sub(replace, content)`, scanning left to right; `cssUnescapeAux k s` first drops
    `k` characters (the remainder of a match already replaced).

    Simplification: the `COMMENTS` alternative of `WSC?` after a hex escape is not modelled
    (only the `WS` alternative is).  See `cssUnescapeRaises` for what Python does there. -/
def cssUnescapeAux : Nat → Str → Str
  | _, [] => []
  | k + 1, _ :: cs => cssUnescapeAux k cs
  | 0, c :: cs =>
    if c != 92 then c :: cssUnescapeAux 0 cs
    else match cs with
      | [] => [0xFFFD]                                                    -- group 3
      | d :: ds =>
        if isHex d then                                                   -- group 1
          let k := hexRun 6 cs
          fixCp (hexVal (cs.take k)) :: cssUnescapeAux (k + wsLen (cs.drop k)) cs
        else if d == 10 || d == 13 || d == 12 then c :: cssUnescapeAux 0 cs   -- no match here
        else d :: cssUnescapeAux 1 cs                                     -- group 2

/-- `css_unescape(content)` (`string=False`), `COMMENTS` after a hex escape not modelled. -/
def cssUnescape (s : Str) : Str := cssUnescapeAux 0 s

/-- `true` when `s` contains `*/`. -/
def hasCommentClose : Str → Bool
  | [] => false
  | c :: cs => (c == 42 && cs.head? == some 47) || hasCommentClose cs

/-- `COMMENTS` matches at the head of `s`: `/*` followed somewhere later by `*/`. -/
def commentAt (s : Str) : Bool :=
  match s with
  | a :: b :: t => a == 47 && b == 42 && hasCommentClose t
  | _ => false

/-- `true` exactly when Python's `css_unescape(s)` raises `ValueError`: some hex escape found by
    the left-to-right scan is followed directly (no whitespace) by a complete `/*...*/` comment;
    `WSC?` then swallows the comment into group 1 and `int(group1[1:], 16)` fails.
    Wherever this is `false`, `cssUnescape` is the full model. -/
def cssUnescapeRaisesAux : Nat → Str → Bool
  | _, [] => false
  | k + 1, _ :: cs => cssUnescapeRaisesAux k cs
  | 0, c :: cs =>
    if c != 92 then cssUnescapeRaisesAux 0 cs
    else match cs with
      | [] => false
      | d :: _ =>
        if isHex d then
          let k := hexRun 6 cs
          let w := wsLen (cs.drop k)
          (w == 0 && commentAt (cs.drop k)) || cssUnescapeRaisesAux (k + w) cs
        else if d == 10 || d == 13 || d == 12 then cssUnescapeRaisesAux 0 cs
        else cssUnescapeRaisesAux 1 cs

def cssUnescapeRaises (s : Str) : Bool := cssUnescapeRaisesAux 0 s

end Escape
end SoupVerif
