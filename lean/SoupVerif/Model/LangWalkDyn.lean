/-
  Accessors for the translation of `CSSMatch.match_lang` by `gen/gen_py_langwalk.py`
  (`Generated/PyLangWalk.lean`), over the dynamic values `PyMatchSel.PV` of `Model/MatchDyn.lean` and the
  attribute accessors of `Model/AttrNameDyn.lean`; the flag loops are `PyFlagLoop.forBreak`.

  The accessors the function uses that the sibling files do not have (`self.has_html_ns(el)`, `self.is_html`,
  `self.get_parent(el, no_iframe=…)`), the record of the walk's locals and the `while … break` primitive.  Everything else is emitted by the translator.  Mathlib-free.
-/
import SoupVerif.Model.AttrNameDyn
import SoupVerif.Model.PyFlagLoop
namespace SoupVerif
namespace PyLangWalk
open PyMatchSel

/-- `self.has_html_ns(el)` = `bool(ns and ns == NS_XHTML)` with `ns = getattr(el, 'namespace')` -/
def pyHasHtmlNs (e : Elem) : PV :=
  .bool (match e.ns with | some n => !n.isEmpty && n == NS_XHTML | none => false)

/-- `self.is_html` -/
def pyIsHtml (c : Ctx) : PV := .bool c.isHtml

/-- `self.get_parent(el, no_iframe=ni)` (`if no_iframe and …`: the truth value of `ni`) -/
def pyGetParent (c : Ctx) (l : Loc) (ni : PV) : Option Loc := c.parent l ni.truthy

/-- The locals of the ancestor walk of `match_lang`: `found_lang` (`none` = `None`), `parent` (never `None` at the
    loop test: the body re-points it at `last` before it breaks), `last`, `root`. -/
structure WalkSt where
  found : Option NVal
  parent : Loc
  last : Option Loc
  root : Option Loc
  deriving Inhabited

/-- `while cond: body` with `break` (the second component of `body s`), fuel-bounded: `none` = out of fuel. -/
def whileBreak {σ : Type} (cond : σ → Bool) (body : σ → σ × Bool) : Nat → σ → Option σ
  | 0, s => if cond s then none else some s
  | n + 1, s =>
    if cond s then
      let r := body s
      if r.2 then some r.1 else whileBreak cond body n r.1
    else some s

end PyLangWalk
end SoupVerif
