/-
  The two Python control/data primitives the source-translated programs of `Generated/PyLoops.lean`
  (gen/gen_py_loops.py) are built on; everything else in those programs is emitted by the translator.

  * `getItem l i`   — `l[i]` for a Python list and a Python int: non-negative indices count from the front,
                      negative ones from the back, anything else raises `IndexError`;
  * `whileLoop`     — `while cond: body`, as a fuel-bounded iterator: `.ok (some st)` = the loop ended in state
                      `st`, `.ok none` = the fuel did not suffice (the theorems show this never happens),
                      `.error e` = the body raised.
  Mathlib-free, executable.
-/
import SoupVerif.Model.Py
namespace SoupVerif
namespace PyLoop

/-- The exceptions a translated program can raise. -/
inductive Exc where
  | indexError
  deriving Repr, DecidableEq, Inhabited

/-- `l[i]`. -/
def getItem {α : Type} (l : List α) (i : Int) : Except Exc α :=
  let j : Int := if i < 0 then i + (l.length : Int) else i
  if j < 0 then .error .indexError
  else match l[j.toNat]? with
    | some x => .ok x
    | none => .error .indexError

/-- `while cond(st): st = body(st)`; the test is evaluated before the fuel is looked at, so a loop that has
    ended is reported as ended whatever the fuel. -/
def whileLoop {σ : Type} (cond : σ → Bool) (body : σ → Except Exc σ) : Nat → σ → Except Exc (Option σ)
  | 0, st => if cond st then .ok none else .ok (some st)
  | fuel + 1, st =>
    if cond st then
      match body st with
      | .error e => .error e
      | .ok st' => whileLoop cond body fuel st'
    else .ok (some st)

end PyLoop
end SoupVerif
