/-
C14 model: threads as sequences of atomic steps over a shared store and a shared cache.

CPython switches threads only between byte codes; an *atomic step* is a maximal run of byte codes that
touches no shared mutable location, or a single access to one.  A schedule is a list of thread indices:
at each point the named thread performs its next step (a thread that has finished, or an index that
names no thread, does nothing).

The pattern cache is an atomic map.  A lookup hands the thread the cached value if there is one and the
value of `parse key` otherwise -- a miss is followed, in the real code, by the thread computing
`parse key` itself, which is a deterministic function of the key (C15) -- and `cachePut` stores a value
the thread computed.  `cacheClear` is `purge()` (and models eviction as well: losing entries can only
turn hits into misses).

Everything is parametric in the types of local states `L`, shared locations `Loc`, values `Val` and
cache keys `Key`.  Mathlib-free.
-/
namespace SoupVerif.Sched

inductive Step (L Loc Val Key : Type) where
  /-- any computation on the thread's own state -/
  | loc (f : L → L)
  /-- read a shared slot; the value read enters the local state through `k` -/
  | readShared (x : Loc) (k : Val → L → L)
  /-- write a shared slot with a value computed from the local state -/
  | writeShared (x : Loc) (v : L → Val)
  /-- look the key up in the cache (hit: the cached value; miss: the thread computes `parse key`) -/
  | cacheGet (key : L → Key) (k : Val → L → L)
  /-- store a value for the key -/
  | cachePut (key : L → Key) (v : L → Val)
  /-- empty the cache -/
  | cacheClear

structure Thread (L Loc Val Key : Type) where
  state : L
  prog : List (Step L Loc Val Key)

structure Config (L Loc Val Key : Type) where
  shared : Loc → Val
  cache : Key → Option Val
  threads : List (Thread L Loc Val Key)

abbrev Schedule := List Nat

variable {L Loc Val Key : Type} [DecidableEq Loc] [DecidableEq Key]

def update {α β : Type} [DecidableEq α] (f : α → β) (a : α) (b : β) : α → β :=
  fun x => if x = a then b else f x

/-- The next step of one thread against the shared store and cache. -/
def stepThread (parse : Key → Val) (sh : Loc → Val) (ca : Key → Option Val) (th : Thread L Loc Val Key) :
    (Loc → Val) × (Key → Option Val) × Thread L Loc Val Key :=
  match th.prog with
  | [] => (sh, ca, th)
  | s :: rest =>
    match s with
    | .loc f => (sh, ca, ⟨f th.state, rest⟩)
    | .readShared x k => (sh, ca, ⟨k (sh x) th.state, rest⟩)
    | .writeShared x v => (update sh x (v th.state), ca, ⟨th.state, rest⟩)
    | .cacheGet key k =>
      let q := key th.state
      (sh, ca, ⟨k ((ca q).getD (parse q)) th.state, rest⟩)
    | .cachePut key v => (sh, update ca (key th.state) (some (v th.state)), ⟨th.state, rest⟩)
    | .cacheClear => (sh, fun _ => none, ⟨th.state, rest⟩)

/-- Thread `t` performs its next step (nothing happens when there is no such thread). -/
def sched1 (parse : Key → Val) (t : Nat) (c : Config L Loc Val Key) : Config L Loc Val Key :=
  match c.threads[t]? with
  | none => c
  | some th =>
    let r := stepThread parse c.shared c.cache th
    ⟨r.1, r.2.1, c.threads.set t r.2.2⟩

/-- Run a schedule. -/
def run (parse : Key → Val) : Schedule → Config L Loc Val Key → Config L Loc Val Key
  | [], c => c
  | t :: s, c => run parse s (sched1 parse t c)

/-- The thread `th` run alone for `n` steps: the only thread, starting from an empty cache. -/
def runAlone (parse : Key → Val) (sh : Loc → Val) (n : Nat) (th : Thread L Loc Val Key) :
    Option (Thread L Loc Val Key) :=
  (run parse (List.replicate n 0) ⟨sh, fun _ => none, [th]⟩).threads[0]?

/-- A step that touches no shared mutable slot: local computation, or the cache API with the cache's
contract (the value stored for a key is `parse key`). -/
def Step.Safe (parse : Key → Val) : Step L Loc Val Key → Prop
  | .loc _ => True
  | .readShared _ _ => False
  | .writeShared _ _ => False
  | .cacheGet _ _ => True
  | .cachePut key v => ∀ l, v l = parse (key l)
  | .cacheClear => True

/-- Every entry of the cache is the right one. -/
def CacheOK (parse : Key → Val) (ca : Key → Option Val) : Prop := ∀ k v, ca k = some v → v = parse k

/-- What a safe step does to the thread's own state -- no reference to the store or the cache. -/
def pureStep (parse : Key → Val) (th : Thread L Loc Val Key) : Thread L Loc Val Key :=
  match th.prog with
  | [] => th
  | s :: rest =>
    match s with
    | .loc f => ⟨f th.state, rest⟩
    | .cacheGet key k => ⟨k (parse (key th.state)) th.state, rest⟩
    | _ => ⟨th.state, rest⟩

def pureAdvance (parse : Key → Val) : Nat → Thread L Loc Val Key → Thread L Loc Val Key
  | 0, th => th
  | n + 1, th => pureAdvance parse n (pureStep parse th)

end SoupVerif.Sched
