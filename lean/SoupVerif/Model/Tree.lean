/-
  The Beautiful Soup tree as the matcher sees it.

  * `PyVal`  : an attribute value as the bs4 API may hold it (before `normalize_value`).
  * `Node`   : element / the six string node kinds.  The `BeautifulSoup` document object is an
               element with `isDoc = true` (bs4: `BeautifulSoup` is a `Tag` named `[document]`).
  * `Loc`    : a node together with its position (a zipper).  Python's object identity `a is b`
               is equality of positions (`Loc.pos`).
-/
import SoupVerif.Model.Py
namespace SoupVerif

/-- Attribute value as stored by bs4 (`normalize_value`'s input). `bytes` carries CPython's
    UTF-8 decoding of the byte string; `seq`/`other` carry CPython's `str(value)`. -/
inductive PyVal where
  | none
  | str (s : Str)
  | bytes (decoded : Str)
  | seq (items : List PyVal) (repr : Str)
  | other (repr : Str)
  deriving Repr, Inhabited

/-- Result of `normalize_value`: a string or a list of strings. -/
inductive NVal where
  | str (s : Str)
  | list (l : List Str)
  deriving Repr, DecidableEq, Inhabited

/-- `normalize_value` applied to a child of a sequence (always yields a string). -/
def normalizeItem : PyVal → Str
  | .none => []
  | .str s => s
  | .bytes d => d
  | .seq _ r => r          -- nested sequence: `str(v)`
  | .other r => r

/-- `_DocumentNav.normalize_value`. -/
def normalizeValue : PyVal → NVal
  | .none => .str []
  | .str s => .str s
  | .bytes d => .str d
  | .seq items _ => .list (items.map normalizeItem)
  | .other r => .str r

/-- One entry of `el.attrs`.  `kns`/`kname` are the `namespace`/`name` attributes of a
    `NamespacedAttribute` key (`None` for a plain `str` key). -/
structure Attr where
  key : Str
  kns : Option Str
  kname : Option Str
  val : PyVal
  deriving Repr, Inhabited

structure Elem where
  isDoc : Bool
  name : Str
  pfx : Option Str
  ns : Option Str
  attrs : List Attr
  deriving Repr, Inhabited

/-- Kinds of `NavigableString`. `text` is every `NavigableString` that is not one of the five
    special classes (so also `Script`, `Stylesheet`, `TemplateString`, ...). -/
inductive StrKind where
  | text | comment | cdata | pi | doctype | decl
  deriving Repr, DecidableEq, Inhabited

inductive Node where
  | elem (e : Elem) (kids : List Node)
  | str (k : StrKind) (s : Str)
  deriving Repr, Inhabited

namespace Node
def isTag : Node → Bool
  | .elem _ _ => true
  | _ => false
def elem? : Node → Option Elem
  | .elem e _ => some e
  | _ => none
def kids : Node → List Node
  | .elem _ ks => ks
  | _ => []
/-- `is_content_string`: a `NavigableString` that is not a special string. -/
def isContentString : Node → Bool
  | .str .text _ => true
  | _ => false
/-- `is_special_string`. -/
def isSpecialString : Node → Bool
  | .str .text _ => false
  | .str _ _ => true
  | _ => false
def isCData : Node → Bool
  | .str .cdata _ => true
  | _ => false
def strVal : Node → Str
  | .str _ s => s
  | _ => []
end Node

/-- One level of context: the parent element with the siblings to the left (nearest first)
    and to the right. -/
structure Frame where
  left : List Node
  info : Elem
  right : List Node
  deriving Repr, Inhabited

structure Loc where
  focus : Node
  up : List Frame
  deriving Repr, Inhabited

namespace Loc

/-- Position: child indices from the top. Two `Loc`s of one tree denote the same Python object
    iff their positions are equal. -/
def pos (l : Loc) : List Nat := (l.up.map (fun f => f.left.length)).reverse

/-- `a is b`. -/
def same (a b : Loc) : Bool := a.pos == b.pos

def isTag (l : Loc) : Bool := l.focus.isTag
def elem? (l : Loc) : Option Elem := l.focus.elem?
def isDoc (l : Loc) : Bool := match l.focus with
  | .elem e _ => e.isDoc
  | _ => false

/-- Rebuild the parent node from a frame and the focus. -/
def plug (f : Frame) (n : Node) : Node := .elem f.info (f.left.reverse ++ n :: f.right)

/-- `el.parent`. -/
def parent? (l : Loc) : Option Loc :=
  match l.up with
  | [] => none
  | f :: rest => some ⟨plug f l.focus, rest⟩

/-- Children of an element as locations, in document order. -/
def childrenAux (e : Elem) (up : List Frame) : List Node → List Node → List Loc
  | _, [] => []
  | left, k :: right => ⟨k, ⟨left, e, right⟩ :: up⟩ :: childrenAux e up (k :: left) right

def children (l : Loc) : List Loc :=
  match l.focus with
  | .elem e ks => childrenAux e l.up [] ks
  | _ => []

/-- `el.previous_sibling`, `.previous_sibling.previous_sibling`, ... (nearest first). -/
def prevSiblingsAux (e : Elem) (up : List Frame) : List Node → List Node → List Loc
  | [], _ => []
  | p :: left, right => ⟨p, ⟨left, e, right⟩ :: up⟩ :: prevSiblingsAux e up left (p :: right)

def prevSiblings (l : Loc) : List Loc :=
  match l.up with
  | [] => []
  | f :: rest => prevSiblingsAux f.info rest f.left (l.focus :: f.right)

def nextSiblingsAux (e : Elem) (up : List Frame) : List Node → List Node → List Loc
  | _, [] => []
  | left, n :: right => ⟨n, ⟨left, e, right⟩ :: up⟩ :: nextSiblingsAux e up (n :: left) right

def nextSiblings (l : Loc) : List Loc :=
  match l.up with
  | [] => []
  | f :: rest => nextSiblingsAux f.info rest (l.focus :: f.left) f.right

/-- Ancestors, nearest first (includes the document object when there is one). -/
def ancestorsAux : Node → List Frame → List Loc
  | _, [] => []
  | n, f :: rest => ⟨plug f n, rest⟩ :: ancestorsAux (plug f n) rest

def ancestors (l : Loc) : List Loc := ancestorsAux l.focus l.up

/-- Top of the tree reached by following `.parent`. -/
def top (l : Loc) : Loc := (l.ancestors.getLast?).getD l

end Loc

mutual
/-- All descendants in document order (`el.descendants`), as locations. `enter` decides whether
    the walk goes below an element (the iframe cut). The element itself is always yielded. -/
def descAux (enter : Loc → Bool) (e : Elem) (up : List Frame) : List Node → List Node → List Loc
  | _, [] => []
  | left, k :: right =>
    let here : Loc := ⟨k, ⟨left, e, right⟩ :: up⟩
    (here :: descNode enter k (⟨left, e, right⟩ :: up) here) ++ descAux enter e up (k :: left) right
/-- Descendants of node `n` sitting at `up` (its own `Loc` is `self`). -/
def descNode (enter : Loc → Bool) (n : Node) (up : List Frame) (self : Loc) : List Loc :=
  match n with
  | .elem e ks => if enter self then descAux enter e up [] ks else []
  | .str _ _ => []
end

namespace Loc
/-- `get_descendants(el)` without the iframe cut at `el` itself (the caller tests that). -/
def descendants (enter : Loc → Bool) (l : Loc) : List Loc :=
  match l.focus with
  | .elem e ks => descAux enter e l.up [] ks
  | .str _ _ => []
end Loc

/-- A document as handed to the API: the top node (a `BeautifulSoup` object or a detached
    element) and the parser's `_is_xml` flag. -/
structure Doc where
  isXml : Bool
  top : Node
  deriving Repr, Inhabited

namespace Doc
def topLoc (d : Doc) : Loc := ⟨d.top, []⟩

/-- Follow a position from the top. -/
def locAt? (d : Doc) : List Nat → Option Loc
  | p => go d.topLoc p
where
  go (l : Loc) : List Nat → Option Loc
    | [] => some l
    | i :: rest => match l.children[i]? with
      | some c => go c rest
      | none => none
end Doc

end SoupVerif
