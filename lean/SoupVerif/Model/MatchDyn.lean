/-
  Python values and operators for the SHALLOW translation of the small pure leaf functions of
  `css_match.CSSMatch` (`match_namespace`, `match_tagname`, `match_tag`, `match_id`, `match_classes`)
  by `gen/gen_py_matchsel.py` (second half of `Generated/PyMatchSel.lean`).

  A translated function returns a `PV`.  Every operator is the Python one on the kinds of value these
  functions handle (`None`, `bool`, `str`, sequence of `str`); where CPython would raise, or where the
  operator is applied to a combination this file does not model, the result is `PV.err`, and `err` is
  ABSORBING: an operator with an `err` operand that Python would have evaluated yields `err`.  A theorem
  `f … = .bool b` therefore also says that nothing raised on the way.  (`and` / `or` / conditional
  expressions / `if` statements are lazy: the operand Python does not evaluate is ignored.)

  The accessors (`pyTagNs`, `pyGetTag`, `pyNsGet`, `pyAttrByName`, `pyGetClasses`) are the model's `Ctx` /
  `Elem` functions of `Model/Match.lean`, wrapped.
-/
import SoupVerif.Model.Match
namespace SoupVerif
namespace PyMatchSel

inductive PV where
  | none
  | bool (b : Bool)
  | str (s : Str)
  | strs (l : List Str)
  | err
  deriving Repr, DecidableEq, Inhabited

namespace PV

def ofOptStr : Option Str → PV
  | .none => .none
  | .some s => .str s

def ofNVal : NVal → PV
  | .str s => .str s
  | .list l => .strs l

/-- Python truthiness (`err` is handled by the callers, never asked for its truth value). -/
def truthy : PV → Bool
  | .none => false
  | .bool b => b
  | .str s => !s.isEmpty
  | .strs l => !l.isEmpty
  | .err => false

def isErr : PV → Bool
  | .err => true
  | _ => false

/-- `a if c else b`, and the `if c:` statement on one variable. -/
def ite (c a b : PV) : PV :=
  match c with
  | .err => .err
  | c => if c.truthy then a else b

end PV

/-- `not a` -/
def pyNot : PV → PV
  | .err => .err
  | a => .bool (!a.truthy)

/-- `a and b` (returns an operand, like Python) -/
def pyAnd (a b : PV) : PV :=
  match a with
  | .err => .err
  | a => if a.truthy then b else a

/-- `a or b` -/
def pyOr (a b : PV) : PV :=
  match a with
  | .err => .err
  | a => if a.truthy then a else b

/-- `a == b` on `None` / `bool` / `str` / sequences of `str`. -/
def pyEq (a b : PV) : PV :=
  if a.isErr || b.isErr then .err else .bool (a == b)

/-- `a != b` -/
def pyNe (a b : PV) : PV :=
  if a.isErr || b.isErr then .err else .bool (a != b)

/-- `a is None` -/
def pyIsNone : PV → PV
  | .err => .err
  | .none => .bool true
  | _ => .bool false

/-- `a is not None` -/
def pyIsNotNone : PV → PV
  | .err => .err
  | .none => .bool false
  | _ => .bool true

/-- `x in (t₀, t₁, …)`: the display is evaluated first, then compared left to right with `==`. -/
def pyInTuple (x : PV) (t : List PV) : PV :=
  if x.isErr || t.any PV.isErr then .err else .bool (t.any (fun y => x == y))

def pyNotInTuple (x : PV) (t : List PV) : PV := pyNot (pyInTuple x t)

/-- `x in container` for a sequence of strings (a `str` container would be a substring test: not
    modelled, `err`). -/
def pyIn (x container : PV) : PV :=
  match x, container with
  | .err, _ => .err
  | _, .err => .err
  | .str s, .strs l => .bool (l.contains s)
  | _, .strs _ => .bool false
  | _, _ => .err

def pyNotIn (x container : PV) : PV := pyNot (pyIn x container)

/-- `util.lower(x)`: iterates over its argument and calls `ord` on the items — a `str` only. -/
def pyLower : PV → PV
  | .str s => .str (lower s)
  | _ => .err

/-- `for x in seq: if <test x>: … break` — is there an item whose test is truthy (items after it are
    not looked at); `err` when the test of an item reached raises or `seq` is not a sequence of `str`. -/
def pyAnyList (f : PV → PV) : List Str → PV
  | [] => .bool false
  | x :: rest =>
    match f (.str x) with
    | .err => .err
    | r => if r.truthy then .bool true else pyAnyList f rest

def pyAny (seq : PV) (f : PV → PV) : PV :=
  match seq with
  | .strs l => pyAnyList f l
  | _ => .err

/-! ### Accessors: the model's functions, wrapped -/

/-- `self.is_xml` -/
def pyIsXml (c : Ctx) : PV := .bool c.isXml

/-- `self.get_tag_ns(el)` -/
def pyTagNs (c : Ctx) (e : Elem) : PV := .str (c.tagNs e)

/-- `self.get_tag(el)` -/
def pyGetTag (c : Ctx) (e : Elem) : PV := .str (c.tagName e)

/-- `self.namespaces.get(k)` -/
def pyNsGet (c : Ctx) : PV → PV
  | .str k => PV.ofOptStr (c.nsGet k)
  | .err => .err
  | .strs _ => .err        -- unhashable
  | _ => .none             -- the map's keys are strings

/-- `self.get_attribute_by_name(el, name, default)` -/
def pyAttrByName (c : Ctx) (e : Elem) (name dflt : PV) : PV :=
  match name, dflt with
  | .err, _ => .err
  | _, .err => .err
  | .str n, d =>
    match c.attrByName e n with
    | some v => PV.ofNVal v
    | .none => d
  | _, _ => .err

/-- `self.get_classes(el)` -/
def pyGetClasses (c : Ctx) (e : Elem) : PV := .strs (getClasses c e)

/-- `tag.name` / `tag.prefix` of a `ct.SelectorTag` -/
def pyTagName (t : SelTag) : PV := .str t.name
def pyTagPrefix (t : SelTag) : PV := PV.ofOptStr t.pfx

end PyMatchSel
end SoupVerif
