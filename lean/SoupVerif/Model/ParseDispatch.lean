/-
  The token dispatch of `CSSParser.parse_selectors` as DATA (definitions only, no Mathlib).

  * `Action`: what one branch of the `if key == … / elif …` chain of the `while True:` loop does.  The
    translator `gen/gen_py_parsedisp.py` reads the chain from the source text of css_parser.py on
    every run and emits it as `Gen.PyParseDisp.dispatch : List (List String × Action)`
    (`Generated/PyParseDisp.lean`).
  * `modelAction key`: the action the hand-written step function `ParserProgress.stepOf`
    (`Model/ParserStep.lean`, = one iteration of `Parser.parseLoop`) performs for the token `key`,
    read off its `if key == …` chain; `none` = no branch (the loop just moves `index` on).
  * `runAction`: the meaning of an action in the model: the loop-state transformer / raise / nested
    call the model performs.  A handler call is interpreted by NAME and SIGNATURE: the model
    counterpart of `self.parse_x(sel, m, has_selector, …)` is run only when the extra arguments
    and the assigned results are the ones the model counterpart assumes; anything else is `stuck`
    (an error kind no Python run can produce).
    `Properties/C06GenDispatch.lean` proves `stepOf … = runAction … (modelAction tok.name)`
    and `actionOf Gen.PyParseDisp.dispatch key = modelAction key` for every string `key`.
  * `switchOf`, `applyFinal`: the meaning of the generated prologue / epilogue flag tables.

  Names of locals (`has_selector`, `is_html`, `index` …) are the canonical ones of the translator
  (locals are alpha-normalised by binding order before translation, so a consistent renaming in the
  Python source does not change them).
-/
import SoupVerif.Model.ParserStep
namespace SoupVerif
namespace ParseDisp
open Rx SoupVerif.Parser SoupVerif.ParserProgress

/-- The position expressions the loop passes to a raise: `m.start(0)`, `m.end(0)`, `index`. -/
inductive Offset where
  | mStart | mEnd | index
  deriving DecidableEq, Repr, Inhabited

/-- `self.<name>(sel, m, has_selector, <extraArgs>…)` assigned to `<returns>…`. -/
abbrev Call := String × List String × List String

inductive Action where
  /-- `r… = self.name(sel, m, has_selector, a…)` -/
  | callHandler (name : String) (extraArgs : List String) (returns : List String)
  /-- `raise NotImplementedError(f"… {offset}")` -/
  | raiseNotImplemented (offset : Offset)
  /-- `sel.flags |= flag; has_selector = True` -/
  | setScope (flag : Nat)
  /-- `if not has_selector: (if not is_forgive: raise SelectorSyntaxError(…, expectedAt)); sel.no_match = True`
      `if is_open: closed = True; break  else: raise SelectorSyntaxError(…, unmatchedAt)` -/
  | pseudoClose (expectedAt unmatchedAt : Offset)
  /-- `if is_relative: <relative call> else: <ordinary call>` -/
  | combine (relative ordinary : Call)
  /-- `if has_selector: raise SelectorSyntaxError(…, guardAt)` then `<handler call>` -/
  | tagGuarded (guardAt : Offset) (handler : Call)
  deriving DecidableEq, Repr, Inhabited

/-- First branch of the chain whose key list contains `key` (Python's if / elif semantics). -/
def actionOf (table : List (List String × Action)) (key : String) : Option Action :=
  (table.find? (fun e => e.1.contains key)).map (·.2)

/-- All keys of a table, in order. -/
def keysOf (table : List (List String × Action)) : List String := table.flatMap (·.1)

/-- What `stepOf` does for token `key` (same order as its `if key == …` chain). -/
def modelAction (key : String) : Option Action :=
  if key == "at_rule" then some (.raiseNotImplemented .mStart)
  else if key == "amp" then some (.setScope SEL_SCOPE)
  else if key == "pseudo_class_custom" then some (.callHandler "parse_pseudo_class_custom" [] ["has_selector"])
  else if key == "pseudo_class" then
    some (.callHandler "parse_pseudo_class" ["iselector", "is_html"] ["has_selector", "is_html"])
  else if key == "pseudo_element" then some (.raiseNotImplemented .mStart)
  else if key == "pseudo_contains" then some (.callHandler "parse_pseudo_contains" [] ["has_selector"])
  else if key == "pseudo_nth_type" || key == "pseudo_nth_child" then
    some (.callHandler "parse_pseudo_nth" ["iselector"] ["has_selector"])
  else if key == "pseudo_lang" then some (.callHandler "parse_pseudo_lang" [] ["has_selector"])
  else if key == "pseudo_dir" then some (.callHandler "parse_pseudo_dir" [] ["has_selector"])
  else if key == "pseudo_close" then some (.pseudoClose .mStart .mStart)
  else if key == "combine" then
    some (.combine ("parse_has_combinator", ["selectors", "rel_type", "index"], ["has_selector", "sel", "rel_type"])
                   ("parse_combinator", ["selectors", "relations", "is_pseudo", "is_forgive", "index"], ["has_selector", "sel"]))
  else if key == "attribute" then some (.callHandler "parse_attribute_selector" [] ["has_selector"])
  else if key == "tag" then some (.tagGuarded .mStart ("parse_tag_pattern", [], ["has_selector"]))
  else if key == "class" || key == "id" then some (.callHandler "parse_class_id" [] ["has_selector"])
  else none

/-- The keys `modelAction` knows. -/
def modelKeys : List String :=
  ["at_rule", "amp", "pseudo_class_custom", "pseudo_class", "pseudo_element", "pseudo_contains", "pseudo_nth_type",
   "pseudo_nth_child", "pseudo_lang", "pseudo_dir", "pseudo_close", "combine", "attribute", "tag", "class", "id"]

def Offset.eval (o : Offset) (s : LS) (t : Token) : Nat :=
  match o with
  | .mStart => t.start
  | .mEnd => t.stop
  | .index => s.index

/-- A dispatch the model has no counterpart for. No Python run produces this kind. -/
def stuck (pattern : Str) : Step := .done (.error { kind := .pyBug "dispatch", pattern := pattern, offset := 0 })

/-- The model counterpart of `r… = self.name(sel, m, has_selector, a…)` followed by `index = m.end(0)`.
    `s` is the loop state after `key, m = next(iselector)` (`pos` already moved). -/
def runCall (env : CharEnv) (L : Lexicon) (B : Builtins) (pattern : Str) (s : LS) (t : Token) (c : Call) : Step :=
  let P : PEnv := ⟨env, L, B, pattern⟩
  let continue_ (s : LS) : Step := .cont { s with index := t.stop }
  if c == ("parse_pseudo_class_custom", [], ["has_selector"]) then
    let pseudo := lower (cssUnescape env L ((t.group P "name").getD []))
    match s.custom.get? pseudo with
    | none => .done (.error (P.err .undefinedCustom t.stop))
    | some (.compiled l) => continue_ { s with sel := s.sel.addSub l, hasSelector := true }
    | some (.src text) =>
      let custom' := s.custom.erase pseudo
      let pat2 := text.map (fun c => if c == 0 then 0xFFFD else c)
      let P2 : PEnv := ⟨env, L, B, pat2⟩
      .nest pat2 (startIndex P2) 0 FLG_PSEUDO custom' fun (l, _, custom'') =>
        { s with sel := s.sel.addSub l, hasSelector := true, custom := custom''.set pseudo (.compiled l), index := t.stop }
  else if c == ("parse_pseudo_class", ["iselector", "is_html"], ["has_selector", "is_html"]) then
    let pseudo := lower (cssUnescape env L ((t.group P "name").getD []))
    let complex := match t.group P "open" with
      | some o => !o.isEmpty
      | none => false
    if complex && inList L.pseudoComplex pseudo then
      let fl := FLG_PSEUDO ||| FLG_OPEN |||
        (if pseudo == ":not".toStr then FLG_NOT
         else if pseudo == ":has".toStr then FLG_RELATIVE
         else if pseudo == ":where".toStr || pseudo == ":is".toStr then FLG_FORGIVE else 0)
      .nest pattern t.stop t.stop fl s.custom fun (l, pos', custom') =>
        { s with sel := s.sel.addSub l, hasSelector := true, pos := pos', custom := custom', index := t.stop }
    else if !complex && inList L.pseudoSimple pseudo then
      continue_ { s with sel := applySimplePseudo P pseudo s.sel, hasSelector := true }
    else if complex && inList L.pseudoComplexNoMatch pseudo then
      .nest pattern t.stop t.stop (FLG_PSEUDO ||| FLG_OPEN) s.custom fun (_, pos', custom') =>
        { s with sel := s.sel.setNoMatch, hasSelector := true, pos := pos', custom := custom', index := t.stop }
    else if !complex && inList L.pseudoSimpleNoMatch pseudo then
      continue_ { s with sel := s.sel.setNoMatch, hasSelector := true }
    else if inList L.pseudoSupported pseudo then .done (.error (P.err .invalidPseudoSyntax t.start))
    else .done (.error (P.err .unknownPseudo t.start))
  else if c == ("parse_pseudo_contains", [], ["has_selector"]) then
    let pseudo := lower (cssUnescape env L ((t.group P "name").getD []))
    let own := pseudo == ":-soup-contains-own".toStr
    let vals := parseValues P ((t.group P "values").getD [])
    continue_ { s with sel := s.sel.addContains ⟨vals, own⟩, hasSelector := true }
  else if c == ("parse_pseudo_nth", ["iselector"], ["has_selector"]) then
    let isChild := match t.group P "pseudo_nth_child" with
      | some g => !g.isEmpty
      | none => false
    let name := lower (cssUnescape env L ((t.group P "name").getD []))
    let content := lower ((t.group P (if isChild then "nth_child" else "nth_type")).getD [])
    let (a, var, b) := parseAnB P content
    if isChild then
      let ofPresent := match t.group P "of" with
        | some g => !g.isEmpty
        | none => false
      let k : SelRes → LS := fun (nthSel, pos', custom') =>
        let sel :=
          if name == ":nth-child".toStr then s.sel.addNth [nthOf a var b false false nthSel]
          else if name == ":nth-last-child".toStr then s.sel.addNth [nthOf a var b false true nthSel]
          else s.sel
        { s with sel := sel, hasSelector := true, pos := pos', custom := custom', index := t.stop }
      if ofPresent then .nest pattern t.stop t.stop (FLG_PSEUDO ||| FLG_OPEN) s.custom k
      else .cont (k (B.nthOfSDefault, s.pos, s.custom))
    else
      let e := SelList.mk [] false false
      let sel :=
        if name == ":nth-of-type".toStr then s.sel.addNth [nthOf a var b true false e]
        else if name == ":nth-last-of-type".toStr then s.sel.addNth [nthOf a var b true true e]
        else s.sel
      continue_ { s with sel := sel, hasSelector := true }
  else if c == ("parse_pseudo_lang", [], ["has_selector"]) then
    let vals := parseValues P ((t.group P "values").getD [])
    continue_ { s with sel := s.sel.addLang ⟨vals⟩, hasSelector := true }
  else if c == ("parse_pseudo_dir", [], ["has_selector"]) then
    let v := if lower ((t.group P "dir").getD []) == "ltr".toStr then SEL_DIR_LTR else SEL_DIR_RTL
    continue_ { s with sel := s.sel.addSub (.mk [(SelB.empty.setFlags v).freeze] false true), hasSelector := true }
  else if c == ("parse_attribute_selector", [], ["has_selector"]) then
    continue_ { s with sel := parseAttribute P t s.sel, hasSelector := true }
  else if c == ("parse_tag_pattern", [], ["has_selector"]) then
    let pfx : Option Str := match t.group P "tag_ns" with
      | some n => if n.isEmpty then none else some (cssUnescape env L (n.take (n.length - 1)))
      | none => none
    let name := cssUnescape env L ((t.group P "tag_name").getD [])
    continue_ { s with sel := s.sel.setTag ⟨name, pfx⟩, hasSelector := true }
  else if c == ("parse_class_id", [], ["has_selector"]) then
    let text := slice pattern t.start t.stop
    let v := cssUnescape env L (text.drop 1)
    let sel := if text.head? == some 46 then s.sel.addClass v else s.sel.addId v
    continue_ { s with sel := sel, hasSelector := true }
  else stuck pattern

/-- The model counterparts of the two combinator handlers (they return the new loop state or raise). -/
def runCombinator (env : CharEnv) (L : Lexicon) (B : Builtins) (pattern : Str) (flags : Nat) (s : LS) (t : Token)
    (relative : Bool) (c : Call) : Option (M LS) :=
  let P : PEnv := ⟨env, L, B, pattern⟩
  let has (f : Nat) : Bool := (flags &&& f) != 0
  if relative && c == ("parse_has_combinator", ["selectors", "rel_type", "index"], ["has_selector", "sel", "rel_type"]) then
    some (parseHasCombinator P t s s.index)
  else if !relative && c == ("parse_combinator", ["selectors", "relations", "is_pseudo", "is_forgive", "index"], ["has_selector", "sel"]) then
    some (parseCombinator P t s (has FLG_PSEUDO) (has FLG_FORGIVE) s.index)
  else none

/-- `NotImplementedError` is raised for two token kinds; the kind records which. -/
def notImplementedKind (key : String) : ErrKind := if key == "at_rule" then .atRule else .pseudoElement

/-- The meaning of one branch of the chain, followed by `index = m.end(0)` unless the branch leaves the loop.
    `s` is the loop state after `key, m = next(iselector)`; `none` = no branch applies. -/
def runAction (env : CharEnv) (L : Lexicon) (B : Builtins) (pattern : Str) (flags : Nat) (s : LS) (t : Token) :
    Option Action → Step
  | none => .cont { s with index := t.stop }
  | some (.callHandler name extra rets) => runCall env L B pattern s t (name, extra, rets)
  | some (.raiseNotImplemented off) =>
    .done (.error ((⟨env, L, B, pattern⟩ : PEnv).err (notImplementedKind t.name) (off.eval s t)))
  | some (.setScope flag) => .cont { s with sel := s.sel.orFlags flag, hasSelector := true, index := t.stop }
  | some (.pseudoClose offExpected offUnmatched) =>
    let P : PEnv := ⟨env, L, B, pattern⟩
    let has (f : Nat) : Bool := (flags &&& f) != 0
    if !s.hasSelector && !has FLG_FORGIVE then .done (.error (P.err .expectedSelector (offExpected.eval s t)))
    else
      let s := if !s.hasSelector then { s with sel := s.sel.setNoMatch } else s
      if has FLG_OPEN then .done (.ok { s with closed := true })
      else .done (.error (P.err .unmatchedClose (offUnmatched.eval s t)))
  | some (.combine rel ord) =>
    let relative : Bool := (flags &&& FLG_RELATIVE) != 0
    match runCombinator env L B pattern flags s t relative (if relative then rel else ord) with
    | none => stuck pattern
    | some (.error e) => .done (.error e)
    | some (.ok s') => .cont { s' with index := t.stop }
  | some (.tagGuarded off call) =>
    if s.hasSelector then .done (.error ((⟨env, L, B, pattern⟩ : PEnv).err .tagNotAtStart (off.eval s t)))
    else runCall env L B pattern s t call

/-- `is_x = bool(flags & mask)` for the switch named `name` of a prologue table. -/
def switchOf (switches : List (String × Nat)) (flags : Nat) (name : String) : Bool :=
  match switches.lookup name with
  | some mask => (flags &&& mask) != 0
  | none => false

/-- `if is_x: selectors[-1].flags = v` for every row of an epilogue table, in order. -/
def applyFinal (final : List (String × Nat)) (sw : String → Bool) (sels : List SelB) : List SelB :=
  final.foldl (fun sels e => if sw e.1 then modifyLast sels (·.setFlags e.2) else sels) sels

/-! ## `parse_pseudo_class`: the dispatch on the pseudo-class NAME (the `PSEUDO_SIMPLE` branch) -/

/-- `ct.SelectorNth(a, var, b, of_type, last, ct.SelectorList())` -/
structure NthRec where
  a : Int
  var : Bool
  b : Int
  ofType : Bool
  last : Bool
  deriving DecidableEq, Repr, Inhabited

inductive PseudoAction where
  /-- `sel.flags |= ct.SEL_X` -/
  | orFlag (flag : Nat)
  /-- `sel.selectors.append(CSS_X)` — a module-level pre-compiled list, by name -/
  | appendBuiltin (name : String)
  /-- `sel.selectors.append(ct.SelectorList([_Selector(flags=ct.SEL_X).freeze()], isNot, isHtml))` -/
  | appendFlagList (flag : Nat) (isNot isHtml : Bool)
  /-- `sel.nth.append(r)` / `sel.nth.extend([r, …])` -/
  | appendNth (recs : List NthRec)
  deriving DecidableEq, Repr, Inhabited

/-- First branch of the name chain that applies to `name`. -/
def pseudoActionOf (table : List (List String × PseudoAction)) (name : Str) : Option PseudoAction :=
  (table.find? (fun e => e.1.any (fun k => name == k.toStr))).map (·.2)

def pseudoKeysOf (table : List (List String × PseudoAction)) : List String := table.flatMap (·.1)

/-- The module-level name of each pre-compiled list the model reads through `Builtins`
    (`Generated/Lexicon.lean` `builtinsRec` wires `link := CSS_LINK`, …). -/
def builtinOf (B : Builtins) (name : String) : Option SelList :=
  if name == "CSS_LINK" then some B.link
  else if name == "CSS_CHECKED" then some B.checked
  else if name == "CSS_DEFAULT" then some B.dflt
  else if name == "CSS_INDETERMINATE" then some B.indeterminate
  else if name == "CSS_DISABLED" then some B.disabled
  else if name == "CSS_ENABLED" then some B.enabled
  else if name == "CSS_REQUIRED" then some B.required
  else if name == "CSS_OPTIONAL" then some B.optional
  else if name == "CSS_READ_ONLY" then some B.readOnly
  else if name == "CSS_READ_WRITE" then some B.readWrite
  else if name == "CSS_IN_RANGE" then some B.inRange
  else if name == "CSS_OUT_OF_RANGE" then some B.outOfRange
  else if name == "CSS_PLACEHOLDER_SHOWN" then some B.placeholderShown
  else none

/-- The meaning of a branch of the name chain on the compound being built; `none` = no branch (nothing happens). -/
def runPseudo (B : Builtins) : Option PseudoAction → SelB → SelB
  | none, sel => sel
  | some (.orFlag f), sel => sel.orFlags f
  | some (.appendBuiltin n), sel =>
    match builtinOf B n with
    | some l => sel.addSub l
    | none => sel
  | some (.appendFlagList f isNot isHtml), sel => sel.addSub (.mk [(SelB.empty.setFlags f).freeze] isNot isHtml)
  | some (.appendNth recs), sel =>
    sel.addNth (recs.map (fun r => nthOf r.a r.var r.b r.ofType r.last (.mk [] false false)))

/-- What `Parser.applySimplePseudo` does for `pseudo` (same order as its `if is "…"` chain). -/
def modelPseudoAction (pseudo : Str) : Option PseudoAction :=
  let is (s : String) := pseudo == s.toStr
  if is ":root" then some (.orFlag SEL_ROOT)
  else if is ":defined" then some (.appendFlagList SEL_DEFINED false true)
  else if is ":scope" then some (.orFlag SEL_SCOPE)
  else if is ":empty" then some (.orFlag SEL_EMPTY)
  else if is ":link" || is ":any-link" then some (.appendBuiltin "CSS_LINK")
  else if is ":checked" then some (.appendBuiltin "CSS_CHECKED")
  else if is ":default" then some (.appendBuiltin "CSS_DEFAULT")
  else if is ":indeterminate" then some (.appendBuiltin "CSS_INDETERMINATE")
  else if is ":disabled" then some (.appendBuiltin "CSS_DISABLED")
  else if is ":enabled" then some (.appendBuiltin "CSS_ENABLED")
  else if is ":required" then some (.appendBuiltin "CSS_REQUIRED")
  else if is ":optional" then some (.appendBuiltin "CSS_OPTIONAL")
  else if is ":read-only" then some (.appendBuiltin "CSS_READ_ONLY")
  else if is ":read-write" then some (.appendBuiltin "CSS_READ_WRITE")
  else if is ":in-range" then some (.appendBuiltin "CSS_IN_RANGE")
  else if is ":out-of-range" then some (.appendBuiltin "CSS_OUT_OF_RANGE")
  else if is ":placeholder-shown" then some (.appendBuiltin "CSS_PLACEHOLDER_SHOWN")
  else if is ":first-child" then some (.appendNth [⟨1, false, 0, false, false⟩])
  else if is ":last-child" then some (.appendNth [⟨1, false, 0, false, true⟩])
  else if is ":first-of-type" then some (.appendNth [⟨1, false, 0, true, false⟩])
  else if is ":last-of-type" then some (.appendNth [⟨1, false, 0, true, true⟩])
  else if is ":only-child" then some (.appendNth [⟨1, false, 0, false, false⟩, ⟨1, false, 0, false, true⟩])
  else if is ":only-of-type" then some (.appendNth [⟨1, false, 0, true, false⟩, ⟨1, false, 0, true, true⟩])
  else none

/-- The names `modelPseudoAction` knows. -/
def modelPseudoKeys : List String :=
  [":root", ":defined", ":scope", ":empty", ":link", ":any-link", ":checked", ":default", ":indeterminate", ":disabled",
   ":enabled", ":required", ":optional", ":read-only", ":read-write", ":in-range", ":out-of-range", ":placeholder-shown",
   ":first-child", ":last-child", ":first-of-type", ":last-of-type", ":only-child", ":only-of-type"]

end ParseDisp
end SoupVerif
