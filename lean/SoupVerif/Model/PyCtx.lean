/-
  The Python primitives the source-translated `get_pattern_context` (`Generated/PyContext.lean`,
  gen/gen_py_context.py) is built on; everything else in that program is emitted by the translator.

  * `pySlice s a b` — `s[a:b]` for a str and two Python ints: a negative bound counts from the end and is clamped at 0,
                      a bound beyond the end is clamped to `len(s)`, `a ≥ b` gives `''`;
  * `strMul s n`    — `s * n` (`''` for `n ≤ 0`);
  * `forSpans`      — the FRAME `for m in <RE>.finditer(pattern): st = body(st, m.start(0), m.end(0))` as a fold over
                      the list of `(m.start(0), m.end(0))` spans (the spans are those of the `finditer` model
                      `Refine.Context.finditer` on the regenerated regular expression: Properties/C20Gen.lean).
  Mathlib-free, executable.
-/
import SoupVerif.Model.Py
namespace SoupVerif
namespace PyCtx

/-- A slice bound as CPython's `PySlice_AdjustIndices` normalises it (step 1), before clamping to `len`. -/
def sliceBound (len : Nat) (i : Int) : Nat := if i < 0 then (i + (len : Int)).toNat else i.toNat

/-- `s[a:b]`. -/
def pySlice (s : Str) (a b : Int) : Str := (s.take (sliceBound s.length b)).drop (sliceBound s.length a)

/-- `s * n`. -/
def strMul (s : Str) (n : Int) : Str := (List.replicate n.toNat s).flatten

/-- `for m in <RE>.finditer(pattern): st = body(st, m.start(0), m.end(0))`. -/
def forSpans {σ : Type} (body : σ → Nat → Nat → σ) (spans : List (Nat × Nat)) (init : σ) : σ :=
  spans.foldl (fun st m => body st m.1 m.2) init

example : pySlice "abcdef".toStr 1 4 = "bcd".toStr ∧ pySlice "abcdef".toStr (-3) 9 = "def".toStr ∧
    pySlice "abcdef".toStr 4 2 = [] ∧ pySlice "abcdef".toStr (-9) (-4) = "ab".toStr ∧
    strMul " ".toStr 3 = "   ".toStr ∧ strMul " ".toStr (-1) = [] ∧ strMul "ab".toStr 2 = "abab".toStr := by decide

end PyCtx
end SoupVerif
