/-
  Run-time support of the source-to-Lean translation of the small token handlers of `CSSParser`
  (`parse_tag_pattern`, `parse_class_id`, `parse_pseudo_dir`, `parse_pseudo_lang`, `parse_pseudo_contains`;
  `gen/gen_py_handlers.py` → `Generated/PyHandlers.lean`).  HAND-WRITTEN, part of the trusted base: each definition
  says which Python operation it stands for.  Strings are `Str`, `str | None` (what `Match.group(name)` returns) is
  `Option Str`; operations that can raise run in `PyStr.M` in evaluation order.
-/
import SoupVerif.Model.Parser
import SoupVerif.Model.PyStr
namespace SoupVerif
namespace PyHandlers

/-- What a handler adds to the selector under construction (`sel`): the one statement of the handler that
    writes to `sel`, by FIELD. -/
inductive Add where
  /-- `sel.tag = ct.SelectorTag(name, prefix)` -/
  | tag (name : Str) (pfx : Option Str)
  /-- `sel.classes.append(v)` -/
  | classes (v : Str)
  /-- `sel.ids.append(v)` -/
  | ids (v : Str)
  /-- `sel.lang.append(ct.SelectorLang(patterns))` -/
  | lang (patterns : List Str)
  /-- `sel.contains.append(ct.SelectorContains(patterns, own))` -/
  | contains (patterns : List Str) (own : Bool)
  /-- `sel.selectors.append(ct.SelectorList([_Selector(flags=flags).freeze()], isNot, isHtml))` -/
  | flagList (flags : Nat) (isNot isHtml : Bool)
  deriving Repr, Inhabited

/-- The addition on the model's selector under construction. -/
def Add.apply : Add → Parser.SelB → Parser.SelB
  | .tag n p, b => b.setTag ⟨n, p⟩
  | .classes v, b => b.addClass v
  | .ids v, b => b.addId v
  | .lang ps, b => b.addLang ⟨ps⟩
  | .contains ps own, b => b.addContains ⟨ps, own⟩
  | .flagList f isNot isHtml, b => b.addSub (.mk [(Parser.SelB.empty.setFlags f).freeze] isNot isHtml)

/-- A `str` argument that is `None`: `css_unescape(None)`, `util.lower(None)`, `RE.finditer(None)` raise `TypeError`. -/
def req : Option Str → PyStr.M Str
  | none => .error .typeError
  | some s => .ok s

/-- `x.startswith(p)` / `x.startswith((p₁, p₂, …))`; `AttributeError` on `None`. -/
def startswithAny (x : Option Str) (ps : List Str) : PyStr.M Bool :=
  match x with
  | none => .error .attributeError
  | some s => .ok (ps.any (fun p => p.isPrefixOf s))

/-- `patterns = []; for token in <finditer result>: <step>` where the step either `continue`s (`none`) or ends with
    `patterns.append(v)` (`some v`); the first exception ends the loop. -/
def forAppend {α} (step : α → PyStr.M (Option Str)) : List α → PyStr.M (List Str)
  | [] => .ok []
  | m :: rest =>
    match step m with
    | .error e => .error e
    | .ok r =>
      match forAppend step rest with
      | .error e => .error e
      | .ok l => .ok (match r with | some v => v :: l | none => l)

end PyHandlers
end SoupVerif
