/-
  The three per-call memo tables of `css_match.CSSMatch` as a state machine.

      self.cached_meta_lang = []            # list[(root, lang or None)]       match_lang
      self.cached_default_forms = []        # list[(form, first submit)]       match_default
      self.cached_indeterminate_forms = []  # list[(form, name, bool)]         match_indeterminate

  Keys are Python objects compared with `is`: positions (`Loc.pos`) in the model.  Each
  `…M` function below is its Python function WITH the cache lookups and appends; the scans that
  run on a cache miss are the ones of the pure model (`Model/Match.lean`), re-used verbatim, so
  that the only difference between `matchDefaultM` and `matchDefault` (etc.) is the table.
  `Properties/C04` proves that the tables never change an answer — for `:indeterminate` only under
  a side condition, which is stated there.

  Non-mutation: the tree is a value (`Node` / `Loc`); no function of the model returns a tree.
  What the model cannot see is a caller mutating the tree between two items of the `iselect`
  generator (one `CSSMatch` object — one set of tables — lives across the whole iteration).
-/
import SoupVerif.Model.Match
namespace SoupVerif
namespace Memo

structure State where
  metaLang : List (List Nat × Option NVal)
  defaultForms : List (List Nat × List Nat)
  indeterminateForms : List (List Nat × Option NVal × Bool)
  deriving Repr, Inhabited

/-- `CSSMatch.__init__`: three empty lists. -/
def State.init : State := ⟨[], [], []⟩

/-! ### `match_default` -/

/-- `match_default(el)` with `cached_default_forms`. -/
def matchDefaultM (c : Ctx) (σ : State) (l : Loc) : Bool × State :=
  match defaultForm c l with
  | none => (false, σ)
  | some form =>
    -- for f, t in self.cached_default_forms: if f is form: found_form = True; match = t is el; break
    match σ.defaultForms.find? (fun p => p.1 == form.pos) with
    | some (_, t) => (t == l.pos, σ)
    | none =>
      -- the scan; a form is cached only when a submit button is found
      match firstSubmit c (c.tagDescendants form true) with
      | some b => (b.same l, { σ with defaultForms := σ.defaultForms ++ [(form.pos, b.pos)] })
      | none => (false, σ)

/-! ### `match_indeterminate` -/

/-- The body of the scan for one `child`: an `input` whose attributes make it a checked radio
    named `name` and whose `get_parent_form(child) is form`. -/
def isCheckedRadioOf (c : Ctx) (form : Loc) (name : Option NVal) (ch : Loc) : Bool :=
  match ch.elem? with
  | none => false
  | some ce =>
    c.tagName ce == "input".toStr && c.isHtmlTag ce && radioCheckedScan c.isXml name ce.attrs false false false &&
      (match parentForm c ch with
       | some f => f.same form
       | none => false)

/-- `checked` after the loop over `get_tag_descendants(form)`, which skips `child is el`. -/
def indeterminateScan (c : Ctx) (form : Loc) (name : Option NVal) (l : Loc) : Bool :=
  (c.tagDescendants form true).any fun ch =>
    if ch.same l then false else isCheckedRadioOf c form name ch

/-- `match_indeterminate(el)` with `cached_indeterminate_forms`.  The key is `(form, name)`; the
    value stored is the answer computed for the FIRST element that asked. -/
def matchIndeterminateM (c : Ctx) (σ : State) (l : Loc) : Bool × State :=
  match l.elem? with
  | none => (false, σ)
  | some e =>
    let name := c.attrByName e "name".toStr
    match parentForm c l with
    | none => (false, σ)
    | some form =>
      -- for f, n, i in cache: if f is form and n == name: found_form = True; match = i; break
      match σ.indeterminateForms.find? (fun p => p.1 == form.pos && p.2.1 == name) with
      | some (_, _, i) => (i, σ)
      | none =>
        let m := !indeterminateScan c form name l
        (m, { σ with indeterminateForms := σ.indeterminateForms ++ [(form.pos, name, m)] })

/-! ### `match_lang` -/

/-- One `for child in self.get_tag_children(parent, no_iframe=self.is_html)` search. -/
def findChildTag (c : Ctx) (p : Loc) (tag : String) : Option Loc :=
  (c.tagChildren p c.isHtml).find? fun ch =>
    match ch.elem? with
    | some e => c.tagName e == tag.toStr && c.isHtmlTag e
    | none => false

/-- `for tag in ('html', 'head')`: the `head` element, when both are found. -/
def findHtml (c : Ctx) (start : Loc) : Option Loc :=
  match start.elem? with
  | some e => if !start.isDoc && c.tagName e == "html".toStr && c.isHtmlTag e then some start else findChildTag c start "html"
  | none => findChildTag c start "html"

def findHead (c : Ctx) (start : Loc) : Option Loc :=
  match findHtml c start with
  | none => none
  | some html => findChildTag c html "head"

/-- `for child2 in parent:` the `<meta>` scan below `head`. -/
def scanHead (c : Ctx) (head : Loc) : Option NVal :=
  match head.elem? with
  | none => none
  | some he =>
    head.children.findSome? fun ch =>
      match ch.elem? with
      | some me =>
        if c.tagName me == "meta".toStr && c.isHtmlTag me then metaLangScan me.attrs false none else none
      | none => none

/-- `self.is_html`: the pragma is consulted in HTML documents (XHTML included). -/
def metaCond (c : Ctx) (_last : Loc) : Bool := c.isHtml

/-- The language of an element as `match_lang` determines it, with `cached_meta_lang`.
    * the table is consulted only when the parent walk found no `lang`;
    * the lookup loop has no `break`: the LAST entry for `root` wins;
    * a hit `(root, None)` means "already searched, nothing there": no second search;
    * an entry is appended only when `head` was found (`(root, lang)` or `(root, None)`);
      when `html`/`head` is missing nothing is stored. -/
def langOfM (c : Ctx) (σ : State) (l : Loc) : Option NVal × State :=
  let (found, last) := langWalk c (l :: c.ancestors l c.isHtml) l
  match found with
  | some v => (some v, σ)
  | none =>
    match (σ.metaLang.filter (fun p => p.1 == last.pos)).getLast? with
    | some (_, v) => (v, σ)
    | none =>
      if metaCond c last then
        match findHead c last with
        | none => (none, σ)
        | some head =>
          let v := scanHead c head
          (v, { σ with metaLang := σ.metaLang ++ [(last.pos, v)] })
      else (none, σ)

/-- `match_lang(el, langs)` with the table. -/
def matchLangM (c : Ctx) (σ : State) (l : Loc) (langs : List LangSel) : Bool × State :=
  let (v, σ') := langOfM c σ l
  (match v with
   | none => false
   | some v =>
     let tag := match v with | .str s => s | .list ls => joinWith [32] ls
     langs.all fun pats => pats.languages.any fun p => Lang.extendedFilter c.wildStrip p tag, σ')

/-! ### Query histories -/

inductive Query where
  | default (l : Loc)
  | indeterminate (l : Loc)
  | lang (l : Loc) (langs : List LangSel)
  | langOf (l : Loc)
  deriving Repr

inductive Answer where
  | bool (b : Bool)
  | lang (v : Option NVal)
  deriving Repr, DecidableEq

/-- One query against the tables. -/
def step (c : Ctx) (σ : State) : Query → Answer × State
  | .default l => let r := matchDefaultM c σ l; (.bool r.1, r.2)
  | .indeterminate l => let r := matchIndeterminateM c σ l; (.bool r.1, r.2)
  | .lang l langs => let r := matchLangM c σ l langs; (.bool r.1, r.2)
  | .langOf l => let r := langOfM c σ l; (.lang r.1, r.2)

/-- The same query against the pure model. -/
def pureAnswer (c : Ctx) : Query → Answer
  | .default l => .bool (matchDefault c l)
  | .indeterminate l => .bool (matchIndeterminate c l)
  | .lang l langs => .bool (matchLang c l langs)
  | .langOf l => .lang (SoupVerif.langOf c l)

/-- A history of queries threaded through the tables: the answers and the final state. -/
def run (c : Ctx) : State → List Query → List Answer × State
  | σ, [] => ([], σ)
  | σ, q :: qs =>
    let r := step c σ q
    let rs := run c r.2 qs
    (r.1 :: rs.1, rs.2)

end Memo
end SoupVerif
