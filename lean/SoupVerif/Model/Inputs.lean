/-
  `css_match.Inputs`: parsing and validating the date / time / number strings of
  `:in-range` / `:out-of-range`, and the comparison of `match_range`.
  The six `RE_*` shapes are written as scanners over code points (each is tied to its regex
  by the correspondence check); the validators mirror the Python line by line.
-/
import SoupVerif.Model.Py
namespace SoupVerif
namespace Inputs

def isDigit (c : Nat) : Bool := 48 ≤ c && c ≤ 57

/-- `int(s, 10)` on a string of ASCII digits. -/
def digitsVal (s : Str) : Nat := s.foldl (fun acc c => acc * 10 + (c - 48)) 0

def allDigits (s : Str) : Bool := !s.isEmpty && s.all isDigit

-- css_match.py: MONTHS_30, FEB, ...
def validateDay (year month day : Nat) : Bool :=
  let maxDays :=
    if month == 2 then
      (if (year % 4 == 0 && year % 100 != 0) || year % 400 == 0 then 29 else 28)
    else if month == 4 || month == 6 || month == 9 || month == 11 then 30
    else 31
  1 ≤ day && day ≤ maxDays

/-- Weekday of 31 December, Monday = 1 … Sunday = 7. -/
def dec31 (year : Nat) : Nat :=
  let r := (year + year / 4 - year / 100 + year / 400) % 7
  if r == 0 then 7 else r

def isLeap (year : Nat) : Bool := (year % 4 == 0 && year % 100 != 0) || year % 400 == 0

def maxWeek (year : Nat) : Nat :=
  if dec31 year ≤ 4 || (dec31 year == 5 && isLeap year) then 53 else 52

def validateWeek (year week : Nat) : Bool := 1 ≤ week && week ≤ maxWeek year
def validateMonth (month : Nat) : Bool := 1 ≤ month && month ≤ 12
def validateYear (year : Nat) : Bool := 1 ≤ year
def validateHour (hour : Nat) : Bool := hour ≤ 23
def validateMinutes (m : Nat) : Bool := m ≤ 59

/-- Split `s` at the first occurrence of `c`. -/
def splitAt1 (c : Nat) : Str → Option (Str × Str)
  | [] => none
  | x :: xs => if x == c then some ([], xs) else (splitAt1 c xs).map fun (a, b) => (x :: a, b)

def isYear (s : Str) : Bool := s.length ≥ 4 && s.all isDigit
def is2 (s : Str) : Bool := s.length == 2 && s.all isDigit

/-- A parsed value: a tuple of integers (date-like types) or an exact decimal
    `mant * 10 ^ exp` (numbers; CPython compares the nearest doubles). -/
inductive PVal where
  | ints (l : List Nat)
  | num (neg : Bool) (mant : Nat) (exp : Int)
  deriving Repr, Inhabited

/-- `RE_DATE` shape. -/
def shapeDate (s : Str) : Option (Nat × Nat × Nat) := do
  let (y, r) ← splitAt1 45 s
  let (m, d) ← splitAt1 45 r
  if isYear y && is2 m && is2 d then some (digitsVal y, digitsVal m, digitsVal d) else none

def shapeMonth (s : Str) : Option (Nat × Nat) := do
  let (y, m) ← splitAt1 45 s
  if isYear y && is2 m then some (digitsVal y, digitsVal m) else none

def shapeWeek (s : Str) : Option (Nat × Nat) := do
  let (y, r) ← splitAt1 45 s
  match r with
  | 87 :: w => if isYear y && is2 w then some (digitsVal y, digitsVal w) else none
  | _ => none

def shapeTime (s : Str) : Option (Nat × Nat) := do
  let (h, m) ← splitAt1 58 s
  if is2 h && is2 m then some (digitsVal h, digitsVal m) else none

def shapeDateTime (s : Str) : Option (Nat × Nat × Nat × Nat × Nat) := do
  let (d, t) ← splitAt1 84 s
  let (y, mo, da) ← shapeDate d
  let (h, mi) ← shapeTime t
  some (y, mo, da, h, mi)

/-- `RE_NUM` shape: `-?(digits(.digits)?|.digits)([eE][-+]?digits)?` as an exact decimal. -/
def shapeNum (s : Str) : Option PVal :=
  let (neg, s) := match s with
    | 45 :: r => (true, r)
    | _ => (false, s)
  let ip := s.takeWhile isDigit
  let r := s.dropWhile isDigit
  let fracRest : Option (Str × Str) :=
    match r with
    | 46 :: r' =>
      let fp := r'.takeWhile isDigit
      if fp.isEmpty then none else some (fp, r'.dropWhile isDigit)
    | _ => if ip.isEmpty then none else some ([], r)
  match fracRest with
  | none => none
  | some (fp, r) =>
    let expo : Option Int :=
      match r with
      | [] => some 0
      | e :: r' =>
        if e == 101 || e == 69 then
          let (eneg, r'') := match r' with
            | 45 :: t => (true, t)
            | 43 :: t => (false, t)
            | _ => (false, r')
          if allDigits r'' then some (if eneg then - (Int.ofNat (digitsVal r'')) else Int.ofNat (digitsVal r'')) else none
        else none
    match expo with
    | none => none
    | some e => some (.num neg (digitsVal (ip ++ fp)) (e - Int.ofNat fp.length))

/-- `Inputs.parse_value(itype, value)` for a string `value`. -/
def parseValue (itype : Str) (value : Str) : Option PVal :=
  if itype == "date".toStr then
    match shapeDate value with
    | some (y, m, d) => if validateYear y && validateMonth m && validateDay y m d then some (.ints [y, m, d]) else none
    | none => none
  else if itype == "month".toStr then
    match shapeMonth value with
    | some (y, m) => if validateYear y && validateMonth m then some (.ints [y, m]) else none
    | none => none
  else if itype == "week".toStr then
    match shapeWeek value with
    | some (y, w) => if validateYear y && validateWeek y w then some (.ints [y, w]) else none
    | none => none
  else if itype == "time".toStr then
    match shapeTime value with
    | some (h, m) => if validateHour h && validateMinutes m then some (.ints [h, m]) else none
    | none => none
  else if itype == "datetime-local".toStr then
    match shapeDateTime value with
    | some (y, mo, d, h, mi) =>
      if validateYear y && validateMonth mo && validateDay y mo d && validateHour h && validateMinutes mi
      then some (.ints [y, mo, d, h, mi]) else none
    | none => none
  else if itype == "number".toStr || itype == "range".toStr then shapeNum value
  else none

/-- Tuple `<` on equal-length integer tuples. -/
def ltInts : List Nat → List Nat → Bool
  | [], [] => false
  | [], _ :: _ => true
  | _ :: _, [] => false
  | a :: as, b :: bs => a < b || (a == b && ltInts as bs)

def numVal (neg : Bool) (mant : Nat) (exp : Int) (base : Int) : Int :=
  -- value scaled by 10^(-base), base ≤ exp
  let v : Int := Int.ofNat mant * (10 : Int) ^ (exp - base).toNat
  if neg then -v else v

def ltP : PVal → PVal → Bool
  | .ints a, .ints b => ltInts a b
  | .num n1 m1 e1, .num n2 m2 e2 =>
    let base := min e1 e2
    numVal n1 m1 e1 base < numVal n2 m2 e2 base
  | _, _ => false

end Inputs
end SoupVerif
