/-
  A small deep-embedded language for the body of `css_match.Inputs._parse_value`, and its evaluator.

  `_parse_value` is an `if / elif` chain on `itype`; every branch has the shape

      m = RE_X.match(value)
      if m:
          v1 = int(m.group('g1'), 10) ... vn = int(m.group('gn'), 10)
          if cls.validate_a(..) and cls.validate_b(..) ...:
              parsed = (w1, ..., wk)
    or
          parsed = (float(m.group('g')),)

  `gen/gen_py_inputs.py` checks that the source has exactly this shape (anything else: the generator raises) and
  emits the chain as a `Prog` term (`Gen.PyInputs.parseValueProg`), together with the table that instantiates the
  regular-expression NAMES by the regenerated expressions (`Gen.cm_RE_DATE`, ... and their group tables) and the
  table that instantiates the validator NAMES by the translated validators (`Gen.PyInputs.validate_*`).

  The evaluator runs a program with the regex-engine model: `RE_X.match(value)` is `Rx.matchAt _ rx value 0`,
  `m.group(name)` goes through the group table of the expression, `int(text, 10)` is `Inputs.digitsVal`,
  `float(text)` is `Inputs.shapeNum` (an exact decimal; see `Model/Inputs.lean`).  A program that Python would stop
  with an exception (unknown regex / group / validator / variable, wrong number of arguments) evaluates to `none`;
  otherwise the result is `some parsed` with `parsed : Option PVal` (`None` or the tuple).
-/
import SoupVerif.Model.Regex
import SoupVerif.Model.Inputs
namespace SoupVerif
namespace PyProg
open Inputs

/-- `cls.<fn>(<args>)`: a validator called on local variables. -/
structure Call where
  fn : String
  args : List String
  deriving Repr, DecidableEq

/-- What a branch does once its regular expression has matched. -/
inductive Body where
  /-- `v = int(m.group(g), 10)` for every `(v, g)` of `binds` in order; then, if every call of `conds` (a
      conjunction, evaluated left to right) holds, `parsed = (result...)`. -/
  | ints (binds : List (String × String)) (conds : List Call) (result : List String)
  /-- `parsed = (float(m.group(group)),)`. -/
  | float (group : String)
  deriving Repr, DecidableEq

/-- One `if` / `elif` of the chain: `itype == "a"` (`itypes = ["a"]`) or `itype in ("a", "b")`. -/
structure Branch where
  itypes : List String
  regex : String
  body : Body
  deriving Repr, DecidableEq

abbrev Prog := List Branch

/-- What the names of a program stand for. -/
structure Config where
  env : CharEnv
  /-- regular expression and its group table (`name ↦ index`), by the name of the module global -/
  regexes : List (String × (Rx × List (String × Nat)))
  /-- validators by method name; `none` = wrong number of arguments -/
  validators : List (String × (List Int → Option Bool))

/-- `m.group(idx)` as text (a group that did not take part gives the empty text). -/
def groupText (s : Str) (caps : Caps) (idx : Nat) : Str :=
  match Rx.capSpan caps idx with
  | some (a, b) => (s.drop a).take (b - a)
  | none => []

/-- The assignments `v = int(m.group(g), 10)`, newest binding first. -/
def bindVars (groups : List (String × Nat)) (s : Str) (caps : Caps) :
    List (String × String) → List (String × Nat) → Option (List (String × Nat))
  | [], σ => some σ
  | (v, g) :: rest, σ =>
    match groups.lookup g with
    | none => none
    | some i => bindVars groups s caps rest ((v, digitsVal (groupText s caps i)) :: σ)

/-- The values of a list of variables. -/
def lookupAll (σ : List (String × Nat)) : List String → Option (List Nat)
  | [] => some []
  | v :: vs =>
    match σ.lookup v, lookupAll σ vs with
    | some x, some xs => some (x :: xs)
    | _, _ => none

def evalCall (vals : List (String × (List Int → Option Bool))) (σ : List (String × Nat)) (c : Call) :
    Option Bool :=
  match vals.lookup c.fn, lookupAll σ c.args with
  | some f, some xs => f (xs.map Int.ofNat)
  | _, _ => none

/-- `c1 and c2 and ...`, left to right, stopping at the first false one. -/
def evalConds (vals : List (String × (List Int → Option Bool))) (σ : List (String × Nat)) :
    List Call → Option Bool
  | [] => some true
  | c :: cs => (evalCall vals σ c).bind fun b => if b then evalConds vals σ cs else some false

def evalBody (cfg : Config) (groups : List (String × Nat)) (value : Str) (caps : Caps) :
    Body → Option (Option PVal)
  | .float g => (groups.lookup g).map fun i => shapeNum (groupText value caps i)
  | .ints binds conds result =>
    (bindVars groups value caps binds []).bind fun σ =>
    (evalConds cfg.validators σ conds).bind fun ok =>
    if ok then (lookupAll σ result).map fun vs => some (.ints vs) else some none

def evalBranch (cfg : Config) (value : Str) (b : Branch) : Option (Option PVal) :=
  match cfg.regexes.lookup b.regex with
  | none => none
  | some (rx, groups) =>
    match Rx.matchAt cfg.env rx value 0 with
    | none => some none
    | some (_, caps) => evalBody cfg groups value caps b.body

/-- The test of a branch. -/
def selects (itype : Str) (b : Branch) : Bool := b.itypes.any (fun t => itype == t.toStr)

/-- `_parse_value(itype, value)`: the first branch whose test holds; `parsed = None` if there is none. -/
def eval (cfg : Config) (prog : Prog) (itype value : Str) : Option (Option PVal) :=
  match prog.find? (selects itype) with
  | none => some none
  | some b => evalBranch cfg value b

end PyProg
end SoupVerif
