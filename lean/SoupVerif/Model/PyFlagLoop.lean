/-
  The one Python control primitive the source-translated flag loops of `Generated/PyTextFn.lean`
  (gen/gen_py_textfn.py: `match_empty`, `match_contains`) are built on; everything else is emitted by the translator.

  * `forBreak step s xs` — `for x in xs: <body>`: `step s x` is ONE run of the body from the local flags `s`;
                           its first component is the flags afterwards, the second says the run ended in `break`.
                           The value is the flags after the loop.
  Mathlib-free, executable.
-/
namespace SoupVerif
namespace PyFlagLoop

def forBreak {σ α : Type} (step : σ → α → σ × Bool) : σ → List α → σ
  | s, [] => s
  | s, x :: xs =>
    let r := step s x
    if r.2 then r.1 else forBreak step r.1 xs

end PyFlagLoop
end SoupVerif
