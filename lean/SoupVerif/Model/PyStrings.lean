/-
  Fixed (hand-written) frames for `Generated/PyStrings.lean`, the Lean translation of three small pure
  string functions of the source made by `gen/gen_py_strings.py`:

    css_parser.escape          per-character if/elif chain  →  `Gen.PyStrings.escapeStep`
    util.lower                 per-character expression     →  `Gen.PyStrings.lowerStep`
    css_parser.css_unescape's  replace(m)                   →  `Gen.PyStrings.replace`

  What is NOT translated but fixed here is only the loop skeleton
      acc = [];  for [index,] c in [enumerate](s): … acc.append(<piece>) …;  return ''.join(acc)
  (`escapeLoop`, `charLoop`) and the vocabulary the translated bodies speak (`EscKind`, `MatchGroups`).
  The translator checks that the Python loop has exactly this skeleton before it uses these frames
  and raises otherwise.
-/
import SoupVerif.Model.Escape
import SoupVerif.Model.Parser
namespace SoupVerif
namespace PyStrings

/-! ### `escape` -/

/-- The four things a branch of `escape`'s per-character chain may append:
      `'\ufffd'`               `.replacement`
      `f'\\{codepoint:x} '`     `.hex`        backslash, lower-case hex of the code point, one space
      `c`                       `.self`
      `f'\\{c}'`                `.backslash`  backslash, the character -/
inductive EscKind where
  | replacement | hex | self | backslash
  deriving DecidableEq, Repr

/-- The text appended for a character with code point `cp` by a branch of kind `k`. -/
def EscKind.emit (k : EscKind) (cp : Nat) : Str :=
  match k with
  | .replacement => [0xFFFD]
  | .hex => 92 :: Escape.hexDigits cp ++ [32]
  | .self => [cp]
  | .backslash => [92, cp]

/-- `for index, c in enumerate(ident)[from i]: string.append(<piece chosen by step index ord(c)>)`
    followed by `''.join(string)`. -/
def escapeLoopFrom (step : Nat → Nat → EscKind) : Nat → Str → Str
  | _, [] => []
  | i, c :: cs => (step i c).emit c ++ escapeLoopFrom step (i + 1) cs

/-- The whole loop: `enumerate` starts at 0. -/
def escapeLoop (step : Nat → Nat → EscKind) (s : Str) : Str := escapeLoopFrom step 0 s

/-! ### `lower` -/

/-- `acc = []; for c in s: acc.append(<the one character f c>); return ''.join(acc)`. -/
def charLoop (f : Nat → Nat) : Str → Str
  | [] => []
  | c :: cs => f c :: charLoop f cs

/-! ### `replace(m)` -/

/-- What `replace(m)` can see of a match object: `m.group(k)` for each `k`; `none` is Python's `None`
    (the group did not take part in the match). -/
abbrev Groups := Nat → Option Str

/-- `if m.group(k):` — neither `None` nor the empty string. -/
def truthy : Option Str → Bool
  | some (_ :: _) => true
  | _ => false

/-- The text of a group that is known to be truthy (the translator only emits it under that test). -/
def text (g : Option Str) : Str := g.getD []

/-- `int(s, 16)`: the value of the leading hex digits of `s` (`Parser.hexPrefixVal`, the function the parser model
    uses).  Python also accepts surrounding white space and raises `ValueError` on any other text after the digits;
    for `css_unescape` that corner is `Escape.cssUnescapeRaises`. -/
def intHex (s : Str) : Nat := Parser.hexPrefixVal s

/-- The match object the regex-engine model hands to the replacement function: `m.group(k)` is the slice of the
    subject between the recorded span of group `k`. -/
def groupsOf (content : Str) (caps : Caps) : Groups :=
  fun k => (Rx.capSpan caps k).map fun ab => Parser.slice content ab.1 ab.2

end PyStrings
end SoupVerif
