/-
  `css_match.CSSMatch.match_selectors` as DATA plus an interpreter.

  `gen/gen_py_matchsel.py` translates the Python source of `match_selectors` into three terms
  (`Generated/PyMatchSel.lean`):

  * `checks : List Check` — the chain of `if [<guard> and] [not] self.<test>(el[, <arg>]): continue`
    statements of the loop body, in source order;
  * `loop : LoopShape` — what surrounds the chain inside `for selector in selectors:`
    (`match = is_not`, the `SelectorNull` test, `match = not is_not`, `break`);
  * `frame : Frame` — what surrounds the loop: `match = False`, the `if is_html:` block that saves and
    replaces `self.namespaces` / `self.iframe_restrict`, the `if not is_html or self.is_html:` test
    around the loop, the restoring `if is_html:` block and WHERE it stands.

  This file defines those data types and what they MEAN: `runChecks`, `runLoop`, `runFrame`.
  The interpreter maps each test name to the hand-written model function of `Model/Match.lean`
  (the functions all property theorems are about).  It is partial (`Option`): a test applied to an
  argument of the wrong kind, an unknown local slot or an attribute assigned a value of the wrong
  kind have NO verdict — there is no default branch that answers `true`.  A test, field or attribute
  name that does not exist here is not even a term: the generated file does not compile.

  The per-call memo tables (`Model/Memo.lean`, C04) are not threaded through: like `matchSel`, this is
  the pure projection of the chain.
-/
import SoupVerif.Model.Match
namespace SoupVerif

/-- `match_relations(el, relation)`: the relation conjunct of `matchSel`, named. -/
def matchRelations (c : Ctx) (l : Loc) (relation : SelList) : Bool :=
  relationWalk c l (headRel relation) (fun t =>
    match t.elem? with
    | some te => matchList c t te relation
    | none => false)

namespace PyMatchSel

/-- The fields of `ct.Selector` (Python names). -/
inductive Field where
  | tag | ids | classes | attributes | nth | selectors | relation | rel_type | contains | lang | flags
  deriving Repr, DecidableEq, Inhabited

/-- The methods of `CSSMatch` the chain may call (Python names). -/
inductive Test where
  | match_tag | match_defined | match_root | match_scope | match_placeholder_shown | match_nth
  | match_empty | match_id | match_classes | match_attributes | match_range | match_lang
  | match_subselectors | match_relations | match_default | match_indeterminate | match_dir
  | match_contains
  deriving Repr, DecidableEq, Inhabited

/-- The guard of one check: what stands before `and` in the `if`. -/
inductive Guard where
  /-- no guard: `if not self.test(…)` -/
  | always
  /-- `selector.flags & <mask>` (the mask is the integer the live module evaluates the expression to) -/
  | flag (mask : Nat)
  /-- `selector.<field>` (truthiness) -/
  | field (f : Field)
  deriving Repr, DecidableEq, Inhabited

/-- The second argument of the test (the first is always `el`). -/
inductive Arg where
  | none
  | field (f : Field)
  /-- `selector.flags & <mask>` -/
  | flagsAnd (mask : Nat)
  deriving Repr, DecidableEq, Inhabited

/-- `if <guard> and not self.<test>(el, <arg>): continue`; `negated = false` when the `not` is absent. -/
structure Check where
  guard : Guard
  negated : Bool
  test : Test
  arg : Arg
  deriving Repr, DecidableEq, Inhabited

/-- The values `match` can be assigned in the loop body. -/
inductive MatchVal where
  | isNot | notIsNot | const (b : Bool)
  deriving Repr, DecidableEq, Inhabited

/-- The loop body around the chain. -/
structure LoopShape where
  /-- first statement `match = <init>` -/
  init : MatchVal
  /-- second statement is `if isinstance(selector, ct.SelectorNull): continue` -/
  nullContinue : Bool
  checks : List Check
  /-- `match = <onPass>` after the chain -/
  onPass : MatchVal
  /-- … followed by `break` -/
  breaks : Bool
  deriving Repr, Inhabited

/-- The attributes of `self` the frame may assign. -/
inductive SelfAttr where
  | namespaces | iframe_restrict
  deriving Repr, DecidableEq, Inhabited

inductive AttrVal where
  | ns (m : List (Str × Str))
  | flag (b : Bool)
  deriving Repr, DecidableEq, Inhabited

/-- A statement of an `if` block of the frame.  Locals are numbered in order of first assignment
    (so renaming them does not change the term). -/
inductive Act where
  /-- `<local slot> = self.<a>` -/
  | save (slot : Nat) (a : SelfAttr)
  /-- `self.<a> = <constant>` (a `dict` display of strings, `True`, `False`) -/
  | set (a : SelfAttr) (v : AttrVal)
  /-- `self.<a> = <local slot>` -/
  | restore (a : SelfAttr) (slot : Nat)
  deriving Repr, DecidableEq, Inhabited

/-- Conditions of the frame's `if` statements. -/
inductive BExpr where
  | isHtml            -- the local bound to `selectors.is_html`
  | isNot             -- the local bound to `selectors.is_not`
  | selfIsHtml        -- `self.is_html`
  | const (b : Bool)
  | not (a : BExpr)
  | and (a b : BExpr)
  | or (a b : BExpr)
  deriving Repr, DecidableEq, Inhabited

/-- `if <cond>: <acts>` -/
structure IfActs where
  cond : BExpr
  acts : List Act
  deriving Repr, DecidableEq, Inhabited

/-- The function body around the loop, in source order:
    `match = <initMatch>`; `pre`; `if <loopGuard>: (for selector in selectors: …); inGuardPost`; `post`;
    `return match`. -/
structure Frame where
  initMatch : Bool
  pre : List IfActs
  loopGuard : BExpr
  /-- `if` statements standing INSIDE the `if <loopGuard>:` block, after the loop -/
  inGuardPost : List IfActs
  /-- `if` statements standing after the `if <loopGuard>:` block -/
  post : List IfActs
  deriving Repr, DecidableEq, Inhabited

/-! ### Meaning of the chain -/

/-- The fields of one `ct.Selector`. -/
structure SelFields where
  tag : Option SelTag
  ids : List Str
  classes : List Str
  attributes : List AttrSel
  nth : List NthSel
  selectors : List SelList
  relation : SelList
  rel_type : Rel
  contains : List ContainsSel
  lang : List LangSel
  flags : Nat

def SelFields.toSel (s : SelFields) : Sel :=
  .mk s.tag s.ids s.classes s.attributes s.nth s.selectors s.relation s.rel_type s.contains s.lang s.flags

/-- Python values a field access can produce. -/
inductive Val where
  | tag (t : Option SelTag)
  | strs (l : List Str)
  | attrs (l : List AttrSel)
  | nths (l : List NthSel)
  | lists (l : List SelList)
  | list (l : SelList)
  | rel (r : Rel)
  | contains (l : List ContainsSel)
  | langs (l : List LangSel)
  | nat (n : Nat)

def SelFields.get (s : SelFields) : Field → Val
  | .tag => .tag s.tag
  | .ids => .strs s.ids
  | .classes => .strs s.classes
  | .attributes => .attrs s.attributes
  | .nth => .nths s.nth
  | .selectors => .lists s.selectors
  | .relation => .list s.relation
  | .rel_type => .rel s.rel_type
  | .contains => .contains s.contains
  | .lang => .langs s.lang
  | .flags => .nat s.flags

/-- Python truthiness (`None` / empty tuple / `len(SelectorList) == 0` / `0` are false). -/
def Val.truthy : Val → Bool
  | .tag t => t.isSome
  | .strs l => !l.isEmpty
  | .attrs l => !l.isEmpty
  | .nths l => !l.isEmpty
  | .lists l => !l.isEmpty
  | .list l => l.nonEmpty
  | .rel r => r != .none
  | .contains l => !l.isEmpty
  | .langs l => !l.isEmpty
  | .nat n => n != 0

def evalGuard (s : SelFields) : Guard → Bool
  | .always => true
  | .flag mask => (s.flags &&& mask) != 0
  | .field f => (s.get f).truthy

def evalArg (s : SelFields) : Arg → Option Val
  | .none => none
  | .field f => some (s.get f)
  | .flagsAnd mask => some (.nat (s.flags &&& mask))

/-- `self.<test>(el[, arg])` as the hand-written model function; `none`: wrong arity or wrong kind of
    argument (CPython would raise). -/
def applyTest (c : Ctx) (l : Loc) (e : Elem) : Test → Option Val → Option Bool
  | .match_tag, some (.tag t) => some (matchTag c e t)
  | .match_defined, none => some (matchDefined c e)
  | .match_root, none => some (matchRoot c l)
  | .match_scope, none => some (matchScope c l)
  | .match_placeholder_shown, none => some (matchPlaceholderShown c l)
  | .match_nth, some (.nths n) => some (matchNths c l e n)
  | .match_empty, none => some (matchEmpty l)
  | .match_id, some (.strs i) => some (matchId c e i)
  | .match_classes, some (.strs k) => some (matchClasses c e k)
  | .match_attributes, some (.attrs a) => some (matchAttributes c e a)
  | .match_range, some (.nat n) => some (matchRange c e n)
  | .match_lang, some (.langs g) => some (matchLang c l g)
  | .match_subselectors, some (.lists s) => some (matchSubs c l e s)
  | .match_relations, some (.list r) => some (matchRelations c l r)
  | .match_default, none => some (matchDefault c l)
  | .match_indeterminate, none => some (matchIndeterminate c l)
  | .match_dir, some (.nat n) => some (matchDir c l n)
  | .match_contains, some (.contains x) => some (matchContains c l x)
  | _, _ => none

/-- One check: `some true` = the `if` is not taken (go on to the next statement),
    `some false` = `continue`.  `and` short-circuits: the test is not called when the guard is false. -/
def runCheck (c : Ctx) (l : Loc) (e : Elem) (s : SelFields) (k : Check) : Option Bool :=
  if evalGuard s k.guard then
    (applyTest c l e k.test (evalArg s k.arg)).map fun r => !(if k.negated then !r else r)
  else some true

/-- The chain, in order, stopping at the first `continue`. -/
def runChecks (c : Ctx) (l : Loc) (e : Elem) (s : SelFields) : List Check → Option Bool
  | [] => some true
  | k :: rest =>
    match runCheck c l e s k with
    | none => none
    | some false => some false
    | some true => runChecks c l e s rest

/-! ### Meaning of the loop -/

def MatchVal.eval (isNot : Bool) : MatchVal → Bool
  | .isNot => isNot
  | .notIsNot => !isNot
  | .const b => b

/-- `for selector in selectors: <body>`; `m` is the value of `match` on entry. -/
def runLoop (lp : LoopShape) (c : Ctx) (l : Loc) (e : Elem) (isNot : Bool) : List Sel → Bool → Option Bool
  | [], m => some m
  | s :: rest, _ =>
    let m₁ := lp.init.eval isNot
    match s with
    | .null =>
      -- without the `isinstance` test the first field access raises `AttributeError`
      if lp.nullContinue then runLoop lp c l e isNot rest m₁ else none
    | .mk tag ids classes attrs nth subs relation relType contains lang flags =>
      match runChecks c l e ⟨tag, ids, classes, attrs, nth, subs, relation, relType, contains, lang, flags⟩ lp.checks with
      | none => none
      | some false => runLoop lp c l e isNot rest m₁
      | some true =>
        let m₂ := lp.onPass.eval isNot
        if lp.breaks then some m₂ else runLoop lp c l e isNot rest m₂

/-! ### Meaning of the frame -/

/-- `self` (the two assignable attributes live in `Ctx`) and the frame's locals. -/
structure FState where
  ctx : Ctx
  slots : List (Nat × AttrVal)

def getAttr (c : Ctx) : SelfAttr → AttrVal
  | .namespaces => .ns c.namespaces
  | .iframe_restrict => .flag c.iframeRestrict

/-- `none`: a value of the wrong kind (the model's `Ctx` cannot hold it). -/
def setAttr (c : Ctx) : SelfAttr → AttrVal → Option Ctx
  | .namespaces, .ns m => some { c with namespaces := m }
  | .iframe_restrict, .flag b => some { c with iframeRestrict := b }
  | _, _ => none

def runAct (st : FState) : Act → Option FState
  | .save slot a => some { st with slots := (slot, getAttr st.ctx a) :: st.slots.filter (fun p => p.1 != slot) }
  | .set a v => (setAttr st.ctx a v).map fun c' => { st with ctx := c' }
  | .restore a slot =>
    match st.slots.find? (fun p => p.1 == slot) with
    | none => none                                   -- `UnboundLocalError`
    | some (_, v) => (setAttr st.ctx a v).map fun c' => { st with ctx := c' }

def runActs : List Act → FState → Option FState
  | [], st => some st
  | a :: rest, st =>
    match runAct st a with
    | none => none
    | some st' => runActs rest st'

def BExpr.eval (isNot isHtml : Bool) (c : Ctx) : BExpr → Bool
  | .isHtml => isHtml
  | .isNot => isNot
  | .selfIsHtml => c.isHtml
  | .const b => b
  | .not a => !(a.eval isNot isHtml c)
  | .and a b => a.eval isNot isHtml c && b.eval isNot isHtml c
  | .or a b => a.eval isNot isHtml c || b.eval isNot isHtml c

def runIfs (isNot isHtml : Bool) : List IfActs → FState → Option FState
  | [], st => some st
  | i :: rest, st =>
    if i.cond.eval isNot isHtml st.ctx then
      match runActs i.acts st with
      | none => none
      | some st' => runIfs isNot isHtml rest st'
    else runIfs isNot isHtml rest st

/-- The whole function: the verdict and `self` as the function leaves it. -/
def runFrame (f : Frame) (lp : LoopShape) (c : Ctx) (l : Loc) (e : Elem) : SelList → Option (Bool × Ctx)
  | .mk sels isNot isHtml =>
    match runIfs isNot isHtml f.pre ⟨c, []⟩ with
    | none => none
    | some st₁ =>
      if f.loopGuard.eval isNot isHtml st₁.ctx then
        match runLoop lp st₁.ctx l e isNot sels f.initMatch with
        | none => none
        | some m =>
          match runIfs isNot isHtml f.inGuardPost st₁ with
          | none => none
          | some st₂ =>
            match runIfs isNot isHtml f.post st₂ with
            | none => none
            | some st₃ => some (m, st₃.ctx)
      else
        match runIfs isNot isHtml f.post st₁ with
        | none => none
        | some st₃ => some (f.initMatch, st₃.ctx)

end PyMatchSel
end SoupVerif
