/-
  The immutable selector IR of `css_types.py`, field for field.
-/
import SoupVerif.Model.Regex
namespace SoupVerif

-- ct.SEL_* flags
def SEL_EMPTY : Nat := 0x1
def SEL_ROOT : Nat := 0x2
def SEL_DEFAULT : Nat := 0x4
def SEL_INDETERMINATE : Nat := 0x8
def SEL_SCOPE : Nat := 0x10
def SEL_DIR_LTR : Nat := 0x20
def SEL_DIR_RTL : Nat := 0x40
def SEL_IN_RANGE : Nat := 0x80
def SEL_OUT_OF_RANGE : Nat := 0x100
def SEL_DEFINED : Nat := 0x200
def SEL_PLACEHOLDER_SHOWN : Nat := 0x400
def DIR_FLAGS : Nat := SEL_DIR_LTR ||| SEL_DIR_RTL
def RANGES : Nat := SEL_IN_RANGE ||| SEL_OUT_OF_RANGE

def hasFlag (flags f : Nat) : Bool := (flags &&& f) != 0

/-- `rel_type` strings. -/
inductive Rel where
  | none                -- `None`
  | desc | child | sib | adj              -- ' ', '>', '~', '+'
  | hasDesc | hasChild | hasSib | hasAdj  -- ': ', ':>', ':~', ':+'
  deriving Repr, DecidableEq, Inhabited

structure SelTag where
  name : Str
  pfx : Option Str
  deriving Repr, Inhabited

structure AttrSel where
  attrName : Str
  pfx : Str
  pattern : Option Rx
  xmlTypePattern : Option Rx
  deriving Repr, Inhabited

structure ContainsSel where
  text : List Str
  own : Bool
  deriving Repr, Inhabited

structure LangSel where
  languages : List Str
  deriving Repr, Inhabited

mutual
inductive Sel where
  | mk (tag : Option SelTag) (ids : List Str) (classes : List Str) (attrs : List AttrSel)
       (nth : List NthSel) (subs : List SelList) (relation : SelList) (relType : Rel)
       (contains : List ContainsSel) (lang : List LangSel) (flags : Nat)
  | null
inductive NthSel where
  | mk (a : Int) (n : Bool) (b : Int) (ofType : Bool) (last : Bool) (sels : SelList)
inductive SelList where
  | mk (sels : List Sel) (isNot : Bool) (isHtml : Bool)
end

instance : Inhabited SelList := ⟨.mk [] false false⟩
instance : Inhabited Sel := ⟨.null⟩

namespace SelList
def sels : SelList → List Sel
  | .mk s _ _ => s
def isNot : SelList → Bool
  | .mk _ n _ => n
def isHtml : SelList → Bool
  | .mk _ _ h => h
/-- `len(selector_list) > 0` (truthiness of a `SelectorList`). -/
def nonEmpty (l : SelList) : Bool := !l.sels.isEmpty
def empty : SelList := .mk [] false false
end SelList

namespace Sel
def relType : Sel → Rel
  | .mk _ _ _ _ _ _ _ r _ _ _ => r
  | .null => .none
def isNull : Sel → Bool
  | .null => true
  | _ => false
end Sel

end SoupVerif
