/-
  `CSSParser.parse_combinator` / `CSSParser.parse_has_combinator` as DATA (definitions only, no Mathlib).

  The translator `gen/gen_py_combinators.py` reads the two methods from the source text of css_parser.py on every
  run and emits each as a `Fn`: the prologue (`combinator = m.group(<group>).strip()`, `if not combinator:
  combinator = <default>`) as the two fields `group` / `dflt`, and the body as a `Prog` -- a tree of ACTIONS (one per
  Python statement, in source order), `raise`s and `if`s whose conditions are `Cond` terms built as written.
  Every statement and every condition is checked against this vocabulary; anything else makes the translator raise.

  `run` is the meaning of a `Prog` on the loop state `Parser.LS` of the hand-written model (the locals `sel`,
  `selectors`, `has_selector`, `relations`, `rel_type` are fields of `LS`; the call sites assign the returned
  values back to exactly these locals -- pinned by `Gen.PyParseDisp.dispatch` / `C06GenDispatch`).
  `Properties/C06GenComb.lean` proves `Fn.run Gen.PyCombinators.parse_combinator … = Parser.parseCombinator …` and
  the same for `parse_has_combinator`, for all states and tokens.

  Abstractions shared with the hand model (not introduced here):
  * the combinator string is its first non-space character (`Parser.combinatorOf`; the token regex allows one
    character or white space only), string constants are their single character code;
  * `rel_type` is the enum `Rel`; `':' + c` is `combHasRel c`, a plain `c` is `combRel c`; `rel_type[1:] != K`
    is `relType != combHasRel K`;
  * `_Selector` objects are values: the translator checks that no path mutates `sel` after it has been stored
    (`….append(sel)`) and before it is rebound, so value semantics is exact;
  * `selectors[-1]` on an empty list is `modifyLast` (no change) as in `Parser.parseHasCombinator`.
-/
import SoupVerif.Model.Parser
namespace SoupVerif
namespace CombDyn
open Rx SoupVerif.Parser

/-- The position expression of a raise: `m.start(0)`, `m.end(0)`, `index`. -/
inductive Off where
  | mStart | mEnd | index
  deriving DecidableEq, Repr, Inhabited

/-- The constant text of the message of a raise (the interpolated values are not part of the model's error). -/
inductive Msg where
  /-- `"The combinator '{combinator}' at position {index}, must have a selector before it"` -/
  | needsSelector
  /-- `'The multiple combinators at position {index}'` -/
  | multiple
  deriving DecidableEq, Repr, Inhabited

inductive Cond where
  /-- `has_selector` -/
  | hasSelector
  /-- `is_forgive` -/
  | isForgive
  /-- `is_pseudo` -/
  | isPseudo
  /-- `sel.tag` (truthiness: a tag has been set) -/
  | selTag
  /-- `combinator == K` (K a module-level one-character string constant, by character code) -/
  | combEq (k : Nat)
  /-- `combinator != K` -/
  | combNe (k : Nat)
  /-- `rel_type[1:] != K` -/
  | relTailNe (k : Nat)
  | not (c : Cond)
  | and (a b : Cond)
  | or (a b : Cond)
  deriving DecidableEq, Repr, Inhabited

inductive Act where
  /-- `sel.no_match = True` -/
  | setNoMatch
  /-- `del relations[:]` -/
  | clearRelations
  /-- `selectors.append(sel)` -/
  | appendSel
  /-- `sel.tag = ct.SelectorTag(<name>, None)` -/
  | impliedTag (name : List Nat)
  /-- `sel.relations.extend(relations)` -/
  | extendRelations
  /-- `sel.rel_type = combinator` -/
  | setRelTypeComb
  /-- `relations.append(sel)` -/
  | relationsAppendSel
  /-- `sel.rel_type = rel_type` -/
  | setRelTypeVar
  /-- `selectors[-1].relations.append(sel)` -/
  | lastRelationsAppendSel
  /-- `rel_type = ":" + K` -/
  | relTypeColon (k : Nat)
  /-- `rel_type = ':' + combinator` -/
  | relTypeColonComb
  /-- `selectors.append(_Selector())` -/
  | appendFresh
  /-- `sel = _Selector()` -/
  | freshSel
  /-- `has_selector = False` -/
  | hasSelectorFalse
  deriving DecidableEq, Repr, Inhabited

inductive Prog where
  | skip
  | act (a : Act)
  /-- `raise SelectorSyntaxError(<msg>, self.pattern, <off>)` -/
  | raise (m : Msg) (o : Off)
  | ite (c : Cond) (t e : Prog)
  | seq (p q : Prog)
  deriving Repr, Inhabited

/-- A translated handler: prologue data + body.  `returns` are the locals of the final `return`, in order. -/
structure Fn where
  group : String
  dflt : Nat
  returns : List String
  body : Prog
  deriving Repr, Inhabited

/-- What a handler reads besides the loop state. -/
structure Ctx where
  P : PEnv
  t : Token
  isPseudo : Bool
  isForgive : Bool
  index : Nat

/-- `combinator = m.group(g).strip()`, `if not combinator: combinator = dflt` -- as a character code. -/
def combOf (P : PEnv) (t : Token) (g : String) (dflt : Nat) : Nat :=
  match t.group P g with
  | some s => match s.find? (fun c => !isPySpace c) with
    | some c => c
    | none => dflt
  | none => dflt

def Off.eval (o : Off) (x : Ctx) : Nat :=
  match o with
  | .mStart => x.t.start
  | .mEnd => x.t.stop
  | .index => x.index

def Msg.kind : Msg → ErrKind
  | .needsSelector => .combinatorNeedsSelector
  | .multiple => .multipleCombinators

def Cond.eval (x : Ctx) (comb : Nat) (s : LS) : Cond → Bool
  | .hasSelector => s.hasSelector
  | .isForgive => x.isForgive
  | .isPseudo => x.isPseudo
  | .selTag => s.sel.tag.isSome
  | .combEq k => comb == k
  | .combNe k => comb != k
  | .relTailNe k => s.relType != combHasRel k
  | .not c => !(c.eval x comb s)
  | .and a b => a.eval x comb s && b.eval x comb s
  | .or a b => a.eval x comb s || b.eval x comb s

def Act.run (comb : Nat) (s : LS) : Act → LS
  | .setNoMatch => { s with sel := s.sel.setNoMatch }
  | .clearRelations => { s with relations := [] }
  | .appendSel => { s with selectors := s.selectors ++ [s.sel] }
  | .impliedTag name => { s with sel := s.sel.setTag ⟨name, none⟩ }
  | .extendRelations => { s with sel := s.sel.addRelations s.relations }
  | .setRelTypeComb => { s with sel := s.sel.setRelType (combRel comb) }
  | .relationsAppendSel => { s with relations := s.relations ++ [s.sel] }
  | .setRelTypeVar => { s with sel := s.sel.setRelType s.relType }
  | .lastRelationsAppendSel => { s with selectors := modifyLast s.selectors (·.addRelations [s.sel]) }
  | .relTypeColon k => { s with relType := combHasRel k }
  | .relTypeColonComb => { s with relType := combHasRel comb }
  | .appendFresh => { s with selectors := s.selectors ++ [SelB.empty] }
  | .freshSel => { s with sel := .empty }
  | .hasSelectorFalse => { s with hasSelector := false }

def Prog.run (x : Ctx) (comb : Nat) : Prog → LS → M LS
  | .skip, s => .ok s
  | .act a, s => .ok (a.run comb s)
  | .raise m o, _ => .error (x.P.err m.kind (o.eval x))
  | .ite c t e, s => if c.eval x comb s then t.run x comb s else e.run x comb s
  | .seq p q, s =>
    match p.run x comb s with
    | .error e => .error e
    | .ok s' => q.run x comb s'

/-- The meaning of a translated handler; a `return` of other locals than the model's counterpart hands back is
    `pyBug` (an error kind no Python run can produce), so that the equality theorems fail. -/
def Fn.run (f : Fn) (expected : List String) (x : Ctx) (s : LS) : M LS :=
  if f.returns == expected then f.body.run x (combOf x.P x.t f.group f.dflt) s
  else .error { kind := .pyBug "combinator returns", pattern := x.P.pattern, offset := 0 }

end CombDyn
end SoupVerif
