/-
  The query entry points of `CSSMatch` / `SoupSieve` on top of the matcher.
-/
import SoupVerif.Model.Match
namespace SoupVerif

/-- Document-independent parameters of the model (see `Ctx`). -/
structure Env where
  env : CharEnv
  bidi : Nat → Nat
  wildStrip : Str → Str

/-- `has_html_ns`. -/
def hasHtmlNs (l : Option Loc) : Bool :=
  match l with
  | some r => (match r.elem? with
    | some e => (match e.ns with | some n => !n.isEmpty && n == NS_XHTML | none => false)
    | none => false)
  | none => false

/-- `CSSMatch.__init__`: find the top, the root element and the scope. -/
def mkCtx (E : Env) (isXml : Bool) (namespaces : List (Str × Str)) (scope : Loc) : Ctx :=
  let doc := scope.top
  let root : Option Loc :=
    if !doc.isDoc then some doc else (doc.children.find? Loc.isTag)
  let scope' : Option Loc := if scope.same doc then root else some scope
  let hns := hasHtmlNs root
  { env := E.env, bidi := E.bidi, wildStrip := E.wildStrip,
    isXml := isXml, hasHtmlNs := hns, isHtml := !isXml || hns,
    root := root, scope := scope', namespaces := namespaces, iframeRestrict := false }

/-- `CSSMatch.select(limit)`. -/
def selectIn (c : Ctx) (sel : SelList) (tag : Loc) (limit : Int) : List Loc :=
  let all := (c.tagDescendants tag false).filter (matchEl c sel)
  if limit < 1 then all else all.take limit.toNat

/-- `SoupSieve.select(tag, limit)` (also `iselect`). -/
def select (E : Env) (isXml : Bool) (ns : List (Str × Str)) (sel : SelList) (tag : Loc) (limit : Int) : List Loc :=
  selectIn (mkCtx E isXml ns tag) sel tag limit

/-- `SoupSieve.select_one(tag)`. -/
def selectOne (E : Env) (isXml : Bool) (ns : List (Str × Str)) (sel : SelList) (tag : Loc) : Option Loc :=
  (select E isXml ns sel tag 1).head?

/-- `SoupSieve.match(tag)`. -/
def matchTagApi (E : Env) (isXml : Bool) (ns : List (Str × Str)) (sel : SelList) (tag : Loc) : Bool :=
  matchEl (mkCtx E isXml ns tag) sel tag

/-- `SoupSieve.closest(tag)`. -/
def closest (E : Env) (isXml : Bool) (ns : List (Str × Str)) (sel : SelList) (tag : Loc) : Option Loc :=
  let c := mkCtx E isXml ns tag
  (tag :: tag.ancestors).find? (matchEl c sel)

/-- `SoupSieve.filter(tag)` for a `Tag` argument: matching element children. -/
def filterTag (E : Env) (isXml : Bool) (ns : List (Str × Str)) (sel : SelList) (tag : Loc) : List Loc :=
  let c := mkCtx E isXml ns tag
  (tag.children.filter Loc.isTag).filter (matchEl c sel)

/-- `SoupSieve.filter(iterable)`: strings skipped, each tag matched with its own matcher. -/
def filterIter (E : Env) (isXml : Bool) (ns : List (Str × Str)) (sel : SelList) (items : List Loc) : List Loc :=
  items.filter fun n => n.isTag && matchTagApi E isXml ns sel n

end SoupVerif
