/-
  Vocabulary of the DECISIONS of `CSSParser.parse_attribute_selector` (soupsieve/css_parser.py), for the
  definitions `gen/gen_py_attrsel.py` regenerates from the source text (`Generated/PyAttrSel.lean`).

  * `Template` — which of the literal pattern templates of the function an attribute selector compiles to.
  * `Flags`    — the two bits of `flags` the function ever sets (`re.I`, `re.DOTALL`) and the local `is_type`.
  * the Python operations the decisions are made of: truthiness of an optional string (`if case:`, `if op:`;
    `None` and `''` are false), `s.startswith(p)` / `s.startswith((p, q, …))`.
  Mathlib-free.
-/
import SoupVerif.Model.Py
namespace SoupVerif
namespace PyAttrSel

/-- The pattern templates of `parse_attribute_selector`:
    `none` no pattern (`[a]`), `unmatchable` = `[^\s\S]`, `prefix` = `^%s.*`, `suffix` = `.*?%s\Z`,
    `contains` = `.*?%s.*`, `word` = the `~=` template filled with the escaped value, `wordUnmatchable` = the `~=`
    template filled with `[^\s\S]`, `dash` = `^%s(?:-.*)?\Z`, `equals` = `^%s\Z`. -/
inductive Template where
  | none | unmatchable | prefix | suffix | contains | word | wordUnmatchable | dash | equals
  deriving DecidableEq, Repr

/-- `flags` restricted to the two bits the function uses, and the local `is_type`. -/
structure Flags where
  ignoreCase : Bool
  dotAll : Bool
  isType : Bool
  deriving DecidableEq, Repr

/-- Python truthiness of an `Optional[str]`: `None` and `''` are false. -/
def pyTruthy : Option Str → Bool
  | none => false
  | some s => !s.isEmpty

/-- `x == '<constant>'` for an `Optional[str]`. -/
def pyEqStr (x : Option Str) (k : Str) : Bool := x == some k

/-- `s.startswith(p)` / `s.startswith((p₁, p₂, …))`.  On `None` the Python call raises `AttributeError`; the translator
    only accepts a function in which every such call is guarded by the truthiness of the receiver, and the value
    here for `none` is `false`. -/
def pyStartsWith (s : Option Str) (ps : List Str) : Bool :=
  match s with
  | none => false
  | some s => ps.any (fun p => p.isPrefixOf s)

end PyAttrSel
end SoupVerif
