/-
  Python-level primitives used by the models.  Strings are lists of code points
  (`List Nat`), because a Python `str` may hold lone surrogates which Lean's `Char` cannot.
-/
namespace SoupVerif

abbrev Str := List Nat

/-- `"abc".toStr` : code points of a Lean string literal (used for constants only). -/
def _root_.String.toStr (s : String) : Str := s.toList.map Char.toNat

/-- `util.lower`: ASCII-only lower-casing, one code point. -/
def lowerCp (c : Nat) : Nat := if 65 ≤ c ∧ c ≤ 90 then c + 32 else c

/-- `util.lower`. -/
def lower (s : Str) : Str := s.map lowerCp

/-- CSS whitespace `[ \t\r\n\f]`. -/
def isCssWs (c : Nat) : Bool := c == 32 || c == 9 || c == 13 || c == 10 || c == 12

/-- Code points for which Python's `str.isspace()` holds (what `str.strip()` removes). -/
def isPySpace (c : Nat) : Bool :=
  (9 ≤ c && c ≤ 13) || (28 ≤ c && c ≤ 32) || c == 133 || c == 160 || c == 5760 ||
  (8192 ≤ c && c ≤ 8202) || c == 8232 || c == 8233 || c == 8239 || c == 8287 || c == 12288

/-- `t in s` for strings: `t` occurs as a contiguous substring of `s`. -/
def isInfix : Str → Str → Bool
  | t, [] => t.isEmpty
  | t, s@(_ :: rest) => t.isPrefixOf s || isInfix t rest

/-- `s.split(sep)` for a one-character separator. Always returns at least one piece. -/
def splitOn (sep : Nat) : Str → List Str
  | [] => [[]]
  | c :: cs =>
    match splitOn sep cs with
    | [] => [[c]]       -- unreachable: result is never empty
    | p :: ps => if c == sep then [] :: p :: ps else (c :: p) :: ps

/-- `sep.join(parts)`. -/
def joinWith (sep : Str) : List Str → Str
  | [] => []
  | [p] => p
  | p :: ps => p ++ sep ++ joinWith sep ps

/-- `RE_NOT_WS.findall(s)`: maximal runs of non-whitespace. -/
def splitWs (s : Str) : List Str :=
  let rec go : Str → Str → List Str
    | [], cur => if cur.isEmpty then [] else [cur.reverse]
    | c :: cs, cur =>
      if isCssWs c then (if cur.isEmpty then go cs [] else cur.reverse :: go cs [])
      else go cs (c :: cur)
  go s []

/-- Decimal digits of a natural number, as code points. -/
def natToStr (n : Nat) : Str := (toString n).toStr

end SoupVerif
