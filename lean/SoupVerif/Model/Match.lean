/-
  `css_match.CSSMatch`: the matcher, function for function.

  One `CSSMatch` object is a `Ctx` (document facts computed in `__init__`, the caller's
  namespace map, the `iframe_restrict` flag).  The per-call memo tables are *not* part of this
  pure model: `Model/Memo.lean` models them as a state machine and `Properties/C04` proves they
  never change an answer.
-/
import SoupVerif.Model.Tree
import SoupVerif.Model.IR
import SoupVerif.Model.Nth
import SoupVerif.Model.Lang
import SoupVerif.Model.Inputs
namespace SoupVerif

def NS_XHTML : Str := "http://www.w3.org/1999/xhtml".toStr
def NS_XML : Str := "http://www.w3.org/XML/1998/namespace".toStr

/-- Exceptions CPython can raise inside the matcher's leaf functions. -/
inductive PyErr where
  | typeError | valueError | attributeError | indexError | keyError
  deriving Repr, DecidableEq, Inhabited

structure Ctx where
  env : CharEnv
  /-- `unicodedata.bidirectional(c)`: 1 = 'L', 2 = 'R' or 'AL', 0 = anything else. -/
  bidi : Nat → Nat
  /-- `RE_WILD_STRIP.sub('-', RE_WILD_TAIL.sub('', r))`. -/
  wildStrip : Str → Str
  isXml : Bool
  hasHtmlNs : Bool
  isHtml : Bool
  root : Option Loc
  scope : Option Loc
  namespaces : List (Str × Str)
  iframeRestrict : Bool

namespace Ctx

def supportsNamespaces (c : Ctx) : Bool := c.isXml || c.hasHtmlNs

def nsGet (c : Ctx) (k : Str) : Option Str := (c.namespaces.find? (fun p => p.1 == k)).map (·.2)

/-- `get_tag_ns`. -/
def tagNs (c : Ctx) (e : Elem) : Str :=
  if c.supportsNamespaces then
    match e.ns with
    | some n => n       -- `if ns:` — an empty string stays ''
    | none => []
  else NS_XHTML

def isHtmlTag (c : Ctx) (e : Elem) : Bool := c.tagNs e == NS_XHTML

/-- `get_tag`. -/
def tagName (c : Ctx) (e : Elem) : Str := if !c.isXml then lower e.name else e.name

/-- `get_prefix`. -/
def prefixName (c : Ctx) (e : Elem) : Option Str := if !c.isXml then e.pfx.map lower else e.pfx

/-- `is_iframe`. -/
def isIframe (c : Ctx) (e : Elem) : Bool :=
  ((if c.isXml then e.name else lower e.name) == "iframe".toStr) && c.isHtmlTag e

def locIsIframe (c : Ctx) (l : Loc) : Bool :=
  match l.elem? with
  | some e => c.isIframe e
  | none => false

/-- `get_parent(el, no_iframe)`. -/
def parent (c : Ctx) (l : Loc) (noIframe : Bool) : Option Loc :=
  match l.parent? with
  | some p => if noIframe && c.locIsIframe p then none else some p
  | none => none

/-- Ancestors following `get_parent(·, no_iframe)`: stops below an iframe when `noIframe`. -/
def ancestorsCut (c : Ctx) (noIframe : Bool) : List Loc → List Loc
  | [] => []
  | p :: ps => if noIframe && c.locIsIframe p then [] else p :: ancestorsCut c noIframe ps

def ancestors (c : Ctx) (l : Loc) (noIframe : Bool) : List Loc := c.ancestorsCut noIframe l.ancestors

/-- `get_contents(el, no_iframe)` / `get_children(el, no_iframe=…)` (all nodes). -/
def contents (c : Ctx) (l : Loc) (noIframe : Bool) : List Loc :=
  if noIframe && c.locIsIframe l then [] else l.children

def tagChildren (c : Ctx) (l : Loc) (noIframe : Bool) : List Loc :=
  (c.contents l noIframe).filter Loc.isTag

/-- `get_descendants(el, tags, no_iframe)`. -/
def descendants (c : Ctx) (l : Loc) (noIframe : Bool) : List Loc :=
  if noIframe && c.locIsIframe l then []
  else l.descendants (fun d => !(noIframe && c.locIsIframe d))

def tagDescendants (c : Ctx) (l : Loc) (noIframe : Bool) : List Loc :=
  (c.descendants l noIframe).filter Loc.isTag

/-- `get_attribute_by_name(el, name)`; `none` = the default was returned. -/
def attrByName (c : Ctx) (e : Elem) (name : Str) : Option NVal :=
  if c.isXml then
    (e.attrs.find? (fun a => a.key == name)).map (fun a => normalizeValue a.val)
  else
    (e.attrs.find? (fun a => lower a.key == name)).map (fun a => normalizeValue a.val)

/-- `get_text`: concatenated content strings among the descendants. -/
def text (c : Ctx) (l : Loc) (noIframe : Bool) : Str :=
  ((c.descendants l noIframe).filter (fun d => d.focus.isContentString)).flatMap (fun d => d.focus.strVal)

/-- `get_own_text`. -/
def ownText (c : Ctx) (l : Loc) (noIframe : Bool) : List Str :=
  ((c.contents l noIframe).filter (fun d => d.focus.isContentString)).map (fun d => d.focus.strVal)

/-- `is_root`. -/
def isRoot (c : Ctx) (l : Loc) : Bool :=
  (match c.root with
   | some r => r.same l
   | none => false) ||
  (match l.parent? with
   | some p => c.isHtml && c.locIsIframe p
   | none => false)

end Ctx

/-- `sibling.strip()` is non-empty. -/
def hasNonPySpace (s : Str) : Bool := s.any (fun ch => !isPySpace ch)

/-- A sibling that prevents `:root`. -/
def blocksRoot (n : Node) : Bool :=
  n.isTag || (n.isContentString && hasNonPySpace n.strVal) || n.isCData

/-- `match_root`. -/
def matchRoot (c : Ctx) (l : Loc) : Bool :=
  c.isRoot l && !(l.prevSiblings.any (fun s => blocksRoot s.focus)) &&
    !(l.nextSiblings.any (fun s => blocksRoot s.focus))

/-- `match_scope`. -/
def matchScope (c : Ctx) (l : Loc) : Bool :=
  match c.scope with
  | some s => s.same l
  | none => false

/-- `match_empty`. -/
def matchEmpty (l : Loc) : Bool :=
  !(l.children.any fun ch => ch.isTag || (ch.focus.isContentString && ch.focus.strVal.any (fun x => !isCssWs x)))

/-- `match_namespace`. -/
def matchNamespace (c : Ctx) (e : Elem) (tag : SelTag) : Bool :=
  let ns := c.tagNs e
  let dflt := c.nsGet []
  match tag.pfx with
  | none =>
    -- We must match the default namespace if one is not provided
    match dflt with
    | some d => ns == d
    | none => true
  | some p =>
    if p.isEmpty then ns.isEmpty          -- `|tag`: must not have a namespace
    else if p == "*".toStr then true
    else match c.nsGet p with
      | some u => ns == u
      | none => false

/-- `match_tagname`. -/
def matchTagname (c : Ctx) (e : Elem) (tag : SelTag) : Bool :=
  let name := if !c.isXml then lower tag.name else tag.name
  name == c.tagName e || name == "*".toStr

/-- `match_tag`. -/
def matchTag (c : Ctx) (e : Elem) : Option SelTag → Bool
  | none => true
  | some t => matchNamespace c e t && matchTagname c e t

/-- Python's `not ns` for `ns : str | None` (fix 3a64a82: a prefix mapped to the EMPTY string
    designates "no namespace", exactly as an unset `ns`). -/
def nsFalsy : Option Str → Bool
  | none => true
  | some u => u.isEmpty

@[simp] theorem nsFalsy_none : nsFalsy none = true := rfl
@[simp] theorem nsFalsy_some (u : Str) : nsFalsy (some u) = u.isEmpty := rfl

/-- `match_attribute_name`: the normalised value of the first attribute that matches. -/
def matchAttributeName (c : Ctx) (e : Elem) (attr : Str) (pfx : Str) : Option NVal :=
  if c.supportsNamespaces then
    let nsOpt : Option (Option Str) :=     -- `none` = early `return None`
      if !pfx.isEmpty then
        match c.nsGet pfx with
        | some u => some (some u)
        | none => if pfx != "*".toStr then none else some none
      else some none
    match nsOpt with
    | none => none
    | some ns =>
      let star := pfx == "*".toStr
      (e.attrs.find? fun a =>
        if (nsFalsy ns && !star) || (star && a.kns.isNone) then
          -- compare the whole attribute name
          if c.isXml then attr == a.key else lower attr == lower a.key
        else
          match a.kns with
          | none => false
          | some kn =>
            if ns != some kn && !star then false
            else
              match a.kname with
              | some nm => if c.isXml then attr == nm else lower attr == lower nm
              | none => false).map (fun a => normalizeValue a.val)
  else
    (e.attrs.find? fun a => lower attr == lower a.key).map (fun a => normalizeValue a.val)

def nvalJoin : NVal → Str
  | .str s => s
  | .list l => joinWith [32] l

/-- `match_attribute_name` (a generator since the repair of `[*|a op v]`): the normalised value of
    EVERY attribute the name test designates, in document order of `e.attrs`.  The designation
    predicate is the one of `matchAttributeName`, with `List.filter` in place of `List.find?`. -/
def matchAttributeValues (c : Ctx) (e : Elem) (attr : Str) (pfx : Str) : List NVal :=
  if c.supportsNamespaces then
    let nsOpt : Option (Option Str) :=     -- `none` = early `return`
      if !pfx.isEmpty then
        match c.nsGet pfx with
        | some u => some (some u)
        | none => if pfx != "*".toStr then none else some none
      else some none
    match nsOpt with
    | none => []
    | some ns =>
      let star := pfx == "*".toStr
      (e.attrs.filter fun a =>
        if (nsFalsy ns && !star) || (star && a.kns.isNone) then
          -- compare the whole attribute name
          if c.isXml then attr == a.key else lower attr == lower a.key
        else
          match a.kns with
          | none => false
          | some kn =>
            if ns != some kn && !star then false
            else
              match a.kname with
              | some nm => if c.isXml then attr == nm else lower attr == lower nm
              | none => false).map (fun a => normalizeValue a.val)
  else
    (e.attrs.filter fun a => lower attr == lower a.key).map (fun a => normalizeValue a.val)

/-- The first yielded value is what `matchAttributeName` (the former, first-only lookup) returns. -/
theorem matchAttributeName_eq_head? (c : Ctx) (e : Elem) (a p : Str) :
    matchAttributeName c e a p = (matchAttributeValues c e a p).head? := by
  unfold matchAttributeName matchAttributeValues
  split
  · dsimp only
    split
    · rfl
    · rw [List.head?_map, List.head?_filter]
  · rw [List.head?_map, List.head?_filter]

/-- `match_attributes`: every attribute selector is satisfied by SOME designated attribute
    (`for temp in self.match_attribute_name(...)` … `break` / `else: match = False`). -/
def matchAttributes (c : Ctx) (e : Elem) (attrs : List AttrSel) : Bool :=
  attrs.all fun a =>
    let pat := if c.isXml && a.xmlTypePattern.isSome then a.xmlTypePattern else a.pattern
    (matchAttributeValues c e a.attrName a.pfx).any fun v =>
      match pat with
      | none => true
      | some r => Rx.isMatch c.env r (nvalJoin v)

/-- `match_id`. -/
def matchId (c : Ctx) (e : Elem) (ids : List Str) : Bool :=
  ids.all fun i => (c.attrByName e "id".toStr).getD (.str []) == .str i

/-- `get_classes`. -/
def getClasses (c : Ctx) (e : Elem) : List Str :=
  match c.attrByName e "class".toStr with
  | none => []
  | some (.str s) => splitWs s
  | some (.list l) => l

/-- `match_classes`. -/
def matchClasses (c : Ctx) (e : Elem) (classes : List Str) : Bool :=
  let cur := getClasses c e
  classes.all fun k => cur.contains k

/-- `match_contains`. -/
def matchContains (c : Ctx) (l : Loc) (contains : List ContainsSel) : Bool :=
  contains.all fun cl =>
    if cl.own then
      let own := c.ownText l c.isHtml
      cl.text.any fun t => own.any fun piece => isInfix t piece
    else
      let content := c.text l c.isHtml
      cl.text.any fun t => isInfix t content

/-- `match_defined`. -/
def matchDefined (c : Ctx) (e : Elem) : Bool :=
  let name := c.tagName e
  !name.contains 45 || name.contains 58 || (c.prefixName e).isSome

/-- `match_placeholder_shown`. -/
def matchPlaceholderShown (c : Ctx) (l : Loc) : Bool :=
  let content := c.text l false
  content == [] || content == [10]

/-- `util.lower(x)` on a normalised value: a list is unhashable for the `lru_cache`. -/
def lowerE : NVal → Except PyErr Str
  | .str s => .ok (lower s)
  | .list _ => .error .typeError

/-- The value handed to `Inputs.parse_value` must be a string (`RE.match(value)`). -/
def parseValueE (itype : Str) : Option NVal → Except PyErr (Option Inputs.PVal)
  | none => .ok none
  | some (.str s) => .ok (Inputs.parseValue itype s)
  | some (.list _) =>
    -- only the branches that call `RE_x.match(value)` raise
    if ["date", "month", "week", "time", "datetime-local", "number", "range"].any (fun t => t.toStr == itype)
    then .error .typeError else .ok none

/-- `match_range`. -/
def matchRangeE (c : Ctx) (e : Elem) (condition : Nat) : Except PyErr Bool := do
  let itype ← lowerE ((c.attrByName e "type".toStr).getD (.str []))
  let mn ← parseValueE itype (c.attrByName e "min".toStr)
  let mx ← parseValueE itype (c.attrByName e "max".toStr)
  if mn.isNone && mx.isNone then return false
  let value ← parseValueE itype (c.attrByName e "value".toStr)
  let outOfRange : Bool :=
    match value with
    | none => false
    | some v =>
      let lowBad := match mn with | some m => Inputs.ltP v m | none => false
      let highBad := match mx with | some m => Inputs.ltP m v | none => false
      if itype == "time".toStr then
        match mn, mx with
        | some m1, some m2 =>
          if Inputs.ltP m2 m1 then Inputs.ltP v m1 && Inputs.ltP m2 v   -- reversed range
          else lowBad || highBad
        | _, _ => lowBad || highBad
      else if ["date", "datetime-local", "month", "week", "number", "range"].any (fun t => t.toStr == itype) then
        lowBad || highBad
      else false
  return (if hasFlag condition SEL_IN_RANGE then !outOfRange else outOfRange)

def exceptBool : Except PyErr Bool → Bool
  | .ok b => b
  | .error _ => false

def matchRange (c : Ctx) (e : Elem) (condition : Nat) : Bool := exceptBool (matchRangeE c e condition)

/-- `DIR_MAP.get(util.lower(dir), None)`: `some 0` = auto. -/
def dirOfAttr (v : Str) : Option Nat :=
  if v == "ltr".toStr then some SEL_DIR_LTR
  else if v == "rtl".toStr then some SEL_DIR_RTL
  else if v == "auto".toStr then some 0
  else none

/-- First strong character of a string: `some LTR/RTL`. -/
def firstStrong (c : Ctx) : Str → Option Nat
  | [] => none
  | ch :: rest =>
    if c.bidi ch == 1 then some SEL_DIR_LTR
    else if c.bidi ch == 2 then some SEL_DIR_RTL
    else firstStrong c rest

mutual
/-- `find_bidi(el)` on the children list. -/
def findBidiKids (c : Ctx) : List Node → Option Nat
  | [] => none
  | k :: ks =>
    match k with
    | .elem e sub =>
      let direction : Option Nat :=
        match (c.attrByName e "dir".toStr).getD (.str []) with
        | .str s => dirOfAttr (lower s)
        | .list _ => none
      let name := c.tagName e
      if ["bdi", "script", "style", "textarea", "iframe"].any (fun t => t.toStr == name)
          || !c.isHtmlTag e || direction.isSome then
        findBidiKids c ks
      else
        match findBidiKids c sub with
        | some v => some v
        | none => findBidiKids c ks
    | .str kind s =>
      if kind != .text then findBidiKids c ks
      else match firstStrong c s with
        | some v => some v
        | none => findBidiKids c ks
end

/-- `find_bidi(el)`: `get_children(el, no_iframe=True)` yields nothing when `el` itself is an iframe. -/
def findBidi (c : Ctx) (l : Loc) : Option Nat :=
  if c.locIsIframe l then none else findBidiKids c l.focus.kids

/-- `match_dir(el, directionality)`; the recursion on the parent is a walk over
    `el :: ancestors` (with `no_iframe=True`). -/
def matchDirWalk (c : Ctx) (directionality : Nat) (inherit : Bool) : List Loc → Bool
  | [] => false                       -- `el is None`
  | l :: parents =>
    match l.elem? with
    | none => false
    | some e =>
      -- a foreign element never matches itself; as an ancestor it passes the question on upwards
      if !c.isHtmlTag e then inherit && matchDirWalk c directionality true parents
      else
        let direction : Option Nat :=
          match (c.attrByName e "dir".toStr).getD (.str []) with
          | .str s => dirOfAttr (lower s)
          | .list _ => none
        match direction with
        | some d =>
          if d != 0 then d == directionality
          else
            -- dir=auto
            let isRoot := c.isRoot l
            let name := c.tagName e
            let isInput := name == "input".toStr
            let isTextarea := name == "textarea".toStr
            let itype : Str :=
              if isInput then
                match (c.attrByName e "type".toStr).getD (.str []) with
                | .str s => lower s
                | .list _ => []
              else []
            if (isInput && ["text", "search", "tel", "url", "email"].any (fun t => t.toStr == itype)) || isTextarea then
              let value : Str :=
                if isTextarea then
                  ((c.contents l true).filter (fun d => d.focus.isContentString)).flatMap (fun d => d.focus.strVal)
                else match (c.attrByName e "value".toStr).getD (.str []) with
                  | .str s => s
                  | .list _ => []
              if !value.isEmpty then
                match firstStrong c value with
                | some d => d == directionality
                | none => SEL_DIR_LTR == directionality
              else if isRoot then SEL_DIR_LTR == directionality
              else matchDirWalk c directionality true parents
            else
              match findBidi c l with
              | some d => d == directionality
              | none =>
                if isRoot then SEL_DIR_LTR == directionality
                else matchDirWalk c directionality true parents
        | none =>
          let isRoot := c.isRoot l
          if isRoot then SEL_DIR_LTR == directionality
          else
            let name := c.tagName e
            let isInput := name == "input".toStr
            let itype : Str :=
              if isInput then
                match (c.attrByName e "type".toStr).getD (.str []) with
                | .str s => lower s
                | .list _ => []
              else []
            if isInput && itype == "tel".toStr then SEL_DIR_LTR == directionality
            else if name == "bdi".toStr then
              match findBidi c l with
              | some d => d == directionality
              | none => matchDirWalk c directionality true parents
            else matchDirWalk c directionality true parents

/-- `match_dir`. -/
def matchDir (c : Ctx) (l : Loc) (directionality : Nat) : Bool :=
  if hasFlag directionality SEL_DIR_LTR && hasFlag directionality SEL_DIR_RTL then false
  else matchDirWalk c directionality false (l :: c.ancestors l true)

/-- The `form` an element belongs to for `:default` (`match_default`'s parent walk). -/
def defaultForm (c : Ctx) (l : Loc) : Option Loc :=
  (c.ancestors l true).find? fun p =>
    match p.elem? with
    | some e => c.tagName e == "form".toStr && c.isHtmlTag e
    | none => false

/-- First submit button of a form: the scan of `match_default` (stops at a nested form). -/
def firstSubmit (c : Ctx) : List Loc → Option Loc
  | [] => none
  | ch :: rest =>
    match ch.elem? with
    | none => firstSubmit c rest
    | some e =>
      let name := c.tagName e
      if name == "form".toStr then none
      -- fix 8eff4e2: only HTML elements are form controls (`… and self.is_html_tag(child)`)
      else if (name == "input".toStr || name == "button".toStr) && c.isHtmlTag e then
        match (c.attrByName e "type".toStr).getD (.str []) with
        | .str v => if !v.isEmpty && (if !c.isXml then lower v else v) == "submit".toStr then some ch else firstSubmit c rest
        | .list _ => firstSubmit c rest
      else firstSubmit c rest

/-- `match_default` without its memo table. -/
def matchDefault (c : Ctx) (l : Loc) : Bool :=
  match defaultForm c l with
  | none => false
  | some form =>
    match firstSubmit c (c.tagDescendants form true) with
    | some b => b.same l
    | none => false

/-- `get_parent_form` of `match_indeterminate`: nearest HTML `form` ancestor, else the top-most
    ancestor reached (with `no_iframe=True`); `none` when the element has no parent. -/
def parentForm (c : Ctx) (l : Loc) : Option Loc :=
  let anc := c.ancestors l true
  match anc.find? (fun p => match p.elem? with
      | some e => c.tagName e == "form".toStr && c.isHtmlTag e
      | none => false) with
  | some f => some f
  | none => anc.getLast?

/-- Does `child` (an `input`) count as a checked radio of group `name` (attribute scan of
    `match_indeterminate`, in attribute order with its early exit). -/
def radioCheckedScan (isXml : Bool) (name : Option NVal) : List Attr → Bool → Bool → Bool → Bool
  | [], _, _, _ => false
  | a :: rest, isRadio, check, hasName =>
    let k := if !isXml then lower a.key else a.key
    let v := normalizeValue a.val
    let (isRadio, check, hasName) :=
      if k == "type".toStr && (match v with | .str s => (if isXml then s else lower s) == "radio".toStr | .list _ => false) then (true, check, hasName)
      else if k == "name".toStr && some v == name then (isRadio, check, true)
      else if k == "checked".toStr then (isRadio, true, hasName)
      else (isRadio, check, hasName)
    if isRadio && check && hasName then true else radioCheckedScan isXml name rest isRadio check hasName

/-- `match_indeterminate` without its memo table. -/
def matchIndeterminate (c : Ctx) (l : Loc) : Bool :=
  match l.elem? with
  | none => false
  | some e =>
    let name := c.attrByName e "name".toStr
    match parentForm c l with
    | none => false
    | some form =>
      let checked := (c.tagDescendants form true).any fun ch =>
        if ch.same l then false
        else match ch.elem? with
          | none => false
          | some ce =>
            c.tagName ce == "input".toStr && c.isHtmlTag ce &&      -- fix 8eff4e2: HTML elements only
              radioCheckedScan c.isXml name ce.attrs false false false &&
              (match parentForm c ch with
               | some f => f.same form
               | none => false)
      !checked

/-- The `lang` attribute scan of `match_lang` on one element. -/
def langAttr (c : Ctx) (e : Elem) : Option NVal :=
  let hasNs := c.supportsNamespaces
  let hasHtmlNs := (match e.ns with | some n => !n.isEmpty && n == NS_XHTML | none => false)
  (e.attrs.find? fun a =>
    ((!hasNs || hasHtmlNs) && (if !c.isXml then lower a.key else a.key) == "lang".toStr) ||
    (hasNs && !hasHtmlNs && a.kns == some NS_XML &&
      (match a.kname with
       | some nm => (if !c.isXml then lower nm else nm) == "lang".toStr
       | none => false))).map (fun a => normalizeValue a.val)

/-- Walk of `match_lang`: first explicit language on `el :: ancestors` (iframe cut when HTML),
    together with the last element visited (the `root` of the `<meta>` search). -/
def langWalk (c : Ctx) : List Loc → Loc → Option NVal × Loc
  | [], last => (none, last)
  | l :: rest, _ =>
    match l.elem? with
    | none => langWalk c rest l
    | some e =>
      match langAttr c e with
      | some v => (some v, l)
      | none => langWalk c rest l

/-- The `<meta http-equiv="content-language">` scan below `parent` (`html` > `head` > `meta`). -/
def metaLangScan (attrs : List Attr) : Bool → Option NVal → Option NVal
  | cLang, content =>
    match attrs with
    | [] => none
    | a :: rest =>
      let k := lower a.key
      let v := normalizeValue a.val
      let cLang := cLang || (k == "http-equiv".toStr && (match v with | .str s => lower s == "content-language".toStr | .list _ => false))
      let content := if k == "content".toStr then some v else content
      match content with
      | some cv =>
        if cLang && (match cv with | .str s => !s.isEmpty | .list l => !l.isEmpty) then some cv
        else metaLangScan rest cLang content
      | none => metaLangScan rest cLang content

def metaLang (c : Ctx) (start : Loc) : Option NVal :=
  let findChild (p : Loc) (tag : String) : Option Loc :=
    (c.tagChildren p c.isHtml).find? fun ch =>
      match ch.elem? with
      | some e => c.tagName e == tag.toStr && c.isHtmlTag e
      | none => false
  -- the walk ended on the document object (search its children) or on the root element of an `iframe` document
  let htmlLoc : Option Loc :=
    match start.elem? with
    | some e => if !start.isDoc && c.tagName e == "html".toStr && c.isHtmlTag e then some start else findChild start "html"
    | none => findChild start "html"
  match htmlLoc with
  | none => none
  | some html =>
    match findChild html "head" with
    | none => none
    | some head =>
      match head.elem? with
      | none => none
      | some he =>
        (head.children.findSome? fun ch =>
          match ch.elem? with
          | some me =>
            if c.tagName me == "meta".toStr && c.isHtmlTag me then metaLangScan me.attrs false none else none
          | none => none)

/-- The language of an element as `match_lang` determines it (no memo). -/
def langOf (c : Ctx) (l : Loc) : Option NVal :=
  let (found, last) := langWalk c (l :: c.ancestors l c.isHtml) l
  match found with
  | some v => some v
  | none =>
    -- the pragma is an HTML feature: consulted when the document is HTML (XHTML included)
    if c.isHtml then metaLang c last else none

/-- `match_lang`. -/
def matchLang (c : Ctx) (l : Loc) (langs : List LangSel) : Bool :=
  match langOf c l with
  | none => false
  | some v =>
    let tag := match v with | .str s => s | .list ls => joinWith [32] ls
    langs.all fun pats => pats.languages.any fun p => Lang.extendedFilter c.wildStrip p tag

/-- `match_nth_tag_type`. -/
def sameType (c : Ctx) (a b : Elem) : Bool := c.tagName a == c.tagName b && c.tagNs a == c.tagNs b

/-- `rel_type` of the first selector of a relation list (`relation[0].rel_type`). -/
def headRel (rel : SelList) : Rel :=
  match rel.sels.head? with
  | some s => s.relType
  | none => .none

/-- `match_relations` / `match_past_relations` / `match_future_relations`: which elements the
    relation list is tried on (`on`), by `rel_type`. -/
def relationWalk (c : Ctx) (l : Loc) (rt : Rel) (on : Loc → Bool) : Bool :=
  match rt with
  | .none => false
  | .desc => ((c.ancestors l c.iframeRestrict).takeWhile (fun p => !p.isDoc)).any on
  | .child =>
    (match c.parent l c.iframeRestrict with
     | some p => !p.isDoc && on p
     | none => false)
  | .sib => (l.prevSiblings.filter Loc.isTag).any on
  | .adj =>
    (match (l.prevSiblings.filter Loc.isTag).head? with
     | some s => on s
     | none => false)
  | .hasDesc => (c.tagDescendants l c.iframeRestrict).any on
  | .hasChild => (c.tagChildren l c.iframeRestrict).any on
  | .hasSib => (l.nextSiblings.filter Loc.isTag).any on
  | .hasAdj =>
    (match (l.nextSiblings.filter Loc.isTag).head? with
     | some s => on s
     | none => false)

mutual
/-- `match_selectors(el, selectors)`. -/
def matchList (c : Ctx) (l : Loc) (e : Elem) : SelList → Bool
  | .mk sels isNot isHtml =>
    let c' : Ctx := if isHtml then { c with namespaces := [("html".toStr, NS_XHTML)], iframeRestrict := true } else c
    if !isHtml || c.isHtml then
      -- `match` starts as False and is only assigned inside the `for selector in selectors` loop
      !sels.isEmpty && ((matchAny c' l e sels) != isNot)
    else false
/-- The `for selector in selectors` loop: does some alternative match. -/
def matchAny (c : Ctx) (l : Loc) (e : Elem) : List Sel → Bool
  | [] => false
  | s :: rest => matchSel c l e s || matchAny c l e rest
/-- One compound selector with its relation. -/
def matchSel (c : Ctx) (l : Loc) (e : Elem) : Sel → Bool
  | .null => false
  | .mk tag ids classes attrs nth subs relation _relType contains lang flags =>
    matchTag c e tag &&
    (!hasFlag flags SEL_DEFINED || matchDefined c e) &&
    (!hasFlag flags SEL_ROOT || matchRoot c l) &&
    (!hasFlag flags SEL_SCOPE || matchScope c l) &&
    (!hasFlag flags SEL_PLACEHOLDER_SHOWN || matchPlaceholderShown c l) &&
    matchNths c l e nth &&
    (!hasFlag flags SEL_EMPTY || matchEmpty l) &&
    (ids.isEmpty || matchId c e ids) &&
    (classes.isEmpty || matchClasses c e classes) &&
    matchAttributes c e attrs &&
    (!hasFlag flags RANGES || matchRange c e (flags &&& RANGES)) &&
    (lang.isEmpty || matchLang c l lang) &&
    (subs.isEmpty || matchSubs c l e subs) &&
    (!relation.nonEmpty || relationWalk c l (headRel relation) (fun t =>
        match t.elem? with
        | some te => matchList c t te relation
        | none => false)) &&
    (!hasFlag flags SEL_DEFAULT || matchDefault c l) &&
    (!hasFlag flags SEL_INDETERMINATE || matchIndeterminate c l) &&
    (!hasFlag flags DIR_FLAGS || matchDir c l (flags &&& DIR_FLAGS)) &&
    (contains.isEmpty || matchContains c l contains)
/-- `match_subselectors`. -/
def matchSubs (c : Ctx) (l : Loc) (e : Elem) : List SelList → Bool
  | [] => true
  | s :: rest => matchList c l e s && matchSubs c l e rest
/-- `match_nth`. -/
def matchNths (c : Ctx) (l : Loc) (e : Elem) : List NthSel → Bool
  | [] => true
  | n :: rest => matchNth c l e n && matchNths c l e rest
def matchNth (c : Ctx) (l : Loc) (e : Elem) : NthSel → Bool
  | .mk a var b ofType last sels =>
    if sels.nonEmpty && !matchList c l e sels then false
    else
      -- `parent = get_parent(el)`, or a fake parent holding just `el`
      let sibs : List Loc := match l.parent? with
        | some p => p.children
        | none => [l]
      let walk := if last then sibs.reverse else sibs
      let counted : Loc → Bool := fun ch =>
        match ch.elem? with
        | none => false
        | some ce =>
          (!sels.nonEmpty || matchList c ch ce sels) && (!ofType || sameType c e ce)
      Nth.matchOne counted (fun ch => ch.same l) a b var walk
end

/-- `CSSMatch.match(el)`. -/
def matchEl (c : Ctx) (sel : SelList) (l : Loc) : Bool :=
  match l.focus with
  | .elem e _ => !e.isDoc && matchList c l e sel
  | _ => false

end SoupVerif
