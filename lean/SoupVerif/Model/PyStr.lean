/-
  Run-time support of the source-to-Lean translation of the An+B block of `CSSParser.parse_pseudo_nth`
  (`gen/gen_py_anb.py` → `Generated/PyAnB.lean`): the Python string operations that block uses, on
  `Str` (code points) and `Option Str` (`str | None`: what `Match.group(name)` returns), with the
  exceptions Python raises.  HAND-WRITTEN, part of the trusted base (DESIGN.md §0): each definition says
  which Python operation it stands for and where it is exact.

  The translator types every expression (`Str`, `Option Str`, `Bool`, `Int`) itself; an operation that can
  raise is emitted in the `Except Err` monad in evaluation order, so the FIRST exception Python would
  raise is the one returned.
-/
import SoupVerif.Model.Py
namespace SoupVerif
namespace PyStr

/-- The exceptions of the translated fragment. -/
inductive Err where
  /-- a method call on `None` (`None.endswith`) -/
  | attributeError
  /-- `str + None`, `None[:-1]` -/
  | typeError
  /-- `int(text, 10)` refuses the text -/
  | valueError
  /-- `raise SelectorSyntaxError(...)` -/
  | selectorSyntaxError
  deriving DecidableEq, Repr, Inhabited

abbrev M := Except Err

/-- Truth value of a `str | None`: `None` and `''` are falsy. -/
def truthy : Option Str → Bool
  | none => false
  | some s => !s.isEmpty

/-- Truth value of a `str`. -/
def truthyStr (s : Str) : Bool := !s.isEmpty

/-- `x.startswith(t)` (`t` a string literal); `AttributeError` on `None`. -/
def startswith (x : Option Str) (t : Str) : M Bool :=
  match x with
  | none => .error .attributeError
  | some s => .ok (t.isPrefixOf s)

/-- `x.endswith(t)` (`t` a string literal); `AttributeError` on `None`. -/
def endswith (x : Option Str) (t : Str) : M Bool :=
  match x with
  | none => .error .attributeError
  | some s => .ok (t.isSuffixOf s)

/-- A slice bound against a string of length `n`: negative counts from the end, everything is clamped
    into `[0, n]` (Python's `slice.indices` for step 1). -/
def sliceIdx (n : Nat) (dflt : Nat) : Option Int → Nat
  | none => dflt
  | some i => if i < 0 then n - i.natAbs else min i.toNat n

/-- `x[lo:hi]` with optional integer-literal bounds; `TypeError` on `None`. -/
def slice (x : Option Str) (lo hi : Option Int) : M Str :=
  match x with
  | none => .error .typeError
  | some s => .ok ((s.take (sliceIdx s.length s.length hi)).drop (sliceIdx s.length 0 lo))

/-- `s + x` for a `str` `s`; `TypeError` when `x` is `None`. -/
def concat (s : Str) (x : Option Str) : M Str :=
  match x with
  | none => .error .typeError
  | some t => .ok (s ++ t)

/-- `sys.get_int_max_str_digits()`: CPython (3.11+, and the security releases before) refuses to convert
    a decimal string with more digits. -/
def maxStrDigits : Nat := 4300

/-- A non-empty string of ASCII digits. -/
def isDigits (d : Str) : Bool := !d.isEmpty && d.all (fun c => decide (48 ≤ c) && decide (c ≤ 57))

/-- Value of a string of ASCII digits, most significant first. -/
def digitsVal (d : Str) : Nat := d.foldl (fun acc c => acc * 10 + (c - 48)) 0

/-- `int(text, 10)` on `[-+]?[0-9]+`: the value; `ValueError` when the digit string is longer than
    `maxStrDigits` ("Exceeds the limit (4300 digits) for integer string conversion") and on every other text
    over the alphabet `{-, +, 0-9, letters}` (`''`, `'-'`, `'n'`, `'--1'`, `'1-'` …: "invalid literal").
    NOT modelled (Python accepts, this returns `ValueError`): surrounding white space, `_` between digits,
    non-ASCII decimal digits — none of which the groups `a`, `b` of `RE_NTH` or the literals of the translated
    block can contain (`Properties/C02Gen.lean` proves that the error branch is not taken on a matched text of
    at most 4300 digits). -/
def int10 (s : Str) : M Int :=
  match s with
  | 45 :: d => if isDigits d && decide (d.length ≤ maxStrDigits) then .ok (- Int.ofNat (digitsVal d)) else .error .valueError
  | 43 :: d => if isDigits d && decide (d.length ≤ maxStrDigits) then .ok (Int.ofNat (digitsVal d)) else .error .valueError
  | d => if isDigits d && decide (d.length ≤ maxStrDigits) then .ok (Int.ofNat (digitsVal d)) else .error .valueError

/-- `try: body  except ValueError: raise <e>` -/
def exceptValueError {α} (body : M α) (e : Err) : M α :=
  match body with
  | .error .valueError => .error e
  | r => r

end PyStr
end SoupVerif
