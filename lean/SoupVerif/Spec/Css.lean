/-
  Specification side of C01, part 2: selectors as CSS writes them (left to right) and what they
  mean on a document tree, following Selectors level 3/4.

  The meaning is written with quantifiers (`List.any` / `List.all`) over the sets the standard
  names — parent element, ancestor elements, preceding / following element siblings, child
  elements, descendant elements — each defined here directly on the tree (`Model/Tree.lean`), not
  through the matcher's walk code (`relationWalk`, `Ctx.ancestors`, `Ctx.tagDescendants`, …).

  Taken from the model because they are the business of C11/C12 (name and namespace rules):
  `matchTag`, `matchAttributeValues`, `Ctx.attrByName`, `sameType`, `nvalJoin`.
  The attribute VALUE tests are the independent string predicates of `Spec/CssValue.lean`.

  Mathlib-free and executable.
-/
import SoupVerif.Model.Match
import SoupVerif.Spec.CssValue
namespace SoupVerif
namespace Css

/-- The four combinators. -/
inductive Comb where
  | desc | child | sib | adj          -- ' ', '>', '~', '+'
  deriving Repr, DecidableEq, Inhabited

/-- Namespace part of a type / universal selector: `E`, `|E`, `*|E`, `p|E`. -/
inductive NsSpec where
  | default | none | any | named (p : Str)
  deriving Repr, DecidableEq, Inhabited

/-- A type selector (`name = some n`) or the universal selector (`name = none`). -/
structure TypeSel where
  ns : NsSpec
  name : Option Str
  deriving Repr, DecidableEq, Inhabited

/-- `[attr op "value" flag]`. -/
structure AttrTest where
  op : AttrOp
  value : Str
  flag : CaseFlag
  deriving Repr, DecidableEq, Inhabited

mutual
/-- Simple selectors other than the type / universal selector. `:where` and `:matches` are `is`. -/
inductive Simple where
  | id (v : Str)
  | cls (v : Str)
  | attr (ns : Str) (name : Str) (test : Option AttrTest)
  | neg (l : List Complex)
  | is (l : List Complex)
  | has (l : List RelSel)
  | root | empty
  | firstChild | lastChild | onlyChild
  | firstOfType | lastOfType | onlyOfType
/-- A compound selector: an optional type / universal selector followed by simple selectors. -/
inductive Compound where
  | mk (tag : Option TypeSel) (parts : List Simple)
/-- A complex selector, left-nested as CSS reads: `left k right`. -/
inductive Complex where
  | one (c : Compound)
  | comb (left : Complex) (k : Comb) (right : Compound)
/-- A relative selector (argument of `:has`): a leading combinator and a complex selector. -/
inductive RelSel where
  | mk (k : Comb) (x : Complex)
end

instance : Inhabited Compound := ⟨.mk none []⟩
instance : Inhabited Complex := ⟨.one default⟩
instance : Inhabited Simple := ⟨.root⟩
instance : Inhabited RelSel := ⟨.mk .desc default⟩

/-! ### The sets of the standard, on the tree -/

/-- "Element": a tag node. -/
def isElem (l : Loc) : Bool := l.focus.isTag

/-- The parent element: the parent node when there is one and it is not the document object
    (the document object is never an element). -/
def parentElem (l : Loc) : Option Loc :=
  match l.up with
  | [] => none
  | f :: rest => if f.info.isDoc then none else some ⟨Loc.plug f l.focus, rest⟩

/-- Ancestor elements, nearest first: parent element, its parent element, … -/
def ancestorElemsAux : Node → List Frame → List Loc
  | _, [] => []
  | n, f :: rest =>
    if f.info.isDoc then [] else ⟨Loc.plug f n, rest⟩ :: ancestorElemsAux (Loc.plug f n) rest

def ancestorElems (l : Loc) : List Loc := ancestorElemsAux l.focus l.up

/-- Child elements, in document order. -/
def childElems (l : Loc) : List Loc := l.children.filter isElem

/-- Preceding element siblings, nearest first. -/
def precedingElemSiblings (l : Loc) : List Loc := l.prevSiblings.filter isElem

/-- Following element siblings, nearest first. -/
def followingElemSiblings (l : Loc) : List Loc := l.nextSiblings.filter isElem

mutual
/-- Element descendants of the node `n` sitting at `up`, in document order. -/
def descElemsNode (up : List Frame) : Node → List Loc
  | .elem e ks => descElemsKids e up [] ks
  | .str _ _ => []
/-- Element descendants contributed by the children `ks` of an element (already passed: `left`). -/
def descElemsKids (e : Elem) (up : List Frame) : List Node → List Node → List Loc
  | _, [] => []
  | left, k :: right =>
    (match k with
     | .elem _ _ => [(⟨k, ⟨left, e, right⟩ :: up⟩ : Loc)]
     | .str _ _ => []) ++
    descElemsNode (⟨left, e, right⟩ :: up) k ++ descElemsKids e up (k :: left) right
end

/-- Descendant elements (children, their children, …), in document order. -/
def descendantElems (l : Loc) : List Loc := descElemsNode l.up l.focus

/-- Elements that can stand to the LEFT of `l` across combinator `k` (`L k R`, `l` matching `R`). -/
def leftOf (k : Comb) (l : Loc) : List Loc :=
  match k with
  | .desc => ancestorElems l
  | .child => (parentElem l).toList
  | .sib => precedingElemSiblings l
  | .adj => (precedingElemSiblings l).head?.toList

/-- Elements that can stand to the RIGHT of `l` across combinator `k`. -/
def rightOf (k : Comb) (l : Loc) : List Loc :=
  match k with
  | .desc => descendantElems l
  | .child => childElems l
  | .sib => followingElemSiblings l
  | .adj => (followingElemSiblings l).head?.toList

/-! ### Leaf tests -/

/-- Prefix as the type selector carries it. -/
def NsSpec.toPfx : NsSpec → Option Str
  | .default => Option.none
  | .none => some []
  | .any => some [42]
  | .named p => some p

def TypeSel.toSelTag (t : TypeSel) : SelTag := ⟨t.name.getD [42], t.ns.toPfx⟩

/-- Type / universal selector: name and namespace rules of C11/C12. -/
def satType (c : Ctx) (e : Elem) (t : Option TypeSel) : Bool :=
  match t with
  | none => true
  | some t => matchTag c e (some t.toSelTag)

/-- The element's ID: the value of its `id` attribute when that is a single string. -/
def idOf (c : Ctx) (e : Elem) : Option Str :=
  match c.attrByName e [105, 100] with
  | some (.str s) => some s
  | _ => none

/-- `.v` is `[class~=v]`: `v` is one of the element's classes — the white-space separated words of
    the `class` attribute (a multi-valued attribute arrives already split from the tree builder);
    as for `~=`, an empty `v` or one containing white space designates nothing. -/
def hasClass (c : Ctx) (e : Elem) (v : Str) : Bool :=
  match c.attrByName e [99, 108, 97, 115, 115] with
  | none => false
  | some (.str s) => !v.isEmpty && !v.any isCssWs && hasWord v s
  | some (.list l) => l.contains v

/-- Which comparisons are case-insensitive (§6.3): flag `i` always, flag `s` never; without a
    flag the document language decides — here: the `type` attribute in a non-XML document. -/
def caseInsensitive (c : Ctx) (name : Str) (f : CaseFlag) : Bool :=
  match f with
  | .i => true
  | .s => false
  | .none => lower name == [116, 121, 112, 101] && !c.isXml

/-- `[ns|name]`, `[ns|name op value flag]`: SOME attribute designated by `ns|name` (there may be
    several for `*|name`: one per namespace, and the one in no namespace) satisfies the value
    test; `[a!=v]` is `:not([a=v])`, the negation of that.  Which attributes `ns|name` designates
    is delegated to the model (`matchAttributeValues`; that is C12's business); the value tests
    are the independent predicates of `Spec/CssValue.lean`. -/
def satAttr (c : Ctx) (e : Elem) (ns name : Str) (test : Option AttrTest) : Bool :=
  let vals := matchAttributeValues c e name ns
  match test with
  | none => vals.any fun _ => true
  | some t =>
    let r := vals.any fun v => valTest t.op t.value (caseInsensitive c name t.flag) (nvalJoin v)
    if t.op == .ne then !r else r

/-- `:root`: an element — so not the document object — with no parent element. -/
def isRootElem (l : Loc) : Bool := !l.isDoc && (parentElem l).isNone

/-- `:empty`: no child elements and no text except white space. -/
def isEmptyElem (l : Loc) : Bool :=
  l.children.all fun ch =>
    !isElem ch && !(ch.focus.isContentString && ch.focus.strVal.any (fun x => !isCssWs x))

/-- Same element type (expanded name) as `e`. -/
def sameTypeAs (c : Ctx) (e : Elem) (s : Loc) : Bool :=
  match s.focus with
  | .elem e' _ => sameType c e e'
  | _ => false

/-! ### Meaning -/

mutual
def satSimple (c : Ctx) (l : Loc) (e : Elem) : Simple → Bool
  | .id v => idOf c e == some v
  | .cls v => hasClass c e v
  | .attr ns name test => satAttr c e ns name test
  | .neg L => !satAny c l L
  | .is L => satAny c l L
  | .has L => satHasAny c l L
  | .root => isRootElem l
  | .empty => isEmptyElem l
  | .firstChild => (precedingElemSiblings l).isEmpty
  | .lastChild => (followingElemSiblings l).isEmpty
  | .onlyChild => (precedingElemSiblings l).isEmpty && (followingElemSiblings l).isEmpty
  | .firstOfType => !(precedingElemSiblings l).any (sameTypeAs c e)
  | .lastOfType => !(followingElemSiblings l).any (sameTypeAs c e)
  | .onlyOfType => !(precedingElemSiblings l).any (sameTypeAs c e) &&
      !(followingElemSiblings l).any (sameTypeAs c e)
def satParts (c : Ctx) (l : Loc) (e : Elem) : List Simple → Bool
  | [] => true
  | s :: rest => satSimple c l e s && satParts c l e rest
/-- A compound selector represents an element satisfying all its simple selectors. -/
def satCompound (c : Ctx) (l : Loc) : Compound → Bool
  | .mk tag parts =>
    match l.focus with
    | .elem e _ => satType c e tag && satParts c l e parts
    | .str _ _ => false
/-- `L k R` represents an element matching `R` for which some element to its left across `k`
    (ancestor / parent / preceding sibling / immediately preceding sibling) matches `L`. -/
def sat (c : Ctx) (l : Loc) : Complex → Bool
  | .one cp => satCompound c l cp
  | .comb L k R => satCompound c l R && (leftOf k l).any (fun t => sat c t L)
/-- A selector list represents the elements matching one of its members. -/
def satAny (c : Ctx) (l : Loc) : List Complex → Bool
  | [] => false
  | x :: rest => sat c l x || satAny c l rest
/-- `:has(r₁, r₂, …)`: some relative selector matches at least one element when anchored at `l`. -/
def satHasAny (c : Ctx) (l : Loc) : List RelSel → Bool
  | [] => false
  | r :: rest => satRel c l r || satHasAny c l rest
/-- `:has(k X)` anchored at `l`: some element across `k` from `l` (descendant / child / following
    sibling / next sibling) starts a chain of elements satisfying `X` from left to right. -/
def satRel (c : Ctx) (l : Loc) : RelSel → Bool
  | .mk k x => (rightOf k l).any (fun t => satFwd c x (fun _ => true) t)
/-- `satFwd x done t`: `t` matches the leftmost compound of `x`, and following the combinators of
    `x` to the right leads to an element matching the last compound and satisfying `done`. -/
def satFwd (c : Ctx) : Complex → (Loc → Bool) → Loc → Bool
  | .one cp, done, t => satCompound c t cp && done t
  | .comb L k R, done, t =>
    satFwd c L (fun u => (rightOf k u).any (fun v => satCompound c v R && done v)) t
end

/-! ### Top level -/

/-- Outside pseudo-classes every compound of a complex selector that has no type selector gets the
    universal selector `*` (no prefix): under a default namespace that restricts the element to
    the default namespace (`matchNamespace`, C12).  Inside pseudo-class arguments nothing is
    implied. -/
def Compound.withImplied : Compound → Compound
  | .mk none parts => .mk (some ⟨.default, none⟩) parts
  | cp => cp

def Complex.withImplied : Complex → Complex
  | .one cp => .one cp.withImplied
  | .comb L k R => .comb L.withImplied k R.withImplied

/-- Meaning of a top-level complex selector. -/
def satTop (c : Ctx) (l : Loc) (x : Complex) : Bool := sat c l x.withImplied

/-- `select(L)` on the subtree below `tag`: the descendant elements, in document order, that are
    not the document object and match one of the selectors. -/
def selectSpec (c : Ctx) (L : List Complex) (tag : Loc) : List Loc :=
  (descendantElems tag).filter (fun l => !l.isDoc && L.any (satTop c l))

/-! ### Syntactic side conditions -/

mutual
/-- `p` holds for every simple selector nested inside `s` (at any depth; not for `s` itself). -/
def Simple.all (p : Simple → Bool) : Simple → Bool
  | .neg L => allList p L
  | .is L => allList p L
  | .has L => allRels p L
  | _ => true
def allParts (p : Simple → Bool) : List Simple → Bool
  | [] => true
  | s :: rest => p s && s.all p && allParts p rest
def Compound.all (p : Simple → Bool) : Compound → Bool
  | .mk _ parts => allParts p parts
/-- `p` holds for every simple selector occurring in `x`, at any depth. -/
def Complex.all (p : Simple → Bool) : Complex → Bool
  | .one cp => cp.all p
  | .comb L _ R => L.all p && R.all p
def allList (p : Simple → Bool) : List Complex → Bool
  | [] => true
  | x :: rest => x.all p && allList p rest
def allRels (p : Simple → Bool) : List RelSel → Bool
  | [] => true
  | r :: rest => r.all p && allRels p rest
def RelSel.all (p : Simple → Bool) : RelSel → Bool
  | .mk _ x => x.all p
end

/-- What the CSS grammar cannot produce: an empty ID, an empty `:not()`. -/
def Simple.wfLeaf : Simple → Bool
  | .id v => !v.isEmpty
  | .neg L => !L.isEmpty
  | _ => true

/-- Grammatical selectors. -/
def Complex.wf (x : Complex) : Bool := x.all Simple.wfLeaf

def Simple.isRoot : Simple → Bool
  | .root => true
  | _ => false

/-- `:root` does not occur. -/
def Complex.noRoot (x : Complex) : Bool := x.all (fun s => !s.isRoot)

/-- No attribute selector is compared case-insensitively in the context `c`. -/
def Simple.caseSensitiveIn (c : Ctx) : Simple → Bool
  | .attr _ name (some t) => !caseInsensitive c name t.flag
  | _ => true

def Complex.caseSensitiveIn (c : Ctx) (x : Complex) : Bool := x.all (Simple.caseSensitiveIn c)

end Css
end SoupVerif
