/-
  C01, specification side: the default namespace (Selectors-4 §5.2/§5.3, css-namespaces-3 §3).

  The reading `satCss` takes, stated precisely:
    (a) a default namespace applies to the universal selector that is IMPLIED in every compound
        selector without a type / universal selector: such a compound stands for the same compound
        with `*` (no prefix) in front, and `*` without a prefix means "in the default namespace"
        when one is declared (`matchNamespace`, C12);
    (b) exception (Selectors-4 §4.2 `:is()`, §4.3 `:not()`, `:where()` likewise): "default namespace
        declarations do not affect the compound selector representing the SUBJECT of any selector
        within" these pseudo-classes "unless that compound selector contains an explicit universal
        selector or type selector".  The non-subject compounds of a complex argument
        (`.a` in `:is(.a > .b)`) are not exempt;
    (c) for the arguments of `:has()` the text of the standard is not reproduced here; the reading
        is a parameter `hasExempt : Bool`: `false` = no exemption at all inside `:has()` (every
        compound of a relative selector is subject to the default namespace), `true` = the subject
        (last) compound of each relative selector is exempt exactly as in (b).
  All theorems of `Properties/C01Ns.lean` hold for both values of `hasExempt`.

  `Complex.explicitNs` makes every implied `*` explicit; `satCss` is the meaning CSS gives to a
  top-level complex selector under reading (a)-(c).  The parser (after repair ccd8955) puts the
  implied `*` on every compound of a top-level complex selector and on none inside pseudo-class
  arguments: `Complex.withImplied`, `satTop`.  `Complex.nsAgree` is the syntactic condition under
  which the two coincide whatever the namespace declarations are: every compound inside a
  pseudo-class argument that (a)-(c) subject to the default namespace has an explicit type or
  universal selector.

  Mathlib-free and executable.
-/
import SoupVerif.Spec.Css
namespace SoupVerif
namespace Css

mutual
def Simple.explicitNs (h : Bool) : Simple → Simple
  | .neg L => .neg (explicitSubjects h L)
  | .is L => .is (explicitSubjects h L)
  | .has L => .has (explicitRels h L)
  | .id v => .id v
  | .cls v => .cls v
  | .attr ns name test => .attr ns name test
  | .root => .root
  | .empty => .empty
  | .firstChild => .firstChild
  | .lastChild => .lastChild
  | .onlyChild => .onlyChild
  | .firstOfType => .firstOfType
  | .lastOfType => .lastOfType
  | .onlyOfType => .onlyOfType
def explicitParts (h : Bool) : List Simple → List Simple
  | [] => []
  | s :: rest => s.explicitNs h :: explicitParts h rest
/-- `implied`: this compound is subject to the default namespace. -/
def Compound.explicitNs (h : Bool) (implied : Bool) : Compound → Compound
  | .mk tag parts =>
    .mk (match tag with
         | some t => some t
         | none => if implied then some ⟨.default, none⟩ else none) (explicitParts h parts)
/-- `subj`: whether the subject (last) compound is subject to the default namespace; all other
    compounds always are. -/
def Complex.explicitNs (h : Bool) (subj : Bool) : Complex → Complex
  | .one cp => .one (cp.explicitNs h subj)
  | .comb L k R => .comb (L.explicitNs h true) k (R.explicitNs h subj)
/-- Arguments of `:is` / `:not`: subjects exempt. -/
def explicitSubjects (h : Bool) : List Complex → List Complex
  | [] => []
  | x :: rest => x.explicitNs h false :: explicitSubjects h rest
/-- Arguments of `:has`: subjects exempt iff `h`. -/
def explicitRels (h : Bool) : List RelSel → List RelSel
  | [] => []
  | r :: rest => r.explicitNs h :: explicitRels h rest
def RelSel.explicitNs (h : Bool) : RelSel → RelSel
  | .mk k x => .mk k (x.explicitNs h (!h))
end

/-- The meaning CSS gives to a top-level complex selector under the namespace declarations of `c`
    (`hasExempt`: reading (c) above). -/
def satCss (hasExempt : Bool) (c : Ctx) (l : Loc) (x : Complex) : Bool :=
  sat c l (x.explicitNs hasExempt true)

/-! ### When the parser's placement is the CSS one, syntactically -/

mutual
def Simple.nsAgree (h : Bool) : Simple → Bool
  | .neg L => agreeSubjects h L
  | .is L => agreeSubjects h L
  | .has L => agreeRels h L
  | _ => true
def agreeParts (h : Bool) : List Simple → Bool
  | [] => true
  | s :: rest => s.nsAgree h && agreeParts h rest
/-- Inside a pseudo-class argument: a compound subject to the default namespace (`implied`) must
    have an explicit type / universal selector. -/
def Compound.nsAgreeIn (h : Bool) (implied : Bool) : Compound → Bool
  | .mk tag parts => (!implied || tag.isSome) && agreeParts h parts
def Complex.nsAgreeIn (h : Bool) (subj : Bool) : Complex → Bool
  | .one cp => cp.nsAgreeIn h subj
  | .comb L _ R => L.nsAgreeIn h true && R.nsAgreeIn h subj
def agreeSubjects (h : Bool) : List Complex → Bool
  | [] => true
  | x :: rest => x.nsAgreeIn h false && agreeSubjects h rest
def agreeRels (h : Bool) : List RelSel → Bool
  | [] => true
  | r :: rest => r.nsAgree h && agreeRels h rest
def RelSel.nsAgree (h : Bool) : RelSel → Bool
  | .mk _ x => x.nsAgreeIn h (!h)
end

/-- Top level: only the pseudo-class arguments matter (the parser implies `*` on the chain). -/
def Compound.nsAgreeTop (h : Bool) : Compound → Bool
  | .mk _ parts => agreeParts h parts

def Complex.nsAgree (h : Bool) : Complex → Bool
  | .one cp => cp.nsAgreeTop h
  | .comb L _ R => L.nsAgree h && R.nsAgreeTop h

end Css
end SoupVerif
