/-
  C01, specification side: the default namespace (Selectors-4 §5.3, css-namespaces-3).

  "If a default namespace is declared, compound selectors without type selectors in them still
  only match elements in that default namespace" — i.e. every compound selector without a type
  selector stands for the same compound with `*` (no prefix) in front.  Exception (§4.2-4.4): the
  compound selector representing the SUBJECT of a selector directly inside `:is()`, `:where()`,
  `:not()` is not affected (unless it has an explicit type / universal selector).

  `Complex.explicitNs` makes every implied `*` explicit; `satCss` is the meaning CSS gives to a
  top-level complex selector.  (The parser puts the implied `*` on the LAST compound of a top-level
  complex selector only: `Complex.withImplied`, `satTop`.)

  Mathlib-free and executable.
-/
import SoupVerif.Spec.Css
namespace SoupVerif
namespace Css

mutual
def Simple.explicitNs : Simple → Simple
  | .neg L => .neg (explicitSubjects L)
  | .is L => .is (explicitSubjects L)
  | .has L => .has (explicitRels L)
  | .id v => .id v
  | .cls v => .cls v
  | .attr ns name test => .attr ns name test
  | .root => .root
  | .empty => .empty
  | .firstChild => .firstChild
  | .lastChild => .lastChild
  | .onlyChild => .onlyChild
  | .firstOfType => .firstOfType
  | .lastOfType => .lastOfType
  | .onlyOfType => .onlyOfType
def explicitParts : List Simple → List Simple
  | [] => []
  | s :: rest => s.explicitNs :: explicitParts rest
/-- `implied`: this compound is subject to the default namespace. -/
def Compound.explicitNs (implied : Bool) : Compound → Compound
  | .mk tag parts =>
    .mk (match tag with
         | some t => some t
         | none => if implied then some ⟨.default, none⟩ else none) (explicitParts parts)
/-- `subj`: whether the subject (last) compound is subject to the default namespace; all other
    compounds always are. -/
def Complex.explicitNs (subj : Bool) : Complex → Complex
  | .one cp => .one (cp.explicitNs subj)
  | .comb L k R => .comb (L.explicitNs true) k (R.explicitNs subj)
/-- Arguments of `:is` / `:not`: subjects exempt. -/
def explicitSubjects : List Complex → List Complex
  | [] => []
  | x :: rest => x.explicitNs false :: explicitSubjects rest
/-- Arguments of `:has`: no exemption. -/
def explicitRels : List RelSel → List RelSel
  | [] => []
  | r :: rest => r.explicitNs :: explicitRels rest
def RelSel.explicitNs : RelSel → RelSel
  | .mk k x => .mk k (x.explicitNs true)
end

/-- The meaning CSS gives to a top-level complex selector under the namespace declarations of `c`. -/
def satCss (c : Ctx) (l : Loc) (x : Complex) : Bool := sat c l (x.explicitNs true)

end Css
end SoupVerif
