/-
  Specification side of C01, part 1: the string predicates of Selectors-4 §6.1/§6.2
  (attribute presence and value selectors, substring matching selectors) and §6.3 (case flags).

  Everything here is a plain executable function on strings (`Str = List Nat`, code points).
  Nothing refers to regular expressions.
-/
import SoupVerif.Model.Py
namespace SoupVerif
namespace Css

/-- The attribute operators: `=`, `!=` (soupsieve extension, `:not([a=v])`), `^=`, `$=`, `*=`,
    `~=`, `|=`. -/
inductive AttrOp where
  | eq | ne | pre | suf | sub | word | dash
  deriving Repr, DecidableEq, Inhabited

/-- The case flag written after the value: none, `i`, `s`. -/
inductive CaseFlag where
  | none | i | s
  deriving Repr, DecidableEq, Inhabited

/-- Operator text as it is written in a selector. -/
def AttrOp.text : AttrOp → Str
  | .eq => [61]          -- =
  | .ne => [33, 61]      -- !=
  | .pre => [94, 61]     -- ^=
  | .suf => [36, 61]     -- $=
  | .sub => [42, 61]     -- *=
  | .word => [126, 61]   -- ~=
  | .dash => [124, 61]   -- |=

/-- Comparison under a case rule: `ic = true` is "ASCII case-insensitively". -/
def foldCase (ic : Bool) (s : Str) : Str := if ic then lower s else s

/-- `v` occurs in `s` at the front as a whole word: followed by the end or by white space. -/
def wordHere (v s : Str) : Bool :=
  v.isPrefixOf s && (match s.drop v.length with
    | [] => true
    | c :: _ => isCssWs c)

/-- `v` is one of the white-space separated words of `s`, scanning left to right; the flag says
    whether the current position is at the start of the string or just after white space. -/
def hasWordFrom (v : Str) : Bool → Str → Bool
  | b, [] => b && wordHere v []
  | b, c :: rest => (b && wordHere v (c :: rest)) || hasWordFrom v (isCssWs c) rest

/-- `[att~=v]`: "a whitespace-separated list of words, one of which is exactly `v`". -/
def hasWord (v s : Str) : Bool := hasWordFrom v true s

/-- The declarative reading of `hasWord` (for `v` non-empty): `s = a ++ v ++ b` with `a` empty or
    ending in white space and `b` empty or starting with white space. -/
def IsWordOf (v s : Str) : Prop :=
  ∃ a b : Str, s = a ++ v ++ b ∧
    (a = [] ∨ ∃ a' c, a = a' ++ [c] ∧ isCssWs c = true) ∧
    (b = [] ∨ ∃ c b', b = c :: b' ∧ isCssWs c = true)

/-- Selectors-4 §6.1, §6.2: the value tests, on the attribute's value `s`, for selector value `v`,
    compared case-insensitively (ASCII) when `ic`.
    * `=`  : exactly `v`
    * `~=` : one of the white-space separated words is `v`; nothing if `v` is empty or contains
             white space
    * `|=` : exactly `v`, or begins with `v` immediately followed by `-`
    * `^=`, `$=`, `*=` : begins with / ends with / contains `v`; nothing if `v` is empty
    (`!=` is tested as `=` and negated one level up, together with attribute presence). -/
def valTest (op : AttrOp) (v : Str) (ic : Bool) (s : Str) : Bool :=
  let v' := foldCase ic v
  let s' := foldCase ic s
  match op with
  | .eq | .ne => s' == v'
  | .pre => !v.isEmpty && v'.isPrefixOf s'
  | .suf => !v.isEmpty && v'.isSuffixOf s'
  | .sub => !v.isEmpty && isInfix v' s'
  | .word => !v.isEmpty && !v.any isCssWs && hasWord v' s'
  | .dash => s' == v' || (v' ++ [45]).isPrefixOf s'

end Css
end SoupVerif
