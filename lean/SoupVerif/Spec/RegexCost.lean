/-
  C07 — cost of the backtracking matcher, and a decidable syntactic check (`Rx.StarSafe`) that
  every repeat in a regular expression is *unambiguous* (deterministic in the sense of
  Brüggemann-Klein / Glushkov, extended with the guard idioms the library's expressions use).

  * `Rx.ends`   : the list of end positions of `Rx.runs`, without the capture bookkeeping
                  (`Lemmas/RegexCost.lean` proves `(runs ..).map (·.1) = ends ..`).
  * `Rx.paths`  : number of backtracking paths (`(runs env s r i []).length`).
  * `Rx.work`   : number of sub-match attempts made by an exhaustive backtracking search.
  * `Rx.Det`    : the strong check: the end positions of `r` from any start are pairwise distinct.
  * `Rx.StarSafe` : every unbounded `rep` sub-term (also inside look-arounds) is `Det`; a bounded
                  one is `Det` or has a `StarSafe` body.
  * `Rx.pcoef/pdeg`, `Rx.wcoef/wdeg` : the constants of the polynomial bounds.

  No Mathlib.
-/
import SoupVerif.Model.Regex
namespace SoupVerif
namespace Rx

/-! ## End positions, paths, work -/

/-- `Rx.iter` without captures. -/
def iterE (body : Nat → List Nat) (mn : Nat) (mx : Option Nat) (greedy : Bool) :
    Nat → Nat → Nat → List Nat
  | 0, _, _ => []
  | fuel + 1, count, pos =>
    let canMore := match mx with
      | none => true
      | some m => count < m
    let more : List Nat :=
      if canMore then
        (body pos).flatMap fun p' =>
          if p' > pos || count + 1 < mn then iterE body mn mx greedy fuel (count + 1) p'
          else if count + 1 ≥ mn then [p'] else []
      else []
    let stop : List Nat := if count ≥ mn then [pos] else []
    if greedy then more ++ stop else stop ++ more

mutual
/-- End positions of `runs`, in priority order and with multiplicity. -/
def ends (env : CharEnv) (s : Str) : Rx → Nat → List Nat
  | .lit c ic, i =>
    match s[i]? with
    | some x => if (if ic then env.fold x == env.fold c else x == c) then [i + 1] else []
    | none => []
  | .notLit c ic, i =>
    match s[i]? with
    | some x => if (if ic then env.fold x == env.fold c else x == c) then [] else [i + 1]
    | none => []
  | .any dotall, i =>
    match s[i]? with
    | some x => if dotall || x != 10 then [i + 1] else []
    | none => []
  | .set neg items ic, i =>
    match s[i]? with
    | some x => if setHas env neg items ic x then [i + 1] else []
    | none => []
  | .seq rs, i => endsSeq env s rs i
  | .alt rs, i => endsAlt env s rs i
  | .group _ r, i => ends env s r i
  | .rep mn mx greedy r, i =>
    iterE (fun p => ends env s r p) mn mx greedy (s.length - i + mn + 2) 0 i
  | .bos, i => if i == 0 then [i] else []
  | .eol, i => if i == s.length || (i + 1 == s.length && s[i]? == some 10) then [i] else []
  | .eos, i => if i == s.length then [i] else []
  | .look true neg r, i =>
    let ok := !(ends env s r i).isEmpty
    if ok != neg then [i] else []
  | .look false neg r, i =>
    match width r with
    | some w =>
      let ok := w ≤ i && (ends env s r (i - w)).any (fun j => j == i)
      if ok != neg then [i] else []
    | none => []
def endsSeq (env : CharEnv) (s : Str) : List Rx → Nat → List Nat
  | [], i => [i]
  | r :: rs, i => (ends env s r i).flatMap fun j => endsSeq env s rs j
def endsAlt (env : CharEnv) (s : Str) : List Rx → Nat → List Nat
  | [], _ => []
  | r :: rs, i => ends env s r i ++ endsAlt env s rs i
end

/-- Number of backtracking paths through `r` from `i`: what an exhaustive search enumerates when
    the overall match fails. -/
def paths (env : CharEnv) (s : Str) (r : Rx) (i : Nat) : Nat := (runs env s r i []).length

/-- Cost of the repeat loop: one unit per visited loop state plus the cost of every body
    attempt. -/
def workIter (bodyE : Nat → List Nat) (bodyW : Nat → Nat) (mn : Nat) (mx : Option Nat) :
    Nat → Nat → Nat → Nat
  | 0, _, _ => 1
  | fuel + 1, count, pos =>
    let canMore := match mx with
      | none => true
      | some m => count < m
    1 + (if canMore then
          bodyW pos + ((bodyE pos).map fun p' =>
            if p' > pos || count + 1 < mn then workIter bodyE bodyW mn mx fuel (count + 1) p'
            else 1).sum
        else 0)

mutual
/-- Number of sub-match attempts of an exhaustive backtracking search of `r` from `i`
    (every leaf test, assertion, group entry, loop state and alternative counts one). -/
def work (env : CharEnv) (s : Str) : Rx → Nat → Nat
  | .lit _ _, _ => 1
  | .notLit _ _, _ => 1
  | .any _, _ => 1
  | .set _ _ _, _ => 1
  | .seq rs, i => workSeq env s rs i
  | .alt rs, i => workAlt env s rs i
  | .group _ r, i => 1 + work env s r i
  | .rep mn mx _ r, i =>
    workIter (fun p => ends env s r p) (fun p => work env s r p) mn mx (s.length - i + mn + 2) 0 i
  | .bos, _ => 1
  | .eol, _ => 1
  | .eos, _ => 1
  | .look true _ r, i => 1 + work env s r i
  | .look false _ r, i =>
    match width r with
    | some w => if w ≤ i then 1 + work env s r (i - w) else 1
    | none => 1
def workSeq (env : CharEnv) (s : Str) : List Rx → Nat → Nat
  | [], _ => 1
  | r :: rs, i => work env s r i + ((ends env s r i).map fun j => workSeq env s rs j).sum
def workAlt (env : CharEnv) (s : Str) : List Rx → Nat → Nat
  | [], _ => 1
  | r :: rs, i => work env s r i + workAlt env s rs i
end

/-! ## Character-set abstraction

A `CSet` over-approximates a set of "next input symbols" `Option Nat` (`none` = end of input).
It is a table over 130 keys: key `c` for an ASCII code point `c < 128`, key `128` for every
non-ASCII code point, key `129` for end of input. -/

abbrev CSet := Nat → Bool

def key : Option Nat → Nat
  | none => 129
  | some c => if c < 128 then c else 128

namespace CSet
def all : CSet := fun _ => true
def empty : CSet := fun _ => false
def union (a b : CSet) : CSet := fun k => a k || b k
def inter (a b : CSet) : CSet := fun k => a k && b k
def compl (a : CSet) : CSet := fun k => !a k
def mem (a : CSet) (o : Option Nat) : Bool := a (key o)
def disjoint (a b : CSet) : Bool := (List.range 130).all fun k => !(a k && b k)
end CSet

/-- Hypothesis on the character environment under which the ASCII tables are exact: folding is
    ASCII lower-casing on ASCII and never maps a non-ASCII code point into ASCII. (`asciiEnv`
    satisfies it.) -/
structure EnvOK (env : CharEnv) : Prop where
  ascii : ∀ c, c < 128 → env.fold c = lowerCp c
  high : ∀ c, 128 ≤ c → 128 ≤ env.fold c

def isLeaf : Rx → Bool
  | .lit _ _ | .notLit _ _ | .any _ | .set _ _ _ => true
  | _ => false

/-- The character test of a leaf. -/
def charOk (env : CharEnv) : Rx → Nat → Bool
  | .lit c ic, x => if ic then env.fold x == env.fold c else x == c
  | .notLit c ic, x => !(if ic then env.fold x == env.fold c else x == c)
  | .any dotall, x => dotall || x != 10
  | .set neg items ic, x => setHas env neg items ic x
  | _, _ => false

/-- Can the item contain a non-ASCII code point? -/
def itemHigh : SetItem → Bool
  | .ch x => 128 ≤ x
  | .range _ hi => 128 ≤ hi
  | .cat _ => true

/-- Upper (`upper = true`) / lower approximation of an item at a key. Categories are unknown. -/
def itemApx (upper : Bool) (ic : Bool) (k : Nat) (it : SetItem) : Bool :=
  if k < 128 then
    match it with
    | .cat _ => upper
    | it => itemHas asciiEnv ic k it
  else if k == 128 then (upper && itemHigh it)
  else false

/-- Upper / lower approximation of a leaf as a `CSet` (never contains end of input). -/
def leafApx (upper : Bool) : Rx → CSet
  | .lit c ic => fun k =>
    if k < 128 then (if ic then lowerCp k == lowerCp c else k == c)
    else if k == 128 then (upper && 128 ≤ c) else false
  | .notLit c ic => fun k =>
    if k < 128 then !(if ic then lowerCp k == lowerCp c else k == c)
    else if k == 128 then (upper || c < 128) else false
  | .any dotall => fun k => if k < 128 then (dotall || k != 10) else k == 128
  | .set neg items ic => fun k =>
    if k < 129 then (items.any (itemApx (upper != neg) ic k)) != neg else false
  | _ => fun _ => false

/-! ## Syntactic equality -/

mutual
def beq : Rx → Rx → Bool
  | .lit c ic, .lit c' ic' => c == c' && ic == ic'
  | .notLit c ic, .notLit c' ic' => c == c' && ic == ic'
  | .any d, .any d' => d == d'
  | .set n is ic, .set n' is' ic' => n == n' && is == is' && ic == ic'
  | .seq rs, .seq rs' => beqList rs rs'
  | .alt rs, .alt rs' => beqList rs rs'
  | .group k r, .group k' r' => k == k' && beq r r'
  | .rep mn mx g r, .rep mn' mx' g' r' => mn == mn' && mx == mx' && g == g' && beq r r'
  | .bos, .bos => true
  | .eol, .eol => true
  | .eos, .eos => true
  | .look a n r, .look a' n' r' => a == a' && n == n' && beq r r'
  | _, _ => false
def beqList : List Rx → List Rx → Bool
  | [], [] => true
  | r :: rs, r' :: rs' => beq r r' && beqList rs rs'
  | _, _ => false
end

/-! ## nullable / first / followLast -/

mutual
/-- May `r` match without consuming? (`false` ⇒ every end is strictly after the start.) -/
def nullable : Rx → Bool
  | .lit _ _ | .notLit _ _ | .any _ | .set _ _ _ => false
  | .seq rs => nullableSeq rs
  | .alt rs => nullableAlt rs
  | .group _ r => nullable r
  | .rep mn _ _ r => mn == 0 || nullable r
  | .bos | .eol | .eos | .look _ _ _ => true
def nullableSeq : List Rx → Bool
  | [] => true
  | r :: rs => nullable r && nullableSeq rs
def nullableAlt : List Rx → Bool
  | [] => false
  | r :: rs => nullable r || nullableAlt rs
end

mutual
/-- `first r` : if `r` matches at all from `p`, the next symbol `s[p]?` lies in `first r`.
    (For zero-width assertions this is the guard they impose.) -/
def first : Rx → CSet
  | .lit c ic => leafApx true (.lit c ic)
  | .notLit c ic => leafApx true (.notLit c ic)
  | .any d => leafApx true (.any d)
  | .set n is ic => leafApx true (.set n is ic)
  | .seq rs => firstSeq rs
  | .alt rs => firstAlt rs
  | .group _ r => first r
  | .rep mn _ _ r => if mn == 0 then CSet.all else first r
  | .bos => CSet.all
  | .eol => fun k => k == 10 || k == 129
  | .eos => fun k => k == 129
  | .look true true r => if isLeaf r then CSet.compl (leafApx false r) else CSet.all
  | .look true false r => first r
  | .look false _ _ => CSet.all
def firstSeq : List Rx → CSet
  | [] => CSet.all
  | r :: rs =>
    if nullable r then CSet.inter (first r) (CSet.union (cfirst r) (firstSeq rs)) else first r
def firstAlt : List Rx → CSet
  | [] => CSet.empty
  | r :: rs => CSet.union (first r) (firstAlt rs)
/-- `cfirst r` : if `r` has an end strictly after `p`, then `s[p]?` lies in `cfirst r`. -/
def cfirst : Rx → CSet
  | .lit c ic => leafApx true (.lit c ic)
  | .notLit c ic => leafApx true (.notLit c ic)
  | .any d => leafApx true (.any d)
  | .set n is ic => leafApx true (.set n is ic)
  | .seq rs => cfirstSeq rs
  | .alt rs => cfirstAlt rs
  | .group _ r => cfirst r
  | .rep _ _ _ r => cfirst r
  | .bos | .eol | .eos | .look _ _ _ => CSet.empty
def cfirstSeq : List Rx → CSet
  | [] => CSet.empty
  | r :: rs =>
    CSet.union (cfirst r) (if nullable r then CSet.inter (first r) (cfirstSeq rs) else CSet.empty)
def cfirstAlt : List Rx → CSet
  | [] => CSet.empty
  | r :: rs => CSet.union (cfirst r) (cfirstAlt rs)
end

mutual
/-- `fl r` (followLast): for `Det r`, if `e₁ < e₂` are both ends of `r` from the same start, the
    symbol `s[e₁]` lies in `fl r`. -/
def fl : Rx → CSet
  | .lit _ _ | .notLit _ _ | .any _ | .set _ _ _ => CSet.empty
  | .seq rs => flSeq rs
  | .alt rs => flAlt rs
  | .group _ r => fl r
  | .rep mn mx _ r => if mx == some mn then fl r else CSet.union (fl r) (cfirst r)
  | .bos | .eol | .eos | .look _ _ _ => CSet.empty
def flSeq : List Rx → CSet
  | [] => CSet.empty
  | r :: rs =>
    CSet.union (flSeq rs) (if nullableSeq rs then CSet.inter (fl r) (firstSeq rs) else CSet.empty)
def flAlt : List Rx → CSet
  | [] => CSet.empty
  | r :: rs => CSet.union (fl r) (flAlt rs)
end

/-! ## Mutual exclusion of alternatives -/

/-- `excl fuel x y = true` ⇒ `x` and `y` never both match from the same position.
    Rules: (1) disjoint first-sets; (2) guard `x | (?!x) …`; (3) maximal munch
    `C{a,b}(?!C) | C{m,…}` with `b < m`; (4) `(?<=^) | (?<=w)` with `w` of positive width;
    (5) split a leading optional of `x`; (6) strip a common leading leaf. -/
def exclGuard (x y : Rx) : Bool :=
  match y with
  | .seq (.look true true x' :: _) => beq x' x
  | _ => false

def exclMunch (x y : Rx) : Bool :=
  match x, y with
  | .seq [.rep _ (some b) _ c, .look true true c'], .rep m _ _ c'' =>
    isLeaf c && beq c' c && beq c'' c && b < m
  | _, _ => false

def exclBehind (x y : Rx) : Bool :=
  match x, y with
  | .look false false .bos, .look false false r =>
    (match width r with | some w => 0 < w | none => false)
  | _, _ => false

def optSplit (x : Rx) : Option (Rx × Rx) :=
  match x with
  | .seq (.rep 0 (some 1) _ a :: as) => some (.seq (a :: as), .seq as)
  | _ => none

def leafStrip (x y : Rx) : Option (Rx × Rx) :=
  match x, y with
  | .seq (a :: as), .seq (b :: bs) => if isLeaf a && beq b a then some (.seq as, .seq bs) else none
  | _, _ => none

def excl : Nat → Rx → Rx → Bool
  | 0, _, _ => false
  | fuel + 1, x, y =>
    CSet.disjoint (first x) (first y) || exclGuard x y || exclMunch x y || exclBehind x y ||
    (match optSplit x with
      | some (x1, x2) => excl fuel x1 y && excl fuel x2 y
      | none => false) ||
    (match leafStrip x y with
      | some (x', y') => excl fuel x' y'
      | none => false)

def exclFuel : Nat := 6

/-! ## The checks -/

mutual
/-- Strong determinism: all ends of `r` from any start are distinct. -/
def Det : Rx → Bool
  | .lit _ _ | .notLit _ _ | .any _ | .set _ _ _ => true
  | .seq rs => detSeq rs
  | .alt rs => detAlt rs
  | .group _ r => Det r
  | .rep _ mx _ r => Det r && !nullable r && (mx == some 1 || CSet.disjoint (fl r) (first r))
  | .bos | .eol | .eos | .look _ _ _ => true
def detSeq : List Rx → Bool
  | [] => true
  | r :: rs => Det r && detSeq rs && CSet.disjoint (fl r) (cfirstSeq rs)
def detAlt : List Rx → Bool
  | [] => true
  | r :: rs => Det r && detAlt rs && rs.all (fun y => excl exclFuel r y)
end

mutual
/-- Every unbounded repeat in `r` (also inside look-arounds) is deterministic with a
    non-nullable body; a bounded repeat is either deterministic or has a `StarSafe` body. -/
def StarSafe : Rx → Bool
  | .lit _ _ | .notLit _ _ | .any _ | .set _ _ _ => true
  | .seq rs => starSafeList rs
  | .alt rs => starSafeList rs
  | .group _ r => StarSafe r
  | .rep mn mx g r => StarSafe r && (Det (.rep mn mx g r) || mx.isSome)
  | .bos | .eol | .eos => true
  | .look _ _ r => StarSafe r
def starSafeList : List Rx → Bool
  | [] => true
  | r :: rs => StarSafe r && starSafeList rs
end

/-! ## Constants of the polynomial bounds -/

mutual
/-- `paths ≤ pcoef r * (|s|+1) ^ pdeg r`. -/
def pcoef : Rx → Nat
  | .lit _ _ | .notLit _ _ | .any _ | .set _ _ _ => 1
  | .seq rs => if detSeq rs then 1 else pcoefSeq rs
  | .alt rs => if detAlt rs then 1 else pcoefAlt rs
  | .group _ r => pcoef r
  | .rep mn mx g r =>
    if Det (.rep mn mx g r) then 1 else
    match mx with
    | some m => (m + 1) * pcoef r ^ m
    | none => 1
  | .bos | .eol | .eos | .look _ _ _ => 1
def pcoefSeq : List Rx → Nat
  | [] => 1
  | r :: rs => pcoef r * pcoefSeq rs
def pcoefAlt : List Rx → Nat
  | [] => 1
  | r :: rs => pcoef r + pcoefAlt rs
end

mutual
def pdeg : Rx → Nat
  | .lit _ _ | .notLit _ _ | .any _ | .set _ _ _ => 0
  | .seq rs => if detSeq rs then 1 else pdegSeq rs
  | .alt rs => if detAlt rs then 1 else pdegAlt rs
  | .group _ r => pdeg r
  | .rep mn mx g r =>
    if Det (.rep mn mx g r) then 1 else
    match mx with
    | some m => m * pdeg r
    | none => 1
  | .bos | .eol | .eos | .look _ _ _ => 0
def pdegSeq : List Rx → Nat
  | [] => 0
  | r :: rs => pdeg r + pdegSeq rs
def pdegAlt : List Rx → Nat
  | [] => 0
  | r :: rs => max (pdeg r) (pdegAlt rs)
end

mutual
/-- `work ≤ wcoef r * (|s|+1) ^ wdeg r`. -/
def wcoef : Rx → Nat
  | .lit _ _ | .notLit _ _ | .any _ | .set _ _ _ => 1
  | .seq rs => wcoefSeq rs
  | .alt rs => wcoefAlt rs
  | .group _ r => 1 + wcoef r
  | .rep mn mx g r =>
    if Det (.rep mn mx g r) then 2 * (1 + wcoef r) else
    match mx with
    | some m => (m + 1) * (1 + wcoef r) * pcoef r ^ m
    | none => 1
  | .bos | .eol | .eos => 1
  | .look _ _ r => 1 + wcoef r
def wcoefSeq : List Rx → Nat
  | [] => 1
  | r :: rs => wcoef r + pcoef r * wcoefSeq rs
def wcoefAlt : List Rx → Nat
  | [] => 1
  | r :: rs => wcoef r + wcoefAlt rs
end

mutual
def wdeg : Rx → Nat
  | .lit _ _ | .notLit _ _ | .any _ | .set _ _ _ => 0
  | .seq rs => wdegSeq rs
  | .alt rs => wdegAlt rs
  | .group _ r => wdeg r
  | .rep mn mx g r =>
    if Det (.rep mn mx g r) then wdeg r + 1 else
    match mx with
    | some m => wdeg r + m * pdeg r
    | none => 1
  | .bos | .eol | .eos => 0
  | .look _ _ r => wdeg r
def wdegSeq : List Rx → Nat
  | [] => 0
  | r :: rs => max (wdeg r) (pdeg r + wdegSeq rs)
def wdegAlt : List Rx → Nat
  | [] => 0
  | r :: rs => max (wdeg r) (wdegAlt rs)
end

end Rx
end SoupVerif
