/-
  C07 — cost of the backtracking matcher, and a decidable syntactic check (`Rx.StarSafe`) that
  every repeat in a regular expression is *unambiguous* (deterministic in the sense of
  Brüggemann-Klein / Glushkov, extended with the guard idioms the library's expressions use).

  * `Rx.ends`   : the list of end positions of `Rx.runs`, without the capture bookkeeping
                  (`Lemmas/RegexCost.lean` proves `(runs ..).map (·.1) = ends ..`).
  * `Rx.paths`  : number of backtracking paths (`(runs env s r i []).length`).
  * `Rx.work`   : number of sub-match attempts made by an exhaustive backtracking search.
  * `Rx.Det sp`  : the strong check: the end positions of `r` from any start are pairwise distinct.
  * `Rx.StarSafe sp` : every unbounded `rep` sub-term (also inside look-arounds) is `Det`; a bounded
                  one is `Det` or has a `StarSafe` body.
  * `Rx.pcoef/pdeg`, `Rx.wcoef/wdeg` : the constants of the polynomial bounds.
  The checks are parameterised by `sp : Specials`, the non-ASCII code points that case-insensitive
  matching identifies with ASCII letters (`[]` for `asciiEnv`, `foldSpecials` for `pyFoldEnv`);
  `Rx.EnvOK sp env` is the hypothesis on the environment under which they are sound.

  No Mathlib.
-/
import SoupVerif.Model.Regex
namespace SoupVerif
namespace Rx

/-! ## End positions, paths, work -/

/-- `Rx.iter` without captures. -/
def iterE (body : Nat → List Nat) (mn : Nat) (mx : Option Nat) (greedy : Bool) :
    Nat → Nat → Nat → List Nat
  | 0, _, _ => []
  | fuel + 1, count, pos =>
    let canMore := match mx with
      | none => true
      | some m => count < m
    let more : List Nat :=
      if canMore then
        (body pos).flatMap fun p' =>
          if p' > pos || count + 1 < mn then iterE body mn mx greedy fuel (count + 1) p'
          else if count + 1 ≥ mn then [p'] else []
      else []
    let stop : List Nat := if count ≥ mn then [pos] else []
    if greedy then more ++ stop else stop ++ more

mutual
/-- End positions of `runs`, in priority order and with multiplicity. -/
def ends (env : CharEnv) (s : Str) : Rx → Nat → List Nat
  | .lit c ic, i =>
    match s[i]? with
    | some x => if (if ic then env.fold x == env.fold c else x == c) then [i + 1] else []
    | none => []
  | .notLit c ic, i =>
    match s[i]? with
    | some x => if (if ic then env.fold x == env.fold c else x == c) then [] else [i + 1]
    | none => []
  | .any dotall, i =>
    match s[i]? with
    | some x => if dotall || x != 10 then [i + 1] else []
    | none => []
  | .set neg items ic, i =>
    match s[i]? with
    | some x => if setHas env neg items ic x then [i + 1] else []
    | none => []
  | .seq rs, i => endsSeq env s rs i
  | .alt rs, i => endsAlt env s rs i
  | .group _ r, i => ends env s r i
  | .rep mn mx greedy r, i =>
    iterE (fun p => ends env s r p) mn mx greedy (s.length - i + mn + 2) 0 i
  | .bos, i => if i == 0 then [i] else []
  | .eol, i => if i == s.length || (i + 1 == s.length && s[i]? == some 10) then [i] else []
  | .eos, i => if i == s.length then [i] else []
  | .look true neg r, i =>
    let ok := !(ends env s r i).isEmpty
    if ok != neg then [i] else []
  | .look false neg r, i =>
    match width r with
    | some w =>
      let ok := w ≤ i && (ends env s r (i - w)).any (fun j => j == i)
      if ok != neg then [i] else []
    | none => []
def endsSeq (env : CharEnv) (s : Str) : List Rx → Nat → List Nat
  | [], i => [i]
  | r :: rs, i => (ends env s r i).flatMap fun j => endsSeq env s rs j
def endsAlt (env : CharEnv) (s : Str) : List Rx → Nat → List Nat
  | [], _ => []
  | r :: rs, i => ends env s r i ++ endsAlt env s rs i
end

/-- Number of backtracking paths through `r` from `i`: what an exhaustive search enumerates when
    the overall match fails. -/
def paths (env : CharEnv) (s : Str) (r : Rx) (i : Nat) : Nat := (runs env s r i []).length

/-- Cost of the repeat loop: one unit per visited loop state plus the cost of every body
    attempt. -/
def workIter (bodyE : Nat → List Nat) (bodyW : Nat → Nat) (mn : Nat) (mx : Option Nat) :
    Nat → Nat → Nat → Nat
  | 0, _, _ => 1
  | fuel + 1, count, pos =>
    let canMore := match mx with
      | none => true
      | some m => count < m
    1 + (if canMore then
          bodyW pos + ((bodyE pos).map fun p' =>
            if p' > pos || count + 1 < mn then workIter bodyE bodyW mn mx fuel (count + 1) p'
            else 1).sum
        else 0)

mutual
/-- Number of sub-match attempts of an exhaustive backtracking search of `r` from `i`
    (every leaf test, assertion, group entry, loop state and alternative counts one). -/
def work (env : CharEnv) (s : Str) : Rx → Nat → Nat
  | .lit _ _, _ => 1
  | .notLit _ _, _ => 1
  | .any _, _ => 1
  | .set _ _ _, _ => 1
  | .seq rs, i => workSeq env s rs i
  | .alt rs, i => workAlt env s rs i
  | .group _ r, i => 1 + work env s r i
  | .rep mn mx _ r, i =>
    workIter (fun p => ends env s r p) (fun p => work env s r p) mn mx (s.length - i + mn + 2) 0 i
  | .bos, _ => 1
  | .eol, _ => 1
  | .eos, _ => 1
  | .look true _ r, i => 1 + work env s r i
  | .look false _ r, i =>
    match width r with
    | some w => if w ≤ i then 1 + work env s r (i - w) else 1
    | none => 1
def workSeq (env : CharEnv) (s : Str) : List Rx → Nat → Nat
  | [], _ => 1
  | r :: rs, i => work env s r i + ((ends env s r i).map fun j => workSeq env s rs j).sum
def workAlt (env : CharEnv) (s : Str) : List Rx → Nat → Nat
  | [], _ => 1
  | r :: rs, i => work env s r i + workAlt env s rs i
end

/-! ## Character-set abstraction

A `CSet` over-approximates a set of "next input symbols" `Option Nat` (`none` = end of input).
The analysis is parameterised by a list `sp : Specials` of *special* non-ASCII code points, each
with the ASCII letter it is case-insensitively identified with (`[]` for `asciiEnv`,
`foldSpecials` for Python's `re.IGNORECASE`).  A `CSet` is a table over the keys `keys sp`:
key `c` for an ASCII code point `c < 128`, key `128` for every non-ASCII code point that is not
special, key `129` for end of input, and key `c + 2` (≥ 130) for a special code point `c`.  On
the ASCII and special keys the tables are exact (up to the Unicode categories, which are never
decided); key `128` carries an upper / lower approximation. -/

abbrev CSet := Nat → Bool

/-- Is `c` one of the special code points? -/
def isSpecial (sp : Specials) (c : Nat) : Bool := (sp.lookup c).isSome

/-- Is `c` a non-ASCII code point that is not special (key `128`)? -/
def isOther (sp : Specials) (c : Nat) : Bool := 128 ≤ c && !isSpecial sp c

def key (sp : Specials) : Option Nat → Nat
  | none => 129
  | some c => if c < 128 then c else if isSpecial sp c then c + 2 else 128

/-- All keys. -/
def keys (sp : Specials) : List Nat := List.range 130 ++ sp.map (fun p => p.1 + 2)

/-- The code point an exact key (ASCII or special) stands for. -/
def cpOfKey (k : Nat) : Nat := if k < 128 then k else k - 2

namespace CSet
def all : CSet := fun _ => true
def empty : CSet := fun _ => false
def union (a b : CSet) : CSet := fun k => a k || b k
def inter (a b : CSet) : CSet := fun k => a k && b k
def compl (a : CSet) : CSet := fun k => !a k
def mem (sp : Specials) (a : CSet) (o : Option Nat) : Bool := a (key sp o)
def disjoint (sp : Specials) (a b : CSet) : Bool := (keys sp).all fun k => !(a k && b k)
end CSet

/-- Hypothesis on the character environment under which the tables computed for the specials
    `sp` are sound: folding is ASCII lower-casing on ASCII, maps every special code point to its
    ASCII image, and maps no other non-ASCII code point into ASCII.  (`asciiEnv` satisfies it
    for `[]`, `pyFoldEnv` for `foldSpecials`, `foldEnv sp` for every well-formed `sp`.) -/
structure EnvOK (sp : Specials) (env : CharEnv) : Prop where
  /-- well-formedness of the list: specials are non-ASCII, their images ASCII -/
  wf : ∀ p ∈ sp, 128 ≤ p.1 ∧ p.2 < 128
  ascii : ∀ c, c < 128 → env.fold c = lowerCp c
  special : ∀ p ∈ sp, env.fold p.1 = p.2
  high : ∀ c, 128 ≤ c → isSpecial sp c = false → 128 ≤ env.fold c

def isLeaf : Rx → Bool
  | .lit _ _ | .notLit _ _ | .any _ | .set _ _ _ => true
  | _ => false

/-- The character test of a leaf. -/
def charOk (env : CharEnv) : Rx → Nat → Bool
  | .lit c ic, x => if ic then env.fold x == env.fold c else x == c
  | .notLit c ic, x => !(if ic then env.fold x == env.fold c else x == c)
  | .any dotall, x => dotall || x != 10
  | .set neg items ic, x => setHas env neg items ic x
  | _, _ => false

/-- Can the item contain a non-ASCII code point that is not special?  (A `.ch` item is compared
    with the input either literally or through folding; either way a special `.ch` only matches
    ASCII and special input.) -/
def itemHigh (sp : Specials) : SetItem → Bool
  | .ch x => isOther sp x
  | .range _ hi => 128 ≤ hi
  | .cat _ => true

/-- Upper (`upper = true`) / lower approximation of an item at a key. Categories are unknown.
    On ASCII and special keys the other items are evaluated exactly, at the code point of the key
    in the environment `foldEnv sp`. -/
def itemApx (sp : Specials) (upper : Bool) (ic : Bool) (k : Nat) (it : SetItem) : Bool :=
  if k == 128 then (upper && itemHigh sp it)
  else if k == 129 then false
  else
    match it with
    | .cat _ => upper
    | it => itemHas (foldEnv sp) ic (cpOfKey k) it

/-- Upper / lower approximation of a leaf as a `CSet` (never contains end of input). -/
def leafApx (sp : Specials) (upper : Bool) : Rx → CSet
  | .lit c ic => fun k =>
    if k == 128 then (upper && isOther sp c)
    else if k == 129 then false
    else (if ic then (foldEnv sp).fold (cpOfKey k) == (foldEnv sp).fold c else cpOfKey k == c)
  | .notLit c ic => fun k =>
    if k == 128 then (upper || !isOther sp c)
    else if k == 129 then false
    else !(if ic then (foldEnv sp).fold (cpOfKey k) == (foldEnv sp).fold c else cpOfKey k == c)
  | .any dotall => fun k =>
    if k == 128 then true else if k == 129 then false else (dotall || cpOfKey k != 10)
  | .set neg items ic => fun k =>
    if k == 129 then false else (items.any (itemApx sp (upper != neg) ic k)) != neg
  | _ => fun _ => false

/-! ## Syntactic equality -/

mutual
def beq : Rx → Rx → Bool
  | .lit c ic, .lit c' ic' => c == c' && ic == ic'
  | .notLit c ic, .notLit c' ic' => c == c' && ic == ic'
  | .any d, .any d' => d == d'
  | .set n is ic, .set n' is' ic' => n == n' && is == is' && ic == ic'
  | .seq rs, .seq rs' => beqList rs rs'
  | .alt rs, .alt rs' => beqList rs rs'
  | .group k r, .group k' r' => k == k' && beq r r'
  | .rep mn mx g r, .rep mn' mx' g' r' => mn == mn' && mx == mx' && g == g' && beq r r'
  | .bos, .bos => true
  | .eol, .eol => true
  | .eos, .eos => true
  | .look a n r, .look a' n' r' => a == a' && n == n' && beq r r'
  | _, _ => false
def beqList : List Rx → List Rx → Bool
  | [], [] => true
  | r :: rs, r' :: rs' => beq r r' && beqList rs rs'
  | _, _ => false
end

/-! ## nullable / first / followLast -/

mutual
/-- May `r` match without consuming? (`false` ⇒ every end is strictly after the start.) -/
def nullable : Rx → Bool
  | .lit _ _ | .notLit _ _ | .any _ | .set _ _ _ => false
  | .seq rs => nullableSeq rs
  | .alt rs => nullableAlt rs
  | .group _ r => nullable r
  | .rep mn _ _ r => mn == 0 || nullable r
  | .bos | .eol | .eos | .look _ _ _ => true
def nullableSeq : List Rx → Bool
  | [] => true
  | r :: rs => nullable r && nullableSeq rs
def nullableAlt : List Rx → Bool
  | [] => false
  | r :: rs => nullable r || nullableAlt rs
end

mutual
/-- `first r` : if `r` matches at all from `p`, the next symbol `s[p]?` lies in `first r`.
    (For zero-width assertions this is the guard they impose.) -/
def first (sp : Specials) : Rx → CSet
  | .lit c ic => leafApx sp true (.lit c ic)
  | .notLit c ic => leafApx sp true (.notLit c ic)
  | .any d => leafApx sp true (.any d)
  | .set n is ic => leafApx sp true (.set n is ic)
  | .seq rs => firstSeq sp rs
  | .alt rs => firstAlt sp rs
  | .group _ r => first sp r
  | .rep mn _ _ r => if mn == 0 then CSet.all else first sp r
  | .bos => CSet.all
  | .eol => fun k => k == 10 || k == 129
  | .eos => fun k => k == 129
  | .look true true r => if isLeaf r then CSet.compl (leafApx sp false r) else CSet.all
  | .look true false r => first sp r
  | .look false _ _ => CSet.all
def firstSeq (sp : Specials) : List Rx → CSet
  | [] => CSet.all
  | r :: rs =>
    if nullable r then CSet.inter (first sp r) (CSet.union (cfirst sp r) (firstSeq sp rs)) else first sp r
def firstAlt (sp : Specials) : List Rx → CSet
  | [] => CSet.empty
  | r :: rs => CSet.union (first sp r) (firstAlt sp rs)
/-- `cfirst r` : if `r` has an end strictly after `p`, then `s[p]?` lies in `cfirst r`. -/
def cfirst (sp : Specials) : Rx → CSet
  | .lit c ic => leafApx sp true (.lit c ic)
  | .notLit c ic => leafApx sp true (.notLit c ic)
  | .any d => leafApx sp true (.any d)
  | .set n is ic => leafApx sp true (.set n is ic)
  | .seq rs => cfirstSeq sp rs
  | .alt rs => cfirstAlt sp rs
  | .group _ r => cfirst sp r
  | .rep _ _ _ r => cfirst sp r
  | .bos | .eol | .eos | .look _ _ _ => CSet.empty
def cfirstSeq (sp : Specials) : List Rx → CSet
  | [] => CSet.empty
  | r :: rs =>
    CSet.union (cfirst sp r) (if nullable r then CSet.inter (first sp r) (cfirstSeq sp rs) else CSet.empty)
def cfirstAlt (sp : Specials) : List Rx → CSet
  | [] => CSet.empty
  | r :: rs => CSet.union (cfirst sp r) (cfirstAlt sp rs)
end

mutual
/-- `fl r` (followLast): for `Det r`, if `e₁ < e₂` are both ends of `r` from the same start, the
    symbol `s[e₁]` lies in `fl r`. -/
def fl (sp : Specials) : Rx → CSet
  | .lit _ _ | .notLit _ _ | .any _ | .set _ _ _ => CSet.empty
  | .seq rs => flSeq sp rs
  | .alt rs => flAlt sp rs
  | .group _ r => fl sp r
  | .rep mn mx _ r => if mx == some mn then fl sp r else CSet.union (fl sp r) (cfirst sp r)
  | .bos | .eol | .eos | .look _ _ _ => CSet.empty
def flSeq (sp : Specials) : List Rx → CSet
  | [] => CSet.empty
  | r :: rs =>
    CSet.union (flSeq sp rs) (if nullableSeq rs then CSet.inter (fl sp r) (firstSeq sp rs) else CSet.empty)
def flAlt (sp : Specials) : List Rx → CSet
  | [] => CSet.empty
  | r :: rs => CSet.union (fl sp r) (flAlt sp rs)
end

/-! ## Mutual exclusion of alternatives -/

/-- `excl fuel x y = true` ⇒ `x` and `y` never both match from the same position.
    Rules: (1) disjoint first-sets; (2) guard `x | (?!x) …`; (3) maximal munch
    `C{a,b}(?!C) | C{m,…}` with `b < m`; (4) `(?<=^) | (?<=w)` with `w` of positive width;
    (5) split a leading optional of `x`; (6) strip a common leading leaf. -/
def exclGuard (x y : Rx) : Bool :=
  match y with
  | .seq (.look true true x' :: _) => beq x' x
  | _ => false

def exclMunch (x y : Rx) : Bool :=
  match x, y with
  | .seq [.rep _ (some b) _ c, .look true true c'], .rep m _ _ c'' =>
    isLeaf c && beq c' c && beq c'' c && b < m
  | _, _ => false

def exclBehind (x y : Rx) : Bool :=
  match x, y with
  | .look false false .bos, .look false false r =>
    (match width r with | some w => 0 < w | none => false)
  | _, _ => false

def optSplit (x : Rx) : Option (Rx × Rx) :=
  match x with
  | .seq (.rep 0 (some 1) _ a :: as) => some (.seq (a :: as), .seq as)
  | _ => none

def leafStrip (x y : Rx) : Option (Rx × Rx) :=
  match x, y with
  | .seq (a :: as), .seq (b :: bs) => if isLeaf a && beq b a then some (.seq as, .seq bs) else none
  | _, _ => none

def excl (sp : Specials) : Nat → Rx → Rx → Bool
  | 0, _, _ => false
  | fuel + 1, x, y =>
    CSet.disjoint sp (first sp x) (first sp y) || exclGuard x y || exclMunch x y || exclBehind x y ||
    (match optSplit x with
      | some (x1, x2) => excl sp fuel x1 y && excl sp fuel x2 y
      | none => false) ||
    (match leafStrip x y with
      | some (x', y') => excl sp fuel x' y'
      | none => false)

def exclFuel : Nat := 6

/-! ## The checks -/

mutual
/-- Strong determinism: all ends of `r` from any start are distinct. -/
def Det (sp : Specials) : Rx → Bool
  | .lit _ _ | .notLit _ _ | .any _ | .set _ _ _ => true
  | .seq rs => detSeq sp rs
  | .alt rs => detAlt sp rs
  | .group _ r => Det sp r
  | .rep _ mx _ r => Det sp r && !nullable r && (mx == some 1 || CSet.disjoint sp (fl sp r) (first sp r))
  | .bos | .eol | .eos | .look _ _ _ => true
def detSeq (sp : Specials) : List Rx → Bool
  | [] => true
  | r :: rs => Det sp r && detSeq sp rs && CSet.disjoint sp (fl sp r) (cfirstSeq sp rs)
def detAlt (sp : Specials) : List Rx → Bool
  | [] => true
  | r :: rs => Det sp r && detAlt sp rs && rs.all (fun y => excl sp exclFuel r y)
end

mutual
/-- Every unbounded repeat in `r` (also inside look-arounds) is deterministic with a
    non-nullable body; a bounded repeat is either deterministic or has a `StarSafe` body. -/
def StarSafe (sp : Specials) : Rx → Bool
  | .lit _ _ | .notLit _ _ | .any _ | .set _ _ _ => true
  | .seq rs => starSafeList sp rs
  | .alt rs => starSafeList sp rs
  | .group _ r => StarSafe sp r
  | .rep mn mx g r => StarSafe sp r && (Det sp (.rep mn mx g r) || mx.isSome)
  | .bos | .eol | .eos => true
  | .look _ _ r => StarSafe sp r
def starSafeList (sp : Specials) : List Rx → Bool
  | [] => true
  | r :: rs => StarSafe sp r && starSafeList sp rs
end

/-! ## Constants of the polynomial bounds -/

mutual
/-- `paths ≤ pcoef r * (|s|+1) ^ pdeg r`. -/
def pcoef (sp : Specials) : Rx → Nat
  | .lit _ _ | .notLit _ _ | .any _ | .set _ _ _ => 1
  | .seq rs => if detSeq sp rs then 1 else pcoefSeq sp rs
  | .alt rs => if detAlt sp rs then 1 else pcoefAlt sp rs
  | .group _ r => pcoef sp r
  | .rep mn mx g r =>
    if Det sp (.rep mn mx g r) then 1 else
    match mx with
    | some m => (m + 1) * pcoef sp r ^ m
    | none => 1
  | .bos | .eol | .eos | .look _ _ _ => 1
def pcoefSeq (sp : Specials) : List Rx → Nat
  | [] => 1
  | r :: rs => pcoef sp r * pcoefSeq sp rs
def pcoefAlt (sp : Specials) : List Rx → Nat
  | [] => 1
  | r :: rs => pcoef sp r + pcoefAlt sp rs
end

mutual
def pdeg (sp : Specials) : Rx → Nat
  | .lit _ _ | .notLit _ _ | .any _ | .set _ _ _ => 0
  | .seq rs => if detSeq sp rs then 1 else pdegSeq sp rs
  | .alt rs => if detAlt sp rs then 1 else pdegAlt sp rs
  | .group _ r => pdeg sp r
  | .rep mn mx g r =>
    if Det sp (.rep mn mx g r) then 1 else
    match mx with
    | some m => m * pdeg sp r
    | none => 1
  | .bos | .eol | .eos | .look _ _ _ => 0
def pdegSeq (sp : Specials) : List Rx → Nat
  | [] => 0
  | r :: rs => pdeg sp r + pdegSeq sp rs
def pdegAlt (sp : Specials) : List Rx → Nat
  | [] => 0
  | r :: rs => max (pdeg sp r) (pdegAlt sp rs)
end

mutual
/-- `work ≤ wcoef r * (|s|+1) ^ wdeg r`. -/
def wcoef (sp : Specials) : Rx → Nat
  | .lit _ _ | .notLit _ _ | .any _ | .set _ _ _ => 1
  | .seq rs => wcoefSeq sp rs
  | .alt rs => wcoefAlt sp rs
  | .group _ r => 1 + wcoef sp r
  | .rep mn mx g r =>
    if Det sp (.rep mn mx g r) then 2 * (1 + wcoef sp r) else
    match mx with
    | some m => (m + 1) * (1 + wcoef sp r) * pcoef sp r ^ m
    | none => 1
  | .bos | .eol | .eos => 1
  | .look _ _ r => 1 + wcoef sp r
def wcoefSeq (sp : Specials) : List Rx → Nat
  | [] => 1
  | r :: rs => wcoef sp r + pcoef sp r * wcoefSeq sp rs
def wcoefAlt (sp : Specials) : List Rx → Nat
  | [] => 1
  | r :: rs => wcoef sp r + wcoefAlt sp rs
end

mutual
def wdeg (sp : Specials) : Rx → Nat
  | .lit _ _ | .notLit _ _ | .any _ | .set _ _ _ => 0
  | .seq rs => wdegSeq sp rs
  | .alt rs => wdegAlt sp rs
  | .group _ r => wdeg sp r
  | .rep mn mx g r =>
    if Det sp (.rep mn mx g r) then wdeg sp r + 1 else
    match mx with
    | some m => wdeg sp r + m * pdeg sp r
    | none => 1
  | .bos | .eol | .eos => 0
  | .look _ _ r => wdeg sp r
def wdegSeq (sp : Specials) : List Rx → Nat
  | [] => 0
  | r :: rs => max (wdeg sp r) (pdeg sp r + wdegSeq sp rs)
def wdegAlt (sp : Specials) : List Rx → Nat
  | [] => 0
  | r :: rs => max (wdeg sp r) (wdegAlt sp rs)
end

end Rx
end SoupVerif
