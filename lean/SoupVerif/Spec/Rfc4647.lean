/-
  RFC 4647 §3.3.2 "Extended Filtering", written from the RFC text (not from the model), on lists
  of subtags that have already been case-folded (the RFC compares subtags case-insensitively).

  RFC 4647 §3.3.2:

    1. Split both the extended language range and the language tag being compared into a list
       of subtags by dividing on the hyphen (%x2D) character.  Two subtags match if either they
       are the same when compared case-insensitively or the language range's subtag is the
       wildcard '*'.
    2. Begin with the first subtag in each list.  If the first subtag in the range does not
       match the first subtag in the tag, the overall match fails.  Otherwise, move to the next
       subtag in both the range and the tag.
    3. While there are more subtags left in the language range's list:
       A. If the subtag currently being examined in the range is the wildcard ('*'), move to
          the next subtag in the range and continue with the loop.
       B. Else, if there are no more subtags in the language tag's list, the match fails.
       C. Else, if the current subtag in the range's list matches the current subtag in the
          language tag's list, move to the next subtag in both lists and continue with the loop.
       D. Else, if the language tag's subtag is a "singleton" (a single letter or digit,
          which includes the private-use subtag 'x') the match fails.
       E. Else, move to the next subtag in the language tag's list and continue with the loop.
    4. When the language range's list has no more subtags, the match succeeds.

  Besides the algorithm this file gives
    * `stripWild`      : deleting the non-initial `*` subtags of a range,
    * `Embeds`/`extFilterDecl` : a declarative (non-greedy, existential) characterisation,
    * `extFilterPos`   : the same characterisation with explicit positions,
    * `c13Match`       : the algorithm plus the two edge rules that property C13 adds.
-/
import SoupVerif.Model.Py
namespace SoupVerif
namespace Spec

/-- The wildcard subtag `*` (U+002A). -/
def star : Str := [42]

/-- A "singleton" subtag: exactly one character (step 3D). -/
def isSingleton (t : Str) : Bool := t.length == 1

/-! ### The algorithm -/

/-- Steps 3B–3E for one fixed non-wildcard range subtag `r`; `k` is "the rest of the loop",
    run on what is left of the tag once `r` has been matched (step 3C). -/
def rfcScan (r : Str) (k : List Str → Bool) : List Str → Bool
  | [] => false                                   -- 3B: tag ran out
  | t :: ts =>
    if t == r then k ts                           -- 3C: match, advance both
    else if isSingleton t then false              -- 3D: cannot skip a singleton
    else rfcScan r k ts                           -- 3E: skip this tag subtag

/-- Step 3 and step 4: the loop on the remaining range subtags and remaining tag subtags. -/
def rfcLoop : List Str → List Str → Bool
  | [], _ => true                                 -- 4: range ran out
  | r :: rs, ts =>
    if r == star then rfcLoop rs ts               -- 3A: wildcard, next range subtag
    else rfcScan r (rfcLoop rs) ts                -- 3B–3E

/-- The loop exactly as the RFC words it (this is what `rfcLoop`/`rfcScan` compute). -/
theorem rfcLoop_nil (ts : List Str) : rfcLoop [] ts = true := rfl

theorem rfcLoop_cons_nil (r : Str) (rs : List Str) :
    rfcLoop (r :: rs) [] = if r == star then rfcLoop rs [] else false := rfl

theorem rfcLoop_cons_cons (r : Str) (rs : List Str) (t : Str) (ts : List Str) :
    rfcLoop (r :: rs) (t :: ts) =
      if r == star then rfcLoop rs (t :: ts)                 -- 3A
      else if t == r then rfcLoop rs ts                      -- 3C
      else if isSingleton t then false                       -- 3D
      else rfcLoop (r :: rs) ts := by                        -- 3E
  by_cases h : (r == star) = true <;> simp [rfcLoop, rfcScan, h]

/-- RFC 4647 §3.3.2 on subtag lists (step 1, splitting and case folding, is done by the caller).
    Step 2: the first range subtag must be `*` or equal the first tag subtag.  `split` never
    returns an empty list, so the `[]` cases are junk and answer `false`. -/
def extFilterAlg : List Str → List Str → Bool
  | r :: rs, t :: ts => (r == star || r == t) && rfcLoop rs ts
  | _, _ => false

/-! ### Removing redundant wildcards -/

/-- Keep the first subtag, delete every later `*`. -/
def stripWild : List Str → List Str
  | [] => []
  | r :: rs => r :: rs.filter (· != star)

/-! ### Declarative characterisation

`Embeds rs ts`: the (wildcard-free) range subtags `rs` can be laid, in order, onto some of the
tag subtags `ts` so that matched subtags are equal and every tag subtag that is passed over
before a matched one is not a singleton.  Unlike the algorithm nothing forces the *first*
possible match to be taken: `skip` may pass over a subtag equal to the range subtag. -/
inductive Embeds : List Str → List Str → Prop
  /-- Range exhausted: the remaining tag subtags are unconstrained. -/
  | done (ts : List Str) : Embeds [] ts
  /-- Match the current range subtag at the current tag position. -/
  | here (r : Str) (rs ts : List Str) : Embeds rs ts → Embeds (r :: rs) (r :: ts)
  /-- Pass over a tag subtag that is not a singleton; the range subtag is matched later. -/
  | skip (r : Str) (rs : List Str) (t : Str) (ts : List Str) :
      isSingleton t = false → Embeds (r :: rs) ts → Embeds (r :: rs) (t :: ts)

/-- The same as a Bool function that branches "match here or skip here" (structural on the
    tag list); `embedsB_iff` in `Lemmas/Lang.lean` shows it decides `Embeds`. -/
def embedsB : List Str → List Str → Bool
  | [], _ => true
  | _ :: _, [] => false
  | r :: rs, t :: ts => (t == r && embedsB rs ts) || (!isSingleton t && embedsB (r :: rs) ts)

/-- Declarative extended filtering: after deleting non-initial `*`, the first range subtag is
    `*` or equals the first tag subtag, and the rest embeds into the rest of the tag. -/
def extFilterDecl (range tag : List Str) : Prop :=
  match stripWild range, tag with
  | r :: rs, t :: ts => (r = star ∨ r = t) ∧ Embeds rs ts
  | _, _ => False

/-! ### The same with explicit positions

`ps` lists, for each range subtag after the first, how many tag subtags are passed over
immediately before its match (so the matched absolute positions are strictly increasing by
construction: `i₁ = 0`, `i_{j+1} = i_j + 1 + ps_j`). -/

/-- `EmbedsAt rs ts ps`: `ps.length = rs.length`, and walking the tag from the left, for each
    `(r, p)`: the next `p` tag subtags exist and are all non-singletons, the one after them
    exists and equals `r`. -/
def EmbedsAt : List Str → List Str → List Nat → Prop
  | [], _, [] => True
  | r :: rs, ts, p :: ps =>
      (∀ x ∈ ts.take p, isSingleton x = false) ∧ ts[p]? = some r ∧
        EmbedsAt rs (ts.drop (p + 1)) ps
  | _, _, _ => False

/-- Positional form of `extFilterDecl`. -/
def extFilterPos (range tag : List Str) : Prop :=
  match stripWild range, tag with
  | r :: rs, t :: ts => (r = star ∨ r = t) ∧ ∃ ps, EmbedsAt rs ts ps
  | _, _ => False

/-! ### Property C13: the algorithm plus two edge rules

C13 adds to the RFC: the empty range (text `""`, subtags `[""]`) matches only the explicitly
empty language (text `""`), and the range `*` matches only a non-empty language text. -/

/-- The subtag list of the empty text. -/
def emptyText : List Str := [[]]

def c13Match (range tag : List Str) : Bool :=
  if stripWild range == emptyText then tag == emptyText
  else if stripWild range == [star] then tag != emptyText && !tag.isEmpty
  else extFilterAlg range tag

/-- Ranges the model's loop handles like the RFC: after the first subtag there is neither an
    empty subtag nor a `*` (the latter is what `stripWild` establishes).  Nothing is required
    of the first subtag. -/
def WellFormedRange : List Str → Prop
  | [] => False
  | _ :: rs => ∀ x ∈ rs, x ≠ [] ∧ x ≠ star

end Spec
end SoupVerif
