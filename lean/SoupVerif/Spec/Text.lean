/-
  Independent specification for C19: the character data an element "contains", by structural
  recursion on the tree.  Nothing here mentions the matcher's walks (`Loc.descendants`,
  `Ctx.text`, the `next_good` loop of `get_descendants`).

  * only `str .text s` leaves are text; comments, CDATA sections, processing instructions,
    declarations and doctypes contribute nothing;
  * `cut e` says that the content of element `e` is not part of the enclosing document
    (instantiated with "e is an `iframe` element and the document is HTML");
  * text is concatenated left to right, depth first: document order.
-/
import SoupVerif.Model.Tree
namespace SoupVerif
namespace Spec

mutual
/-- The text a node contributes to an ancestor. -/
def textOfNode (cut : Elem → Bool) : Node → Str
  | .str .text s => s
  | .str _ _ => []
  | .elem e kids => if cut e then [] else textOfKids cut kids
/-- The text a list of siblings contributes, left to right. -/
def textOfKids (cut : Elem → Bool) : List Node → Str
  | [] => []
  | k :: ks => textOfNode cut k ++ textOfKids cut ks
end

/-- The text content of an element: the concatenation, in document order, of the text nodes among
    its descendants.  (A string node has no descendants.) -/
def textOf (cut : Elem → Bool) : Node → Str
  | .elem e kids => if cut e then [] else textOfKids cut kids
  | .str _ _ => []

/-- The payload of a direct text child. -/
def ownTextOfChild : Node → Option Str
  | .str .text s => some s
  | _ => none

/-- The text nodes that are direct children of an element, each on its own. -/
def ownTexts (cut : Elem → Bool) : Node → List Str
  | .elem e kids => if cut e then [] else kids.filterMap ownTextOfChild
  | .str _ _ => []

/-- `t` occurs in `s` (as a contiguous run of code points). -/
def occursIn (t s : Str) : Prop := ∃ pre post, s = pre ++ t ++ post

/-- `:-soup-contains(t1, ...)`: some `ti` occurs in the text content. -/
def Contains (cut : Elem → Bool) (ts : List Str) (n : Node) : Prop :=
  ∃ t ∈ ts, occursIn t (textOf cut n)

/-- `:-soup-contains-own(t1, ...)`: some `ti` occurs within a single direct text child. -/
def ContainsOwn (cut : Elem → Bool) (ts : List Str) (n : Node) : Prop :=
  ∃ t ∈ ts, ∃ piece ∈ ownTexts cut n, occursIn t piece

/-- Executable substring test, written independently of `Py.isInfix`: try every split point. -/
def occursInB (t : Str) : Str → Bool
  | [] => t.isEmpty
  | c :: s => (t.isPrefixOf (c :: s)) || occursInB t s

def contains (cut : Elem → Bool) (ts : List Str) (n : Node) : Bool :=
  ts.any fun t => occursInB t (textOf cut n)

def containsOwn (cut : Elem → Bool) (ts : List Str) (n : Node) : Bool :=
  ts.any fun t => (ownTexts cut n).any fun piece => occursInB t piece

/-- CSS white space: space, tab, line feed, carriage return, form feed. -/
def isWs (c : Nat) : Bool := c == 0x20 || c == 0x09 || c == 0x0A || c == 0x0D || c == 0x0C

/-- A child that makes its parent non-empty: an element, or a text node with a character that is
    not white space. -/
def blocksEmpty : Node → Bool
  | .elem _ _ => true
  | .str .text s => s.any (fun c => !isWs c)
  | .str _ _ => false

/-- `:empty`: no element child and no text child containing a non-whitespace character. -/
def isEmptyElem (n : Node) : Bool := !(n.kids.any blocksEmpty)

/-- Prop form of `isEmptyElem`. -/
def IsEmptyElem (n : Node) : Prop :=
  ∀ k ∈ n.kids, (∀ e ks, k ≠ .elem e ks) ∧ (∀ s, k = .str .text s → ∀ c ∈ s, isWs c = true)

mutual
/-- Replace the payload of every special string (comment, CDATA, PI, declaration, doctype) by the
    empty string.  Text nodes, elements and the shape of the tree are kept. -/
def eraseSpecial : Node → Node
  | .elem e kids => .elem e (eraseSpecialKids kids)
  | .str .text s => .str .text s
  | .str k _ => .str k []
def eraseSpecialKids : List Node → List Node
  | [] => []
  | k :: ks => eraseSpecial k :: eraseSpecialKids ks
end

end Spec
end SoupVerif
