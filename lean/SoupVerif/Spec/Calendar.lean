/-
  First-principles specification of the proleptic Gregorian calendar and of ISO 8601 week
  numbering, for property C18 (`:in-range` / `:out-of-range` value validation).

  Nothing here is copied from the model (`SoupVerif.Model.Inputs`) or from the Python source:
  * year lengths are obtained by *adding up month lengths*, day numbers by *adding up year
    lengths* (plain recursion, no closed form);
  * weekdays come from the single anchor fact "0001-01-01 is a Monday";
  * ISO weeks come from ISO 8601's own wording: week 1 is the (Monday-to-Sunday) week that
    contains 4 January, and the last week of a year is the one containing 28 December.

  Everything is executable (`#eval`-able) and Mathlib-free.
-/
import SoupVerif.Model.Py
namespace SoupVerif
namespace Spec

/-- Gregorian leap-year rule: every 4th year, except every 100th, except every 400th. -/
def leap (y : Nat) : Bool :=
  if y % 400 = 0 then true
  else if y % 100 = 0 then false
  else y % 4 = 0

/-- Number of days of month `m` (1 = January … 12 = December) of year `y`; `0` for a month
    number outside `1..12`. -/
def daysInMonth (y m : Nat) : Nat :=
  match m with
  | 1 => 31
  | 2 => if leap y then 29 else 28
  | 3 => 31
  | 4 => 30
  | 5 => 31
  | 6 => 30
  | 7 => 31
  | 8 => 31
  | 9 => 30
  | 10 => 31
  | 11 => 30
  | 12 => 31
  | _ => 0

/-- Days of year `y` that precede the first day of month `m`:
    the sum of `daysInMonth y k` for `k = 1 … m-1`. -/
def daysBeforeMonth (y : Nat) : Nat → Nat
  | 0 => 0
  | 1 => 0
  | m + 2 => daysBeforeMonth y (m + 1) + daysInMonth y (m + 1)

/-- Length of year `y`: the sum of its twelve month lengths. -/
def daysInYear (y : Nat) : Nat := daysBeforeMonth y 13

/-- Days that precede 1 January of year `y`, counted from 0001-01-01:
    the sum of `daysInYear k` for `k = 1 … y-1`. -/
def daysBeforeYear : Nat → Nat
  | 0 => 0
  | 1 => 0
  | y + 2 => daysBeforeYear (y + 1) + daysInYear (y + 1)

/-- Ordinal day number of the date `y-m-d`, with 0001-01-01 ↦ 1 (the "Rata Die"). -/
def dayNumber (y m d : Nat) : Nat := daysBeforeYear y + daysBeforeMonth y m + d

/-- Weekday of day number `n`, Monday = 1 … Sunday = 7.
    Anchor: day number 1 (0001-01-01) is a Monday in the proleptic Gregorian calendar. -/
def weekday (n : Nat) : Nat := (n + 6) % 7 + 1

/-- A well-formed calendar date. -/
def validDate (y m d : Nat) : Prop := 1 ≤ y ∧ 1 ≤ m ∧ m ≤ 12 ∧ 1 ≤ d ∧ d ≤ daysInMonth y m

instance (y m d : Nat) : Decidable (validDate y m d) := by unfold validDate; infer_instance

/-! ### ISO 8601 weeks -/

/-- Day number of the Monday that starts ISO week 1 of year `y`:
    the Monday of the week containing 4 January of `y`. -/
def week1Monday (y : Nat) : Nat :=
  let jan4 := dayNumber y 1 4
  jan4 - (weekday jan4 - 1)

/-- ISO week-numbering year and ISO week number of the calendar date `y-m-d`. -/
def isoYearWeek (y m d : Nat) : Nat × Nat :=
  let n := dayNumber y m d
  if n < week1Monday y then
    -- the last days of the previous ISO year
    (y - 1, (n - week1Monday (y - 1)) / 7 + 1)
  else if week1Monday (y + 1) ≤ n then
    -- the first days of the next ISO year
    (y + 1, (n - week1Monday (y + 1)) / 7 + 1)
  else
    (y, (n - week1Monday y) / 7 + 1)

/-- ISO week number of the calendar date `y-m-d`. -/
def isoWeekOf (y m d : Nat) : Nat := (isoYearWeek y m d).2

/-- Number of ISO weeks of year `y`: the week number of 28 December, which always lies in the
    last week of its own ISO year. -/
def isoWeeksInYear (y : Nat) : Nat := isoWeekOf y 12 28

/-- "31 December of year `y` lies in ISO week 1 of year `y+1`". -/
def dec31InNextWeek1 (y : Nat) : Prop := isoYearWeek y 12 31 = (y + 1, 1)

instance (y : Nat) : Decidable (dec31InNextWeek1 y) := by unfold dec31InNextWeek1; infer_instance

/-! ### Well-formed value strings (HTML "valid … string" grammars) -/

/-- ASCII digit. -/
def digit (c : Nat) : Prop := 48 ≤ c ∧ c ≤ 57

/-- Value of a string of ASCII digits, most significant digit first. -/
def decimal : List Nat → Nat
  | [] => 0
  | c :: cs => (c - 48) * 10 ^ cs.length + decimal cs

/-- All code points are ASCII digits. -/
def digits (s : Str) : Prop := ∀ c ∈ s, digit c

/-- `YYYY…-MM-DD` (at least four year digits), denoting the numbers `y`, `m`, `d`. -/
def dateShape (s : Str) (y m d : Nat) : Prop :=
  ∃ ys ms ds : Str, s = ys ++ 45 :: (ms ++ 45 :: ds) ∧ digits ys ∧ digits ms ∧ digits ds ∧
    4 ≤ ys.length ∧ ms.length = 2 ∧ ds.length = 2 ∧
    y = decimal ys ∧ m = decimal ms ∧ d = decimal ds

/-- `YYYY…-MM`. -/
def monthShape (s : Str) (y m : Nat) : Prop :=
  ∃ ys ms : Str, s = ys ++ 45 :: ms ∧ digits ys ∧ digits ms ∧
    4 ≤ ys.length ∧ ms.length = 2 ∧ y = decimal ys ∧ m = decimal ms

/-- `YYYY…-Www`. -/
def weekShape (s : Str) (y w : Nat) : Prop :=
  ∃ ys ws : Str, s = ys ++ 45 :: 87 :: ws ∧ digits ys ∧ digits ws ∧
    4 ≤ ys.length ∧ ws.length = 2 ∧ y = decimal ys ∧ w = decimal ws

/-- `HH:MM`. -/
def timeShape (s : Str) (h mi : Nat) : Prop :=
  ∃ hs ms : Str, s = hs ++ 58 :: ms ∧ digits hs ∧ digits ms ∧
    hs.length = 2 ∧ ms.length = 2 ∧ h = decimal hs ∧ mi = decimal ms

/-- `YYYY…-MM-DDTHH:MM`. -/
def dateTimeShape (s : Str) (y m d h mi : Nat) : Prop :=
  ∃ ds ts : Str, s = ds ++ 84 :: ts ∧ dateShape ds y m d ∧ timeShape ts h mi

/-- HTML "valid date string": a real proleptic-Gregorian calendar day of a year ≥ 1. -/
def validDateStr (s : Str) (y m d : Nat) : Prop := dateShape s y m d ∧ validDate y m d

/-- HTML "valid month string". -/
def validMonthStr (s : Str) (y m : Nat) : Prop := monthShape s y m ∧ 1 ≤ y ∧ 1 ≤ m ∧ m ≤ 12

/-- HTML "valid week string": the week number is at most the number of ISO weeks of the year. -/
def validWeekStr (s : Str) (y w : Nat) : Prop :=
  weekShape s y w ∧ 1 ≤ y ∧ 1 ≤ w ∧ w ≤ isoWeeksInYear y

/-- HTML "valid time string" (the `HH:MM` form only, as accepted by the code). -/
def validTimeStr (s : Str) (h mi : Nat) : Prop := timeShape s h mi ∧ h ≤ 23 ∧ mi ≤ 59

/-- HTML "valid local date and time string" (the `T`-separated `HH:MM` form only). -/
def validDateTimeStr (s : Str) (y m d h mi : Nat) : Prop :=
  dateTimeShape s y m d h mi ∧ validDate y m d ∧ h ≤ 23 ∧ mi ≤ 59

/-! ### Numbers (HTML "valid floating-point number") -/

/-- Mantissa `m`, with integer digits `ip` and fraction digits `fp`:
    `digits`, `digits.digits` or `.digits` (never `digits.`). -/
def mantShape (m ip fp : Str) : Prop :=
  digits ip ∧ digits fp ∧ ((fp = [] ∧ ip ≠ [] ∧ m = ip) ∨ (fp ≠ [] ∧ m = ip ++ 46 :: fp))

/-- Exponent part `x` denoting `e`: empty, or `e`/`E`, an optional sign, and digits. -/
def expShape (x : Str) (e : Int) : Prop :=
  (x = [] ∧ e = 0) ∨
  ∃ c ed, (c = 101 ∨ c = 69) ∧ digits ed ∧ ed ≠ [] ∧
    ((x = c :: ed ∧ e = Int.ofNat (decimal ed)) ∨
     (x = c :: 43 :: ed ∧ e = Int.ofNat (decimal ed)) ∨
     (x = c :: 45 :: ed ∧ e = - Int.ofNat (decimal ed)))

/-- `s` is a valid floating-point number string denoting `(-1)^neg · mant · 10^exp`:
    optional `-`, mantissa, optional exponent; the fraction digits are folded into `mant`. -/
def numShape (s : Str) (neg : Bool) (mant : Nat) (exp : Int) : Prop :=
  ∃ m ip fp x : Str, ∃ e : Int,
    s = (if neg then [45] else []) ++ (m ++ x) ∧ mantShape m ip fp ∧ expShape x e ∧
    mant = decimal (ip ++ fp) ∧ exp = e - Int.ofNat fp.length

/-! ### Ranges -/

/-- "`v` is out of the range `[mn, mx]`" for a strict order `lt`; either bound may be absent.
    A missing (or invalid, hence unparsed) value is never out of range.  When `wrap` is set
    (times of day) and the minimum exceeds the maximum, the range wraps around midnight: it is
    `[mn, 24:00) ∪ [00:00, mx]`, so `v` is out of range iff it lies strictly between `mx` and
    `mn`. -/
def OutOfRange {α : Type} (lt : α → α → Prop) (wrap : Prop) (mn mx v : Option α) : Prop :=
  match v with
  | none => False
  | some x =>
    match mn, mx with
    | some a, some b =>
      (wrap ∧ lt b a → lt b x ∧ lt x a) ∧ (¬ (wrap ∧ lt b a) → lt x a ∨ lt b x)
    | some a, none => lt x a
    | none, some b => lt b x
    | none, none => False

end Spec
end SoupVerif
