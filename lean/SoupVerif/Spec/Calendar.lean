/-
  First-principles specification of the proleptic Gregorian calendar and of ISO 8601 week
  numbering, for property C18 (`:in-range` / `:out-of-range` value validation).

  Nothing here is copied from the model (`SoupVerif.Model.Inputs`) or from the Python source:
  * year lengths are obtained by *adding up month lengths*, day numbers by *adding up year
    lengths* (plain recursion, no closed form);
  * weekdays come from the single anchor fact "0001-01-01 is a Monday";
  * ISO weeks come from ISO 8601's own wording: week 1 is the (Monday-to-Sunday) week that
    contains 4 January, and the last week of a year is the one containing 28 December.

  Everything is executable (`#eval`-able) and Mathlib-free.
-/
import SoupVerif.Model.Py
namespace SoupVerif
namespace Spec

/-- Gregorian leap-year rule: every 4th year, except every 100th, except every 400th. -/
def leap (y : Nat) : Bool :=
  if y % 400 = 0 then true
  else if y % 100 = 0 then false
  else y % 4 = 0

/-- Number of days of month `m` (1 = January … 12 = December) of year `y`; `0` for a month
    number outside `1..12`. -/
def daysInMonth (y m : Nat) : Nat :=
  match m with
  | 1 => 31
  | 2 => if leap y then 29 else 28
  | 3 => 31
  | 4 => 30
  | 5 => 31
  | 6 => 30
  | 7 => 31
  | 8 => 31
  | 9 => 30
  | 10 => 31
  | 11 => 30
  | 12 => 31
  | _ => 0

/-- Days of year `y` that precede the first day of month `m`:
    the sum of `daysInMonth y k` for `k = 1 … m-1`. -/
def daysBeforeMonth (y : Nat) : Nat → Nat
  | 0 => 0
  | 1 => 0
  | m + 2 => daysBeforeMonth y (m + 1) + daysInMonth y (m + 1)

/-- Length of year `y`: the sum of its twelve month lengths. -/
def daysInYear (y : Nat) : Nat := daysBeforeMonth y 13

/-- Days that precede 1 January of year `y`, counted from 0001-01-01:
    the sum of `daysInYear k` for `k = 1 … y-1`. -/
def daysBeforeYear : Nat → Nat
  | 0 => 0
  | 1 => 0
  | y + 2 => daysBeforeYear (y + 1) + daysInYear (y + 1)

/-- Ordinal day number of the date `y-m-d`, with 0001-01-01 ↦ 1 (the "Rata Die"). -/
def dayNumber (y m d : Nat) : Nat := daysBeforeYear y + daysBeforeMonth y m + d

/-- Weekday of day number `n`, Monday = 1 … Sunday = 7.
    Anchor: day number 1 (0001-01-01) is a Monday in the proleptic Gregorian calendar. -/
def weekday (n : Nat) : Nat := (n + 6) % 7 + 1

/-- A well-formed calendar date. -/
def validDate (y m d : Nat) : Prop := 1 ≤ y ∧ 1 ≤ m ∧ m ≤ 12 ∧ 1 ≤ d ∧ d ≤ daysInMonth y m

instance (y m d : Nat) : Decidable (validDate y m d) := by unfold validDate; infer_instance

/-! ### ISO 8601 weeks -/

/-- Day number of the Monday that starts ISO week 1 of year `y`:
    the Monday of the week containing 4 January of `y`. -/
def week1Monday (y : Nat) : Nat :=
  let jan4 := dayNumber y 1 4
  jan4 - (weekday jan4 - 1)

/-- ISO week-numbering year and ISO week number of the calendar date `y-m-d`. -/
def isoYearWeek (y m d : Nat) : Nat × Nat :=
  let n := dayNumber y m d
  if n < week1Monday y then
    -- the last days of the previous ISO year
    (y - 1, (n - week1Monday (y - 1)) / 7 + 1)
  else if week1Monday (y + 1) ≤ n then
    -- the first days of the next ISO year
    (y + 1, (n - week1Monday (y + 1)) / 7 + 1)
  else
    (y, (n - week1Monday y) / 7 + 1)

/-- ISO week number of the calendar date `y-m-d`. -/
def isoWeekOf (y m d : Nat) : Nat := (isoYearWeek y m d).2

/-- Number of ISO weeks of year `y`: the week number of 28 December, which always lies in the
    last week of its own ISO year. -/
def isoWeeksInYear (y : Nat) : Nat := isoWeekOf y 12 28

/-- "31 December of year `y` lies in ISO week 1 of year `y+1`". -/
def dec31InNextWeek1 (y : Nat) : Prop := isoYearWeek y 12 31 = (y + 1, 1)

instance (y : Nat) : Decidable (dec31InNextWeek1 y) := by unfold dec31InNextWeek1; infer_instance

/-! ### Well-formed value strings (HTML "valid … string" grammars) -/

/-- ASCII digit. -/
def digit (c : Nat) : Prop := 48 ≤ c ∧ c ≤ 57

/-- Value of a string of ASCII digits, most significant digit first. -/
def decimal : List Nat → Nat
  | [] => 0
  | c :: cs => (c - 48) * 10 ^ cs.length + decimal cs

/-- HTML "valid date string" with the year/month/day it denotes:
    `YYYY…-MM-DD`, at least four year digits, year ≥ 1, a real calendar day. -/
def validDateStr (s : Str) (y m d : Nat) : Prop :=
  ∃ ys ms ds : Str, s = ys ++ 45 :: (ms ++ 45 :: ds) ∧
    (∀ c ∈ ys, digit c) ∧ (∀ c ∈ ms, digit c) ∧ (∀ c ∈ ds, digit c) ∧
    4 ≤ ys.length ∧ ms.length = 2 ∧ ds.length = 2 ∧
    y = decimal ys ∧ m = decimal ms ∧ d = decimal ds ∧ validDate y m d

/-- HTML "valid time string" (the `HH:MM` form only, as accepted by the code). -/
def validTimeStr (s : Str) (h mi : Nat) : Prop :=
  ∃ hs ms : Str, s = hs ++ 58 :: ms ∧
    (∀ c ∈ hs, digit c) ∧ (∀ c ∈ ms, digit c) ∧ hs.length = 2 ∧ ms.length = 2 ∧
    h = decimal hs ∧ mi = decimal ms ∧ h ≤ 23 ∧ mi ≤ 59

end Spec
end SoupVerif
