/-
  C01, specification side: the declarative reading of `:has()` (Selectors-4 §4.5, §3.6):
  a relative selector `k X` anchored at an element is the absolute selector `:scope k X` with
  `:scope` standing for the anchor; `:has(k X)` holds of the anchor when SOME element of the
  document matches that absolute selector.

  `Spec/Css.lean` states `:has` in the equivalent forward form (`satRel` / `satFwd`: follow the
  combinators from the anchor).  `Properties/C01Has.lean` proves the two forms equal at every
  element other than the document object, in a tree whose only document object is its top;
  `Properties/C01Sat.lean` also compares them on a concrete tree by `decide`.

  Mathlib-free and executable.
-/
import SoupVerif.Spec.Css
namespace SoupVerif
namespace Css

/-- `t` matches `:scope k0 X`, `:scope` being the element at the position of `anchor`. -/
def satScoped (c : Ctx) (anchor : Loc) (k0 : Comb) : Complex → Loc → Bool
  | .one cp, t => satCompound c t cp && (leftOf k0 t).any (fun a => a.same anchor)
  | .comb L k R, t => satCompound c t R && (leftOf k t).any (satScoped c anchor k0 L)

/-- All nodes of the tree with top `T`, in document order. -/
def treeNodes (T : Loc) : List Loc := T :: T.descendants (fun _ => true)

/-- `:has(k X)` at `anchor`, declaratively: some element of the tree matches `:scope k X`. -/
def satRelDeclarative (c : Ctx) (anchor : Loc) : RelSel → Bool
  | .mk k x => (treeNodes anchor.top).any (fun t => isElem t && satScoped c anchor k x t)

end Css
end SoupVerif
