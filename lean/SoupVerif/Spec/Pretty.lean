/-
  Independent vocabulary for C20 part B: "up to whitespace".
-/
import SoupVerif.Model.Pretty
namespace SoupVerif
namespace Spec

/-- Delete every code point that the environment's `\s` class contains. -/
def stripWs (env : Pretty.PrettyEnv) (l : Str) : Str := l.filter (fun c => !env.isSpace c)

end Spec
end SoupVerif
