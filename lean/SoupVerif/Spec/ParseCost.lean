/-
  C07, parser level — a cost measure for a whole `Parser.compile` run.

  What is counted: the work of the regular-expression engine that the parser model triggers.
  One call `pattern.match(s, i)` costs `matchCost env r s i = 1 + Rx.work env s r i`, where
  `Rx.work` (Spec/RegexCost.lean) is the number of sub-match attempts of an EXHAUSTIVE
  backtracking search — an upper bound of what the engine does when the match succeeds early, and
  exactly what it does when the match fails.

  * `matchTokenCost`, `nextTokenCost`: the calls `selector_iter` makes at one position — they follow
    the control flow of `Parser.matchToken` / `Parser.nextToken` exactly (`RE_WS_END`, then the token
    expressions in lexicon order up to and including the first that matches; in the
    `SpecialPseudoPattern` slot: the name expression, `css_unescape` of the name, and the ONE
    sub-pattern selected by the name).
  * `subCost`, `searchCost`, `parseValuesCost`, `parseAnBCost`, `parseAttributeCost`, `handlerCost`:
    the auxiliary expressions the handlers run on token text (`css_unescape` = `RE_CSS_ESC.sub` /
    `RE_CSS_STR_ESC.sub`, `RE_WS.search`, `RE_VALUES.finditer`, `RE_NTH.match`, and
    `RE_WS_BEGIN.search` on the definition of a custom selector that is about to be compiled).
    They mirror the recursion of the model functions (`subWith.go`, `Rx.searchFrom`,
    `parseValues.go`), one `matchCost` per `Rx.matchAt` the model function evaluates.
  * `iterCost`: one iteration of the `while True` loop = 1 + `nextTokenCost` + `handlerCost`.
  * `selRun`, `loopRun`: twins of `Parser.parseSelectors` / `Parser.parseLoop` — same recursion,
    same fuel — that return the accumulated weight alongside the result, for an arbitrary
    per-iteration weight `w pattern state`.  `w = 1` counts loop iterations (`compileSteps`),
    `w = iterCost` gives `compileCost`.  Nested lists (`:is(`, `:not(`, `:has(`, `:nth-child(… of S)`)
    and the definitions of custom selectors are included; a custom definition is parsed when it is
    first referenced, with the table threaded exactly as in the model, so it is charged once.
    `Lemmas/ParseCost` proves `(selRun …).1 = parseSelectors …` etc.
  * `compileCost` = `process_custom` (`RE_CUSTOM.match` and `css_unescape` per entry — all entries
    are charged, also when an earlier one raises) + `RE_WS_BEGIN.search(pattern)` + the loop.

  NOT counted: anything that is not regular-expression work (dictionary look-ups, list appends,
  `lower`, `freeze`, building the `re` objects of attribute selectors — `re.compile` of the
  escaped value is not a match).  The early exit of a successful match is not modelled (see above).

  No Mathlib.
-/
import SoupVerif.Model.ParserStep
import SoupVerif.Spec.RegexCost
set_option autoImplicit false
namespace SoupVerif
namespace ParseCost
open Rx SoupVerif.Parser ParserProgress

/-! ## Single engine calls -/

/-- Cost of one `r.match(s, i)`: the call itself plus the sub-match attempts of an exhaustive
    backtracking search. -/
def matchCost (env : CharEnv) (r : Rx) (s : Str) (i : Nat) : Nat := 1 + Rx.work env s r i

/-- Cost of `r.sub(f, s)`: one `matchCost` per `Rx.matchAt` that `Parser.subWith.go` evaluates
    (same recursion; the replacement function plays no role). -/
def subCost (env : CharEnv) (r : Rx) (s : Str) : Nat :=
  go (s.length + 1) 0
where
  go : Nat → Nat → Nat
    | 0, _ => 0
    | fuel + 1, i =>
      if i > s.length then 0 else
      matchCost env r s i +
      match Rx.matchAt env r s i with
      | some (j, _) =>
        if j > i then go fuel j
        else (match s[i]? with | some _ => go fuel (i + 1) | none => 0)
      | none => match s[i]? with
        | some _ => go fuel (i + 1)
        | none => 0

/-- Cost of `css_unescape(content, string)`. -/
def unescCost (env : CharEnv) (L : Lexicon) (content : Str) (string : Bool := false) : Nat :=
  subCost env (if string then L.reCssStrEsc else L.reCssEsc) content

/-- Cost of `Rx.searchFrom` (same recursion). -/
def searchFromCost (env : CharEnv) (r : Rx) (s : Str) : Nat → Nat → Nat
  | 0, _ => 0
  | fuel + 1, i =>
    matchCost env r s i +
    match Rx.matchAt env r s i with
    | some _ => 0
    | none => if i < s.length then searchFromCost env r s fuel (i + 1) else 0

/-- Cost of `r.search(s, i)`. -/
def searchCost (env : CharEnv) (r : Rx) (s : Str) (i : Nat := 0) : Nat :=
  searchFromCost env r s (s.length + 2 - i) i

/-! ## The tokenizer at one position -/

/-- Cost of `Parser.matchToken P i toks` (same recursion): every expression tried, up to and
    including the first that matches. -/
def matchTokenCost (P : PEnv) (i : Nat) : List (TokenRx × Bool) → Nat
  | [] => 0
  | (t, isSpecial) :: rest =>
    if isSpecial then
      matchCost P.env P.L.specialName.rx P.pattern i +
      match Rx.matchAt P.env P.L.specialName.rx P.pattern i with
      | some (_, caps) =>
        let raw := (Parser.group P.pattern P.L.specialName caps "name").getD []
        let nm := lower (cssUnescape P.env P.L raw)
        unescCost P.env P.L raw +
        match P.L.special.find? (fun e => e.1 == nm) with
        | some (_, sub) =>
          matchCost P.env sub.rx P.pattern i +
          (match Rx.matchAt P.env sub.rx P.pattern i with
           | some _ => 0
           | none => matchTokenCost P i rest)
        | none => matchTokenCost P i rest
      | none => matchTokenCost P i rest
    else
      matchCost P.env t.rx P.pattern i +
      match Rx.matchAt P.env t.rx P.pattern i with
      | some _ => 0
      | none => matchTokenCost P i rest

/-- Cost of `Parser.nextToken P i` (one step of `selector_iter`). -/
def nextTokenCost (P : PEnv) (i : Nat) : Nat :=
  if i + 1 > P.pattern.length then 0
  else
    matchCost P.env P.L.reWsEnd P.pattern i +
    (if (Rx.matchAt P.env P.L.reWsEnd P.pattern i).isSome then 0 else matchTokenCost P i P.L.tokens)

/-- Cost of `Parser.startIndex P` (`RE_WS_BEGIN.search(pattern)`: the expression is anchored, the
    model evaluates it at 0). -/
def startCost (P : PEnv) : Nat := matchCost P.env P.L.reWsBegin P.pattern 0

/-! ## The handlers -/

/-- Cost of unescaping one value of a `values` group (quoted or not), as `parseValues.valueOf` and
    `parseAttribute` do. -/
def valueUnescCost (env : CharEnv) (L : Lexicon) (v : Str) : Nat :=
  match v.head? with
  | some q => if q == 34 || q == 39 then unescCost env L (slice v 1 (v.length - 1)) true
              else unescCost env L v
  | none => unescCost env L v

/-- Cost of handling one match of `RE_VALUES` with captures `caps`: nothing for a separator
    (`split` group not empty), `css_unescape` of the `value` group otherwise. -/
def valueCostOf (P : PEnv) (values : Str) (caps : Caps) : Nat :=
  let isSplit := match Parser.group values P.L.reValues caps "split" with
    | some sp => !sp.isEmpty
    | none => false
  if isSplit then 0
  else match Parser.group values P.L.reValues caps "value" with
    | some v => valueUnescCost P.env P.L v
    | none => 0

/-- Cost of `Parser.parseValues P values` (same recursion as `parseValues.go`). -/
def parseValuesCost (P : PEnv) (values : Str) : Nat :=
  go (values.length + 1) 0
where
  go : Nat → Nat → Nat
    | 0, _ => 0
    | fuel + 1, i =>
      if i > values.length then 0 else
      searchCost P.env P.L.reValues.rx values i +
      match Rx.search P.env P.L.reValues.rx values i with
      | none => 0
      | some (_, j, caps) => valueCostOf P values caps + go fuel (if j > i then j else i + 1)

/-- Cost of `Parser.parseAnB P content`. -/
def parseAnBCost (P : PEnv) (content : Str) : Nat :=
  if content == "even".toStr then 0
  else if content == "odd".toStr then 0
  else matchCost P.env P.L.reNth.rx content 0

/-- The unescaped value of an attribute token, exactly as `Parser.parseAttribute` computes it. -/
def attrValue (P : PEnv) (t : Token) : Str :=
  let op := (t.group P "cmp").getD []
  if op.isEmpty then []
  else
    let raw := (t.group P "value").getD []
    match raw.head? with
    | some q => if q == 34 || q == 39 then cssUnescape P.env P.L (slice raw 1 (raw.length - 1)) true
                else cssUnescape P.env P.L raw
    | none => cssUnescape P.env P.L raw

/-- Cost of unescaping a namespace prefix group (`ns|`: the text without the final `|`), when
    the group is present and not empty. -/
def nsCost (P : PEnv) (g : Option Str) : Nat :=
  match g with
  | some n => if n.isEmpty then 0 else unescCost P.env P.L (n.take (n.length - 1))
  | none => 0

/-- Cost of `Parser.parseAttribute P t sel`: `css_unescape` of the namespace, the name and the
    value, and `RE_WS.search(value)`. -/
def parseAttributeCost (P : PEnv) (t : Token) : Nat :=
  let op := (t.group P "cmp").getD []
  let attrC := unescCost P.env P.L ((t.group P "attr_name").getD [])
  let valC : Nat := if op.isEmpty then 0 else valueUnescCost P.env P.L ((t.group P "value").getD [])
  nsCost P (t.group P "attr_ns") + attrC + valC + searchCost P.env P.L.reWs (attrValue P t)

/-- The `An+B` text of an `:nth-*` token, as the handler extracts it. -/
def nthContent (P : PEnv) (t : Token) : Str :=
  let isChild := match t.group P "pseudo_nth_child" with
    | some g => !g.isEmpty
    | none => false
  lower ((t.group P (if isChild then "nth_child" else "nth_type")).getD [])

/-- `CSSParser(text, custom=…).process_selectors()` for a custom selector that is still source
    text: `RE_WS_BEGIN.search` on the definition (the loop over the definition is counted by the
    twin).  Nothing for a compiled or an undefined one. -/
def defStartCost (P : PEnv) (v : Option CustomVal) : Nat :=
  match v with
  | some (.src text) => startCost ⟨P.env, P.L, P.B, text.map (fun c => if c == 0 then 0xFFFD else c)⟩
  | _ => 0

/-- Cost of the auxiliary expressions the handler of token `t` runs (the branches of
    `Parser.parseLoop` / `stepOf`, in the same order). -/
def handlerCost (P : PEnv) (t : Token) (s : LS) : Nat :=
  let key := t.name
  let nameC := unescCost P.env P.L ((t.group P "name").getD [])
  if key == "at_rule" then 0
  else if key == "amp" then 0
  else if key == "pseudo_class_custom" then
    let pseudo := lower (cssUnescape P.env P.L ((t.group P "name").getD []))
    nameC + defStartCost P (s.custom.get? pseudo)
  else if key == "pseudo_class" then nameC
  else if key == "pseudo_element" then 0
  else if key == "pseudo_contains" then nameC + parseValuesCost P ((t.group P "values").getD [])
  else if key == "pseudo_nth_type" || key == "pseudo_nth_child" then nameC + parseAnBCost P (nthContent P t)
  else if key == "pseudo_lang" then parseValuesCost P ((t.group P "values").getD [])
  else if key == "pseudo_dir" then 0
  else if key == "pseudo_close" then 0
  else if key == "combine" then 0
  else if key == "attribute" then parseAttributeCost P t
  else if key == "tag" then
    nsCost P (t.group P "tag_ns") + unescCost P.env P.L ((t.group P "tag_name").getD [])
  else if key == "class" || key == "id" then
    unescCost P.env P.L ((slice P.pattern t.start t.stop).drop 1)
  else 0

/-- The handler cost for the outcome of `nextToken`: nothing when the iterator is exhausted or
    raised. -/
def outcomeCost (P : PEnv) (s : LS) (r : M (Option Token)) : Nat :=
  match r with
  | .ok (some t) => handlerCost P t s
  | _ => 0

/-- Cost of one iteration of the `while True` loop of `parse_selectors` in state `s`: the
    iteration itself, the tokenizer at `s.pos`, and the handler of the token found there. -/
def iterCost (P : PEnv) (s : LS) : Nat :=
  1 + nextTokenCost P s.pos + outcomeCost P s (nextToken P s.pos)

/-! ## The twins of `parseSelectors` / `parseLoop` -/

/-- A per-iteration weight: the pattern being parsed and the loop state. -/
abbrev Weight := Str → LS → Nat

/-- Weight 1: counts loop iterations (= calls of `next(iselector)`). -/
def unitWeight : Weight := fun _ _ => 1

/-- The regular-expression work of one iteration. -/
def rxWeight (env : CharEnv) (L : Lexicon) (B : Builtins) : Weight :=
  fun pattern s => iterCost ⟨env, L, B, pattern⟩ s

mutual
/-- Twin of `Parser.parseSelectors`: the result, and the total weight of the loop iterations
    executed (including nested lists and custom-selector definitions). -/
def selRun (w : Weight) (env : CharEnv) (L : Lexicon) (B : Builtins) (pattern : Str) :
    Nat → Nat → Nat → Nat → Custom → M SelRes × Nat
  | 0, _, _, _, _ => (.error { kind := .pyBug "RecursionError", pattern := pattern, offset := 0 }, 0)
  | fuel + 1, pos, index, flags, custom =>
    let r := loopRun w env L B pattern fuel flags (initLS pos index flags custom)
    match r.1 with
    | .error e => (.error e, r.2)
    | .ok s => (finishSel env L B pattern flags s, r.2)
/-- Twin of `Parser.parseLoop`. -/
def loopRun (w : Weight) (env : CharEnv) (L : Lexicon) (B : Builtins) (pattern : Str) :
    Nat → Nat → LS → M LS × Nat
  | 0, _, s => (.ok s, 0)
  | fuel + 1, flags, s =>
    match stepOf env L B pattern flags s with
    | .done r => (r, w pattern s)
    | .cont s' =>
      let r := loopRun w env L B pattern fuel flags s'
      (r.1, w pattern s + r.2)
    | .nest pat pos idx fl c k =>
      let r1 := selRun w env L B pat fuel pos idx fl c
      match r1.1 with
      | .error e => (.error e, w pattern s + r1.2)
      | .ok x =>
        let r2 := loopRun w env L B pattern fuel flags (k x)
        (r2.1, w pattern s + r1.2 + r2.2)
end

/-! ## `compile` -/

/-- Cost of `process_custom`: `RE_CUSTOM.match(name)` and `css_unescape(name)` for every entry. -/
def customCost (env : CharEnv) (L : Lexicon) (custom : List (Str × Str)) : Nat :=
  (custom.map fun e => matchCost env L.reCustom (lower e.1) 0 + unescCost env L (lower e.1)).sum

/-- Twin of `Parser.compile` (same fuel): result and total weight of the loop iterations. -/
def compileRun (w : Weight) (env : CharEnv) (L : Lexicon) (B : Builtins) (pattern : Str)
    (custom : List (Str × Str)) (parseFlags : Nat := 0) : M SelList × Nat :=
  match processCustom env L custom with
  | .error e => (.error e, 0)
  | .ok c =>
    let pat := pattern.map (fun ch => if ch == 0 then 0xFFFD else ch)
    let P : PEnv := ⟨env, L, B, pat⟩
    let r := selRun w env L B pat (2 * pat.length + 4 * (custom.foldl (fun n e => n + e.2.length + 2) 0) + 8)
      (startIndex P) 0 parseFlags c
    match r.1 with
    | .error e => (.error e, r.2)
    | .ok x => (.ok x.1, r.2)

/-- Number of iterations of the `while True` loop of `parse_selectors` (= calls of
    `next(iselector)`, the final `StopIteration` included) in a whole `compile`, nested lists and
    custom-selector definitions included. -/
def compileSteps (env : CharEnv) (L : Lexicon) (B : Builtins) (pattern : Str)
    (custom : List (Str × Str)) (parseFlags : Nat := 0) : Nat :=
  (compileRun unitWeight env L B pattern custom parseFlags).2

/-- Regular-expression work of a whole `compile`. -/
def compileCost (env : CharEnv) (L : Lexicon) (B : Builtins) (pattern : Str)
    (custom : List (Str × Str)) (parseFlags : Nat := 0) : Nat :=
  customCost env L custom +
  startCost ⟨env, L, B, pattern.map (fun ch => if ch == 0 then 0xFFFD else ch)⟩ +
  (compileRun (rxWeight env L B) env L B pattern custom parseFlags).2

/-! ## What the bound is stated in -/

/-- All regular expressions of a lexicon (the ones the parser can hand to the engine). -/
def lexRegexes (L : Lexicon) : List Rx :=
  (L.tokens.filter (fun t => !t.2)).map (·.1.rx) ++ [L.specialName.rx] ++ L.special.map (·.2.rx) ++
    [L.reCssEsc, L.reCssStrEsc, L.reNth.rx, L.reValues.rx, L.reWs, L.reWsBegin, L.reWsEnd, L.reCustom]

/-- Size of the input of `compile`: the pattern, and names and definitions of the custom
    selectors (one extra unit per entry). -/
def inputSize (pattern : Str) (custom : List (Str × Str)) : Nat :=
  pattern.length + (custom.map fun e => e.1.length + e.2.length + 1).sum

end ParseCost
end SoupVerif
