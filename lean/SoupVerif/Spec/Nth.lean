/-
  Specification of `:nth-child(An+B [of S])` and its relatives (C02), independent of the loops of
  `CSSMatch.match_nth`.

  `posOf`    : the 1-based position of the subject element among the counted siblings.
  `nthSat`   : `∃ n ≥ 0, A*n + B = pos`   (the CSS definition).
  `nthSatB`  : an executable decision procedure for `nthSat`, proved equivalent below.

  No Mathlib; everything here is executable (apart from the `Prop`).
-/
namespace SoupVerif
namespace NthSpec

/-- 1-based index of the first node satisfying `isEl` among the nodes of `walk` that satisfy
    `counted`; `none` when there is no such node. -/
def posOf {α} (counted isEl : α → Bool) (walk : List α) : Option Nat :=
  ((walk.filter counted).findIdx? isEl).map (· + 1)

/-- CSS: `An+B` selects position `pos` iff some integer `n ≥ 0` has `A*n+B = pos`. -/
def nthSat (a b : Int) (pos : Nat) : Prop := ∃ n : Nat, a * (n : Int) + b = (pos : Int)

/-- Executable twin of `nthSat`. -/
def nthSatB (a b : Int) (pos : Nat) : Bool :=
  if a = 0 then decide (b = (pos : Int))
  else if 0 < a then decide (b ≤ (pos : Int) ∧ ((pos : Int) - b) % a = 0)
  else decide ((pos : Int) ≤ b ∧ (b - (pos : Int)) % (-a) = 0)

/-- For a positive modulus: `0 ≤ d` and `a ∣ d` iff `d = a * n` for a natural `n`. -/
theorem exists_nat_mul_iff (a d : Int) (ha : 0 < a) :
    (0 ≤ d ∧ d % a = 0) ↔ ∃ n : Nat, a * (n : Int) = d := by
  constructor
  · rintro ⟨hd, hm⟩
    have hdvd : a ∣ d := Int.dvd_of_emod_eq_zero hm
    obtain ⟨k, hk⟩ := hdvd
    have hk0 : 0 ≤ k := by
      rcases Int.lt_or_le k 0 with hneg | hge
      · exfalso
        have h1 : a * k < 0 := Int.mul_neg_of_pos_of_neg ha hneg
        omega
      · exact hge
    refine ⟨k.toNat, ?_⟩
    rw [Int.toNat_of_nonneg hk0]
    exact hk.symm
  · rintro ⟨n, hn⟩
    subst hn
    refine ⟨Int.mul_nonneg (Int.le_of_lt ha) (Int.natCast_nonneg n), ?_⟩
    exact Int.mul_emod_right a n

theorem nthSatB_iff (a b : Int) (pos : Nat) : nthSatB a b pos = true ↔ nthSat a b pos := by
  unfold nthSatB nthSat
  by_cases h0 : a = 0
  · subst h0
    simp only [if_true, decide_eq_true_eq, Int.zero_mul, Int.zero_add]
    constructor
    · intro h; exact ⟨0, h⟩
    · rintro ⟨_, h⟩; exact h
  · rw [if_neg h0]
    by_cases hpos : 0 < a
    · rw [if_pos hpos, decide_eq_true_eq]
      have key := exists_nat_mul_iff a ((pos : Int) - b) hpos
      constructor
      · rintro ⟨h1, h2⟩
        obtain ⟨n, hn⟩ := key.mp ⟨by omega, h2⟩
        exact ⟨n, by omega⟩
      · rintro ⟨n, hn⟩
        obtain ⟨h1, h2⟩ := key.mpr ⟨n, by omega⟩
        exact ⟨by omega, h2⟩
    · rw [if_neg hpos, decide_eq_true_eq]
      have hneg : 0 < -a := by omega
      have key := exists_nat_mul_iff (-a) (b - (pos : Int)) hneg
      constructor
      · rintro ⟨h1, h2⟩
        obtain ⟨n, hn⟩ := key.mp ⟨by omega, h2⟩
        rw [Int.neg_mul] at hn
        exact ⟨n, by omega⟩
      · rintro ⟨n, hn⟩
        obtain ⟨h1, h2⟩ := key.mpr ⟨n, by rw [Int.neg_mul]; omega⟩
        exact ⟨by omega, h2⟩

instance (a b : Int) (pos : Nat) : Decidable (nthSat a b pos) :=
  decidable_of_iff _ (nthSatB_iff a b pos)

end NthSpec
end SoupVerif
