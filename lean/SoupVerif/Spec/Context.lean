/-
  Independent vocabulary for C20 part A: line-break units, line numbers, line starts, line
  texts and the expected shape of the context block.  Nothing here mentions the model
  (`Model/Context.lean`); each function is its own left-to-right scan of the pattern in which
  `\r\n` is consumed as ONE unit and a lone `\n` or lone `\r` is a unit of its own.
-/
import SoupVerif.Model.Py
namespace SoupVerif
namespace Spec
namespace Ctx

/-- End offsets (exclusive) of the line-break units of `s`, left to right, where `s` is the
    suffix that starts at offset `pos`. -/
def breakEndsFrom : Nat → Str → List Nat
  | _, [] => []
  | pos, c :: rest =>
    if c = 13 then
      match rest with
      | d :: rest' =>
        if d = 10 then (pos + 2) :: breakEndsFrom (pos + 2) rest'
        else (pos + 1) :: breakEndsFrom (pos + 1) (d :: rest')
      | [] => [pos + 1]
    else if c = 10 then (pos + 1) :: breakEndsFrom (pos + 1) rest
    else breakEndsFrom (pos + 1) rest

/-- End offsets of all line-break units of the pattern. -/
def breakEnds (p : Str) : List Nat := breakEndsFrom 0 p

/-- Number of line-break units that END at or before offset `i`.  An offset that points at the
    `\n` of a `\r\n` pair does not have that pair before it (the pair ends at `i + 1`). -/
def breaksBefore (p : Str) (i : Nat) : Nat := ((breakEnds p).filter (· ≤ i)).length

/-- Offset just after the last line-break unit that ends at or before `i`; `0` if there is none. -/
def lineStart (p : Str) (i : Nat) : Nat := ((breakEnds p).filter (· ≤ i)).getLast?.getD 0

/-- The same count as `breaksBefore`, as a direct recursion over the string (the offset is
    counted down while the string is consumed). -/
def breaksBeforeRec : Str → Nat → Nat
  | [], _ => 0
  | c :: rest, i =>
    if c = 13 then
      match rest with
      | d :: rest' =>
        if d = 10 then (if 2 ≤ i then 1 + breaksBeforeRec rest' (i - 2) else 0)
        else (if 1 ≤ i then 1 + breaksBeforeRec (d :: rest') (i - 1) else 0)
      | [] => if 1 ≤ i then 1 else 0
    else if c = 10 then (if 1 ≤ i then 1 + breaksBeforeRec rest (i - 1) else 0)
    else (if 1 ≤ i then breaksBeforeRec rest (i - 1) else 0)

/-- Put `a` in front of the first element. -/
def prependFirst (a : Str) : List Str → List Str
  | [] => [a]
  | t :: ts => (a ++ t) :: ts

/-- The lines of the pattern with the line-break units removed.  There is always a last line
    (possibly empty): `lines "a\n" = ["a", ""]`, `lines "" = [""]`. -/
def lines : Str → List Str
  | [] => [[]]
  | c :: rest =>
    if c = 13 then
      match rest with
      | d :: rest' => if d = 10 then [] :: lines rest' else [] :: lines (d :: rest')
      | [] => [] :: lines []
    else if c = 10 then [] :: lines rest
    else prependFirst [c] (lines rest)

/-- Number of lines of the pattern. -/
def numLines (p : Str) : Nat := (lines p).length

/-- Offset `i` points at the `\n` of a `\r\n` pair. -/
def inCrLf (p : Str) (i : Nat) : Bool :=
  decide (0 < i) && p[i - 1]? == some 13 && p[i]? == some 10

/-- `n` spaces followed by `^`. -/
def caretLine (n : Nat) : Str := List.replicate n 32 ++ [94]

/-- The rendered block for a pattern of several lines: line number `k` (0-based) gets the
    prefix `--> ` and is followed by the caret line; every other line gets four spaces. -/
def render (caretL : Str) : Nat → List Str → List Str
  | _, [] => []
  | 0, t :: ts => ([45, 45, 62, 32] ++ t) :: caretL :: ts.map ([32, 32, 32, 32] ++ ·)
  | k + 1, t :: ts => ([32, 32, 32, 32] ++ t) :: render caretL k ts

/-- The context block that the property describes for offset `i` of pattern `p`
    (`line`/`col` are the line and column the property prescribes):
      * a pattern without line break: the pattern, a newline, `col - 1` spaces, `^`;
      * otherwise the lines joined by `\n`, the line of `i` marked with `--> `, all others
        indented by four spaces, and after the marked line a caret line with `4 + col - 1`
        spaces -- ONE LESS when `i` points at the `\n` of a `\r\n` pair. -/
def expectedContext (p : Str) (i : Nat) : Str :=
  let line0 := breaksBefore p i
  let col := i - lineStart p i + 1
  if numLines p = 1 then
    p ++ [10] ++ caretLine (col - 1)
  else
    joinWith [10]
      (render (caretLine (4 + col - 1 - (if inCrLf p i then 1 else 0))) line0 (lines p))

end Ctx
end Spec
end SoupVerif
