/-
  Spelling choices of CSS selector text (property C09): the ways one token sequence may be written.
  Executable, Mathlib-free definitions only; the theorems are in `Lemmas/Spelling.lean` and
  `Properties/C09.lean`.

    * `mixCase`            ASCII case variants of a keyword
    * `EscForm`, `renderIdentWith`, `validForms`, `headOk`
                           every way to write the code points of an identifier: literally, as
                           `\c`, or as `\` + 1..6 hex digits (any padding, any letter case) with an
                           optional terminating whitespace unit (space, tab, LF, FF, CR, CRLF)
    * `skipWSC`, `isGap`   hand scanner for `WSC*` (whitespace and complete `/* ... */` comments)
    * `unescapeString`     hand model of `css_unescape(content, string=True)`, i.e. of
                           `RE_CSS_STR_ESC.sub(replace, content)`
    * `StrPiece`, `renderStrWith`, `validStr`
                           every way to write the code points of a quoted string (the forms above
                           plus line continuations `\` NEWLINE, which contribute nothing)
    * `renderStringBody`, `renderString`
                           a canonical quoted rendering of a value
    * `scanStrBody`        hand scanner for the quoted alternative of `VALUE` after the opening quote

  TIE TO THE SOURCE.  `skipWSC`, `unescapeString` and `scanStrBody` are hand-written readings of
  the regular expressions `WSC*`, `RE_CSS_STR_ESC` and `VALUE` of css_parser.py.  Like the hand
  scanners of `Model/Escape.lean` (`scanIdent`, `cssUnescape`), they are tied to the generated
  regexes (`Generated/Regexes.lean`, run by the engine model `Model/Regex.lean`) and to CPython by
  the DIFFERENTIAL HARNESS (harness/props/c09.py, harness/spell.py), NOT by proof.

  Python text modelled (css_parser.py):

    NEWLINE            = (?:\r\n|(?!\r\n)[\n\f\r])
    WS                 = (?:[ \t]|NEWLINE)
    COMMENTS           = (?:/\*[^*]*\*+(?:[^/*][^*]*\*+)*/)          -- `/*` up to the FIRST `*/`
    WSC                = (?:WS|COMMENTS)
    CSS_STRING_ESCAPES = (?:\\(?:(?:[a-f0-9]{1,5}(?![a-f0-9])|[a-f0-9]{6})(?:WS|(?![ \t\r\n\f]))
                              |[^\r\n\fa-f0-9]|NEWLINE))
    VALUE              = (?:"(?:CSS_STRING_ESCAPES|[^\\"\r\n\f])*?"|'(?:CSS_STRING_ESCAPES|[^\\'\r\n\f])*?'|IDENTIFIER)
    RE_CSS_STR_ESC     = (?:(\\[a-f0-9]{1,6}WS?)|(\\[^\r\n\f])|(\\\Z)|(\\NEWLINE))     flags re.I
-/
import SoupVerif.Model.Escape
namespace SoupVerif
namespace Spelling
open Escape

/-! ### Letter case -/

/-- ASCII upper-casing of one code point. -/
def upperCp (c : Nat) : Nat := if 97 ≤ c ∧ c ≤ 122 then c - 32 else c

/-- `mixCase mask kw`: upper-case the ASCII letters of `kw` at the positions where `mask` is
    `true` (positions beyond the end of `mask` are left alone).  With `kw` in lower case and `mask`
    ranging over all lists this enumerates every case variant of `kw`. -/
def mixCase : List Bool → Str → Str
  | _, [] => []
  | [], c :: cs => c :: cs
  | b :: m, c :: cs => (if b then upperCp c else c) :: mixCase m cs

/-! ### Ways to write one code point of an identifier -/

/-- The whitespace unit `WS` that may terminate a hex escape. -/
inductive WsUnit where
  | space | tab | lf | ff | cr | crlf
  deriving DecidableEq, Repr

def WsUnit.text : WsUnit → Str
  | .space => [32]
  | .tab => [9]
  | .lf => [10]
  | .ff => [12]
  | .cr => [13]
  | .crlf => [13, 10]

def wsText : Option WsUnit → Str
  | none => []
  | some u => u.text

/-- How one code point `c` is written.
    * `lit`  : `c` itself;
    * `bs`   : `\c`;
    * `hex digits mask ws` : `\`, then the hexadecimal numeral of `c` left-padded with `0` to
      `digits` digits, letters upper-cased where `mask` says so, then the whitespace unit `ws`
      if any. -/
inductive EscForm where
  | lit
  | bs
  | hex (digits : Nat) (mask : List Bool) (ws : Option WsUnit)
  deriving DecidableEq, Repr

/-- The digits of a hex escape. -/
def hexText (c digits : Nat) (mask : List Bool) : Str :=
  mixCase mask (List.replicate (digits - (hexDigits c).length) 48 ++ hexDigits c)

def renderForm (c : Nat) : EscForm → Str
  | .lit => [c]
  | .bs => [92, c]
  | .hex digits mask ws => 92 :: (hexText c digits mask ++ wsText ws)

/-- The text of an identifier whose code points are written in the given forms. -/
def renderIdentWith : List (Nat × EscForm) → Str
  | [] => []
  | (c, f) :: rest => renderForm c f ++ renderIdentWith rest

/-- The value spelled. -/
def valueOf (forms : List (Nat × EscForm)) : Str := forms.map (·.1)

/-- May a hex escape of `digits` digits with terminator `ws` be followed by `next`
    (`none` = end of input)?
    * with a terminator, anything may follow, except that a lone CR must not be followed by LF
      (CRLF would be read as one unit);
    * without one, what follows must not be whitespace (it would be swallowed) and, unless all
      six digits are present, must not be a hex digit (it would be read as part of the number). -/
def termOk (digits : Nat) (ws : Option WsUnit) (next : Option Nat) : Bool :=
  match ws with
  | some .cr => next != some 10
  | some _ => true
  | none =>
    match next with
    | none => true
    | some n => !isCssWs n && (digits == 6 || !isHex n)

/-- The side conditions of the hex form that do not depend on the context. -/
def hexOk (c digits : Nat) : Bool := (hexDigits c).length ≤ digits && digits ≤ 6

/-- Is `f` a correct way to write `c` inside an identifier (not at its head), when the next
    character of the text is `next`? -/
def formOk (c : Nat) (f : EscForm) (next : Option Nat) : Bool :=
  match f with
  | .lit => identContChar c
  | .bs => !isHex c && c != 10 && c != 13 && c != 12
  | .hex digits _ ws => hexOk c digits && termOk digits ws next

/-- `validForms forms r`: every form is admissible in its context, the text after the identifier
    being `r`. -/
def validForms : List (Nat × EscForm) → Str → Bool
  | [], _ => true
  | (c, f) :: rest, r => formOk c f (renderIdentWith rest ++ r).head? && validForms rest r

/-- The identifier is the whole content (nothing follows). -/
def Valid (forms : List (Nat × EscForm)) : Prop := validForms forms [] = true

instance (forms : List (Nat × EscForm)) : Decidable (Valid forms) := by unfold Valid; infer_instance

def isLit : EscForm → Bool
  | .lit => true
  | _ => false

def isHexForm : EscForm → Bool
  | .hex _ _ _ => true
  | _ => false

/-- A hex escape denotes `c` only for `0 < c ≤ 0x10FFFF` (`\0` and numbers above U+10FFFF decode
    to U+FFFD); the other forms have no such restriction. -/
def rangeOk (c : Nat) (f : EscForm) : Bool := !isHexForm f || (0 < c && c ≤ 0x10FFFF)

/-- May `(c, f)` stand where the grammar wants an identifier-start character or an escape? -/
def startOk (c : Nat) (f : EscForm) : Bool :=
  match f with
  | .lit => identStartChar c
  | _ => true

/-- The head rule of `IDENTIFIER`, `(?:-?(?:[^...]|CSS_ESCAPES)|--)`: the first form is a start
    character or an escape, or a literal `-` followed by one of these, or `--`. -/
def headOk : List (Nat × EscForm) → Bool
  | [] => false
  | (c, f) :: rest =>
    if c == 45 && isLit f then
      match rest with
      | [] => false
      | (c2, f2) :: _ => startOk c2 f2 || (c2 == 45 && isLit f2)
    else startOk c f

/-! ### Whitespace and comments: `WSC*` -/

/-- The text after the first `*/`, if there is one. -/
def dropComment : Str → Option Str
  | [] => none
  | a :: rest => if a == 42 && rest.head? == some 47 then some rest.tail else dropComment rest

/-- Fuelled worker of `skipWSC`; every step removes at least one character. -/
def skipWSCF : Nat → Str → Str
  | 0, s => s
  | f + 1, s =>
    match s with
    | [] => []
    | c :: cs =>
      if isCssWs c then skipWSCF f cs
      else if c == 47 && cs.head? == some 42 then
        match dropComment cs.tail with
        | some t => skipWSCF f t
        | none => c :: cs
      else c :: cs

/-- `WSC*` at the head of `s`, greedy: drop a maximal run of whitespace characters and complete
    comments.  An unterminated `/*` is not skipped. -/
def skipWSC (s : Str) : Str := skipWSCF s.length s

/-- `g` consists of whitespace and complete comments only (`WSC*` matches all of `g`). -/
def isGap (g : Str) : Prop := skipWSC g = []

instance (g : Str) : Decidable (isGap g) := by unfold isGap; infer_instance

/-- `r` does not begin with a whitespace character nor with `/*`. -/
def noGapStart (r : Str) : Bool :=
  match r with
  | [] => true
  | c :: cs => !isCssWs c && !(c == 47 && cs.head? == some 42)

/-! ### `css_unescape(content, string=True)` -/

/-- `RE_CSS_STR_ESC.sub(replace, content)`, scanning left to right; `unescapeStringAux k s` first
    drops `k` characters (the remainder of a match already replaced).
      group 1  `\` hex{1,6} WS?   ↦ the code point (U+FFFD for 0 and above U+10FFFF)
      group 2  `\` [^\r\n\f]      ↦ that character
      group 3  `\` at the end     ↦ U+FFFD
      group 4  `\` NEWLINE        ↦ nothing (line continuation; CRLF is one unit) -/
def unescapeStringAux : Nat → Str → Str
  | _, [] => []
  | k + 1, _ :: cs => unescapeStringAux k cs
  | 0, c :: cs =>
    if c != 92 then c :: unescapeStringAux 0 cs
    else match cs with
      | [] => [0xFFFD]
      | d :: ds =>
        if isHex d then
          let k := hexRun 6 cs
          fixCp (hexVal (cs.take k)) :: unescapeStringAux (k + wsLen (cs.drop k)) cs
        else if d == 13 && ds.head? == some 10 then unescapeStringAux 2 cs
        else if d == 10 || d == 13 || d == 12 then unescapeStringAux 1 cs
        else d :: unescapeStringAux 1 cs

/-- `css_unescape(content, True)`. -/
def unescapeString (s : Str) : Str := unescapeStringAux 0 s

/-! ### Ways to write a quoted string -/

/-- One piece of the body of a quoted string: a code point in one of the forms above, or a line
    continuation (`\` followed by a newline unit), which contributes nothing to the value. -/
inductive StrPiece where
  | ch (c : Nat) (f : EscForm)
  | cont (nl : WsUnit)
  deriving DecidableEq, Repr

def renderPiece : StrPiece → Str
  | .ch c f => renderForm c f
  | .cont nl => 92 :: nl.text

def renderStrWith : List StrPiece → Str
  | [] => []
  | p :: rest => renderPiece p ++ renderStrWith rest

def pieceValue : StrPiece → Str
  | .ch c _ => [c]
  | .cont _ => []

/-- The value spelled by the body. -/
def strValue : List StrPiece → Str
  | [] => []
  | p :: rest => pieceValue p ++ strValue rest

def pieceRangeOk : StrPiece → Bool
  | .ch c f => rangeOk c f
  | .cont _ => true

def isNewlineUnit : WsUnit → Bool
  | .lf | .ff | .cr | .crlf => true
  | _ => false

/-- Is the piece admissible inside a string quoted with `q`, the next character being `next`?
    A literal character must not be the backslash, the quote, or a newline character. -/
def pieceOk (q : Nat) (p : StrPiece) (next : Option Nat) : Bool :=
  match p with
  | .ch c .lit => c != 92 && c != q && c != 10 && c != 13 && c != 12
  | .ch c f => formOk c f next
  | .cont nl => isNewlineUnit nl && (nl != .cr || next != some 10)

def validStr (q : Nat) : List StrPiece → Str → Bool
  | [], _ => true
  | p :: rest, r => pieceOk q p (renderStrWith rest ++ r).head? && validStr q rest r

/-! ### A canonical quoted rendering -/

/-- One character of a quoted string: newline characters as hex escape plus space, the backslash
    and the quote character with a backslash, everything else literally. -/
def strEscChar (q c : Nat) : Str :=
  if c == 10 || c == 13 || c == 12 then 92 :: (hexDigits c ++ [32])
  else if c == 92 || c == q then [92, c]
  else [c]

def renderStringBody (q : Nat) : Str → Str
  | [] => []
  | c :: cs => strEscChar q c ++ renderStringBody q cs

/-- `q` + body + `q`. -/
def renderString (q : Nat) (v : Str) : Str := q :: (renderStringBody q v ++ [q])

/-! ### The quoted alternative of `VALUE` -/

/-- Length of the match of `CSS_STRING_ESCAPES` at the head of `s` (which begins with `\`). -/
def strEscLen (s : Str) : Option Nat :=
  match s with
  | [] => none
  | b :: cs =>
    if b != 92 then none
    else match cs with
      | [] => none
      | d :: _ =>
        if isHex d then
          let k := hexRun 6 cs
          some (1 + k + wsLen (cs.drop k))
        else if d == 10 || d == 13 || d == 12 then some (1 + wsLen cs)
        else some 2

/-- After the opening quote `q`: `(?:CSS_STRING_ESCAPES|[^\\q\r\n\f])*?q`.  Returns the body and the
    text after the closing quote; `scanStrBody q k s` first copies `k` characters. -/
def scanStrBody (q : Nat) : Nat → Str → Option (Str × Str)
  | _, [] => none
  | k + 1, c :: cs => (scanStrBody q k cs).map fun r => (c :: r.1, r.2)
  | 0, c :: cs =>
    if c == q then some ([], cs)
    else if c == 92 then
      match strEscLen (c :: cs) with
      | some n => (scanStrBody q (n - 1) cs).map fun r => (c :: r.1, r.2)
      | none => none
    else if c == 10 || c == 13 || c == 12 then none
    else (scanStrBody q 0 cs).map fun r => (c :: r.1, r.2)

/-- The quoted alternatives of `VALUE` at the head of `s`: `(quote, body, rest)`. -/
def scanString (s : Str) : Option (Nat × Str × Str) :=
  match s with
  | [] => none
  | q :: cs => if q == 34 || q == 39 then (scanStrBody q 0 cs).map fun r => (q, r.1, r.2) else none

/-! ### Examples (evaluated by `decide`) -/

-- " /* x */\n" is a gap; "/* x" and "/*/" are not; "/**/" is
example : isGap " /* x */\n".toStr := by decide
example : ¬ isGap "/* x".toStr := by decide
example : ¬ isGap "/*/".toStr := by decide
example : isGap "/**/".toStr := by decide
example : isGap "/***/".toStr := by decide
example : isGap "/* * / **/\r\n\t\x0c".toStr := by decide
example : skipWSC " /* a */ /* b".toStr = "/* b".toStr := by decide
example : skipWSC "/**/*/".toStr = "*/".toStr := by decide
example : skipWSC "  > b".toStr = "> b".toStr := by decide
-- case variants
example : mixCase [true, false, true] "even".toStr = "EvEn".toStr := by decide
example : mixCase [true, true, true, true, true] ":nth-child".toStr = ":NTH-child".toStr := by decide
-- `1` written six ways
example : renderIdentWith [(97, .lit), (49, .lit)] = "a1".toStr := by decide
example : renderIdentWith [(97, .lit), (49, .hex 2 [] (some .space))] = "a\\31 ".toStr := by decide
example : renderIdentWith [(97, .lit), (49, .hex 6 [] none)] = "a\\000031".toStr := by decide
example : renderIdentWith [(0x2fa, .hex 3 [false, false, true] (some .crlf))] = "\\2fA\r\n".toStr := by
  decide
example : Valid [(97, .lit), (49, .hex 2 [] none), (43, .bs)] := by decide
-- `\31` directly followed by the hex digit `a`, or by a literal space, is not a spelling of `1` …
example : ¬ Valid [(49, .hex 2 [] none), (97, .lit)] := by decide
-- … unless all six digits are written
example : Valid [(49, .hex 6 [] none), (97, .lit)] := by decide
example : headOk [(45, .lit), (49, .hex 2 [] (some .space))] = true := by decide
example : headOk [(45, .lit), (49, .lit)] = false := by decide
example : headOk [(45, .lit)] = false := by decide
example : headOk [(45, .lit), (45, .lit)] = true := by decide
-- strings
example : unescapeString "a\\\nb".toStr = "ab".toStr := by decide
example : unescapeString "a\\\r\nb".toStr = "ab".toStr := by decide
example : unescapeString "a\\\r\rb".toStr = "a\rb".toStr := by decide
example : unescapeString "\\41 B\\\"\\'".toStr = "AB\"'".toStr := by decide
example : unescapeString "\\".toStr = [0xFFFD] := by decide
example : unescapeString "\\0 ".toStr = [0xFFFD] := by decide
example : renderString 34 "a\"b'\\\n".toStr = "\"a\\\"b'\\\\\\a \"".toStr := by decide
example : renderString 39 "a\"b'\\\n".toStr = "'a\"b\\'\\\\\\a '".toStr := by decide
example : scanString "\"a\\\"b\" i]".toStr = some (34, "a\\\"b".toStr, " i]".toStr) := by decide
example : scanString "'a\"b\\\n'x".toStr = some (39, "a\"b\\\n".toStr, "x".toStr) := by decide
example : scanString "'a\nb'".toStr = none := by decide
example : scanString "'a\\".toStr = none := by decide

end Spelling
end SoupVerif
