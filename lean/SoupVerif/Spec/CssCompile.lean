/-
  C01: from the CSS-shaped selector AST (`Spec/Css.lean`) to
    * the selector IR exactly as `css_parser.CSSParser` builds it (`compileComplex`, `compileList`),
    * canonical selector text (`renderComplex`, `renderList`) for differential testing against the
      real parser: `compile(render x) == compileComplex x`.

  How the parser lays a selector out (read off `Parser.parseLoop`, `parseCombinator`,
  `parseHasCombinator`, `applySimplePseudo`, `parseAttribute`, `SelB.freeze`):
    * one `Sel` per compound; fields are appended in source order; `:root`/`:empty` are flag bits;
    * `A k B` : the `Sel` of `B` on top, `relation = [Sel of A]` and the `rel_type` of that inner
      `Sel` is the combinator `k` between them; the top `Sel` has `rel_type = None`;
    * `:has(k A j B)` : `SelList [top]`, `top` an empty `Sel` with `relation = [A]`,
      `A.rel_type = ':k'`, `A.relation = [B]`, `B.rel_type = ':j'` (left to right);
    * `:not(L)` : `SelList L' is_not=True` in `selectors`; `:is(L)` likewise without the flag, the
      empty `:is()` being `[null selector]`;
    * `[a!=v]` : `:not([a=v])`; the pattern is built from the operator text, the value, the
      IGNORECASE decision and "the value contains white space";
    * `:first-child` … : `SelectorNth(1, False, 0, of_type, last, empty list)`, two of them for
      the `only-` forms;
    * the implied `*` (no prefix) is put on every compound of a top-level complex selector that
      has no type selector, and on none inside pseudo-class arguments.

  Mathlib-free and executable.
-/
import SoupVerif.Spec.Css
import SoupVerif.Model.Parser
namespace SoupVerif
namespace Css

def Comb.rel : Comb → Rel
  | .desc => .desc | .child => .child | .sib => .sib | .adj => .adj

def Comb.hasRel : Comb → Rel
  | .desc => .hasDesc | .child => .hasChild | .sib => .hasSib | .adj => .hasAdj

def emptyList : SelList := .mk [] false false

/-- `SelectorNth(1, False, 0, of_type, last, SelectorList())`. -/
def nthRec (ofType last : Bool) : NthSel := .mk 1 false 0 ofType last emptyList

/-- The fields of a `_Selector` that the C01 grammar fills. -/
structure Parts where
  ids : List Str := []
  classes : List Str := []
  attrs : List AttrSel := []
  nth : List NthSel := []
  subs : List SelList := []
  flags : Nat := 0
  deriving Inhabited

/-- `parse_attribute_selector`: the `SelectorAttribute` record. -/
def compileAttr (ns name : Str) (test : Option AttrTest) : AttrSel :=
  match test with
  | none => ⟨name, ns, none, none⟩
  | some t =>
    let hasWs := t.value.any isCssWs
    let isType := t.flag == .none && lower name == [116, 121, 112, 101]
    let ic := t.flag == .i || isType
    ⟨name, ns, some (Parser.attrPattern t.op.text t.value ic hasWs),
      if isType then some (Parser.attrPattern t.op.text t.value false hasWs) else none⟩

/-- A `Sel` with just one attribute (the body of the `:not(...)` that `!=` turns into). -/
def attrOnlySel (a : AttrSel) : Sel := .mk none [] [] [a] [] [] emptyList .none [] [] 0

def Parts.toSel (p : Parts) (tag : Option SelTag) (relation : SelList) (rt : Rel) : Sel :=
  .mk tag p.ids p.classes p.attrs p.nth p.subs relation rt [] [] p.flags

mutual
/-- One simple selector appended to the builder. -/
def addSimple (p : Parts) : Simple → Parts
  | .id v => { p with ids := p.ids ++ [v] }
  | .cls v => { p with classes := p.classes ++ [v] }
  | .attr ns name test =>
    let a := compileAttr ns name test
    let isNe : Bool := match test with
      | some t => t.op == AttrOp.ne
      | none => false
    if isNe then { p with subs := p.subs ++ [SelList.mk [attrOnlySel a] true false] }
    else { p with attrs := p.attrs ++ [a] }
  | .neg L => { p with subs := p.subs ++ [SelList.mk (compileSels L) true false] }
  | .is L =>
    { p with subs := p.subs ++ [SelList.mk (match L with
        | [] => [Sel.null]
        | _ :: _ => compileSels L) false false] }
  | .has L => { p with subs := p.subs ++ [SelList.mk (compileRels L) false false] }
  | .root => { p with flags := p.flags ||| SEL_ROOT }
  | .empty => { p with flags := p.flags ||| SEL_EMPTY }
  | .firstChild => { p with nth := p.nth ++ [nthRec false false] }
  | .lastChild => { p with nth := p.nth ++ [nthRec false true] }
  | .onlyChild => { p with nth := p.nth ++ [nthRec false false, nthRec false true] }
  | .firstOfType => { p with nth := p.nth ++ [nthRec true false] }
  | .lastOfType => { p with nth := p.nth ++ [nthRec true true] }
  | .onlyOfType => { p with nth := p.nth ++ [nthRec true false, nthRec true true] }
def compileParts (p : Parts) : List Simple → Parts
  | [] => p
  | s :: rest => compileParts (addSimple p s) rest
/-- A compound with a given `relation` list and own `rel_type`. -/
def compileCompound : Compound → SelList → Rel → Sel
  | .mk tag parts, relation, rt =>
    (compileParts {} parts).toSel (tag.map TypeSel.toSelTag) relation rt
/-- A complex selector (right-to-left chain), with the `rel_type` the enclosing chain gives it. -/
def compileRT : Complex → Rel → Sel
  | .one cp, rt => compileCompound cp emptyList rt
  | .comb L k R, rt => compileCompound R (.mk [compileRT L k.rel] false false) rt
def compileSels : List Complex → List Sel
  | [] => []
  | x :: rest => compileRT x .none :: compileSels rest
def compileRels : List RelSel → List Sel
  | [] => []
  | r :: rest => compileRel r :: compileRels rest
/-- One relative selector of `:has`: an empty `Sel` whose relation chain runs left to right. -/
def compileRel : RelSel → Sel
  | .mk k x => .mk none [] [] [] [] [] (.mk [compileFwd x k.hasRel emptyList] false false) .none [] [] 0
/-- `compileFwd x rt tail`: the chain of `x` left to right, its first compound carrying `rt`,
    its last compound continuing with `tail`. -/
def compileFwd : Complex → Rel → SelList → Sel
  | .one cp, rt, tail => compileCompound cp tail rt
  | .comb L k R, rt, tail => compileFwd L rt (.mk [compileCompound R tail k.hasRel] false false)
end

/-- A complex selector as it is compiled INSIDE a pseudo-class (no implied `*`). -/
def compileComplex (x : Complex) : Sel := compileRT x .none

/-- A top-level complex selector (implied `*` on every compound of the chain). -/
def compileTop (x : Complex) : Sel := compileComplex x.withImplied

/-- `sv.compile("x₁, x₂, …").selectors`. -/
def compileList (L : List Complex) : SelList := .mk (L.map compileTop) false false

/-! ### Canonical text -/

def hexDigit (n : Nat) : Nat := if n < 10 then 48 + n else 87 + n

/-- `"…"` with `"` and `\` backslash-escaped and newline / form feed / carriage return as
    `\a ` / `\c ` / `\d `. -/
def renderString (v : Str) : Str :=
  [34] ++ v.flatMap (fun ch =>
    if ch == 34 || ch == 92 then [92, ch]
    else if ch == 10 || ch == 12 || ch == 13 then [92, hexDigit ch, 32]
    else [ch]) ++ [34]

def renderNs : NsSpec → Str
  | .default => []
  | .none => [124]
  | .any => [42, 124]
  | .named p => p ++ [124]

def renderType (t : TypeSel) : Str := renderNs t.ns ++ t.name.getD [42]

def renderComb : Comb → Str
  | .desc => [32]
  | .child => [32, 62, 32]
  | .sib => [32, 126, 32]
  | .adj => [32, 43, 32]

def renderRelComb : Comb → Str
  | .desc => []
  | .child => [62, 32]
  | .sib => [126, 32]
  | .adj => [43, 32]

def renderAttr (ns name : Str) (test : Option AttrTest) : Str :=
  [91] ++ (if ns.isEmpty then [] else ns ++ [124]) ++ name ++
    (match test with
     | none => []
     | some t => t.op.text ++ renderString t.value ++
        (match t.flag with
         | .none => []
         | .i => [32, 105]
         | .s => [32, 115])) ++ [93]

mutual
def renderSimple : Simple → Str
  | .id v => [35] ++ v
  | .cls v => [46] ++ v
  | .attr ns name test => renderAttr ns name test
  | .neg L => ":not(".toStr ++ renderSels L ++ [41]
  | .is L => ":is(".toStr ++ renderSels L ++ [41]
  | .has L => ":has(".toStr ++ renderRels L ++ [41]
  | .root => ":root".toStr
  | .empty => ":empty".toStr
  | .firstChild => ":first-child".toStr
  | .lastChild => ":last-child".toStr
  | .onlyChild => ":only-child".toStr
  | .firstOfType => ":first-of-type".toStr
  | .lastOfType => ":last-of-type".toStr
  | .onlyOfType => ":only-of-type".toStr
def renderParts : List Simple → Str
  | [] => []
  | s :: rest => renderSimple s ++ renderParts rest
def renderCompound : Compound → Str
  | .mk tag parts =>
    (match tag with
     | some t => renderType t
     | none => []) ++ renderParts parts
def renderComplex : Complex → Str
  | .one cp => renderCompound cp
  | .comb L k R => renderComplex L ++ renderComb k ++ renderCompound R
def renderSels : List Complex → Str
  | [] => []
  | [x] => renderComplex x
  | x :: y :: rest => renderComplex x ++ [44, 32] ++ renderSels (y :: rest)
def renderRels : List RelSel → Str
  | [] => []
  | [r] => renderRel r
  | r :: r' :: rest => renderRel r ++ [44, 32] ++ renderRels (r' :: rest)
def renderRel : RelSel → Str
  | .mk k x => renderRelComb k ++ renderComplex x
end

/-- Text of a top-level selector list. -/
def renderList (L : List Complex) : Str := renderSels L

end Css
end SoupVerif
