/-
  Lemmas for C20 part B (`pretty`).

    1. `prettyLoop_done/tok/fallback`: the three ways one `while` iteration goes;
    2. `starThen_shape`, `runLen_all`, `scanSepLike_ws`: what `\s*(,)\s*` consumes is
       whitespace, the separator, whitespace;
    3. `tokenOutput_ws`: for each of the fifteen tokens, the piece appended to `output` equals
       the consumed text once whitespace is deleted;
    4. `prettyLoop_ws`: induction along the recursion of the loop.
-/
import SoupVerif.Spec.Pretty
namespace SoupVerif
namespace PrettyLemmas
open Pretty Spec

/-! ### Unfolding the loop -/

theorem prettyLoop_done (env : PrettyEnv) (s : Str) (i : Nat) (indent : Int)
    (h : ¬ i < s.length) : prettyLoop env s i indent = [] := by
  rw [prettyLoop, dif_neg h]

theorem prettyLoop_tok (env : PrettyEnv) (s : Str) (i : Nat) (indent : Int) (name : TokKind)
    (j : Nat) (h : i < s.length) (hm : firstMatch env s i = some (name, j)) :
    prettyLoop env s i indent =
      (tokenOutput name (slice s i j) indent).1 ++
        prettyLoop env s j (tokenOutput name (slice s i j) indent).2 := by
  rw [prettyLoop, dif_pos h]
  split
  · rename_i n' j' hm'
    rw [hm] at hm'
    cases hm'
    rfl
  · rename_i hm'
    rw [hm] at hm'
    cases hm'

theorem prettyLoop_fallback (env : PrettyEnv) (s : Str) (i : Nat) (indent : Int)
    (h : i < s.length) (hm : firstMatch env s i = none) :
    prettyLoop env s i indent = s[i] :: prettyLoop env s (i + 1) indent := by
  rw [prettyLoop, dif_pos h]
  split
  · rename_i n' j' hm'
    rw [hm] at hm'
    cases hm'
  · rfl


/-! ### `stripWs` -/

theorem stripWs_append (env : PrettyEnv) (a b : Str) :
    stripWs env (a ++ b) = stripWs env a ++ stripWs env b := by
  simp [stripWs]

theorem stripWs_all_space {env : PrettyEnv} {l : Str} (h : ∀ c ∈ l, env.isSpace c = true) :
    stripWs env l = [] := by
  unfold stripWs
  rw [List.filter_eq_nil_iff]
  intro c hc
  simp [h c hc]

theorem stripWs_spaces {env : PrettyEnv} (h32 : env.isSpace 32 = true) (n : Int) :
    stripWs env (spaces n) = [] := by
  apply stripWs_all_space
  intro c hc
  unfold spaces at hc
  rw [List.eq_of_mem_replicate hc]; exact h32

theorem stripWs_single_space {env : PrettyEnv} {c : Nat} (h : env.isSpace c = true) :
    stripWs env [c] = [] := by
  apply stripWs_all_space
  intro x hx
  rw [List.mem_singleton.mp hx]; exact h

/-! ### Shape of what `\s*(,)\s*` consumes -/

theorem starThen_shape (cls : Nat → Bool) (term : Nat) :
    ∀ (r : Str) (k : Nat), starThen cls term r = some k →
      ∃ a rest, r = a ++ term :: rest ∧ k = a.length + 1 ∧ ∀ c ∈ a, cls c = true := by
  intro r
  induction r with
  | nil => intro k h; simp [starThen] at h
  | cons c rest ih =>
    intro k h
    have fall : (if c = term then some 1 else none) = some k →
        ∃ a rest', c :: rest = a ++ term :: rest' ∧ k = a.length + 1 ∧ ∀ x ∈ a, cls x = true := by
      intro h
      by_cases hct : c = term
      · rw [if_pos hct] at h
        cases h
        exact ⟨[], rest, by simp [hct], rfl, by intro x hx; cases hx⟩
      · rw [if_neg hct] at h; cases h
    simp only [starThen] at h
    by_cases hc : cls c = true
    · rw [if_pos hc] at h
      cases h' : starThen cls term rest with
      | some k' =>
        rw [h'] at h
        simp only [Option.some.injEq] at h
        obtain ⟨a, rest', e1, e2, e3⟩ := ih k' h'
        refine ⟨c :: a, rest', by simp [e1], by simp [e2, ← h], ?_⟩
        intro x hx
        rcases List.mem_cons.mp hx with rfl | hx
        · exact hc
        · exact e3 x hx
      | none =>
        rw [h'] at h
        exact fall h
    · rw [if_neg hc] at h
      exact fall h

theorem runLen_all (cls : Nat → Bool) : ∀ r : Str, ∀ c ∈ r.take (runLen cls r), cls c = true := by
  intro r
  induction r with
  | nil => intro c hc; simp at hc
  | cons x rest ih =>
    intro c hc
    by_cases hx : cls x = true
    · simp only [runLen, if_pos hx, List.take_succ_cons] at hc
      rcases List.mem_cons.mp hc with rfl | hc
      · exact hx
      · exact ih c hc
    · simp [runLen, hx] at hc

theorem scanSepLike_ws (ch : Nat) (env : PrettyEnv) (r : Str) (k : Nat)
    (h : scanSepLike ch env r = some k) : stripWs env (r.take k) = stripWs env [ch] := by
  unfold scanSepLike at h
  cases hk1 : starThen env.isSpace ch r with
  | none => rw [hk1] at h; cases h
  | some k1 =>
    rw [hk1] at h
    simp only [Option.some.injEq] at h
    obtain ⟨a, rest, e1, e2, e3⟩ := starThen_shape _ _ _ _ hk1
    have hr : r = (a ++ [ch]) ++ rest := by simp [e1]
    have hk1' : k1 = (a ++ [ch]).length := by simp [e2]
    have hdrop : r.drop k1 = rest := by rw [hr, hk1', List.drop_left]
    rw [hdrop] at h
    have htake : r.take k = (a ++ [ch]) ++ rest.take (runLen env.isSpace rest) := by
      rw [← h, hr, hk1', List.take_length_add_append]
    rw [htake, stripWs_append, stripWs_append, stripWs_all_space e3,
      stripWs_all_space (runLen_all _ rest)]
    simp

/-! ### Every token's output is whitespace-equivalent to the text it consumed -/

theorem tokenOutput_ws {env : PrettyEnv} (h32 : env.isSpace 32 = true)
    (h10 : env.isSpace 10 = true) (indent : Int) :
    ∀ t ∈ tokens, ∀ (r : Str) (k : Nat), t.scanAt env r = some k →
      stripWs env (tokenOutput t.kind (r.take k) indent).1 = stripWs env (r.take k) := by
  intro t ht r k h
  have e10 := stripWs_single_space h10
  have e32 := stripWs_single_space h32
  simp only [tokens, List.mem_cons, List.not_mem_nil, or_false] at ht
  rcases ht with rfl | rfl | rfl | rfl | rfl | rfl | rfl | rfl | rfl | rfl | rfl | rfl | rfl |
    rfl | rfl
  all_goals first
    | (simp only [tokenOutput, stripWs_append, stripWs_spaces h32, e10, List.append_nil])
    | skip
  · rw [scanSepLike_ws 44 env r k h]
  · simp only [e32, List.append_nil]
    rw [scanSepLike_ws 58 env r k h]


theorem drop_eq_slice_append (s : Str) (i j : Nat) (hi : i < s.length) (hij : i < j) :
    s.drop i = slice s i j ++ s.drop j := by
  unfold slice
  have hlen : i ≤ (s.take j).length := by simp; omega
  conv => lhs; rw [← List.take_append_drop j s]
  rw [List.drop_append_of_le_length hlen]

/-- The piece a token match appends is whitespace-equivalent to `sel[index:m.end(0)]`. -/
theorem firstMatch_ws {env : PrettyEnv} (h32 : env.isSpace 32 = true)
    (h10 : env.isSpace 10 = true) {s : Str} {i : Nat} {name : TokKind} {j : Nat} (indent : Int)
    (hm : firstMatch env s i = some (name, j)) :
    stripWs env (tokenOutput name (slice s i j) indent).1 = stripWs env (slice s i j) := by
  obtain ⟨t, ht, hk, hs⟩ := firstMatch_some hm
  unfold Token.scan at hs
  cases h' : t.scanAt env (s.drop i) with
  | none => rw [h'] at hs; cases hs
  | some k =>
    rw [h'] at hs
    simp only [Option.map_some, Option.some.injEq] at hs
    have : slice s i j = (s.drop i).take k := by
      unfold slice
      rw [List.drop_take, ← hs]
      congr 1; omega
    rw [this, ← hk]
    exact tokenOutput_ws h32 h10 indent t ht _ _ h'

/-- The loop from `index` reproduces `sel[index:]` up to whitespace. -/
theorem prettyLoop_ws {env : PrettyEnv} (h32 : env.isSpace 32 = true)
    (h10 : env.isSpace 10 = true) (s : Str) (i : Nat) (indent : Int) :
    stripWs env (prettyLoop env s i indent) = stripWs env (s.drop i) := by
  induction i, indent using prettyLoop.induct env s with
  | case1 index indent hlt name j hm out ih =>
    rw [prettyLoop_tok env s index indent name j hlt hm, stripWs_append, ih,
      drop_eq_slice_append s index j hlt (firstMatch_advance hm), stripWs_append,
      firstMatch_ws h32 h10 indent hm]
  | case2 index indent hlt hm ih =>
    rw [prettyLoop_fallback env s index indent hlt hm, List.drop_eq_getElem_cons hlt]
    simp only [stripWs, List.filter_cons] at ih ⊢
    rw [ih]
  | case3 index indent h =>
    rw [prettyLoop_done env s index indent h, List.drop_eq_nil_of_le (by omega)]

end PrettyLemmas
end SoupVerif
