/-
  Lemmas about the model of `escape` / `IDENTIFIER` / `css_unescape` (Model/Escape.lean), used by
  `Properties/C10`.  No Mathlib.
-/
import SoupVerif.Model.Escape
namespace SoupVerif
namespace EscapeLemmas
open Escape

/-! ### Boolean predicates as arithmetic -/

theorem isHex_iff (c : Nat) :
    isHex c = true ↔ (48 ≤ c ∧ c ≤ 57) ∨ (65 ≤ c ∧ c ≤ 70) ∨ (97 ≤ c ∧ c ≤ 102) := by
  simp [isHex, or_assoc]

theorem isHex_false_iff (c : Nat) :
    isHex c = false ↔ ¬ ((48 ≤ c ∧ c ≤ 57) ∨ (65 ≤ c ∧ c ≤ 70) ∨ (97 ≤ c ∧ c ≤ 102)) := by
  rw [← isHex_iff]; simp

theorem identContChar_iff (c : Nat) :
    identContChar c = true ↔
      c = 45 ∨ (48 ≤ c ∧ c ≤ 57) ∨ (65 ≤ c ∧ c ≤ 90) ∨ c = 95 ∨ (97 ≤ c ∧ c ≤ 122) ∨ 128 ≤ c := by
  simp [identContChar, or_assoc]

theorem identContChar_false_iff (c : Nat) :
    identContChar c = false ↔
      ¬ (c = 45 ∨ (48 ≤ c ∧ c ≤ 57) ∨ (65 ≤ c ∧ c ≤ 90) ∨ c = 95 ∨ (97 ≤ c ∧ c ≤ 122) ∨ 128 ≤ c) := by
  rw [← identContChar_iff]; simp

theorem identStartChar_iff (c : Nat) :
    identStartChar c = true ↔ (65 ≤ c ∧ c ≤ 90) ∨ c = 95 ∨ (97 ≤ c ∧ c ≤ 122) ∨ 128 ≤ c := by
  simp [identStartChar, or_assoc]

theorem identStartChar_false_iff (c : Nat) :
    identStartChar c = false ↔ ¬ ((65 ≤ c ∧ c ≤ 90) ∨ c = 95 ∨ (97 ≤ c ∧ c ≤ 122) ∨ 128 ≤ c) := by
  rw [← identStartChar_iff]; simp

theorem isCssWs_iff (c : Nat) :
    isCssWs c = true ↔ c = 32 ∨ c = 9 ∨ c = 13 ∨ c = 10 ∨ c = 12 := by
  simp [isCssWs, or_assoc]

/-! ### Hex digits -/

theorem hexDigitsF_indep : ∀ f g n, n < f → n < g → hexDigitsF f n = hexDigitsF g n := by
  intro f
  induction f with
  | zero => intro g n h; omega
  | succ f ih =>
    intro g n hf hg
    cases g with
    | zero => omega
    | succ g =>
      simp only [hexDigitsF]
      split
      · rfl
      · rw [ih g (n / 16) (by omega) (by omega)]

/-- The defining recursion of `f'{n:x}'`; the fuel of `hexDigits` is never exhausted. -/
theorem hexDigits_eq (n : Nat) :
    hexDigits n = if n < 16 then [hexDigit n] else hexDigits (n / 16) ++ [hexDigit (n % 16)] := by
  rw [hexDigits, hexDigitsF]
  split
  · rfl
  · rw [hexDigits, hexDigitsF_indep n (n / 16 + 1) (n / 16) (by omega) (by omega)]

theorem hexDigitVal_hexDigit (d : Nat) (h : d < 16) : hexDigitVal (hexDigit d) = d := by
  unfold hexDigitVal hexDigit
  split <;> split <;> (try split) <;> omega

theorem isHex_hexDigit (d : Nat) (h : d < 16) : isHex (hexDigit d) = true := by
  rw [isHex_iff]; unfold hexDigit; split <;> omega

theorem hexVal_snoc (s : Str) (c : Nat) : hexVal (s ++ [c]) = hexVal s * 16 + hexDigitVal c := by
  simp [hexVal, List.foldl_append]

/-- `int(f'{n:x}', 16) == n` for every `n`. -/
theorem hexVal_hexDigits (n : Nat) : hexVal (hexDigits n) = n := by
  induction n using Nat.strongRecOn with
  | _ n ih =>
    rw [hexDigits_eq]
    split
    · next h => simp [hexVal, hexDigitVal_hexDigit n h]
    · next h =>
      rw [hexVal_snoc, ih (n / 16) (by omega), hexDigitVal_hexDigit _ (Nat.mod_lt _ (by omega))]
      omega

theorem hexDigits_ne_nil (n : Nat) : hexDigits n ≠ [] := by
  rw [hexDigits_eq]; split <;> simp

/-- Every character of `f'{n:x}'` is a hex digit. -/
theorem hexDigits_allHex (n : Nat) : ∀ d ∈ hexDigits n, isHex d = true := by
  induction n using Nat.strongRecOn with
  | _ n ih =>
    rw [hexDigits_eq]
    split
    · next h => intro d hd; simp at hd; subst hd; exact isHex_hexDigit n h
    · next h =>
      intro d hd
      rw [List.mem_append] at hd
      rcases hd with hd | hd
      · exact ih (n / 16) (by omega) d hd
      · simp at hd; subst hd; exact isHex_hexDigit _ (Nat.mod_lt _ (by omega))

/-- Every character of `f'{n:x}'` is a *lower-case* hex digit. -/
theorem hexDigits_lower (n : Nat) : ∀ d ∈ hexDigits n, (48 ≤ d ∧ d ≤ 57) ∨ (97 ≤ d ∧ d ≤ 102) := by
  have hd : ∀ k, k < 16 → (48 ≤ hexDigit k ∧ hexDigit k ≤ 57) ∨ (97 ≤ hexDigit k ∧ hexDigit k ≤ 102) := by
    intro k hk; unfold hexDigit; split <;> omega
  induction n using Nat.strongRecOn with
  | _ n ih =>
    rw [hexDigits_eq]
    split
    · next h => intro d hm; simp at hm; subst hm; exact hd n h
    · next h =>
      intro d hm
      rw [List.mem_append] at hm
      rcases hm with hm | hm
      · exact ih (n / 16) (by omega) d hm
      · simp at hm; subst hm; exact hd _ (Nat.mod_lt _ (by omega))

/-- `n < 16^k` has at most `k` hex digits (`k ≥ 1`). -/
theorem hexDigits_length_le : ∀ k n, n < 16 ^ (k + 1) → (hexDigits n).length ≤ k + 1 := by
  intro k
  induction k with
  | zero => intro n h; rw [hexDigits_eq, if_pos (by omega)]; simp
  | succ k ih =>
    intro n h
    rw [hexDigits_eq]
    split
    · simp
    · have : n / 16 < 16 ^ (k + 1) := by
        rw [Nat.div_lt_iff_lt_mul (by omega)]; rw [Nat.pow_succ] at h; exact h
      have := ih (n / 16) this
      simp; omega

/-- Code points (`< 0x110000 < 16^6`) have at most six hex digits. -/
theorem hexDigits_length_le_six (n : Nat) (h : n < 0x1000000) : (hexDigits n).length ≤ 6 :=
  hexDigits_length_le 5 n (by omega)

theorem hexDigits_length_le_two (n : Nat) (h : n < 256) : (hexDigits n).length ≤ 2 :=
  hexDigits_length_le 1 n (by omega)

theorem hexDigits_length_pos (n : Nat) : 0 < (hexDigits n).length := by
  cases h : hexDigits n with
  | nil => exact absurd h (hexDigits_ne_nil n)
  | cons _ _ => simp

/-! ### `hexRun`, `wsLen` on the text `escape` produces -/

/-- A run of at most `k` hex digits followed by a non-hex character (or the end) is taken whole. -/
theorem hexRun_append (ds t : Str) :
    ∀ k, (∀ d ∈ ds, isHex d = true) → ds.length ≤ k → (∀ c ∈ t.head?, isHex c = false) →
      hexRun k (ds ++ t) = ds.length := by
  induction ds with
  | nil =>
    intro k _ _ ht
    cases k with
    | zero => rfl
    | succ k =>
      cases t with
      | nil => rfl
      | cons c t => simp [hexRun, ht c (by simp)]
  | cons d ds ih =>
    intro k hd hk ht
    cases k with
    | zero => simp at hk
    | succ k =>
      have h1 : isHex d = true := hd d (by simp)
      have h2 := ih k (fun x hx => hd x (by simp [hx])) (by simpa using hk) ht
      simp [hexRun, h1, h2]

theorem hexRun_append_space (ds t : Str) (k : Nat) (hd : ∀ d ∈ ds, isHex d = true)
    (hk : ds.length ≤ k) : hexRun k (ds ++ 32 :: t) = ds.length :=
  hexRun_append ds (32 :: t) k hd hk (by simp [isHex])

theorem wsLen_space (t : Str) : wsLen (32 :: t) = 1 := by simp [wsLen, isCssWs]

/-! ### The copy modes -/

theorem scanCont_succ (k c : Nat) (cs : Str) :
    scanCont (k + 1) (c :: cs) = (c :: (scanCont k cs).1, (scanCont k cs).2) := by
  simp [scanCont]

theorem scanCont_zero_cons (c : Nat) (cs : Str) :
    scanCont 0 (c :: cs) =
      if identContChar c then (c :: (scanCont 0 cs).1, (scanCont 0 cs).2)
      else match escLen (c :: cs) with
        | some n => (c :: (scanCont (n - 1) cs).1, (scanCont (n - 1) cs).2)
        | none => ([], c :: cs) := by
  rw [scanCont]; rfl

/-- Copy mode copies exactly `k` characters and then scans. -/
theorem scanCont_copy (p t : Str) :
    ∀ k, p.length = k → scanCont k (p ++ t) = (p ++ (scanCont 0 t).1, (scanCont 0 t).2) := by
  induction p with
  | nil => intro k hk; simp at hk; subst hk; simp
  | cons c p ih =>
    intro k hk
    cases k with
    | zero => simp at hk
    | succ k =>
      have := ih k (by simpa using hk)
      simp [scanCont_succ, this]

theorem cssUnescapeAux_succ (k c : Nat) (cs : Str) :
    cssUnescapeAux (k + 1) (c :: cs) = cssUnescapeAux k cs := by
  simp [cssUnescapeAux]

theorem cssUnescapeAux_skip (p t : Str) :
    ∀ k, p.length = k → cssUnescapeAux k (p ++ t) = cssUnescapeAux 0 t := by
  induction p with
  | nil => intro k hk; simp at hk; subst hk; simp
  | cons c p ih =>
    intro k hk
    cases k with
    | zero => simp at hk
    | succ k => simpa [cssUnescapeAux_succ] using ih k (by simpa using hk)

theorem cssUnescapeRaisesAux_succ (k c : Nat) (cs : Str) :
    cssUnescapeRaisesAux (k + 1) (c :: cs) = cssUnescapeRaisesAux k cs := by
  simp [cssUnescapeRaisesAux]

theorem cssUnescapeRaisesAux_skip (p t : Str) :
    ∀ k, p.length = k → cssUnescapeRaisesAux k (p ++ t) = cssUnescapeRaisesAux 0 t := by
  induction p with
  | nil => intro k hk; simp at hk; subst hk; simp
  | cons c p ih =>
    intro k hk
    cases k with
    | zero => simp at hk
    | succ k => simpa [cssUnescapeRaisesAux_succ] using ih k (by simpa using hk)

/-! ### One escape at the head -/

/-- `\` + hex digits (at most six) + a space is one `CSS_ESCAPES` match, space included. -/
theorem escLen_hex_space (ds t : Str) (hne : ds ≠ []) (hd : ∀ d ∈ ds, isHex d = true)
    (hl : ds.length ≤ 6) : escLen (92 :: (ds ++ 32 :: t)) = some (ds.length + 2) := by
  have hrun := hexRun_append_space ds t 6 hd hl
  cases ds with
  | nil => exact absurd rfl hne
  | cons d ds =>
    have h1 : isHex d = true := hd d (by simp)
    simp only [List.cons_append] at hrun ⊢
    simp only [escLen, bne_self_eq_false, Bool.false_eq_true, if_false, h1, if_true, hrun]
    rw [← List.cons_append, List.drop_left, wsLen_space]
    simp; omega

/-- `\c` for a non-hex, non-newline `c` is one `CSS_ESCAPES` match. -/
theorem escLen_char (c : Nat) (t : Str) (hh : isHex c = false) (h10 : c ≠ 10) (h13 : c ≠ 13)
    (h12 : c ≠ 12) : escLen (92 :: c :: t) = some 2 := by
  simp [escLen, hh, h10, h13, h12]

/-- The loop consumes an escape of known length and goes on. -/
theorem scanCont_esc (p t : Str) (h : escLen (92 :: (p ++ t)) = some (p.length + 1)) :
    scanCont 0 (92 :: (p ++ t)) = (92 :: p ++ (scanCont 0 t).1, (scanCont 0 t).2) := by
  rw [scanCont_zero_cons, if_neg (by decide), h]
  simp [scanCont_copy p t p.length rfl]

/-- The loop stops where the text cannot continue an identifier. -/
theorem scanCont_stop (r : Str) (h : continuesIdent r = false) : scanCont 0 r = ([], r) := by
  cases r with
  | nil => rfl
  | cons c cs =>
    simp only [continuesIdent, Bool.or_eq_false_iff] at h
    rw [scanCont_zero_cons, if_neg (by simp [h.1])]
    have : escLen (c :: cs) = none := by
      have h2 : c ≠ 92 := by simpa using h.2
      simp [escLen, h2]
    rw [this]

/-! ### The four shapes of what `escape` emits for one character -/

/-- Classification of `escapeChar lead c`, with the facts about `c` each later proof needs. -/
inductive Piece (lead : Bool) (c : Nat) : Prop
  /-- NUL becomes the literal U+FFFD. -/
  | nul : c = 0 → escapeChar lead c = [0xFFFD] → Piece lead c
  /-- Controls, DEL and leading digits become `\` + hex + space. -/
  | hex : 0 < c → c < 128 → escapeChar lead c = 92 :: hexDigits c ++ [32] → Piece lead c
  /-- Identifier characters are copied; in a leading position they are start characters or `-`. -/
  | lit : identContChar c = true → (lead = true → identStartChar c = true ∨ c = 45) →
      escapeChar lead c = [c] → Piece lead c
  /-- The remaining printable ASCII is backslash-escaped; none of it is a hex digit. -/
  | bs : 32 ≤ c → c < 127 → isHex c = false → identContChar c = false →
      escapeChar lead c = [92, c] → Piece lead c

theorem escapeChar_piece (lead : Bool) (c : Nat) : Piece lead c := by
  by_cases h0 : c = 0
  · exact .nul h0 (by simp [escapeChar, h0])
  by_cases h1 : (1 ≤ c ∧ c ≤ 0x1F) ∨ c = 0x7F
  · refine .hex (by omega) (by omega) ?_
    have : ((decide (1 ≤ c) && decide (c ≤ 0x1F)) || c == 0x7F) = true := by simpa using h1
    simp only [escapeChar, beq_iff_eq, h0, if_false, this, if_true]
  have h1' : ((decide (1 ≤ c) && decide (c ≤ 0x1F)) || c == 0x7F) = false := by
    rw [Bool.eq_false_iff]; simpa using h1
  by_cases h2 : lead = true ∧ (0x30 ≤ c ∧ c ≤ 0x39)
  · refine .hex (by omega) (by omega) ?_
    have : (lead && (decide (0x30 ≤ c) && decide (c ≤ 0x39))) = true := by simpa using h2
    simp only [escapeChar, beq_iff_eq, h0, if_false, h1', Bool.false_eq_true, this, if_true]
  have h2' : (lead && (decide (0x30 ≤ c) && decide (c ≤ 0x39))) = false := by
    rw [Bool.eq_false_iff]; simpa using h2
  by_cases h3 : c = 0x2D ∨ c = 0x5F ∨ c ≥ 0x80 ∨ (0x30 ≤ c ∧ c ≤ 0x39) ∨ (0x41 ≤ c ∧ c ≤ 0x5A) ∨
      (0x61 ≤ c ∧ c ≤ 0x7A)
  · refine .lit ?_ ?_ ?_
    · rw [identContChar_iff]; omega
    · intro hl; rw [identStartChar_iff]
      have : ¬ (0x30 ≤ c ∧ c ≤ 0x39) := fun hd => h2 ⟨hl, hd⟩
      omega
    · have : (c == 0x2D || c == 0x5F || decide (c ≥ 0x80) || (decide (0x30 ≤ c) && decide (c ≤ 0x39)) ||
          (decide (0x41 ≤ c) && decide (c ≤ 0x5A)) || (decide (0x61 ≤ c) && decide (c ≤ 0x7A))) = true := by
        simpa [or_assoc] using h3
      simp only [escapeChar, beq_iff_eq, h0, if_false, h1', h2', Bool.false_eq_true, this, if_true]
  · have : (c == 0x2D || c == 0x5F || decide (c ≥ 0x80) || (decide (0x30 ≤ c) && decide (c ≤ 0x39)) ||
        (decide (0x41 ≤ c) && decide (c ≤ 0x5A)) || (decide (0x61 ≤ c) && decide (c ≤ 0x7A))) = false := by
      rw [Bool.eq_false_iff]; simpa [or_assoc] using h3
    refine .bs (by omega) (by omega) ?_ ?_ ?_
    · rw [isHex_false_iff]; omega
    · rw [identContChar_false_iff]; omega
    · simp only [escapeChar, beq_iff_eq, h0, if_false, h1', h2', Bool.false_eq_true, this]

/-! ### Per-character steps -/

/-- The `*` loop of `IDENTIFIER` consumes exactly what `escape` emitted for one character
    (whatever the position flag) and continues after it. -/
theorem scanCont_escapeChar (lead : Bool) (c : Nat) (t : Str) :
    scanCont 0 (escapeChar lead c ++ t) =
      (escapeChar lead c ++ (scanCont 0 t).1, (scanCont 0 t).2) := by
  cases escapeChar_piece lead c with
  | nul _ he => rw [he]; simp [scanCont_zero_cons, identContChar]
  | hex h0 h128 he =>
    rw [he]
    have hl := hexDigits_length_le_two c (by omega)
    have := scanCont_esc (hexDigits c ++ [32]) t (by
      rw [List.append_assoc]
      simpa using escLen_hex_space (hexDigits c) t (hexDigits_ne_nil c) (hexDigits_allHex c) (by omega))
    simpa using this
  | lit hc _ he => rw [he]; simp [scanCont_zero_cons, hc]
  | bs h32 h127 hh _ he =>
    rw [he]
    have := scanCont_esc [c] t (by
      simpa using escLen_char c t hh (by omega) (by omega) (by omega))
    simpa using this

/-- `css_unescape` turns what `escape` emitted for one character back into that character
    (NUL having become U+FFFD). -/
theorem cssUnescapeAux_escapeChar (lead : Bool) (c : Nat) (t : Str) :
    cssUnescapeAux 0 (escapeChar lead c ++ t) =
      (if c == 0 then 0xFFFD else c) :: cssUnescapeAux 0 t := by
  cases escapeChar_piece lead c with
  | nul h0 he => rw [he]; simp [cssUnescapeAux, h0]
  | hex h0 h128 he =>
    rw [he]
    have hl := hexDigits_length_le_two c (by omega)
    have hrun := hexRun_append_space (hexDigits c) t 6 (hexDigits_allHex c) (by omega)
    have hne := hexDigits_ne_nil c
    have hall := hexDigits_allHex c
    have hval := hexVal_hexDigits c
    generalize hexDigits c = ds at *
    cases ds with
    | nil => exact absurd rfl hne
    | cons d ds =>
      have h1 : isHex d = true := hall d (by simp)
      have hc0 : (c == 0) = false := by simp; omega
      simp only [List.cons_append, List.append_assoc, List.nil_append] at hrun ⊢
      simp only [cssUnescapeAux, bne_self_eq_false, Bool.false_eq_true, if_false, h1, if_true, hrun]
      rw [← List.cons_append, List.drop_left, List.take_left, wsLen_space, hval, hc0]
      have hfix : fixCp c = c := by
        unfold fixCp; rw [if_neg]; simp; omega
      have hskip := cssUnescapeAux_skip ((d :: ds) ++ [32]) t ((d :: ds).length + 1) (by simp)
      simp only [List.append_assoc, List.cons_append, List.nil_append] at hskip
      simp only [hfix, Bool.false_eq_true, if_false, List.cons_append]
      rw [hskip]
  | lit hc _ he =>
    rw [he]
    have h92 : c ≠ 92 := by rw [identContChar_iff] at hc; omega
    have h0 : c ≠ 0 := by rw [identContChar_iff] at hc; omega
    simp [cssUnescapeAux, h92, h0]
  | bs h32 h127 hh _ he =>
    rw [he]
    have h0 : c ≠ 0 := by omega
    have h10 : c ≠ 10 := by omega
    have h13 : c ≠ 13 := by omega
    have h12 : c ≠ 12 := by omega
    simp [cssUnescapeAux, hh, h0, h10, h13, h12]

/-- `css_unescape` never raises on what `escape` emitted: a hex escape is always followed by
    its terminating space, never by a comment. -/
theorem cssUnescapeRaisesAux_escapeChar (lead : Bool) (c : Nat) (t : Str) :
    cssUnescapeRaisesAux 0 (escapeChar lead c ++ t) = cssUnescapeRaisesAux 0 t := by
  cases escapeChar_piece lead c with
  | nul h0 he => rw [he]; simp [cssUnescapeRaisesAux]
  | hex h0 h128 he =>
    rw [he]
    have hl := hexDigits_length_le_two c (by omega)
    have hrun := hexRun_append_space (hexDigits c) t 6 (hexDigits_allHex c) (by omega)
    have hne := hexDigits_ne_nil c
    have hall := hexDigits_allHex c
    generalize hexDigits c = ds at *
    cases ds with
    | nil => exact absurd rfl hne
    | cons d ds =>
      have h1 : isHex d = true := hall d (by simp)
      simp only [List.cons_append, List.append_assoc, List.nil_append] at hrun ⊢
      simp only [cssUnescapeRaisesAux, bne_self_eq_false, Bool.false_eq_true, if_false, h1, if_true, hrun]
      rw [← List.cons_append, List.drop_left, wsLen_space]
      have hskip := cssUnescapeRaisesAux_skip ((d :: ds) ++ [32]) t ((d :: ds).length + 1) (by simp)
      simp only [List.append_assoc, List.cons_append, List.nil_append] at hskip
      simp only [List.cons_append]
      rw [hskip]; simp
  | lit hc _ he =>
    rw [he]
    have h92 : c ≠ 92 := by rw [identContChar_iff] at hc; omega
    simp [cssUnescapeRaisesAux, h92]
  | bs h32 h127 hh _ he =>
    rw [he]
    have h10 : c ≠ 10 := by omega
    have h13 : c ≠ 13 := by omega
    have h12 : c ≠ 12 := by omega
    simp [cssUnescapeRaisesAux, hh, h10, h13, h12]

/-- Characters `escape` can emit: never NUL, never a raw newline / form feed / carriage return. -/
def SafeChar (d : Nat) : Prop := d ≠ 0 ∧ d ≠ 10 ∧ d ≠ 12 ∧ d ≠ 13

theorem escapeChar_safe (lead : Bool) (c : Nat) : ∀ d ∈ escapeChar lead c, SafeChar d := by
  unfold SafeChar
  cases escapeChar_piece lead c with
  | nul _ he => rw [he]; intro d hd; simp at hd; omega
  | hex h0 h128 he =>
    rw [he]; intro d hd
    simp only [List.mem_cons, List.mem_append, List.not_mem_nil, or_false] at hd
    rcases hd with (hd | hd) | hd
    · omega
    · have := (isHex_iff d).1 (hexDigits_allHex c d hd); omega
    · omega
  | lit hc _ he =>
    rw [he]; intro d hd; simp at hd; subst hd
    rw [identContChar_iff] at hc; omega
  | bs h32 h127 _ _ he =>
    rw [he]; intro d hd; simp at hd; omega

theorem escapeChar_ne_nil (lead : Bool) (c : Nat) : escapeChar lead c ≠ [] := by
  cases escapeChar_piece lead c with
  | nul _ he => rw [he]; simp
  | hex _ _ he => rw [he]; simp
  | lit _ _ he => rw [he]; simp
  | bs _ _ _ _ he => rw [he]; simp

/-! ### The `for` loop of `escape` -/

theorem scanCont_escapeGo (sd : Bool) (s t : Str) : ∀ i,
    scanCont 0 (escapeGo sd i s ++ t) =
      (escapeGo sd i s ++ (scanCont 0 t).1, (scanCont 0 t).2) := by
  induction s with
  | nil => intro i; simp [escapeGo]
  | cons c cs ih =>
    intro i
    simp only [escapeGo, List.append_assoc]
    rw [scanCont_escapeChar, ih]

theorem scanCont_escapeGo_stop (sd : Bool) (s r : Str) (i : Nat) (hr : continuesIdent r = false) :
    scanCont 0 (escapeGo sd i s ++ r) = (escapeGo sd i s, r) := by
  rw [scanCont_escapeGo, scanCont_stop r hr]; simp

theorem cssUnescapeAux_escapeGo (sd : Bool) (s t : Str) : ∀ i,
    cssUnescapeAux 0 (escapeGo sd i s ++ t) = nulToFFFD s ++ cssUnescapeAux 0 t := by
  induction s with
  | nil => intro i; simp [escapeGo, nulToFFFD]
  | cons c cs ih =>
    intro i
    simp only [escapeGo, List.append_assoc]
    rw [cssUnescapeAux_escapeChar, ih]
    simp [nulToFFFD]

theorem cssUnescapeRaisesAux_escapeGo (sd : Bool) (s t : Str) : ∀ i,
    cssUnescapeRaisesAux 0 (escapeGo sd i s ++ t) = cssUnescapeRaisesAux 0 t := by
  induction s with
  | nil => intro i; simp [escapeGo]
  | cons c cs ih =>
    intro i
    simp only [escapeGo, List.append_assoc]
    rw [cssUnescapeRaisesAux_escapeChar, ih]

theorem escapeGo_safe (sd : Bool) (s : Str) : ∀ i, ∀ d ∈ escapeGo sd i s, SafeChar d := by
  induction s with
  | nil => intro i d hd; simp [escapeGo] at hd
  | cons c cs ih =>
    intro i d hd
    simp only [escapeGo, List.mem_append] at hd
    rcases hd with hd | hd
    · exact escapeChar_safe _ c d hd
    · exact ih _ d hd

theorem escapeGo_ne_nil (sd : Bool) (c : Nat) (cs : Str) (i : Nat) : escapeGo sd i (c :: cs) ≠ [] := by
  simp only [escapeGo]
  intro h
  exact escapeChar_ne_nil _ c (List.append_eq_nil_iff.1 h).1

/-! ### The three shapes of `escape s` for non-empty `s` -/

theorem escape_dash : escape [45] = [92, 45] := by decide

theorem escape_cons_ne_dash (c : Nat) (cs : Str) (h : c ≠ 45) :
    escape (c :: cs) = escapeChar true c ++ escapeGo false 1 cs := by
  have hsd : startDash (c :: cs) = false := by simp [startDash, h]
  simp [escape, hsd, escapeGo]

theorem escape_dash_cons (c : Nat) (cs : Str) :
    escape (45 :: c :: cs) = 45 :: (escapeChar true c ++ escapeGo true 2 cs) := by
  have hsd : startDash (45 :: c :: cs) = true := by simp [startDash]
  have h45 : escapeChar true 45 = [45] := by decide
  simp [escape, hsd, escapeGo, h45]

/-! ### The head of `IDENTIFIER` on the first piece -/

/-- The first piece `escape` emits for a non-dash character is one start character or one
    escape, and it does not begin with `-`. -/
theorem startLen_escapeChar (c : Nat) (t : Str) (h45 : c ≠ 45) :
    startLen (escapeChar true c ++ t) = some (escapeChar true c).length ∧
      (escapeChar true c ++ t).head? ≠ some 45 := by
  cases escapeChar_piece true c with
  | nul _ he => rw [he]; simp [startLen, identStartChar]
  | hex h0 h128 he =>
    rw [he]
    have hl := hexDigits_length_le_two c (by omega)
    have := escLen_hex_space (hexDigits c) t (hexDigits_ne_nil c) (hexDigits_allHex c) (by omega)
    simp only [List.cons_append, List.append_assoc, List.nil_append]
    simp [startLen, identStartChar, this]
  | lit _ hs he =>
    rw [he]
    have : identStartChar c = true := by
      rcases hs rfl with h | h
      · exact h
      · exact absurd h h45
    simp [startLen, this, h45]
  | bs h32 h127 hh _ he =>
    rw [he]
    have := escLen_char c t hh (by omega) (by omega) (by omega)
    simp [startLen, identStartChar, this]

theorem headLen_of_ne_dash (s : Str) (h : s.head? ≠ some 45) : headLen s = startLen s := by
  cases s with
  | nil => rfl
  | cons c cs =>
    have : c ≠ 45 := by simpa using h
    simp [headLen, this]

theorem headLen_escapeChar (c : Nat) (t : Str) (h45 : c ≠ 45) :
    headLen (escapeChar true c ++ t) = some (escapeChar true c).length := by
  have := startLen_escapeChar c t h45
  rw [headLen_of_ne_dash _ this.2, this.1]

theorem headLen_dash_escapeChar (c : Nat) (t : Str) (h45 : c ≠ 45) :
    headLen (45 :: (escapeChar true c ++ t)) = some ((escapeChar true c).length + 1) := by
  simp [headLen, (startLen_escapeChar c t h45).1]

theorem headLen_dash_dash (t : Str) : headLen (45 :: 45 :: t) = some 2 := by
  simp [headLen, startLen, identStartChar, escLen]

theorem scanIdent_of_headLen (p g r : Str) (hh : headLen (p ++ (g ++ r)) = some p.length)
    (hg : scanCont 0 (g ++ r) = (g ++ (scanCont 0 r).1, (scanCont 0 r).2)) :
    scanIdent ((p ++ g) ++ r) = some ((p ++ g) ++ (scanCont 0 r).1, (scanCont 0 r).2) := by
  simp [scanIdent, List.append_assoc, hh, scanCont_copy p (g ++ r) p.length rfl, hg]

/-- Whatever follows, the scanner reads `escape s` and then continues with the `*` loop on the
    following text alone: nothing `escape` emits interacts with what comes after it. -/
theorem scanIdent_escape_append (s r : Str) (hs : s ≠ []) :
    scanIdent (escape s ++ r) = some (escape s ++ (scanCont 0 r).1, (scanCont 0 r).2) := by
  cases s with
  | nil => exact absurd rfl hs
  | cons c cs =>
    by_cases hc : c = 45
    · subst hc
      cases cs with
      | nil =>
        rw [escape_dash]
        exact scanIdent_of_headLen [92, 45] [] r
          (by simp [headLen, startLen, identStartChar, escLen, isHex]) (by simp)
      | cons c2 cs2 =>
        rw [escape_dash_cons]
        by_cases hc2 : c2 = 45
        · subst hc2
          have h45 : escapeChar true 45 = [45] := by decide
          rw [h45]
          exact scanIdent_of_headLen [45, 45] (escapeGo true 2 cs2) r
            (by simpa using headLen_dash_dash _) (scanCont_escapeGo true cs2 r 2)
        · have := scanIdent_of_headLen (45 :: escapeChar true c2) (escapeGo true 2 cs2) r
            (by simpa using headLen_dash_escapeChar c2 _ hc2) (scanCont_escapeGo true cs2 r 2)
          simpa using this
    · rw [escape_cons_ne_dash c cs hc]
      exact scanIdent_of_headLen (escapeChar true c) (escapeGo false 1 cs) r
        (headLen_escapeChar c _ hc) (scanCont_escapeGo false cs r 1)

/-- The scanner reads `escape s` as one identifier and stops at its end. -/
theorem scanIdent_escape (s r : Str) (hs : s ≠ []) (hr : continuesIdent r = false) :
    scanIdent (escape s ++ r) = some (escape s, r) := by
  rw [scanIdent_escape_append s r hs, scanCont_stop r hr]; simp

theorem escape_eq_dash_or_go (s : Str) :
    (s = [45] ∧ escape s = [92, 45]) ∨ escape s = escapeGo (startDash s) 0 s := by
  by_cases h : (s.length == 1 && startDash s) = true
  · have hs : s = [45] := by
      cases s with
      | nil => simp at h
      | cons c cs =>
        cases cs with
        | nil => simp [startDash] at h; simp [h]
        | cons _ _ => simp at h
    exact .inl ⟨hs, by rw [hs]; decide⟩
  · exact .inr (by simp only [escape, h, Bool.false_eq_true, if_false])

/-- `css_unescape` is a homomorphism on `escape s ++ t`: the escaped part decodes to `s` (NUL as
    U+FFFD) and the rest is decoded on its own. -/
theorem cssUnescape_escape_append (s t : Str) :
    cssUnescape (escape s ++ t) = nulToFFFD s ++ cssUnescape t := by
  unfold cssUnescape
  rcases escape_eq_dash_or_go s with ⟨hs, he⟩ | he
  · rw [he, hs]
    simp [cssUnescapeAux, isHex, nulToFFFD]
  · rw [he]; exact cssUnescapeAux_escapeGo _ s t 0

theorem cssUnescapeRaises_escape_append (s t : Str) :
    cssUnescapeRaises (escape s ++ t) = cssUnescapeRaises t := by
  unfold cssUnescapeRaises
  rcases escape_eq_dash_or_go s with ⟨hs, he⟩ | he
  · rw [he]
    simp [cssUnescapeRaisesAux, isHex]
  · rw [he]; exact cssUnescapeRaisesAux_escapeGo _ s t 0

theorem cssUnescape_escape (s : Str) : cssUnescape (escape s) = nulToFFFD s := by
  have := cssUnescape_escape_append s []
  simpa [cssUnescape, cssUnescapeAux] using this

theorem cssUnescapeRaises_escape (s : Str) : cssUnescapeRaises (escape s) = false := by
  have := cssUnescapeRaises_escape_append s []
  simpa [cssUnescapeRaises, cssUnescapeRaisesAux] using this

theorem escape_safe (s : Str) : ∀ d ∈ escape s, SafeChar d := by
  rcases escape_eq_dash_or_go s with ⟨_, he⟩ | he
  · rw [he]; intro d hd; simp at hd; unfold SafeChar; omega
  · rw [he]; exact escapeGo_safe _ s 0

theorem escape_ne_nil (s : Str) (hs : s ≠ []) : escape s ≠ [] := by
  cases s with
  | nil => exact absurd rfl hs
  | cons c cs =>
    unfold escape
    split
    · simp
    · exact escapeGo_ne_nil _ c cs 0

end EscapeLemmas
end SoupVerif
