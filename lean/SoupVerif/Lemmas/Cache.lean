/-
  Lemmas for C15 (Properties/C15.lean): association lists, the object protocol of
  `Immutable` instances, the LRU machine, `ImmutableDict` order independence.
  Imports one Batteries module (`List.subperm_of_subset`, `Subperm.perm_of_length_le`).
-/
import SoupVerif.Model.Cache
import Batteries.Data.List.Perm
namespace SoupVerif
namespace CacheLemmas
open Cache Gen.Classes

/-! ### association lists -/

theorem lookup_zip_getElem {β : Type} :
    ∀ (ps : List String) (args : List β), ps.Nodup → ps.length = args.length →
      ∀ i (h : i < ps.length) (h' : i < args.length), (ps.zip args).lookup ps[i] = some args[i]
  | [], _, _, _, i, h, _ => by simp at h
  | p :: ps, [], _, hl, _, _, _ => by simp at hl
  | p :: ps, a :: as, hn, hl, 0, _, _ => by simp
  | p :: ps, a :: as, hn, hl, i + 1, h, h' => by
    have hn' := List.nodup_cons.mp hn
    have hne : (ps[i]'(by simpa using h) == p) = false := by
      rw [beq_eq_false_iff_ne]
      intro he
      exact hn'.1 (he ▸ List.getElem_mem _)
    simp only [List.zip_cons_cons, List.getElem_cons_succ, List.lookup, hne]
    exact lookup_zip_getElem ps as hn'.2 (by simpa using hl) i _ _

theorem lookup_append_getElem {β : Type} :
    ∀ (L X : List (String × β)), (L.map Prod.fst).Nodup →
      ∀ i (h : i < L.length), (L ++ X).lookup L[i].1 = some L[i].2
  | [], _, _, i, h => by simp at h
  | (n, v) :: L, X, hn, 0, _ => by simp
  | (n, v) :: L, X, hn, i + 1, h => by
    have hn' : n ∉ L.map Prod.fst ∧ (L.map Prod.fst).Nodup := List.nodup_cons.mp hn
    have hne : ((L[i]'(by simpa using h)).1 == n) = false := by
      rw [beq_eq_false_iff_ne]
      intro he
      exact hn'.1 (he ▸ List.mem_map_of_mem (List.getElem_mem _))
    simp only [List.cons_append, List.getElem_cons_succ, List.lookup, hne]
    exact lookup_append_getElem L X hn'.2 i _

theorem lookup_append_of_not_mem {β : Type} (n : String) :
    ∀ (L X : List (String × β)), n ∉ L.map Prod.fst → (L ++ X).lookup n = X.lookup n
  | [], _, _ => rfl
  | (m, v) :: L, X, h => by
    have h' : n ≠ m ∧ n ∉ L.map Prod.fst := by simpa using h
    have : (n == m) = false := by rw [beq_eq_false_iff_ne]; exact h'.1
    simp only [List.cons_append, List.lookup, this]
    exact lookup_append_of_not_mem n L X h'.2

theorem filterMap_lookup_eq_zipWith {κ β γ : Type} (key : κ → String) (g : κ → β → γ)
    (E : List (String × β)) :
    ∀ (ks : List κ) (args : List β), ks.length = args.length →
      (∀ i (h : i < ks.length) (h' : i < args.length), E.lookup (key ks[i]) = some args[i]) →
      ks.filterMap (fun k => (E.lookup (key k)).map (g k)) = List.zipWith g ks args
  | [], [], _, _ => rfl
  | [], _ :: _, hl, _ => by simp at hl
  | _ :: _, [], hl, _ => by simp at hl
  | k :: ks, a :: as, hl, h => by
    have h0 := h 0 (by simp) (by simp)
    simp only [List.getElem_cons_zero] at h0
    rw [List.filterMap_cons, h0]
    simp only [Option.map_some, List.zipWith_cons_cons]
    congr 1
    exact filterMap_lookup_eq_zipWith key g E ks as (by simpa using hl)
      (fun i hi hi' => by
        have := h (i + 1) (by simpa using hi) (by simpa using hi')
        simp only [List.getElem_cons_succ] at this
        exact this)

theorem getAll_eq_some {V : Type} (o : Obj V) :
    ∀ (names : List String) (vals : List V), names.length = vals.length →
      (∀ i (h : i < names.length) (h' : i < vals.length), getattr o names[i] = some vals[i]) →
      getAll o names = some vals
  | [], [], _, _ => rfl
  | [], _ :: _, hl, _ => by simp at hl
  | _ :: _, [], hl, _ => by simp at hl
  | n :: ns, v :: vs, hl, h => by
    have h0 := h 0 (by simp) (by simp)
    simp only [List.getElem_cons_zero] at h0
    have ih := getAll_eq_some o ns vs (by simpa using hl)
      (fun i hi hi' => by
        have := h (i + 1) (by simpa using hi) (by simpa using hi')
        simp only [List.getElem_cons_succ] at this
        exact this)
    simp [getAll, h0, ih]


/-! ### the object protocol -/

section Obj
variable {V : Type}

/-- The facts about one class (all decidable on the generated data) under which `cls(*state)`
    rebuilds an object from `_pickle`'s state and `__eq__`/`_hash` range over the same values. -/
def WF (c : ClassInfo) : Prop :=
  c.initShapeOk = true ∧ c.hashIsLastSlot = true ∧ c.slotsButLast = c.initParams ∧
  c.kwargs.map (·.name) = c.initParams ∧ c.kwargs.map (·.param) = c.initParams ∧
  c.initParams.Nodup ∧ c.slots.filter (· != "_hash") = c.initParams ∧
  (∀ k ∈ c.kwargs, k.expr ≠ .unknown)

instance (c : ClassInfo) : Decidable (WF c) := by unfold WF; infer_instance

/-- The slot values of `cls(*args)`, in slot order. -/
def normArgs (vo : ValOps V) (c : ClassInfo) (args : List V) : List V :=
  List.zipWith (fun k v => normKwarg vo k.expr v) c.kwargs args

def boundList (vo : ValOps V) (c : ClassInfo) (args : List V) : List (String × V) :=
  List.zipWith (fun (k : Kwarg) v => (k.name, normKwarg vo k.expr v)) c.kwargs args

theorem map_fst_zipWith {κ β γ : Type} (f : κ → String) (g : κ → β → γ) :
    ∀ (ks : List κ) (args : List β), ks.length = args.length →
      (List.zipWith (fun k v => (f k, g k v)) ks args).map Prod.fst = ks.map f
  | [], [], _ => rfl
  | [], _ :: _, hl => by simp at hl
  | _ :: _, [], hl => by simp at hl
  | k :: ks, a :: as, hl => by
    simp only [List.zipWith_cons_cons, List.map_cons]
    rw [map_fst_zipWith f g ks as (by simpa using hl)]

theorem map_snd_zipWith {κ β γ : Type} (f : κ → String) (g : κ → β → γ) :
    ∀ (ks : List κ) (args : List β),
      (List.zipWith (fun k v => (f k, g k v)) ks args).map Prod.snd = List.zipWith g ks args
  | [], _ => by simp
  | _ :: _, [] => by simp
  | k :: ks, a :: as => by
    simp only [List.zipWith_cons_cons, List.map_cons]
    rw [map_snd_zipWith f g ks as]

theorem WF.kwargs_length {c : ClassInfo} (h : WF c) : c.kwargs.length = c.initParams.length := by
  have := congrArg List.length h.2.2.2.1
  simpa using this

theorem WF.hash_not_param {c : ClassInfo} (h : WF c) : "_hash" ∉ c.initParams := by
  intro hm
  rw [← h.2.2.2.2.2.2.1] at hm
  simp at hm

theorem kwargsBound_eq (vo : ValOps V) {c : ClassInfo} (h : WF c) (args : List V)
    (hl : args.length = c.initParams.length) : kwargsBound vo c args = boundList vo c args := by
  unfold kwargsBound boundList
  apply filterMap_lookup_eq_zipWith (key := fun k : Kwarg => k.param)
    (g := fun (k : Kwarg) v => (k.name, normKwarg vo k.expr v)) (E := c.initParams.zip args)
  · rw [h.kwargs_length, hl]
  · intro i hi hi'
    have hi2 : i < c.initParams.length := by rw [← h.kwargs_length]; exact hi
    have e : c.kwargs[i].param = c.initParams[i] := by
      have := List.getElem_map (fun k : Kwarg => k.param) (l := c.kwargs) (i := i) (h := by simpa using hi)
      rw [← this]
      simp only [h.2.2.2.2.1]
    rw [e]
    exact lookup_zip_getElem c.initParams args h.2.2.2.2.2.1 hl.symm i hi2 hi'

theorem boundList_keys (vo : ValOps V) {c : ClassInfo} (h : WF c) (args : List V)
    (hl : args.length = c.initParams.length) :
    (boundList vo c args).map Prod.fst = c.initParams := by
  unfold boundList
  rw [map_fst_zipWith (fun k : Kwarg => k.name) (fun k v => normKwarg vo k.expr v) c.kwargs args
    (by rw [h.kwargs_length, hl])]
  exact h.2.2.2.1

theorem boundList_vals (vo : ValOps V) (c : ClassInfo) (args : List V) :
    (boundList vo c args).map Prod.snd = normArgs vo c args :=
  map_snd_zipWith (fun k : Kwarg => k.name) (fun k v => normKwarg vo k.expr v) c.kwargs args

theorem normArgs_length (vo : ValOps V) {c : ClassInfo} (h : WF c) (args : List V)
    (hl : args.length = c.initParams.length) : (normArgs vo c args).length = c.initParams.length := by
  unfold normArgs
  rw [List.length_zipWith, h.kwargs_length, hl, Nat.min_self]

theorem construct_slots (vo : ValOps V) {c : ClassInfo} (h : WF c) (args : List V)
    (hl : args.length = c.initParams.length) :
    (construct vo c args).slots =
      boundList vo c args ++
        [("_hash", vo.ofInt (initHash vo c.initHashKind (boundList vo c args)))] := by
  simp only [construct, kwargsBound_eq vo h args hl]

/-- `getattr` of the `i`-th constructor slot of a constructed object. -/
theorem getattr_construct (vo : ValOps V) {c : ClassInfo} (h : WF c) (args : List V)
    (hl : args.length = c.initParams.length) (i : Nat) (hi : i < c.initParams.length)
    (hi' : i < (normArgs vo c args).length) :
    getattr (construct vo c args) c.initParams[i] = some (normArgs vo c args)[i] := by
  unfold getattr
  rw [construct_slots vo h args hl]
  have hk := boundList_keys vo h args hl
  have hv := boundList_vals vo c args
  have hlen : i < (boundList vo c args).length := by
    have := congrArg List.length hk
    simp only [List.length_map] at this
    omega
  have := lookup_append_getElem (boundList vo c args)
    [("_hash", vo.ofInt (initHash vo c.initHashKind (boundList vo c args)))]
    (by rw [hk]; exact h.2.2.2.2.2.1) i hlen
  have e1 : (boundList vo c args)[i].1 = c.initParams[i] := by
    have := List.getElem_map Prod.fst (l := boundList vo c args) (i := i) (h := by simpa using hlen)
    rw [← this]; simp only [hk]
  have e2 : (boundList vo c args)[i].2 = (normArgs vo c args)[i] := by
    have := List.getElem_map Prod.snd (l := boundList vo c args) (i := i) (h := by simpa using hlen)
    rw [← this]; simp only [hv]
  rw [e1, e2] at this
  exact this

theorem getattr_hash_construct (vo : ValOps V) {c : ClassInfo} (h : WF c) (args : List V)
    (hl : args.length = c.initParams.length) :
    getattr (construct vo c args) "_hash" =
      some (vo.ofInt (initHash vo c.initHashKind (boundList vo c args))) := by
  unfold getattr
  rw [construct_slots vo h args hl, lookup_append_of_not_mem]
  · simp [List.lookup]
  · rw [boundList_keys vo h args hl]; exact h.hash_not_param

/-- `_pickle` on a constructed object returns its class and its slot values. -/
theorem reduce_construct (vo : ValOps V) {c : ClassInfo} (h : WF c) (args : List V)
    (hl : args.length = c.initParams.length) :
    reduce c (construct vo c args) = some (c.name, normArgs vo c args) := by
  unfold reduce
  rw [h.2.2.1, getAll_eq_some (construct vo c args) c.initParams (normArgs vo c args)
    (normArgs_length vo h args hl).symm
    (fun i hi hi' => getattr_construct vo h args hl i hi hi')]
  rfl

theorem normKwarg_idem (vo : ValOps V) (hv : vo.Lawful) (e : KwargExpr) (v : V) :
    normKwarg vo e (normKwarg vo e v) = normKwarg vo e v := by
  cases e with
  | param => rfl
  | tupleOfParam => exact hv.toTuple_idem v
  | tupleOfParamOrEmpty =>
    simp only [normKwarg]
    by_cases hn : vo.isNone v = true
    · simp [hn, hv.empty_notNone, hv.toTuple_empty]
    · simp [hn, hv.toTuple_notNone, hv.toTuple_idem]
  | unknown => rfl

theorem zipWith_idem {κ β γ : Type} (g : κ → β → β) (g' : κ → β → γ)
    (hg : ∀ k v, g' k (g k v) = g' k v) :
    ∀ (ks : List κ) (args : List β), List.zipWith g' ks (List.zipWith g ks args) = List.zipWith g' ks args
  | [], _ => by simp
  | _ :: _, [] => by simp
  | k :: ks, a :: as => by
    simp only [List.zipWith_cons_cons, hg, zipWith_idem g g' hg ks as]

theorem boundList_normArgs (vo : ValOps V) (hv : vo.Lawful) (c : ClassInfo) (args : List V) :
    boundList vo c (normArgs vo c args) = boundList vo c args := by
  unfold boundList normArgs
  exact zipWith_idem (fun (k : Kwarg) v => normKwarg vo k.expr v)
    (fun (k : Kwarg) v => (k.name, normKwarg vo k.expr v))
    (fun k v => by simp only [normKwarg_idem vo hv]) c.kwargs args

/-- Constructing from the slot values gives the same object (the constructors only normalise). -/
theorem construct_normArgs (vo : ValOps V) (hv : vo.Lawful) {c : ClassInfo} (h : WF c)
    (args : List V) (hl : args.length = c.initParams.length) :
    construct vo c (normArgs vo c args) = construct vo c args := by
  have hl' := normArgs_length vo h args hl
  simp only [construct, kwargsBound_eq vo h args hl, kwargsBound_eq vo h _ hl',
    boundList_normArgs vo hv]

/-- `cls(*_pickle(o)[1]) = o` for every object built by the constructor. -/
theorem rebuild_construct (vo : ValOps V) (hv : vo.Lawful) {c : ClassInfo} (h : WF c)
    (args : List V) (hl : args.length = c.initParams.length) :
    rebuild vo c (construct vo c args) = some (construct vo c args) := by
  unfold rebuild
  rw [reduce_construct vo h args hl]
  simp only [Option.map_some, construct_normArgs vo hv h args hl]

end Obj

section EqHash
variable {V : Type}

/-- `Immutable.__eq__` spelled out: same class, and every slot but `_hash` compares equal. -/
theorem eqObj_iff (vo : ValOps V) (c : ClassInfo) (self other : Obj V) :
    eqObj vo c self other = true ↔
      other.cls = self.cls ∧
      ∀ k ∈ c.slots, k ≠ "_hash" →
        ∃ x y, getattr other k = some x ∧ getattr self k = some y ∧ vo.eq x y = true := by
  unfold eqObj
  simp only [Bool.and_eq_true, beq_iff_eq, List.all_eq_true, List.mem_filter, bne_iff_ne, ne_eq,
    and_imp]
  constructor
  · rintro ⟨hc, h⟩
    refine ⟨hc, fun k hk hne => ?_⟩
    have := h k hk hne
    split at this
    · next x y hx hy => exact ⟨x, y, hx, hy, this⟩
    · exact absurd this (by simp)
  · rintro ⟨hc, h⟩
    refine ⟨hc, fun k hk hne => ?_⟩
    obtain ⟨x, y, hx, hy, he⟩ := h k hk hne
    simp [hx, hy, he]

/-- On constructed objects `__eq__` compares the slot values pairwise. -/
theorem eqObj_construct_iff (vo : ValOps V) {c : ClassInfo} (h : WF c) (xs ys : List V)
    (hx : xs.length = c.initParams.length) (hy : ys.length = c.initParams.length) :
    eqObj vo c (construct vo c xs) (construct vo c ys) = true ↔
      ∀ i (h₁ : i < (normArgs vo c ys).length) (h₂ : i < (normArgs vo c xs).length),
        vo.eq (normArgs vo c ys)[i] (normArgs vo c xs)[i] = true := by
  have lx := normArgs_length vo h xs hx
  have ly := normArgs_length vo h ys hy
  unfold eqObj
  rw [h.2.2.2.2.2.2.1]
  simp only [construct, beq_self_eq_true, Bool.true_and, List.all_eq_true]
  rw [List.forall_mem_iff_forall_getElem]
  constructor
  · intro hall i h₁ h₂
    have := hall i (by omega)
    rw [show (⟨c.name, kwargsBound vo c ys ++ _⟩ : Obj V) = construct vo c ys from rfl,
      show (⟨c.name, kwargsBound vo c xs ++ _⟩ : Obj V) = construct vo c xs from rfl,
      getattr_construct vo h ys hy i (by omega) h₁,
      getattr_construct vo h xs hx i (by omega) h₂] at this
    exact this
  · intro hall i hi
    rw [show (⟨c.name, kwargsBound vo c ys ++ _⟩ : Obj V) = construct vo c ys from rfl,
      show (⟨c.name, kwargsBound vo c xs ++ _⟩ : Obj V) = construct vo c xs from rfl,
      getattr_construct vo h ys hy i hi (by omega),
      getattr_construct vo h xs hx i hi (by omega)]
    exact hall i (by omega) (by omega)

theorem initHash_values (vo : ValOps V) (c : ClassInfo) (hk : c.initHashKind = .tupleOfValuesOverKwargs)
    (args : List V) :
    initHash vo c.initHashKind (boundList vo c args) =
      vo.tupleHash ((normArgs vo c args).map vo.hash) := by
  rw [hk]
  simp only [initHash]
  rw [← boundList_vals vo c args, List.map_map]
  rfl

/-- Equal objects have equal stored hashes, when the hash ranges over the slot values only. -/
theorem hash_congr_construct (vo : ValOps V) (hv : vo.Lawful) {c : ClassInfo} (h : WF c)
    (hk : c.initHashKind = .tupleOfValuesOverKwargs) (xs ys : List V)
    (hx : xs.length = c.initParams.length) (hy : ys.length = c.initParams.length)
    (he : eqObj vo c (construct vo c xs) (construct vo c ys) = true) :
    getattr (construct vo c xs) "_hash" = getattr (construct vo c ys) "_hash" := by
  rw [getattr_hash_construct vo h xs hx, getattr_hash_construct vo h ys hy,
    initHash_values vo c hk, initHash_values vo c hk]
  have lx := normArgs_length vo h xs hx
  have ly := normArgs_length vo h ys hy
  have hall := (eqObj_construct_iff vo h xs ys hx hy).mp he
  have : (normArgs vo c xs).map vo.hash = (normArgs vo c ys).map vo.hash := by
    apply List.ext_getElem
    · simp [lx, ly]
    · intro i h₁ h₂
      simp only [List.getElem_map]
      exact (hv.hash_eq _ _ (hall i (by simpa using h₂) (by simpa using h₁))).symm
  rw [this]

theorem eqObj_refl_construct (vo : ValOps V) (hrefl : ∀ v, vo.eq v v = true) {c : ClassInfo}
    (h : WF c) (xs : List V) (hx : xs.length = c.initParams.length) :
    eqObj vo c (construct vo c xs) (construct vo c xs) = true :=
  (eqObj_construct_iff vo h xs xs hx hx).mpr (fun _ _ _ => hrefl _)

end EqHash

/-! ### frozen objects -/

section Frozen
variable {V : Type}

theorem applyOp_frozen (vo : ValOps V) (c : ClassInfo)
    (hs : c.setattrKind = .raisesAttributeError) (hd : c.delattrKind = .raisesAttributeError)
    (o : Obj V) (op : ObjOp V) : (applyOp vo c o op).1 = o := by
  cases op <;> simp only [applyOp, hs, hd, if_true] <;> (repeat' split) <;> rfl

theorem run_frozen (vo : ValOps V) (c : ClassInfo)
    (hs : c.setattrKind = .raisesAttributeError) (hd : c.delattrKind = .raisesAttributeError) :
    ∀ (ops : List (ObjOp V)) (o : Obj V), run vo c ops o = o
  | [], _ => rfl
  | op :: ops, o => by
    show run vo c ops (applyOp vo c o op).1 = o
    rw [applyOp_frozen vo c hs hd]
    exact run_frozen vo c hs hd ops o

end Frozen

/-! ### the LRU machine -/

section LRU
variable {K E W : Type} [DecidableEq K]

def keys (l : List (K × W)) : List K := l.map Prod.fst

omit [DecidableEq K] in
@[simp] theorem keys_cons (p : K × W) (l : List (K × W)) : keys (p :: l) = p.1 :: keys l := rfl
omit [DecidableEq K] in
@[simp] theorem keys_nil : keys ([] : List (K × W)) = [] := rfl

theorem find_some_mem (k : K) : ∀ (l : List (K × W)) (v : W), find k l = some v → (k, v) ∈ l
  | [], _, h => by simp [find] at h
  | (k', v') :: rest, v, h => by
    simp only [find] at h
    split at h
    · next he => cases h; subst he; simp
    · exact List.mem_cons_of_mem _ (find_some_mem k rest v h)

theorem find_eq_none_iff (k : K) : ∀ (l : List (K × W)), find k l = none ↔ k ∉ keys l
  | [] => by simp [find]
  | (k', v') :: rest => by
    simp only [find, keys_cons, List.mem_cons, not_or]
    split
    · next he => simp [he]
    · next he =>
      rw [find_eq_none_iff k rest]
      constructor
      · intro h; exact ⟨fun e => he e.symm, h⟩
      · intro h; exact h.2

theorem find_isSome_of_mem (k : K) (l : List (K × W)) (h : k ∈ keys l) : ∃ v, find k l = some v := by
  cases hf : find k l with
  | some v => exact ⟨v, rfl⟩
  | none => exact absurd h ((find_eq_none_iff k l).mp hf)

/-- on duplicate-free keys, removing the entry of `k` is filtering `k` out -/
theorem keys_remove (k : K) : ∀ (l : List (K × W)), (keys l).Nodup →
    keys (remove k l) = (keys l).filter (· ≠ k)
  | [], _ => rfl
  | (k', v') :: rest, hn => by
    have hn' : k' ∉ keys rest ∧ (keys rest).Nodup := List.nodup_cons.mp hn
    simp only [remove, keys_cons]
    split
    · next he =>
      subst he
      rw [List.filter_cons_of_neg (by simp)]
      symm
      rw [List.filter_eq_self]
      intro a ha
      simp only [ne_eq, decide_not, Bool.not_eq_eq_eq_not, Bool.not_true, decide_eq_false_iff_not]
      intro e; exact hn'.1 (e ▸ ha)
    · next he =>
      rw [List.filter_cons_of_pos (by simpa using he), keys_cons, keys_remove k rest hn'.2]

theorem remove_sublist (k : K) : ∀ (l : List (K × W)), (remove k l).Sublist l
  | [] => List.Sublist.refl _
  | (k', v') :: rest => by
    simp only [remove]
    split
    · exact List.sublist_cons_self _ _
    · exact (remove_sublist k rest).cons_cons _

theorem length_remove (k : K) : ∀ (l : List (K × W)), k ∈ keys l → (remove k l).length + 1 = l.length
  | [], h => by simp at h
  | (k', v') :: rest, h => by
    simp only [remove]
    split
    · simp
    · next he =>
      have : k ∈ keys rest := by
        simp only [keys_cons, List.mem_cons] at h
        rcases h with h | h
        · exact absurd h.symm he
        · exact h
      simp [length_remove k rest this]

/-- The invariant of the cache. -/
structure Inv (N : Nat) (parse : K → Except E W) (s : State K W) : Prop where
  sound : ∀ p ∈ s.entries, parse p.1 = .ok p.2
  nodup : (keys s.entries).Nodup
  bounded : s.entries.length ≤ N
  size : s.currsize = s.entries.length

omit [DecidableEq K] in
theorem inv_empty (N : Nat) (parse : K → Except E W) : Inv N parse (State.empty : State K W) :=
  ⟨by simp [State.empty], by simp [State.empty], by simp [State.empty], rfl⟩

omit [DecidableEq K] in
theorem entries_miss_eq_take (N : Nat) (e : List (K × W)) (p : K × W) (hb : e.length ≤ N) :
    (if e.length + 1 > N then (p :: e).dropLast else p :: e) = (p :: e).take N := by
  split
  · next h =>
    have : e.length = N := by omega
    rw [List.dropLast_eq_take]
    simp [this]
  · next h =>
    rw [List.take_of_length_le (by simp; omega)]

theorem inv_compile (N : Nat) (parse : K → Except E W) (s : State K W) (k : K)
    (h : Inv N parse s) : Inv N parse (compile N parse s k).1 := by
  unfold compile
  split
  · next v hf =>
    have hm := find_some_mem k _ v hf
    have hk : k ∈ keys s.entries := List.mem_map_of_mem (f := Prod.fst) hm
    refine ⟨?_, ?_, ?_, ?_⟩
    · intro p hp
      simp only [List.mem_cons] at hp
      rcases hp with rfl | hp
      · exact h.sound _ hm
      · exact h.sound _ ((remove_sublist k _).subset hp)
    · simp only [keys_cons]
      rw [keys_remove k _ h.nodup]
      refine List.nodup_cons.mpr ⟨by simp, h.nodup.filter _⟩
    · simp only [List.length_cons]
      have := length_remove k _ hk
      have := h.bounded
      omega
    · simp only [List.length_cons]
      have := length_remove k _ hk
      rw [h.size]; omega
  · next hf =>
    have hk : k ∉ keys s.entries := (find_eq_none_iff k _).mp hf
    split
    · exact ⟨h.sound, h.nodup, h.bounded, h.size⟩
    · next v hp =>
      have hsound : ∀ p ∈ (k, v) :: s.entries, parse p.1 = .ok p.2 := by
        intro p hp'
        simp only [List.mem_cons] at hp'
        rcases hp' with rfl | hp'
        · exact hp
        · exact h.sound _ hp'
      have hnd : (keys ((k, v) :: s.entries)).Nodup := List.nodup_cons.mpr ⟨hk, h.nodup⟩
      split
      · next hfull =>
        have hsub : (((k, v) :: s.entries).dropLast).Sublist ((k, v) :: s.entries) :=
          List.dropLast_sublist _
        refine ⟨fun p hp' => hsound p (hsub.subset hp'), hnd.sublist (hsub.map _), ?_, ?_⟩
        · simp only [List.length_dropLast, List.length_cons]
          have := h.bounded; omega
        · simp only [List.length_dropLast, List.length_cons]
          rw [h.size]; omega
      · next hroom =>
        refine ⟨hsound, hnd, ?_, ?_⟩
        · simp only [List.length_cons]; omega
        · simp only [List.length_cons]; rw [h.size]

theorem inv_step (N : Nat) (parse : K → Except E W) (s : State K W) (op : CacheOp K)
    (h : Inv N parse s) : Inv N parse (step N parse s op) := by
  cases op with
  | compile k => exact inv_compile N parse s k h
  | purge => exact inv_empty N parse

theorem inv_runFrom (N : Nat) (parse : K → Except E W) :
    ∀ (ops : List (CacheOp K)) (s : State K W), Inv N parse s → Inv N parse (runFrom N parse s ops)
  | [], _, h => h
  | op :: ops, s, h => inv_runFrom N parse ops _ (inv_step N parse s op h)

theorem inv_runOps (N : Nat) (parse : K → Except E W) (ops : List (CacheOp K)) :
    Inv N parse (runOps N parse ops) :=
  inv_runFrom N parse ops _ (inv_empty N parse)

/-- In a state satisfying the invariant `compile k` returns `parse k`. -/
theorem compile_result (N : Nat) (parse : K → Except E W) (s : State K W) (k : K)
    (h : Inv N parse s) : (compile N parse s k).2 = parse k := by
  unfold compile
  split
  · next v hf => exact (h.sound _ (find_some_mem k _ v hf)).symm
  · split
    · next e he => exact he.symm
    · next v hv => split <;> exact hv.symm

/-! #### recency -/

theorem filter_take_of_mem (k : K) : ∀ (r : List K) (n : Nat), r.Nodup → k ∈ r.take n →
    (r.take n).filter (· ≠ k) = (r.filter (· ≠ k)).take (n - 1)
  | [], n, _, h => by simp at h
  | a :: r, 0, _, h => by simp at h
  | a :: r, m + 1, hn, h => by
    have hn' : a ∉ r ∧ r.Nodup := List.nodup_cons.mp hn
    simp only [List.take_succ_cons, List.mem_cons] at h
    by_cases hak : a = k
    · subst hak
      have hfr : r.filter (· ≠ a) = r := by
        rw [List.filter_eq_self]; intro x hx
        simp only [ne_eq, decide_not, Bool.not_eq_eq_eq_not, Bool.not_true, decide_eq_false_iff_not]
        intro e; exact hn'.1 (e ▸ hx)
      have hft : (r.take m).filter (· ≠ a) = r.take m := by
        rw [List.filter_eq_self]; intro x hx
        simp only [ne_eq, decide_not, Bool.not_eq_eq_eq_not, Bool.not_true, decide_eq_false_iff_not]
        intro e; exact hn'.1 (e ▸ List.mem_of_mem_take hx)
      simp only [List.take_succ_cons]
      rw [List.filter_cons_of_neg (by simp), List.filter_cons_of_neg (by simp), hft, hfr]
      simp
    · have hk : k ∈ r.take m := by
        rcases h with h | h
        · exact absurd h.symm hak
        · exact h
      have hm : m ≠ 0 := by intro e; subst e; simp at hk
      obtain ⟨m', rfl⟩ := Nat.exists_eq_succ_of_ne_zero hm
      simp only [List.take_succ_cons]
      rw [List.filter_cons_of_pos (by simpa using hak), List.filter_cons_of_pos (by simpa using hak),
        filter_take_of_mem k r (m' + 1) hn'.2 hk]
      simp

theorem take_filter_of_not_mem (k : K) : ∀ (r : List K) (n : Nat), k ∉ r.take n →
    (r.filter (· ≠ k)).take n = r.take n
  | [], _, _ => by simp
  | a :: r, 0, _ => by simp
  | a :: r, m + 1, h => by
    simp only [List.take_succ_cons, List.mem_cons, not_or] at h
    rw [List.filter_cons_of_pos (by simpa using fun e => h.1 e.symm)]
    simp only [List.take_succ_cons]
    rw [take_filter_of_not_mem k r m h.2]

/-- The refinement relation between the machine and the recency list. -/
structure Rel (N : Nat) (s : State K W) (r : List K) : Prop where
  keys_eq : keys s.entries = r.take N
  nodup : r.Nodup

theorem rel_step (N : Nat) (parse : K → Except E W) (s : State K W) (r : List K) (op : CacheOp K)
    (hi : Inv N parse s) (h : Rel N s r) : Rel N (step N parse s op) (recStep parse r op) := by
  cases op with
  | purge => exact ⟨by simp [step, purge, State.empty, recStep], by simp [recStep]⟩
  | compile k =>
    simp only [step, recStep]
    cases hf : find k s.entries with
    | some v =>
      have hm := find_some_mem k _ v hf
      have hk : k ∈ keys s.entries := List.mem_map_of_mem (f := Prod.fst) hm
      have hpk : parse k = .ok v := hi.sound _ hm
      simp only [compile, hf, hpk]
      refine ⟨?_, List.nodup_cons.mpr ⟨by simp, h.nodup.filter _⟩⟩
      simp only [keys_cons]
      rw [keys_remove k _ hi.nodup, h.keys_eq]
      rw [h.keys_eq] at hk
      have hN : N ≠ 0 := by intro e; subst e; simp at hk
      obtain ⟨n, rfl⟩ := Nat.exists_eq_succ_of_ne_zero hN
      rw [filter_take_of_mem k r (n + 1) h.nodup hk]
      simp
    | none =>
      have hk : k ∉ keys s.entries := (find_eq_none_iff k _).mp hf
      cases hp : parse k with
      | error e =>
        simp only [compile, hf, hp]
        exact ⟨h.keys_eq, h.nodup⟩
      | ok v =>
        simp only [compile, hf, hp]
        refine ⟨?_, List.nodup_cons.mpr ⟨by simp, h.nodup.filter _⟩⟩
        have hent := entries_miss_eq_take N s.entries (k, v) hi.bounded
        have : keys (if s.entries.length + 1 > N then ((k, v) :: s.entries).dropLast
            else (k, v) :: s.entries) = (k :: r.filter (· ≠ k)).take N := by
          rw [hent]
          unfold keys
          rw [List.map_take]
          show (k :: keys s.entries).take N = _
          rw [h.keys_eq]
          rw [h.keys_eq] at hk
          cases N with
          | zero => simp
          | succ n =>
            simp only [List.take_succ_cons]
            rw [List.take_take, Nat.min_eq_left (Nat.le_succ n)]
            have hk' : k ∉ r.take n := fun hm => hk (List.take_subset_take_left r (Nat.le_succ n) hm)
            rw [take_filter_of_not_mem k r n hk']
        split
        · next hfull => simpa [hfull] using this
        · next hroom => simpa [hroom] using this

theorem rel_runFrom (N : Nat) (parse : K → Except E W) :
    ∀ (ops : List (CacheOp K)) (s : State K W) (r : List K), Inv N parse s → Rel N s r →
      Rel N (runFrom N parse s ops) (ops.foldl (recStep parse) r)
  | [], _, _, _, h => h
  | op :: ops, s, r, hi, h =>
    rel_runFrom N parse ops _ _ (inv_step N parse s op hi) (rel_step N parse s r op hi h)

end LRU

/-! ### `ImmutableDict`: equality and hash do not depend on the insertion order -/

theorem itemLe_trans (a b c : Nat × Nat) : itemLe a b = true → itemLe b c = true → itemLe a c = true := by
  unfold itemLe
  simp only [Bool.or_eq_true, decide_eq_true_eq, Bool.and_eq_true, beq_iff_eq]
  omega

theorem itemLe_total (a b : Nat × Nat) : (itemLe a b || itemLe b a) = true := by
  unfold itemLe
  simp only [Bool.or_eq_true, decide_eq_true_eq, Bool.and_eq_true, beq_iff_eq]
  omega

theorem itemLe_antisymm (a b : Nat × Nat) : itemLe a b = true → itemLe b a = true → a = b := by
  unfold itemLe
  simp only [Bool.or_eq_true, decide_eq_true_eq, Bool.and_eq_true, beq_iff_eq]
  intro h₁ h₂
  apply Prod.ext <;> omega

theorem mergeSort_eq_of_perm (m₁ m₂ : Items) (h : m₁.Perm m₂) :
    m₁.mergeSort itemLe = m₂.mergeSort itemLe := by
  apply List.Perm.eq_of_pairwise (le := fun a b => itemLe a b = true)
  · intro a b _ _; exact itemLe_antisymm a b
  · exact List.pairwise_mergeSort itemLe_trans itemLe_total m₁
  · exact List.pairwise_mergeSort itemLe_trans itemLe_total m₂
  · exact (List.mergeSort_perm m₁ itemLe).trans (h.trans (List.mergeSort_perm m₂ itemLe).symm)

theorem dictHash_perm (kind : DictHashKind) (th : List Nat → Nat) (ih : Nat × Nat → Nat)
    (m₁ m₂ : Items) (h : m₁.Perm m₂) : dictHash kind th ih m₁ = dictHash kind th ih m₂ := by
  cases kind with
  | sortedItems => simp only [dictHash, mergeSort_eq_of_perm m₁ m₂ h]
  | sortedItemsTypeAndValue => simp only [dictHash, mergeSort_eq_of_perm m₁ m₂ h]
  | unknown => rfl

theorem mem_of_lookup : ∀ (m : Items) (k v : Nat), m.lookup k = some v → (k, v) ∈ m
  | [], _, _, h => by simp at h
  | (k', v') :: m, k, v, h => by
    simp only [List.lookup] at h
    split at h
    · next he =>
      have : k = k' := by simpa using he
      cases h; subst this; simp
    · exact List.mem_cons_of_mem _ (mem_of_lookup m k v h)

theorem nodup_of_keys_nodup : ∀ (m : Items), (m.map Prod.fst).Nodup → m.Nodup
  | [], _ => List.nodup_nil
  | p :: m, h => by
    have h' : p.1 ∉ m.map Prod.fst ∧ (m.map Prod.fst).Nodup := List.nodup_cons.mp h
    exact List.nodup_cons.mpr ⟨fun hm => h'.1 (List.mem_map_of_mem hm), nodup_of_keys_nodup m h'.2⟩

/-- `Mapping.__eq__` on dicts (duplicate-free keys): equal iff same items in some order. -/
theorem perm_of_dictEq (m₁ m₂ : Items) (h₁ : (m₁.map Prod.fst).Nodup)
    (h : dictEq m₁ m₂ = true) : m₁.Perm m₂ := by
  unfold dictEq at h
  simp only [Bool.and_eq_true, beq_iff_eq, List.all_eq_true] at h
  have hsub : m₁ ⊆ m₂ := fun p hp => mem_of_lookup m₂ p.1 p.2 (h.2 p hp)
  exact (List.subperm_of_subset (nodup_of_keys_nodup m₁ h₁) hsub).perm_of_length_le (by omega)

end CacheLemmas
end SoupVerif
