/-
  Invariants of the three loops of `Nth.matchOne` (model of `CSSMatch.match_nth`), used by
  `Properties/C02`.

  Notation: the walk is `pre ++ e :: post`, `e` is the subject element, `pos` is its 1-based
  position among the counted nodes, `lastIndex + 1 = walk.length`.
-/
import SoupVerif.Model.Nth
import SoupVerif.Spec.Nth
import Mathlib.Tactic.Linarith
import Mathlib.Tactic.Ring

namespace SoupVerif
namespace NthLemmas
open Nth

/-! ### Arithmetic helpers (the only non-linear facts used) -/

theorem mul_succ' (a c : Int) : a * (c + 1) = a * c + a := by ring
theorem mul_pred' (a c : Int) : a * (c + -1) = a * c - a := by ring

theorem mono_pos {a m n : Int} (ha : 0 < a) (h : m ≤ n) : a * m ≤ a * n := by nlinarith
theorem mono_neg {a m n : Int} (ha : a < 0) (h : m ≤ n) : a * n ≤ a * m := by nlinarith

/-! ### The inner `for` loop -/

/-- State invariant of the sibling walk: what is left of the walk still contains the subject
    element `e`, no earlier node is `el`, and `rel` counted nodes have been consumed so that `e`
    is the `pos`-th counted node overall. -/
def Inv {α} (counted isEl : α → Bool) (pos : Int) (rest : List α) (rel : Int) : Prop :=
  ∃ pre e post, rest = pre ++ e :: post ∧ (∀ x ∈ pre, isEl x = false) ∧ isEl e = true ∧
    counted e = true ∧ rel + ((pre.filter counted).length : Int) + 1 = pos

theorem inner_spec {α} (counted isEl : α → Bool) (idx pos : Int) (e : α) (post : List α)
    (he : isEl e = true) (hc : counted e = true) :
    ∀ (pre : List α) (rel : Int), (∀ x ∈ pre, isEl x = false) →
      rel + ((pre.filter counted).length : Int) + 1 = pos →
      (idx = pos → inner counted isEl idx (pre ++ e :: post) rel = .hit true) ∧
      (idx ≤ rel ∨ pos < idx → inner counted isEl idx (pre ++ e :: post) rel = .hit false) ∧
      (rel < idx → idx < pos → ∃ pre', (∀ x ∈ pre', isEl x = false) ∧
          idx + ((pre'.filter counted).length : Int) + 1 = pos ∧
          inner counted isEl idx (pre ++ e :: post) rel = .cont (pre' ++ e :: post) idx) := by
  intro pre
  induction pre with
  | nil =>
    intro rel _ hpos
    simp only [List.filter_nil, List.length_nil, Int.natCast_zero] at hpos
    refine ⟨?_, ?_, ?_⟩
    · intro h
      have : rel + 1 = idx := by omega
      simp [inner, hc, he, this]
    · intro h
      have : ¬ (rel + 1 = idx) := by omega
      simp [inner, hc, he, this]
    · intro h1 h2; omega
  | cons c pre0 ih =>
    intro rel hpre hpos
    have hpre0 : ∀ x ∈ pre0, isEl x = false := fun x hx => hpre x (List.mem_cons_of_mem _ hx)
    have hcEl : isEl c = false := hpre c (List.mem_cons_self)
    by_cases hcc : counted c = true
    · have hpos' : (rel + 1) + ((pre0.filter counted).length : Int) + 1 = pos := by
        simp only [List.filter_cons, hcc, if_true, List.length_cons] at hpos
        push_cast at hpos
        omega
      obtain ⟨ih1, ih2, ih3⟩ := ih (rel + 1) hpre0 hpos'
      have hlen : (0 : Int) ≤ ((pre0.filter counted).length : Int) := Int.natCast_nonneg _
      by_cases hri : rel + 1 = idx
      · refine ⟨?_, ?_, ?_⟩
        · intro h; omega
        · intro h; omega
        · intro _ _
          refine ⟨pre0, hpre0, by omega, ?_⟩
          simp [inner, hcc, hcEl, hri]
      · refine ⟨?_, ?_, ?_⟩
        · intro h
          have := ih1 h
          simpa [inner, hcc, hcEl, hri] using this
        · intro h
          have := ih2 (by omega)
          simpa [inner, hcc, hcEl, hri] using this
        · intro h1 h2
          obtain ⟨pre', hp1, hp2, hp3⟩ := ih3 (by omega) h2
          exact ⟨pre', hp1, hp2, by simpa [inner, hcc, hcEl, hri] using hp3⟩
    · have hcc' : counted c = false := by simpa using hcc
      have hpos' : rel + ((pre0.filter counted).length : Int) + 1 = pos := by
        simpa [List.filter_cons, hcc'] using hpos
      obtain ⟨ih1, ih2, ih3⟩ := ih rel hpre0 hpos'
      refine ⟨?_, ?_, ?_⟩
      · intro h
        simpa [inner, hcc'] using ih1 h
      · intro h
        simpa [inner, hcc'] using ih2 h
      · intro h1 h2
        obtain ⟨pre', hp1, hp2, hp3⟩ := ih3 h1 h2
        exact ⟨pre', hp1, hp2, by simpa [inner, hcc'] using hp3⟩

/-! ### One round of the outer `while` loop -/

section Outer
variable {α : Type} (counted isEl : α → Bool) (a b : Int) (var : Bool) (lastIndex incr : Int)

/-- `idx` out of `[1, lastIndex+1]`: the loop does not run. -/
theorem outer_out (fuel : Nat) (count idx : Int) (rest : List α) (rel : Int)
    (h : ¬ (1 ≤ idx ∧ idx ≤ lastIndex + 1)) :
    outer counted isEl a b var lastIndex incr fuel count idx rest rel = false := by
  cases fuel with
  | zero => rfl
  | succ f =>
    have h' : (decide (1 ≤ idx) && decide (idx ≤ lastIndex + 1)) = false := by
      simpa using h
    simp only [outer, h']
    rfl

theorem outer_hit (f : Nat) (count idx : Int) (rest : List α) (rel pos : Int)
    (hinv : Inv counted isEl pos rest rel) (h1 : 1 ≤ idx) (h2 : idx ≤ lastIndex + 1)
    (h : idx = pos) :
    outer counted isEl a b var lastIndex incr (f + 1) count idx rest rel = true := by
  obtain ⟨pre, e, post, rfl, hpre, he, hc, hpos⟩ := hinv
  have hi := (inner_spec counted isEl idx pos e post he hc pre rel hpre hpos).1 h
  simp [outer, h1, h2, hi]

theorem outer_miss (fuel : Nat) (count idx : Int) (rest : List α) (rel pos : Int)
    (hinv : Inv counted isEl pos rest rel) (h : idx ≤ rel ∨ pos < idx) :
    outer counted isEl a b var lastIndex incr fuel count idx rest rel = false := by
  by_cases hr : 1 ≤ idx ∧ idx ≤ lastIndex + 1
  · cases fuel with
    | zero => rfl
    | succ f =>
      obtain ⟨pre, e, post, rfl, hpre, he, hc, hpos⟩ := hinv
      have hi := (inner_spec counted isEl idx pos e post he hc pre rel hpre hpos).2.1 h
      simp [outer, hr.1, hr.2, hi]
  · exact outer_out counted isEl a b var lastIndex incr fuel count idx rest rel hr

theorem outer_cont (f : Nat) (count idx : Int) (rest : List α) (rel pos : Int)
    (hinv : Inv counted isEl pos rest rel) (h1 : 1 ≤ idx) (h2 : idx ≤ lastIndex + 1)
    (hr : rel < idx) (hp : idx < pos) :
    ∃ rest', Inv counted isEl pos rest' idx ∧
      outer counted isEl a b var lastIndex incr (f + 1) count idx rest rel =
        (if count + incr < 0 then false
         else if idxOf a b var (count + incr) == idx then false
         else outer counted isEl a b var lastIndex incr f (count + incr)
                (idxOf a b var (count + incr)) rest' idx) := by
  obtain ⟨pre, e, post, rfl, hpre, he, hc, hpos⟩ := hinv
  obtain ⟨pre', hp1, hp2, hi⟩ :=
    (inner_spec counted isEl idx pos e post he hc pre rel hpre hpos).2.2 hr hp
  refine ⟨pre' ++ e :: post, ⟨pre', e, post, rfl, hp1, he, hc, hp2⟩, ?_⟩
  simp [outer, h1, h2, hi]

end Outer

/-! ### The whole outer loop, in its three regimes -/

section OuterLoop
variable {α : Type} (counted isEl : α → Bool) (a b : Int) (lastIndex pos : Int)

/-- `a > 0`, `count_incr = 1`: from `count` upward, the loop finds `pos` iff some `n ≥ count` has
    `a*n+b = pos`. -/
theorem outer_pos (ha : 0 < a) (hpL : pos ≤ lastIndex + 1) :
    ∀ (fuel : Nat) (count idx : Int) (rest : List α) (rel : Int),
      0 ≤ count → idx = a * count + b → 0 ≤ rel → rel < idx → Inv counted isEl pos rest rel →
      1 ≤ fuel → pos - idx < (fuel : Int) →
      (outer counted isEl a b true lastIndex 1 fuel count idx rest rel = true ↔
        ∃ n : Nat, count ≤ (n : Int) ∧ a * (n : Int) + b = pos) := by
  intro fuel
  induction fuel with
  | zero => intro _ _ _ _ _ _ _ _ _ h; omega
  | succ f ih =>
    intro count idx rest rel hc hidx hrel hri hinv _ hfuel
    rcases Int.lt_trichotomy idx pos with hlt | heq | hgt
    · obtain ⟨rest', hinv', hstep⟩ := outer_cont counted isEl a b true lastIndex 1 f count idx
        rest rel pos hinv (by omega) (by omega) hri hlt
      rw [hstep]
      have hs := mul_succ' a count
      have hne : ¬ (count + 1 < 0) := by omega
      have hidx' : idxOf a b true (count + 1) = idx + a := by
        simp only [idxOf, if_true]; omega
      have hne2 : ¬ (idx + a = idx) := by omega
      rw [if_neg hne, hidx']
      simp only [beq_iff_eq, hne2, if_false]
      rw [ih (count + 1) (idx + a) rest' idx (by omega) (by omega) (by omega) (by omega) hinv'
        (by omega) (by omega)]
      constructor
      · rintro ⟨n, h1, h2⟩; exact ⟨n, by omega, h2⟩
      · rintro ⟨n, h1, h2⟩
        refine ⟨n, ?_, h2⟩
        by_contra hcon
        have hn : (n : Int) = count := by omega
        rw [hn] at h2; omega
    · have ht := outer_hit counted isEl a b true lastIndex 1 f count idx rest rel pos hinv
        (by omega) (by omega) heq
      simp only [ht, true_iff]
      exact ⟨count.toNat, by omega, by rw [Int.toNat_of_nonneg hc]; omega⟩
    · have hm := outer_miss counted isEl a b true lastIndex 1 (f + 1) count idx rest rel pos hinv
        (Or.inr hgt)
      rw [hm]
      constructor
      · intro h; cases h
      · rintro ⟨n, hn1, hn2⟩
        have := mono_pos ha hn1
        omega

/-- `a < 0`, `count_incr = -1`: from `count` downward to 0, the loop finds `pos` iff some
    `0 ≤ n ≤ count` has `a*n+b = pos`. -/
theorem outer_neg (ha : a < 0) (hpL : pos ≤ lastIndex + 1) :
    ∀ (fuel : Nat) (count idx : Int) (rest : List α) (rel : Int),
      0 ≤ count → idx = a * count + b → 0 ≤ rel → rel < idx → Inv counted isEl pos rest rel →
      count < (fuel : Int) →
      (outer counted isEl a b true lastIndex (-1) fuel count idx rest rel = true ↔
        ∃ n : Nat, (n : Int) ≤ count ∧ a * (n : Int) + b = pos) := by
  intro fuel
  induction fuel with
  | zero => intro _ _ _ _ _ _ _ _ _ h; omega
  | succ f ih =>
    intro count idx rest rel hc hidx hrel hri hinv hfuel
    rcases Int.lt_trichotomy idx pos with hlt | heq | hgt
    · obtain ⟨rest', hinv', hstep⟩ := outer_cont counted isEl a b true lastIndex (-1) f count idx
        rest rel pos hinv (by omega) (by omega) hri hlt
      rw [hstep]
      have hs := mul_pred' a count
      by_cases hneg : count + -1 < 0
      · rw [if_pos hneg]
        constructor
        · intro h; cases h
        · rintro ⟨n, hn1, hn2⟩
          have hn : (n : Int) = count := by omega
          rw [hn] at hn2; omega
      · have hidx' : idxOf a b true (count + -1) = idx - a := by
          simp only [idxOf, if_true]; omega
        have hne2 : ¬ (idx - a = idx) := by omega
        rw [if_neg hneg, hidx']
        simp only [beq_iff_eq, hne2, if_false]
        rw [ih (count + -1) (idx - a) rest' idx (by omega) (by omega) (by omega) (by omega) hinv'
          (by omega)]
        constructor
        · rintro ⟨n, h1, h2⟩; exact ⟨n, by omega, h2⟩
        · rintro ⟨n, h1, h2⟩
          refine ⟨n, ?_, h2⟩
          by_contra hcon
          have hn : (n : Int) = count := by omega
          rw [hn] at h2; omega
    · have ht := outer_hit counted isEl a b true lastIndex (-1) f count idx rest rel pos hinv
        (by omega) (by omega) heq
      simp only [ht, true_iff]
      exact ⟨count.toNat, by omega, by rw [Int.toNat_of_nonneg hc]; omega⟩
    · have hm := outer_miss counted isEl a b true lastIndex (-1) (f + 1) count idx rest rel pos
        hinv (Or.inr hgt)
      rw [hm]
      constructor
      · intro h; cases h
      · rintro ⟨n, hn1, hn2⟩
        have := mono_neg ha hn1
        omega

/-- Constant index (`var = false`, or `a = 0`): one round decides. -/
theorem outer_const (var : Bool) (idx : Int) (hconst : ∀ c, idxOf a b var c = idx)
    (hpL : pos ≤ lastIndex + 1) (f : Nat) (count : Int) (rest : List α) (rel : Int)
    (hc : 0 ≤ count) (hrel : 0 ≤ rel) (hri : rel < idx) (hinv : Inv counted isEl pos rest rel) :
    (outer counted isEl a b var lastIndex 1 (f + 1) count idx rest rel = true ↔ idx = pos) := by
  rcases Int.lt_trichotomy idx pos with hlt | heq | hgt
  · obtain ⟨rest', hinv', hstep⟩ := outer_cont counted isEl a b var lastIndex 1 f count idx
      rest rel pos hinv (by omega) (by omega) hri hlt
    rw [hstep, hconst]
    have hne : ¬ (count + 1 < 0) := by omega
    rw [if_neg hne]
    simp only [beq_self_eq_true, if_true]
    constructor
    · intro h; cases h
    · intro h; omega
  · have ht := outer_hit counted isEl a b var lastIndex 1 f count idx rest rel pos hinv
      (by omega) (by omega) heq
    simp only [ht, true_iff]; exact heq
  · have hm := outer_miss counted isEl a b var lastIndex 1 (f + 1) count idx rest rel pos hinv
      (Or.inr hgt)
    rw [hm]
    constructor
    · intro h; cases h
    · intro h; omega

end OuterLoop

/-! ### The bound-adjust loop -/

section Adjust
variable (a b lastIndex : Int)

theorem adjust_in (fuel : Nat) (count idx : Int) (adj : Option Bool)
    (h1 : 1 ≤ idx) (h2 : idx ≤ lastIndex + 1) :
    adjust a b lastIndex fuel count idx adj = (count, idx) := by
  cases fuel with
  | zero => rfl
  | succ f =>
    have e1 : ¬ (idx < 1) := by omega
    have e2 : ¬ (idx > lastIndex + 1) := by omega
    simp only [adjust, e1, e2, decide_false, Bool.or_false]
    rfl

theorem adjust_low_adj (fuel : Nat) (count idx : Int) (h : idx < 1) :
    adjust a b lastIndex fuel count idx (some true) = (count, idx) := by
  cases fuel with
  | zero => rfl
  | succ f =>
    simp only [adjust, h, decide_true, Bool.true_or, if_true]
    rfl

theorem adjust_high_adj (fuel : Nat) (count idx : Int) (h : idx > lastIndex + 1) (h' : ¬ idx < 1) :
    adjust a b lastIndex fuel count idx (some false) = (count, idx) := by
  cases fuel with
  | zero => rfl
  | succ f =>
    simp only [adjust, h, h', decide_true, decide_false, Bool.or_true, if_true, if_false]
    rfl

theorem adjust_low_stop (f : Nat) (count idx : Int) (adj : Option Bool)
    (hadj : (adj == some true) = false) (h : idx < 1)
    (hd : 0 - (a * (count + 1) + b) ≥ 0 - idx) :
    adjust a b lastIndex (f + 1) count idx adj = (count + 1, a * (count + 1) + b) := by
  simp only [adjust, h, decide_true, Bool.true_or, if_true, hd, hadj]
  rfl

theorem adjust_low_go (f : Nat) (count idx : Int) (adj : Option Bool)
    (hadj : (adj == some true) = false) (h : idx < 1)
    (hd : ¬ (0 - (a * (count + 1) + b) ≥ 0 - idx)) :
    adjust a b lastIndex (f + 1) count idx adj =
      adjust a b lastIndex f (count + 1) (a * (count + 1) + b) (some false) := by
  simp only [adjust, h, decide_true, Bool.true_or, if_true, hd, if_false, hadj]
  rfl

theorem adjust_high_stop (f : Nat) (count idx : Int) (adj : Option Bool)
    (hadj : (adj == some false) = false) (h : idx > lastIndex + 1) (h' : ¬ idx < 1)
    (hd : (a * (count + 1) + b) - lastIndex ≥ idx - lastIndex) :
    adjust a b lastIndex (f + 1) count idx adj = (count + 1, a * (count + 1) + b) := by
  simp only [adjust, h, h', decide_true, decide_false, Bool.or_true, if_true, if_false, hd, hadj]
  rfl

theorem adjust_high_go (f : Nat) (count idx : Int) (adj : Option Bool)
    (hadj : (adj == some false) = false) (h : idx > lastIndex + 1) (h' : ¬ idx < 1)
    (hd : ¬ ((a * (count + 1) + b) - lastIndex ≥ idx - lastIndex)) :
    adjust a b lastIndex (f + 1) count idx adj =
      adjust a b lastIndex f (count + 1) (a * (count + 1) + b) (some true) := by
  simp only [adjust, h, h', decide_true, decide_false, Bool.or_true, if_true, if_false, hd, hadj]
  rfl

end Adjust

/-! ### What the adjust loop establishes -/

/-- Every `n ≥ 0` whose term `a*n+b` lies in `[1, lastIndex+1]` is at least `count`. -/
def NoSolBelow (a b lastIndex count : Int) : Prop :=
  ∀ n : Nat, 1 ≤ a * (n : Int) + b → a * (n : Int) + b ≤ lastIndex + 1 → count ≤ (n : Int)

theorem NoSolBelow.succ {a b lastIndex count : Int} (h : NoSolBelow a b lastIndex count)
    (hout : ¬ (1 ≤ a * count + b ∧ a * count + b ≤ lastIndex + 1)) :
    NoSolBelow a b lastIndex (count + 1) := by
  intro n h1 h2
  have := h n h1 h2
  by_contra hcon
  have hn : (n : Int) = count := by omega
  rw [hn] at h1 h2
  exact hout ⟨h1, h2⟩

/-- Post-condition of the adjust loop. -/
def AdjPost (a b lastIndex : Int) (r : Int × Int) : Prop :=
  r.2 = a * r.1 + b ∧ 0 ≤ r.1 ∧ NoSolBelow a b lastIndex r.1 ∧
    (0 < a → 1 ≤ r.2) ∧ (a < 0 → r.2 ≤ lastIndex + 1)

section AdjustLoop
variable (a b lastIndex : Int)

/-- `a > 0`, after a first step from below (`adjust = -1`): climbs until `idx ≥ 1`. -/
theorem adjust_pos_low (ha : 0 < a) :
    ∀ (fuel : Nat) (count idx : Int), 0 ≤ count → idx = a * count + b →
      NoSolBelow a b lastIndex count → 1 ≤ fuel → 2 ≤ (fuel : Int) + idx →
      AdjPost a b lastIndex (adjust a b lastIndex fuel count idx (some false)) := by
  intro fuel
  induction fuel with
  | zero => intro _ _ _ _ _ h; omega
  | succ f ih =>
    intro count idx hc hidx hP _ hf
    have hs := mul_succ' a count
    by_cases hlow : idx < 1
    · rw [adjust_low_go a b lastIndex f count idx (some false) (by decide) hlow (by omega)]
      exact ih (count + 1) _ (by omega) rfl (hP.succ (by omega)) (by omega) (by omega)
    · by_cases hhigh : idx > lastIndex + 1
      · rw [adjust_high_adj a b lastIndex (f + 1) count idx hhigh hlow]
        exact ⟨hidx, hc, hP, fun _ => by show 1 ≤ idx; omega, fun h => by omega⟩
      · rw [adjust_in a b lastIndex (f + 1) count idx _ (by omega) (by omega)]
        exact ⟨hidx, hc, hP, fun _ => by show 1 ≤ idx; omega, fun h => by omega⟩

/-- `a < 0`, after a first step from above (`adjust = 1`): descends until `idx ≤ lastIndex+1`. -/
theorem adjust_neg_high (ha : a < 0) (hL : 0 ≤ lastIndex + 1) :
    ∀ (fuel : Nat) (count idx : Int), 0 ≤ count → idx = a * count + b →
      NoSolBelow a b lastIndex count → 1 ≤ fuel → idx - lastIndex ≤ (fuel : Int) →
      AdjPost a b lastIndex (adjust a b lastIndex fuel count idx (some true)) := by
  intro fuel
  induction fuel with
  | zero => intro _ _ _ _ _ h; omega
  | succ f ih =>
    intro count idx hc hidx hP _ hf
    have hs := mul_succ' a count
    by_cases hlow : idx < 1
    · rw [adjust_low_adj a b lastIndex (f + 1) count idx hlow]
      exact ⟨hidx, hc, hP, fun h => by omega, fun _ => by show idx ≤ lastIndex + 1; omega⟩
    · by_cases hhigh : idx > lastIndex + 1
      · rw [adjust_high_go a b lastIndex f count idx (some true) (by decide) hhigh hlow
          (by omega)]
        exact ih (count + 1) _ (by omega) rfl (hP.succ (by omega)) (by omega) (by omega)
      · rw [adjust_in a b lastIndex (f + 1) count idx _ (by omega) (by omega)]
        exact ⟨hidx, hc, hP, fun h => by omega, fun _ => by show idx ≤ lastIndex + 1; omega⟩

theorem mul_nat_nonneg {a : Int} (ha : 0 ≤ a) (n : Nat) : 0 ≤ a * (n : Int) :=
  Int.mul_nonneg ha (Int.natCast_nonneg n)

theorem mul_nat_nonpos {a : Int} (ha : a ≤ 0) (n : Nat) : a * (n : Int) ≤ 0 := by
  have : (0 : Int) ≤ (n : Int) := Int.natCast_nonneg n
  nlinarith

/-- The adjust loop as called from `matchOne` (`count = 0`, `idx = b`, `adjust = None`). -/
theorem adjust_spec (hL : 0 ≤ lastIndex + 1) (fuel : Nat)
    (hf1 : b + 2 ≤ (fuel : Int)) (hf2 : 2 - b ≤ (fuel : Int)) :
    AdjPost a b lastIndex (adjust a b lastIndex fuel 0 b none) := by
  obtain ⟨f, rfl⟩ : ∃ f, fuel = f + 1 := ⟨fuel - 1, by omega⟩
  have hP0 : NoSolBelow a b lastIndex 0 := fun n _ _ => Int.natCast_nonneg n
  have hs : a * (0 + 1) = a := by ring
  have hz : a * 0 + b = b := by ring
  by_cases hlow : b < 1
  · by_cases ha : 0 < a
    · rw [adjust_low_go a b lastIndex f 0 b none (by decide) hlow (by omega)]
      exact adjust_pos_low a b lastIndex ha f (0 + 1) _ (by omega) rfl
        (hP0.succ (by omega)) (by omega) (by omega)
    · rw [adjust_low_stop a b lastIndex f 0 b none (by decide) hlow (by omega)]
      refine ⟨rfl, by show (0:Int) ≤ 0 + 1; omega, ?_, fun h => by omega, fun _ => ?_⟩
      · intro n h1 h2
        have := mul_nat_nonpos (a := a) (by omega) n
        omega
      · show a * (0 + 1) + b ≤ lastIndex + 1
        omega
  · by_cases hhigh : b > lastIndex + 1
    · by_cases ha : a < 0
      · rw [adjust_high_go a b lastIndex f 0 b none (by decide) hhigh hlow (by omega)]
        exact adjust_neg_high a b lastIndex ha hL f (0 + 1) _ (by omega) rfl
          (hP0.succ (by omega)) (by omega) (by omega)
      · rw [adjust_high_stop a b lastIndex f 0 b none (by decide) hhigh hlow (by omega)]
        refine ⟨rfl, by show (0:Int) ≤ 0 + 1; omega, ?_, fun _ => ?_, fun h => by omega⟩
        · intro n h1 h2
          have := mul_nat_nonneg (a := a) (by omega) n
          omega
        · show 1 ≤ a * (0 + 1) + b
          omega
    · rw [adjust_in a b lastIndex (f + 1) 0 b none (by omega) (by omega)]
      exact ⟨hz.symm, Int.le_refl 0, hP0, fun _ => by show 1 ≤ b; omega,
        fun _ => by show b ≤ lastIndex + 1; omega⟩

end AdjustLoop

/-! ### The floor loop (`a < 0`) -/

section Floor
variable (a b : Int)

theorem floorLoop_stop (fuel : Nat) (count idx lowest : Int) (h : idx < 1) :
    floorLoop a b fuel count idx lowest = lowest := by
  cases fuel with
  | zero => rfl
  | succ f =>
    have : ¬ (idx ≥ 1) := by omega
    simp only [floorLoop, this, if_false]

/-- From a start with `idx ≥ 1` the floor loop returns the greatest `r` with `a*r+b ≥ 1`. -/
theorem floorLoop_spec (ha : a < 0) :
    ∀ (fuel : Nat) (count idx lowest : Int), idx = a * count + b → 1 ≤ idx →
      idx + 1 ≤ (fuel : Int) →
      count ≤ floorLoop a b fuel count idx lowest ∧
      1 ≤ a * floorLoop a b fuel count idx lowest + b ∧
      a * (floorLoop a b fuel count idx lowest + 1) + b < 1 := by
  intro fuel
  induction fuel with
  | zero => intro _ _ _ _ _ h; omega
  | succ f ih =>
    intro count idx lowest hidx h1 hf
    have hs := mul_succ' a count
    have e : floorLoop a b (f + 1) count idx lowest =
        floorLoop a b f (count + 1) (a * (count + 1) + b) count := by
      have : idx ≥ 1 := h1
      simp only [floorLoop, this, if_true]
    rw [e]
    by_cases hnext : a * (count + 1) + b < 1
    · rw [floorLoop_stop a b f (count + 1) _ count hnext]
      exact ⟨Int.le_refl _, by omega, hnext⟩
    · obtain ⟨i1, i2, i3⟩ := ih (count + 1) (a * (count + 1) + b) count rfl (by omega) (by omega)
      exact ⟨by omega, i2, i3⟩

end Floor

/-! ### Assembly: `matchOne` on a well-formed walk -/

section Assembly
variable {α : Type} (counted isEl : α → Bool) (a b : Int)
variable (pre : List α) (e : α) (post : List α)

/-- The initial state of the walk satisfies the invariant. -/
theorem inv_init (hpre : ∀ x ∈ pre, isEl x = false) (he : isEl e = true)
    (hc : counted e = true) :
    Inv counted isEl (((pre.filter counted).length + 1 : Nat) : Int) (pre ++ e :: post) 0 :=
  ⟨pre, e, post, rfl, hpre, he, hc, by push_cast; omega⟩

theorem pos_le_len :
    (((pre.filter counted).length + 1 : Nat) : Int)
      ≤ (Int.ofNat (pre ++ e :: post).length - 1) + 1 := by
  have h1 : (pre.filter counted).length ≤ pre.length := List.length_filter_le _ _
  have h2 : (pre ++ e :: post).length = pre.length + (post.length + 1) := by
    simp [List.length_append]
  rw [h2]
  show ((((pre.filter counted).length + 1 : Nat)) : Int)
      ≤ (((pre.length + (post.length + 1) : Nat) : Int) - 1) + 1
  omega

theorem matchOne_var (hpre : ∀ x ∈ pre, isEl x = false) (he : isEl e = true)
    (hc : counted e = true) :
    matchOne counted isEl a b true (pre ++ e :: post) = true ↔
      ∃ n : Nat, a * (n : Int) + b = (((pre.filter counted).length + 1 : Nat) : Int) := by
  have hinv := inv_init counted isEl pre e post hpre he hc
  have hpL := pos_le_len counted pre e post
  generalize hpos : (((pre.filter counted).length + 1 : Nat) : Int) = pos at hinv hpL ⊢
  have hpos1 : 1 ≤ pos := by rw [← hpos]; push_cast; omega
  generalize hwalk : pre ++ e :: post = walk at hinv hpL ⊢
  have h0 : idxOf a b true 0 = b := by simp [idxOf]
  have hof : Int.ofNat walk.length = ((walk.length : Nat) : Int) := rfl
  have hL : (0 : Int) ≤ (Int.ofNat walk.length - 1) + 1 := by
    show (0 : Int) ≤ ((walk.length : Nat) : Int) - 1 + 1
    omega
  have hadj := adjust_spec a b (Int.ofNat walk.length - 1) hL (b.natAbs + walk.length + 4)
    (by omega) (by omega)
  unfold matchOne
  simp only [h0, if_true]
  generalize adjust a b (Int.ofNat walk.length - 1) (b.natAbs + walk.length + 4) 0 b none = R
    at hadj ⊢
  obtain ⟨c, i⟩ := R
  obtain ⟨hi, hc0, hP, hpa, hna⟩ := hadj
  simp only at hi hc0 hP hpa hna ⊢
  by_cases hneg : a < 0
  · rw [if_pos hneg]
    have hiL := hna hneg
    by_cases hi1 : 1 ≤ i
    · obtain ⟨f1, f2, f3⟩ := floorLoop_spec a b hneg (i.natAbs + 2) c i c hi hi1 (by omega)
      generalize floorLoop a b (i.natAbs + 2) c i c = lowest at f1 f2 f3 ⊢
      rw [outer_neg counted isEl a b _ pos hneg hpL _ lowest _ walk 0 (by omega) rfl
        (Int.le_refl 0) (by omega) hinv (by omega)]
      constructor
      · rintro ⟨n, _, h⟩; exact ⟨n, h⟩
      · rintro ⟨n, h⟩
        refine ⟨n, ?_, h⟩
        by_contra hcon
        have := mono_neg hneg (show lowest + 1 ≤ (n : Int) by omega)
        omega
    · rw [floorLoop_stop a b _ c i c (by omega)]
      rw [outer_out counted isEl a b true _ (-1) _ c (a * c + b) walk 0 (by omega)]
      constructor
      · intro h; cases h
      · rintro ⟨n, h⟩
        have h1 := hP n (by omega) (by omega)
        have := mono_neg hneg h1
        omega
  · rw [if_neg hneg]
    by_cases hzero : a = 0
    · subst hzero
      have hconst : ∀ c', idxOf 0 b true c' = 0 * c + b := by
        intro c'; simp [idxOf]
      by_cases hin : 1 ≤ 0 * c + b
      · rw [outer_const counted isEl 0 b _ pos true (0 * c + b) hconst hpL _ c walk 0 hc0
          (Int.le_refl 0) (by omega) hinv]
        constructor
        · intro h; exact ⟨0, by omega⟩
        · rintro ⟨n, h⟩; omega
      · rw [outer_out counted isEl 0 b true _ 1 _ c (0 * c + b) walk 0 (by omega)]
        constructor
        · intro h; cases h
        · rintro ⟨n, h⟩; omega
    · have hapos : 0 < a := by omega
      have hi1 := hpa hapos
      rw [outer_pos counted isEl a b _ pos hapos hpL _ c _ walk 0 hc0 rfl (Int.le_refl 0)
        (by omega) hinv (by omega) (by omega)]
      constructor
      · rintro ⟨n, _, h⟩; exact ⟨n, h⟩
      · rintro ⟨n, h⟩
        exact ⟨n, hP n (by omega) (by omega), h⟩

theorem matchOne_nonvar (hpre : ∀ x ∈ pre, isEl x = false) (he : isEl e = true)
    (hc : counted e = true) :
    matchOne counted isEl a b false (pre ++ e :: post) = true ↔
      a = (((pre.filter counted).length + 1 : Nat) : Int) := by
  have hinv := inv_init counted isEl pre e post hpre he hc
  have hpL := pos_le_len counted pre e post
  generalize hpos : (((pre.filter counted).length + 1 : Nat) : Int) = pos at hinv hpL ⊢
  have hpos1 : 1 ≤ pos := by rw [← hpos]; push_cast; omega
  generalize hwalk : pre ++ e :: post = walk at hinv hpL ⊢
  have hconst : ∀ c', idxOf a b false c' = a := by intro c'; simp [idxOf]
  unfold matchOne
  simp only [hconst, Bool.false_eq_true, if_false]
  by_cases hin : 1 ≤ a
  · exact outer_const counted isEl a b _ pos false a hconst hpL _ 0 walk 0 (Int.le_refl 0)
      (Int.le_refl 0) (by omega) hinv
  · rw [outer_out counted isEl a b false _ 1 _ 0 a walk 0 (by omega)]
    constructor
    · intro h; cases h
    · intro h; omega

end Assembly

/-! ### Spec-side facts: `posOf`, and walks that differ only in uncounted nodes -/

section SpecSide
variable {α : Type} (counted isEl : α → Bool)

theorem posOf_split (pre : List α) (e : α) (post : List α)
    (hpre : ∀ x ∈ pre, isEl x = false) (he : isEl e = true) (hc : counted e = true) :
    NthSpec.posOf counted isEl (pre ++ e :: post) = some ((pre.filter counted).length + 1) := by
  unfold NthSpec.posOf
  have hnone : ∀ x ∈ pre.filter counted, ¬ (isEl x = true) := by
    intro x hx
    have := hpre x (List.mem_filter.mp hx).1
    simp [this]
  rw [List.filter_append, List.filter_cons_of_pos hc, List.findIdx?_append]
  have h1 : List.findIdx? isEl (List.filter counted pre) = none :=
    List.findIdx?_eq_none_iff.mpr (by
      intro x hx
      have := hnone x hx
      simpa using this)
  rw [h1, List.findIdx?_cons, he]
  simp

/-- The filter that forgets exactly the nodes that are neither counted nor `el`. -/
def keep (x : α) : Bool := counted x || isEl x

theorem split_of_filter_eq (walk' pre : List α) (e : α) (post : List α)
    (hpre : ∀ x ∈ pre, isEl x = false) (he : isEl e = true)
    (h : walk'.filter (keep counted isEl) = (pre ++ e :: post).filter (keep counted isEl)) :
    ∃ pre' post', walk' = pre' ++ e :: post' ∧ (∀ x ∈ pre', isEl x = false) ∧
      (pre'.filter counted).length = (pre.filter counted).length := by
  have hke : keep counted isEl e = true := by simp [keep, he]
  rw [List.filter_append, List.filter_cons_of_pos hke] at h
  obtain ⟨l1, l2, rfl, h1, h2⟩ := List.filter_eq_append_iff.mp h
  obtain ⟨m, l2', rfl, hm, _, _⟩ := List.filter_eq_cons_iff.mp h2
  have hcf : ∀ l : List α, (l.filter (keep counted isEl)).filter counted = l.filter counted := by
    intro l
    rw [List.filter_filter]
    congr 1
    funext x
    simp only [keep]
    cases counted x <;> simp
  refine ⟨l1 ++ m, l2', by simp, ?_, ?_⟩
  · intro x hx
    rcases List.mem_append.mp hx with hx1 | hxm
    · cases hxe : isEl x with
      | false => rfl
      | true =>
        exfalso
        have hk : keep counted isEl x = true := by simp [keep, hxe]
        have hmem : x ∈ l1.filter (keep counted isEl) := List.mem_filter.mpr ⟨hx1, hk⟩
        rw [h1] at hmem
        have := hpre x (List.mem_filter.mp hmem).1
        rw [hxe] at this
        cases this
    · have := hm x hxm
      simp only [keep, Bool.or_eq_true, not_or] at this
      simpa using this.2
  · have hmc : m.filter counted = [] := by
      apply List.filter_eq_nil_iff.mpr
      intro x hx
      have := hm x hx
      simp only [keep, Bool.or_eq_true, not_or] at this
      exact this.1
    rw [List.filter_append, hmc, List.append_nil, ← hcf l1, h1, hcf pre]

end SpecSide

end NthLemmas
end SoupVerif
