/-
  Invariants of the three loops of `Nth.matchOne` (model of `CSSMatch.match_nth`), used by
  `Properties/C02`.

  Notation: the walk is `pre ++ e :: post`, `e` is the subject element, `pos` is its 1-based
  position among the counted nodes, `lastIndex + 1 = walk.length`.
-/
import SoupVerif.Model.Nth
import SoupVerif.Spec.Nth
import Mathlib.Tactic.Linarith
import Mathlib.Tactic.Ring

namespace SoupVerif
namespace NthLemmas
open Nth

/-! ### Arithmetic helpers (the only non-linear facts used) -/

theorem mul_succ' (a c : Int) : a * (c + 1) = a * c + a := by ring
theorem mul_pred' (a c : Int) : a * (c + -1) = a * c - a := by ring

theorem mono_pos {a m n : Int} (ha : 0 < a) (h : m ≤ n) : a * m ≤ a * n := by nlinarith
theorem mono_neg {a m n : Int} (ha : a < 0) (h : m ≤ n) : a * n ≤ a * m := by nlinarith

/-! ### The inner `for` loop -/

/-- State invariant of the sibling walk: what is left of the walk still contains the subject
    element `e`, no earlier node is `el`, and `rel` counted nodes have been consumed so that `e`
    is the `pos`-th counted node overall. -/
def Inv {α} (counted isEl : α → Bool) (pos : Int) (rest : List α) (rel : Int) : Prop :=
  ∃ pre e post, rest = pre ++ e :: post ∧ (∀ x ∈ pre, isEl x = false) ∧ isEl e = true ∧
    counted e = true ∧ rel + ((pre.filter counted).length : Int) + 1 = pos

theorem inner_spec {α} (counted isEl : α → Bool) (idx pos : Int) (e : α) (post : List α)
    (he : isEl e = true) (hc : counted e = true) :
    ∀ (pre : List α) (rel : Int), (∀ x ∈ pre, isEl x = false) →
      rel + ((pre.filter counted).length : Int) + 1 = pos →
      (idx = pos → inner counted isEl idx (pre ++ e :: post) rel = .hit true) ∧
      (idx ≤ rel ∨ pos < idx → inner counted isEl idx (pre ++ e :: post) rel = .hit false) ∧
      (rel < idx → idx < pos → ∃ pre', (∀ x ∈ pre', isEl x = false) ∧
          idx + ((pre'.filter counted).length : Int) + 1 = pos ∧
          inner counted isEl idx (pre ++ e :: post) rel = .cont (pre' ++ e :: post) idx) := by
  intro pre
  induction pre with
  | nil =>
    intro rel _ hpos
    simp only [List.filter_nil, List.length_nil, Int.natCast_zero] at hpos
    refine ⟨?_, ?_, ?_⟩
    · intro h
      have : rel + 1 = idx := by omega
      simp [inner, hc, he, this]
    · intro h
      have : ¬ (rel + 1 = idx) := by omega
      simp [inner, hc, he, this]
    · intro h1 h2; omega
  | cons c pre0 ih =>
    intro rel hpre hpos
    have hpre0 : ∀ x ∈ pre0, isEl x = false := fun x hx => hpre x (List.mem_cons_of_mem _ hx)
    have hcEl : isEl c = false := hpre c (List.mem_cons_self)
    by_cases hcc : counted c = true
    · have hpos' : (rel + 1) + ((pre0.filter counted).length : Int) + 1 = pos := by
        simp only [List.filter_cons, hcc, if_true, List.length_cons] at hpos
        push_cast at hpos
        omega
      obtain ⟨ih1, ih2, ih3⟩ := ih (rel + 1) hpre0 hpos'
      have hlen : (0 : Int) ≤ ((pre0.filter counted).length : Int) := Int.natCast_nonneg _
      by_cases hri : rel + 1 = idx
      · refine ⟨?_, ?_, ?_⟩
        · intro h; omega
        · intro h; omega
        · intro _ _
          refine ⟨pre0, hpre0, by omega, ?_⟩
          simp [inner, hcc, hcEl, hri]
      · refine ⟨?_, ?_, ?_⟩
        · intro h
          have := ih1 h
          simpa [inner, hcc, hcEl, hri] using this
        · intro h
          have := ih2 (by omega)
          simpa [inner, hcc, hcEl, hri] using this
        · intro h1 h2
          obtain ⟨pre', hp1, hp2, hp3⟩ := ih3 (by omega) h2
          exact ⟨pre', hp1, hp2, by simpa [inner, hcc, hcEl, hri] using hp3⟩
    · have hcc' : counted c = false := by simpa using hcc
      have hpos' : rel + ((pre0.filter counted).length : Int) + 1 = pos := by
        simpa [List.filter_cons, hcc'] using hpos
      obtain ⟨ih1, ih2, ih3⟩ := ih rel hpre0 hpos'
      refine ⟨?_, ?_, ?_⟩
      · intro h
        simpa [inner, hcc'] using ih1 h
      · intro h
        simpa [inner, hcc'] using ih2 h
      · intro h1 h2
        obtain ⟨pre', hp1, hp2, hp3⟩ := ih3 h1 h2
        exact ⟨pre', hp1, hp2, by simpa [inner, hcc'] using hp3⟩

end NthLemmas
end SoupVerif
