/-
  Algebraic facts about the matcher's list-level functions (`matchAny`, `matchSubs`, `matchList`)
  used by `Properties/C05`.
-/
import SoupVerif.Model.Api
namespace SoupVerif

/-- The context an HTML-only selector list is evaluated under (`self.namespaces = {'html': NS_XHTML}`,
    `self.iframe_restrict = True`). -/
def Ctx.htmlOnly (c : Ctx) : Ctx :=
  { c with namespaces := [("html".toStr, NS_XHTML)], iframeRestrict := true }

theorem matchAny_nil (c : Ctx) (l : Loc) (e : Elem) : matchAny c l e [] = false := by
  unfold matchAny; rfl

theorem matchAny_cons (c : Ctx) (l : Loc) (e : Elem) (s : Sel) (rest : List Sel) :
    matchAny c l e (s :: rest) = (matchSel c l e s || matchAny c l e rest) := by
  conv => lhs; unfold matchAny

theorem matchSubs_nil (c : Ctx) (l : Loc) (e : Elem) : matchSubs c l e [] = true := by
  unfold matchSubs; rfl

theorem matchSubs_cons (c : Ctx) (l : Loc) (e : Elem) (s : SelList) (rest : List SelList) :
    matchSubs c l e (s :: rest) = (matchList c l e s && matchSubs c l e rest) := by
  conv => lhs; unfold matchSubs

/-- The `for selector in selectors … break` loop is an existential: `any`. -/
theorem matchAny_eq_any (c : Ctx) (l : Loc) (e : Elem) (A : List Sel) :
    matchAny c l e A = A.any (matchSel c l e) := by
  induction A with
  | nil => simp [matchAny_nil]
  | cons s rest ih => simp [matchAny_cons, ih]

/-- `match_subselectors` is a universal: `all`. -/
theorem matchSubs_eq_all (c : Ctx) (l : Loc) (e : Elem) (S : List SelList) :
    matchSubs c l e S = S.all (matchList c l e) := by
  induction S with
  | nil => simp [matchSubs_nil]
  | cons s rest ih => simp [matchSubs_cons, ih]

theorem matchAny_append (c : Ctx) (l : Loc) (e : Elem) (A B : List Sel) :
    matchAny c l e (A ++ B) = (matchAny c l e A || matchAny c l e B) := by
  simp [matchAny_eq_any]

theorem matchSubs_append (c : Ctx) (l : Loc) (e : Elem) (S T : List SelList) :
    matchSubs c l e (S ++ T) = (matchSubs c l e S && matchSubs c l e T) := by
  simp [matchSubs_eq_all]

theorem matchAny_perm (c : Ctx) (l : Loc) (e : Elem) {A B : List Sel} (h : List.Perm A B) :
    matchAny c l e A = matchAny c l e B := by
  induction h with
  | nil => rfl
  | cons x _ ih => simp [matchAny_cons, ih]
  | swap x y t => simp only [matchAny_cons]; cases matchSel c l e x <;> cases matchSel c l e y <;> rfl
  | trans _ _ ih1 ih2 => exact ih1.trans ih2

/-- `matchList` unfolded, with the local context swap made explicit.  The `!A.isEmpty` conjunct is
    Python's `match = False` initialisation, which only the loop body overwrites: an *empty* list
    returns `False` even when `is_not` is set. -/
theorem matchList_mk (c : Ctx) (l : Loc) (e : Elem) (A : List Sel) (n h : Bool) :
    matchList c l e (.mk A n h) =
      (if (!h || c.isHtml) = true then
        (!A.isEmpty && (matchAny (if h = true then c.htmlOnly else c) l e A != n)) else false) := by
  conv => lhs; unfold matchList
  rfl

/-- For a list that is not negated the emptiness test is redundant. -/
theorem matchList_pos (c : Ctx) (l : Loc) (e : Elem) (A : List Sel) (h : Bool) :
    matchList c l e (.mk A false h) =
      ((!h || c.isHtml) && matchAny (if h = true then c.htmlOnly else c) l e A) := by
  rw [matchList_mk]
  cases A with
  | nil => simp [matchAny_nil]
  | cons s rest => split <;> simp_all

/-- A negated list. -/
theorem matchList_neg (c : Ctx) (l : Loc) (e : Elem) (A : List Sel) (h : Bool) :
    matchList c l e (.mk A true h) =
      ((!h || c.isHtml) && !A.isEmpty && !matchAny (if h = true then c.htmlOnly else c) l e A) := by
  rw [matchList_mk]
  split
  · rename_i hg; rw [hg]
    cases matchAny (if h = true then c.htmlOnly else c) l e A <;> simp
  · rename_i hg; simp only [Bool.not_eq_true] at hg; rw [hg]; rfl

/-- The `subs.isEmpty ||` guard of `matchSel` is redundant: `matchSubs [] = true`. -/
theorem subs_guard (c : Ctx) (l : Loc) (e : Elem) (S : List SelList) :
    (S.isEmpty || matchSubs c l e S) = matchSubs c l e S := by
  cases S with
  | nil => simp [matchSubs_nil]
  | cons s rest => simp

/-- `matchSel` of a compound, as (everything except the sub-lists) `&&` (the sub-lists). -/
theorem matchSel_mk_subs (c : Ctx) (l : Loc) (e : Elem)
    (tag : Option SelTag) (ids classes : List Str) (attrs : List AttrSel) (nth : List NthSel)
    (subs : List SelList) (relation : SelList) (relType : Rel) (contains : List ContainsSel)
    (lang : List LangSel) (flags : Nat) :
    matchSel c l e (.mk tag ids classes attrs nth subs relation relType contains lang flags) =
      (matchSel c l e (.mk tag ids classes attrs nth [] relation relType contains lang flags) &&
        matchSubs c l e subs) := by
  conv => lhs; unfold matchSel
  conv => rhs; unfold matchSel
  rw [subs_guard, subs_guard, matchSubs_nil]
  generalize matchSubs c l e subs = g
  cases g <;> simp

theorem matchEl_eq (c : Ctx) (sel : SelList) (l : Loc) :
    matchEl c sel l = (match l.focus with
      | .elem e _ => !e.isDoc && matchList c l e sel
      | _ => false) := rfl

end SoupVerif
