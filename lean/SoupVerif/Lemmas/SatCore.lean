/-
  Helper lemmas for `Properties/C01Sat`: the matcher on the IR produced by `Spec/CssCompile`,
  field by field, against the meaning of `Spec/Css`.
-/
import SoupVerif.Spec.CssCompile
import SoupVerif.Lemmas.SatTree
import SoupVerif.Lemmas.SatWords
import SoupVerif.Lemmas.MatchAlgebra
import SoupVerif.Properties.C02
import SoupVerif.Properties.C11
namespace SoupVerif
namespace SatCore
open Css SatTree

/-! ### Flags: only `SEL_ROOT` and `SEL_EMPTY` occur -/

theorem flags_cases (f : Nat) (h : f < 4) : f = 0 ∨ f = 1 ∨ f = 2 ∨ f = 3 := by omega

theorem flags_or_root (f : Nat) (h : f < 4) :
    (f ||| SEL_ROOT) < 4 ∧ hasFlag (f ||| SEL_ROOT) SEL_ROOT = true ∧
      hasFlag (f ||| SEL_ROOT) SEL_EMPTY = hasFlag f SEL_EMPTY := by
  rcases flags_cases f h with rfl | rfl | rfl | rfl <;> decide

theorem flags_or_empty (f : Nat) (h : f < 4) :
    (f ||| SEL_EMPTY) < 4 ∧ hasFlag (f ||| SEL_EMPTY) SEL_EMPTY = true ∧
      hasFlag (f ||| SEL_EMPTY) SEL_ROOT = hasFlag f SEL_ROOT := by
  rcases flags_cases f h with rfl | rfl | rfl | rfl <;> decide

theorem flags_other (f : Nat) (h : f < 4) :
    hasFlag f SEL_DEFINED = false ∧ hasFlag f SEL_SCOPE = false ∧
    hasFlag f SEL_PLACEHOLDER_SHOWN = false ∧ hasFlag f RANGES = false ∧
    hasFlag f SEL_DEFAULT = false ∧ hasFlag f SEL_INDETERMINATE = false ∧
    hasFlag f DIR_FLAGS = false := by
  rcases flags_cases f h with rfl | rfl | rfl | rfl <;> decide

/-! ### `matchSel` on the compiled shape -/

/-- What the relation list is tried on. -/
def onRel (c : Ctx) (relation : SelList) (t : Loc) : Bool :=
  match t.elem? with
  | some te => matchList c t te relation
  | none => false

/-- The relation conjunct of `matchSel`. -/
def relOk (c : Ctx) (l : Loc) (relation : SelList) : Bool :=
  !relation.nonEmpty || relationWalk c l (headRel relation) (onRel c relation)

/-- Everything `matchSel` checks for the fields of `Parts`. -/
def partsOk (c : Ctx) (l : Loc) (e : Elem) (p : Parts) : Bool :=
  (!hasFlag p.flags SEL_ROOT || matchRoot c l) && matchNths c l e p.nth &&
  (!hasFlag p.flags SEL_EMPTY || matchEmpty l) && matchId c e p.ids &&
  matchClasses c e p.classes && matchAttributes c e p.attrs && matchSubs c l e p.subs

theorem matchId_nil (c : Ctx) (e : Elem) : matchId c e [] = true := rfl
theorem matchClasses_nil (c : Ctx) (e : Elem) : matchClasses c e [] = true := rfl

theorem ids_guard (c : Ctx) (e : Elem) (ids : List Str) :
    (ids.isEmpty || matchId c e ids) = matchId c e ids := by
  cases ids <;> simp [matchId_nil]

theorem classes_guard (c : Ctx) (e : Elem) (cl : List Str) :
    (cl.isEmpty || matchClasses c e cl) = matchClasses c e cl := by
  cases cl <;> simp [matchClasses_nil]

theorem matchSel_toSel (c : Ctx) (l : Loc) (e : Elem) (p : Parts) (tag : Option SelTag)
    (relation : SelList) (rt : Rel) (hf : p.flags < 4) :
    matchSel c l e (p.toSel tag relation rt) =
      (matchTag c e tag && partsOk c l e p && relOk c l relation) := by
  obtain ⟨h1, h2, h3, h4, h5, h6, h7⟩ := flags_other p.flags hf
  unfold Parts.toSel
  conv => lhs; unfold matchSel
  rw [h1, h2, h3, h4, h5, h6, h7, subs_guard, ids_guard, classes_guard]
  unfold partsOk relOk onRel
  simp only [Bool.not_false, Bool.true_or, Bool.and_true, List.isEmpty_nil]
  generalize matchTag c e tag = a1
  generalize (!hasFlag p.flags SEL_ROOT || matchRoot c l) = a2
  generalize matchNths c l e p.nth = a3
  generalize (!hasFlag p.flags SEL_EMPTY || matchEmpty l) = a4
  generalize matchId c e p.ids = a5
  generalize matchClasses c e p.classes = a6
  generalize matchAttributes c e p.attrs = a7
  generalize matchSubs c l e p.subs = a8
  cases a1 <;> cases a2 <;> cases a3 <;> cases a4 <;> cases a5 <;> cases a6 <;> cases a7 <;>
    cases a8 <;> rfl

/-! ### Appending to a field -/

theorem matchNths_nil (c : Ctx) (l : Loc) (e : Elem) : matchNths c l e [] = true := by
  unfold matchNths; rfl

theorem matchNths_cons (c : Ctx) (l : Loc) (e : Elem) (n : NthSel) (rest : List NthSel) :
    matchNths c l e (n :: rest) = (matchNth c l e n && matchNths c l e rest) := by
  conv => lhs; unfold matchNths

theorem matchNths_append (c : Ctx) (l : Loc) (e : Elem) (A B : List NthSel) :
    matchNths c l e (A ++ B) = (matchNths c l e A && matchNths c l e B) := by
  induction A with
  | nil => simp [matchNths_nil]
  | cons n rest ih => simp [matchNths_cons, ih, Bool.and_assoc]

theorem matchId_append (c : Ctx) (e : Elem) (A B : List Str) :
    matchId c e (A ++ B) = (matchId c e A && matchId c e B) := by
  simp [matchId, List.all_append]

theorem matchClasses_append (c : Ctx) (e : Elem) (A B : List Str) :
    matchClasses c e (A ++ B) = (matchClasses c e A && matchClasses c e B) := by
  simp [matchClasses, List.all_append]

/-! ### Relation walks against the spec's sets (no iframe restriction) -/

theorem any_toList {α} (o : Option α) (f : α → Bool) :
    o.toList.any f = (match o with | some x => f x | none => false) := by
  cases o <;> simp

theorem walk_left (c : Ctx) (l : Loc) (k : Comb) (on : Loc → Bool) (hifr : c.iframeRestrict = false) :
    relationWalk c l k.rel on = (leftOf k l).any on := by
  cases k with
  | desc =>
    simp only [Comb.rel, relationWalk, leftOf, hifr, ctx_ancestors_false, ancestors_takeWhile]
  | child =>
    simp only [Comb.rel, relationWalk, leftOf, hifr, ctx_parent_false, parentElem_eq, any_toList]
    cases l.parent? with
    | none => rfl
    | some p => cases hp : p.isDoc <;> simp [hp]
  | sib => rfl
  | adj =>
    have h : precedingElemSiblings l = l.prevSiblings.filter Loc.isTag := rfl
    simp only [Comb.rel, relationWalk, leftOf, any_toList, h]
    cases (List.filter Loc.isTag l.prevSiblings).head? <;> rfl

theorem walk_right (c : Ctx) (l : Loc) (k : Comb) (on : Loc → Bool) (hifr : c.iframeRestrict = false) :
    relationWalk c l k.hasRel on = (rightOf k l).any on := by
  cases k with
  | desc => simp only [Comb.hasRel, relationWalk, rightOf, hifr, ctx_tagDescendants_false]
  | child => simp only [Comb.hasRel, relationWalk, rightOf, hifr, ctx_tagChildren_false]
  | sib => rfl
  | adj =>
    have h : followingElemSiblings l = l.nextSiblings.filter Loc.isTag := rfl
    simp only [Comb.hasRel, relationWalk, rightOf, any_toList, h]
    cases (List.filter Loc.isTag l.nextSiblings).head? <;> rfl

theorem relOk_empty (c : Ctx) (l : Loc) : relOk c l emptyList = true := rfl

theorem matchList_single (c : Ctx) (l : Loc) (e : Elem) (s : Sel) :
    matchList c l e (.mk [s] false false) = matchSel c l e s := by
  rw [matchList_pos]
  simp [matchAny_cons, matchAny_nil]

/-- An element location, with its element. -/
theorem isElem_focus {t : Loc} (h : isElem t = true) : ∃ te kids, t.focus = .elem te kids := by
  unfold isElem Node.isTag at h
  cases hf : t.focus with
  | elem te kids => exact ⟨te, kids, rfl⟩
  | str k s => rw [hf] at h; simp at h

theorem onRel_single (c : Ctx) (s : Sel) (t : Loc) (te : Elem) (kids : List Node)
    (hf : t.focus = .elem te kids) :
    onRel c (.mk [s] false false) t = matchSel c t te s := by
  unfold onRel Loc.elem?
  rw [hf]
  simp only [Node.elem?]
  exact matchList_single c t te s

theorem relOk_single (c : Ctx) (l : Loc) (s : Sel) :
    relOk c l (.mk [s] false false) = relationWalk c l s.relType (onRel c (.mk [s] false false)) := by
  simp [relOk, SelList.nonEmpty, SelList.sels, headRel]

/-- `any` over a list on which two predicates agree. -/
theorem any_congr_mem {α} (L : List α) (f g : α → Bool) (h : ∀ x ∈ L, f x = g x) :
    L.any f = L.any g := by
  induction L with
  | nil => rfl
  | cons x rest ih =>
    simp only [List.any_cons]
    rw [h x (List.mem_cons_self ..), ih (fun y hy => h y (List.mem_cons_of_mem _ hy))]

end SatCore
end SoupVerif
