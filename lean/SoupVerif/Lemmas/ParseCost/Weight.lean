/-
  C07 (parser level), part 3: from the number of iterations to an arbitrary weight.

  If every iteration that can occur while the total size `|pattern| + U table` is at most `N`
  weighs at most `M`, then the weight accumulated by the twin is at most `M ·` the number of
  iterations.  (`|pattern| + U table ≤ N` is invariant: a definition that is expanded is taken out
  of the table, so `|definition| + U (rest) ≤ U table`.)
-/
import SoupVerif.Lemmas.ParseCost.Steps
set_option autoImplicit false
namespace SoupVerif
namespace ParseCost
open Rx SoupVerif.Parser ParserProgress

/-- Every iteration in a context of size ≤ `N` weighs at most `M`. -/
def WBound (w : Weight) (N M : Nat) : Prop :=
  ∀ (pattern : Str) (s : LS), pattern.length + U s.custom ≤ N → w pattern s ≤ M

theorem mul_acc2 {a b M n : Nat} (ha : a ≤ M) (hb : b ≤ M * n) : a + b ≤ M * (1 + n) := by
  rw [Nat.mul_add, Nat.mul_one]; omega

theorem mul_acc3 {a b c M n1 n2 : Nat} (ha : a ≤ M) (hb : b ≤ M * n1) (hc : c ≤ M * n2) :
    a + b + c ≤ M * (1 + n1 + n2) := by
  rw [Nat.mul_add, Nat.mul_add, Nat.mul_one]; omega

section
variable (env : CharEnv) (L : Lexicon) (B : Builtins) (w : Weight) (N M : Nat)

def SelWInv (f : Nat) : Prop :=
  ∀ (pattern : Str) (pos idx fl : Nat) (c : Custom), pos ≤ pattern.length → idx ≤ pattern.length →
    pattern.length + U c ≤ N →
    (selRun w env L B pattern f pos idx fl c).2 ≤ M * (selRun unitWeight env L B pattern f pos idx fl c).2

def LoopWInv (f : Nat) : Prop :=
  ∀ (pattern : Str) (flags : Nat) (s : LS), s.pos ≤ pattern.length → s.index ≤ pattern.length →
    pattern.length + U s.custom ≤ N →
    (loopRun w env L B pattern f flags s).2 ≤ M * (loopRun unitWeight env L B pattern f flags s).2

theorem w_zero : SelWInv env L B w N M 0 ∧ LoopWInv env L B w N M 0 := by
  constructor
  · intro pattern pos idx fl c _ _ _
    rw [selRun_zero, selRun_zero]; exact Nat.zero_le _
  · intro pattern flags s _ _ _
    rw [loopRun_zero, loopRun_zero]; exact Nat.zero_le _

theorem selW_succ {f : Nat} (hl : LoopWInv env L B w N M f) : SelWInv env L B w N M (f + 1) := by
  intro pattern pos idx fl c hp hi hN
  have hl0 := hl pattern fl (initLS pos idx fl c) hp hi hN
  rw [selRun_succ, selRun_succ, loopRun_fst, loopRun_fst]
  cases parseLoop env L B pattern f fl (initLS pos idx fl c) <;> exact hl0

theorem loopW_succ (hL : LexOK L) (hw : WBound w N M) {f : Nat} (hs : SelWInv env L B w N M f)
    (hl : LoopWInv env L B w N M f) : LoopWInv env L B w N M (f + 1) := by
  intro pattern flags s hp hi hN
  have hw0 : w pattern s ≤ M := hw pattern s hN
  rw [loopRun_succ, loopRun_succ]
  have hspec := stepOf_spec (env := env) (B := B) (flags := flags) hL hi
  generalize stepOf env L B pattern flags s = st at hspec ⊢
  rcases hspec with ⟨stop, hlt, hle, hok⟩ | rfl | ⟨e, rfl, he⟩
  · simp only [] at hle
    cases st with
    | done r => show w pattern s ≤ M * 1; omega
    | cont s' =>
      obtain ⟨h1, h2, h3⟩ := hok
      have hI := hl pattern flags s' (by omega) (by omega) (by rw [h3]; exact hN)
      exact mul_acc2 hw0 hI
    | nest pat pos idx fl c k =>
      simp only []
      rw [selRun_fst, selRun_fst]
      rcases hok with ⟨e1, e2, e3, e4, hk⟩ | ⟨pseudo, text, hget, e1, e2, e3, e4, hk⟩
      · -- nested list in the same pattern
        simp only [] at e1
        rw [e1, e2, e3, e4]
        clear e1 e2 e3 e4 pat pos idx c
        have hS := hs pattern stop stop fl s.custom hle hle hN
        have hP := ((inv_all env L B hL f).1 pattern stop stop fl s.custom hle hle).1
        generalize parseSelectors env L B pattern f stop stop fl s.custom = r at hP ⊢
        rcases r with e | ⟨l, p', c'⟩
        · exact mul_acc2 hw0 hS
        · obtain ⟨g1, g2, g3⟩ := hP
          have g3' := U_le_of_W_le g3
          obtain ⟨k1, k2, k3⟩ := hk (l, p', c')
          simp only [] at k1 k3
          have hI := hl pattern flags (k (l, p', c')) (by omega) (by omega) (by rw [k3]; omega)
          exact mul_acc3 hw0 hS hI
      · -- expansion of a custom selector
        simp only [] at e1 e3
        subst e1 e2 e3 e4
        have hlen := nulFix_length text
        have hu := U_get_src hget
        have hst := startIndex_le ⟨env, L, B, nulFix text⟩
        simp only [] at hst
        have hS := hs (nulFix text) (startIndex ⟨env, L, B, nulFix text⟩) 0 fl (s.custom.erase pseudo)
          hst (Nat.zero_le _) (by omega)
        have hP := ((inv_all env L B hL f).1 (nulFix text) (startIndex ⟨env, L, B, nulFix text⟩) 0 fl
          (s.custom.erase pseudo) hst (Nat.zero_le _)).1
        generalize parseSelectors env L B (nulFix text) f _ 0 fl (s.custom.erase pseudo) = r at hP ⊢
        rcases r with e | ⟨l, p', c'⟩
        · exact mul_acc2 hw0 hS
        · obtain ⟨g1, g2, g3⟩ := hP
          have g3' := U_le_of_W_le g3
          obtain ⟨k1, k2, k3⟩ := hk (l, p', c')
          simp only [] at k1 k3
          have hset := U_set_compiled c' pseudo l
          have hI := hl pattern flags (k (l, p', c')) (by omega) (by omega) (by rw [k3]; omega)
          exact mul_acc3 hw0 hS hI
  · show w pattern s ≤ M * 1; omega
  · show w pattern s ≤ M * 1; omega

theorem w_all (hL : LexOK L) (hw : WBound w N M) : ∀ f, SelWInv env L B w N M f ∧ LoopWInv env L B w N M f
  | 0 => w_zero env L B w N M
  | f + 1 =>
    have ih := w_all hL hw f
    ⟨selW_succ env L B w N M ih.2, loopW_succ env L B w N M hL hw ih.1 ih.2⟩

end

/-! ## Monotonicity in the weight -/

/-- A pointwise larger weight accumulates more (same control flow: the results agree). -/
theorem run_mono (env : CharEnv) (L : Lexicon) (B : Builtins) (w w' : Weight)
    (hw : ∀ pattern s, w pattern s ≤ w' pattern s) : ∀ fuel : Nat,
    (∀ pattern pos idx fl c,
      (selRun w env L B pattern fuel pos idx fl c).2 ≤ (selRun w' env L B pattern fuel pos idx fl c).2) ∧
    (∀ pattern flags s,
      (loopRun w env L B pattern fuel flags s).2 ≤ (loopRun w' env L B pattern fuel flags s).2)
  | 0 => by
    refine ⟨fun pattern pos idx fl c => ?_, fun pattern flags s => ?_⟩
    · rw [selRun_zero, selRun_zero]
    · rw [loopRun_zero, loopRun_zero]
  | fuel + 1 => by
    obtain ⟨ihS, ihL⟩ := run_mono env L B w w' hw fuel
    refine ⟨fun pattern pos idx fl c => ?_, fun pattern flags s => ?_⟩
    · rw [selRun_succ, selRun_succ, loopRun_fst, loopRun_fst]
      cases parseLoop env L B pattern fuel fl (initLS pos idx fl c) <;> exact ihL _ _ _
    · rw [loopRun_succ, loopRun_succ]
      have h0 := hw pattern s
      cases stepOf env L B pattern flags s with
      | done r => exact h0
      | cont s' => exact Nat.add_le_add h0 (ihL _ _ _)
      | nest pat pos idx fl c k =>
        simp only []
        rw [selRun_fst, selRun_fst]
        cases parseSelectors env L B pat fuel pos idx fl c with
        | error e => exact Nat.add_le_add h0 (ihS _ _ _ _ _)
        | ok x => exact Nat.add_le_add (Nat.add_le_add h0 (ihS _ _ _ _ _)) (ihL _ _ _)

end ParseCost
end SoupVerif
