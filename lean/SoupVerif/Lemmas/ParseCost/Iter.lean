/-
  C07 (parser level), part 5: the weight of one iteration is polynomial.

  Hypothesis `RxBound env L C K`: every regular expression of the lexicon costs at most
  `C·(|s|+1)^K` on any subject `s` from any start (`C07.tokenize_poly` for the generated lexicon).
  With `W = Wb C K n = C·(n+1)^K + 1` (one engine call on a subject of length ≤ `n`) and
  `X = n + 1`:
    `subCost`, `unescCost` ≤ `X·W`;  `searchCost` ≤ `(X+1)·W`;  `parseValuesCost` ≤ `8·X·W` (potential
    argument: successive searches overlap in at most one position, the values are disjoint);
    `matchTokenCost` ≤ `|tokens|·(X+2)·W`;  `handlerCost` ≤ `9·X·W`;  `iterCost` ≤ `(3·|tokens| + 11)·X·W`.
-/
import SoupVerif.Lemmas.ParseCost.Weight
import SoupVerif.Lemmas.ParseCost.Caps
import Mathlib.Tactic.Ring
import Mathlib.Tactic.Linarith
set_option autoImplicit false
namespace SoupVerif
namespace ParseCost
open Rx SoupVerif.Parser ParserProgress

open Lean Elab Tactic Meta in
/-- Remove `Expr.mdata` annotations (which `unfold` copies from definition bodies) from the goal:
    `omega` does not look through them. -/
elab "strip_mdata" : tactic => do
  let g ← getMainGoal
  let t ← instantiateMVars (← g.getType)
  let t' ← Core.transform t (pre := fun e => match e with
    | .mdata _ b => pure (.visit b)
    | _ => pure .continue)
  replaceMainGoal [← g.replaceTargetDefEq t']

/-- Every expression of the lexicon has work at most `C·(|s|+1)^K`. -/
def RxBound (env : CharEnv) (L : Lexicon) (C K : Nat) : Prop :=
  ∀ r ∈ lexRegexes L, ∀ (s : Str) (i : Nat), work env s r i ≤ C * (s.length + 1) ^ K

/-- Bound of one engine call on a subject of length ≤ `n`. -/
def Wb (C K n : Nat) : Nat := C * (n + 1) ^ K + 1

theorem Wb_mono (C K : Nat) {n m : Nat} (h : n ≤ m) : Wb C K n ≤ Wb C K m := by
  unfold Wb
  exact Nat.succ_le_succ (Nat.mul_le_mul_left _ (Nat.pow_le_pow_left (Nat.succ_le_succ h) _))

theorem Wb_pos (C K n : Nat) : 1 ≤ Wb C K n := Nat.le_add_left _ _

theorem ite_le {c : Prop} [Decidable c] {a b H : Nat} (ha : a ≤ H) (hb : b ≤ H) :
    (if c then a else b) ≤ H := by
  split <;> assumption

/-- The escape expressions are not nullable (so `css_unescape` cannot lengthen a string). -/
structure EscOK (L : Lexicon) : Prop where
  esc : nullable L.reCssEsc = false
  strEsc : nullable L.reCssStrEsc = false

section
variable {env : CharEnv} {L : Lexicon} {C K : Nat}

theorem matchCost_le (hW : RxBound env L C K) {r : Rx} (hr : r ∈ lexRegexes L) {s : Str} {n : Nat}
    (hs : s.length ≤ n) (i : Nat) : matchCost env r s i ≤ Wb C K n := by
  unfold matchCost
  have h1 := hW r hr s i
  have h2 := Wb_mono C K hs
  unfold Wb at h2 ⊢
  omega

/-! ### membership in `lexRegexes` -/

theorem mem_lex_token {t : TokenRx} (h : (t, false) ∈ L.tokens) : t.rx ∈ lexRegexes L := by
  unfold lexRegexes
  refine List.mem_append_left _ (List.mem_append_left _ (List.mem_append_left _ ?_))
  exact List.mem_map.mpr ⟨(t, false), List.mem_filter.mpr ⟨h, rfl⟩, rfl⟩

theorem mem_lex_specialName : L.specialName.rx ∈ lexRegexes L := by
  unfold lexRegexes
  exact List.mem_append_left _ (List.mem_append_left _ (List.mem_append_right _ (List.mem_singleton.mpr rfl)))

theorem mem_lex_special {e : Str × TokenRx} (h : e ∈ L.special) : e.2.rx ∈ lexRegexes L := by
  unfold lexRegexes
  exact List.mem_append_left _ (List.mem_append_right _ (List.mem_map.mpr ⟨e, h, rfl⟩))

theorem mem_lex_fixed (r : Rx)
    (h : r = L.reCssEsc ∨ r = L.reCssStrEsc ∨ r = L.reNth.rx ∨ r = L.reValues.rx ∨ r = L.reWs ∨
      r = L.reWsBegin ∨ r = L.reWsEnd ∨ r = L.reCustom) : r ∈ lexRegexes L := by
  unfold lexRegexes
  refine List.mem_append_right _ ?_
  simp only [List.mem_cons, List.not_mem_nil, or_false]
  exact h

theorem mem_lex_esc (string : Bool) : (if string then L.reCssStrEsc else L.reCssEsc) ∈ lexRegexes L := by
  cases string
  · exact mem_lex_fixed _ (Or.inl rfl)
  · exact mem_lex_fixed _ (Or.inr (Or.inl rfl))

/-! ### `sub`, `search` -/

theorem subCost_go_le (hW : RxBound env L C K) {r : Rx} (hr : r ∈ lexRegexes L) (s : Str) :
    ∀ fuel i, subCost.go env r s fuel i ≤ fuel * Wb C K s.length := by
  intro fuel
  induction fuel with
  | zero => intro i; simp [subCost.go]
  | succ n ih =>
    intro i
    have hm := matchCost_le hW hr (Nat.le_refl s.length) i
    rw [Nat.succ_mul]
    unfold subCost.go
    split
    · exact Nat.zero_le _
    · have h0 : (0 : Nat) ≤ n * Wb C K s.length := Nat.zero_le _
      split
      · split
        · have := ih ‹_›; omega
        · split
          · have := ih (i + 1); omega
          · omega
      · split
        · have := ih (i + 1); omega
        · omega

theorem subCost_le (hW : RxBound env L C K) {r : Rx} (hr : r ∈ lexRegexes L) {s : Str} {n : Nat}
    (hs : s.length ≤ n) : subCost env r s ≤ (n + 1) * Wb C K n := by
  unfold subCost
  exact Nat.le_trans (subCost_go_le hW hr s _ _)
    (Nat.mul_le_mul (Nat.succ_le_succ hs) (Wb_mono C K hs))

theorem unescCost_le (hW : RxBound env L C K) {s : Str} {n : Nat} (hs : s.length ≤ n) (string : Bool) :
    unescCost env L s string ≤ (n + 1) * Wb C K n :=
  subCost_le hW (mem_lex_esc string) hs

theorem searchFromCost_le (hW : RxBound env L C K) {r : Rx} (hr : r ∈ lexRegexes L) (s : Str) :
    ∀ fuel i, searchFromCost env r s fuel i ≤ fuel * Wb C K s.length := by
  intro fuel
  induction fuel with
  | zero => intro i; simp [searchFromCost]
  | succ n ih =>
    intro i
    have hm := matchCost_le hW hr (Nat.le_refl s.length) i
    rw [Nat.succ_mul]
    unfold searchFromCost
    split
    · omega
    · split
      · have := ih (i + 1); omega
      · omega

theorem searchCost_le (hW : RxBound env L C K) {r : Rx} (hr : r ∈ lexRegexes L) {s : Str} {n : Nat}
    (hs : s.length ≤ n) (i : Nat) : searchCost env r s i ≤ (n + 2) * Wb C K n := by
  unfold searchCost
  exact Nat.le_trans (searchFromCost_le hW hr s _ _)
    (Nat.mul_le_mul (by omega) (Wb_mono C K hs))

/-! ### values, `An+B`, attributes -/

theorem valueUnescCost_le (hW : RxBound env L C K) {v : Str} {n : Nat} (hv : v.length ≤ n) :
    valueUnescCost env L v ≤ (n + 1) * Wb C K n := by
  unfold valueUnescCost
  have hsl : (slice v 1 (v.length - 1)).length ≤ n := Nat.le_trans (slice_length_le v 1 _).2 hv
  split
  · split
    · exact unescCost_le hW hsl true
    · exact unescCost_le hW hv false
  · exact unescCost_le hW hv false

/-- A named group is the slice of a capture span. -/
theorem group_span {s : Str} {t : TokenRx} {caps : Caps} {name : String} {g : Str}
    (h : Parser.group s t caps name = some g) :
    ∃ idx a b, capSpan caps idx = some (a, b) ∧ g = slice s a b := by
  unfold Parser.group at h
  split at h
  · rename_i nm idx hfind
    cases hc : capSpan caps idx with
    | none => rw [hc] at h; cases h
    | some ab =>
      rw [hc] at h
      simp only [Option.map_some, Option.some.injEq] at h
      exact ⟨idx, ab.1, ab.2, hc, h.symm⟩
  · cases h

/-- The value of one `RE_VALUES` match `[a, j)` costs at most `(j − a + 1)` engine calls. -/
theorem valueCostOf_le_span (hW : RxBound env L C K) (P : PEnv) (hP : P.env = env ∧ P.L = L) {values : Str}
    {a j : Nat} {caps : Caps} (hm : matchAt P.env P.L.reValues.rx values a = some (j, caps))
    (hj : j ≤ values.length) : valueCostOf P values caps ≤ (j - a + 1) * Wb C K values.length := by
  obtain ⟨rfl, rfl⟩ := hP
  unfold valueCostOf
  simp only []
  split <;> refine ite_le (Nat.zero_le _) ?_ <;> split
  all_goals first
    | exact Nat.zero_le _
    | (rename_i v hg
       obtain ⟨idx, a', b', hcap, rfl⟩ := group_span hg
       have hsp := matchAt_capSpan hm hcap
       have hl := (slice_length_le values a' b').1
       have h1 : (slice values a' b').length ≤ j - a := by omega
       exact Nat.le_trans (valueUnescCost_le hW (Nat.le_refl _))
         (Nat.mul_le_mul (by omega) (Wb_mono C K (by omega))))

/-- `Rx.searchFrom`: where the match is found, and what finding it costs. -/
theorem searchFrom_spec (hW : RxBound env L C K) {r : Rx} (hr : r ∈ lexRegexes L) (s : Str) :
    ∀ fuel i, i ≤ s.length →
      (∀ a j c, searchFrom env r s fuel i = some (a, j, c) →
        i ≤ a ∧ a ≤ s.length ∧ matchAt env r s a = some (j, c) ∧
          searchFromCost env r s fuel i ≤ (a - i + 1) * Wb C K s.length) ∧
      (searchFrom env r s fuel i = none → searchFromCost env r s fuel i ≤ fuel * Wb C K s.length) := by
  intro fuel
  induction fuel with
  | zero =>
    intro i _
    refine ⟨fun a j c h => ?_, fun _ => ?_⟩
    · simp [searchFrom] at h
    · simp [searchFromCost]
  | succ n ih =>
    intro i hi
    have hm := matchCost_le hW hr (Nat.le_refl s.length) i
    unfold searchFrom searchFromCost
    cases hma : matchAt env r s i with
    | some jc =>
      obtain ⟨j, c⟩ := jc
      simp only []
      refine ⟨fun a j' c' h => ?_, fun h => (by cases h)⟩
      simp only [Option.some.injEq, Prod.mk.injEq] at h
      obtain ⟨rfl, rfl, rfl⟩ := h
      refine ⟨Nat.le_refl _, hi, hma, ?_⟩
      simp only [Nat.sub_self, Nat.zero_add, Nat.one_mul, Nat.add_zero]
      exact hm
    | none =>
      simp only []
      by_cases hlt : i < s.length
      · simp only [hlt, if_true]
        obtain ⟨ih1, ih2⟩ := ih (i + 1) hlt
        refine ⟨fun a j c h => ?_, fun h => ?_⟩
        · obtain ⟨g1, g2, g3, g4⟩ := ih1 a j c h
          refine ⟨by omega, g2, g3, ?_⟩
          have : a - i + 1 = (a - (i + 1) + 1) + 1 := by omega
          rw [this, Nat.add_mul, Nat.one_mul]
          omega
        · have := ih2 h
          rw [Nat.succ_mul]; omega
      · simp only [hlt, if_false]
        refine ⟨fun a j c h => (by cases h), fun _ => ?_⟩
        rw [Nat.succ_mul]; omega

/-- Potential argument for `parseValues`: the searches of successive iterations overlap in at
    most one position, the values are disjoint pieces of the text. -/
theorem parseValuesCost_go_le (hW : RxBound env L C K) (P : PEnv) (hP : P.env = env ∧ P.L = L) (values : Str) :
    ∀ fuel i, parseValuesCost.go P values fuel i ≤
      4 * (values.length + 2 - i) * Wb C K values.length := by
  intro fuel
  induction fuel with
  | zero => intro i; simp [parseValuesCost.go]
  | succ n ih =>
    intro i
    unfold parseValuesCost.go
    split
    · exact Nat.zero_le _
    · rename_i hi
      have hi' : i ≤ values.length := by omega
      have hr : P.L.reValues.rx ∈ lexRegexes L := by
        rw [hP.2]; exact mem_lex_fixed _ (Or.inr (Or.inr (Or.inr (Or.inl rfl))))
      have hW' : RxBound P.env L C K := by rw [hP.1]; exact hW
      obtain ⟨hs1, hs2⟩ := searchFrom_spec hW' hr values (values.length + 2 - i) i hi'
      have hsearch : Rx.search P.env P.L.reValues.rx values i =
          searchFrom P.env P.L.reValues.rx values (values.length + 2 - i) i := rfl
      have hcost : searchCost P.env P.L.reValues.rx values i =
          searchFromCost P.env P.L.reValues.rx values (values.length + 2 - i) i := rfl
      rw [hsearch, hcost]
      cases hsr : searchFrom P.env P.L.reValues.rx values (values.length + 2 - i) i with
      | none =>
        simp only []
        have := hs2 hsr
        refine Nat.le_trans (by omega : _ ≤ (values.length + 2 - i) * Wb C K values.length)
          (Nat.mul_le_mul_right _ (by omega))
      | some ajc =>
        obtain ⟨a, j, caps⟩ := ajc
        simp only []
        obtain ⟨g1, g2, g3, g4⟩ := hs1 a j caps hsr
        have hj : j ≤ values.length := matchAt_le_length g3 g2
        have haj : a ≤ j := (matchAt_le g3).1
        have hv := valueCostOf_le_span hW P hP g3 hj
        have hih := ih (if j > i then j else i + 1)
        have hcoef : (a - i + 1) + (j - a + 1) + 4 * (values.length + 2 - (if j > i then j else i + 1)) ≤
            4 * (values.length + 2 - i) := by
          split <;> omega
        refine Nat.le_trans ?_ (Nat.mul_le_mul_right _ hcoef)
        rw [Nat.add_mul, Nat.add_mul]
        omega

theorem parseValuesCost_le (hW : RxBound env L C K) (P : PEnv) (hP : P.env = env ∧ P.L = L) {values : Str}
    {n : Nat} (hv : values.length ≤ n) :
    parseValuesCost P values ≤ 8 * ((n + 1) * Wb C K n) := by
  unfold parseValuesCost
  refine Nat.le_trans (parseValuesCost_go_le hW P hP values _ _) ?_
  have h1 := Wb_mono C K hv
  calc 4 * (values.length + 2 - 0) * Wb C K values.length
      ≤ (8 * (n + 1)) * Wb C K n := Nat.mul_le_mul (by omega) h1
    _ = 8 * ((n + 1) * Wb C K n) := by ring

theorem parseAnBCost_le (hW : RxBound env L C K) (P : PEnv) (hP : P.env = env ∧ P.L = L) {content : Str}
    {n : Nat} (hc : content.length ≤ n) : parseAnBCost P content ≤ Wb C K n := by
  obtain ⟨rfl, rfl⟩ := hP
  unfold parseAnBCost
  split
  · exact Nat.zero_le _
  · split
    · exact Nat.zero_le _
    · exact matchCost_le hW (mem_lex_fixed _ (Or.inr (Or.inr (Or.inl rfl)))) hc 0

theorem token_group_getD_le (P : PEnv) (t : Token) (name : String) :
    ((t.group P name).getD []).length ≤ P.pattern.length :=
  group_getD_length_le _ _ _ _

theorem nsCost_le (hW : RxBound env L C K) (P : PEnv) (hP : P.env = env ∧ P.L = L) (t : Token) (name : String)
    {n : Nat} (hn : P.pattern.length ≤ n) : nsCost P (t.group P name) ≤ (n + 1) * Wb C K n := by
  obtain ⟨rfl, rfl⟩ := hP
  unfold nsCost
  split
  · rename_i g hg
    split
    · exact Nat.zero_le _
    · have : g.length ≤ P.pattern.length := group_length_le _ _ _ _ hg
      exact unescCost_le hW (by rw [List.length_take]; omega) false
  · exact Nat.zero_le _

theorem attrValue_length_le (hE : EscOK L) (P : PEnv) (hP : P.L = L) (t : Token) :
    (attrValue P t).length ≤ P.pattern.length := by
  subst hP
  unfold attrValue
  simp only []
  have hraw := token_group_getD_le P t "value"
  have hu := fun (x : Str) (b : Bool) => cssUnescape_length_le (env := P.env) hE.esc hE.strEsc x b
  split
  · exact Nat.zero_le _
  · split
    · split
      · refine Nat.le_trans (hu _ _) (Nat.le_trans (slice_length_le _ _ _).2 hraw)
      · exact Nat.le_trans (hu _ _) hraw
    · exact Nat.le_trans (hu _ _) hraw

theorem parseAttributeCost_le (hW : RxBound env L C K) (hE : EscOK L) (P : PEnv) (hP : P.env = env ∧ P.L = L)
    (t : Token) {n : Nat} (hn : P.pattern.length ≤ n) :
    parseAttributeCost P t ≤ 3 * ((n + 1) * Wb C K n) + (n + 2) * Wb C K n := by
  have h1 := nsCost_le hW P hP t "attr_ns" hn
  have hv := attrValue_length_le hE P hP.2 t
  obtain ⟨rfl, rfl⟩ := hP
  unfold parseAttributeCost
  simp only []
  have h2 := unescCost_le hW (Nat.le_trans (token_group_getD_le P t "attr_name") hn) false
  have h3 : (if ((t.group P "cmp").getD []).isEmpty = true then 0
      else valueUnescCost P.env P.L ((t.group P "value").getD [])) ≤ (n + 1) * Wb C K n := by
    split
    · exact Nat.zero_le _
    · exact valueUnescCost_le hW (Nat.le_trans (token_group_getD_le P t "value") hn)
  have h4 := searchCost_le hW (mem_lex_fixed P.L.reWs (Or.inr (Or.inr (Or.inr (Or.inr (Or.inl rfl))))))
    (Nat.le_trans hv hn) 0
  omega

theorem startCost_le (hW : RxBound env L C K) (B : Builtins) {pattern : Str} {n : Nat}
    (hn : pattern.length ≤ n) : startCost ⟨env, L, B, pattern⟩ ≤ Wb C K n :=
  matchCost_le hW (mem_lex_fixed _ (Or.inr (Or.inr (Or.inr (Or.inr (Or.inr (Or.inl rfl))))))) hn 0

theorem defStartCost_le (hW : RxBound env L C K) (P : PEnv) (hP : P.env = env ∧ P.L = L) (v : Option CustomVal)
    {n : Nat} (hn : ∀ text, v = some (.src text) → text.length ≤ n) : defStartCost P v ≤ Wb C K n := by
  obtain ⟨rfl, rfl⟩ := hP
  unfold defStartCost
  split
  · rename_i text
    refine startCost_le hW P.B ?_
    rw [List.length_map]; exact hn text rfl
  · exact Nat.zero_le _

/-! ### the tokenizer -/

theorem matchTokenCost_le (hW : RxBound env L C K) (P : PEnv) (hP : P.env = env ∧ P.L = L) (i : Nat) {n : Nat}
    (hn : P.pattern.length ≤ n) :
    ∀ toks : List (TokenRx × Bool), (∀ t ∈ toks, t ∈ L.tokens) →
      matchTokenCost P i toks ≤ toks.length * ((n + 3) * Wb C K n)
  | [], _ => by simp [matchTokenCost]
  | (t, isSpecial) :: rest, hsub => by
    have ih := matchTokenCost_le hW P hP i hn rest (fun x hx => hsub x (List.mem_cons_of_mem _ hx))
    obtain ⟨rfl, rfl⟩ := hP
    have hW1 := Wb_pos C K n
    have hexp : (n + 3) * Wb C K n = (n + 1) * Wb C K n + Wb C K n + Wb C K n := by ring
    rw [List.length_cons, Nat.succ_mul, hexp]
    rw [hexp] at ih
    unfold matchTokenCost
    cases isSpecial with
    | true =>
      rw [if_pos rfl]
      have h1 := matchCost_le hW (mem_lex_specialName (L := P.L)) hn i
      split
      · rename_i j caps hm
        simp only []
        have h2 := unescCost_le hW (Nat.le_trans (group_getD_length_le P.pattern P.L.specialName caps "name") hn) false
        split
        · rename_i e sub hfind
          have h3 := matchCost_le hW (mem_lex_special (List.mem_of_find?_eq_some hfind)) hn i
          simp only [] at h3
          split <;> (strip_mdata; omega)
        · strip_mdata; omega
      · omega
    | false =>
      simp only [Bool.false_eq_true, if_false]
      have h1 := matchCost_le hW (mem_lex_token (hsub (t, false) (List.mem_cons_self ..))) hn i
      split <;> omega

theorem nextTokenCost_le (hW : RxBound env L C K) (P : PEnv) (hP : P.env = env ∧ P.L = L) (i : Nat) {n : Nat}
    (hn : P.pattern.length ≤ n) :
    nextTokenCost P i ≤ Wb C K n + L.tokens.length * ((n + 3) * Wb C K n) := by
  have h2 := matchTokenCost_le hW P hP i hn L.tokens (fun _ h => h)
  obtain ⟨rfl, rfl⟩ := hP
  unfold nextTokenCost
  have h1 := matchCost_le hW (mem_lex_fixed P.L.reWsEnd
    (Or.inr (Or.inr (Or.inr (Or.inr (Or.inr (Or.inr (Or.inl rfl)))))))) hn i
  split
  · exact Nat.zero_le _
  · split <;> omega

/-! ### one iteration -/

theorem src_length_le_U {c : Custom} {k text : Str} (h : c.get? k = some (.src text)) : text.length ≤ U c := by
  have := U_get_src h; omega

theorem handlerCost_le (hW : RxBound env L C K) (hE : EscOK L) (P : PEnv) (hP : P.env = env ∧ P.L = L)
    (t : Token) (s : LS) {n : Nat} (hn : P.pattern.length ≤ n) (hu : U s.custom ≤ n) :
    handlerCost P t s ≤ 9 * ((n + 1) * Wb C K n) := by
  have hW1 := Wb_pos C K n
  have hA : Wb C K n ≤ (n + 1) * Wb C K n := Nat.le_mul_of_pos_left _ (Nat.succ_pos _)
  have hB : (n + 1) * Wb C K n ≤ (n + 1) * (n + 1) * Wb C K n := by
    rw [Nat.mul_assoc]; exact Nat.le_mul_of_pos_left _ (Nat.succ_pos _)
  have hname := unescCost_le hW (Nat.le_trans (token_group_getD_le P t "name") hn) false
  have hvals := parseValuesCost_le hW P hP (Nat.le_trans (token_group_getD_le P t "values") hn)
  have hanb := parseAnBCost_le hW P hP (content := nthContent P t) (n := n) (by
    unfold nthContent; simp only []; rw [lower_length]
    exact Nat.le_trans (token_group_getD_le P t _) hn)
  have hattr := parseAttributeCost_le hW hE P hP t hn
  have hattr' : (n + 2) * Wb C K n = (n + 1) * Wb C K n + Wb C K n := by ring
  rw [hattr'] at hattr
  have hns := nsCost_le hW P hP t "tag_ns" hn
  have htag := unescCost_le hW (Nat.le_trans (token_group_getD_le P t "tag_name") hn) false
  have hcls := unescCost_le hW (s := (slice P.pattern t.start t.stop).drop 1) (n := n) (by
    rw [List.length_drop]
    have := (slice_length_le P.pattern t.start t.stop).2
    omega) false
  have hdef := fun k => defStartCost_le hW P hP (s.custom.get? k) (n := n)
    (fun text h => Nat.le_trans (src_length_le_U h) hu)
  obtain ⟨rfl, rfl⟩ := hP
  unfold handlerCost
  simp only []
  have hdef' := hdef (lower (cssUnescape P.env P.L ((t.group P "name").getD [])))
  strip_mdata
  repeat' (first | refine ite_le ?_ ?_ | omega)

theorem iterCost_le (hW : RxBound env L C K) (hE : EscOK L) (P : PEnv) (hP : P.env = env ∧ P.L = L)
    (s : LS) {n : Nat} (hn : P.pattern.length ≤ n) (hu : U s.custom ≤ n) :
    iterCost P s ≤ (3 * L.tokens.length + 11) * ((n + 1) * Wb C K n) := by
  have hW1 := Wb_pos C K n
  have hA : Wb C K n ≤ (n + 1) * Wb C K n := Nat.le_mul_of_pos_left _ (Nat.succ_pos _)
  have h1 := nextTokenCost_le hW P hP s.pos hn
  have h2 : outcomeCost P s (nextToken P s.pos) ≤ 9 * ((n + 1) * Wb C K n) := by
    unfold outcomeCost
    split
    · exact handlerCost_le hW hE P hP _ s hn hu
    · exact Nat.zero_le _
  have h3 : (n + 3) * Wb C K n ≤ 3 * ((n + 1) * Wb C K n) := by
    have : (n + 3) * Wb C K n = (n + 1) * Wb C K n + 2 * Wb C K n := by ring
    omega
  have h4 : L.tokens.length * ((n + 3) * Wb C K n) ≤
      3 * L.tokens.length * ((n + 1) * Wb C K n) := by
    calc L.tokens.length * ((n + 3) * Wb C K n)
        ≤ L.tokens.length * (3 * ((n + 1) * Wb C K n)) := Nat.mul_le_mul_left _ h3
      _ = 3 * L.tokens.length * ((n + 1) * Wb C K n) := by ring
  have h5 : (3 * L.tokens.length + 11) * ((n + 1) * Wb C K n) =
      3 * L.tokens.length * ((n + 1) * Wb C K n) + 11 * ((n + 1) * Wb C K n) := by ring
  unfold iterCost
  rw [h5]
  omega

end

end ParseCost
end SoupVerif
