/-
  C07 (parser level), part 1: the twins `selRun` / `loopRun` / `compileRun` of
  `Spec/ParseCost.lean` compute the model's results — for EVERY weight, lexicon, fuel.
-/
import SoupVerif.Spec.ParseCost
import SoupVerif.Lemmas.ParserProgress
set_option autoImplicit false
namespace SoupVerif
namespace ParseCost
open Rx SoupVerif.Parser ParserProgress

theorem selRun_zero (w : Weight) (env : CharEnv) (L : Lexicon) (B : Builtins) (pattern : Str)
    (pos idx fl : Nat) (c : Custom) :
    selRun w env L B pattern 0 pos idx fl c =
      (.error { kind := .pyBug "RecursionError", pattern := pattern, offset := 0 }, 0) := by
  rw [selRun]

theorem selRun_succ (w : Weight) (env : CharEnv) (L : Lexicon) (B : Builtins) (pattern : Str)
    (fuel pos idx fl : Nat) (c : Custom) :
    selRun w env L B pattern (fuel + 1) pos idx fl c =
      match (loopRun w env L B pattern fuel fl (initLS pos idx fl c)).1 with
      | .error e => (.error e, (loopRun w env L B pattern fuel fl (initLS pos idx fl c)).2)
      | .ok s => (finishSel env L B pattern fl s, (loopRun w env L B pattern fuel fl (initLS pos idx fl c)).2) := by
  rw [selRun]; rfl

theorem loopRun_zero (w : Weight) (env : CharEnv) (L : Lexicon) (B : Builtins) (pattern : Str)
    (flags : Nat) (s : LS) : loopRun w env L B pattern 0 flags s = (.ok s, 0) := by
  rw [loopRun]

theorem loopRun_succ (w : Weight) (env : CharEnv) (L : Lexicon) (B : Builtins) (pattern : Str)
    (fuel flags : Nat) (s : LS) :
    loopRun w env L B pattern (fuel + 1) flags s =
      match stepOf env L B pattern flags s with
      | .done r => (r, w pattern s)
      | .cont s' =>
        ((loopRun w env L B pattern fuel flags s').1, w pattern s + (loopRun w env L B pattern fuel flags s').2)
      | .nest pat pos idx fl c k =>
        match (selRun w env L B pat fuel pos idx fl c).1 with
        | .error e => (.error e, w pattern s + (selRun w env L B pat fuel pos idx fl c).2)
        | .ok x =>
          ((loopRun w env L B pattern fuel flags (k x)).1,
            w pattern s + (selRun w env L B pat fuel pos idx fl c).2 +
              (loopRun w env L B pattern fuel flags (k x)).2) := by
  rw [loopRun]; rfl

/-- The result components of the twins are the model's functions. -/
theorem run_fst (w : Weight) (env : CharEnv) (L : Lexicon) (B : Builtins) : ∀ fuel : Nat,
    (∀ pattern pos idx fl c,
      (selRun w env L B pattern fuel pos idx fl c).1 = parseSelectors env L B pattern fuel pos idx fl c) ∧
    (∀ pattern flags s,
      (loopRun w env L B pattern fuel flags s).1 = parseLoop env L B pattern fuel flags s)
  | 0 => by
    refine ⟨fun pattern pos idx fl c => ?_, fun pattern flags s => ?_⟩
    · rw [selRun_zero, parseSelectors]
    · rw [loopRun_zero, parseLoop]
  | fuel + 1 => by
    obtain ⟨ihS, ihL⟩ := run_fst w env L B fuel
    refine ⟨fun pattern pos idx fl c => ?_, fun pattern flags s => ?_⟩
    · rw [selRun_succ, parseSelectors_succ, ihL]
      cases parseLoop env L B pattern fuel fl (initLS pos idx fl c) <;> rfl
    · rw [loopRun_succ, parseLoop_succ]
      cases stepOf env L B pattern flags s with
      | done r => rfl
      | cont s' => exact ihL pattern flags s'
      | nest pat pos idx fl c k =>
        simp only [runStep]
        rw [ihS]
        cases parseSelectors env L B pat fuel pos idx fl c with
        | error e => rfl
        | ok x => exact ihL pattern flags (k x)

/-- **Twin = model** for `parse_selectors`. -/
theorem selRun_fst (w : Weight) (env : CharEnv) (L : Lexicon) (B : Builtins) (pattern : Str)
    (fuel pos idx fl : Nat) (c : Custom) :
    (selRun w env L B pattern fuel pos idx fl c).1 = parseSelectors env L B pattern fuel pos idx fl c :=
  (run_fst w env L B fuel).1 pattern pos idx fl c

/-- **Twin = model** for the loop. -/
theorem loopRun_fst (w : Weight) (env : CharEnv) (L : Lexicon) (B : Builtins) (pattern : Str)
    (fuel flags : Nat) (s : LS) :
    (loopRun w env L B pattern fuel flags s).1 = parseLoop env L B pattern fuel flags s :=
  (run_fst w env L B fuel).2 pattern flags s

/-- **Twin = model** for `compile`. -/
theorem compileRun_fst (w : Weight) (env : CharEnv) (L : Lexicon) (B : Builtins) (pattern : Str)
    (custom : List (Str × Str)) (flags : Nat) :
    (compileRun w env L B pattern custom flags).1 = compile env L B pattern custom flags := by
  unfold compileRun compile
  cases processCustom env L custom with
  | error e => rfl
  | ok c =>
    simp only [selRun_fst]
    show _ = (parseSelectors env L B _ _ _ 0 flags c >>= fun x => match x with | (l, _, _) => pure l)
    cases parseSelectors env L B _ _ _ 0 flags c with
    | error e => rfl
    | ok r => rfl

end ParseCost
end SoupVerif
