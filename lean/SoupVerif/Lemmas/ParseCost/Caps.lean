/-
  C07 (parser level), part 4: capture spans lie inside the match, hence `css_unescape` does not
  lengthen its argument.

  * `runs_caps`: if all capture spans lie in `[lo, i]`, every result `(j, caps')` of `runs … i caps`
    has all spans in `[lo, j]` (mutual induction over the expression, as `runs_map_fst`).
  * `matchAt_capSpan`: a group of a successful `matchAt … i = some (j, caps)` spans `a ≤ b` inside
    `[i, j]`.
  * `cssUnescape_length_le`: for non-nullable escape expressions, `|css_unescape s| ≤ |s|`
    (every replacement is at most as long as the text it replaces).
-/
import SoupVerif.Lemmas.ParserProgress
set_option autoImplicit false
namespace SoupVerif
namespace ParseCost
open Rx SoupVerif.Parser ParserProgress

/-- All capture spans lie in `[lo, hi]` (and are well-formed). -/
def CapsIn (lo hi : Nat) (c : Caps) : Prop := ∀ e ∈ c, lo ≤ e.2.1 ∧ e.2.1 ≤ e.2.2 ∧ e.2.2 ≤ hi

theorem CapsIn.mono {lo hi hi' : Nat} {c : Caps} (h : CapsIn lo hi c) (hh : hi ≤ hi') : CapsIn lo hi' c :=
  fun e he => ⟨(h e he).1, (h e he).2.1, Nat.le_trans (h e he).2.2 hh⟩

/-- What a matcher started at `i` with captures in `[lo, i]` returns. -/
def RunsOK (lo i : Nat) (l : List (Nat × Caps)) : Prop := ∀ x ∈ l, i ≤ x.1 ∧ CapsIn lo x.1 x.2

theorem RunsOK.single {lo i : Nat} {caps : Caps} (h : CapsIn lo i caps) : RunsOK lo i [(i, caps)] := by
  intro x hx
  simp only [List.mem_singleton] at hx
  subst hx
  exact ⟨Nat.le_refl _, h⟩

theorem RunsOK.step {lo i : Nat} {caps : Caps} (h : CapsIn lo i caps) : RunsOK lo i [(i + 1, caps)] := by
  intro x hx
  simp only [List.mem_singleton] at hx
  subst hx
  exact ⟨Nat.le_succ _, h.mono (Nat.le_succ _)⟩

theorem RunsOK.nil {lo i : Nat} : RunsOK lo i [] := fun _ h => by simp at h

theorem RunsOK.ite {lo i : Nat} {c : Prop} [Decidable c] {a b : List (Nat × Caps)}
    (ha : RunsOK lo i a) (hb : RunsOK lo i b) : RunsOK lo i (if c then a else b) := by
  split <;> assumption

theorem RunsOK.append {lo i : Nat} {a b : List (Nat × Caps)}
    (ha : RunsOK lo i a) (hb : RunsOK lo i b) : RunsOK lo i (a ++ b) := by
  intro x hx
  rcases List.mem_append.mp hx with h | h
  · exact ha x h
  · exact hb x h

theorem iter_caps (lo : Nat) (body : Nat → Caps → List (Nat × Caps))
    (hbody : ∀ p c, lo ≤ p → CapsIn lo p c → RunsOK lo p (body p c))
    (mn : Nat) (mx : Option Nat) (g : Bool) :
    ∀ fuel count pos caps, lo ≤ pos → CapsIn lo pos caps →
      RunsOK lo pos (iter body mn mx g fuel count pos caps) := by
  intro fuel
  induction fuel with
  | zero => intro count pos caps _ _; simp only [iter]; exact RunsOK.nil
  | succ f ih =>
    intro count pos caps hlo hc
    have hstop : RunsOK lo pos (if count ≥ mn then [(pos, caps)] else []) :=
      RunsOK.ite (RunsOK.single hc) RunsOK.nil
    have hflat : RunsOK lo pos ((body pos caps).flatMap fun (x : Nat × Caps) =>
          if x.1 > pos || count + 1 < mn then iter body mn mx g f (count + 1) x.1 x.2
          else if count + 1 ≥ mn then [(x.1, x.2)] else []) := by
      intro y hy
      obtain ⟨x, hx, hyx⟩ := List.mem_flatMap.mp hy
      obtain ⟨hx1, hx2⟩ := hbody pos caps hlo hc x hx
      have hlo' : lo ≤ x.1 := Nat.le_trans hlo hx1
      have : RunsOK lo x.1 (if x.1 > pos || count + 1 < mn then iter body mn mx g f (count + 1) x.1 x.2
          else if count + 1 ≥ mn then [(x.1, x.2)] else []) :=
        RunsOK.ite (ih _ _ _ hlo' hx2) (RunsOK.ite (RunsOK.single hx2) RunsOK.nil)
      obtain ⟨hy1, hy2⟩ := this y hyx
      exact ⟨Nat.le_trans hx1 hy1, hy2⟩
    have hmore : ∀ b : Bool, RunsOK lo pos (if b = true then
          (body pos caps).flatMap fun (x : Nat × Caps) =>
            if x.1 > pos || count + 1 < mn then iter body mn mx g f (count + 1) x.1 x.2
            else if count + 1 ≥ mn then [(x.1, x.2)] else []
        else []) := fun _ => RunsOK.ite hflat RunsOK.nil
    simp only [iter]
    cases g
    · exact RunsOK.append hstop (hmore _)
    · exact RunsOK.append (hmore _) hstop

mutual
theorem runs_caps (env : CharEnv) (s : Str) (lo : Nat) :
    ∀ (r : Rx) (i : Nat) (caps : Caps), lo ≤ i → CapsIn lo i caps → RunsOK lo i (runs env s r i caps)
  | .lit c ic, i, caps, _, hc => by
    simp only [runs]; cases s[i]? <;> simp only []
    · exact RunsOK.nil
    · exact RunsOK.ite (RunsOK.step hc) RunsOK.nil
  | .notLit c ic, i, caps, _, hc => by
    simp only [runs]; cases s[i]? <;> simp only []
    · exact RunsOK.nil
    · exact RunsOK.ite RunsOK.nil (RunsOK.step hc)
  | .any d, i, caps, _, hc => by
    simp only [runs]; cases s[i]? <;> simp only []
    · exact RunsOK.nil
    · exact RunsOK.ite (RunsOK.step hc) RunsOK.nil
  | .set n is ic, i, caps, _, hc => by
    simp only [runs]; cases s[i]? <;> simp only []
    · exact RunsOK.nil
    · exact RunsOK.ite (RunsOK.step hc) RunsOK.nil
  | .seq rs, i, caps, hlo, hc => by simp only [runs]; exact runsSeq_caps env s lo rs i caps hlo hc
  | .alt rs, i, caps, hlo, hc => by simp only [runs]; exact runsAlt_caps env s lo rs i caps hlo hc
  | .group idx r, i, caps, hlo, hc => by
    simp only [runs]
    intro y hy
    obtain ⟨x, hx, rfl⟩ := List.mem_map.mp hy
    obtain ⟨hx1, hx2⟩ := runs_caps env s lo r i caps hlo hc x hx
    refine ⟨hx1, ?_⟩
    intro e he
    rcases List.mem_cons.mp he with rfl | he
    · exact ⟨hlo, hx1, Nat.le_refl _⟩
    · exact hx2 e (List.mem_of_mem_filter he)
  | .rep mn mx g r, i, caps, hlo, hc => by
    simp only [runs]
    exact iter_caps lo _ (fun p c hp hcc => runs_caps env s lo r p c hp hcc) mn mx g _ _ _ _ hlo hc
  | .bos, i, caps, _, hc => by simp only [runs]; exact RunsOK.ite (RunsOK.single hc) RunsOK.nil
  | .eol, i, caps, _, hc => by simp only [runs]; exact RunsOK.ite (RunsOK.single hc) RunsOK.nil
  | .eos, i, caps, _, hc => by simp only [runs]; exact RunsOK.ite (RunsOK.single hc) RunsOK.nil
  | .look true neg r, i, caps, _, hc => by
    simp only [runs]; exact RunsOK.ite (RunsOK.single hc) RunsOK.nil
  | .look false neg r, i, caps, _, hc => by
    simp only [runs]
    cases width r with
    | none => exact RunsOK.nil
    | some w => exact RunsOK.ite (RunsOK.single hc) RunsOK.nil
theorem runsSeq_caps (env : CharEnv) (s : Str) (lo : Nat) :
    ∀ (rs : List Rx) (i : Nat) (caps : Caps), lo ≤ i → CapsIn lo i caps → RunsOK lo i (runsSeq env s rs i caps)
  | [], i, caps, _, hc => by simp only [runsSeq]; exact RunsOK.single hc
  | r :: rs, i, caps, hlo, hc => by
    simp only [runsSeq]
    intro y hy
    obtain ⟨x, hx, hyx⟩ := List.mem_flatMap.mp hy
    obtain ⟨hx1, hx2⟩ := runs_caps env s lo r i caps hlo hc x hx
    obtain ⟨hy1, hy2⟩ := runsSeq_caps env s lo rs x.1 x.2 (Nat.le_trans hlo hx1) hx2 y hyx
    exact ⟨Nat.le_trans hx1 hy1, hy2⟩
theorem runsAlt_caps (env : CharEnv) (s : Str) (lo : Nat) :
    ∀ (rs : List Rx) (i : Nat) (caps : Caps), lo ≤ i → CapsIn lo i caps → RunsOK lo i (runsAlt env s rs i caps)
  | [], i, caps, _, _ => by simp only [runsAlt]; exact RunsOK.nil
  | r :: rs, i, caps, hlo, hc => by
    simp only [runsAlt]
    exact RunsOK.append (runs_caps env s lo r i caps hlo hc) (runsAlt_caps env s lo rs i caps hlo hc)
end

/-- The captures of a successful match lie inside the match. -/
theorem matchAt_capsIn {env : CharEnv} {r : Rx} {s : Str} {i j : Nat} {c : Caps}
    (h : matchAt env r s i = some (j, c)) : CapsIn i j c := by
  unfold matchAt at h
  have hm : (j, c) ∈ runs env s r i [] := List.mem_of_mem_head? h
  exact (runs_caps env s i r i [] (Nat.le_refl _) (fun _ he => by simp at he) (j, c) hm).2

/-- `m.span(idx)` lies inside `m.span(0)`. -/
theorem matchAt_capSpan {env : CharEnv} {r : Rx} {s : Str} {i j : Nat} {c : Caps}
    (h : matchAt env r s i = some (j, c)) {idx a b : Nat} (hs : capSpan c idx = some (a, b)) :
    i ≤ a ∧ a ≤ b ∧ b ≤ j := by
  unfold capSpan at hs
  cases hf : c.find? (fun e => e.1 == idx) with
  | none => rw [hf] at hs; cases hs
  | some e =>
    rw [hf] at hs
    simp only [Option.map_some, Option.some.injEq] at hs
    have := matchAt_capsIn h e (List.mem_of_find?_eq_some hf)
    rw [hs] at this
    exact this

/-! ## Lengths -/

theorem slice_length_le (s : Str) (a b : Nat) : (slice s a b).length ≤ b - a ∧ (slice s a b).length ≤ s.length := by
  unfold slice
  simp only [List.length_take, List.length_drop]
  omega

theorem group_length_le (s : Str) (t : TokenRx) (caps : Caps) (name : String) {g : Str}
    (h : Parser.group s t caps name = some g) : g.length ≤ s.length := by
  unfold Parser.group at h
  split at h
  · cases hc : capSpan caps _ with
    | none => rw [hc] at h; cases h
    | some ab =>
      rw [hc] at h
      simp only [Option.map_some, Option.some.injEq] at h
      subst h
      exact (slice_length_le s ab.1 ab.2).2
  · cases h

theorem group_getD_length_le (s : Str) (t : TokenRx) (caps : Caps) (name : String) :
    ((Parser.group s t caps name).getD []).length ≤ s.length := by
  cases h : Parser.group s t caps name with
  | none => exact Nat.zero_le _
  | some g => exact group_length_le s t caps name h

theorem lower_length (s : Str) : (lower s).length = s.length := by simp [lower]

/-- The replacement closure of `css_unescape` (as in `Parser.cssUnescape`). -/
def unescRepl (content : Str) (caps : Caps) : Str :=
  match Rx.capSpan caps 1 with
  | some (a, b) =>
    if b > a then
      let cp := hexPrefixVal (slice content (a + 1) b)
      let cp := if cp == 0 || cp > 0x10FFFF then 0xFFFD else cp
      [cp]
    else []
  | none =>
    match Rx.capSpan caps 2 with
    | some (a, b) => slice content (a + 1) b
    | none =>
      match Rx.capSpan caps 3 with
      | some _ => [0xFFFD]
      | none => []

theorem cssUnescape_eq (env : CharEnv) (L : Lexicon) (content : Str) (string : Bool) :
    cssUnescape env L content string =
      subWith env (if string then L.reCssStrEsc else L.reCssEsc) (unescRepl content) content := rfl

/-- A replacement is at most as long as a non-empty match it replaces. -/
theorem unescRepl_length_le {env : CharEnv} {r : Rx} {content : Str} {i j : Nat} {c : Caps}
    (h : matchAt env r content i = some (j, c)) (hij : i < j) : (unescRepl content c).length ≤ j - i := by
  unfold unescRepl
  split
  · rename_i a b h1
    have := matchAt_capSpan h h1
    split
    · simp only [List.length_singleton]; omega
    · simp
  · split
    · rename_i a b h2
      have := matchAt_capSpan h h2
      have := (slice_length_le content (a + 1) b).1
      omega
    · split
      · simp only [List.length_singleton]; omega
      · simp

theorem subWith_go_length_le {env : CharEnv} {r : Rx} (hn : nullable r = false) (s : Str) :
    ∀ fuel i, i ≤ s.length → (subWith.go env r (unescRepl s) s fuel i).length ≤ s.length - i := by
  intro fuel
  induction fuel with
  | zero => intro i _; simp [subWith.go]
  | succ n ih =>
    intro i hi
    unfold subWith.go
    split
    · simp
    · split
      · rename_i j caps hm
        obtain ⟨hij, hj⟩ := matchAt_progress hn hm
        have h1 := unescRepl_length_le hm hij
        have h2 := ih j hj
        simp only [hij, if_true, List.length_append]
        omega
      · split
        · rename_i ch hc
          have hlt : i < s.length := by
            rcases Nat.lt_or_ge i s.length with h | h
            · exact h
            · rw [List.getElem?_eq_none h] at hc; cases hc
          have h2 := ih (i + 1) hlt
          simp only [List.length_cons]
          omega
        · simp

/-- `css_unescape` does not lengthen its argument (for non-nullable escape expressions). -/
theorem cssUnescape_length_le {env : CharEnv} {L : Lexicon}
    (h1 : nullable L.reCssEsc = false) (h2 : nullable L.reCssStrEsc = false) (content : Str) (string : Bool) :
    (cssUnescape env L content string).length ≤ content.length := by
  rw [cssUnescape_eq]
  unfold subWith
  have hn : nullable (if string then L.reCssStrEsc else L.reCssEsc) = false := by
    cases string <;> simp [h1, h2]
  have := subWith_go_length_le (env := env) hn content (content.length + 1) 0 (Nat.zero_le _)
  omega

end ParseCost
end SoupVerif
