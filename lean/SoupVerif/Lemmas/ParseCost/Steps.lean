/-
  C07 (parser level), part 2: the number of loop iterations of a whole parse.

  * `U c` = Σ over the not yet compiled entries `(k ↦ source t)` of `c` of `|t| + 1`.
  * `stepOf_cl`: what one iteration does to the `closed` flag, and that every nested list in the
    same pattern is parsed with `FLG_OPEN`.
  * `cnt_all`: by induction on the fuel, for `parseSelectors` and `parseLoop` simultaneously, with
    `n` the number of iterations counted by the twin (weight 1):
      - `parseSelectors` from `pos` returning `(_, p', c')`:   `n ≤ (p' − pos) + (U c − U c') + 1`,
        and without the `+ 1` when the list was opened by `(` (its last iteration consumed the `)`);
      - on an error:                                           `n ≤ (|pattern| − pos) + U c + 1`.
    The argument is a potential argument: every iteration that continues consumed ≥ 1 character
    (`stepOf_spec`, from `token_progress`), positions only advance, a custom definition is erased
    from the table before it is parsed and stored back compiled, so `U` pays for it once.
-/
import SoupVerif.Lemmas.ParseCost.Twin
set_option autoImplicit false
namespace SoupVerif
namespace ParseCost
open Rx SoupVerif.Parser ParserProgress

/-! ## The source-text weight of the table -/

def cvLen : CustomVal → Nat
  | .src t => t.length + 1
  | .compiled _ => 0

/-- Total length (+1 per entry) of the definitions that are still source text. -/
def U : Custom → Nat
  | [] => 0
  | e :: c => cvLen e.2 + U c

theorem W_eq_two_U (c : Custom) : W c = 2 * U c := by
  induction c with
  | nil => rfl
  | cons e c ih =>
    simp only [W, U, ih]
    cases e.2 <;> simp only [cvWeight, cvLen] <;> omega

theorem U_get_src {c : Custom} {k t : Str} (h : c.get? k = some (.src t)) :
    U (c.erase k) + (t.length + 1) ≤ U c := by
  have := W_get_src c k t h
  rw [W_eq_two_U, W_eq_two_U] at this; omega

theorem U_set_compiled (c : Custom) (k : Str) (l : SelList) : U (c.set k (.compiled l)) ≤ U c := by
  have := W_set_compiled c k l
  rw [W_eq_two_U, W_eq_two_U] at this; omega

theorem U_le_of_W_le {a b : Custom} (h : W a ≤ W b) : U a ≤ U b := by
  rw [W_eq_two_U, W_eq_two_U] at h; omega

/-! ## The `closed` flag -/

def isOpen (fl : Nat) : Bool := (fl &&& FLG_OPEN) != 0

/-- What one iteration does to `closed`; nested lists in the same pattern (`idx ≠ 0`) are open. -/
def StepCl (s : LS) : Step → Prop
  | .done (.error _) => True
  | .done (.ok s') => s' = s ∨ s'.closed = true
  | .cont s' => s'.closed = s.closed
  | .nest _ _ idx fl _ k => (∀ r : SelRes, (k r).closed = s.closed) ∧ (idx = 0 ∨ isOpen fl = true)

theorem StepCl_ite {s : LS} {c : Prop} [Decidable c] {a b : Step}
    (ha : StepCl s a) (hb : StepCl s b) : StepCl s (if c then a else b) := by
  split <;> assumption

theorem parseHasCombinator_closed {P : PEnv} {t : Token} {s s' : LS} {index : Nat}
    (h : parseHasCombinator P t s index = .ok s') : s'.closed = s.closed := by
  unfold parseHasCombinator at h
  simp only [] at h
  repeat' (split at h)
  all_goals first
    | (cases h; rfl)
    | cases h

theorem parseCombinator_closed {P : PEnv} {t : Token} {s s' : LS} {a b : Bool} {index : Nat}
    (h : parseCombinator P t s a b index = .ok s') : s'.closed = s.closed := by
  unfold parseCombinator at h
  simp only [] at h
  repeat' (split at h)
  all_goals first
    | (cases h; rfl)
    | cases h

theorem isOpen_pseudo_open (x : Nat) (hx : x = FLG_NOT ∨ x = FLG_RELATIVE ∨ x = FLG_FORGIVE ∨ x = 0) :
    isOpen (FLG_PSEUDO ||| FLG_OPEN ||| x) = true := by
  rcases hx with rfl | rfl | rfl | rfl <;> decide

macro "leafc" : tactic => `(tactic| first
  | exact trivial
  | exact rfl
  | exact Or.inr rfl
  | exact ⟨fun ⟨_, _, _⟩ => rfl, Or.inr (by decide)⟩)

macro "navc" : tactic => `(tactic| repeat' (first | leafc | refine StepCl_ite ?_ ?_))

theorem stepOf_cl (env : CharEnv) (L : Lexicon) (B : Builtins) (pattern : Str) (flags : Nat) (s : LS) :
    StepCl s (stepOf env L B pattern flags s) := by
  unfold stepOf
  simp only []
  generalize nextToken ⟨env, L, B, pattern⟩ s.pos = nt
  rcases nt with e | (_ | t)
  · exact trivial
  · exact Or.inl rfl
  · simp only []
    navc
    · split
      · leafc
      · leafc
      · exact ⟨fun ⟨_, _, _⟩ => rfl, Or.inl rfl⟩
    · refine ⟨fun ⟨_, _, _⟩ => rfl, Or.inr (isOpen_pseudo_open _ ?_)⟩
      split
      · exact Or.inl rfl
      · split
        · exact Or.inr (Or.inl rfl)
        · split
          · exact Or.inr (Or.inr (Or.inl rfl))
          · exact Or.inr (Or.inr (Or.inr rfl))
    · generalize hr : (if ((flags &&& FLG_RELATIVE) != 0) = true then parseHasCombinator _ _ _ _
        else parseCombinator _ _ _ _ _ _) = r
      rcases r with e | s'
      · exact trivial
      · show s'.closed = s.closed
        split at hr
        · exact (parseHasCombinator_closed hr).trans rfl
        · exact (parseCombinator_closed hr).trans rfl

theorem finishSel_ok_closed {env : CharEnv} {L : Lexicon} {B : Builtins} {pattern : Str} {flags : Nat}
    {s : LS} {x : SelRes} (h : finishSel env L B pattern flags s = .ok x) (ho : isOpen flags = true) :
    s.closed = true := by
  unfold finishSel at h
  simp only [] at h
  split at h
  · cases h
  · rename_i hc
    unfold isOpen at ho
    rw [ho] at hc
    simpa using hc

theorem initLS_frame (pos idx fl : Nat) (c : Custom) :
    (initLS pos idx fl c).pos = pos ∧ (initLS pos idx fl c).index = idx ∧
      (initLS pos idx fl c).custom = c ∧ (initLS pos idx fl c).closed = false :=
  ⟨rfl, rfl, rfl, rfl⟩

/-! ## Counting -/

/-- `n` iterations for a `parseSelectors` call from `pos` with table weight `u`. -/
def SelCnt (len pos : Nat) (opn : Bool) (u : Nat) (r : M SelRes) (n : Nat) : Prop :=
  match r with
  | .error _ => n + pos ≤ len + u + 1
  | .ok (_, p', c') => n + U c' + pos + opn.toNat ≤ p' + u + 1

/-- `n` iterations for a `parseLoop` call from state `s`. -/
def LoopCnt (len : Nat) (s : LS) (r : M LS) (n : Nat) : Prop :=
  match r with
  | .error _ => n + s.pos ≤ len + U s.custom + 1
  | .ok s' => n + U s'.custom + s.pos + s'.closed.toNat ≤ s'.pos + U s.custom + 1

section
variable (env : CharEnv) (L : Lexicon) (B : Builtins)

def SelCntInv (f : Nat) : Prop :=
  ∀ (pattern : Str) (pos idx fl : Nat) (c : Custom), pos ≤ pattern.length → idx ≤ pattern.length →
    SelCnt pattern.length pos (isOpen fl) (U c) (parseSelectors env L B pattern f pos idx fl c)
      (selRun unitWeight env L B pattern f pos idx fl c).2

def LoopCntInv (f : Nat) : Prop :=
  ∀ (pattern : Str) (flags : Nat) (s : LS), s.pos ≤ pattern.length → s.index ≤ pattern.length →
    s.closed = false →
    LoopCnt pattern.length s (parseLoop env L B pattern f flags s)
      (loopRun unitWeight env L B pattern f flags s).2

theorem cnt_zero : SelCntInv env L B 0 ∧ LoopCntInv env L B 0 := by
  constructor
  · intro pattern pos idx fl c hp _
    rw [selRun_zero, parseSelectors]
    show 0 + pos ≤ _
    omega
  · intro pattern flags s hp _ hc
    rw [loopRun_zero, parseLoop]
    show 0 + U s.custom + s.pos + s.closed.toNat ≤ _
    rw [hc]; simp only [Bool.toNat_false]; omega

theorem selCnt_succ (hL : LexOK L) {f : Nat} (hl : LoopCntInv env L B f) : SelCntInv env L B (f + 1) := by
  intro pattern pos idx fl c hp hi
  have hl0 := hl pattern fl (initLS pos idx fl c) hp hi rfl
  have hpost := ((inv_all env L B hL f).2 pattern fl (initLS pos idx fl c) hp hi).1
  rw [selRun_succ, parseSelectors_succ, loopRun_fst]
  generalize (loopRun unitWeight env L B pattern f fl (initLS pos idx fl c)).2 = n at hl0 ⊢
  generalize parseLoop env L B pattern f fl (initLS pos idx fl c) = r at hl0 hpost ⊢
  rcases r with e | s'
  · exact hl0
  · obtain ⟨h2, h3, h4, h5⟩ := hpost
    have hl1 : n + U s'.custom + pos + s'.closed.toNat ≤ s'.pos + U c + 1 := hl0
    have hu := U_le_of_W_le h5
    have h2' : pos ≤ s'.pos := h2
    have hu' : U s'.custom ≤ U c := hu
    show SelCnt _ pos (isOpen fl) (U c) (finishSel env L B pattern fl s') n
    generalize hr : finishSel env L B pattern fl s' = r
    rcases r with e | ⟨l, p', c'⟩
    · show n + pos ≤ _
      have := Bool.toNat_le s'.closed
      omega
    · obtain ⟨rfl, rfl⟩ := finishSel_ok hr
      show n + U s'.custom + pos + (isOpen fl).toNat ≤ s'.pos + U c + 1
      cases ho : isOpen fl with
      | false => simp only [Bool.toNat_false]; omega
      | true =>
        rw [finishSel_ok_closed hr ho] at hl1
        simpa using hl1

theorem loopCnt_succ (hL : LexOK L) {f : Nat} (hs : SelCntInv env L B f) (hl : LoopCntInv env L B f) :
    LoopCntInv env L B (f + 1) := by
  intro pattern flags s hp hi hc
  rw [loopRun_succ, parseLoop_succ]
  have hspec := stepOf_spec (env := env) (B := B) (flags := flags) hL hi
  have hcl := stepOf_cl env L B pattern flags s
  generalize stepOf env L B pattern flags s = st at hspec hcl ⊢
  rcases hspec with ⟨stop, hlt, hle, hok⟩ | rfl | ⟨e, rfl, he⟩
  · simp only [] at hle
    cases st with
    | done r =>
      cases r with
      | error e => show 1 + s.pos ≤ _; omega
      | ok s' =>
        obtain ⟨h1, h2, h3⟩ := hok
        show 1 + U s'.custom + s.pos + s'.closed.toNat ≤ s'.pos + U s.custom + 1
        have := Bool.toNat_le s'.closed
        rw [h3]; omega
    | cont s' =>
      obtain ⟨h1, h2, h3⟩ := hok
      have hI := hl pattern flags s' (by omega) (by omega) (by rw [hcl, hc])
      show LoopCnt _ s (parseLoop env L B pattern f flags s') (1 + (loopRun unitWeight env L B pattern f flags s').2)
      generalize (loopRun unitWeight env L B pattern f flags s').2 = n at hI ⊢
      generalize parseLoop env L B pattern f flags s' = r at hI ⊢
      rcases r with e | s''
      · have : n + s'.pos ≤ pattern.length + U s'.custom + 1 := hI
        show 1 + n + s.pos ≤ _
        rw [h3] at this; omega
      · have : n + U s''.custom + s'.pos + s''.closed.toNat ≤ s''.pos + U s'.custom + 1 := hI
        show 1 + n + U s''.custom + s.pos + s''.closed.toNat ≤ s''.pos + U s.custom + 1
        rw [h3] at this; omega
    | nest pat pos idx fl c k =>
      obtain ⟨hkc, hopen⟩ := hcl
      simp only [runStep]
      rw [selRun_fst]
      rcases hok with ⟨e1, e2, e3, e4, hk⟩ | ⟨pseudo, text, hget, e1, e2, e3, e4, hk⟩
      · -- nested list in the same pattern
        simp only [] at e1
        have ho : isOpen fl = true := by
          rcases hopen with h0 | h0
          · omega
          · exact h0
        rw [e1, e2, e3, e4]
        clear e1 e2 e3 e4 hopen pat pos idx c
        have hS := hs pattern stop stop fl s.custom hle hle
        have hP := ((inv_all env L B hL f).1 pattern stop stop fl s.custom hle hle).1
        rw [ho] at hS
        generalize (selRun unitWeight env L B pattern f stop stop fl s.custom).2 = n1 at hS ⊢
        generalize parseSelectors env L B pattern f stop stop fl s.custom = r at hS hP ⊢
        rcases r with e | ⟨l, p', c'⟩
        · have : n1 + stop ≤ pattern.length + U s.custom + 1 := hS
          show 1 + n1 + s.pos ≤ _
          omega
        · obtain ⟨g1, g2, g3⟩ := hP
          have g3' := U_le_of_W_le g3
          have hS' : n1 + U c' + stop + 1 ≤ p' + U s.custom + 1 := hS
          obtain ⟨k1, k2, k3⟩ := hk (l, p', c')
          simp only [] at k1 k3
          have hI := hl pattern flags (k (l, p', c')) (by omega) (by omega) (by rw [hkc, hc])
          show LoopCnt _ s (parseLoop env L B pattern f flags (k (l, p', c')))
            (1 + n1 + (loopRun unitWeight env L B pattern f flags (k (l, p', c'))).2)
          generalize (loopRun unitWeight env L B pattern f flags (k (l, p', c'))).2 = n2 at hI ⊢
          generalize parseLoop env L B pattern f flags (k (l, p', c')) = r at hI ⊢
          rcases r with e | s''
          · have : n2 + (k (l, p', c')).pos ≤ pattern.length + U (k (l, p', c')).custom + 1 := hI
            show 1 + n1 + n2 + s.pos ≤ _
            rw [k1, k3] at this; omega
          · have : n2 + U s''.custom + (k (l, p', c')).pos + s''.closed.toNat ≤
                s''.pos + U (k (l, p', c')).custom + 1 := hI
            show 1 + n1 + n2 + U s''.custom + s.pos + s''.closed.toNat ≤ s''.pos + U s.custom + 1
            rw [k1, k3] at this; omega
      · -- expansion of a custom selector
        simp only [] at e1 e3
        subst e1 e2 e3 e4
        have hlen := nulFix_length text
        have hu := U_get_src hget
        have hst := startIndex_le ⟨env, L, B, nulFix text⟩
        simp only [] at hst
        have hS := hs (nulFix text) (startIndex ⟨env, L, B, nulFix text⟩) 0 fl (s.custom.erase pseudo)
          hst (Nat.zero_le _)
        have hP := ((inv_all env L B hL f).1 (nulFix text) (startIndex ⟨env, L, B, nulFix text⟩) 0 fl
          (s.custom.erase pseudo) hst (Nat.zero_le _)).1
        generalize (selRun unitWeight env L B (nulFix text) f _ 0 fl (s.custom.erase pseudo)).2 = n1 at hS ⊢
        generalize parseSelectors env L B (nulFix text) f _ 0 fl (s.custom.erase pseudo) = r at hS hP ⊢
        generalize startIndex ⟨env, L, B, nulFix text⟩ = st0 at *
        rcases r with e | ⟨l, p', c'⟩
        · have : n1 + st0 ≤ (nulFix text).length + U (s.custom.erase pseudo) + 1 := hS
          show 1 + n1 + s.pos ≤ _
          omega
        · obtain ⟨g1, g2, g3⟩ := hP
          have g3' := U_le_of_W_le g3
          have hb := Bool.toNat_le (isOpen fl)
          have hS' : n1 + U c' + st0 + (isOpen fl).toNat ≤ p' + U (s.custom.erase pseudo) + 1 := hS
          obtain ⟨k1, k2, k3⟩ := hk (l, p', c')
          simp only [] at k1 k3
          have hset := U_set_compiled c' pseudo l
          have hI := hl pattern flags (k (l, p', c')) (by omega) (by omega) (by rw [hkc, hc])
          show LoopCnt _ s (parseLoop env L B pattern f flags (k (l, p', c')))
            (1 + n1 + (loopRun unitWeight env L B pattern f flags (k (l, p', c'))).2)
          generalize (loopRun unitWeight env L B pattern f flags (k (l, p', c'))).2 = n2 at hI ⊢
          generalize parseLoop env L B pattern f flags (k (l, p', c')) = r at hI ⊢
          rcases r with e | s''
          · have : n2 + (k (l, p', c')).pos ≤ pattern.length + U (k (l, p', c')).custom + 1 := hI
            show 1 + n1 + n2 + s.pos ≤ _
            rw [k1, k3] at this; omega
          · have : n2 + U s''.custom + (k (l, p', c')).pos + s''.closed.toNat ≤
                s''.pos + U (k (l, p', c')).custom + 1 := hI
            show 1 + n1 + n2 + U s''.custom + s.pos + s''.closed.toNat ≤ s''.pos + U s.custom + 1
            rw [k1, k3] at this; omega
  · show 1 + U s.custom + s.pos + s.closed.toNat ≤ _
    rw [hc]; simp only [Bool.toNat_false]; omega
  · show 1 + s.pos ≤ _
    omega

theorem cnt_all (hL : LexOK L) : ∀ f, SelCntInv env L B f ∧ LoopCntInv env L B f
  | 0 => cnt_zero env L B
  | f + 1 =>
    have ih := cnt_all hL f
    ⟨selCnt_succ env L B hL ih.2, loopCnt_succ env L B hL ih.1 ih.2⟩

end

end ParseCost
end SoupVerif
