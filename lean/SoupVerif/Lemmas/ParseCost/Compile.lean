/-
  C07 (parser level), part 6: a whole `compile`.

  For any lexicon whose tokens are not nullable (`LexOK`), whose escape expressions are not
  nullable (`EscOK`) and whose expressions all cost at most `C·(|s|+1)^K` (`RxBound`):
  * `compileSteps_le` : iterations ≤ `|pattern| + Σ (|definition| + 1) + 1`;
  * `compileCost_le`  : cost ≤ `(3·|tokens| + 13)·(C + 1)·(N + 1)^(K + 2)`, `N = inputSize`.
-/
import SoupVerif.Lemmas.ParseCost.Iter
set_option autoImplicit false
namespace SoupVerif
namespace ParseCost
open Rx SoupVerif.Parser ParserProgress

/-- `Σ (|definition| + 1)` over the custom selectors given to `compile`. -/
def defLen (custom : List (Str × Str)) : Nat := (custom.map fun e => e.2.length + 1).sum

theorem defWeight_eq (custom : List (Str × Str)) : defWeight custom = 2 * defLen custom := by
  unfold defWeight defLen
  induction custom with
  | nil => rfl
  | cons e rest ih => simp only [List.map_cons, List.sum_cons, ih]; omega

theorem U_processCustom {env : CharEnv} {L : Lexicon} {custom : List (Str × Str)} {c : Custom}
    (h : processCustom env L custom = .ok c) : U c ≤ defLen custom := by
  have := processCustom_ok h
  rw [W_eq_two_U, defWeight_eq] at this
  omega

theorem defLen_le_inputSize (pattern : Str) (custom : List (Str × Str)) :
    pattern.length + defLen custom ≤ inputSize pattern custom := by
  unfold inputSize defLen
  have : ∀ l : List (Str × Str), (l.map fun e => e.2.length + 1).sum ≤
      (l.map fun e => e.1.length + e.2.length + 1).sum := by
    intro l
    induction l with
    | nil => exact Nat.le_refl _
    | cons e rest ih => simp only [List.map_cons, List.sum_cons]; omega
  have := this custom
  omega

/-- The fuel `Parser.compile` allots. -/
def allottedFuel (pattern : Str) (custom : List (Str × Str)) : Nat :=
  2 * (nulFix pattern).length + 4 * (custom.foldl (fun n e => n + e.2.length + 2) 0) + 8

section
variable (env : CharEnv) (L : Lexicon) (B : Builtins)

/-- The weight part of `compileRun` is that of the top-level `selRun`. -/
theorem compileRun_snd (w : Weight) (pattern : Str) (custom : List (Str × Str)) (flags : Nat) :
    (compileRun w env L B pattern custom flags).2 =
      match processCustom env L custom with
      | .error _ => 0
      | .ok c => (selRun w env L B (nulFix pattern) (allottedFuel pattern custom)
          (startIndex ⟨env, L, B, nulFix pattern⟩) 0 flags c).2 := by
  unfold compileRun
  cases processCustom env L custom with
  | error e => rfl
  | ok c =>
    simp only []
    split <;> rfl

/-- **Counting bound.** The number of iterations of the `parse_selectors` loop in a whole
    `compile` — nested lists and custom-selector definitions included — is at most
    `|pattern| + Σ (|definition| + 1) + 1`. -/
theorem compileSteps_le (hL : LexOK L) (pattern : Str) (custom : List (Str × Str)) (flags : Nat) :
    compileSteps env L B pattern custom flags ≤ pattern.length + defLen custom + 1 := by
  unfold compileSteps
  rw [compileRun_snd]
  cases hc : processCustom env L custom with
  | error e => exact Nat.zero_le _
  | ok c =>
    simp only []
    have hu := U_processCustom hc
    have hlen := nulFix_length pattern
    have hst := startIndex_le ⟨env, L, B, nulFix pattern⟩
    simp only [] at hst
    generalize allottedFuel pattern custom = F
    have hS := (cnt_all env L B hL F).1 (nulFix pattern) (startIndex ⟨env, L, B, nulFix pattern⟩) 0 flags c
      hst (Nat.zero_le _)
    have hP := ((inv_all env L B hL F).1 (nulFix pattern) (startIndex ⟨env, L, B, nulFix pattern⟩) 0 flags c
      hst (Nat.zero_le _)).1
    generalize (selRun unitWeight env L B (nulFix pattern) F _ 0 flags c).2 = n at hS ⊢
    generalize parseSelectors env L B (nulFix pattern) F _ 0 flags c = r at hS hP
    generalize startIndex ⟨env, L, B, nulFix pattern⟩ = st0 at *
    rcases r with e | ⟨l, p', c'⟩
    · have : n + st0 ≤ (nulFix pattern).length + U c + 1 := hS
      omega
    · have : n + U c' + st0 + (isOpen flags).toNat ≤ p' + U c + 1 := hS
      obtain ⟨g1, g2, g3⟩ := hP
      omega

theorem Wb_le_pow (C K n : Nat) : Wb C K n ≤ (C + 1) * (n + 1) ^ K := by
  unfold Wb
  have : 1 ≤ (n + 1) ^ K := Nat.one_le_pow _ _ (Nat.succ_pos _)
  rw [Nat.add_mul, Nat.one_mul]
  omega

theorem customCost_le {C K : Nat} (hW : RxBound env L C K) (custom : List (Str × Str)) (N : Nat)
    (hN : (custom.map fun e => e.1.length + e.2.length + 1).sum ≤ N) :
    customCost env L custom ≤ 2 * N * Wb C K N := by
  unfold customCost
  induction custom generalizing N with
  | nil => exact Nat.zero_le _
  | cons e rest ih =>
    simp only [List.map_cons, List.sum_cons] at hN ⊢
    have hrest := ih ((rest.map fun e => e.1.length + e.2.length + 1).sum) (Nat.le_refl _)
    generalize (rest.map fun e => e.1.length + e.2.length + 1).sum = R at hN hrest
    have hlow : (lower e.1).length ≤ N := by rw [lower_length]; omega
    have h1 := matchCost_le hW (mem_lex_fixed L.reCustom
      (Or.inr (Or.inr (Or.inr (Or.inr (Or.inr (Or.inr (Or.inr rfl)))))))) (Nat.le_refl (lower e.1).length) 0
    have h2 := unescCost_le hW (Nat.le_refl (lower e.1).length) false
    rw [lower_length] at h1 h2
    -- everything on `e` costs at most `(|name| + 2)·Wb(N)`, the rest at most `2·R·Wb(N)`
    have hm1 : Wb C K e.1.length ≤ Wb C K N := Wb_mono C K (by omega)
    have hm2 : Wb C K R ≤ Wb C K N := Wb_mono C K (by omega)
    have e1 : (e.1.length + 1) * Wb C K e.1.length ≤ (e.1.length + 1) * Wb C K N :=
      Nat.mul_le_mul_left _ hm1
    have e2 : 2 * R * Wb C K R ≤ 2 * R * Wb C K N := Nat.mul_le_mul_left _ hm2
    have e3 : (e.1.length + 2) * Wb C K N + 2 * R * Wb C K N ≤ 2 * N * Wb C K N := by
      rw [← Nat.add_mul]; exact Nat.mul_le_mul_right _ (by omega)
    have e4 : (e.1.length + 2) * Wb C K N = (e.1.length + 1) * Wb C K N + Wb C K N := by ring
    omega

/-- **Cost bound**, general form. -/
theorem compileCost_le {C K : Nat} (hL : LexOK L) (hE : EscOK L) (hW : RxBound env L C K)
    (pattern : Str) (custom : List (Str × Str)) (flags : Nat) :
    compileCost env L B pattern custom flags ≤
      (3 * L.tokens.length + 13) * (C + 1) * (inputSize pattern custom + 1) ^ (K + 2) := by
  generalize hN : inputSize pattern custom = N
  have hsz := defLen_le_inputSize pattern custom
  rw [hN] at hsz
  have hlen := nulFix_length pattern
  -- the three parts
  have h1 : customCost env L custom ≤ 2 * N * Wb C K N :=
    customCost_le env L hW custom N (by rw [← hN]; unfold inputSize; omega)
  have h2 : startCost ⟨env, L, B, nulFix pattern⟩ ≤ Wb C K N :=
    startCost_le hW B (by omega)
  have hWB : WBound (rxWeight env L B) N ((3 * L.tokens.length + 11) * ((N + 1) * Wb C K N)) := by
    intro pat s hs
    exact iterCost_le hW hE ⟨env, L, B, pat⟩ ⟨rfl, rfl⟩ s (by simp only []; omega) (by omega)
  have h3 : (compileRun (rxWeight env L B) env L B pattern custom flags).2 ≤
      (3 * L.tokens.length + 11) * ((N + 1) * Wb C K N) * (N + 1) := by
    have hsteps := compileSteps_le env L B hL pattern custom flags
    unfold compileSteps at hsteps
    rw [compileRun_snd] at hsteps ⊢
    cases hc : processCustom env L custom with
    | error e => exact Nat.zero_le _
    | ok c =>
      rw [hc] at hsteps
      simp only [] at hsteps ⊢
      have hu := U_processCustom hc
      have hst := startIndex_le ⟨env, L, B, nulFix pattern⟩
      simp only [] at hst
      have := (w_all env L B (rxWeight env L B) N _ hL hWB (allottedFuel pattern custom)).1
        (nulFix pattern) (startIndex ⟨env, L, B, nulFix pattern⟩) 0 flags c hst (Nat.zero_le _) (by omega)
      exact Nat.le_trans this (Nat.mul_le_mul_left _ (by omega))
  -- arithmetic
  have hpow : (N + 1) ^ (K + 2) = (N + 1) * (N + 1) * (N + 1) ^ K := by ring
  have hWp := Wb_le_pow C K N
  show customCost env L custom + startCost ⟨env, L, B, nulFix pattern⟩ +
    (compileRun (rxWeight env L B) env L B pattern custom flags).2 ≤ _
  rw [hpow]
  generalize Wb C K N = W at *
  generalize (N + 1) ^ K = P at *
  generalize L.tokens.length = T at *
  -- everything ≤ (3T + 13)·X²·W and W ≤ (C+1)·P
  have hA : 2 * N * W + W + (3 * T + 11) * ((N + 1) * W) * (N + 1) ≤
      (3 * T + 13) * ((N + 1) * (N + 1)) * W := by
    have : 2 * N * W + W ≤ 2 * ((N + 1) * (N + 1)) * W := by
      have h : 2 * N + 1 ≤ 2 * ((N + 1) * (N + 1)) := by nlinarith
      calc 2 * N * W + W = (2 * N + 1) * W := by ring
        _ ≤ 2 * ((N + 1) * (N + 1)) * W := Nat.mul_le_mul_right _ h
    calc 2 * N * W + W + (3 * T + 11) * ((N + 1) * W) * (N + 1)
        ≤ 2 * ((N + 1) * (N + 1)) * W + (3 * T + 11) * ((N + 1) * W) * (N + 1) :=
          Nat.add_le_add_right this _
      _ = (3 * T + 13) * ((N + 1) * (N + 1)) * W := by ring
  calc customCost env L custom + startCost ⟨env, L, B, nulFix pattern⟩ +
        (compileRun (rxWeight env L B) env L B pattern custom flags).2
      ≤ 2 * N * W + W + (3 * T + 11) * ((N + 1) * W) * (N + 1) := by omega
    _ ≤ (3 * T + 13) * ((N + 1) * (N + 1)) * W := hA
    _ ≤ (3 * T + 13) * ((N + 1) * (N + 1)) * ((C + 1) * P) := Nat.mul_le_mul_left _ hWp
    _ = (3 * T + 13) * (C + 1) * ((N + 1) * (N + 1) * P) := by ring

end

/-- The cost dominates the number of iterations: every iteration weighs at least 1. -/
theorem compileSteps_le_cost (env : CharEnv) (L : Lexicon) (B : Builtins) (pattern : Str)
    (custom : List (Str × Str)) (flags : Nat) :
    compileSteps env L B pattern custom flags ≤ compileCost env L B pattern custom flags := by
  unfold compileSteps compileCost
  rw [compileRun_snd, compileRun_snd]
  have hw : ∀ (pat : Str) (s : LS), unitWeight pat s ≤ rxWeight env L B pat s := by
    intro pat s
    show 1 ≤ 1 + _ + _
    omega
  cases processCustom env L custom with
  | error e => exact Nat.zero_le _
  | ok c =>
    simp only []
    exact Nat.le_trans ((run_mono env L B _ _ hw _).1 _ _ _ _ _) (Nat.le_add_left _ _)

end ParseCost
end SoupVerif
