/-
  Helper lemmas for C18 (numbers): the `RE_NUM` scanner `Inputs.shapeNum` accepts exactly the
  declarative HTML floating-point-number grammar `Spec.numShape`, with the same value.
-/
import SoupVerif.Lemmas.C18Inputs
namespace SoupVerif
namespace Inputs
open Spec

/-! ### The `RE_NUM` scanner against the declarative number grammar -/

/-- Exponent part of `shapeNum`. -/
def scanExp : Str → Option Int
  | [] => some 0
  | e :: r' =>
    if e == 101 || e == 69 then
      let (eneg, r'') := match r' with
        | 45 :: t => (true, t)
        | 43 :: t => (false, t)
        | _ => (false, r')
      if allDigits r'' then
        some (if eneg then - (Int.ofNat (digitsVal r'')) else Int.ofNat (digitsVal r''))
      else none
    else none

/-- Mantissa part of `shapeNum`: fraction digits and the rest. -/
def scanMant (s : Str) : Option (Str × Str) :=
  let ip := s.takeWhile isDigit
  let r := s.dropWhile isDigit
  match r with
  | 46 :: r' =>
    let fp := r'.takeWhile isDigit
    if fp.isEmpty then none else some (fp, r'.dropWhile isDigit)
  | _ => if ip.isEmpty then none else some ([], r)

def stripSign (s : Str) : Bool × Str :=
  match s with
  | 45 :: r => (true, r)
  | _ => (false, s)

theorem shapeNum_eq (s : Str) :
    shapeNum s =
      match scanMant (stripSign s).2 with
      | none => none
      | some (fp, r) =>
        match scanExp r with
        | none => none
        | some e =>
          some (.num (stripSign s).1 (digitsVal ((stripSign s).2.takeWhile isDigit ++ fp))
            (e - Int.ofNat fp.length)) := by
  unfold shapeNum
  split
  rename_i x neg t heq
  have hs : stripSign s = (neg, t) := by
    rw [← heq]; rfl
  rw [hs]
  rfl

theorem stripSign_neg (t : Str) : stripSign (45 :: t) = (true, t) := rfl

theorem stripSign_pos (s : Str) (h : ∀ c, s.head? = some c → c ≠ 45) :
    stripSign s = (false, s) := by
  unfold stripSign
  split
  · exact absurd rfl (h 45 rfl)
  · rfl

theorem takeWhile_digits (s : Str) : digits (s.takeWhile isDigit) := by
  intro c hc
  induction s with
  | nil => simp at hc
  | cons x xs ih =>
    by_cases hx : isDigit x = true
    · rw [List.takeWhile_cons_of_pos hx] at hc
      rcases List.mem_cons.1 hc with rfl | h
      · exact (isDigit_iff _).1 hx
      · exact ih h
    · rw [List.takeWhile_cons_of_neg hx] at hc; simp at hc

/-- A "stopper": the remaining input is empty or starts with a non-digit. -/
def stops (r : Str) : Prop := ∀ c, r.head? = some c → isDigit c = false

theorem dropWhile_stops (s : Str) : stops (s.dropWhile isDigit) := by
  intro c hc
  have := List.head?_dropWhile_not isDigit s
  rw [hc] at this
  exact this

theorem span_digits {ds r : Str} (hd : digits ds) (hr : stops r) :
    (ds ++ r).takeWhile isDigit = ds ∧ (ds ++ r).dropWhile isDigit = r := by
  have hp : ∀ a ∈ ds, isDigit a = true := fun a ha => (isDigit_iff a).2 (hd a ha)
  rw [List.takeWhile_append_of_pos hp, List.dropWhile_append_of_pos hp]
  cases r with
  | nil => simp
  | cons x xs =>
    have hx : ¬ isDigit x = true := by simp [hr x rfl]
    rw [List.takeWhile_cons_of_neg hx, List.dropWhile_cons_of_neg hx]
    simp

theorem scanMant_dot {s r' : Str} (h : s.dropWhile isDigit = 46 :: r') :
    scanMant s = if (r'.takeWhile isDigit).isEmpty then none
      else some (r'.takeWhile isDigit, r'.dropWhile isDigit) := by
  unfold scanMant
  simp only [h]

theorem scanMant_nodot {s : Str} (h : ∀ r', s.dropWhile isDigit ≠ 46 :: r') :
    scanMant s = if (s.takeWhile isDigit).isEmpty then none
      else some ([], s.dropWhile isDigit) := by
  unfold scanMant
  simp only

/-- `scanMant`, forward: what a successful scan tells us. -/
theorem scanMant_some {s fp r : Str} (h : scanMant s = some (fp, r)) :
    ∃ m, s = m ++ r ∧ mantShape m (s.takeWhile isDigit) fp ∧ stops r ∧
      (fp = [] → ∀ c, r.head? = some c → c ≠ 46) := by
  have hsplit : s.takeWhile isDigit ++ s.dropWhile isDigit = s := List.takeWhile_append_dropWhile
  have hip := takeWhile_digits s
  unfold scanMant at h
  simp only at h
  split at h
  · rename_i r' hr
    split at h
    · cases h
    · rename_i hne
      simp only [Option.some.injEq, Prod.mk.injEq] at h
      obtain ⟨rfl, rfl⟩ := h
      have hne' : r'.takeWhile isDigit ≠ [] := by simpa using hne
      refine ⟨s.takeWhile isDigit ++ 46 :: r'.takeWhile isDigit, ?_, ?_, dropWhile_stops r', ?_⟩
      · rw [List.append_assoc, List.cons_append, List.takeWhile_append_dropWhile, ← hr, hsplit]
      · exact ⟨hip, takeWhile_digits r', Or.inr ⟨hne', rfl⟩⟩
      · intro h0; exact absurd h0 hne'
  · rename_i hr
    split at h
    · cases h
    · rename_i hne
      simp only [Option.some.injEq, Prod.mk.injEq] at h
      obtain ⟨rfl, rfl⟩ := h
      have hne' : s.takeWhile isDigit ≠ [] := by simpa using hne
      refine ⟨s.takeWhile isDigit, hsplit.symm, ⟨hip, by intro c hc; simp at hc, Or.inl ⟨rfl, hne', rfl⟩⟩,
        dropWhile_stops s, ?_⟩
      intro _ c hc hc46
      subst hc46
      cases hd : s.dropWhile isDigit with
      | nil => rw [hd] at hc; simp at hc
      | cons x xs =>
        rw [hd] at hc
        simp only [List.head?_cons, Option.some.injEq] at hc
        subst hc
        exact hr xs hd

/-- `scanMant`, backward: a mantissa followed by a stopper that is not `.` scans as itself. -/
theorem scanMant_of_shape {m ip fp r : Str} (hm : mantShape m ip fp) (hr : stops r)
    (h46 : ∀ c, r.head? = some c → c ≠ 46) :
    scanMant (m ++ r) = some (fp, r) ∧ (m ++ r).takeWhile isDigit = ip := by
  obtain ⟨hip, hfp, h | h⟩ := hm
  · obtain ⟨rfl, hne, rfl⟩ := h
    obtain ⟨e1, e2⟩ := span_digits hip hr
    refine ⟨?_, e1⟩
    have hnd : ∀ r', (m ++ r).dropWhile isDigit ≠ 46 :: r' := by
      intro r' hr'
      rw [e2] at hr'
      exact h46 46 (by rw [hr']; rfl) rfl
    rw [scanMant_nodot hnd, e1, e2]
    have : m.isEmpty = false := by simpa using hne
    simp [this]
  · obtain ⟨hne, rfl⟩ := h
    have hs46 : stops (46 :: (fp ++ r)) := by
      intro c hc
      simp only [List.head?_cons, Option.some.injEq] at hc
      subst hc; decide
    have e := span_digits hip hs46
    have e' := span_digits hfp hr
    have ea : (ip ++ 46 :: fp) ++ r = ip ++ 46 :: (fp ++ r) := by simp
    rw [ea]
    refine ⟨?_, e.1⟩
    rw [scanMant_dot e.2, e'.1, e'.2]
    have : fp.isEmpty = false := by simpa using hne
    simp [this]

theorem allDigits_iff (s : Str) : allDigits s = true ↔ s ≠ [] ∧ digits s := by
  cases s with
  | nil => simp [allDigits]
  | cons x xs => simp [allDigits, digits, isDigit_iff]

theorem scanExp_iff (x : Str) (e : Int) : scanExp x = some e ↔ expShape x e := by
  unfold expShape
  cases x with
  | nil =>
    simp only [scanExp, Option.some.injEq, true_and]
    constructor
    · intro h; exact Or.inl h.symm
    · rintro (h | ⟨c, ed, -, -, -, h | h | h⟩)
      · exact h.symm
      all_goals exact absurd h.1 (by simp)
  | cons c r =>
    have hdig45 : ∀ {ed : Str}, digits ed → ∀ t, ed ≠ 45 :: t := by
      intro ed hd t h; subst h
      have := hd 45 (by simp); unfold digit at this; omega
    have hdig43 : ∀ {ed : Str}, digits ed → ∀ t, ed ≠ 43 :: t := by
      intro ed hd t h; subst h
      have := hd 43 (by simp); unfold digit at this; omega
    unfold scanExp
    by_cases hc : (c == 101 || c == 69) = true
    · have hc' : c = 101 ∨ c = 69 := by simpa using hc
      simp only [hc, if_true]
      constructor
      · intro h
        right
        split at h
        · rename_i t
          simp only at h
          split at h
          · rename_i hd
            rw [allDigits_iff] at hd
            simp only [if_true, Option.some.injEq] at h
            exact ⟨c, t, hc', hd.2, hd.1, Or.inr (Or.inr ⟨rfl, by rw [← h, digitsVal_eq]⟩)⟩
          · cases h
        · rename_i t
          simp only at h
          split at h
          · rename_i hd
            rw [allDigits_iff] at hd
            simp only [Bool.false_eq_true, if_false, Option.some.injEq] at h
            exact ⟨c, t, hc', hd.2, hd.1, Or.inr (Or.inl ⟨rfl, by rw [← h, digitsVal_eq]⟩)⟩
          · cases h
        · simp only at h
          split at h
          · rename_i hd
            rw [allDigits_iff] at hd
            simp only [Bool.false_eq_true, if_false, Option.some.injEq] at h
            exact ⟨c, r, hc', hd.2, hd.1, Or.inl ⟨rfl, by rw [← h, digitsVal_eq]⟩⟩
          · cases h
      · rintro (h | ⟨c', ed, hc'', hd, hne, h | h | h⟩)
        · exact absurd h.1 (by simp)
        · obtain ⟨h1, rfl⟩ := h
          simp only [List.cons.injEq] at h1
          obtain ⟨rfl, rfl⟩ := h1
          have had := (allDigits_iff r).2 ⟨hne, hd⟩
          have h45 := hdig45 hd
          have h43 := hdig43 hd
          simp [had, digitsVal_eq]
        · obtain ⟨h1, rfl⟩ := h
          simp only [List.cons.injEq] at h1
          obtain ⟨rfl, rfl⟩ := h1
          have had := (allDigits_iff ed).2 ⟨hne, hd⟩
          simp [had, digitsVal_eq]
        · obtain ⟨h1, rfl⟩ := h
          simp only [List.cons.injEq] at h1
          obtain ⟨rfl, rfl⟩ := h1
          have had := (allDigits_iff ed).2 ⟨hne, hd⟩
          simp [had, digitsVal_eq]
    · have hc' : ¬ (c = 101 ∨ c = 69) := by simpa using hc
      simp only [hc]
      constructor
      · intro h; cases h
      · rintro (h | ⟨c', ed, hc'', -, -, h | h | h⟩)
        · exact absurd h.1 (by simp)
        all_goals
          have := h.1
          simp only [List.cons.injEq] at this
          exact absurd (this.1 ▸ hc'') hc'

theorem expShape_stops {x : Str} {e : Int} (h : expShape x e) :
    stops x ∧ ∀ c, x.head? = some c → c ≠ 46 := by
  rcases h with ⟨rfl, -⟩ | ⟨c, ed, hc, -, -, h | h | h⟩
  · constructor <;> intro c hc <;> simp at hc
  all_goals
    obtain ⟨rfl, -⟩ := h
    constructor
    · intro c' hc'
      simp only [List.head?_cons, Option.some.injEq] at hc'
      subst hc'
      rcases hc with rfl | rfl <;> decide
    · intro c' hc'
      simp only [List.head?_cons, Option.some.injEq] at hc'
      subst hc'
      rcases hc with rfl | rfl <;> decide

theorem mantShape_head {m ip fp r : Str} (h : mantShape m ip fp) :
    ∀ c, (m ++ r).head? = some c → c ≠ 45 := by
  intro c hc hc45
  subst hc45
  obtain ⟨hip, hfp, h | h⟩ := h
  · obtain ⟨-, hne, rfl⟩ := h
    cases m with
    | nil => exact hne rfl
    | cons x xs =>
      simp only [List.cons_append, List.head?_cons, Option.some.injEq] at hc
      subst hc
      have := hip 45 (by simp); unfold digit at this; omega
  · obtain ⟨-, rfl⟩ := h
    cases ip with
    | nil => simp at hc
    | cons x xs =>
      simp only [List.cons_append, List.head?_cons, Option.some.injEq] at hc
      subst hc
      have := hip 45 (by simp); unfold digit at this; omega

/-- The `RE_NUM` scanner accepts exactly the declarative number grammar, with the same value. -/
theorem shapeNum_iff (s : Str) (neg : Bool) (mant : Nat) (exp : Int) :
    shapeNum s = some (.num neg mant exp) ↔ numShape s neg mant exp := by
  rw [shapeNum_eq]
  constructor
  · intro h
    have hsign : s = (if (stripSign s).1 then [45] else []) ++ (stripSign s).2 := by
      unfold stripSign; split <;> simp
    cases hm : scanMant (stripSign s).2 with
    | none => simp [hm] at h
    | some p =>
      obtain ⟨fp, r⟩ := p
      cases he : scanExp r with
      | none => simp [hm, he] at h
      | some e =>
        simp only [hm, he, Option.some.injEq, PVal.num.injEq] at h
        obtain ⟨h1, h2, h3⟩ := h
        obtain ⟨m, hs, hms, -, -⟩ := scanMant_some hm
        refine ⟨m, _, fp, r, e, ?_, hms, (scanExp_iff _ _).1 he, ?_, h3.symm⟩
        · rw [← h1, ← hs]; exact hsign
        · rw [← h2, digitsVal_eq]
  · rintro ⟨m, ip, fp, x, e, rfl, hm, hx, rfl, rfl⟩
    obtain ⟨hst, h46⟩ := expShape_stops hx
    obtain ⟨e1, e2⟩ := scanMant_of_shape hm hst h46
    have hss : stripSign ((if neg then [45] else []) ++ (m ++ x)) = (neg, m ++ x) := by
      cases neg
      · simp only [Bool.false_eq_true, if_false, List.nil_append]
        exact stripSign_pos _ (mantShape_head hm)
      · exact stripSign_neg _
    rw [hss]
    simp only [e1, e2, (scanExp_iff _ _).2 hx, digitsVal_eq]

theorem shapeNum_some_num (s : Str) (v : PVal) (h : shapeNum s = some v) :
    ∃ neg mant exp, v = .num neg mant exp := by
  rw [shapeNum_eq] at h
  split at h
  · cases h
  · split at h
    · cases h
    · injection h with h; exact ⟨_, _, _, h.symm⟩

end Inputs
end SoupVerif
