/-
  C17 helpers, part 3: the walk of `match_dir`.

  One level of the walk is factored into a verdict that does not depend on the requested
  directionality (`dirStep`): either a definite direction, or "ask the parent".
-/
import SoupVerif.Model.Api
namespace SoupVerif.StateLaws
open SoupVerif

/-- A definite direction. -/
def IsDirVal (d : Nat) : Prop := d = SEL_DIR_LTR ∨ d = SEL_DIR_RTL

theorem dirVal_compl {d : Nat} (h : IsDirVal d) : (d == SEL_DIR_LTR) = !(d == SEL_DIR_RTL) := by
  rcases h with rfl | rfl <;> decide

theorem firstStrong_val (c : Ctx) : ∀ (s : Str) (d : Nat), firstStrong c s = some d → IsDirVal d
  | [], d, h => by simp [firstStrong] at h
  | ch :: rest, d, h => by
    unfold firstStrong at h
    split at h
    · exact Or.inl (Option.some.inj h).symm
    · split at h
      · exact Or.inr (Option.some.inj h).symm
      · exact firstStrong_val c rest d h

theorem findBidiKids_val (c : Ctx) (ks : List Node) : ∀ (d : Nat), findBidiKids c ks = some d → IsDirVal d := by
  fun_induction findBidiKids c ks with
  | case1 => intro d h; simp at h
  | case2 ks e sub direction name hcond ih => exact ih
  | case3 ks e sub direction name hcond v hv ih1 => intro d h; exact ih1 d (by rw [hv, h])
  | case4 ks e sub direction name hcond hn ih1 ih2 => exact ih2
  | case5 ks kind s hk ih => exact ih
  | case6 ks kind s hk v hv => intro d h; exact firstStrong_val c s d (by rw [hv, h])
  | case7 ks kind s hk hn ih => exact ih

theorem findBidi_val (c : Ctx) (l : Loc) (d : Nat) (h : findBidi c l = some d) : IsDirVal d := by
  unfold findBidi at h
  split at h
  · cases h
  · exact findBidiKids_val c _ d h

theorem dirOfAttr_val (v : Str) (d : Nat) (h : dirOfAttr v = some d) (h0 : d ≠ 0) : IsDirVal d := by
  unfold dirOfAttr at h
  split at h
  · exact Or.inl (Option.some.inj h).symm
  · split at h
    · exact Or.inr (Option.some.inj h).symm
    · split at h
      · exact absurd (Option.some.inj h).symm h0
      · simp at h

/-- Verdict of one level of `match_dir`. -/
inductive DirStep where
  | is (d : Nat)     -- `return d == directionality`
  | up               -- `return self.match_dir(self.get_parent(el, no_iframe=True), directionality)`
  deriving Repr, DecidableEq

/-- Reading a verdict for a requested directionality `d`; `W` is the parent's answer. -/
def DirStep.interp (d : Nat) (W : Bool) : DirStep → Bool
  | .is x => x == d
  | .up => W

/-- The facts one level of `match_dir` consults (none depends on the requested directionality). -/
structure DirAtoms where
  /-- `DIR_MAP.get(util.lower(dir))`: `some 0` = auto -/
  dirA : Option Nat
  isRoot : Bool
  /-- text-like `input` or `textarea` -/
  textLike : Bool
  /-- its value / text -/
  value : Str
  /-- first strong character of `value` -/
  fs : Option Nat
  /-- `find_bidi(el)` -/
  fb : Option Nat
  /-- `input[type=tel]` -/
  tel : Bool
  bdi : Bool

/-- `input`'s lower-cased `type` (`''` for other elements), as `match_dir` computes it. -/
def dirInputType (c : Ctx) (e : Elem) : Str :=
  if c.tagName e == "input".toStr then
    match (c.attrByName e "type".toStr).getD (.str []) with
    | .str s => lower s
    | .list _ => []
  else []

/-- The value whose first strong character decides `dir=auto` on a text control. -/
def dirAutoValue (c : Ctx) (l : Loc) (e : Elem) : Str :=
  if c.tagName e == "textarea".toStr then
    ((c.contents l true).filter (fun d => d.focus.isContentString)).flatMap (fun d => d.focus.strVal)
  else match (c.attrByName e "value".toStr).getD (.str []) with
    | .str s => s
    | .list _ => []

def dirAtoms (c : Ctx) (l : Loc) (e : Elem) : DirAtoms where
  dirA := match (c.attrByName e "dir".toStr).getD (.str []) with
    | .str s => dirOfAttr (lower s)
    | .list _ => none
  isRoot := c.isRoot l
  textLike := (c.tagName e == "input".toStr &&
      ["text", "search", "tel", "url", "email"].any (fun t => t.toStr == dirInputType c e)) ||
    c.tagName e == "textarea".toStr
  value := dirAutoValue c l e
  fs := firstStrong c (dirAutoValue c l e)
  fb := findBidi c l
  tel := c.tagName e == "input".toStr && dirInputType c e == "tel".toStr
  bdi := c.tagName e == "bdi".toStr

/-- The control flow of one level of `match_dir` over the atoms; `k x` is `x == directionality`,
    `W` the recursive call on the parent. -/
def levelG (a : DirAtoms) (k : Nat → Bool) (W : Bool) : Bool :=
  match a.dirA with
  | some d =>
    if d != 0 then k d
    else
      if a.textLike then
        if !a.value.isEmpty then
          match a.fs with
          | some d => k d
          | none => k SEL_DIR_LTR
        else if a.isRoot then k SEL_DIR_LTR
        else W
      else
        match a.fb with
        | some d => k d
        | none => if a.isRoot then k SEL_DIR_LTR else W
  | none =>
    if a.isRoot then k SEL_DIR_LTR
    else
      if a.tel then k SEL_DIR_LTR
      else if a.bdi then
        match a.fb with
        | some d => k d
        | none => W
      else W

/-- The same control flow, returning a verdict. -/
def DirAtoms.step (a : DirAtoms) : DirStep :=
  match a.dirA with
  | some d =>
    if d != 0 then .is d
    else
      if a.textLike then
        if !a.value.isEmpty then
          match a.fs with
          | some d => .is d
          | none => .is SEL_DIR_LTR
        else if a.isRoot then .is SEL_DIR_LTR
        else .up
      else
        match a.fb with
        | some d => .is d
        | none => if a.isRoot then .is SEL_DIR_LTR else .up
  | none =>
    if a.isRoot then .is SEL_DIR_LTR
    else
      if a.tel then .is SEL_DIR_LTR
      else if a.bdi then
        match a.fb with
        | some d => .is d
        | none => .up
      else .up

theorem levelG_eq_interp (a : DirAtoms) (d : Nat) (W : Bool) :
    levelG a (· == d) W = a.step.interp d W := by
  unfold levelG DirAtoms.step
  cases a.dirA with
  | none =>
    cases a.isRoot <;> cases a.tel <;> cases a.bdi <;> cases a.fb <;> rfl
  | some d0 =>
    by_cases h0 : d0 = 0
    · subst h0
      cases a.textLike <;> cases a.value.isEmpty <;> cases a.fs <;> cases a.fb <;> cases a.isRoot <;> rfl
    · have : (d0 != 0) = true := by simpa using h0
      simp only [this, if_true]; rfl

/-- The verdict of the level at `l`. -/
def dirStep (c : Ctx) (l : Loc) (e : Elem) : DirStep := (dirAtoms c l e).step

/-- One level of the walk.  An element outside the XHTML namespace never matches itself
    (`inherit = false`: it is the subject) and is skipped as an ancestor (`inherit = true`). -/
theorem matchDirWalk_cons (c : Ctx) (d : Nat) (inh : Bool) (l : Loc) (ps : List Loc) :
    matchDirWalk c d inh (l :: ps) =
      match l.elem? with
      | none => false
      | some e =>
        if !c.isHtmlTag e then inh && matchDirWalk c d true ps
        else (dirStep c l e).interp d (matchDirWalk c d true ps) := by
  rw [matchDirWalk]
  cases l.elem? with
  | none => rfl
  | some e =>
    simp only
    cases c.isHtmlTag e
    · rfl
    · simp only [Bool.not_true, Bool.false_eq_true, if_false]
      rw [dirStep, ← levelG_eq_interp]
      rfl

theorem matchDirWalk_nil (c : Ctx) (d : Nat) (inh : Bool) : matchDirWalk c d inh [] = false := by
  rw [matchDirWalk]

/-- For an HTML-namespace head the `inherit` flag is irrelevant. -/
theorem matchDirWalk_html_head (c : Ctx) (d : Nat) (inh : Bool) (l : Loc) (e : Elem) (ps : List Loc)
    (he : l.elem? = some e) (hh : c.isHtmlTag e = true) :
    matchDirWalk c d inh (l :: ps) = matchDirWalk c d true (l :: ps) := by
  rw [matchDirWalk_cons, matchDirWalk_cons, he]
  simp only [hh, Bool.not_true, Bool.false_eq_true, if_false]

/-- A subject outside the XHTML namespace matches no directionality. -/
theorem matchDirWalk_foreign_subject (c : Ctx) (d : Nat) (l : Loc) (e : Elem) (ps : List Loc)
    (he : l.elem? = some e) (hh : c.isHtmlTag e = false) :
    matchDirWalk c d false (l :: ps) = false := by
  rw [matchDirWalk_cons, he]
  simp only [hh, Bool.not_false, if_true, Bool.false_and]

/-- Every definite verdict is `ltr` or `rtl`. -/
theorem step_val (a : DirAtoms) (hfs : ∀ x, a.fs = some x → IsDirVal x)
    (hfb : ∀ x, a.fb = some x → IsDirVal x) (hda : ∀ x, a.dirA = some x → x ≠ 0 → IsDirVal x)
    (x : Nat) (h : a.step = .is x) : IsDirVal x := by
  unfold DirAtoms.step at h
  have hl : IsDirVal SEL_DIR_LTR := Or.inl rfl
  cases hd : a.dirA with
  | none =>
    rw [hd] at h
    cases hf : a.fb with
    | none =>
      rw [hf] at h
      revert h; cases a.isRoot <;> cases a.tel <;> cases a.bdi <;> simp <;> (intro h; subst h; exact hl)
    | some y =>
      rw [hf] at h
      have hy := hfb y hf
      revert h; cases a.isRoot <;> cases a.tel <;> cases a.bdi <;> simp <;>
        (intro h; subst h; first | exact hl | exact hy)
  | some d0 =>
    rw [hd] at h
    by_cases h0 : d0 = 0
    · subst h0
      simp only [bne_self_eq_false, Bool.false_eq_true, if_false] at h
      cases hf : a.fb with
      | none =>
        rw [hf] at h
        cases hs : a.fs with
        | none =>
          rw [hs] at h
          revert h; cases a.textLike <;> cases a.value.isEmpty <;> cases a.isRoot <;> simp <;>
            (intro h; subst h; exact hl)
        | some z =>
          rw [hs] at h
          have hz := hfs z hs
          revert h; cases a.textLike <;> cases a.value.isEmpty <;> cases a.isRoot <;> simp <;>
            (intro h; subst h; first | exact hl | exact hz)
      | some y =>
        rw [hf] at h
        have hy := hfb y hf
        cases hs : a.fs with
        | none =>
          rw [hs] at h
          revert h; cases a.textLike <;> cases a.value.isEmpty <;> cases a.isRoot <;> simp <;>
            (intro h; subst h; first | exact hl | exact hy)
        | some z =>
          rw [hs] at h
          have hz := hfs z hs
          revert h; cases a.textLike <;> cases a.value.isEmpty <;> cases a.isRoot <;> simp <;>
            (intro h; subst h; first | exact hl | exact hy | exact hz)
    · have : (d0 != 0) = true := by simpa using h0
      simp only [this, if_true] at h
      have := DirStep.is.inj h; subst this
      exact hda d0 hd h0

theorem dirStep_val (c : Ctx) (l : Loc) (e : Elem) (x : Nat) (h : dirStep c l e = .is x) : IsDirVal x := by
  refine step_val (dirAtoms c l e) (fun y hy => firstStrong_val c _ y hy)
    (fun y hy => findBidi_val c l y hy) ?_ x h
  intro y hy h0
  have hy' : (match (c.attrByName e "dir".toStr).getD (.str []) with
      | .str s => dirOfAttr (lower s)
      | .list _ => none) = some y := hy
  split at hy'
  · exact dirOfAttr_val _ y hy' h0
  · simp at hy'

/-- A root element never defers to its parent. -/
theorem step_root (a : DirAtoms) (hr : a.isRoot = true) : a.step ≠ .up := by
  unfold DirAtoms.step
  rw [hr]
  cases a.dirA with
  | none => simp
  | some d0 =>
    by_cases h0 : d0 = 0
    · subst h0
      cases a.textLike <;> cases a.value.isEmpty <;> cases a.fs <;> cases a.fb <;> simp
    · have : (d0 != 0) = true := by simpa using h0
      simp [this]

theorem dirStep_root (c : Ctx) (l : Loc) (e : Elem) (hr : c.isRoot l = true) : dirStep c l e ≠ .up :=
  step_root (dirAtoms c l e) hr

/-- The walk of `match_dir` (as seen from below: `inherit = true`) bottoms out on a verdict:
    elements outside the XHTML namespace are skipped, HTML-namespace elements defer until one
    answers by itself (in particular: a root). -/
inductive DirChain (c : Ctx) : List Loc → Prop
  | stop (l : Loc) (e : Elem) (ps : List Loc) :
      l.elem? = some e → c.isHtmlTag e = true → dirStep c l e ≠ .up → DirChain c (l :: ps)
  | step (l : Loc) (e : Elem) (ps : List Loc) :
      l.elem? = some e → c.isHtmlTag e = true → DirChain c ps → DirChain c (l :: ps)
  | skip (l : Loc) (e : Elem) (ps : List Loc) :
      l.elem? = some e → c.isHtmlTag e = false → DirChain c ps → DirChain c (l :: ps)

theorem DirChain.root {c : Ctx} (l : Loc) (e : Elem) (ps : List Loc)
    (he : l.elem? = some e) (hh : c.isHtmlTag e = true) (hr : c.isRoot l = true) : DirChain c (l :: ps) :=
  .stop l e ps he hh (dirStep_root c l e hr)

/-- Along such a chain the two directionalities are complementary. -/
theorem matchDirWalk_compl (c : Ctx) (ls : List Loc) (h : DirChain c ls) :
    matchDirWalk c SEL_DIR_LTR true ls = !matchDirWalk c SEL_DIR_RTL true ls := by
  induction h with
  | stop l e ps he hh hs =>
    rw [matchDirWalk_cons, matchDirWalk_cons, he]
    simp only [hh, Bool.not_true, Bool.false_eq_true, if_false]
    cases hd : dirStep c l e with
    | up => exact absurd hd hs
    | is x => exact dirVal_compl (dirStep_val c l e x hd)
  | step l e ps he hh _ ih =>
    rw [matchDirWalk_cons, matchDirWalk_cons, he]
    simp only [hh, Bool.not_true, Bool.false_eq_true, if_false]
    cases hd : dirStep c l e with
    | up => exact ih
    | is x => exact dirVal_compl (dirStep_val c l e x hd)
  | skip l e ps he hh _ ih =>
    rw [matchDirWalk_cons, matchDirWalk_cons, he]
    simp only [hh, Bool.not_false, if_true, Bool.true_and]
    exact ih

/-- The hypothesis in list form: elements (of any namespace) up to an HTML-namespace root. -/
theorem DirChain_of_root (c : Ctx) (pre : List Loc) (r : Loc) (post : List Loc)
    (hpre : ∀ p ∈ pre, ∃ e, p.elem? = some e)
    (hr : ∃ e, r.elem? = some e ∧ c.isHtmlTag e = true) (hroot : c.isRoot r = true) :
    DirChain c (pre ++ r :: post) := by
  induction pre with
  | nil =>
    obtain ⟨e, he, hh⟩ := hr
    exact DirChain.root r e post he hh hroot
  | cons p pre ih =>
    obtain ⟨e, he⟩ := hpre p (List.mem_cons_self ..)
    have ih' := ih (fun q hq => hpre q (List.mem_cons_of_mem _ hq))
    cases hh : c.isHtmlTag e with
    | true => exact .step p e _ he hh ih'
    | false => exact .skip p e _ he hh ih'

/-- Conversely, when every HTML-namespace level defers to its parent (the walk runs off the end of
    the chain, or meets a non-element), no directionality matches. -/
theorem matchDirWalk_all_up (c : Ctx) (d : Nat) (inh : Bool) (ls : List Loc)
    (h : ∀ p ∈ ls, ∀ e, p.elem? = some e → c.isHtmlTag e = true → dirStep c p e = .up) :
    matchDirWalk c d inh ls = false := by
  induction ls generalizing inh with
  | nil => exact matchDirWalk_nil c d inh
  | cons p ps ih =>
    have ih' := ih true (fun q hq => h q (List.mem_cons_of_mem _ hq))
    rw [matchDirWalk_cons]
    cases he : p.elem? with
    | none => rfl
    | some e =>
      simp only
      cases hh : c.isHtmlTag e
      · simp only [Bool.not_false, if_true, ih', Bool.and_false]
      · simp only [Bool.not_true, Bool.false_eq_true, if_false]
        rw [h p (List.mem_cons_self ..) e he hh]
        exact ih'

end SoupVerif.StateLaws
