/-
  Helper lemmas for `Properties/C01Sat`, part 3: the `SelectorNth(1, False, 0, of_type, last, [])`
  records of `:first-child`, `:last-child`, `:first-of-type`, `:last-of-type` (and the `only-`
  pairs) against "no preceding / following element sibling (of the same type)".
-/
import SoupVerif.Lemmas.SatCore
namespace SoupVerif
namespace SatNth
open Css SatTree SatCore

/-- The sibling list `match_nth` walks: the parent's contents, or a fake parent holding `el`. -/
theorem sibs_eq (l : Loc) :
    (match l.parent? with
      | some p => p.children
      | none => [l]) = l.prevSiblings.reverse ++ l :: l.nextSiblings := by
  cases hp : l.parent? with
  | some p => exact parent?_children l p hp
  | none =>
    have hup := (parent?_none_iff l).mp hp
    obtain ⟨h1, h2⟩ := siblings_nil_of_top l hup
    simp [h1, h2]

/-- Which siblings `match_nth` counts for these records. -/
def counted (c : Ctx) (e : Elem) (ofType : Bool) (ch : Loc) : Bool :=
  match ch.elem? with
  | none => false
  | some ce => (!emptyList.nonEmpty || matchList c ch ce emptyList) && (!ofType || sameType c e ce)

theorem counted_eq (c : Ctx) (e : Elem) (ofType : Bool) (ch : Loc) :
    counted c e ofType ch = (isElem ch && (!ofType || sameTypeAs c e ch)) := by
  unfold counted isElem sameTypeAs Loc.elem?
  cases ch.focus with
  | elem ce kids => simp [Node.elem?, Node.isTag, emptyList, SelList.nonEmpty, SelList.sels]
  | str k s => simp [Node.elem?, Node.isTag]

theorem sameType_refl (c : Ctx) (e : Elem) : sameType c e e = true := by
  simp [sameType]

theorem matchNth_unfold (c : Ctx) (l : Loc) (e : Elem) (ofType last : Bool) :
    matchNth c l e (nthRec ofType last) =
      Nth.matchOne (counted c e ofType) (fun ch => ch.same l) 1 0 false
        (if last then (l.prevSiblings.reverse ++ l :: l.nextSiblings).reverse
         else l.prevSiblings.reverse ++ l :: l.nextSiblings) := by
  unfold nthRec
  conv => lhs; unfold matchNth
  have he : (emptyList.nonEmpty && !matchList c l e emptyList) = false := rfl
  simp only [he, Bool.false_eq_true, if_false]
  cases hp : l.parent? with
  | some p =>
    rw [← parent?_children l p hp]
    rfl
  | none =>
    have hup := (parent?_none_iff l).mp hp
    obtain ⟨h1, h2⟩ := siblings_nil_of_top l hup
    rw [h1, h2]
    rfl

/-- The count of `match_nth` is `1` exactly when nothing before the element is counted. -/
theorem first_iff (c : Ctx) (l : Loc) (e : Elem) (kids : List Node) (hf : l.focus = .elem e kids)
    (ofType : Bool) (pre post : List Loc) (hpre : ∀ x ∈ pre, x.same l = false) :
    Nth.matchOne (counted c e ofType) (fun ch => ch.same l) 1 0 false (pre ++ l :: post) =
      !(pre.filter isElem).any (fun s => !ofType || sameTypeAs c e s) := by
  have hc : counted c e ofType l = true := by
    rw [counted_eq]
    simp [isElem, sameTypeAs, hf, Node.isTag, sameType_refl]
  have h := C02.matchOne_const (counted c e ofType) (fun ch => ch.same l) 1 0
    (pre ++ l :: post) pre l post rfl hpre (same_self l) hc
  rw [Bool.eq_iff_iff, h]
  simp only [Bool.not_eq_true', List.any_eq_false, List.mem_filter, and_imp]
  constructor
  · intro hlen x hx hel
    have hnil : pre.filter (counted c e ofType) = [] := by
      apply List.eq_nil_of_length_eq_zero
      have : ((List.filter (counted c e ofType) pre).length + 1 : Nat) = 1 := by exact_mod_cast hlen.symm
      omega
    have hx' : counted c e ofType x = false := by
      have := List.filter_eq_nil_iff.mp hnil x hx
      simpa using this
    rw [counted_eq, hel] at hx'
    simpa using hx'
  · intro hall
    have hnil : pre.filter (counted c e ofType) = [] := by
      apply List.filter_eq_nil_iff.mpr
      intro x hx
      rw [counted_eq]
      cases hel : isElem x with
      | false => simp
      | true => simp [hall x hx hel]
    rw [hnil]; rfl

theorem nth_first (c : Ctx) (l : Loc) (e : Elem) (kids : List Node) (hf : l.focus = .elem e kids)
    (ofType : Bool) :
    matchNth c l e (nthRec ofType false) =
      !(precedingElemSiblings l).any (fun s => !ofType || sameTypeAs c e s) := by
  rw [matchNth_unfold]
  simp only [Bool.false_eq_true, if_false]
  rw [first_iff c l e kids hf ofType l.prevSiblings.reverse l.nextSiblings
    (fun x hx => prev_not_same l x (List.mem_reverse.mp hx))]
  unfold precedingElemSiblings
  rw [List.filter_reverse, List.any_reverse]

theorem nth_last (c : Ctx) (l : Loc) (e : Elem) (kids : List Node) (hf : l.focus = .elem e kids)
    (ofType : Bool) :
    matchNth c l e (nthRec ofType true) =
      !(followingElemSiblings l).any (fun s => !ofType || sameTypeAs c e s) := by
  rw [matchNth_unfold]
  simp only [if_true, List.reverse_append, List.reverse_cons, List.reverse_reverse,
    List.append_assoc, List.singleton_append]
  rw [first_iff c l e kids hf ofType l.nextSiblings.reverse l.prevSiblings
    (fun x hx => next_not_same l x (List.mem_reverse.mp hx))]
  unfold followingElemSiblings
  rw [List.filter_reverse, List.any_reverse]

theorem any_true_eq {α} (L : List α) : (!L.any (fun _ => true)) = L.isEmpty := by
  cases L <;> simp

end SatNth
end SoupVerif
