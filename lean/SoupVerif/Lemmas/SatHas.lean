/-
  `:has()`: the forward reading of the specification (`Css.satRel` / `Css.satFwd`, `Spec/Css.lean`)
  against the declarative one (`Css.satRelDeclarative` / `Css.satScoped`, `Spec/CssHas.lean`).

  The helper lemmas: locations of one tree are determined by their position, the four
  combinator relations `rightOf` / `leftOf` are converse to each other, and the forward chains.
-/
import SoupVerif.Spec.CssHas
import SoupVerif.Lemmas.SatRoot
namespace SoupVerif
namespace SatHas
open Css SatTree

/-! ### Lists -/

/-- In a list without duplicates the place of an entry is unique. -/
theorem nodup_split_unique {α} : ∀ (X X' Y Y' : List α) (t : α),
    (X ++ t :: Y).Nodup → X ++ t :: Y = X' ++ t :: Y' → X = X' ∧ Y = Y' := by
  intro X
  induction X with
  | nil =>
    intro X' Y Y' t hnd h
    cases X' with
    | nil => simp at h; exact ⟨rfl, h⟩
    | cons x X' =>
      simp only [List.nil_append, List.cons_append, List.cons.injEq] at h
      obtain ⟨rfl, rfl⟩ := h
      simp at hnd
  | cons x X ih =>
    intro X' Y Y' t hnd h
    cases X' with
    | nil =>
      simp only [List.nil_append, List.cons_append, List.cons.injEq] at h
      obtain ⟨rfl, rfl⟩ := h
      simp at hnd
    | cons x' X' =>
      simp only [List.cons_append, List.cons.injEq] at h
      obtain ⟨rfl, h⟩ := h
      simp only [List.cons_append, List.nodup_cons] at hnd
      obtain ⟨h1, h2⟩ := ih X' Y Y' t hnd.2 h
      exact ⟨by rw [h1], h2⟩

/-- `t` is the first entry of `L` satisfying `p`. -/
theorem head?_filter_eq_some {α} (p : α → Bool) (L : List α) (t : α) :
    (L.filter p).head? = some t ↔
      p t = true ∧ ∃ M D, L = M ++ t :: D ∧ ∀ m ∈ M, p m = false := by
  rw [List.head?_filter, List.find?_eq_some_iff_append]
  simp

theorem mem_head?_toList_iff {α} (L : List α) (t : α) : t ∈ L.head?.toList ↔ L.head? = some t := by
  simp [Option.mem_toList]

/-! ### Children are pairwise distinct -/

theorem children_nodup (p : Loc) : p.children.Nodup := by
  rw [List.Nodup, List.pairwise_iff_getElem]
  intro i j hi hj hij heq
  have h1 := p.children_pos_get i hi
  have h2 := p.children_pos_get j hj
  rw [heq, h2] at h1
  have := List.append_cancel_left h1
  simp at this
  omega

theorem mem_children_pos (p a : Loc) (h : a ∈ p.children) :
    ∃ k, p.children[k]? = some a ∧ a.pos = p.pos ++ [k] := by
  obtain ⟨k, hk⟩ := List.getElem?_of_mem h
  exact ⟨k, hk, p.children_pos k a hk⟩

theorem self_mem_parent_children (l p : Loc) (h : l.parent? = some p) : l ∈ p.children := by
  rw [parent?_children l p h]; simp

/-! ### One tree, one position, one location -/

theorem parent_up_length (l p : Loc) (h : l.parent? = some p) : l.up.length = p.up.length + 1 := by
  unfold Loc.parent? at h
  split at h
  · simp at h
  · rename_i f rest hu
    simp only [Option.some.injEq] at h
    subst h
    simp [hu]

theorem eq_of_top_pos : ∀ (n : Nat) (a b : Loc), a.up.length = n → a.top = b.top → a.pos = b.pos →
    a = b := by
  intro n
  induction n with
  | zero =>
    intro a b hn ht hp
    have ha : a.up = [] := List.eq_nil_of_length_eq_zero hn
    have hb : b.up = [] := by
      have := congrArg List.length hp
      rw [Loc.pos_length, Loc.pos_length, hn] at this
      exact List.eq_nil_of_length_eq_zero this.symm
    rw [Loc.top_of_up_nil a ha, Loc.top_of_up_nil b hb] at ht
    exact ht
  | succ n ih =>
    intro a b hn ht hp
    have hlen : b.up.length = n + 1 := by
      have := congrArg List.length hp
      rw [Loc.pos_length, Loc.pos_length, hn] at this
      exact this.symm
    have hane : a.up ≠ [] := by intro h; rw [h] at hn; simp at hn
    have hbne : b.up ≠ [] := by intro h; rw [h] at hlen; simp at hlen
    obtain ⟨pa, hpa⟩ := exists_parent_of_up_ne a hane
    obtain ⟨pb, hpb⟩ := exists_parent_of_up_ne b hbne
    obtain ⟨i, hi, hip⟩ := mem_children_pos pa a (self_mem_parent_children a pa hpa)
    obtain ⟨j, hj, hjp⟩ := mem_children_pos pb b (self_mem_parent_children b pb hpb)
    rw [hip, hjp] at hp
    have hpp : pa.pos = pb.pos := List.append_inj_left' hp rfl
    have hij : i = j := by
      have := List.append_inj_right' hp rfl
      simpa using this
    have hpl : pa.up.length = n := by
      have := parent_up_length a pa hpa; omega
    have hpe : pa = pb := ih pa pb hpl (by rw [← top_parent a pa hpa, ← top_parent b pb hpb, ht]) hpp
    subst hpe
    subst hij
    rw [hi] at hj
    exact Option.some.inj hj

/-- Two locations of one tree at the same position (`a is b`) are equal. -/
theorem eq_of_same (a b : Loc) (ht : a.top = b.top) (hs : a.same b = true) : a = b :=
  eq_of_top_pos _ a b rfl ht ((Loc.same_iff a b).mp hs)

/-! ### The document object -/

/-- The only document object of the tree is its top. -/
def DocOnlyTop (T : Loc) : Prop := ∀ n : Loc, n.top = T → n.isDoc = true → n.up = []

theorem DocOnlyTop.notDoc {T : Loc} (hT : DocOnlyTop T) (n : Loc) (ht : n.top = T) (hu : n.up ≠ []) :
    n.isDoc = false := by
  cases h : n.isDoc with
  | false => rfl
  | true => exact absurd (hT n ht h) hu

/-! ### Siblings -/

theorem next_parent (u t : Loc) (h : t ∈ u.nextSiblings) :
    ∃ p, u.parent? = some p ∧ t.parent? = some p := by
  have hne : u.up ≠ [] := by
    intro hu; rw [(siblings_nil_of_top u hu).2] at h; simp at h
  obtain ⟨p, hp⟩ := exists_parent_of_up_ne u hne
  refine ⟨p, hp, child_parent p t ?_⟩
  rw [parent?_children u p hp]; simp [h]

theorem prev_parent (t u : Loc) (h : u ∈ t.prevSiblings) :
    ∃ p, t.parent? = some p ∧ u.parent? = some p := by
  have hne : t.up ≠ [] := by
    intro hu; rw [(siblings_nil_of_top t hu).1] at h; simp at h
  obtain ⟨p, hp⟩ := exists_parent_of_up_ne t hne
  refine ⟨p, hp, child_parent p u ?_⟩
  rw [parent?_children t p hp]; simp [h]

/-- `t` among the next siblings of `u`: what lies before `t`. -/
theorem split_next (u t : Loc) (M D : List Loc) (h : u.nextSiblings = M ++ t :: D) :
    t.prevSiblings = M.reverse ++ u :: u.prevSiblings := by
  obtain ⟨p, hpu, hpt⟩ := next_parent u t (by rw [h]; simp)
  have h1 := parent?_children u p hpu
  have h2 := parent?_children t p hpt
  have hnd := children_nodup p
  rw [h] at h1
  have h1' : p.children = (u.prevSiblings.reverse ++ u :: M) ++ t :: D := by
    rw [h1]; simp
  rw [h1'] at hnd h2
  obtain ⟨hx, _⟩ := nodup_split_unique _ _ _ _ t hnd h2
  have := congrArg List.reverse hx
  simpa using this.symm

/-- `u` among the previous siblings of `t`: what lies after `u`. -/
theorem split_prev (t u : Loc) (M A : List Loc) (h : t.prevSiblings = M ++ u :: A) :
    u.nextSiblings = M.reverse ++ t :: t.nextSiblings := by
  obtain ⟨p, hpt, hpu⟩ := prev_parent t u (by rw [h]; simp)
  have h1 := parent?_children t p hpt
  have h2 := parent?_children u p hpu
  have hnd := children_nodup p
  rw [h] at h1
  have h1' : p.children = A.reverse ++ u :: (M.reverse ++ t :: t.nextSiblings) := by
    rw [h1]; simp
  rw [h1'] at hnd h2
  obtain ⟨_, hy⟩ := nodup_split_unique _ _ _ _ u hnd h2
  exact hy.symm

theorem next_iff_prev (u t : Loc) : t ∈ u.nextSiblings ↔ u ∈ t.prevSiblings := by
  constructor
  · intro h
    obtain ⟨M, D, hMD⟩ := List.append_of_mem h
    rw [split_next u t M D hMD]; simp
  · intro h
    obtain ⟨M, A, hMA⟩ := List.append_of_mem h
    rw [split_prev t u M A hMA]; simp

theorem adj_next_prev (u t : Loc) (hu : isElem u = true)
    (h : (followingElemSiblings u).head? = some t) : (precedingElemSiblings t).head? = some u := by
  unfold followingElemSiblings at h
  unfold precedingElemSiblings
  obtain ⟨_, M, D, hMD, hM⟩ := (head?_filter_eq_some _ _ _).mp h
  refine (head?_filter_eq_some _ _ _).mpr ⟨hu, M.reverse, u.prevSiblings, split_next u t M D hMD, ?_⟩
  intro m hm
  exact hM m (List.mem_reverse.mp hm)

theorem adj_prev_next (u t : Loc) (ht : isElem t = true)
    (h : (precedingElemSiblings t).head? = some u) : (followingElemSiblings u).head? = some t := by
  unfold precedingElemSiblings at h
  unfold followingElemSiblings
  obtain ⟨_, M, A, hMA, hM⟩ := (head?_filter_eq_some _ _ _).mp h
  refine (head?_filter_eq_some _ _ _).mpr ⟨ht, M.reverse, t.nextSiblings, split_prev t u M A hMA, ?_⟩
  intro m hm
  exact hM m (List.mem_reverse.mp hm)

/-! ### Ancestors and descendants -/

theorem ancestorElems_unfold (t : Loc) :
    ancestorElems t = (match parentElem t with
      | none => []
      | some p => p :: ancestorElems p) := by
  obtain ⟨n, up⟩ := t
  cases up with
  | nil => simp [ancestorElems, ancestorElemsAux, parentElem]
  | cons f rest =>
    simp only [ancestorElems, ancestorElemsAux, parentElem]
    split <;> rfl

theorem ancestorElemsAux_trans : ∀ (up : List Frame) (n : Node) (a u : Loc),
    a ∈ ancestorElemsAux n up → u ∈ ancestorElems a → u ∈ ancestorElemsAux n up := by
  intro up
  induction up with
  | nil => intro n a u h; simp [ancestorElemsAux] at h
  | cons f rest ih =>
    intro n a u h hu
    simp only [ancestorElemsAux] at h ⊢
    split at h
    · simp at h
    · rename_i hdoc
      rw [if_neg hdoc]
      simp only [List.mem_cons] at h
      rcases h with rfl | h
      · exact List.mem_cons_of_mem _ hu
      · exact List.mem_cons_of_mem _ (ih _ a u h hu)

theorem ancestorElems_trans (t a u : Loc) (h : a ∈ ancestorElems t) (hu : u ∈ ancestorElems a) :
    u ∈ ancestorElems t :=
  ancestorElemsAux_trans t.up t.focus a u h hu

theorem parentElem_of_child (u t : Loc) (hd : u.isDoc = false) (h : t ∈ u.children) :
    parentElem t = some u := by
  rw [parentElem_eq, child_parent u t h]
  simp [hd]

theorem child_of_parentElem (u t : Loc) (h : parentElem t = some u) : t ∈ u.children := by
  rw [parentElem_eq] at h
  split at h
  · rename_i p hp
    split at h
    · simp at h
    · simp only [Option.some.injEq] at h
      subst h
      exact self_mem_parent_children t p hp
  · simp at h

theorem child_ancestorElems (u t : Loc) (hd : u.isDoc = false) (h : t ∈ u.children) :
    u ∈ ancestorElems t := by
  rw [ancestorElems_unfold, parentElem_of_child u t hd h]
  simp

theorem isDesc_ancestorElems {T : Loc} (hT : DocOnlyTop T) {u t : Loc} (h : IsDesc u t) :
    u.top = T → u.isDoc = false → u ∈ ancestorElems t := by
  induction h with
  | child hc => intro _ hd; exact child_ancestorElems _ _ hd hc
  | @step l ch d hc _ ih =>
    intro ht hd
    obtain ⟨f, hf⟩ := l.children_up ch hc
    have hch : ch.isDoc = false :=
      hT.notDoc ch (by rw [top_child l ch hc]; exact ht) (by rw [hf]; simp)
    exact ancestorElems_trans d ch l (ih (by rw [top_child l ch hc]; exact ht) hch)
      (child_ancestorElems l ch hd hc)

theorem ancestorsAux_isDesc : ∀ (up : List Frame) (n : Node) (a : Loc),
    a ∈ Loc.ancestorsAux n up → IsDesc a ⟨n, up⟩ := by
  intro up
  induction up with
  | nil => intro n a h; simp [Loc.ancestorsAux] at h
  | cons f rest ih =>
    intro n a h
    have hmem : (⟨n, f :: rest⟩ : Loc) ∈ (⟨Loc.plug f n, rest⟩ : Loc).children :=
      self_mem_parent_children ⟨n, f :: rest⟩ _ rfl
    simp only [Loc.ancestorsAux, List.mem_cons] at h
    rcases h with rfl | h
    · exact IsDesc.child hmem
    · exact SatRoot.IsDesc.snoc (ih _ a h) hmem

theorem ancestorElems_isDesc (u t : Loc) (h : u ∈ ancestorElems t) : IsDesc u t := by
  rw [← ancestors_takeWhile] at h
  exact ancestorsAux_isDesc t.up t.focus u ((List.takeWhile_sublist _).mem h)

theorem mem_descendantElems_iff (u t : Loc) :
    t ∈ descendantElems u ↔ IsDesc u t ∧ isElem t = true := by
  rw [descendantElems_eq, List.mem_filter, Loc.mem_descendants_iff]
  rfl

theorem isDesc_up_ne {u t : Loc} (h : IsDesc u t) : t.up ≠ [] := by
  induction h with
  | @child l ch hc =>
    obtain ⟨f, hf⟩ := l.children_up ch hc
    rw [hf]; simp
  | step _ _ ih => exact ih

/-! ### `rightOf` and `leftOf` are converse -/

/-- Across any combinator, what stands to the right of `u` has `u` to its left. -/
theorem left_of_right {T : Loc} (hT : DocOnlyTop T) (k : Comb) (u t : Loc) (hu : u.top = T)
    (hel : isElem u = true) (hd : u.isDoc = false) (h : t ∈ rightOf k u) : u ∈ leftOf k t := by
  cases k with
  | desc =>
    simp only [rightOf, mem_descendantElems_iff] at h
    exact isDesc_ancestorElems hT h.1 hu hd
  | child =>
    simp only [rightOf, childElems, List.mem_filter] at h
    simp only [leftOf, Option.mem_toList]
    exact parentElem_of_child u t hd h.1
  | sib =>
    simp only [rightOf, followingElemSiblings, List.mem_filter] at h
    simp only [leftOf, precedingElemSiblings, List.mem_filter]
    exact ⟨(next_iff_prev u t).mp h.1, hel⟩
  | adj =>
    simp only [rightOf, Option.mem_toList] at h
    simp only [leftOf, Option.mem_toList]
    exact adj_next_prev u t hel h

/-- Across any combinator, an element with `u` to its left stands to the right of `u`. -/
theorem right_of_left (k : Comb) (u t : Loc) (hel : isElem t = true) (h : u ∈ leftOf k t) :
    t ∈ rightOf k u := by
  cases k with
  | desc =>
    simp only [rightOf, mem_descendantElems_iff]
    exact ⟨ancestorElems_isDesc u t h, hel⟩
  | child =>
    simp only [leftOf, Option.mem_toList] at h
    simp only [rightOf, childElems, List.mem_filter]
    exact ⟨child_of_parentElem u t h, hel⟩
  | sib =>
    simp only [leftOf, precedingElemSiblings, List.mem_filter] at h
    simp only [rightOf, followingElemSiblings, List.mem_filter]
    exact ⟨(next_iff_prev u t).mpr h.1, hel⟩
  | adj =>
    simp only [leftOf, Option.mem_toList] at h
    simp only [rightOf, Option.mem_toList]
    exact adj_prev_next u t hel h

/-- Whatever stands to the right of something has a parent. -/
theorem rightOf_up_ne (k : Comb) (u t : Loc) (h : t ∈ rightOf k u) : t.up ≠ [] := by
  have hnext : ∀ s, s ∈ u.nextSiblings → s.up ≠ [] := by
    intro s hs
    obtain ⟨p, _, hp⟩ := next_parent u s hs
    intro hup
    rw [(parent?_none_iff s).mpr hup] at hp
    simp at hp
  cases k with
  | desc =>
    simp only [rightOf, mem_descendantElems_iff] at h
    exact isDesc_up_ne h.1
  | child =>
    simp only [rightOf, childElems, List.mem_filter] at h
    obtain ⟨f, hf⟩ := u.children_up t h.1
    rw [hf]; simp
  | sib =>
    simp only [rightOf, followingElemSiblings, List.mem_filter] at h
    exact hnext t h.1
  | adj =>
    have := mem_head?_toList h
    simp only [followingElemSiblings, List.mem_filter] at this
    exact hnext t this.1

/-! ### Forward chains -/

/-- `ChainF c x t0 t`: `t0` matches the leftmost compound of `x`, following the combinators of `x`
    to the right leads to `t`, every element on the way matching its compound. -/
inductive ChainF (c : Ctx) : Complex → Loc → Loc → Prop where
  | one {cp : Compound} {t : Loc} : satCompound c t cp = true → ChainF c (.one cp) t t
  | comb {L : Complex} {k : Comb} {R : Compound} {t0 u t : Loc} :
      ChainF c L t0 u → t ∈ rightOf k u → satCompound c t R = true → ChainF c (.comb L k R) t0 t

theorem satCompound_isElem (c : Ctx) (t : Loc) (cp : Compound) (h : satCompound c t cp = true) :
    isElem t = true := by
  cases cp with
  | mk tag parts =>
    unfold satCompound at h
    unfold isElem Node.isTag
    split at h
    · rename_i hf; rw [hf]
    · simp at h

theorem ChainF.last_isElem {c : Ctx} {x : Complex} {t0 t : Loc} (h : ChainF c x t0 t) :
    isElem t = true := by
  cases h with
  | one hs => exact satCompound_isElem c _ _ hs
  | comb _ _ hs => exact satCompound_isElem c _ _ hs

theorem ChainF.first_isElem {c : Ctx} {x : Complex} {t0 t : Loc} (h : ChainF c x t0 t) :
    isElem t0 = true := by
  induction h with
  | one hs => exact satCompound_isElem c _ _ hs
  | comb _ _ _ ih => exact ih

theorem satFwd_iff (c : Ctx) : ∀ (x : Complex) (done : Loc → Bool) (t0 : Loc),
    satFwd c x done t0 = true ↔ ∃ t, ChainF c x t0 t ∧ done t = true
  | .one cp, done, t0 => by
    rw [satFwd, Bool.and_eq_true]
    constructor
    · rintro ⟨h1, h2⟩
      exact ⟨t0, .one h1, h2⟩
    · rintro ⟨t, hch, hd⟩
      cases hch with
      | one hs => exact ⟨hs, hd⟩
  | .comb L k R, done, t0 => by
    rw [satFwd, satFwd_iff c L]
    constructor
    · rintro ⟨u, hu, hany⟩
      obtain ⟨v, hv, hvv⟩ := List.any_eq_true.mp hany
      rw [Bool.and_eq_true] at hvv
      exact ⟨v, .comb hu hv hvv.1, hvv.2⟩
    · rintro ⟨t, hch, hd⟩
      cases hch with
      | comb hL hr hs =>
        exact ⟨_, hL, List.any_eq_true.mpr ⟨t, hr, by rw [hs, hd]; rfl⟩⟩

/-- A forward chain starting to the right of the anchor is a match of `:scope k0 X`. -/
theorem fwd_scoped {T : Loc} (hT : DocOnlyTop T) (c : Ctx) (l : Loc) (k0 : Comb) {x : Complex}
    {t0 t : Loc} (h : ChainF c x t0 t) :
    t0.top = T → t0.up ≠ [] → l ∈ leftOf k0 t0 →
      satScoped c l k0 x t = true ∧ t.top = T ∧ t.up ≠ [] := by
  induction h with
  | one hs =>
    intro ht hup hl
    refine ⟨?_, ht, hup⟩
    rw [satScoped, hs, Bool.true_and]
    exact List.any_eq_true.mpr ⟨l, hl, same_self l⟩
  | @comb L k R t0 u t hL hr hs ih =>
    intro ht hup hl
    obtain ⟨hsc, hut, huu⟩ := ih ht hup hl
    have hud : u.isDoc = false := hT.notDoc u hut huu
    have hleft : u ∈ leftOf k t := left_of_right hT k u t hut hL.last_isElem hud hr
    refine ⟨?_, (closed_top T).rightOf k u t hut hr, rightOf_up_ne k u t hr⟩
    rw [satScoped, hs, Bool.true_and]
    exact List.any_eq_true.mpr ⟨u, hleft, hsc⟩

/-- A match of `:scope k0 X` in the anchor's tree ends a forward chain that starts to the right
    of the anchor. -/
theorem scoped_fwd (c : Ctx) (l : Loc) (k0 : Comb) : ∀ (x : Complex) (t : Loc),
    satScoped c l k0 x t = true → t.top = l.top → ∃ t0, ChainF c x t0 t ∧ l ∈ leftOf k0 t0
  | .one cp, t, h, ht => by
    rw [satScoped, Bool.and_eq_true] at h
    obtain ⟨hs, hany⟩ := h
    obtain ⟨a, ha, hsame⟩ := List.any_eq_true.mp hany
    have hat : a.top = l.top := by
      rw [← ht]; exact (closed_top t.top).leftOf k0 t a rfl ha
    have : a = l := eq_of_same a l hat hsame
    subst this
    exact ⟨t, .one hs, ha⟩
  | .comb L k R, t, h, ht => by
    rw [satScoped, Bool.and_eq_true] at h
    obtain ⟨hs, hany⟩ := h
    obtain ⟨u, hu, hsc⟩ := List.any_eq_true.mp hany
    have hut : u.top = l.top := by
      rw [← ht]; exact (closed_top t.top).leftOf k t u rfl hu
    obtain ⟨t0, hch, hl⟩ := scoped_fwd c l k0 L u hsc hut
    exact ⟨t0, .comb hch (right_of_left k u t (satCompound_isElem c t R hs) hu) hs, hl⟩

/-! ### The nodes of a tree -/

theorem mem_treeNodes_of_top (T t : Loc) (h : t.top = T) : t ∈ treeNodes T := by
  unfold treeNodes
  rcases SatRoot.in_tree _ t T rfl h with rfl | hd
  · exact List.mem_cons_self ..
  · exact List.mem_cons_of_mem _ ((Loc.mem_descendants_iff T t).mpr hd)

theorem top_of_mem_treeNodes (l t : Loc) (h : t ∈ treeNodes l.top) : t.top = l.top := by
  have hTT : l.top.top = l.top := Loc.top_of_up_nil _ l.top_up
  unfold treeNodes at h
  rcases List.mem_cons.mp h with rfl | hd
  · exact hTT
  · exact (closed_top l.top).isDesc ((Loc.mem_descendants_iff _ t).mp hd) hTT

/-! ### Forward = declarative -/

theorem satRel_iff_declarative (c : Ctx) (l : Loc) (hel : isElem l = true) (hdoc : l.isDoc = false)
    (hT : DocOnlyTop l.top) (k : Comb) (x : Complex) :
    satRel c l (.mk k x) = true ↔ satRelDeclarative c l (.mk k x) = true := by
  rw [satRel, satRelDeclarative]
  constructor
  · intro h
    obtain ⟨t0, ht0, hf⟩ := List.any_eq_true.mp h
    obtain ⟨t, hch, _⟩ := (satFwd_iff c x _ t0).mp hf
    have ht0T : t0.top = l.top := (closed_top l.top).rightOf k l t0 rfl ht0
    have hleft : l ∈ leftOf k t0 := left_of_right hT k l t0 rfl hel hdoc ht0
    obtain ⟨hsc, htT, _⟩ := fwd_scoped hT c l k hch ht0T (rightOf_up_ne k l t0 ht0) hleft
    refine List.any_eq_true.mpr ⟨t, mem_treeNodes_of_top _ t htT, ?_⟩
    rw [hch.last_isElem, hsc]; rfl
  · intro h
    obtain ⟨t, ht, hb⟩ := List.any_eq_true.mp h
    rw [Bool.and_eq_true] at hb
    obtain ⟨t0, hch, hl⟩ := scoped_fwd c l k x t hb.2 (top_of_mem_treeNodes l t ht)
    refine List.any_eq_true.mpr ⟨t0, right_of_left k l t0 hch.first_isElem hl, ?_⟩
    exact (satFwd_iff c x _ t0).mpr ⟨t, hch, rfl⟩

end SatHas
end SoupVerif
