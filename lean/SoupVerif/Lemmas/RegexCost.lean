/-
  C07 lemmas (umbrella).  The theory lives in `Lemmas/RegexCost/`:
  * `Ends`   : `ends` is the projection of `runs`; `paths ≤ work`; ends are monotone and bounded.
  * `First`  : soundness of the character-set abstraction, `nullable`, `first`, `cfirst`.
  * `Excl`   : syntactic equality; mutual exclusion of alternatives (`excl`).
  * `Det`    : `Det r` ⇒ distinct ends and sound follow-last; unique decomposition of repeats.
  * `Bounds` : polynomial bounds on paths and work.
-/
import SoupVerif.Lemmas.RegexCost.Bounds
set_option autoImplicit false
namespace SoupVerif
namespace Rx

/-- Maximum of a list of naturals (for the uniform constants of `tokenize_poly`). -/
def listMax : List Nat → Nat
  | [] => 0
  | x :: xs => max x (listMax xs)

theorem le_listMax {l : List Nat} {x : Nat} (h : x ∈ l) : x ≤ listMax l := by
  induction l with
  | nil => simp at h
  | cons y ys ih =>
    simp only [listMax]
    rcases List.mem_cons.mp h with rfl | h
    · exact Nat.le_max_left _ _
    · exact Nat.le_trans (ih h) (Nat.le_max_right _ _)

theorem starSafe_star_det {sp : Specials} {mn : Nat} {g : Bool} {b : Rx}
    (h : StarSafe sp (.rep mn none g b) = true) : Det sp (.rep mn none g b) = true := by
  simp only [StarSafe, Bool.and_eq_true, Bool.or_eq_true, Option.isSome_none,
    Bool.false_eq_true, or_false] at h
  exact h.2

end Rx
end SoupVerif
