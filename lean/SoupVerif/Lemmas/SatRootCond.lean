/-
  `:root`: explicit conditions on a tree under which the matcher's notion agrees with
  "an element with no parent element" (`SatRoot.RootAgrees`), for the context `CSSMatch.__init__`
  builds (`mkCtx`):
    (1) the only document object is the top of the tree;
    (2) no element sits directly below an `iframe` element of an HTML document (the matcher treats
        the content of an `iframe` as a document of its own);
    (3) when the top is the document object, at most one of its children is an element, a text
        node with non-blank content or a CDATA section (the matcher refuses `:root` to an element
        that has such a sibling — e.g. a fragment with two top-level elements has no `:root`).
  Each condition is necessary in general (see the `decide` examples in `Properties/C01Sat`).
-/
import SoupVerif.Lemmas.SatRoot
namespace SoupVerif
namespace SatRootCond
open Css SatTree SatRoot

theorem same_false_of_length {a b : Loc} (h : a.up.length ≠ b.up.length) : a.same b = false := by
  cases hs : a.same b with
  | false => rfl
  | true =>
    have := congrArg List.length ((Loc.same_iff a b).mp hs)
    rw [Loc.pos_length, Loc.pos_length] at this
    exact absurd this h

theorem child_up_length (T r : Loc) (h : r ∈ T.children) : r.up.length = T.up.length + 1 := by
  obtain ⟨f, hf⟩ := Loc.children_up T r h
  rw [hf]; rfl

theorem mkCtx_root (E : Env) (isXml : Bool) (ns : List (Str × Str)) (scope : Loc) :
    (mkCtx E isXml ns scope).root =
      if !scope.top.isDoc then some scope.top else scope.top.children.find? Loc.isTag := rfl

/-- The root element found by `mkCtx` sits at depth 0 or 1. -/
theorem root_depth (E : Env) (isXml : Bool) (ns : List (Str × Str)) (scope r : Loc)
    (h : (mkCtx E isXml ns scope).root = some r) : r.up.length ≤ 1 := by
  rw [mkCtx_root] at h
  split at h
  · simp only [Option.some.injEq] at h; subst h; rw [Loc.top_up]; simp
  · have hm := List.mem_of_find?_eq_some h
    rw [child_up_length _ _ hm, Loc.top_up]; simp

theorem filter_len_le_one_split {α} (p : α → Bool) (A B : List α) (x : α) (hx : p x = true)
    (h : ((A ++ x :: B).filter p).length ≤ 1) : (∀ a ∈ A, p a = false) ∧ (∀ b ∈ B, p b = false) := by
  simp only [List.filter_append, List.filter_cons, hx, if_true, List.length_append,
    List.length_cons] at h
  have hA : (A.filter p).length = 0 := by omega
  have hB : (B.filter p).length = 0 := by omega
  have hA' := List.filter_eq_nil_iff.mp (List.eq_nil_of_length_eq_zero hA)
  have hB' := List.filter_eq_nil_iff.mp (List.eq_nil_of_length_eq_zero hB)
  exact ⟨fun a ha => by simpa using hA' a ha, fun b hb => by simpa using hB' b hb⟩

theorem find?_split {α} (p : α → Bool) (A B : List α) (x : α) (hx : p x = true)
    (hA : ∀ a ∈ A, p a = false) : (A ++ x :: B).find? p = some x := by
  induction A with
  | nil => simp [hx]
  | cons a A ih =>
    have := hA a (List.mem_cons_self ..)
    simp only [List.cons_append, List.find?_cons, this]
    exact ih (fun b hb => hA b (List.mem_cons_of_mem _ hb))

theorem rootAgrees_of_conditions (E : Env) (isXml : Bool) (ns : List (Str × Str)) (scope : Loc)
    (hdoc : ∀ n : Loc, n.top = scope.top → n.isDoc = true → n.up = [])
    (hifr : ∀ l p : Loc, l.top = scope.top → l.parent? = some p →
      ((mkCtx E isXml ns scope).isHtml && (mkCtx E isXml ns scope).locIsIframe p) = false)
    (hone : scope.top.isDoc = true →
      (scope.top.children.filter (fun s => blocksRoot s.focus)).length ≤ 1) :
    RootAgrees (mkCtx E isXml ns scope) scope.top := by
  intro l hT hel
  have htag : l.focus.isTag = true := hel
  cases hup : l.up with
  | nil =>
    -- `l` is the top of the tree
    have hl : l = scope.top := by rw [← hT, Loc.top_of_up_nil l hup]
    obtain ⟨hprev, hnext⟩ := siblings_nil_of_top l hup
    have hpar : l.parent? = none := (parent?_none_iff l).mpr hup
    simp only [matchRoot, Ctx.isRoot, hprev, hnext, hpar, List.any_nil, Bool.not_false,
      Bool.and_true, Bool.or_false, isRootElem, parentElem, hup, Option.isNone_none]
    rw [mkCtx_root, ← hl]
    cases hd : l.isDoc with
    | false => simp [same_self]
    | true =>
      simp only [Bool.not_true, Bool.false_eq_true, if_false]
      cases hfind : l.children.find? Loc.isTag with
      | none => rfl
      | some r =>
        have hm := List.mem_of_find?_eq_some hfind
        have := child_up_length l r hm
        simp only
        exact same_false_of_length (by omega)
  | cons f rest =>
    have hne : l.up ≠ [] := by rw [hup]; simp
    have hldoc : l.isDoc = false := by
      cases h : l.isDoc with
      | false => rfl
      | true => exact absurd (hdoc l hT h) hne
    have hpar : l.parent? = some ⟨Loc.plug f l.focus, rest⟩ := by
      unfold Loc.parent?; rw [hup]
    have hptop : (⟨Loc.plug f l.focus, rest⟩ : Loc).top = scope.top := by
      rw [← top_parent l _ hpar]; exact hT
    have hi := hifr l _ hT hpar
    have hpdoc : (⟨Loc.plug f l.focus, rest⟩ : Loc).isDoc = f.info.isDoc := rfl
    simp only [matchRoot, Ctx.isRoot, hpar, hi, Bool.or_false, isRootElem, parentElem, hup, hldoc,
      Bool.not_false, Bool.true_and]
    cases hrest : rest with
    | nil =>
      -- `l` is a child of the top
      subst hrest
      have hp : (⟨Loc.plug f l.focus, []⟩ : Loc) = scope.top := by
        rw [← hptop, Loc.top_of_up_nil _ rfl]
      have hch := parent?_children l _ hpar
      rw [hp] at hch
      rw [mkCtx_root]
      cases hfd : f.info.isDoc with
      | true =>
        have htd : scope.top.isDoc = true := by rw [← hp, hpdoc, hfd]
        have hb := hone htd
        rw [hch] at hb
        have hlb : blocksRoot l.focus = true := by simp [blocksRoot, htag]
        obtain ⟨hA, hB⟩ := filter_len_le_one_split (fun s => blocksRoot s.focus) _ _ l hlb hb
        have hAtag : ∀ a ∈ l.prevSiblings.reverse, Loc.isTag a = false := by
          intro a ha
          have := hA a ha
          simp only [blocksRoot, Bool.or_eq_false_iff] at this
          exact this.1.1
        have hfind : scope.top.children.find? Loc.isTag = some l := by
          rw [hch]; exact find?_split _ _ _ l htag hAtag
        simp only [htd, Bool.not_true, Bool.false_eq_true, if_false, hfind, same_self, Bool.true_and,
          if_true, Option.isNone_none]
        have h1 : l.prevSiblings.any (fun s => blocksRoot s.focus) = false := by
          rw [List.any_eq_false]; intro a ha
          simpa using hA a (List.mem_reverse.mpr ha)
        have h2 : l.nextSiblings.any (fun s => blocksRoot s.focus) = false := by
          rw [List.any_eq_false]; intro a ha
          simpa using hB a ha
        simp [h1, h2]
      | false =>
        have htd : scope.top.isDoc = false := by rw [← hp, hpdoc, hfd]
        simp only [htd, Bool.not_false, if_true, Bool.false_eq_true, if_false, Option.isNone_some]
        have : scope.top.same l = false := by
          apply same_false_of_length
          rw [Loc.top_up, hup]; simp
        simp [this]
    | cons g rest' =>
      subst hrest
      have hpd : f.info.isDoc = false := by
        cases h : f.info.isDoc with
        | false => rfl
        | true =>
          have := hdoc _ hptop (by rw [hpdoc, h])
          simp at this
      simp only [hpd, Bool.false_eq_true, if_false, Option.isNone_some]
      cases hr : (mkCtx E isXml ns scope).root with
      | none => simp
      | some r =>
        have hd := root_depth E isXml ns scope r hr
        have : r.same l = false := by
          apply same_false_of_length
          rw [hup]; simp; omega
        simp [this]

end SatRootCond
end SoupVerif
