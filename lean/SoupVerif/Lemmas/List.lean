/- Small list lemmas used by several property files. -/
namespace SoupVerif

theorem mem_takeWhile_p {α} (p : α → Bool) : ∀ (l : List α) (a : α), a ∈ l.takeWhile p → p a = true := by
  intro l
  induction l with
  | nil => intro a h; simp at h
  | cons x xs ih =>
    intro a h
    simp only [List.takeWhile] at h
    split at h
    · rcases List.mem_cons.mp h with rfl | h'
      · assumption
      · exact ih a h'
    · simp at h

end SoupVerif
