/-
  C06 helpers, part 1: the loop of `parse_selectors` as a one-step function.

  * `matchAt_le`, `matchAt_progress`: a successful `Rx.matchAt` ends inside the subject, and
    strictly after its start when the expression is not `nullable` (from C07's `ends_endOK` and
    `nullable_sound`).
  * `Step`, `stepOf`, `runStep` (defined in `Model/ParserStep.lean`): one iteration of the
    `while True` loop of `parse_selectors`
    with the two recursive calls (`parse_selectors` for a nested list / a custom selector, and the
    next iteration) made explicit, so that statements about the recursion can be proved once for
    all token kinds. `parseLoop_succ` / `parseSelectors_succ` are the unfolding equations: the
    model's `parseLoop (fuel+1)` IS `runStep … (stepOf …)` (proved, not assumed).
-/
import SoupVerif.Generated.Lexicon
import SoupVerif.Model.ParserStep
import SoupVerif.Lemmas.RegexCost
namespace SoupVerif
namespace ParserProgress
open Rx SoupVerif.Parser

/-! ## Regex facts -/

theorem matchAt_mem_ends {env : CharEnv} {r : Rx} {s : Str} {i j : Nat} {c : Caps}
    (h : matchAt env r s i = some (j, c)) : j ∈ ends env s r i := by
  unfold matchAt at h
  have hm : (j, c) ∈ runs env s r i [] := List.mem_of_mem_head? h
  rw [← runs_map_fst env s r i []]
  exact List.mem_map.mpr ⟨(j, c), hm, rfl⟩

theorem matchAt_le {env : CharEnv} {r : Rx} {s : Str} {i j : Nat} {c : Caps}
    (h : matchAt env r s i = some (j, c)) : i ≤ j ∧ (j = i ∨ j ≤ s.length) :=
  ends_endOK env s r i j (matchAt_mem_ends h)

theorem matchAt_le_length {env : CharEnv} {r : Rx} {s : Str} {i j : Nat} {c : Caps}
    (h : matchAt env r s i = some (j, c)) (hi : i ≤ s.length) : j ≤ s.length := by
  have := matchAt_le h; omega

theorem matchAt_progress {env : CharEnv} {r : Rx} {s : Str} {i j : Nat} {c : Caps}
    (hn : nullable r = false) (h : matchAt env r s i = some (j, c)) : i < j ∧ j ≤ s.length := by
  have h1 := nullable_sound env s r hn i j (matchAt_mem_ends h)
  have h2 := matchAt_le h
  omega

/-! ## One loop iteration -/

theorem runStep_ite (a b) (c : Prop) [Decidable c] (x y : Step) :
    runStep a b (if c then x else y) = if c then runStep a b x else runStep a b y := by
  split <;> rfl

macro "key_step" : tactic =>
  `(tactic| (rw [runStep_ite]; refine ite_congr rfl (fun _ => ?_) (fun _ => ?_)))

theorem parseLoop_succ (env : CharEnv) (L : Lexicon) (B : Builtins) (pattern : Str) (fuel flags : Nat) (s : LS) :
    parseLoop env L B pattern (fuel + 1) flags s =
      runStep (fun p => parseSelectors env L B p fuel) (parseLoop env L B pattern fuel flags)
        (stepOf env L B pattern flags s) := by
  rw [parseLoop.eq_2]
  unfold stepOf
  simp only []
  generalize nextToken ⟨env, L, B, pattern⟩ s.pos = nt
  rcases nt with e | (_ | t)
  · rfl
  · rfl
  · simp only []
    key_step
    · rfl
    key_step
    · rfl
    key_step
    · generalize s.custom.get? _ = g
      rcases g with _ | (text | l)
      · rfl
      · simp only [runStep]
        generalize parseSelectors env L B _ fuel _ _ _ _ = r
        rcases r with e | ⟨l, p, c⟩ <;> rfl
      · rfl
    key_step
    · key_step
      · simp only [runStep]
        generalize parseSelectors env L B _ fuel _ _ _ _ = r
        rcases r with e | ⟨l, p, c⟩ <;> rfl
      key_step
      · rfl
      key_step
      · simp only [runStep]
        generalize parseSelectors env L B _ fuel _ _ _ _ = r
        rcases r with e | ⟨l, p, c⟩ <;> rfl
      key_step
      · rfl
      key_step <;> rfl
    key_step
    · rfl
    key_step
    · rfl
    key_step
    · key_step
      · generalize Token.group _ t "of" = og
        rcases og with _ | o
        · rfl
        · simp only []
          rcases o with _ | ⟨c0, o⟩
          · rfl
          · simp only [List.isEmpty_cons, Bool.not_false, if_true, runStep]
            generalize parseSelectors env L B _ fuel _ _ _ _ = r
            rcases r with e | ⟨l, p, c⟩ <;> rfl
      · rfl
    key_step
    · rfl
    key_step
    · rfl
    key_step
    · key_step
      · rfl
      key_step <;> rfl
    key_step
    · generalize (if ((flags &&& FLG_RELATIVE) != 0) = true then parseHasCombinator _ _ _ _ else parseCombinator _ _ _ _ _ _) = r
      rcases r with e | s' <;> rfl
    key_step
    · rfl
    key_step
    · key_step <;> rfl
    key_step <;> rfl


theorem cleanupLS_frame (flags : Nat) (s : LS) :
    (cleanupLS flags s).index = s.index ∧ (cleanupLS flags s).pos = s.pos ∧
      (cleanupLS flags s).custom = s.custom := by
  unfold cleanupLS
  simp only []
  split
  · split <;> exact ⟨rfl, rfl, rfl⟩
  · split <;> exact ⟨rfl, rfl, rfl⟩

theorem parseSelectors_succ (env : CharEnv) (L : Lexicon) (B : Builtins) (pattern : Str)
    (fuel pos index flags : Nat) (custom : Custom) :
    parseSelectors env L B pattern (fuel + 1) pos index flags custom =
      match parseLoop env L B pattern fuel flags (initLS pos index flags custom) with
      | .error e => .error e
      | .ok s => finishSel env L B pattern flags s := by
  rw [parseSelectors.eq_2]; rfl

end ParserProgress
