/-
  C06 helpers, part 2: tokens make progress, classification of one loop iteration, and the
  fuel argument.

  * `LexOK L`: no token expression of the lexicon is `nullable`.  Under it `matchToken` returns
    a token that ends strictly after its start and inside the pattern (`matchToken_spec`).
  * `stepOf_spec`: every iteration either stops, raises an error of a documented kind whose
    offset lies inside the pattern, continues after a token, or makes exactly one nested
    `parse_selectors` call (same pattern at the token's end, or the definition of a custom
    selector with that selector removed from the map).
  * `inv_all`: by induction on the fuel, for `parseSelectors` and `parseLoop` simultaneously:
      - every error has `offset ≤ pattern.length` (`ErrOK`);
      - the returned position is ≥ the start and ≤ the length, the returned custom map has no
        more source-text weight `W` than the given one;
      - once `fuel ≥ needSel` (resp. `needLoop`), one more unit of fuel does not change the
        result, and the result is not `pyBug`.
    `needSel pattern pos c = 2·(|pattern| − pos) + 2 + W c`,  `W c = Σ_{(k ↦ src t) ∈ c} (2·|t| + 2)`.
-/
import SoupVerif.Lemmas.ParserProgress.Step
namespace SoupVerif
namespace ParserProgress
open Rx SoupVerif.Parser

/-! ## Tokens make progress -/

/-- What the tokenizer needs from the lexicon: no token expression matches the empty string. -/
structure LexOK (L : Lexicon) : Prop where
  tokens : ∀ t ∈ L.tokens, t.2 = false → nullable t.1.rx = false
  special : ∀ e ∈ L.special, nullable e.2.rx = false

theorem matchToken_spec (P : PEnv) (i : Nat) (hsp : ∀ e ∈ P.L.special, nullable e.2.rx = false) :
    ∀ (toks : List (TokenRx × Bool)), (∀ t ∈ toks, t.2 = false → nullable t.1.rx = false) →
    ∀ t, matchToken P i toks = some t → t.start = i ∧ i < t.stop ∧ t.stop ≤ P.pattern.length
  | [], _, t, h => by simp [matchToken] at h
  | (tr, isSpecial) :: rest, hn, t, h => by
    have ih := matchToken_spec P i hsp rest (fun x hx => hn x (List.mem_cons_of_mem _ hx)) t
    unfold matchToken at h
    cases isSpecial with
    | true =>
      simp only [if_true] at h
      split at h
      · split at h
        · rename_i e sub hfind
          split at h
          · rename_i j c2 hm
            have hmem : (e, sub) ∈ P.L.special := List.mem_of_find?_eq_some hfind
            have hp := matchAt_progress (hsp _ hmem) hm
            cases h; exact ⟨rfl, hp.1, hp.2⟩
          · exact ih h
        · exact ih h
      · exact ih h
    | false =>
      simp only [Bool.false_eq_true, if_false] at h
      split at h
      · rename_i j c hm
        have hp := matchAt_progress (hn (tr, false) (List.mem_cons_self ..) rfl) hm
        cases h; exact ⟨rfl, hp.1, hp.2⟩
      · exact ih h

/-- The kinds `parse_selectors` / `selector_iter` can raise: not `pyBug`, and not one of the two
    `process_custom` errors. -/
def NoBug (k : ErrKind) : Prop := (∀ w, k ≠ .pyBug w) ∧ k ≠ .badCustomName ∧ k ≠ .customCollision

macro "pk" : tactic => `(tactic| exact ⟨by nofun, by nofun, by nofun⟩)

/-- An error raised by the parser of `P.pattern` itself: documented kind, offset inside. -/
def ErrHere (P : PEnv) (e : Err) : Prop :=
  e.pattern = P.pattern ∧ e.offset ≤ P.pattern.length ∧ NoBug e.kind

theorem errHere_mk (P : PEnv) (k : ErrKind) (off : Nat) (hk : NoBug k) (ho : off ≤ P.pattern.length) :
    ErrHere P (P.err k off) := ⟨rfl, ho, hk⟩

theorem nextToken_error {P : PEnv} {i : Nat} {e : Err} (h : nextToken P i = .error e) : ErrHere P e := by
  unfold nextToken at h
  split at h
  · cases h
  · split at h
    · cases h
    · split at h
      · cases h
      · rename_i hi _ _
        cases h
        refine errHere_mk P _ _ ?_ (by omega)
        repeat' split
        all_goals pk

theorem nextToken_some {P : PEnv} (hL : LexOK P.L) {i : Nat} {t : Token}
    (h : nextToken P i = .ok (some t)) : t.start = i ∧ i < t.stop ∧ t.stop ≤ P.pattern.length := by
  unfold nextToken at h
  split at h
  · cases h
  · split at h
    · cases h
    · split at h
      · rename_i t' hm
        cases h
        exact matchToken_spec P i hL.special _ hL.tokens _ hm
      · cases h


/-! ## What one iteration can do -/

def nulFix (text : Str) : Str := text.map (fun c => if c == 0 then 0xFFFD else c)

/-- Classification of the step taken on a token ending at `stop`. -/
def StepOK (P : PEnv) (s : LS) (stop : Nat) : Step → Prop
  | .done (.error e) => ErrHere P e
  | .done (.ok s') => s'.pos = stop ∧ s'.index = s.index ∧ s'.custom = s.custom
  | .cont s' => s'.pos = stop ∧ s'.index = stop ∧ s'.custom = s.custom
  | .nest pat pos idx _ c k =>
      (pat = P.pattern ∧ pos = stop ∧ idx = stop ∧ c = s.custom ∧
        ∀ r : SelRes, (k r).pos = r.2.1 ∧ (k r).index = stop ∧ (k r).custom = r.2.2)
      ∨ (∃ pseudo text, s.custom.get? pseudo = some (.src text) ∧ pat = nulFix text ∧
          c = s.custom.erase pseudo ∧ pos = startIndex ⟨P.env, P.L, P.B, pat⟩ ∧ idx = 0 ∧
          ∀ r : SelRes, (k r).pos = stop ∧ (k r).index = stop ∧
            (k r).custom = r.2.2.set pseudo (.compiled r.1))

theorem StepOK_ite {P : PEnv} {s : LS} {stop : Nat} {c : Prop} [Decidable c] {a b : Step}
    (ha : StepOK P s stop a) (hb : StepOK P s stop b) : StepOK P s stop (if c then a else b) := by
  split <;> assumption

theorem parseHasCombinator_error {P : PEnv} {t : Token} {s : LS} {index : Nat} {e : Err}
    (hi : index ≤ P.pattern.length) (h : parseHasCombinator P t s index = .error e) : ErrHere P e := by
  unfold parseHasCombinator at h
  simp only [] at h
  repeat' (split at h)
  all_goals first
    | (cases h; exact errHere_mk P _ _ (by pk) hi)
    | cases h

theorem parseHasCombinator_ok {P : PEnv} {t : Token} {s s' : LS} {index : Nat}
    (h : parseHasCombinator P t s index = .ok s') :
    s'.pos = s.pos ∧ s'.index = s.index ∧ s'.custom = s.custom := by
  unfold parseHasCombinator at h
  simp only [] at h
  repeat' (split at h)
  all_goals first
    | (cases h; exact ⟨rfl, rfl, rfl⟩)
    | cases h

theorem parseCombinator_error {P : PEnv} {t : Token} {s : LS} {a b : Bool} {index : Nat} {e : Err}
    (hi : index ≤ P.pattern.length) (h : parseCombinator P t s a b index = .error e) : ErrHere P e := by
  unfold parseCombinator at h
  simp only [] at h
  repeat' (split at h)
  all_goals first
    | (cases h; exact errHere_mk P _ _ (by pk) hi)
    | cases h

theorem parseCombinator_ok {P : PEnv} {t : Token} {s s' : LS} {a b : Bool} {index : Nat}
    (h : parseCombinator P t s a b index = .ok s') :
    s'.pos = s.pos ∧ s'.index = s.index ∧ s'.custom = s.custom := by
  unfold parseCombinator at h
  simp only [] at h
  repeat' (split at h)
  all_goals first
    | (cases h; exact ⟨rfl, rfl, rfl⟩)
    | cases h


def StepSpec (P : PEnv) (s : LS) (st : Step) : Prop :=
  (∃ stop, s.pos < stop ∧ stop ≤ P.pattern.length ∧ StepOK P s stop st) ∨ st = .done (.ok s) ∨
    (∃ e, st = .done (.error e) ∧ ErrHere P e)

macro "leaf" : tactic => `(tactic| first
  | exact ⟨rfl, rfl, rfl⟩
  | exact errHere_mk _ _ _ (by pk) (by omega)
  | exact Or.inl ⟨rfl, rfl, rfl, rfl, fun ⟨_, _, _⟩ => ⟨rfl, rfl, rfl⟩⟩)

macro "nav" : tactic => `(tactic| repeat' (first | leaf | refine StepOK_ite ?_ ?_))

theorem stepOf_spec {env : CharEnv} {L : Lexicon} {B : Builtins} {pattern : Str} {flags : Nat} {s : LS}
    (hL : LexOK L) (hidx : s.index ≤ pattern.length) :
    StepSpec ⟨env, L, B, pattern⟩ s (stepOf env L B pattern flags s) := by
  unfold stepOf
  simp only []
  generalize hnt : nextToken ⟨env, L, B, pattern⟩ s.pos = nt
  rcases nt with e | (_ | t)
  · right; right; exact ⟨e, rfl, nextToken_error hnt⟩
  · right; left; rfl
  · obtain ⟨hst, hlt, hle⟩ := nextToken_some (P := ⟨env, L, B, pattern⟩) hL hnt
    have hstart : t.start ≤ pattern.length := by simp only [] at hle; omega
    left; refine ⟨t.stop, hlt, hle, ?_⟩
    simp only [] at hle ⊢
    nav
    · split
      · leaf
      · leaf
      · rename_i text heq
        exact Or.inr ⟨_, text, heq, rfl, rfl, rfl, rfl, fun ⟨_, _, _⟩ => ⟨rfl, rfl, rfl⟩⟩
    · show _ ∧ _ ∧ _
      split <;> exact ⟨rfl, rfl, rfl⟩
    · generalize hr : (if ((flags &&& FLG_RELATIVE) != 0) = true then parseHasCombinator _ _ _ _
        else parseCombinator _ _ _ _ _ _) = r
      rcases r with e | s'
      · show ErrHere _ e
        split at hr
        · exact parseHasCombinator_error hidx hr
        · exact parseCombinator_error hidx hr
      · show _ ∧ _ ∧ _
        split at hr
        · obtain ⟨h1, _, h3⟩ := parseHasCombinator_ok hr
          exact ⟨h1, rfl, h3⟩
        · obtain ⟨h1, _, h3⟩ := parseCombinator_ok hr
          exact ⟨h1, rfl, h3⟩


theorem finishSel_error {env : CharEnv} {L : Lexicon} {B : Builtins} {pattern : Str} {flags : Nat} {s : LS}
    {e : Err} (hidx : s.index ≤ pattern.length) (h : finishSel env L B pattern flags s = .error e) :
    ErrHere ⟨env, L, B, pattern⟩ e := by
  unfold finishSel at h
  simp only [] at h
  split at h
  · cases h; exact errHere_mk _ _ _ (by pk) hidx
  · split at h
    · cases h
      refine errHere_mk _ _ _ (by pk) ?_
      rw [(cleanupLS_frame flags s).1]; exact hidx
    · cases h

theorem finishSel_ok {env : CharEnv} {L : Lexicon} {B : Builtins} {pattern : Str} {flags : Nat} {s : LS}
    {l : SelList} {p : Nat} {c : Custom} (h : finishSel env L B pattern flags s = .ok (l, p, c)) :
    p = s.pos ∧ c = s.custom := by
  unfold finishSel at h
  simp only [] at h
  split at h
  · cases h
  · split at h
    · cases h
    · cases h
      exact ⟨(cleanupLS_frame flags s).2.1, (cleanupLS_frame flags s).2.2⟩

/-! ## The custom map only loses source entries -/

def cvWeight : CustomVal → Nat
  | .src t => 2 * t.length + 2
  | .compiled _ => 0

/-- Fuel reserved for expanding the not yet compiled custom selectors. -/
def W : Custom → Nat
  | [] => 0
  | e :: c => cvWeight e.2 + W c

theorem W_erase_le (c : Custom) (k : Str) : W (c.erase k) ≤ W c := by
  induction c with
  | nil => exact Nat.le_refl _
  | cons e c ih =>
    simp only [Custom.erase, List.filter_cons] at ih ⊢
    split
    · simp only [W]; omega
    · simp only [W]; omega

theorem W_get_src (c : Custom) (k : Str) (t : Str) (h : c.get? k = some (.src t)) :
    W (c.erase k) + (2 * t.length + 2) ≤ W c := by
  induction c with
  | nil => simp [Custom.get?] at h
  | cons e c ih =>
    simp only [Custom.get?, List.find?_cons] at h
    by_cases hk : (e.1 == k) = true
    · simp only [hk, Option.map_some, Option.some.injEq] at h
      have h1 : (e.1 != k) = false := by simp [bne, hk]
      have h2 := W_erase_le c k
      simp only [Custom.erase] at h2
      simp only [Custom.erase, List.filter_cons, h1, Bool.false_eq_true, if_false, W, h, cvWeight]
      omega
    · have hk' : (e.1 == k) = false := by simpa using hk
      simp only [hk'] at h
      have h1 : (e.1 != k) = true := by simp [bne, hk']
      have := ih (by simpa [Custom.get?] using h)
      simp only [Custom.erase] at this
      simp only [Custom.erase, List.filter_cons, h1, if_true, W]
      omega

theorem W_append (a b : Custom) : W (a ++ b) = W a + W b := by
  induction a with
  | nil => simp [W]
  | cons e a ih => simp only [List.cons_append, W, ih]; omega

theorem W_map_le (c : Custom) (k : Str) (v : CustomVal) (n : Nat) (hv : cvWeight v ≤ n) :
    W (c.map (fun e => if e.1 == k then (k, v) else e)) ≤ W c + n * c.length := by
  induction c with
  | nil => simp [W]
  | cons e c ih =>
    simp only [List.map_cons, W, List.length_cons]
    have : cvWeight (if (e.1 == k) = true then (k, v) else e).2 ≤ cvWeight e.2 + n := by
      split
      · show cvWeight v ≤ _; omega
      · omega
    rw [Nat.mul_succ]; omega

theorem W_set_compiled (c : Custom) (k : Str) (l : SelList) : W (c.set k (.compiled l)) ≤ W c := by
  unfold Custom.set
  split
  · have := W_map_le c k (.compiled l) 0 (Nat.le_refl _)
    simpa using this
  · rw [W_append]; simp [W, cvWeight]


theorem startIndex_le (P : PEnv) : startIndex P ≤ P.pattern.length := by
  unfold startIndex
  split
  · rename_i j c h; exact matchAt_le_length h (Nat.zero_le _)
  · exact Nat.zero_le _

/-! ## Fuel -/

/-- Every error carries an offset inside the pattern it names. -/
def ErrOK (e : Err) : Prop := e.offset ≤ e.pattern.length

theorem ErrHere.ok {P : PEnv} {e : Err} (h : ErrHere P e) : ErrOK e := by
  unfold ErrOK; rw [h.1]; exact h.2.1

def needLoop (pattern : Str) (s : LS) : Nat := 2 * (pattern.length - s.pos) + 1 + W s.custom
def needSel (pattern : Str) (pos : Nat) (c : Custom) : Nat := 2 * (pattern.length - pos) + 2 + W c

def SelPost (pattern : Str) (pos : Nat) (c : Custom) : M SelRes → Prop
  | .error e => ErrOK e
  | .ok (_, p', c') => pos ≤ p' ∧ p' ≤ pattern.length ∧ W c' ≤ W c

def LoopPost (pattern : Str) (s : LS) : M LS → Prop
  | .error e => ErrOK e
  | .ok s' => s.pos ≤ s'.pos ∧ s'.pos ≤ pattern.length ∧ s'.index ≤ pattern.length ∧
      W s'.custom ≤ W s.custom

def NoBugR {α : Type} (r : M α) : Prop := ∀ e, r = .error e → NoBug e.kind

section
variable (env : CharEnv) (L : Lexicon) (B : Builtins)

def SelInv (f : Nat) : Prop :=
  ∀ (pattern : Str) (pos idx fl : Nat) (c : Custom), pos ≤ pattern.length → idx ≤ pattern.length →
    SelPost pattern pos c (parseSelectors env L B pattern f pos idx fl c) ∧
    (needSel pattern pos c ≤ f →
      parseSelectors env L B pattern (f + 1) pos idx fl c = parseSelectors env L B pattern f pos idx fl c ∧
      NoBugR (parseSelectors env L B pattern f pos idx fl c))

def LoopInv (f : Nat) : Prop :=
  ∀ (pattern : Str) (flags : Nat) (s : LS), s.pos ≤ pattern.length → s.index ≤ pattern.length →
    LoopPost pattern s (parseLoop env L B pattern f flags s) ∧
    (needLoop pattern s ≤ f →
      parseLoop env L B pattern (f + 1) flags s = parseLoop env L B pattern f flags s ∧
      NoBugR (parseLoop env L B pattern f flags s))

theorem inv_zero : SelInv env L B 0 ∧ LoopInv env L B 0 := by
  constructor
  · intro pattern pos idx fl c _ _
    refine ⟨?_, fun h => ?_⟩
    · show ErrOK _; exact Nat.zero_le _
    · unfold needSel at h; omega
  · intro pattern flags s hp hi
    refine ⟨?_, fun h => ?_⟩
    · show LoopPost pattern s (.ok s); exact ⟨Nat.le_refl _, hp, hi, Nat.le_refl _⟩
    · unfold needLoop at h; omega

theorem selInv_succ {f : Nat} (hl : LoopInv env L B f) : SelInv env L B (f + 1) := by
  intro pattern pos idx fl c hp hi
  have hl0 := hl pattern fl (initLS pos idx fl c) hp hi
  rw [parseSelectors_succ, parseSelectors_succ]
  refine ⟨?_, fun hneed => ?_⟩
  · have h1 := hl0.1
    generalize parseLoop env L B pattern f fl (initLS pos idx fl c) = r at h1
    rcases r with e | s'
    · exact h1
    · obtain ⟨h2, h3, h4, h5⟩ := h1
      show SelPost pattern pos c (finishSel env L B pattern fl s')
      generalize hr : finishSel env L B pattern fl s' = r
      rcases r with e | ⟨l, p', c'⟩
      · exact (finishSel_error h4 hr).ok
      · obtain ⟨rfl, rfl⟩ := finishSel_ok hr
        exact ⟨h2, h3, h5⟩
  · have hneed' : needLoop pattern (initLS pos idx fl c) ≤ f := by
      unfold needSel at hneed; unfold needLoop; show 2 * (pattern.length - pos) + 1 + W c ≤ f; omega
    obtain ⟨heq, hnb⟩ := hl0.2 hneed'
    rw [heq]
    refine ⟨rfl, ?_⟩
    intro e he
    have h1 := hl0.1
    generalize parseLoop env L B pattern f fl (initLS pos idx fl c) = r at hnb he h1
    rcases r with e' | s'
    · cases he; exact hnb _ rfl
    · exact (finishSel_error h1.2.2.1 he).2.2

theorem LoopPost.weaken {pattern : Str} {s s' : LS} {r : M LS} (h : LoopPost pattern s' r)
    (hp : s.pos ≤ s'.pos) (hw : W s'.custom ≤ W s.custom) : LoopPost pattern s r := by
  rcases r with e | s''
  · exact h
  · obtain ⟨h1, h2, h3, h4⟩ := h
    exact ⟨by omega, h2, h3, by omega⟩

theorem nulFix_length (t : Str) : (nulFix t).length = t.length := by simp [nulFix]

theorem loopInv_succ (hL : LexOK L) {f : Nat} (hs : SelInv env L B f) (hl : LoopInv env L B f) :
    LoopInv env L B (f + 1) := by
  intro pattern flags s hp hi
  rw [parseLoop_succ env L B pattern (f + 1), parseLoop_succ env L B pattern f]
  have hspec := stepOf_spec (env := env) (B := B) (flags := flags) hL hi
  generalize stepOf env L B pattern flags s = st at hspec ⊢
  rcases hspec with ⟨stop, hlt, hle, hok⟩ | rfl | ⟨e, rfl, he⟩
  · simp only [] at hle
    cases st with
    | done r =>
      cases r with
      | error e => exact ⟨ErrHere.ok hok, fun _ => ⟨rfl, fun e' h => by cases h; exact hok.2.2⟩⟩
      | ok s' =>
        obtain ⟨h1, h2, h3⟩ := hok
        refine ⟨⟨by omega, by omega, by omega, Nat.le_of_eq (congrArg W h3)⟩,
          fun _ => ⟨rfl, fun e' h => by cases h⟩⟩
    | cont s' =>
      obtain ⟨h1, h2, h3⟩ := hok
      have hI := hl pattern flags s' (by omega) (by omega)
      refine ⟨hI.1.weaken (by omega) (Nat.le_of_eq (congrArg W h3)), fun hneed => ?_⟩
      exact hI.2 (by unfold needLoop at hneed ⊢; rw [h3]; omega)
    | nest pat pos idx fl c k =>
      simp only [runStep]
      rcases hok with ⟨e1, e2, e3, e4, hk⟩ | ⟨pseudo, text, hget, e1, e2, e3, e4, hk⟩
      · -- nested list in the same pattern
        simp only [] at e1
        rw [e1, e2, e3, e4]
        clear e1 e2 e3 e4 pat pos idx c
        generalize hpos : stop = pos at *
        have hS := hs pattern pos pos fl s.custom hle hle
        constructor
        · have hS1 := hS.1
          generalize parseSelectors env L B pattern f pos pos fl s.custom = r at hS1
          rcases r with e | ⟨l, p', c'⟩
          · exact hS1
          · obtain ⟨g1, g2, g3⟩ := hS1
            obtain ⟨k1, k2, k3⟩ := hk (l, p', c')
            simp only [] at k1 k3
            have hI := hl pattern flags (k (l, p', c')) (by omega) (by omega)
            exact hI.1.weaken (by omega) (by rw [k3]; exact g3)
        · intro hneed
          unfold needLoop at hneed
          obtain ⟨heq, hnb⟩ := hS.2 (by unfold needSel; omega)
          rw [heq]
          have hS1 := hS.1
          generalize parseSelectors env L B pattern f pos pos fl s.custom = r at hS1 hnb
          rcases r with e | ⟨l, p', c'⟩
          · exact ⟨rfl, fun e' h => by cases h; exact hnb _ rfl⟩
          · obtain ⟨g1, g2, g3⟩ := hS1
            obtain ⟨k1, k2, k3⟩ := hk (l, p', c')
            simp only [] at k1 k3
            have hI := hl pattern flags (k (l, p', c')) (by omega) (by omega)
            exact hI.2 (by unfold needLoop; rw [k1, k3]; omega)
      · -- expansion of a custom selector
        simp only [] at e1 e3
        rw [e3, e4, e2]
        clear e3 e4 e2 pos idx c
        subst e1
        have hlen := nulFix_length text
        have hw := W_get_src s.custom pseudo text hget
        have hS := hs (nulFix text) (startIndex ⟨env, L, B, nulFix text⟩) 0 fl (s.custom.erase pseudo)
          (startIndex_le ⟨env, L, B, nulFix text⟩) (Nat.zero_le _)
        constructor
        · have hS1 := hS.1
          generalize parseSelectors env L B (nulFix text) f _ 0 fl (s.custom.erase pseudo) = r at hS1
          rcases r with e | ⟨l, p', c'⟩
          · exact hS1
          · obtain ⟨g1, g2, g3⟩ := hS1
            obtain ⟨k1, k2, k3⟩ := hk (l, p', c')
            simp only [] at k1 k3
            have hI := hl pattern flags (k (l, p', c')) (by omega) (by omega)
            have := W_set_compiled c' pseudo l
            exact hI.1.weaken (by omega) (by rw [k3]; omega)
        · intro hneed
          unfold needLoop at hneed
          obtain ⟨heq, hnb⟩ := hS.2 (by unfold needSel; omega)
          rw [heq]
          have hS1 := hS.1
          generalize parseSelectors env L B (nulFix text) f _ 0 fl (s.custom.erase pseudo) = r at hS1 hnb
          rcases r with e | ⟨l, p', c'⟩
          · exact ⟨rfl, fun e' h => by cases h; exact hnb _ rfl⟩
          · obtain ⟨g1, g2, g3⟩ := hS1
            obtain ⟨k1, k2, k3⟩ := hk (l, p', c')
            simp only [] at k1 k3
            have hI := hl pattern flags (k (l, p', c')) (by omega) (by omega)
            have := W_set_compiled c' pseudo l
            exact hI.2 (by unfold needLoop; rw [k1, k3]; omega)
  · exact ⟨⟨Nat.le_refl _, hp, hi, Nat.le_refl _⟩, fun _ => ⟨rfl, fun e' h => by cases h⟩⟩
  · exact ⟨ErrHere.ok he, fun _ => ⟨rfl, fun e' h => by cases h; exact he.2.2⟩⟩

theorem inv_all (hL : LexOK L) : ∀ f, SelInv env L B f ∧ LoopInv env L B f
  | 0 => inv_zero env L B
  | f + 1 =>
    have ih := inv_all hL f
    ⟨selInv_succ env L B ih.2, loopInv_succ env L B hL ih.1 ih.2⟩

end

end ParserProgress
