/-
  C06 helpers, part 3: `process_custom` — its two errors, and the weight `W` of the map it
  builds (the custom-selector part of the fuel that `Parser.compile` allots).
-/
import SoupVerif.Lemmas.ParserProgress.Fuel
namespace SoupVerif
namespace ParserProgress
open Rx SoupVerif.Parser

def keys (c : Custom) : List Str := c.map (·.1)

def repl (k : Str) (v : CustomVal) (e : Str × CustomVal) : Str × CustomVal := if e.1 == k then (k, v) else e

theorem set_eq (c : Custom) (k : Str) (v : CustomVal) :
    c.set k v = if c.any (fun e => e.1 == k) then c.map (repl k v) else c ++ [(k, v)] := rfl

theorem keys_map_repl (c : Custom) (k : Str) (v : CustomVal) : keys (c.map (repl k v)) = keys c := by
  induction c with
  | nil => rfl
  | cons e c ih =>
    simp only [keys, List.map_cons] at ih ⊢
    rw [ih]
    congr 1
    unfold repl
    split
    · rename_i h; exact (eq_of_beq h).symm
    · rfl

theorem map_repl_of_not_mem (c : Custom) (k : Str) (v : CustomVal) (h : k ∉ keys c) :
    c.map (repl k v) = c := by
  induction c with
  | nil => rfl
  | cons e c ih =>
    simp only [keys, List.map_cons, List.mem_cons, not_or] at h
    simp only [List.map_cons]
    rw [ih (by simpa [keys] using h.2)]
    congr 1
    unfold repl
    split
    · rename_i hk; exact absurd (eq_of_beq hk).symm h.1
    · rfl

theorem W_map_repl_le (c : Custom) (k : Str) (v : CustomVal) (hn : (keys c).Nodup) :
    W (c.map (repl k v)) ≤ W c + cvWeight v := by
  induction c with
  | nil => simp [W]
  | cons e c ih =>
    simp only [keys, List.map_cons, List.nodup_cons] at hn
    by_cases hk : (e.1 == k) = true
    · have hek : e.1 = k := eq_of_beq hk
      rw [List.map_cons, map_repl_of_not_mem c k v (by rw [← hek]; exact hn.1)]
      simp only [repl, hk, if_true, W]
      omega
    · have hk' : (e.1 == k) = false := by simpa using hk
      have := ih hn.2
      simp only [List.map_cons, repl, hk', Bool.false_eq_true, if_false, W] at this ⊢
      omega

theorem W_set_le (c : Custom) (k : Str) (v : CustomVal) (hn : (keys c).Nodup) :
    W (c.set k v) ≤ W c + cvWeight v := by
  rw [set_eq]
  split
  · exact W_map_repl_le c k v hn
  · rw [W_append]; simp [W]

theorem keys_set_nodup (c : Custom) (k : Str) (v : CustomVal) (hn : (keys c).Nodup) :
    (keys (c.set k v)).Nodup := by
  rw [set_eq]
  split
  · rw [keys_map_repl]; exact hn
  · rename_i h
    simp only [keys, List.map_append, List.map_cons, List.map_nil]
    rw [List.nodup_append]
    refine ⟨hn, List.nodup_singleton _, ?_⟩
    intro a ha b hb
    simp only [List.mem_singleton] at hb
    subst hb
    rintro rfl
    apply h
    obtain ⟨e, he, rfl⟩ := List.mem_map.mp ha
    exact List.any_eq_true.mpr ⟨e, he, by simp⟩

/-- Total length budget of the definitions: `Σ (2·|definition| + 2)`. -/
def defWeight (custom : List (Str × Str)) : Nat := (custom.map fun e => 2 * e.2.length + 2).sum

/-- One step of the `for key, value in custom.items()` loop. -/
def customStep (env : CharEnv) (L : Lexicon) (acc : Custom) (kv : Str × Str) : M Custom :=
  let name := lower kv.1
  if !(Rx.isMatch env L.reCustom name) then .error { kind := .badCustomName, pattern := [], offset := 0 }
  else
    let key := lower (cssUnescape env L name)
    if acc.any (fun e => e.1 == key) then .error { kind := .customCollision, pattern := [], offset := 0 }
    else .ok (acc.set key (.src kv.2))

theorem processCustom_eq (env : CharEnv) (L : Lexicon) (custom : List (Str × Str)) :
    processCustom env L custom = custom.foldlM (customStep env L) [] := rfl

theorem customStep_error {env : CharEnv} {L : Lexicon} {acc : Custom} {kv : Str × Str} {e : Err}
    (h : customStep env L acc kv = .error e) :
    (e.kind = .badCustomName ∨ e.kind = .customCollision) ∧ e.pattern = [] ∧ e.offset = 0 := by
  unfold customStep at h
  simp only [] at h
  split at h
  · cases h; exact ⟨Or.inl rfl, rfl, rfl⟩
  · split at h
    · cases h; exact ⟨Or.inr rfl, rfl, rfl⟩
    · cases h

theorem customStep_ok {env : CharEnv} {L : Lexicon} {acc acc' : Custom} {kv : Str × Str}
    (hn : (keys acc).Nodup) (h : customStep env L acc kv = .ok acc') :
    W acc' ≤ W acc + (2 * kv.2.length + 2) ∧ (keys acc').Nodup := by
  unfold customStep at h
  simp only [] at h
  split at h
  · cases h
  · split at h
    · cases h
    · cases h
      exact ⟨W_set_le acc _ (.src kv.2) hn, keys_set_nodup acc _ _ hn⟩

theorem foldlM_customStep (env : CharEnv) (L : Lexicon) :
    ∀ (custom : List (Str × Str)) (acc : Custom), (keys acc).Nodup →
      match custom.foldlM (customStep env L) acc with
      | .error e => (e.kind = .badCustomName ∨ e.kind = .customCollision) ∧ e.pattern = [] ∧ e.offset = 0
      | .ok c => W c ≤ W acc + defWeight custom ∧ (keys c).Nodup
  | [], acc, hn => by
    simp only [List.foldlM_nil, defWeight, List.map_nil, List.sum_nil]
    exact ⟨Nat.le_refl _, hn⟩
  | kv :: rest, acc, hn => by
    rw [List.foldlM_cons]
    generalize hstep : customStep env L acc kv = r
    rcases r with e | acc'
    · exact customStep_error hstep
    · obtain ⟨hw, hn'⟩ := customStep_ok hn hstep
      have ih := foldlM_customStep env L rest acc' hn'
      show match (List.foldlM (customStep env L) acc' rest) with | .error e => _ | .ok c => _
      generalize List.foldlM (customStep env L) acc' rest = r at ih ⊢
      rcases r with e | c
      · exact ih
      · refine ⟨?_, ih.2⟩
        have := ih.1
        simp only [defWeight, List.map_cons, List.sum_cons] at this ⊢
        omega

theorem processCustom_error {env : CharEnv} {L : Lexicon} {custom : List (Str × Str)} {e : Err}
    (h : processCustom env L custom = .error e) :
    (e.kind = .badCustomName ∨ e.kind = .customCollision) ∧ e.pattern = [] ∧ e.offset = 0 := by
  have := foldlM_customStep env L custom [] List.nodup_nil
  rw [← processCustom_eq, h] at this
  exact this

theorem processCustom_ok {env : CharEnv} {L : Lexicon} {custom : List (Str × Str)} {c : Custom}
    (h : processCustom env L custom = .ok c) : W c ≤ defWeight custom := by
  have := foldlM_customStep env L custom [] List.nodup_nil
  rw [← processCustom_eq, h] at this
  simpa [W] using this.1

theorem foldl_len (custom : List (Str × Str)) : ∀ a : Nat,
    2 * custom.foldl (fun n e => n + e.2.length + 2) a = 2 * a + defWeight custom + 2 * custom.length := by
  induction custom with
  | nil => intro a; simp [defWeight]
  | cons e rest ih =>
    intro a
    have := ih (a + e.2.length + 2)
    simp only [List.foldl_cons, defWeight, List.map_cons, List.sum_cons, List.length_cons] at this ⊢
    omega

theorem defWeight_le_allotted (custom : List (Str × Str)) :
    defWeight custom ≤ 4 * custom.foldl (fun n e => n + e.2.length + 2) 0 := by
  have := foldl_len custom 0
  omega

end ParserProgress
end SoupVerif
