/-
  Helper lemmas about `SoupVerif.Model.Inputs`: the tuple order `ltInts`, rescaling of
  `numVal`, and the `shape*` scanners against the declarative grammars of
  `SoupVerif.Spec.Calendar`.
-/
import SoupVerif.Spec.Calendar
import SoupVerif.Model.Inputs
namespace SoupVerif
namespace Inputs
open Spec

deriving instance DecidableEq for PVal

/-! ### Tuple order -/

theorem ltInts_cons (a b : Nat) (as bs : List Nat) :
    ltInts (a :: as) (b :: bs) = true ↔ a < b ∨ (a = b ∧ ltInts as bs = true) := by
  simp [ltInts]

theorem ltInts_irrefl (l : List Nat) : ltInts l l = false := by
  induction l with
  | nil => rfl
  | cons a as ih => simp [ltInts, ih]

theorem ltInts_trans {a b c : List Nat} (h1 : ltInts a b = true) (h2 : ltInts b c = true) :
    ltInts a c = true := by
  induction a generalizing b c with
  | nil =>
    cases b with
    | nil => simp [ltInts] at h1
    | cons y ys =>
      cases c with
      | nil => simp [ltInts] at h2
      | cons z zs => rfl
  | cons x xs ih =>
    cases b with
    | nil => simp [ltInts] at h1
    | cons y ys =>
      cases c with
      | nil => simp [ltInts] at h2
      | cons z zs =>
        rw [ltInts_cons] at h1 h2 ⊢
        rcases h1 with h1 | ⟨rfl, h1⟩
        · rcases h2 with h2 | ⟨rfl, h2⟩
          · left; omega
          · left; exact h1
        · rcases h2 with h2 | ⟨rfl, h2⟩
          · left; exact h2
          · right; exact ⟨rfl, ih h1 h2⟩

theorem ltInts_asymm {a b : List Nat} (h : ltInts a b = true) : ltInts b a = false := by
  cases h' : ltInts b a with
  | false => rfl
  | true => have := ltInts_trans h h'; rw [ltInts_irrefl] at this; cases this

/-- Tuple order is total (on all lists, in particular on equal-length ones). -/
theorem ltInts_total (a b : List Nat) : ltInts a b = true ∨ a = b ∨ ltInts b a = true := by
  induction a generalizing b with
  | nil => cases b with
    | nil => right; left; rfl
    | cons y ys => left; rfl
  | cons x xs ih =>
    cases b with
    | nil => right; right; rfl
    | cons y ys =>
      simp only [ltInts_cons, List.cons.injEq]
      rcases Nat.lt_trichotomy x y with h | rfl | h
      · left; left; exact h
      · rcases ih ys with h | rfl | h
        · left; right; exact ⟨rfl, h⟩
        · right; left; exact ⟨rfl, rfl⟩
        · right; right; right; exact ⟨rfl, h⟩
      · right; right; left; exact h

theorem ltInts3 (y1 m1 d1 y2 m2 d2 : Nat) :
    ltInts [y1, m1, d1] [y2, m2, d2] = true ↔
      (y1 < y2 ∨ (y1 = y2 ∧ (m1 < m2 ∨ (m1 = m2 ∧ d1 < d2)))) := by
  simp [ltInts]

theorem ltInts2 (a1 b1 a2 b2 : Nat) :
    ltInts [a1, b1] [a2, b2] = true ↔ (a1 < a2 ∨ (a1 = a2 ∧ b1 < b2)) := by
  simp [ltInts]

/-! ### Decimal numbers -/

theorem numVal_rescale (n : Bool) (m : Nat) (e b k : Int) (h1 : k ≤ b) (h2 : b ≤ e) :
    numVal n m e k = numVal n m e b * (10 : Int) ^ (b - k).toNat := by
  have he : (e - k).toNat = (e - b).toNat + (b - k).toNat := by omega
  unfold numVal
  simp only [he, Int.pow_add]
  cases n
  · simp only [Bool.false_eq_true, if_false, Int.mul_assoc]
  · simp only [if_true, Int.neg_mul, Int.mul_assoc]

/-! ### Shapes (the `RE_*` scanners) against the declarative grammars -/

theorem splitAt1_eq_some (c : Nat) (s a b : Str) :
    splitAt1 c s = some (a, b) ↔ s = a ++ c :: b ∧ c ∉ a := by
  induction s generalizing a with
  | nil => simp [splitAt1]
  | cons x xs ih =>
    unfold splitAt1
    by_cases hx : x = c
    · subst hx
      simp only [beq_self_eq_true, if_true, Option.some.injEq, Prod.mk.injEq]
      constructor
      · rintro ⟨rfl, rfl⟩; simp
      · rintro ⟨h1, h2⟩
        cases a with
        | nil => simp at h1; exact ⟨rfl, h1⟩
        | cons y ys => simp at h1 h2; omega
    · have hx' : (x == c) = false := by simp [hx]
      simp only [hx', Bool.false_eq_true, if_false, Option.map_eq_some_iff]
      constructor
      · rintro ⟨⟨a', b'⟩, h1, h2⟩
        simp only [Prod.mk.injEq] at h2
        obtain ⟨rfl, rfl⟩ := h2
        have := (ih a').1 h1
        refine ⟨by simp [this.1], ?_⟩
        simp only [List.mem_cons, not_or]
        exact ⟨fun h => hx h.symm, this.2⟩
      · rintro ⟨h1, h2⟩
        cases a with
        | nil => simp at h1; exact absurd h1.1 hx
        | cons y ys =>
          simp only [List.cons_append, List.cons.injEq] at h1
          obtain ⟨rfl, h1⟩ := h1
          simp only [List.mem_cons, not_or] at h2
          exact ⟨(ys, b), (ih ys).2 ⟨h1, h2.2⟩, rfl⟩

theorem isDigit_iff (c : Nat) : isDigit c = true ↔ digit c := by
  simp [isDigit, digit]

theorem all_isDigit_iff (s : Str) : s.all isDigit = true ↔ ∀ c ∈ s, digit c := by
  simp [List.all_eq_true, isDigit_iff]

theorem isYear_iff (s : Str) : isYear s = true ↔ 4 ≤ s.length ∧ ∀ c ∈ s, digit c := by
  simp [isYear, isDigit_iff]

theorem is2_iff (s : Str) : is2 s = true ↔ s.length = 2 ∧ ∀ c ∈ s, digit c := by
  simp [is2, isDigit_iff]

theorem foldl_digits (s : Str) (acc : Nat) :
    s.foldl (fun acc c => acc * 10 + (c - 48)) acc = acc * 10 ^ s.length + decimal s := by
  induction s generalizing acc with
  | nil => simp [decimal]
  | cons c cs ih =>
    simp only [List.foldl_cons, ih, List.length_cons, decimal, Nat.pow_succ]
    rw [Nat.add_mul, Nat.mul_assoc, Nat.mul_comm 10, Nat.add_assoc]

theorem digitsVal_eq (s : Str) : digitsVal s = decimal s := by
  simp [digitsVal, foldl_digits]

theorem not_mem_of_digits {s : Str} (h : ∀ c ∈ s, digit c) {x : Nat} (hx : x < 48 ∨ 57 < x) :
    x ∉ s := by
  intro hm
  have := h x hm
  unfold digit at this
  omega


theorem splitAt1_append {c : Nat} {a : Str} (b : Str) (h : c ∉ a) :
    splitAt1 c (a ++ c :: b) = some (a, b) := (splitAt1_eq_some c _ a b).2 ⟨rfl, h⟩

theorem shapeDate_iff (s : Str) (y m d : Nat) :
    shapeDate s = some (y, m, d) ↔ dateShape s y m d := by
  unfold shapeDate dateShape
  constructor
  · intro h
    cases h1 : splitAt1 45 s with
    | none => simp [h1] at h
    | some p =>
      obtain ⟨ys, r⟩ := p
      cases h2 : splitAt1 45 r with
      | none => simp [h1, h2] at h
      | some q =>
        obtain ⟨ms, ds⟩ := q
        simp [h1, h2] at h
        obtain ⟨⟨⟨hy, hm⟩, hd⟩, rfl, rfl, rfl⟩ := h
        rw [isYear_iff] at hy; rw [is2_iff] at hm hd
        have e1 := ((splitAt1_eq_some _ _ _ _).1 h1).1
        have e2 := ((splitAt1_eq_some _ _ _ _).1 h2).1
        exact ⟨ys, ms, ds, by rw [e1, e2], hy.2, hm.2, hd.2, hy.1, hm.1, hd.1,
          digitsVal_eq _, digitsVal_eq _, digitsVal_eq _⟩
  · rintro ⟨ys, ms, ds, rfl, hy, hm, hd, ly, lm, ld, rfl, rfl, rfl⟩
    have h1 := splitAt1_append (c := 45) (ms ++ 45 :: ds) (not_mem_of_digits hy (by omega))
    have h2 := splitAt1_append (c := 45) ds (not_mem_of_digits hm (by omega))
    have iy := (isYear_iff ys).2 ⟨ly, hy⟩
    have im := (is2_iff ms).2 ⟨lm, hm⟩
    have id := (is2_iff ds).2 ⟨ld, hd⟩
    simp [h1, h2, iy, im, id, digitsVal_eq]

theorem shapeMonth_iff (s : Str) (y m : Nat) :
    shapeMonth s = some (y, m) ↔ monthShape s y m := by
  unfold shapeMonth monthShape
  constructor
  · intro h
    cases h1 : splitAt1 45 s with
    | none => simp [h1] at h
    | some p =>
      obtain ⟨ys, ms⟩ := p
      simp [h1] at h
      obtain ⟨⟨hy, hm⟩, rfl, rfl⟩ := h
      rw [isYear_iff] at hy; rw [is2_iff] at hm
      have e1 := ((splitAt1_eq_some _ _ _ _).1 h1).1
      exact ⟨ys, ms, e1, hy.2, hm.2, hy.1, hm.1, digitsVal_eq _, digitsVal_eq _⟩
  · rintro ⟨ys, ms, rfl, hy, hm, ly, lm, rfl, rfl⟩
    have h1 := splitAt1_append (c := 45) ms (not_mem_of_digits hy (by omega))
    have iy := (isYear_iff ys).2 ⟨ly, hy⟩
    have im := (is2_iff ms).2 ⟨lm, hm⟩
    simp [h1, iy, im, digitsVal_eq]

theorem shapeWeek_iff (s : Str) (y w : Nat) :
    shapeWeek s = some (y, w) ↔ weekShape s y w := by
  unfold shapeWeek weekShape
  constructor
  · intro h
    cases h1 : splitAt1 45 s with
    | none => simp [h1] at h
    | some p =>
      obtain ⟨ys, r⟩ := p
      have e1 := ((splitAt1_eq_some _ _ _ _).1 h1).1
      simp only [h1, Option.bind_eq_bind, Option.bind_some] at h
      split at h
      · rename_i ws
        simp at h
        obtain ⟨⟨hy, hw⟩, rfl, rfl⟩ := h
        rw [isYear_iff] at hy; rw [is2_iff] at hw
        exact ⟨ys, ws, e1, hy.2, hw.2, hy.1, hw.1, digitsVal_eq _, digitsVal_eq _⟩
      · cases h
  · rintro ⟨ys, ws, rfl, hy, hw, ly, lw, rfl, rfl⟩
    have h1 := splitAt1_append (c := 45) (87 :: ws) (not_mem_of_digits hy (by omega))
    have iy := (isYear_iff ys).2 ⟨ly, hy⟩
    have iw := (is2_iff ws).2 ⟨lw, hw⟩
    simp [h1, iy, iw, digitsVal_eq]

theorem shapeTime_iff (s : Str) (h mi : Nat) :
    shapeTime s = some (h, mi) ↔ timeShape s h mi := by
  unfold shapeTime timeShape
  constructor
  · intro hh
    cases h1 : splitAt1 58 s with
    | none => simp [h1] at hh
    | some p =>
      obtain ⟨hs, ms⟩ := p
      simp [h1] at hh
      obtain ⟨⟨hy, hm⟩, rfl, rfl⟩ := hh
      rw [is2_iff] at hy hm
      have e1 := ((splitAt1_eq_some _ _ _ _).1 h1).1
      exact ⟨hs, ms, e1, hy.2, hm.2, hy.1, hm.1, digitsVal_eq _, digitsVal_eq _⟩
  · rintro ⟨hs, ms, rfl, hy, hm, ly, lm, rfl, rfl⟩
    have h1 := splitAt1_append (c := 58) ms (not_mem_of_digits hy (by omega))
    have iy := (is2_iff hs).2 ⟨ly, hy⟩
    have im := (is2_iff ms).2 ⟨lm, hm⟩
    simp [h1, iy, im, digitsVal_eq]

theorem dateShape_no_T {s : Str} {y m d : Nat} (h : dateShape s y m d) : 84 ∉ s := by
  obtain ⟨ys, ms, ds, rfl, hy, hm, hd, -⟩ := h
  have a := not_mem_of_digits hy (x := 84) (by omega)
  have b := not_mem_of_digits hm (x := 84) (by omega)
  have c := not_mem_of_digits hd (x := 84) (by omega)
  simp [a, b, c]

theorem shapeDateTime_iff (s : Str) (y m d h mi : Nat) :
    shapeDateTime s = some (y, m, d, h, mi) ↔ dateTimeShape s y m d h mi := by
  unfold shapeDateTime dateTimeShape
  constructor
  · intro hh
    cases h1 : splitAt1 84 s with
    | none => simp [h1] at hh
    | some p =>
      obtain ⟨ds, ts⟩ := p
      have e1 := ((splitAt1_eq_some _ _ _ _).1 h1).1
      cases h2 : shapeDate ds with
      | none => simp [h1, h2] at hh
      | some q =>
        obtain ⟨y', m', d'⟩ := q
        cases h3 : shapeTime ts with
        | none => simp [h1, h2, h3] at hh
        | some r =>
          obtain ⟨h', mi'⟩ := r
          simp [h1, h2, h3] at hh
          obtain ⟨rfl, rfl, rfl, rfl, rfl⟩ := hh
          exact ⟨ds, ts, e1, (shapeDate_iff _ _ _ _).1 h2, (shapeTime_iff _ _ _).1 h3⟩
  · rintro ⟨ds, ts, rfl, hd, ht⟩
    have h1 := splitAt1_append (c := 84) ts (dateShape_no_T hd)
    have h2 := (shapeDate_iff _ _ _ _).2 hd
    have h3 := (shapeTime_iff _ _ _).2 ht
    simp [h1, h2, h3]

/-! ### Distinctness of the `type` keywords, and a small `Option` fact -/

theorem ne_month_date : ("month".toStr == "date".toStr) = false := by decide
theorem ne_week_date : ("week".toStr == "date".toStr) = false := by decide
theorem ne_week_month : ("week".toStr == "month".toStr) = false := by decide
theorem ne_time_date : ("time".toStr == "date".toStr) = false := by decide
theorem ne_time_month : ("time".toStr == "month".toStr) = false := by decide
theorem ne_time_week : ("time".toStr == "week".toStr) = false := by decide
theorem ne_dt_date : ("datetime-local".toStr == "date".toStr) = false := by decide
theorem ne_dt_month : ("datetime-local".toStr == "month".toStr) = false := by decide
theorem ne_dt_week : ("datetime-local".toStr == "week".toStr) = false := by decide
theorem ne_dt_time : ("datetime-local".toStr == "time".toStr) = false := by decide
theorem ne_num_date : ("number".toStr == "date".toStr) = false := by decide
theorem ne_num_month : ("number".toStr == "month".toStr) = false := by decide
theorem ne_num_week : ("number".toStr == "week".toStr) = false := by decide
theorem ne_num_time : ("number".toStr == "time".toStr) = false := by decide
theorem ne_num_dt : ("number".toStr == "datetime-local".toStr) = false := by decide
theorem ne_rng_date : ("range".toStr == "date".toStr) = false := by decide
theorem ne_rng_month : ("range".toStr == "month".toStr) = false := by decide
theorem ne_rng_week : ("range".toStr == "week".toStr) = false := by decide
theorem ne_rng_time : ("range".toStr == "time".toStr) = false := by decide
theorem ne_rng_dt : ("range".toStr == "datetime-local".toStr) = false := by decide

theorem some_ints_eq (l : List Nat) (v : PVal) :
    (some (PVal.ints l) = some v) ↔ v = .ints l := by
  constructor
  · intro h; exact (Option.some.inj h).symm
  · intro h; rw [h]

end Inputs
end SoupVerif
