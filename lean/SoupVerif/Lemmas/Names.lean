/-
  Helper lemmas for properties C11 (case rules) and C12 (namespace selectors):
  string constants, `lower`, the name comparison `nameEq`, `List.find?` congruence, and the
  branch-by-branch normal forms of `matchAttributeName` (first designated attribute) and
  `matchAttributeValues` (every designated attribute).
-/
import SoupVerif.Model.Api
namespace SoupVerif
namespace Names

/-! ### String constants -/

@[simp] theorem star_toStr : ("*".toStr : Str) = [42] := by decide
theorem star_ne_nil : ("*".toStr : Str) ≠ [] := by decide

/-! ### `lower` -/

theorem lowerCp_idem (c : Nat) : lowerCp (lowerCp c) = lowerCp c := by
  unfold lowerCp
  split
  · split
    · omega
    · rfl
  · rfl

theorem lower_idem (s : Str) : lower (lower s) = lower s := by
  simp [lower, lowerCp_idem]

theorem lowerCp_eq_42 (c : Nat) : lowerCp c = 42 ↔ c = 42 := by
  unfold lowerCp
  split <;> omega

theorem lower_nil : lower [] = [] := rfl
theorem lower_cons (x : Nat) (s : Str) : lower (x :: s) = lowerCp x :: lower s := rfl

theorem lower_eq_nil (s : Str) : lower s = [] ↔ s = [] := by
  cases s <;> simp [lower]

theorem lower_eq_star (s : Str) : lower s = [42] ↔ s = [42] := by
  match s with
  | [] => simp [lower]
  | [x] => simp [lower, lowerCp_eq_42]
  | _ :: _ :: _ => simp [lower]

theorem lower_length (s : Str) : (lower s).length = s.length := by simp [lower]

/-- ASCII-case-insensitive equality of two strings. -/
def caseEq (a b : Str) : Prop := lower a = lower b

instance (a b : Str) : Decidable (caseEq a b) := inferInstanceAs (Decidable (lower a = lower b))

theorem caseEq_equivalence : Equivalence caseEq :=
  ⟨fun _ => rfl, fun h => h.symm, fun h₁ h₂ => h₁.trans h₂⟩

theorem caseEq_lower (s : Str) : caseEq (lower s) s := lower_idem s

/-! ### Name comparison following the document type -/

/-- How the matcher compares a selector-side name with a document-side name:
    exact in XML (incl. XHTML parsed as XML), ASCII-case-insensitive otherwise. -/
def nameEq (c : Ctx) (a b : Str) : Bool := if c.isXml then a == b else lower a == lower b

theorem nameEq_iff (c : Ctx) (a b : Str) :
    nameEq c a b = true ↔ (if c.isXml then a = b else lower a = lower b) := by
  unfold nameEq; split <;> simp

theorem nameEq_xml {c : Ctx} (h : c.isXml = true) (a b : Str) : nameEq c a b = (a == b) := by
  simp [nameEq, h]

theorem nameEq_html {c : Ctx} (h : c.isXml = false) (a b : Str) :
    nameEq c a b = (lower a == lower b) := by
  simp [nameEq, h]

/-- The local name of a `NamespacedAttribute` key equals `a` (false for a plain `str` key,
    whose `name` is `None`). -/
def localNameEq (c : Ctx) (a : Str) (x : Attr) : Bool :=
  match x.kname with
  | some nm => nameEq c a nm
  | none => false

theorem localNameEq_iff (c : Ctx) (a : Str) (x : Attr) :
    localNameEq c a x = true ↔ ∃ nm, x.kname = some nm ∧ nameEq c a nm = true := by
  unfold localNameEq; cases x.kname <;> simp

/-! ### `find?` congruence -/

theorem find?_congr {α} {p q : α → Bool} (l : List α) (h : ∀ x ∈ l, p x = q x) :
    l.find? p = l.find? q := by
  induction l with
  | nil => rfl
  | cons x xs ih =>
    simp only [List.find?_cons, h x (List.mem_cons_self ..)]
    rw [ih (fun y hy => h y (List.mem_cons_of_mem _ hy))]

/-- Two lists of the same length whose elements are pairwise related (core Lean has no
    `List.Forall₂`). -/
inductive Pairwise₂ {α} (R : α → α → Prop) : List α → List α → Prop
  | nil : Pairwise₂ R [] []
  | cons {a b l₁ l₂} : R a b → Pairwise₂ R l₁ l₂ → Pairwise₂ R (a :: l₁) (b :: l₂)

/-- `find?` followed by a projection on two lists related element-wise. -/
theorem find?_map_pairwise₂ {α β} {R : α → α → Prop} {p q : α → Bool} {f : α → β}
    (hp : ∀ x y, R x y → p x = q y) (hf : ∀ x y, R x y → f x = f y) :
    ∀ {l₁ l₂ : List α}, Pairwise₂ R l₁ l₂ → (l₁.find? p).map f = (l₂.find? q).map f := by
  intro l₁ l₂ h
  induction h with
  | nil => rfl
  | @cons a b _ _ hab _ ih =>
    simp only [List.find?_cons, hp a b hab]
    cases q b
    · exact ih
    · simp [hf a b hab]

/-! ### `Ctx` facts -/

theorem supportsNamespaces_of_xml {c : Ctx} (h : c.isXml = true) : c.supportsNamespaces = true := by
  simp [Ctx.supportsNamespaces, h]

/-! ### Normal forms of `matchAttributeName`, one per branch -/

/-- The value projection of `matchAttributeName`. -/
abbrev valOf (x : Attr) : NVal := normalizeValue x.val

/-- No namespace support: the prefix is ignored, the whole key is compared case-insensitively. -/
theorem man_no_ns {c : Ctx} (h : c.supportsNamespaces = false) (e : Elem) (a p : Str) :
    matchAttributeName c e a p = (e.attrs.find? (fun x => lower a == lower x.key)).map valOf := by
  simp [matchAttributeName, h]

/-- Empty prefix (`[a]`, `[|a]`): whole-key comparison. -/
theorem man_bare {c : Ctx} (h : c.supportsNamespaces = true) (e : Elem) (a : Str) :
    matchAttributeName c e a [] = (e.attrs.find? (fun x => nameEq c a x.key)).map valOf := by
  simp [matchAttributeName, h, nameEq]

/-- Non-empty, non-`*`, unmapped prefix: early `return None`. -/
theorem man_unmapped {c : Ctx} (h : c.supportsNamespaces = true) (e : Elem) (a p : Str)
    (hp : p ≠ []) (hs : p ≠ "*".toStr) (hm : c.nsGet p = none) :
    matchAttributeName c e a p = none := by
  rw [star_toStr] at hs
  simp [matchAttributeName, h, hp, hs, hm]

/-- Non-empty, non-`*`, mapped prefix: namespace URI and local name are compared. -/
theorem man_ns {c : Ctx} (h : c.supportsNamespaces = true) (e : Elem) (a p u : Str)
    (hp : p ≠ []) (hs : p ≠ "*".toStr) (hm : c.nsGet p = some u) (hu0 : u ≠ []) :
    matchAttributeName c e a p =
      (e.attrs.find? (fun x => x.kns == some u && localNameEq c a x)).map valOf := by
  rw [star_toStr] at hs
  simp only [matchAttributeName, h, hm, if_true, star_toStr]
  have hpe : p.isEmpty = false := by cases p <;> simp_all
  have hst : (p == [42]) = false := by simpa using hs
  have hue : u.isEmpty = false := by cases u <;> simp_all
  simp only [hpe, hst, Bool.not_false, if_true, nsFalsy_some, hue]
  congr 1
  apply find?_congr
  intro x _
  cases hk : x.kns with
  | none => simp
  | some kn =>
    by_cases hu : u = kn
    · subst hu; simp [localNameEq, nameEq]; rfl
    · have : kn ≠ u := fun h => hu h.symm
      simp [hu, this]

/-- Non-empty, non-`*` prefix mapped to the EMPTY string (fix 3a64a82): the prefix designates
    "no namespace", the whole key is compared exactly as for `[a]` / `[|a]`. -/
theorem man_ns_empty {c : Ctx} (h : c.supportsNamespaces = true) (e : Elem) (a p : Str)
    (hp : p ≠ []) (hs : p ≠ "*".toStr) (hm : c.nsGet p = some []) :
    matchAttributeName c e a p = (e.attrs.find? (fun x => nameEq c a x.key)).map valOf := by
  rw [star_toStr] at hs
  have hpe : p.isEmpty = false := by cases p <;> simp_all
  have hst : (p == [42]) = false := by simpa using hs
  simp [matchAttributeName, h, hm, hpe, hst, nameEq]

/-- `*` prefix: the mapping of `*` (if any) is irrelevant. -/
theorem man_star {c : Ctx} (h : c.supportsNamespaces = true) (e : Elem) (a : Str) :
    matchAttributeName c e a "*".toStr =
      (e.attrs.find? (fun x => (x.kns.isNone && nameEq c a x.key) ||
        (x.kns.isSome && localNameEq c a x))).map valOf := by
  simp only [matchAttributeName, h, if_true, star_toStr]
  have hpe : ([42] : Str).isEmpty = false := rfl
  simp only [hpe, Bool.not_false, if_true, bne_self_eq_false, Bool.false_eq_true, if_false,
    beq_self_eq_true]
  cases c.nsGet [42] <;>
  · dsimp only
    congr 1
    apply find?_congr
    intro x _
    cases hk : x.kns
    · simp [nameEq]
    · simp [localNameEq, nameEq]; rfl

/-! ### Normal forms of `matchAttributeValues` (every designated attribute), one per branch

  Same predicates as above with `List.filter` in place of `List.find?`; `matchAttributeName` is the
  head of `matchAttributeValues` (`matchAttributeName_eq_head?`). -/

/-- `filter` followed by a projection on two lists related element-wise. -/
theorem filter_map_pairwise₂ {α β} {R : α → α → Prop} {p q : α → Bool} {f : α → β}
    (hp : ∀ x y, R x y → p x = q y) (hf : ∀ x y, R x y → f x = f y) :
    ∀ {l₁ l₂ : List α}, Pairwise₂ R l₁ l₂ → (l₁.filter p).map f = (l₂.filter q).map f := by
  intro l₁ l₂ h
  induction h with
  | nil => rfl
  | @cons a b _ _ hab _ ih =>
    simp only [List.filter_cons, hp a b hab]
    cases q b
    · exact ih
    · simp [hf a b hab, ih]

theorem mav_no_ns {c : Ctx} (h : c.supportsNamespaces = false) (e : Elem) (a p : Str) :
    matchAttributeValues c e a p = (e.attrs.filter (fun x => lower a == lower x.key)).map valOf := by
  simp [matchAttributeValues, h]

theorem mav_bare {c : Ctx} (h : c.supportsNamespaces = true) (e : Elem) (a : Str) :
    matchAttributeValues c e a [] = (e.attrs.filter (fun x => nameEq c a x.key)).map valOf := by
  simp [matchAttributeValues, h, nameEq]

theorem mav_unmapped {c : Ctx} (h : c.supportsNamespaces = true) (e : Elem) (a p : Str)
    (hp : p ≠ []) (hs : p ≠ "*".toStr) (hm : c.nsGet p = none) :
    matchAttributeValues c e a p = [] := by
  rw [star_toStr] at hs
  simp [matchAttributeValues, h, hp, hs, hm]

theorem mav_ns {c : Ctx} (h : c.supportsNamespaces = true) (e : Elem) (a p u : Str)
    (hp : p ≠ []) (hs : p ≠ "*".toStr) (hm : c.nsGet p = some u) (hu0 : u ≠ []) :
    matchAttributeValues c e a p =
      (e.attrs.filter (fun x => x.kns == some u && localNameEq c a x)).map valOf := by
  rw [star_toStr] at hs
  simp only [matchAttributeValues, h, hm, if_true, star_toStr]
  have hpe : p.isEmpty = false := by cases p <;> simp_all
  have hst : (p == [42]) = false := by simpa using hs
  have hue : u.isEmpty = false := by cases u <;> simp_all
  simp only [hpe, hst, Bool.not_false, if_true, nsFalsy_some, hue]
  congr 1
  apply List.filter_congr
  intro x _
  cases hk : x.kns with
  | none => simp
  | some kn =>
    by_cases hu : u = kn
    · subst hu; simp [localNameEq, nameEq]; rfl
    · have : kn ≠ u := fun h => hu h.symm
      simp [hu, this]

/-- Non-empty, non-`*` prefix mapped to the EMPTY string (fix 3a64a82): the prefix designates
    "no namespace", the whole key is compared exactly as for `[a]` / `[|a]`. -/
theorem mav_ns_empty {c : Ctx} (h : c.supportsNamespaces = true) (e : Elem) (a p : Str)
    (hp : p ≠ []) (hs : p ≠ "*".toStr) (hm : c.nsGet p = some []) :
    matchAttributeValues c e a p = (e.attrs.filter (fun x => nameEq c a x.key)).map valOf := by
  rw [star_toStr] at hs
  have hpe : p.isEmpty = false := by cases p <;> simp_all
  have hst : (p == [42]) = false := by simpa using hs
  simp [matchAttributeValues, h, hm, hpe, hst, nameEq]

theorem mav_star {c : Ctx} (h : c.supportsNamespaces = true) (e : Elem) (a : Str) :
    matchAttributeValues c e a "*".toStr =
      (e.attrs.filter (fun x => (x.kns.isNone && nameEq c a x.key) ||
        (x.kns.isSome && localNameEq c a x))).map valOf := by
  simp only [matchAttributeValues, h, if_true, star_toStr]
  have hpe : ([42] : Str).isEmpty = false := rfl
  simp only [hpe, Bool.not_false, if_true, bne_self_eq_false, Bool.false_eq_true, if_false,
    beq_self_eq_true]
  cases c.nsGet [42] <;>
  · dsimp only
    congr 1
    apply List.filter_congr
    intro x _
    cases hk : x.kns
    · simp [nameEq]
    · simp [localNameEq, nameEq]; rfl

end Names
end SoupVerif
