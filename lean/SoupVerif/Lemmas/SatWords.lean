/-
  The model's word splitter (`splitWs`, Python `str.split` restricted to CSS white space) against
  the specification's word test (`Css.hasWord`, Selectors-4 §6.1 `[att~=v]`).
-/
import SoupVerif.Spec.CssValue
namespace SoupVerif
namespace SatWords
open Css

theorem wordHere_nil_left (s : Str) :
    wordHere [] s = (match s with | [] => true | c :: _ => isCssWs c) := by
  cases s <;> simp [wordHere]

theorem wordHere_cons_nil (d : Nat) (p : Str) : wordHere (d :: p) [] = false := by
  simp [wordHere]

theorem wordHere_cons_cons (d c : Nat) (p cs : Str) :
    wordHere (d :: p) (c :: cs) = (d == c && wordHere p cs) := by
  simp [wordHere, List.isPrefixOf, Bool.and_assoc]

theorem wordHere_nil_right (p : Str) : wordHere p [] = true ↔ p = [] := by
  cases p <;> simp [wordHere]

theorem hasWordFrom_true (v s : Str) :
    hasWordFrom v true s = (wordHere v s || hasWordFrom v false s) := by
  cases s <;> simp [hasWordFrom]

theorem hasWordFrom_false_cons (v : Str) (c : Nat) (cs : Str) :
    hasWordFrom v false (c :: cs) = hasWordFrom v (isCssWs c) cs := by
  simp [hasWordFrom]

/-- Every word produced by the splitter is non-empty and white-space free. -/
theorem go_mem_shape (v : Str) : ∀ (s cur : Str), (∀ c ∈ cur, isCssWs c = false) →
    v ∈ splitWs.go s cur → v ≠ [] ∧ ∀ c ∈ v, isCssWs c = false := by
  intro s
  induction s with
  | nil =>
    intro cur hcur hv
    cases cur with
    | nil => simp [splitWs.go] at hv
    | cons d cur =>
      simp only [splitWs.go, List.isEmpty_cons, Bool.false_eq_true, if_false,
        List.mem_singleton] at hv
      subst hv
      refine ⟨by simp, ?_⟩
      intro c hc
      exact hcur c (List.mem_reverse.mp hc)
  | cons c cs ih =>
    intro cur hcur hv
    by_cases hc : isCssWs c = true
    · cases cur with
      | nil =>
        simp only [splitWs.go, hc, if_true, List.isEmpty_nil] at hv
        exact ih [] (by simp) hv
      | cons d cur =>
        simp only [splitWs.go, hc, if_true, List.isEmpty_cons, Bool.false_eq_true, if_false,
          List.mem_cons] at hv
        rcases hv with hv | hv
        · subst hv
          refine ⟨by simp, ?_⟩
          intro x hx
          exact hcur x (List.mem_reverse.mp hx)
        · exact ih [] (by simp) hv
    · simp only [splitWs.go, hc, Bool.false_eq_true, if_false] at hv
      refine ih (c :: cur) ?_ hv
      intro x hx
      rcases List.mem_cons.mp hx with rfl | hx
      · simpa using hc
      · exact hcur x hx

/-- Joint invariant of the two scanners: `cur` is the (reversed) word in progress. -/
theorem go_mem_iff (v : Str) (hne : v ≠ []) (hv : ∀ c ∈ v, isCssWs c = false) :
    ∀ (s cur : Str), v ∈ splitWs.go s cur ↔
      ((∃ p, v = cur.reverse ++ p ∧ wordHere p s = true) ∨ hasWordFrom v false s = true) := by
  intro s
  induction s with
  | nil =>
    intro cur
    have h2 : hasWordFrom v false [] = false := by simp [hasWordFrom]
    simp only [h2, Bool.false_eq_true, or_false, wordHere_nil_right]
    cases cur with
    | nil =>
      simp only [splitWs.go, List.isEmpty_nil, if_true, List.not_mem_nil, false_iff]
      rintro ⟨p, rfl, rfl⟩
      exact hne rfl
    | cons d cur =>
      simp only [splitWs.go, List.isEmpty_cons, Bool.false_eq_true, if_false, List.mem_singleton]
      constructor
      · intro h; exact ⟨[], by simpa using h, rfl⟩
      · rintro ⟨p, h, rfl⟩; simpa using h
  | cons c cs ih =>
    intro cur
    by_cases hc : isCssWs c = true
    · -- a separator: the word in progress ends here
      have hfirst : (∃ p, v = cur.reverse ++ p ∧ wordHere p (c :: cs) = true) ↔
          v = cur.reverse := by
        constructor
        · rintro ⟨p, h, hw⟩
          cases p with
          | nil => simpa using h
          | cons d p =>
            rw [wordHere_cons_cons] at hw
            simp only [Bool.and_eq_true, beq_iff_eq] at hw
            have : isCssWs d = false := hv d (by rw [h]; simp)
            rw [hw.1, hc] at this
            exact absurd this (by simp)
        · intro h
          exact ⟨[], by simpa using h, by simp [wordHere_nil_left, hc]⟩
      rw [hfirst, hasWordFrom_false_cons, hc, hasWordFrom_true]
      have ih0 := ih []
      simp only [List.reverse_nil, List.nil_append, exists_eq_left'] at ih0
      cases cur with
      | nil =>
        simp only [splitWs.go, hc, if_true, List.isEmpty_nil, List.reverse_nil]
        rw [ih0]
        simp [hne]
      | cons d cur =>
        simp only [splitWs.go, hc, if_true, List.isEmpty_cons, Bool.false_eq_true, if_false,
          List.mem_cons]
        rw [ih0]
        simp
    · -- an ordinary character: the word in progress grows
      have hc' : isCssWs c = false := by simpa using hc
      simp only [splitWs.go, hc, Bool.false_eq_true, if_false]
      rw [ih (c :: cur), hasWordFrom_false_cons, hc']
      apply or_congr_left
      constructor
      · rintro ⟨p, h, hw⟩
        refine ⟨c :: p, by simpa using h, ?_⟩
        simp [wordHere_cons_cons, hw]
      · rintro ⟨p, h, hw⟩
        cases p with
        | nil =>
          rw [wordHere_nil_left] at hw
          simp [hc'] at hw
        | cons d p =>
          rw [wordHere_cons_cons] at hw
          simp only [Bool.and_eq_true, beq_iff_eq] at hw
          obtain ⟨rfl, hw⟩ := hw
          exact ⟨p, by simpa using h, hw⟩

/-- The words of `splitWs s` are exactly the non-empty, white-space free `v` with
    `Css.hasWord v s`. -/
theorem mem_splitWs_iff (v s : Str) :
    v ∈ splitWs s ↔ v ≠ [] ∧ (∀ c ∈ v, isCssWs c = false) ∧ Css.hasWord v s = true := by
  unfold splitWs
  constructor
  · intro h
    obtain ⟨hne, hv⟩ := go_mem_shape v s [] (by simp) h
    refine ⟨hne, hv, ?_⟩
    have := (go_mem_iff v hne hv s []).mp h
    simpa [hasWord, hasWordFrom_true] using this
  · rintro ⟨hne, hv, h⟩
    apply (go_mem_iff v hne hv s []).mpr
    simpa [hasWord, hasWordFrom_true] using h

theorem splitWs_contains (v s : Str) :
    (splitWs s).contains v = (!v.isEmpty && !v.any isCssWs && Css.hasWord v s) := by
  rw [Bool.eq_iff_iff, List.contains_iff_mem, mem_splitWs_iff]
  simp [and_assoc]

example : (splitWs "a  bc\td".toStr).contains "bc".toStr = true := by decide
example : (splitWs "a  bc\td".toStr).contains "b".toStr = false := by decide
example : Css.hasWord "a b".toStr "a b".toStr = true := by decide

end SatWords
end SoupVerif
