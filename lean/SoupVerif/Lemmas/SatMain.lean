/-
  The induction behind `Properties/C01Sat`: the matcher on the compiled IR equals the meaning of
  the selector, for every constructor of the C01 grammar.
-/
import SoupVerif.Lemmas.SatParts
namespace SoupVerif
namespace SatMain
open Css SatTree SatCore SatLeaf SatNth SatParts

/-- Side conditions, per simple selector, under which matcher and meaning agree:
    * `#v`, `:not(L)` are grammatical (`v`, `L` non-empty);
    * a case-insensitive attribute comparison needs the regex engine's case folding to be the
      ASCII one (`lowerCp`);
    * `:root` needs the matcher's notion of root to agree with "has no parent element" on the
      locations of interest (`P`). -/
def Good (c : Ctx) (P : Loc → Prop) : Simple → Prop
  | .id v => v ≠ []
  | .neg L => L ≠ []
  | .attr _ name (some t) => caseInsensitive c name t.flag = true → c.env.fold = lowerCp
  | .root => ∀ l, P l → isElem l = true → matchRoot c l = isRootElem l
  | _ => True

variable {c : Ctx} {P : Loc → Prop}

theorem isElem_of_focus {l : Loc} {e : Elem} {kids : List Node} (hf : l.focus = .elem e kids) :
    isElem l = true := by
  simp [isElem, hf, Node.isTag]

theorem compileSels_isEmpty (L : List Complex) : (compileSels L).isEmpty = L.isEmpty := by
  cases L <;> simp [compileSels]

theorem matchSel_null (c : Ctx) (l : Loc) (e : Elem) : matchSel c l e .null = false := by
  unfold matchSel; rfl

/-- `any` over one of the spec's sets, transported through the induction hypothesis. -/
theorem any_left (hP : Closed P) (k : Comb) (l : Loc) (hl : P l) (f g : Loc → Bool)
    (h : ∀ t, P t → isElem t = true → f t = g t) : (leftOf k l).any f = (leftOf k l).any g :=
  any_congr_mem _ _ _ fun t ht => h t (hP.leftOf k l t hl ht) (leftOf_isElem k l t ht)

theorem any_right (hP : Closed P) (k : Comb) (l : Loc) (hl : P l) (f g : Loc → Bool)
    (h : ∀ t, P t → isElem t = true → f t = g t) : (rightOf k l).any f = (rightOf k l).any g :=
  any_congr_mem _ _ _ fun t ht => h t (hP.rightOf k l t hl ht) (rightOf_isElem k l t ht)

theorem compileCompound_relType (cp : Compound) (relation : SelList) (rt : Rel) :
    (compileCompound cp relation rt).relType = rt := by
  cases cp
  simp only [compileCompound, Parts.toSel, Sel.relType]

theorem compileRT_relType (x : Complex) (rt : Rel) : (compileRT x rt).relType = rt := by
  cases x <;> simp only [compileRT, compileCompound_relType]

theorem compileFwd_relType : ∀ (x : Complex) (rt : Rel) (tail : SelList),
    (compileFwd x rt tail).relType = rt
  | .one cp, rt, tail => by simp only [compileFwd, compileCompound_relType]
  | .comb L k R, rt, tail => by
    simp only [compileFwd]
    exact compileFwd_relType L _ _

set_option linter.unusedSectionVars false

section
variable (hP : Closed P) (hifr : c.iframeRestrict = false) (hT : TemplatesOk c.env)
include hP hifr hT

mutual
theorem simple_ok (s : Simple) (hg : Good c P s) (ha : s.All (Good c P))
    (l : Loc) (e : Elem) (kids : List Node) (hf : l.focus = .elem e kids) (hl : P l)
    (p : Parts) (hp : p.flags < 4) :
    (addSimple p s).flags < 4 ∧
      partsOk c l e (addSimple p s) = (partsOk c l e p && satSimple c l e s) := by
  cases s with
  | id v =>
    refine ⟨hp, ?_⟩
    simp only [addSimple, satSimple]
    rw [partsOk_ids, id_single c e v hg]
  | cls v =>
    refine ⟨hp, ?_⟩
    simp only [addSimple, satSimple]
    rw [partsOk_classes, class_single]
  | attr ns name test =>
    cases test with
    | none =>
      refine ⟨hp, ?_⟩
      simp only [addSimple, satSimple, Bool.false_eq_true, if_false]
      rw [partsOk_attrs, attr_presence]
    | some t =>
      cases hop : (t.op == AttrOp.ne) with
      | true =>
        refine ⟨by simp only [addSimple, hop, if_true]; exact hp, ?_⟩
        simp only [addSimple, satSimple, hop, if_true]
        rw [partsOk_subs, attr_ne_sub, attr_neg c e ns name t hT hg hop]
      | false =>
        refine ⟨by simp only [addSimple, hop, Bool.false_eq_true, if_false]; exact hp, ?_⟩
        simp only [addSimple, satSimple, hop, Bool.false_eq_true, if_false]
        rw [partsOk_attrs, attr_pos c e ns name t hT hg hop]
  | neg L =>
    refine ⟨hp, ?_⟩
    simp only [addSimple, satSimple]
    rw [partsOk_subs, matchList_neg]
    simp only [Bool.not_false, Bool.true_or, Bool.true_and, Bool.false_eq_true, if_false]
    rw [sels_ok L ha l e kids hf hl, compileSels_isEmpty]
    have : L.isEmpty = false := by
      cases L with
      | nil => exact absurd rfl hg
      | cons x r => rfl
    simp [this]
  | is L =>
    refine ⟨hp, ?_⟩
    simp only [addSimple, satSimple]
    rw [partsOk_subs, matchList_pos]
    cases L with
    | nil => simp [matchAny_cons, matchAny_nil, matchSel_null, satAny]
    | cons x r =>
      simp only [Bool.not_false, Bool.true_or, Bool.true_and, Bool.false_eq_true, if_false]
      rw [sels_ok (x :: r) ha l e kids hf hl]
  | has L =>
    refine ⟨hp, ?_⟩
    simp only [addSimple, satSimple]
    rw [partsOk_subs, matchList_pos]
    simp only [Bool.not_false, Bool.true_or, Bool.true_and, Bool.false_eq_true, if_false]
    rw [rels_ok L ha l e kids hf hl]
  | root =>
    refine ⟨(flags_or_root p.flags hp).1, ?_⟩
    simp only [addSimple, satSimple]
    rw [partsOk_root c l e p hp, hg l hl (isElem_of_focus hf)]
  | empty =>
    refine ⟨(flags_or_empty p.flags hp).1, ?_⟩
    simp only [addSimple, satSimple]
    rw [partsOk_empty c l e p hp, empty_eq]
  | firstChild =>
    refine ⟨hp, ?_⟩
    simp only [addSimple, satSimple]
    rw [partsOk_nth, matchNths_one, nth_first c l e kids hf]
    simp [any_true_eq]
  | lastChild =>
    refine ⟨hp, ?_⟩
    simp only [addSimple, satSimple]
    rw [partsOk_nth, matchNths_one, nth_last c l e kids hf]
    simp [any_true_eq]
  | onlyChild =>
    refine ⟨hp, ?_⟩
    simp only [addSimple, satSimple]
    rw [partsOk_nth, matchNths_two, nth_first c l e kids hf, nth_last c l e kids hf]
    simp [any_true_eq]
  | firstOfType =>
    refine ⟨hp, ?_⟩
    simp only [addSimple, satSimple]
    rw [partsOk_nth, matchNths_one, nth_first c l e kids hf]
    simp
  | lastOfType =>
    refine ⟨hp, ?_⟩
    simp only [addSimple, satSimple]
    rw [partsOk_nth, matchNths_one, nth_last c l e kids hf]
    simp
  | onlyOfType =>
    refine ⟨hp, ?_⟩
    simp only [addSimple, satSimple]
    rw [partsOk_nth, matchNths_two, nth_first c l e kids hf, nth_last c l e kids hf]
    simp
theorem parts_ok (ps : List Simple) (ha : partsAll (Good c P) ps)
    (l : Loc) (e : Elem) (kids : List Node) (hf : l.focus = .elem e kids) (hl : P l)
    (p : Parts) (hp : p.flags < 4) :
    (compileParts p ps).flags < 4 ∧
      partsOk c l e (compileParts p ps) = (partsOk c l e p && satParts c l e ps) := by
  cases ps with
  | nil => exact ⟨hp, by simp [compileParts, satParts]⟩
  | cons s rest =>
    obtain ⟨⟨hg, has⟩, hrest⟩ := ha
    obtain ⟨h1, h2⟩ := simple_ok s hg has l e kids hf hl p hp
    obtain ⟨h3, h4⟩ := parts_ok rest hrest l e kids hf hl (addSimple p s) h1
    refine ⟨h3, ?_⟩
    simp only [compileParts, satParts]
    rw [h4, h2, Bool.and_assoc]
theorem compound_ok (cp : Compound) (ha : cp.All (Good c P))
    (l : Loc) (e : Elem) (kids : List Node) (hf : l.focus = .elem e kids) (hl : P l)
    (relation : SelList) (rt : Rel) :
    matchSel c l e (compileCompound cp relation rt) = (satCompound c l cp && relOk c l relation) := by
  cases cp with
  | mk tag parts =>
    obtain ⟨h1, h2⟩ := parts_ok parts ha l e kids hf hl {} (by show (0 : Nat) < 4; decide)
    simp only [compileCompound, satCompound, hf]
    rw [matchSel_toSel c l e _ _ _ _ h1, h2, partsOk_init, Bool.true_and]
    congr 2
    cases tag <;> rfl
theorem complex_ok (x : Complex) (ha : x.All (Good c P))
    (l : Loc) (e : Elem) (kids : List Node) (hf : l.focus = .elem e kids) (hl : P l) (rt : Rel) :
    matchSel c l e (compileRT x rt) = sat c l x := by
  cases x with
  | one cp =>
    simp only [compileRT, sat]
    rw [compound_ok cp ha l e kids hf hl, relOk_empty, Bool.and_true]
  | comb L k R =>
    simp only [compileRT, sat]
    rw [compound_ok R ha.2 l e kids hf hl, relOk_single]
    congr 1
    rw [compileRT_relType, walk_left c l k _ hifr]
    apply any_left hP k l hl
    intro t ht hel
    obtain ⟨te, tk, htf⟩ := isElem_focus hel
    rw [onRel_single c _ t te tk htf, complex_ok L ha.1 t te tk htf ht]
theorem sels_ok (L : List Complex) (ha : listAll (Good c P) L)
    (l : Loc) (e : Elem) (kids : List Node) (hf : l.focus = .elem e kids) (hl : P l) :
    matchAny c l e (compileSels L) = satAny c l L := by
  cases L with
  | nil => simp [compileSels, satAny, matchAny_nil]
  | cons x rest =>
    simp only [compileSels, satAny, matchAny_cons]
    rw [complex_ok x ha.1 l e kids hf hl, sels_ok rest ha.2 l e kids hf hl]
theorem rels_ok (L : List RelSel) (ha : relsAll (Good c P) L)
    (l : Loc) (e : Elem) (kids : List Node) (hf : l.focus = .elem e kids) (hl : P l) :
    matchAny c l e (compileRels L) = satHasAny c l L := by
  cases L with
  | nil => simp [compileRels, satHasAny, matchAny_nil]
  | cons r rest =>
    simp only [compileRels, satHasAny, matchAny_cons]
    rw [rel_ok r ha.1 l e kids hf hl, rels_ok rest ha.2 l e kids hf hl]
theorem rel_ok (r : RelSel) (ha : r.All (Good c P))
    (l : Loc) (e : Elem) (kids : List Node) (_hf : l.focus = .elem e kids) (hl : P l) :
    matchSel c l e (compileRel r) = satRel c l r := by
  cases r with
  | mk k x =>
    simp only [compileRel, satRel]
    have h := matchSel_toSel c l e {} none
      (.mk [compileFwd x k.hasRel emptyList] false false) .none (by show (0 : Nat) < 4; decide)
    have h2 : Sel.mk none [] [] [] [] [] (.mk [compileFwd x k.hasRel emptyList] false false) .none
        [] [] 0 = ({} : Parts).toSel none (.mk [compileFwd x k.hasRel emptyList] false false) .none :=
      rfl
    rw [h2, h, partsOk_init, relOk_single]
    simp only [matchTag, Bool.true_and]
    rw [compileFwd_relType, walk_right c l k _ hifr]
    apply any_right hP k l hl
    intro t ht hel
    obtain ⟨te, tk, htf⟩ := isElem_focus hel
    rw [onRel_single c _ t te tk htf]
    exact fwd_ok x ha k.hasRel emptyList (fun _ => true) (fun u _ _ => relOk_empty c u) t te tk htf ht
theorem fwd_ok (x : Complex) (ha : x.All (Good c P)) (rt : Rel) (tail : SelList)
    (done : Loc → Bool) (hdone : ∀ t, P t → isElem t = true → relOk c t tail = done t)
    (t : Loc) (te : Elem) (kids : List Node) (hf : t.focus = .elem te kids) (hl : P t) :
    matchSel c t te (compileFwd x rt tail) = satFwd c x done t := by
  cases x with
  | one cp =>
    simp only [compileFwd, satFwd]
    rw [compound_ok cp ha t te kids hf hl, hdone t hl (isElem_of_focus hf)]
  | comb L k R =>
    simp only [compileFwd, satFwd]
    apply fwd_ok L ha.1 rt _ _ _ t te kids hf hl
    intro u hu _
    rw [relOk_single]
    rw [compileCompound_relType, walk_right c u k _ hifr]
    apply any_right hP k u hu
    intro v hv hel
    obtain ⟨ve, vk, hvf⟩ := isElem_focus hel
    rw [onRel_single c _ v ve vk hvf, compound_ok R ha.2 v ve vk hvf hv, hdone v hv hel]
end

end

end SatMain
end SoupVerif
