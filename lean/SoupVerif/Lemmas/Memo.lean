/-
  Helper lemmas for `Properties/C04`: locations of one document are determined by their
  position (Python identity), the pure functions unfolded into the pieces `Model/Memo.lean`
  re-uses, and the invariant of the three tables.
-/
import SoupVerif.Model.Memo
import SoupVerif.Lemmas.TreeWalk
namespace SoupVerif
namespace MemoLemmas
open Memo

/-! ### Locations of one document -/

/-- `l` is the location of document `d` at its own position: following `l.pos` from the top
    arrives at `l`.  Two such locations with the same position are equal (`InDoc.eq_of_pos`):
    position equality is Python's `is` on the nodes of one tree. -/
def InDoc (d : Doc) (l : Loc) : Prop := d.locAt? l.pos = some l

theorem go_nil (l : Loc) : Doc.locAt?.go l [] = some l := by
  unfold Doc.locAt?.go; rfl

theorem go_cons (l : Loc) (i : Nat) (rest : List Nat) :
    Doc.locAt?.go l (i :: rest) = (match l.children[i]? with
      | some ch => Doc.locAt?.go ch rest
      | none => none) := by
  conv => lhs; unfold Doc.locAt?.go
  rfl

theorem go_append (p q : List Nat) : ∀ l : Loc,
    Doc.locAt?.go l (p ++ q) = (Doc.locAt?.go l p).bind (fun x => Doc.locAt?.go x q) := by
  induction p with
  | nil => intro l; simp [go_nil]
  | cons i rest ih =>
    intro l
    rw [List.cons_append, go_cons, go_cons]
    cases l.children[i]? with
    | none => rfl
    | some ch => exact ih ch

theorem InDoc.eq_of_pos {d : Doc} {a b : Loc} (ha : InDoc d a) (hb : InDoc d b) (h : a.pos = b.pos) :
    a = b := by
  unfold InDoc at ha hb
  rw [h] at ha
  rw [ha] at hb
  exact Option.some.inj hb

theorem InDoc.of_locAt {d : Doc} {l x : Loc} (hl : InDoc d l) (hx : d.locAt? l.pos = some x) : x = l := by
  unfold InDoc at hl
  rw [hl] at hx
  exact (Option.some.inj hx).symm

theorem InDoc.top (d : Doc) : InDoc d d.topLoc := by
  unfold InDoc Doc.locAt?
  exact go_nil _

theorem InDoc.child {d : Doc} {p ch : Loc} (hp : InDoc d p) (hc : ch ∈ p.children) : InDoc d ch := by
  obtain ⟨k, hk⟩ := List.getElem?_of_mem hc
  have hpos := p.children_pos k ch hk
  unfold InDoc Doc.locAt? at *
  rw [hpos, go_append, hp]
  simp only [Option.bind_some, go_cons, hk, go_nil]

theorem InDoc.desc {d : Doc} {p x : Loc} (hp : InDoc d p) (hx : IsDesc p x) : InDoc d x := by
  induction hx with
  | child hc => exact hp.child hc
  | step hc _ ih => exact ih (hp.child hc)

/-- The focus of a child, plugged back into its frame, is the parent's focus. -/
theorem childrenAux_plug (e : Elem) (up : List Frame) :
    ∀ (ks left : List Node) (ch : Loc), ch ∈ Loc.childrenAux e up left ks →
      ∃ f, ch.up = f :: up ∧ Loc.plug f ch.focus = .elem e (left.reverse ++ ks) := by
  intro ks
  induction ks with
  | nil => intro left ch h; simp [Loc.childrenAux] at h
  | cons k right ih =>
    intro left ch h
    simp only [Loc.childrenAux, List.mem_cons] at h
    rcases h with rfl | h
    · exact ⟨_, rfl, rfl⟩
    · obtain ⟨f, h1, h2⟩ := ih (k :: left) ch h
      exact ⟨f, h1, by rw [h2]; simp⟩

/-- `child.parent is l` for every child of `l`. -/
theorem children_parent (l ch : Loc) (h : ch ∈ l.children) : ch.parent? = some l := by
  unfold Loc.children at h
  split at h
  · rename_i e ks hf
    obtain ⟨f, h1, h2⟩ := childrenAux_plug e l.up ks [] ch h
    unfold Loc.parent?
    rw [h1]
    simp only [h2, List.reverse_nil, List.nil_append, ← hf]
  · simp at h

theorem parent_pos (l p : Loc) (h : l.parent? = some p) : ∃ k, l.pos = p.pos ++ [k] := by
  unfold Loc.parent? at h
  split at h
  · simp at h
  · rename_i f rest hup
    have := Option.some.inj h
    subst this
    exact ⟨f.left.length, by simp [Loc.pos_eq_posOf, hup, posOf_cons]⟩

theorem InDoc.parent {d : Doc} {l p : Loc} (hl : InDoc d l) (h : l.parent? = some p) : InDoc d p := by
  obtain ⟨k, hk⟩ := parent_pos l p h
  have hl' := hl
  unfold InDoc Doc.locAt? at hl'
  rw [hk, go_append] at hl'
  cases hx : Doc.locAt?.go d.topLoc p.pos with
  | none => rw [hx] at hl'; simp at hl'
  | some x =>
    rw [hx] at hl'
    simp only [Option.bind_some, go_cons] at hl'
    cases hc : x.children[k]? with
    | none => rw [hc] at hl'; simp at hl'
    | some ch =>
      rw [hc] at hl'
      simp only [go_nil] at hl'
      have : ch = l := Option.some.inj hl'
      subst this
      have hp := children_parent x ch (List.mem_of_getElem? hc)
      rw [h] at hp
      have : p = x := Option.some.inj hp
      subst this
      exact hx

theorem ancestorsAux_inDoc (d : Doc) : ∀ (up : List Frame) (n : Node), InDoc d ⟨n, up⟩ →
    ∀ a ∈ Loc.ancestorsAux n up, InDoc d a := by
  intro up
  induction up with
  | nil => intro n _ a h; simp [Loc.ancestorsAux] at h
  | cons f rest ih =>
    intro n hl a h
    have hp : InDoc d ⟨Loc.plug f n, rest⟩ := hl.parent (p := ⟨Loc.plug f n, rest⟩) rfl
    simp only [Loc.ancestorsAux, List.mem_cons] at h
    rcases h with rfl | h
    · exact hp
    · exact ih _ hp a h

theorem InDoc.ancestor {d : Doc} {l a : Loc} (hl : InDoc d l) (h : a ∈ l.ancestors) : InDoc d a :=
  ancestorsAux_inDoc d l.up l.focus hl a h

theorem ancestorsCut_subset (c : Ctx) (b : Bool) : ∀ (L : List Loc) (a : Loc),
    a ∈ c.ancestorsCut b L → a ∈ L := by
  intro L
  induction L with
  | nil => intro a h; simp [Ctx.ancestorsCut] at h
  | cons p ps ih =>
    intro a h
    unfold Ctx.ancestorsCut at h
    split at h
    · simp at h
    · simp only [List.mem_cons] at h ⊢
      rcases h with rfl | h
      · exact Or.inl rfl
      · exact Or.inr (ih a h)

theorem InDoc.ctxAncestor {d : Doc} {c : Ctx} {l a : Loc} {b : Bool} (hl : InDoc d l)
    (h : a ∈ c.ancestors l b) : InDoc d a :=
  hl.ancestor (ancestorsCut_subset c b _ a h)

theorem InDoc.ctxDescendant {d : Doc} {c : Ctx} {l x : Loc} {b : Bool} (hl : InDoc d l)
    (h : x ∈ c.descendants l b) : InDoc d x := by
  unfold Ctx.descendants at h
  split at h
  · simp at h
  · exact hl.desc (l.descendants_sound _ x h)

theorem InDoc.tagDescendant {d : Doc} {c : Ctx} {l x : Loc} {b : Bool} (hl : InDoc d l)
    (h : x ∈ c.tagDescendants l b) : InDoc d x :=
  hl.ctxDescendant (List.mem_filter.mp h).1

/-! ### The pure functions, unfolded into the pieces the memo model re-uses -/

theorem matchIndeterminate_eq (c : Ctx) (l : Loc) :
    matchIndeterminate c l = (match l.elem? with
      | none => false
      | some e =>
        match parentForm c l with
        | none => false
        | some form => !indeterminateScan c form (c.attrByName e "name".toStr) l) := rfl

theorem metaLang_eq (c : Ctx) (start : Loc) :
    metaLang c start = (match findHead c start with
      | none => none
      | some head => scanHead c head) := by
  have key : ∀ (H : Option Loc),
      (match H with
       | none => (none : Option NVal)
       | some html =>
         match (c.tagChildren html c.isHtml).find? (fun ch =>
             match ch.elem? with
             | some e => c.tagName e == "head".toStr && c.isHtmlTag e
             | none => false) with
         | none => none
         | some head =>
           match head.elem? with
           | none => none
           | some he =>
             (head.children.findSome? fun ch =>
               match ch.elem? with
               | some me =>
                 if c.tagName me == "meta".toStr && c.isHtmlTag me then metaLangScan me.attrs false none else none
               | none => none)) =
      (match (match H with | none => none | some html => findChildTag c html "head") with
       | none => none
       | some head => scanHead c head) := by
    intro H
    cases H with
    | none => rfl
    | some html =>
      dsimp only [findChildTag]
      generalize List.find? _ (c.tagChildren html c.isHtml) = X
      cases X <;> rfl
  unfold metaLang findHead findHtml
  exact key _

theorem langOf_eq (c : Ctx) (l : Loc) :
    langOf c l = (match (langWalk c (l :: c.ancestors l c.isHtml) l).1 with
      | some v => some v
      | none =>
        if metaCond c (langWalk c (l :: c.ancestors l c.isHtml) l).2 then
          metaLang c (langWalk c (l :: c.ancestors l c.isHtml) l).2
        else none) := rfl

theorem langOfM_eq (c : Ctx) (σ : State) (l : Loc) :
    langOfM c σ l = (match (langWalk c (l :: c.ancestors l c.isHtml) l).1 with
      | some v => (some v, σ)
      | none =>
        match (σ.metaLang.filter (fun p => p.1 == (langWalk c (l :: c.ancestors l c.isHtml) l).2.pos)).getLast? with
        | some (_, v) => (v, σ)
        | none =>
          if metaCond c (langWalk c (l :: c.ancestors l c.isHtml) l).2 then
            match findHead c (langWalk c (l :: c.ancestors l c.isHtml) l).2 with
            | none => (none, σ)
            | some head =>
              (scanHead c head, { σ with metaLang := σ.metaLang ++
                [((langWalk c (l :: c.ancestors l c.isHtml) l).2.pos, scanHead c head)] })
          else (none, σ)) := rfl

theorem matchLang_eq (c : Ctx) (l : Loc) (langs : List LangSel) :
    matchLang c l langs = (match langOf c l with
      | none => false
      | some v =>
        let tag := match v with | .str s => s | .list ls => joinWith [32] ls
        langs.all fun pats => pats.languages.any fun p => Lang.extendedFilter c.wildStrip p tag) := rfl

/-- The `root` of the `<meta>` search is `el` or one of its ancestors. -/
theorem langWalk_last (c : Ctx) : ∀ (L : List Loc) (init : Loc),
    (langWalk c L init).2 = init ∨ (langWalk c L init).2 ∈ L := by
  intro L
  induction L with
  | nil => intro init; exact Or.inl rfl
  | cons l rest ih =>
    intro init
    unfold langWalk
    cases l.elem? with
    | none =>
      simp only
      rcases ih l with h | h
      · exact Or.inr (by rw [h]; simp)
      · exact Or.inr (List.mem_cons_of_mem _ h)
    | some e =>
      simp only
      cases langAttr c e with
      | some v => exact Or.inr (by simp)
      | none =>
        simp only
        rcases ih l with h | h
        · exact Or.inr (by rw [h]; simp)
        · exact Or.inr (List.mem_cons_of_mem _ h)

theorem langWalk_last_inDoc {d : Doc} (c : Ctx) (l : Loc) (hl : InDoc d l) :
    InDoc d (langWalk c (l :: c.ancestors l c.isHtml) l).2 := by
  rcases langWalk_last c (l :: c.ancestors l c.isHtml) l with h | h
  · rw [h]; exact hl
  · rcases List.mem_cons.mp h with h | h
    · rw [h]; exact hl
    · exact hl.ctxAncestor h

theorem defaultForm_inDoc {d : Doc} (c : Ctx) (l form : Loc) (hl : InDoc d l)
    (h : defaultForm c l = some form) : InDoc d form :=
  hl.ctxAncestor (List.mem_of_find?_eq_some h)

theorem parentForm_inDoc {d : Doc} (c : Ctx) (l form : Loc) (hl : InDoc d l)
    (h : parentForm c l = some form) : InDoc d form := by
  unfold parentForm at h
  simp only at h
  split at h
  · rename_i f hf
    have : f = form := Option.some.inj h
    subst this
    exact hl.ctxAncestor (List.mem_of_find?_eq_some hf)
  · exact hl.ctxAncestor (List.mem_of_getLast? h)

/-! ### The group test without an asker -/

/-- Does the group `(form, name)` have no checked radio at all (nobody excluded). -/
def groupIndeterminate (c : Ctx) (form : Loc) (name : Option NVal) : Bool :=
  !((c.tagDescendants form true).any (isCheckedRadioOf c form name))

/-- Is the asking element itself a checked radio of the group it asks about. -/
def askerChecked (c : Ctx) (l : Loc) : Bool :=
  match l.elem? with
  | none => false
  | some e =>
    match parentForm c l with
    | none => false
    | some form => isCheckedRadioOf c form (c.attrByName e "name".toStr) l

/-- Skipping `child is el` changes nothing when `el` is not a checked radio of the group. -/
theorem indeterminateScan_eq {d : Doc} (c : Ctx) (form : Loc) (name : Option NVal) (l : Loc)
    (hform : InDoc d form) (hl : InDoc d l) (hside : isCheckedRadioOf c form name l = false) :
    (!indeterminateScan c form name l) = groupIndeterminate c form name := by
  unfold indeterminateScan groupIndeterminate
  congr 1
  rw [Bool.eq_iff_iff, List.any_eq_true, List.any_eq_true]
  constructor
  · rintro ⟨ch, hch, h⟩
    refine ⟨ch, hch, ?_⟩
    split at h
    · simp at h
    · exact h
  · rintro ⟨ch, hch, h⟩
    refine ⟨ch, hch, ?_⟩
    split
    · rename_i hs
      have : ch = l := (hform.tagDescendant hch).eq_of_pos hl ((Loc.same_iff _ _).mp hs)
      subst this
      rw [hside] at h
      exact absurd h (by simp)
    · exact h

end MemoLemmas
end SoupVerif
