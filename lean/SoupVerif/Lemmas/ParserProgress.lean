/-
  C06 helper lemmas (see the two parts for details).
-/
import SoupVerif.Lemmas.ParserProgress.Step
import SoupVerif.Lemmas.ParserProgress.Fuel
import SoupVerif.Lemmas.ParserProgress.Custom
