/-
  `All` (Prop-valued) against `all` (Bool-valued, executable), and monotonicity.
-/
import SoupVerif.Lemmas.SatParts
namespace SoupVerif
namespace Css

variable {p q : Simple → Prop}

mutual
theorem Simple.All.imp (h : ∀ s, p s → q s) : ∀ (s : Simple), s.All p → s.All q
  | .neg L, ha => listAll_imp h L ha
  | .is L, ha => listAll_imp h L ha
  | .has L, ha => relsAll_imp h L ha
  | .id _, _ => trivial
  | .cls _, _ => trivial
  | .attr _ _ _, _ => trivial
  | .root, _ => trivial
  | .empty, _ => trivial
  | .firstChild, _ => trivial
  | .lastChild, _ => trivial
  | .onlyChild, _ => trivial
  | .firstOfType, _ => trivial
  | .lastOfType, _ => trivial
  | .onlyOfType, _ => trivial
theorem partsAll_imp (h : ∀ s, p s → q s) : ∀ (ps : List Simple), partsAll p ps → partsAll q ps
  | [], _ => trivial
  | s :: rest, ha => ⟨⟨h s ha.1.1, Simple.All.imp h s ha.1.2⟩, partsAll_imp h rest ha.2⟩
theorem Compound.All.imp (h : ∀ s, p s → q s) : ∀ (cp : Compound), cp.All p → cp.All q
  | .mk _ parts, ha => partsAll_imp h parts ha
theorem Complex.All.imp (h : ∀ s, p s → q s) : ∀ (x : Complex), x.All p → x.All q
  | .one cp, ha => Compound.All.imp h cp ha
  | .comb L _ R, ha => ⟨Complex.All.imp h L ha.1, Compound.All.imp h R ha.2⟩
theorem listAll_imp (h : ∀ s, p s → q s) : ∀ (L : List Complex), listAll p L → listAll q L
  | [], _ => trivial
  | x :: rest, ha => ⟨Complex.All.imp h x ha.1, listAll_imp h rest ha.2⟩
theorem relsAll_imp (h : ∀ s, p s → q s) : ∀ (L : List RelSel), relsAll p L → relsAll q L
  | [], _ => trivial
  | r :: rest, ha => ⟨RelSel.All.imp h r ha.1, relsAll_imp h rest ha.2⟩
theorem RelSel.All.imp (h : ∀ s, p s → q s) : ∀ (r : RelSel), r.All p → r.All q
  | .mk _ x, ha => Complex.All.imp h x ha
end

variable {b : Simple → Bool}

mutual
theorem Simple.All.of_all : ∀ (s : Simple), s.all b = true → s.All (fun s => b s = true)
  | .neg L, ha => listAll_of_all L ha
  | .is L, ha => listAll_of_all L ha
  | .has L, ha => relsAll_of_all L ha
  | .id _, _ => trivial
  | .cls _, _ => trivial
  | .attr _ _ _, _ => trivial
  | .root, _ => trivial
  | .empty, _ => trivial
  | .firstChild, _ => trivial
  | .lastChild, _ => trivial
  | .onlyChild, _ => trivial
  | .firstOfType, _ => trivial
  | .lastOfType, _ => trivial
  | .onlyOfType, _ => trivial
theorem partsAll_of_all : ∀ (ps : List Simple), allParts b ps = true → partsAll (fun s => b s = true) ps
  | [], _ => trivial
  | s :: rest, ha => by
    simp only [allParts, Bool.and_eq_true] at ha
    exact ⟨⟨ha.1.1, Simple.All.of_all s ha.1.2⟩, partsAll_of_all rest ha.2⟩
theorem Compound.All.of_all : ∀ (cp : Compound), cp.all b = true → cp.All (fun s => b s = true)
  | .mk _ parts, ha => partsAll_of_all parts ha
theorem Complex.All.of_all : ∀ (x : Complex), x.all b = true → x.All (fun s => b s = true)
  | .one cp, ha => Compound.All.of_all cp ha
  | .comb L _ R, ha => by
    simp only [Complex.all, Bool.and_eq_true] at ha
    exact ⟨Complex.All.of_all L ha.1, Compound.All.of_all R ha.2⟩
theorem listAll_of_all : ∀ (L : List Complex), allList b L = true → listAll (fun s => b s = true) L
  | [], _ => trivial
  | x :: rest, ha => by
    simp only [allList, Bool.and_eq_true] at ha
    exact ⟨Complex.All.of_all x ha.1, listAll_of_all rest ha.2⟩
theorem relsAll_of_all : ∀ (L : List RelSel), allRels b L = true → relsAll (fun s => b s = true) L
  | [], _ => trivial
  | r :: rest, ha => by
    simp only [allRels, Bool.and_eq_true] at ha
    exact ⟨RelSel.All.of_all r ha.1, relsAll_of_all rest ha.2⟩
theorem RelSel.All.of_all : ∀ (r : RelSel), r.all b = true → r.All (fun s => b s = true)
  | .mk _ x, ha => Complex.All.of_all x ha
end

mutual
theorem Simple.All.and : ∀ (s : Simple), s.All p → s.All q → s.All (fun s => p s ∧ q s)
  | .neg L, h1, h2 => listAll_and L h1 h2
  | .is L, h1, h2 => listAll_and L h1 h2
  | .has L, h1, h2 => relsAll_and L h1 h2
  | .id _, _, _ => trivial
  | .cls _, _, _ => trivial
  | .attr _ _ _, _, _ => trivial
  | .root, _, _ => trivial
  | .empty, _, _ => trivial
  | .firstChild, _, _ => trivial
  | .lastChild, _, _ => trivial
  | .onlyChild, _, _ => trivial
  | .firstOfType, _, _ => trivial
  | .lastOfType, _, _ => trivial
  | .onlyOfType, _, _ => trivial
theorem partsAll_and : ∀ (ps : List Simple), partsAll p ps → partsAll q ps →
    partsAll (fun s => p s ∧ q s) ps
  | [], _, _ => trivial
  | s :: rest, h1, h2 =>
    ⟨⟨⟨h1.1.1, h2.1.1⟩, Simple.All.and s h1.1.2 h2.1.2⟩, partsAll_and rest h1.2 h2.2⟩
theorem Compound.All.and : ∀ (cp : Compound), cp.All p → cp.All q → cp.All (fun s => p s ∧ q s)
  | .mk _ parts, h1, h2 => partsAll_and parts h1 h2
theorem Complex.All.and : ∀ (x : Complex), x.All p → x.All q → x.All (fun s => p s ∧ q s)
  | .one cp, h1, h2 => Compound.All.and cp h1 h2
  | .comb L _ R, h1, h2 => ⟨Complex.All.and L h1.1 h2.1, Compound.All.and R h1.2 h2.2⟩
theorem listAll_and : ∀ (L : List Complex), listAll p L → listAll q L →
    listAll (fun s => p s ∧ q s) L
  | [], _, _ => trivial
  | x :: rest, h1, h2 => ⟨Complex.All.and x h1.1 h2.1, listAll_and rest h1.2 h2.2⟩
theorem relsAll_and : ∀ (L : List RelSel), relsAll p L → relsAll q L →
    relsAll (fun s => p s ∧ q s) L
  | [], _, _ => trivial
  | r :: rest, h1, h2 => ⟨RelSel.All.and r h1.1 h2.1, relsAll_and rest h1.2 h2.2⟩
theorem RelSel.All.and : ∀ (r : RelSel), r.All p → r.All q → r.All (fun s => p s ∧ q s)
  | .mk _ x, h1, h2 => Complex.All.and x h1 h2
end

mutual
theorem Simple.All.of_forall (h : ∀ s, p s) : ∀ (s : Simple), s.All p
  | .neg L => listAll_of_forall h L
  | .is L => listAll_of_forall h L
  | .has L => relsAll_of_forall h L
  | .id _ => trivial
  | .cls _ => trivial
  | .attr _ _ _ => trivial
  | .root => trivial
  | .empty => trivial
  | .firstChild => trivial
  | .lastChild => trivial
  | .onlyChild => trivial
  | .firstOfType => trivial
  | .lastOfType => trivial
  | .onlyOfType => trivial
theorem partsAll_of_forall (h : ∀ s, p s) : ∀ (ps : List Simple), partsAll p ps
  | [] => trivial
  | s :: rest => ⟨⟨h s, Simple.All.of_forall h s⟩, partsAll_of_forall h rest⟩
theorem Compound.All.of_forall (h : ∀ s, p s) : ∀ (cp : Compound), cp.All p
  | .mk _ parts => partsAll_of_forall h parts
theorem Complex.All.of_forall (h : ∀ s, p s) : ∀ (x : Complex), x.All p
  | .one cp => Compound.All.of_forall h cp
  | .comb L _ R => ⟨Complex.All.of_forall h L, Compound.All.of_forall h R⟩
theorem listAll_of_forall (h : ∀ s, p s) : ∀ (L : List Complex), listAll p L
  | [] => trivial
  | x :: rest => ⟨Complex.All.of_forall h x, listAll_of_forall h rest⟩
theorem relsAll_of_forall (h : ∀ s, p s) : ∀ (L : List RelSel), relsAll p L
  | [] => trivial
  | r :: rest => ⟨RelSel.All.of_forall h r, relsAll_of_forall h rest⟩
theorem RelSel.All.of_forall (h : ∀ s, p s) : ∀ (r : RelSel), r.All p
  | .mk _ x => Complex.All.of_forall h x
end

/-- A Bool-valued condition on every simple selector, or a global fact `Q`. -/
theorem Complex.All.of_all_or {Q : Prop} (x : Complex) (h : x.all b = true ∨ Q) :
    x.All (fun s => b s = true ∨ Q) := by
  rcases h with h | h
  · exact Complex.All.imp (fun _ hs => Or.inl hs) x (Complex.All.of_all x h)
  · exact Complex.All.of_forall (fun _ => Or.inr h) x

theorem Compound.withImplied_all (cp : Compound) : cp.withImplied.all b = cp.all b := by
  cases cp with
  | mk tag parts => cases tag <;> rfl

theorem Complex.withImplied_all : ∀ (x : Complex), x.withImplied.all b = x.all b
  | .one cp => by simp only [Complex.withImplied, Complex.all, Compound.withImplied_all]
  | .comb L k R => by
    simp only [Complex.withImplied, Complex.all, Compound.withImplied_all,
      Complex.withImplied_all L]

end Css
end SoupVerif
