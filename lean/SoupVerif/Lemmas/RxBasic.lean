/-
  Base lemmas about the regular-expression engine model (`Model/Regex.lean`) for *refinement*
  proofs: statements of the form "the hand-written scanner `f` of the model computes exactly what
  the engine computes on the regular expression regenerated from the source".

  The building blocks of soupsieve's data regexes are one-character tests (`[0-9]`, `-`, `[^*]`, …)
  under bounded or unbounded greedy repetition, sequences, groups, anchors.  For a one-character
  test the list of runs of a repetition is known exactly (`runs_rep_char`): the end positions from
  the longest admissible run down to the shortest, so a sequence continues from the longest run
  whenever its continuation rejects the shorter ones (`flatMap_down_cut`).
-/
import SoupVerif.Model.Regex
namespace SoupVerif
namespace RxBasic
open Rx

/-! ### One-character tests -/

/-- The runs of a one-character test `P` at position `p`. -/
def charBody (s : Str) (P : Nat → Bool) : Nat → Caps → List (Nat × Caps) :=
  fun p c => match s[p]? with
    | some x => if P x then [(p + 1, c)] else []
    | none => []

/-- `r` is the one-character test `P` on `s`. -/
def IsChar (env : CharEnv) (s : Str) (r : Rx) (P : Nat → Bool) : Prop :=
  ∀ p c, runs env s r p c = charBody s P p c

theorem isChar_lit (env : CharEnv) (s : Str) (ch : Nat) (ic : Bool) :
    IsChar env s (.lit ch ic) (fun x => if ic then env.fold x == env.fold ch else x == ch) := by
  intro p c; rw [runs]; rfl

theorem isChar_notLit (env : CharEnv) (s : Str) (ch : Nat) (ic : Bool) :
    IsChar env s (.notLit ch ic) (fun x => !(if ic then env.fold x == env.fold ch else x == ch)) := by
  intro p c; rw [runs]; unfold charBody
  cases s[p]? with
  | none => rfl
  | some x => by_cases h : (if ic then env.fold x == env.fold ch else x == ch) = true <;> simp [h]

theorem isChar_set (env : CharEnv) (s : Str) (neg : Bool) (items : List SetItem) (ic : Bool) :
    IsChar env s (.set neg items ic) (setHas env neg items ic) := by
  intro p c; rw [runs]; rfl

theorem isChar_any (env : CharEnv) (s : Str) (dotall : Bool) :
    IsChar env s (.any dotall) (fun x => dotall || x != 10) := by
  intro p c; rw [runs]; rfl

theorem isChar_congr {env : CharEnv} {s : Str} {r : Rx} {P Q : Nat → Bool}
    (h : IsChar env s r P) (hPQ : ∀ x, P x = Q x) : IsChar env s r Q := by
  intro p c; rw [h p c]; unfold charBody
  cases s[p]? with
  | none => rfl
  | some x => simp [hPQ x]

theorem isChar_body {env : CharEnv} {s : Str} {r : Rx} {P : Nat → Bool} (h : IsChar env s r P) :
    (fun p c => runs env s r p c) = charBody s P := by
  funext p c; exact h p c

/-! ### Spans -/

/-- Number of consecutive characters from `pos` on that satisfy `P`. -/
def spanLen (s : Str) (P : Nat → Bool) (pos : Nat) : Nat := ((s.drop pos).takeWhile P).length

theorem spanLen_of_none {s : Str} {P : Nat → Bool} {pos : Nat} (h : s[pos]? = none) :
    spanLen s P pos = 0 := by
  unfold spanLen
  rw [List.drop_eq_nil_of_le (by simpa using h)]; rfl

theorem spanLen_of_not {s : Str} {P : Nat → Bool} {pos x : Nat} (h : s[pos]? = some x)
    (hx : P x = false) : spanLen s P pos = 0 := by
  unfold spanLen
  have hlt : pos < s.length := by
    rcases Nat.lt_or_ge pos s.length with h' | h'
    · exact h'
    · rw [List.getElem?_eq_none h'] at h; cases h
  rw [List.drop_eq_getElem_cons hlt]
  have : s[pos] = x := by rw [List.getElem?_eq_getElem hlt] at h; exact Option.some.inj h
  rw [this, List.takeWhile_cons]; simp [hx]

theorem spanLen_of_ok {s : Str} {P : Nat → Bool} {pos x : Nat} (h : s[pos]? = some x)
    (hx : P x = true) : spanLen s P pos = spanLen s P (pos + 1) + 1 := by
  unfold spanLen
  have hlt : pos < s.length := by
    rcases Nat.lt_or_ge pos s.length with h' | h'
    · exact h'
    · rw [List.getElem?_eq_none h'] at h; cases h
  rw [List.drop_eq_getElem_cons hlt]
  have : s[pos] = x := by rw [List.getElem?_eq_getElem hlt] at h; exact Option.some.inj h
  rw [this, List.takeWhile_cons]; simp [hx]

theorem spanLen_le (s : Str) (P : Nat → Bool) (pos : Nat) : pos + spanLen s P pos ≤ max pos s.length := by
  unfold spanLen
  have h1 := (List.takeWhile_sublist (l := s.drop pos) P).length_le
  rw [List.length_drop] at h1
  omega

/-- Every character strictly inside the span satisfies `P`. -/
theorem span_inside (s : Str) (P : Nat → Bool) : ∀ (n pos : Nat), n < spanLen s P pos →
    ∃ x, s[pos + n]? = some x ∧ P x = true
  | n, pos, hn => by
    cases hx : s[pos]? with
    | none => rw [spanLen_of_none hx] at hn; omega
    | some x =>
      cases hP : P x with
      | false => rw [spanLen_of_not hx hP] at hn; omega
      | true =>
        cases n with
        | zero => exact ⟨x, by simpa using hx, hP⟩
        | succ n =>
          rw [spanLen_of_ok hx hP] at hn
          obtain ⟨y, hy, hPy⟩ := span_inside s P n (pos + 1) (by omega)
          exact ⟨y, by rw [← hy]; congr 1; omega, hPy⟩

/-- The character at the end of the span (if any) does not satisfy `P`. -/
theorem span_end (s : Str) (P : Nat → Bool) : ∀ (k pos : Nat), spanLen s P pos = k →
    ∀ x, s[pos + k]? = some x → P x = false
  | k, pos, hk, x, hx => by
    cases hy : s[pos]? with
    | none =>
      rw [spanLen_of_none hy] at hk; subst hk
      rw [Nat.add_zero, hy] at hx; cases hx
    | some y =>
      cases hP : P y with
      | false =>
        rw [spanLen_of_not hy hP] at hk; subst hk
        rw [Nat.add_zero, hy] at hx; cases hx; exact hP
      | true =>
        rw [spanLen_of_ok hy hP] at hk
        cases k with
        | zero => omega
        | succ k =>
          exact span_end s P k (pos + 1) (by omega) x (by rw [← hx]; congr 1; omega)

/-! ### Descending / ascending position lists -/

/-- `(hi, caps), (hi-1, caps), …, (lo, caps)`; empty when `hi < lo`. -/
def down (caps : Caps) (lo hi : Nat) : List (Nat × Caps) :=
  ((List.range' lo (hi + 1 - lo)).reverse).map fun j => (j, caps)

/-- `(lo, caps), (lo+1, caps), …, (hi, caps)`; empty when `hi < lo`. -/
def up (caps : Caps) (lo hi : Nat) : List (Nat × Caps) :=
  (List.range' lo (hi + 1 - lo)).map fun j => (j, caps)

theorem down_empty (caps : Caps) {lo hi : Nat} (h : hi < lo) : down caps lo hi = [] := by
  unfold down; rw [show hi + 1 - lo = 0 by omega]; rfl

theorem up_empty (caps : Caps) {lo hi : Nat} (h : hi < lo) : up caps lo hi = [] := by
  unfold up; rw [show hi + 1 - lo = 0 by omega]; rfl

theorem down_single (caps : Caps) (lo : Nat) : down caps lo lo = [(lo, caps)] := by
  unfold down; rw [show lo + 1 - lo = 1 by omega]; rfl

theorem up_single (caps : Caps) (lo : Nat) : up caps lo lo = [(lo, caps)] := by
  unfold up; rw [show lo + 1 - lo = 1 by omega]; rfl

/-- Peel the smallest element off a descending list. -/
theorem down_snoc (caps : Caps) {lo hi : Nat} (h : lo ≤ hi) :
    down caps lo hi = down caps (lo + 1) hi ++ [(lo, caps)] := by
  unfold down
  rw [show hi + 1 - lo = (hi + 1 - (lo + 1)) + 1 by omega, List.range'_succ]
  simp

/-- Peel the largest element off a descending list. -/
theorem down_cons (caps : Caps) {lo hi : Nat} (h : lo ≤ hi + 1) :
    down caps lo (hi + 1) = (hi + 1, caps) :: down caps lo hi := by
  unfold down
  rw [show hi + 1 + 1 - lo = (hi + 1 - lo) + 1 by omega, List.range'_concat]
  simp
  omega

theorem up_cons (caps : Caps) {lo hi : Nat} (h : lo ≤ hi) :
    up caps lo hi = (lo, caps) :: up caps (lo + 1) hi := by
  unfold up
  rw [show hi + 1 - lo = (hi + 1 - (lo + 1)) + 1 by omega, List.range'_succ]
  simp

theorem mem_down {caps : Caps} {lo hi : Nat} {q : Nat × Caps} :
    q ∈ down caps lo hi ↔ q.2 = caps ∧ lo ≤ q.1 ∧ q.1 ≤ hi := by
  unfold down
  simp only [List.mem_map, List.mem_reverse, List.mem_range'_1]
  constructor
  · rintro ⟨j, ⟨h1, h2⟩, rfl⟩; exact ⟨rfl, h1, by omega⟩
  · rintro ⟨h1, h2, h3⟩; exact ⟨q.1, ⟨h2, by omega⟩, by rw [← h1]⟩

theorem mem_up {caps : Caps} {lo hi : Nat} {q : Nat × Caps} :
    q ∈ up caps lo hi ↔ q.2 = caps ∧ lo ≤ q.1 ∧ q.1 ≤ hi := by
  unfold up
  simp only [List.mem_map, List.mem_range'_1]
  constructor
  · rintro ⟨j, ⟨h1, h2⟩, rfl⟩; exact ⟨rfl, h1, by omega⟩
  · rintro ⟨h1, h2, h3⟩; exact ⟨q.1, ⟨h2, by omega⟩, by rw [← h1]⟩

theorem head_down (caps : Caps) {lo hi : Nat} (h : lo ≤ hi) :
    (down caps lo hi).head? = some (hi, caps) := by
  cases hi with
  | zero => have : lo = 0 := by omega
            subst this; rw [down_single]; rfl
  | succ hi =>
    rcases Nat.lt_or_ge hi lo with h' | h'
    · have : lo = hi + 1 := by omega
      subst this; rw [down_single]; rfl
    · rw [down_cons caps (by omega)]; rfl

/-- If the continuation fails everywhere below the top, only the top run continues. -/
theorem flatMap_down_cut {β : Type} (caps : Caps) (k : Nat × Caps → List β) :
    ∀ (n lo : Nat), (∀ j, lo ≤ j → j < lo + n → k (j, caps) = []) →
      (down caps lo (lo + n)).flatMap k = k (lo + n, caps)
  | 0, lo, _ => by rw [Nat.add_zero, down_single]; simp
  | n + 1, lo, h => by
    rw [show lo + (n + 1) = (lo + n) + 1 by omega, down_cons caps (by omega), List.flatMap_cons]
    have : (down caps lo (lo + n)).flatMap k = [] := by
      rw [List.flatMap_eq_nil_iff]
      rintro ⟨j, c⟩ hm
      rw [mem_down] at hm
      obtain ⟨rfl, h1, h2⟩ := hm
      exact h j h1 (by omega)
    rw [this, List.append_nil]

/-- If the continuation fails everywhere, the sequence fails. -/
theorem flatMap_down_nil {β : Type} (caps : Caps) (k : Nat × Caps → List β) (lo hi : Nat)
    (h : ∀ j, lo ≤ j → j ≤ hi → k (j, caps) = []) : (down caps lo hi).flatMap k = [] := by
  rw [List.flatMap_eq_nil_iff]
  rintro ⟨j, c⟩ hm
  rw [mem_down] at hm
  obtain ⟨rfl, h1, h2⟩ := hm
  exact h j h1 h2

/-! ### Repetition of a one-character test -/

/-- How many further characters a repetition at count `count` may still take. -/
def room (s : Str) (P : Nat → Bool) (mx : Option Nat) (count pos : Nat) : Nat :=
  match mx with
  | none => spanLen s P pos
  | some m => min (spanLen s P pos) (m - count)

/-- Whether the upper bound allows a further iteration. -/
def canMore (mx : Option Nat) (count : Nat) : Bool :=
  match mx with
  | none => true
  | some m => decide (count < m)

/-- One step of `iter`, uniformly in the bound. -/
theorem iter_succ (body : Nat → Caps → List (Nat × Caps)) (mn : Nat) (mx : Option Nat) (greedy : Bool)
    (fuel count pos : Nat) (caps : Caps) :
    iter body mn mx greedy (fuel + 1) count pos caps =
      (if greedy = true then
        (if canMore mx count = true then
          (body pos caps).flatMap fun x =>
            if (decide (x.1 > pos) || decide (count + 1 < mn)) = true then
              iter body mn mx greedy fuel (count + 1) x.1 x.2
            else if count + 1 ≥ mn then [(x.1, x.2)] else []
         else []) ++ (if count ≥ mn then [(pos, caps)] else [])
       else
        (if count ≥ mn then [(pos, caps)] else []) ++
        (if canMore mx count = true then
          (body pos caps).flatMap fun x =>
            if (decide (x.1 > pos) || decide (count + 1 < mn)) = true then
              iter body mn mx greedy fuel (count + 1) x.1 x.2
            else if count + 1 ≥ mn then [(x.1, x.2)] else []
         else [])) := by
  cases mx <;> rw [iter] <;> rfl

/-- Greedy repetition of a one-character test: the end positions from the longest admissible run
    down to the shortest. -/
theorem iter_char_greedy (s : Str) (P : Nat → Bool) (mn : Nat) (mx : Option Nat) :
    ∀ (fuel count pos : Nat) (caps : Caps), s.length - pos + 1 ≤ fuel →
      iter (charBody s P) mn mx true fuel count pos caps =
        down caps (pos + (mn - count)) (pos + room s P mx count pos)
  | 0, _, _, _, hf => by omega
  | fuel + 1, count, pos, caps, hf => by
    rw [iter_succ]
    simp only [if_true]
    by_cases hgo : canMore mx count = true ∧ ∃ x, s[pos]? = some x ∧ P x = true
    · obtain ⟨hcm, x, hx, hPx⟩ := hgo
      have hlt : pos < s.length := by
        rcases Nat.lt_or_ge pos s.length with h' | h'
        · exact h'
        · rw [List.getElem?_eq_none h'] at hx; cases hx
      have ih := iter_char_greedy s P mn mx fuel (count + 1) (pos + 1) caps (by omega)
      have hroom : room s P mx count pos = room s P mx (count + 1) (pos + 1) + 1 := by
        unfold room
        cases mx with
        | none => exact spanLen_of_ok hx hPx
        | some m =>
          have : count < m := by simpa [canMore] using hcm
          simp only [spanLen_of_ok hx hPx]; omega
      have hbody : charBody s P pos caps = [(pos + 1, caps)] := by
        unfold charBody; rw [hx]; simp [hPx]
      simp only [hcm, if_true, hbody, List.flatMap_cons, List.flatMap_nil, List.append_nil,
        show (pos + 1 > pos) = True by simp, decide_true, Bool.true_or, ih]
      rw [hroom]
      by_cases hc : count ≥ mn
      · simp only [hc, if_true]
        have e := down_snoc caps (lo := pos) (hi := pos + (room s P mx (count + 1) (pos + 1) + 1)) (by omega)
        rw [show mn - count = 0 by omega, show mn - (count + 1) = 0 by omega]
        simp only [Nat.add_zero]
        rw [e]
        congr 2; omega
      · simp only [hc, if_false, List.append_nil]
        congr 1 <;> omega
    · have hroom : room s P mx count pos = 0 := by
        unfold room
        rcases Classical.not_and_iff_not_or_not.mp hgo with h | h
        · cases mx with
          | none => simp [canMore] at h
          | some m => have : ¬ count < m := by simpa [canMore] using h
                      simp only; omega
        · have hs : spanLen s P pos = 0 := by
            cases hx : s[pos]? with
            | none => exact spanLen_of_none hx
            | some x =>
              cases hP : P x with
              | false => exact spanLen_of_not hx hP
              | true => exact absurd ⟨x, hx, hP⟩ h
          cases mx with
          | none => exact hs
          | some m => simp only [hs]; omega
      have hmore : (if canMore mx count = true then
          (charBody s P pos caps).flatMap fun x =>
            if (decide (x.1 > pos) || decide (count + 1 < mn)) = true then
              iter (charBody s P) mn mx true fuel (count + 1) x.1 x.2
            else if count + 1 ≥ mn then [(x.1, x.2)] else []
          else []) = [] := by
        by_cases hcm : canMore mx count = true
        · have hb : charBody s P pos caps = [] := by
            unfold charBody
            cases hx : s[pos]? with
            | none => rfl
            | some x =>
              cases hP : P x with
              | false => simp [hP]
              | true => exact absurd ⟨hcm, x, hx, hP⟩ hgo
          simp [hcm, hb]
        · simp [hcm]
      rw [hmore, hroom, Nat.add_zero, List.nil_append]
      by_cases hc : count ≥ mn
      · simp only [hc, if_true]
        rw [show mn - count = 0 by omega, Nat.add_zero, down_single]
      · simp only [hc, if_false]
        rw [down_empty caps (by omega)]

/-- Lazy repetition of a one-character test: the end positions from the shortest admissible run
    up to the longest. -/
theorem iter_char_lazy (s : Str) (P : Nat → Bool) (mn : Nat) (mx : Option Nat) :
    ∀ (fuel count pos : Nat) (caps : Caps), s.length - pos + 1 ≤ fuel →
      iter (charBody s P) mn mx false fuel count pos caps =
        up caps (pos + (mn - count)) (pos + room s P mx count pos)
  | 0, _, _, _, hf => by omega
  | fuel + 1, count, pos, caps, hf => by
    rw [iter_succ]
    simp only [Bool.false_eq_true, if_false]
    by_cases hgo : canMore mx count = true ∧ ∃ x, s[pos]? = some x ∧ P x = true
    · obtain ⟨hcm, x, hx, hPx⟩ := hgo
      have hlt : pos < s.length := by
        rcases Nat.lt_or_ge pos s.length with h' | h'
        · exact h'
        · rw [List.getElem?_eq_none h'] at hx; cases hx
      have ih := iter_char_lazy s P mn mx fuel (count + 1) (pos + 1) caps (by omega)
      have hroom : room s P mx count pos = room s P mx (count + 1) (pos + 1) + 1 := by
        unfold room
        cases mx with
        | none => exact spanLen_of_ok hx hPx
        | some m =>
          have : count < m := by simpa [canMore] using hcm
          simp only [spanLen_of_ok hx hPx]; omega
      have hbody : charBody s P pos caps = [(pos + 1, caps)] := by
        unfold charBody; rw [hx]; simp [hPx]
      simp only [hcm, if_true, hbody, List.flatMap_cons, List.flatMap_nil, List.append_nil,
        show (pos + 1 > pos) = True by simp, decide_true, Bool.true_or, ih]
      rw [hroom]
      by_cases hc : count ≥ mn
      · simp only [hc, if_true]
        have e := up_cons caps (lo := pos) (hi := pos + (room s P mx (count + 1) (pos + 1) + 1)) (by omega)
        rw [show mn - count = 0 by omega, show mn - (count + 1) = 0 by omega]
        simp only [Nat.add_zero]
        rw [e]
        simp only [List.singleton_append, List.cons.injEq, true_and]
        congr 1; omega
      · simp only [hc, if_false, List.nil_append]
        congr 1 <;> omega
    · have hroom : room s P mx count pos = 0 := by
        unfold room
        rcases Classical.not_and_iff_not_or_not.mp hgo with h | h
        · cases mx with
          | none => simp [canMore] at h
          | some m => have : ¬ count < m := by simpa [canMore] using h
                      simp only; omega
        · have hs : spanLen s P pos = 0 := by
            cases hx : s[pos]? with
            | none => exact spanLen_of_none hx
            | some x =>
              cases hP : P x with
              | false => exact spanLen_of_not hx hP
              | true => exact absurd ⟨x, hx, hP⟩ h
          cases mx with
          | none => exact hs
          | some m => simp only [hs]; omega
      have hmore : (if canMore mx count = true then
          (charBody s P pos caps).flatMap fun x =>
            if (decide (x.1 > pos) || decide (count + 1 < mn)) = true then
              iter (charBody s P) mn mx false fuel (count + 1) x.1 x.2
            else if count + 1 ≥ mn then [(x.1, x.2)] else []
          else []) = [] := by
        by_cases hcm : canMore mx count = true
        · have hb : charBody s P pos caps = [] := by
            unfold charBody
            cases hx : s[pos]? with
            | none => rfl
            | some x =>
              cases hP : P x with
              | false => simp [hP]
              | true => exact absurd ⟨hcm, x, hx, hP⟩ hgo
          simp [hcm, hb]
        · simp [hcm]
      rw [hmore, hroom, Nat.add_zero, List.append_nil]
      by_cases hc : count ≥ mn
      · simp only [hc, if_true]
        rw [show mn - count = 0 by omega, Nat.add_zero, up_single]
      · simp only [hc, if_false]
        rw [up_empty caps (by omega)]

/-! ### The engine on a repeated one-character test -/

/-- `P{mn,mx}` greedy from `i`: ends from `i + min(span, mx)` down to `i + mn`. -/
theorem runs_rep_char {env : CharEnv} {s : Str} {r : Rx} {P : Nat → Bool} (h : IsChar env s r P)
    (mn : Nat) (mx : Option Nat) (i : Nat) (caps : Caps) :
    runs env s (.rep mn mx true r) i caps = down caps (i + mn) (i + room s P mx 0 i) := by
  rw [runs, isChar_body h, iter_char_greedy s P mn mx _ 0 i caps (by omega)]
  rfl

/-- `P{mn,mx}?` lazy from `i`: ends from `i + mn` up to `i + min(span, mx)`. -/
theorem runs_rep_char_lazy {env : CharEnv} {s : Str} {r : Rx} {P : Nat → Bool} (h : IsChar env s r P)
    (mn : Nat) (mx : Option Nat) (i : Nat) (caps : Caps) :
    runs env s (.rep mn mx false r) i caps = up caps (i + mn) (i + room s P mx 0 i) := by
  rw [runs, isChar_body h, iter_char_lazy s P mn mx _ 0 i caps (by omega)]
  rfl

/-- `P{n}` (exactly `n`): one run if the span is long enough, none otherwise. -/
theorem runs_rep_char_exact {env : CharEnv} {s : Str} {r : Rx} {P : Nat → Bool} (h : IsChar env s r P)
    (n : Nat) (g : Bool) (i : Nat) (caps : Caps) :
    runs env s (.rep n (some n) g r) i caps = if n ≤ spanLen s P i then [(i + n, caps)] else [] := by
  cases g
  · rw [runs_rep_char_lazy h]
    simp only [room]
    by_cases hn : n ≤ spanLen s P i
    · rw [if_pos hn, show min (spanLen s P i) (n - 0) = n by omega, up_single]
    · rw [if_neg hn, up_empty caps (by omega)]
  · rw [runs_rep_char h]
    simp only [room]
    by_cases hn : n ≤ spanLen s P i
    · rw [if_pos hn, show min (spanLen s P i) (n - 0) = n by omega, down_single]
    · rw [if_neg hn, down_empty caps (by omega)]

/-! ### Sequences, alternatives, groups, anchors (unfolding lemmas) -/

theorem runs_seq (env : CharEnv) (s : Str) (rs : List Rx) (i : Nat) (caps : Caps) :
    runs env s (.seq rs) i caps = runsSeq env s rs i caps := by rw [runs]

theorem runs_alt (env : CharEnv) (s : Str) (rs : List Rx) (i : Nat) (caps : Caps) :
    runs env s (.alt rs) i caps = runsAlt env s rs i caps := by rw [runs]

theorem runsSeq_nil (env : CharEnv) (s : Str) (i : Nat) (caps : Caps) :
    runsSeq env s [] i caps = [(i, caps)] := by rw [runsSeq]

theorem runsSeq_cons (env : CharEnv) (s : Str) (r : Rx) (rs : List Rx) (i : Nat) (caps : Caps) :
    runsSeq env s (r :: rs) i caps =
      (runs env s r i caps).flatMap fun x => runsSeq env s rs x.1 x.2 := by rw [runsSeq]

theorem runsAlt_nil (env : CharEnv) (s : Str) (i : Nat) (caps : Caps) :
    runsAlt env s [] i caps = [] := by rw [runsAlt]

theorem runsAlt_cons (env : CharEnv) (s : Str) (r : Rx) (rs : List Rx) (i : Nat) (caps : Caps) :
    runsAlt env s (r :: rs) i caps = runs env s r i caps ++ runsAlt env s rs i caps := by rw [runsAlt]

theorem runs_group (env : CharEnv) (s : Str) (idx : Nat) (r : Rx) (i : Nat) (caps : Caps) :
    runs env s (.group idx r) i caps =
      (runs env s r i caps).map fun x => (x.1, (idx, i, x.1) :: x.2.filter (fun e => e.1 != idx)) := by
  rw [runs]

theorem runs_bos (env : CharEnv) (s : Str) (i : Nat) (caps : Caps) :
    runs env s .bos i caps = if i = 0 then [(i, caps)] else [] := by
  rw [runs]; by_cases h : i = 0 <;> simp [h]

theorem runs_eos (env : CharEnv) (s : Str) (i : Nat) (caps : Caps) :
    runs env s .eos i caps = if i = s.length then [(i, caps)] else [] := by
  rw [runs]; by_cases h : i = s.length <;> simp [h]

/-- A one-character test followed by a continuation. -/
theorem runsSeq_char {env : CharEnv} {s : Str} {r : Rx} {P : Nat → Bool} (h : IsChar env s r P)
    (rs : List Rx) (i : Nat) (caps : Caps) :
    runsSeq env s (r :: rs) i caps =
      match s[i]? with
      | some x => if P x then runsSeq env s rs (i + 1) caps else []
      | none => [] := by
  rw [runsSeq_cons, h i caps]; unfold charBody
  cases s[i]? with
  | none => rfl
  | some x => by_cases hx : P x = true <;> simp [hx]

/-- A greedy repeated one-character test followed by a continuation that cannot succeed while the
    next character still satisfies the test (the usual case: the continuation starts with a
    character outside the class, or with the end of the input): only the longest run continues. -/
theorem runsSeq_rep_char_cut {env : CharEnv} {s : Str} {r : Rx} {P : Nat → Bool} (h : IsChar env s r P)
    (mn : Nat) (rs : List Rx) (i : Nat) (caps : Caps)
    (hcut : ∀ j x, s[j]? = some x → P x = true → runsSeq env s rs j caps = []) :
    runsSeq env s (.rep mn none true r :: rs) i caps =
      if mn ≤ spanLen s P i then runsSeq env s rs (i + spanLen s P i) caps else [] := by
  rw [runsSeq_cons, runs_rep_char h]
  simp only [room]
  by_cases hmn : mn ≤ spanLen s P i
  · rw [if_pos hmn]
    have := flatMap_down_cut caps (fun x => runsSeq env s rs x.1 x.2) (spanLen s P i - mn) (i + mn) (by
      intro j h1 h2
      obtain ⟨x, hx, hPx⟩ := span_inside s P (j - i) i (by omega)
      rw [show i + (j - i) = j by omega] at hx
      exact hcut j x hx hPx)
    rw [show i + mn + (spanLen s P i - mn) = i + spanLen s P i by omega] at this
    exact this
  · rw [if_neg hmn, down_empty caps (by omega)]; rfl

/-! ### Captures -/

theorem capSpan_cons_self (idx a b : Nat) (c : Caps) :
    capSpan ((idx, a, b) :: c) idx = some (a, b) := by
  simp [capSpan]

theorem capSpan_cons_ne {idx idx' a b : Nat} (c : Caps) (h : idx' ≠ idx) :
    capSpan ((idx', a, b) :: c) idx = capSpan c idx := by
  unfold capSpan
  rw [List.find?_cons]
  have : ((idx', a, b).1 == idx) = false := by simpa using h
  rw [this]

theorem capSpan_filter_ne {idx idx' : Nat} (c : Caps) (h : idx' ≠ idx) :
    capSpan (c.filter fun e => e.1 != idx') idx = capSpan c idx := by
  unfold capSpan
  congr 1
  induction c with
  | nil => rfl
  | cons e c ih =>
    by_cases he : e.1 = idx'
    · have h1 : (e.1 != idx') = false := by simp [he]
      have h2 : (e.1 == idx) = false := by simp [he, h]
      rw [List.filter_cons, h1, List.find?_cons, h2]; simpa using ih
    · have h1 : (e.1 != idx') = true := by simp [he]
      rw [List.filter_cons, h1]
      simp only [if_true, List.find?_cons]
      cases (e.1 == idx) <;> simp [ih]

end RxBasic
end SoupVerif
