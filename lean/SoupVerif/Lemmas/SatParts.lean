/-
  Helper lemmas for `Properties/C01Sat`, part 4: what appending one simple selector to the
  builder (`Css.addSimple`) does to the matcher's verdict, field by field; and the predicate
  `All` used to state side conditions on every simple selector occurring in a selector.
-/
import SoupVerif.Lemmas.SatLeaf
import SoupVerif.Lemmas.SatNth
namespace SoupVerif
namespace Css

/-! ### A property of every simple selector occurring (at any depth) in a selector -/

mutual
/-- `p` holds for every simple selector nested inside `s` (not for `s` itself). -/
def Simple.All (p : Simple → Prop) : Simple → Prop
  | .neg L => listAll p L
  | .is L => listAll p L
  | .has L => relsAll p L
  | _ => True
def partsAll (p : Simple → Prop) : List Simple → Prop
  | [] => True
  | s :: rest => (p s ∧ s.All p) ∧ partsAll p rest
def Compound.All (p : Simple → Prop) : Compound → Prop
  | .mk _ parts => partsAll p parts
def Complex.All (p : Simple → Prop) : Complex → Prop
  | .one cp => cp.All p
  | .comb L _ R => L.All p ∧ R.All p
def listAll (p : Simple → Prop) : List Complex → Prop
  | [] => True
  | x :: rest => x.All p ∧ listAll p rest
def relsAll (p : Simple → Prop) : List RelSel → Prop
  | [] => True
  | r :: rest => r.All p ∧ relsAll p rest
def RelSel.All (p : Simple → Prop) : RelSel → Prop
  | .mk _ x => x.All p
end

end Css

namespace SatParts
open Css SatTree SatCore SatLeaf SatNth

variable (c : Ctx) (l : Loc) (e : Elem) (p : Parts)

theorem partsOk_ids (v : Str) :
    partsOk c l e { p with ids := p.ids ++ [v] } = (partsOk c l e p && matchId c e [v]) := by
  simp only [partsOk, matchId_append]
  ac_rfl

theorem partsOk_classes (v : Str) :
    partsOk c l e { p with classes := p.classes ++ [v] } =
      (partsOk c l e p && matchClasses c e [v]) := by
  simp only [partsOk, matchClasses_append]
  ac_rfl

theorem partsOk_attrs (a : AttrSel) :
    partsOk c l e { p with attrs := p.attrs ++ [a] } =
      (partsOk c l e p && matchAttributes c e [a]) := by
  simp only [partsOk, C11.matchAttributes_append]
  ac_rfl

theorem partsOk_subs (s : SelList) :
    partsOk c l e { p with subs := p.subs ++ [s] } = (partsOk c l e p && matchList c l e s) := by
  simp only [partsOk, matchSubs_append, matchSubs_cons, matchSubs_nil, Bool.and_true]
  ac_rfl

theorem partsOk_nth (ns : List NthSel) :
    partsOk c l e { p with nth := p.nth ++ ns } = (partsOk c l e p && matchNths c l e ns) := by
  simp only [partsOk, matchNths_append]
  ac_rfl

theorem partsOk_root (hp : p.flags < 4) :
    partsOk c l e { p with flags := p.flags ||| SEL_ROOT } = (partsOk c l e p && matchRoot c l) := by
  obtain ⟨_, h2, h3⟩ := flags_or_root p.flags hp
  simp only [partsOk, h2, h3]
  generalize matchRoot c l = r
  generalize hasFlag p.flags SEL_ROOT = a
  cases r <;> cases a <;> simp

theorem partsOk_empty (hp : p.flags < 4) :
    partsOk c l e { p with flags := p.flags ||| SEL_EMPTY } = (partsOk c l e p && matchEmpty l) := by
  obtain ⟨_, h2, h3⟩ := flags_or_empty p.flags hp
  simp only [partsOk, h2, h3]
  generalize matchEmpty l = r
  generalize hasFlag p.flags SEL_EMPTY = a
  generalize (!hasFlag p.flags SEL_ROOT || matchRoot c l) = a1
  generalize matchNths c l e p.nth = a2
  cases r <;> cases a <;> cases a1 <;> cases a2 <;> simp

theorem matchNths_one (n : NthSel) : matchNths c l e [n] = matchNth c l e n := by
  simp [matchNths_cons, matchNths_nil]

theorem matchNths_two (n m : NthSel) :
    matchNths c l e [n, m] = (matchNth c l e n && matchNth c l e m) := by
  simp [matchNths_cons, matchNths_nil]

theorem partsOk_init : partsOk c l e {} = true := by
  simp [partsOk, hasFlag, matchNths_nil, matchId_nil, matchClasses_nil, matchSubs_nil,
    C11.matchAttributes_nil]

end SatParts
end SoupVerif
