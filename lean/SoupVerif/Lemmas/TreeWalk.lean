/-
  Facts about the tree walks of `Model/Tree.lean`: positions of children, descendants and
  ancestors.  Used by `Properties/C03`.
-/
import SoupVerif.Model.Api
namespace SoupVerif

/-! ### Positions -/

/-- Position denoted by a frame stack. -/
def posOf (up : List Frame) : List Nat := (up.map (fun f => f.left.length)).reverse

theorem Loc.pos_eq_posOf (l : Loc) : l.pos = posOf l.up := rfl

theorem posOf_nil : posOf [] = [] := rfl

theorem posOf_cons (f : Frame) (up : List Frame) : posOf (f :: up) = posOf up ++ [f.left.length] := by
  simp [posOf]

theorem posOf_length (up : List Frame) : (posOf up).length = up.length := by simp [posOf]

theorem Loc.pos_length (l : Loc) : l.pos.length = l.up.length := posOf_length l.up

/-- Document order on positions: lexicographic, a proper prefix (an ancestor) comes first.
    This is core's `<` on `List Nat`. -/
def lexLt (p q : List Nat) : Prop := p < q

instance : DecidableRel lexLt := fun p q => inferInstanceAs (Decidable (p < q))

theorem lexLt_irrefl (p : List Nat) : ¬ lexLt p p := List.lt_irrefl p

theorem lexLt_trans {p q r : List Nat} (h1 : lexLt p q) (h2 : lexLt q r) : lexLt p r :=
  List.lt_trans h1 h2

theorem lexLt_ne {p q : List Nat} (h : lexLt p q) : p ≠ q := fun he => lexLt_irrefl q (he ▸ h)

/-- A proper prefix is smaller. -/
theorem lexLt_prefix (B : List Nat) (i : Nat) (s : List Nat) : lexLt B (B ++ i :: s) := by
  have : B ++ [] < B ++ i :: s := List.append_left_lt (List.nil_lt_cons i s)
  simpa [lexLt] using this

/-- Below a common prefix, the smaller child index decides. -/
theorem lexLt_branch (B : List Nat) {n i : Nat} (s t : List Nat) (h : n < i) :
    lexLt (B ++ n :: s) (B ++ i :: t) :=
  List.append_left_lt (List.cons_lt_cons_iff.mpr (Or.inl h))

theorem append_ne_self {α} (B s : List α) (hs : s ≠ []) : B ++ s ≠ B := by
  intro h
  have := congrArg List.length h
  simp at this
  exact hs this

/-! ### Children -/

theorem childrenAux_length (e : Elem) (up : List Frame) :
    ∀ (ks left : List Node), (Loc.childrenAux e up left ks).length = ks.length := by
  intro ks
  induction ks with
  | nil => intro left; simp [Loc.childrenAux]
  | cons k right ih => intro left; simp [Loc.childrenAux, ih]

theorem childrenAux_focus (e : Elem) (up : List Frame) :
    ∀ (ks left : List Node), (Loc.childrenAux e up left ks).map Loc.focus = ks := by
  intro ks
  induction ks with
  | nil => intro left; simp [Loc.childrenAux]
  | cons k right ih => intro left; simp [Loc.childrenAux, ih]

/-- The `k`-th entry of `childrenAux … left ks` sits at index `left.length + k` below `up`. -/
theorem childrenAux_pos (e : Elem) (up : List Frame) :
    ∀ (ks left : List Node) (k : Nat) (ch : Loc),
      (Loc.childrenAux e up left ks)[k]? = some ch → ch.pos = posOf up ++ [left.length + k] := by
  intro ks
  induction ks with
  | nil => intro left k ch h; simp [Loc.childrenAux] at h
  | cons k0 right ih =>
    intro left k ch h
    cases k with
    | zero =>
      simp [Loc.childrenAux] at h
      subst h
      simp [Loc.pos_eq_posOf, posOf_cons]
    | succ k =>
      simp only [Loc.childrenAux, List.getElem?_cons_succ] at h
      have := ih (k0 :: left) k ch h
      rw [this]
      simp only [List.length_cons]
      congr 2
      omega

/-- Every child of `l` has `l`'s frame stack extended by one frame. -/
theorem childrenAux_mem (e : Elem) (up : List Frame) :
    ∀ (ks left : List Node) (ch : Loc), ch ∈ Loc.childrenAux e up left ks →
      ∃ f, ch.up = f :: up ∧ f.info = e ∧ left.length ≤ f.left.length := by
  intro ks
  induction ks with
  | nil => intro left ch h; simp [Loc.childrenAux] at h
  | cons k0 right ih =>
    intro left ch h
    simp only [Loc.childrenAux, List.mem_cons] at h
    rcases h with rfl | h
    · exact ⟨_, rfl, rfl, Nat.le_refl _⟩
    · obtain ⟨f, h1, h2, h3⟩ := ih (k0 :: left) ch h
      exact ⟨f, h1, h2, by simp at h3; omega⟩

/-- The `k`-th child of `l` is at position `l.pos ++ [k]`. -/
theorem Loc.children_pos (l : Loc) (k : Nat) (ch : Loc) (h : l.children[k]? = some ch) :
    ch.pos = l.pos ++ [k] := by
  unfold Loc.children at h
  split at h
  · have := childrenAux_pos _ _ _ _ _ _ h
    simpa [Loc.pos_eq_posOf] using this
  · simp at h

theorem Loc.children_pos_get (l : Loc) (k : Nat) (hk : k < l.children.length) :
    (l.children[k]).pos = l.pos ++ [k] :=
  l.children_pos k _ (List.getElem?_eq_getElem hk)

/-- The children of `l` are its `kids`, in order. -/
theorem Loc.children_focus (l : Loc) : l.children.map Loc.focus = l.focus.kids := by
  unfold Loc.children Node.kids
  split <;> simp_all [childrenAux_focus]

theorem Loc.children_up (l : Loc) (ch : Loc) (h : ch ∈ l.children) : ∃ f, ch.up = f :: l.up := by
  unfold Loc.children at h
  split at h
  · obtain ⟨f, hf, _⟩ := childrenAux_mem _ _ _ _ _ h; exact ⟨f, hf⟩
  · simp at h

/-! ### Descendants -/

/-- Invariant of a stretch of the pre-order walk below the frame stack `up` (`base = posOf up`),
    starting at child index `lo`. -/
structure Below (base : List Nat) (lo : Nat) (L : List Loc) : Prop where
  shape : ∀ d ∈ L, ∃ i s, lo ≤ i ∧ d.pos = base ++ i :: s
  sorted : L.Pairwise (fun a b => lexLt a.pos b.pos)

theorem Below.nil (base : List Nat) (lo : Nat) : Below base lo [] :=
  ⟨by intro d h; simp at h, List.Pairwise.nil⟩

theorem descNode_elem (enter : Loc → Bool) (e : Elem) (ks : List Node) (up : List Frame) (self : Loc) :
    descNode enter (.elem e ks) up self = if enter self then descAux enter e up [] ks else [] := by
  conv => lhs; unfold descNode

theorem descNode_str (enter : Loc → Bool) (k : StrKind) (s : Str) (up : List Frame) (self : Loc) :
    descNode enter (.str k s) up self = [] := by
  conv => lhs; unfold descNode

theorem descAux_nil (enter : Loc → Bool) (e : Elem) (up : List Frame) (left : List Node) :
    descAux enter e up left [] = [] := by
  conv => lhs; unfold descAux

theorem descAux_cons (enter : Loc → Bool) (e : Elem) (up : List Frame) (left : List Node) (k : Node)
    (right : List Node) :
    descAux enter e up left (k :: right) =
      (⟨k, ⟨left, e, right⟩ :: up⟩ :: descNode enter k (⟨left, e, right⟩ :: up) ⟨k, ⟨left, e, right⟩ :: up⟩)
        ++ descAux enter e up (k :: left) right := by
  conv => lhs; unfold descAux

theorem desc_below (enter : Loc → Bool) :
    (∀ (e : Elem) (up : List Frame) (left ks : List Node),
        Below (posOf up) left.length (descAux enter e up left ks)) ∧
    (∀ (n : Node) (up : List Frame) (self : Loc), Below (posOf up) 0 (descNode enter n up self)) := by
  apply descAux.mutual_induct enter
    (fun e up left ks => Below (posOf up) left.length (descAux enter e up left ks))
    (fun n up self => Below (posOf up) 0 (descNode enter n up self))
  · intro up self e ks hent ih
    rw [descNode_elem, if_pos hent]; exact ih
  · intro up self e ks hent
    rw [descNode_elem, if_neg hent]; exact Below.nil _ _
  · intro up self k s
    rw [descNode_str]; exact Below.nil _ _
  · intro e up left
    rw [descAux_nil]; exact Below.nil _ _
  · intro e up left k right here ih2 ih1
    rw [descAux_cons]
    rw [posOf_cons] at ih2
    simp only [List.length_cons] at ih1
    have hhere : here.pos = posOf up ++ [left.length] := by
      simp [here, Loc.pos_eq_posOf, posOf_cons]
    have shapeN : ∀ d ∈ descNode enter k (⟨left, e, right⟩ :: up) here,
        ∃ s, d.pos = posOf up ++ left.length :: s ∧ s ≠ [] := by
      intro d hd
      obtain ⟨i, s, _, hp⟩ := ih2.shape d hd
      exact ⟨i :: s, by simpa using hp, by simp⟩
    constructor
    · intro d hd
      simp only [List.cons_append, List.mem_cons, List.mem_append] at hd
      rcases hd with rfl | hd | hd
      · exact ⟨left.length, [], Nat.le_refl _, hhere⟩
      · obtain ⟨s, hp, _⟩ := shapeN d hd
        exact ⟨left.length, s, Nat.le_refl _, hp⟩
      · obtain ⟨i, s, hi, hp⟩ := ih1.shape d hd
        exact ⟨i, s, by omega, hp⟩
    · simp only [List.cons_append, List.pairwise_cons, List.pairwise_append, List.mem_append]
      refine ⟨?_, ih2.sorted, ih1.sorted, ?_⟩
      · intro a ha
        rcases ha with ha | ha
        · obtain ⟨s, hp, hs⟩ := shapeN a ha
          rw [hhere, hp]
          cases s with
          | nil => exact absurd rfl hs
          | cons i s =>
            have := lexLt_prefix (posOf up ++ [left.length]) i s
            simpa using this
        · obtain ⟨i, s, hi, hp⟩ := ih1.shape a ha
          rw [hhere, hp]
          exact lexLt_branch (posOf up) [] s (by omega)
      · intro a ha b hb
        obtain ⟨s, hp, _⟩ := shapeN a ha
        obtain ⟨i, t, hi, hq⟩ := ih1.shape b hb
        rw [hp, hq]
        exact lexLt_branch (posOf up) s t (by omega)

/-- The walk `Loc.descendants enter l` visits positions `l.pos ++ i :: s`, in strictly increasing
    document order. -/
theorem Loc.descendants_below (enter : Loc → Bool) (l : Loc) : Below l.pos 0 (l.descendants enter) := by
  unfold Loc.descendants
  split
  · rename_i e ks _
    exact (desc_below enter).1 e l.up [] ks
  · exact Below.nil _ _

/-- `descAux` is `childrenAux` with each child followed by its own walk. -/
theorem descAux_eq_flatMap (enter : Loc → Bool) (e : Elem) (up : List Frame) :
    ∀ (ks left : List Node), descAux enter e up left ks =
      (Loc.childrenAux e up left ks).flatMap (fun ch => ch :: descNode enter ch.focus ch.up ch) := by
  intro ks
  induction ks with
  | nil => intro left; simp [descAux_nil, Loc.childrenAux]
  | cons k right ih =>
    intro left
    rw [descAux_cons, ih]
    simp [Loc.childrenAux]

theorem descNode_self (enter : Loc → Bool) (ch : Loc) :
    descNode enter ch.focus ch.up ch = if enter ch then ch.descendants enter else [] := by
  unfold Loc.descendants
  cases h : ch.focus with
  | elem e ks => simp [descNode_elem]
  | str k s => simp [descNode_str]

/-- The recursive equation of the pre-order walk: each child, followed (when `enter` allows) by
    that child's own descendants. -/
theorem Loc.descendants_unfold (enter : Loc → Bool) (l : Loc) :
    l.descendants enter =
      l.children.flatMap (fun ch => ch :: if enter ch then ch.descendants enter else []) := by
  have hfun : (fun ch : Loc => ch :: descNode enter ch.focus ch.up ch) =
      (fun ch => ch :: if enter ch then ch.descendants enter else []) := by
    funext ch; rw [descNode_self]
  conv => lhs; unfold Loc.descendants
  unfold Loc.children
  split
  · rename_i e ks hf
    simp only [hf]
    rw [descAux_eq_flatMap, hfun]
  · rename_i k s hf
    simp [hf]

/-- Reachability by `children` steps (one or more). -/
inductive IsDesc : Loc → Loc → Prop where
  | child {l ch : Loc} : ch ∈ l.children → IsDesc l ch
  | step {l ch d : Loc} : ch ∈ l.children → IsDesc ch d → IsDesc l d

/-- Every location reachable by `children` steps is visited by the unrestricted walk. -/
theorem IsDesc.mem_descendants {l d : Loc} (h : IsDesc l d) : d ∈ l.descendants (fun _ => true) := by
  induction h with
  | child hc =>
    rw [Loc.descendants_unfold]
    exact List.mem_flatMap.mpr ⟨_, hc, by simp⟩
  | step hc _ ih =>
    rw [Loc.descendants_unfold]
    exact List.mem_flatMap.mpr ⟨_, hc, by simp [ih]⟩

theorem desc_sound (enter : Loc → Bool) :
    (∀ (e : Elem) (up : List Frame) (left ks : List Node),
        ∀ d ∈ descAux enter e up left ks, ∃ ch ∈ Loc.childrenAux e up left ks, d = ch ∨ IsDesc ch d) ∧
    (∀ (n : Node) (up : List Frame) (self : Loc), self.focus = n → self.up = up →
        ∀ d ∈ descNode enter n up self, IsDesc self d) := by
  apply descAux.mutual_induct enter
    (fun e up left ks =>
      ∀ d ∈ descAux enter e up left ks, ∃ ch ∈ Loc.childrenAux e up left ks, d = ch ∨ IsDesc ch d)
    (fun n up self => self.focus = n → self.up = up → ∀ d ∈ descNode enter n up self, IsDesc self d)
  · intro up self e ks hent ih hf hu d hd
    rw [descNode_elem, if_pos hent] at hd
    obtain ⟨ch, hch, hor⟩ := ih d hd
    have hmem : ch ∈ self.children := by
      unfold Loc.children; rw [hf]; simpa [hu] using hch
    rcases hor with rfl | hdesc
    · exact IsDesc.child hmem
    · exact IsDesc.step hmem hdesc
  · intro up self e ks hent _ _ d hd
    rw [descNode_elem, if_neg hent] at hd; simp at hd
  · intro up self k s _ _ d hd
    rw [descNode_str] at hd; simp at hd
  · intro e up left d hd
    rw [descAux_nil] at hd; simp at hd
  · intro e up left k right here ih2 ih1 d hd
    rw [descAux_cons] at hd
    simp only [List.cons_append, List.mem_cons, List.mem_append] at hd
    simp only [Loc.childrenAux, List.mem_cons, exists_eq_or_imp]
    rcases hd with rfl | hd | hd
    · exact Or.inl (Or.inl rfl)
    · exact Or.inl (Or.inr (ih2 rfl rfl d hd))
    · exact Or.inr (ih1 d hd)

/-- The walk only ever yields locations reachable by `children` steps … -/
theorem Loc.descendants_sound (enter : Loc → Bool) (l d : Loc) (h : d ∈ l.descendants enter) :
    IsDesc l d := by
  unfold Loc.descendants at h
  split at h
  · rename_i e ks hf
    obtain ⟨ch, hch, hor⟩ := (desc_sound enter).1 e l.up [] ks d h
    have hmem : ch ∈ l.children := by unfold Loc.children; rw [hf]; exact hch
    rcases hor with rfl | hdesc
    · exact IsDesc.child hmem
    · exact IsDesc.step hmem hdesc
  · simp at h

/-- … and the unrestricted walk (the one `select` uses) yields all of them. -/
theorem Loc.mem_descendants_iff (l d : Loc) : d ∈ l.descendants (fun _ => true) ↔ IsDesc l d :=
  ⟨l.descendants_sound _ d, IsDesc.mem_descendants⟩

/-! ### Ancestors -/

theorem ancestorsAux_spec : ∀ (up : List Frame) (n : Node) (a : Loc), a ∈ Loc.ancestorsAux n up →
    ∃ s, s ≠ [] ∧ posOf up = a.pos ++ s := by
  intro up
  induction up with
  | nil => intro n a h; simp [Loc.ancestorsAux] at h
  | cons f rest ih =>
    intro n a h
    simp only [Loc.ancestorsAux, List.mem_cons] at h
    rcases h with rfl | h
    · exact ⟨[f.left.length], by simp, by simp [posOf_cons, Loc.pos_eq_posOf]⟩
    · obtain ⟨s, hs, hp⟩ := ih _ a h
      exact ⟨s ++ [f.left.length], by simp, by rw [posOf_cons, hp, List.append_assoc]⟩

/-- Every ancestor's position is a strict prefix of the element's. -/
theorem Loc.ancestors_pos (l a : Loc) (h : a ∈ l.ancestors) : ∃ s, s ≠ [] ∧ l.pos = a.pos ++ s :=
  ancestorsAux_spec l.up l.focus a h

theorem ancestorsAux_length : ∀ (up : List Frame) (n : Node), (Loc.ancestorsAux n up).length = up.length := by
  intro up
  induction up with
  | nil => intro n; simp [Loc.ancestorsAux]
  | cons f rest ih => intro n; simp [Loc.ancestorsAux, ih]

/-- The `i`-th ancestor (nearest first) sits `i+1` levels up. -/
theorem ancestorsAux_get : ∀ (up : List Frame) (n : Node) (i : Nat) (a : Loc),
    (Loc.ancestorsAux n up)[i]? = some a → a.up = up.drop (i + 1) := by
  intro up
  induction up with
  | nil => intro n i a h; simp [Loc.ancestorsAux] at h
  | cons f rest ih =>
    intro n i a h
    cases i with
    | zero => simp [Loc.ancestorsAux] at h; subst h; simp
    | succ i =>
      simp only [Loc.ancestorsAux, List.getElem?_cons_succ] at h
      simpa using ih _ i a h

theorem ancestorsAux_getLast : ∀ (up : List Frame) (n : Node) (a : Loc),
    (Loc.ancestorsAux n up).getLast? = some a → a.up = [] := by
  intro up n a h
  rw [List.getLast?_eq_getElem?, ancestorsAux_length] at h
  have := ancestorsAux_get up n _ a h
  rw [this]
  cases up with
  | nil => simp
  | cons f rest => simp

/-- The top of the tree has the empty position. -/
theorem Loc.top_up (l : Loc) : l.top.up = [] := by
  unfold Loc.top Loc.ancestors
  cases h : (Loc.ancestorsAux l.focus l.up).getLast? with
  | some a => exact ancestorsAux_getLast _ _ a h
  | none =>
    simp only [Option.getD_none]
    have := congrArg List.length (List.getLast?_eq_none_iff.mp h)
    rw [ancestorsAux_length] at this
    exact List.eq_nil_of_length_eq_zero this

theorem Loc.top_of_up_nil (l : Loc) (h : l.up = []) : l.top = l := by
  unfold Loc.top Loc.ancestors
  rw [h]; simp [Loc.ancestorsAux]

/-- `tag is doc` (the top reached by `.parent`) iff `tag` has no parent. -/
theorem Loc.same_top_iff (l : Loc) : l.same l.top = true ↔ l.up = [] := by
  unfold Loc.same
  rw [beq_iff_eq]
  constructor
  · intro h
    have := congrArg List.length h
    rw [Loc.pos_length, Loc.pos_length, Loc.top_up] at this
    exact List.eq_nil_of_length_eq_zero this
  · intro h; rw [Loc.top_of_up_nil l h]

theorem Loc.same_iff (a b : Loc) : a.same b = true ↔ a.pos = b.pos := by
  unfold Loc.same; exact beq_iff_eq

/-! ### What `match` accepts -/

theorem matchEl_true (c : Ctx) (sel : SelList) (l : Loc) (h : matchEl c sel l = true) :
    l.isTag = true ∧ l.isDoc = false := by
  unfold matchEl at h
  unfold Loc.isTag Node.isTag Loc.isDoc
  split at h <;> simp_all

/-! ### The matcher's descendant walk -/

/-- `get_descendants(el, no_iframe)` is either empty (an iframe, when restricted) or the plain
    walk with the iframe cut. -/
theorem Ctx.descendants_below (c : Ctx) (l : Loc) (ni : Bool) : Below l.pos 0 (c.descendants l ni) := by
  unfold Ctx.descendants
  split
  · exact Below.nil _ _
  · exact l.descendants_below _

/-- `select`'s walk (`no_iframe = False`) is the unrestricted pre-order walk. -/
theorem Ctx.descendants_false (c : Ctx) (l : Loc) :
    c.descendants l false = l.descendants (fun _ => true) := by
  unfold Ctx.descendants
  simp

theorem Ctx.tagDescendants_sublist (c : Ctx) (l : Loc) (ni : Bool) :
    (c.tagDescendants l ni).Sublist (c.descendants l ni) := List.filter_sublist

end SoupVerif
