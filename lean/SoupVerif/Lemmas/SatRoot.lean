/-
  `:root`: the matcher's notion (`matchRoot`: the element `CSSMatch.__init__` found, or the child of
  an `iframe` in HTML, and no sibling that is an element, non-blank text or CDATA) against the
  specification's ("an element with no parent element"), as a checkable condition on one tree.
-/
import SoupVerif.Lemmas.SatMain
namespace SoupVerif
namespace SatRoot
open Css SatTree

theorem IsDesc.snoc {a b ch : Loc} (h : IsDesc a b) (hc : ch ∈ b.children) : IsDesc a ch := by
  induction h with
  | child h1 => exact IsDesc.step h1 (IsDesc.child hc)
  | step h1 _ ih => exact IsDesc.step h1 (ih hc)

/-- Every location whose top is `T` is `T` or is reached from `T` by `children` steps. -/
theorem in_tree : ∀ (n : Nat) (l T : Loc), l.up.length = n → l.top = T → l = T ∨ IsDesc T l := by
  intro n
  induction n with
  | zero =>
    intro l T hn hT
    have hup : l.up = [] := List.eq_nil_of_length_eq_zero hn
    rw [Loc.top_of_up_nil l hup] at hT
    exact Or.inl hT
  | succ n ih =>
    intro l T hn hT
    have hne : l.up ≠ [] := by intro h; rw [h] at hn; simp at hn
    obtain ⟨p, hp⟩ := exists_parent_of_up_ne l hne
    have hpl : p.up.length = n := by
      unfold Loc.parent? at hp
      cases hu : l.up with
      | nil => exact absurd hu hne
      | cons f rest =>
        rw [hu] at hp hn
        simp only [Option.some.injEq] at hp
        subst hp
        simpa using hn
    have hmem : l ∈ p.children := by
      rw [parent?_children l p hp]; simp
    rcases ih p T hpl (by rw [← top_parent l p hp]; exact hT) with rfl | hd
    · exact Or.inr (IsDesc.child hmem)
    · exact Or.inr (IsDesc.snoc hd hmem)

/-- The matcher's `:root` agrees with "no parent element" on every element of the tree `T`. -/
def RootAgrees (c : Ctx) (T : Loc) : Prop :=
  ∀ l, l.top = T → isElem l = true → matchRoot c l = isRootElem l

/-- The same as a finite check over the tree. -/
def rootCheck (c : Ctx) (T : Loc) : Bool :=
  (T :: T.descendants (fun _ => true)).all fun l => !isElem l || (matchRoot c l == isRootElem l)

theorem rootAgrees_of_check (c : Ctx) (T : Loc) (h : rootCheck c T = true) : RootAgrees c T := by
  intro l hT hel
  have hmem : l ∈ T :: T.descendants (fun _ => true) := by
    rcases in_tree _ l T rfl hT with rfl | hd
    · exact List.mem_cons_self ..
    · exact List.mem_cons_of_mem _ ((Loc.mem_descendants_iff T l).mpr hd)
  have := List.all_eq_true.mp h l hmem
  simpa [hel] using this

end SatRoot
end SoupVerif
