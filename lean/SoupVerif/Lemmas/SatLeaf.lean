/-
  Helper lemmas for `Properties/C01Sat`, part 2: the leaf tests (id, class, attribute, `:empty`,
  the `first/last/only-child/of-type` records) on the model side against `Spec/Css`.
-/
import SoupVerif.Lemmas.SatCore
namespace SoupVerif
namespace SatLeaf
open Css SatTree SatCore

/-! ### `#id` -/

theorem id_toStr : ("id".toStr : Str) = [105, 100] := by decide
theorem class_toStr : ("class".toStr : Str) = [99, 108, 97, 115, 115] := by decide
theorem type_toStr : ("type".toStr : Str) = [116, 121, 112, 101] := by decide

theorem id_single (c : Ctx) (e : Elem) (v : Str) (hv : v ≠ []) :
    matchId c e [v] = (idOf c e == some v) := by
  simp only [matchId, List.all_cons, List.all_nil, Bool.and_true, idOf, id_toStr]
  cases c.attrByName e [105, 100] with
  | none =>
    have : ([] : Str) ≠ v := fun h => hv h.symm
    simp [this]
  | some nv =>
    cases nv with
    | str s => simp
    | list L => simp

/-! ### `.class` -/

theorem class_single (c : Ctx) (e : Elem) (v : Str) :
    matchClasses c e [v] = hasClass c e v := by
  simp only [matchClasses, List.all_cons, List.all_nil, Bool.and_true, getClasses, hasClass,
    class_toStr]
  cases c.attrByName e [99, 108, 97, 115, 115] with
  | none => simp
  | some nv =>
    cases nv with
    | str s => exact splitWs_contains_eq v s
    | list L => rfl
where
  splitWs_contains_eq (v s : Str) :
      (splitWs s).contains v = (!v.isEmpty && !v.any isCssWs && hasWord v s) :=
    SatWords.splitWs_contains v s

/-! ### Attributes -/

/-- What the regular-expression templates have to mean (discharged by `C01Attr.attrPattern_sem`). -/
def TemplatesOk (env : CharEnv) : Prop :=
  ∀ (op : AttrOp) (v s : Str) (ic : Bool), (ic = true → env.fold = lowerCp) →
    Rx.isMatch env (Parser.attrPattern op.text v ic (v.any isCssWs)) s = valTest op v ic s

theorem attr_presence (c : Ctx) (e : Elem) (ns name : Str) :
    matchAttributes c e [compileAttr ns name none] = satAttr c e ns name none := by
  simp only [matchAttributes, List.all_cons, List.all_nil, Bool.and_true, compileAttr, satAttr]
  simp

/-- The value test the matcher performs for `[ns|name op v flag]` (for `!=` this is the `=` test of
    the inner `:not`): SOME attribute designated by `ns|name` has a value that passes it. -/
theorem attr_value (c : Ctx) (e : Elem) (ns name : Str) (t : AttrTest) (hT : TemplatesOk c.env)
    (hfold : caseInsensitive c name t.flag = true → c.env.fold = lowerCp) :
    matchAttributes c e [compileAttr ns name (some t)] =
      ((matchAttributeValues c e name ns).any fun v =>
        valTest t.op t.value (caseInsensitive c name t.flag) (nvalJoin v)) := by
  simp only [matchAttributes, List.all_cons, List.all_nil, Bool.and_true, compileAttr]
  congr 1
  funext v
  · by_cases hty : (t.flag == CaseFlag.none && lower name == [116, 121, 112, 101]) = true
    · -- the `type` attribute without a flag: two patterns
      have hflag : t.flag = CaseFlag.none := by
        have := (Bool.and_eq_true _ _).mp hty |>.1
        exact eq_of_beq this
      have hname : (lower name == [116, 121, 112, 101]) = true := (Bool.and_eq_true _ _).mp hty |>.2
      simp only [hty, Bool.or_true, if_true, Option.isSome_some, Bool.and_true]
      cases hx : c.isXml with
      | true =>
        simp only [if_true]
        rw [hT _ _ _ false (by simp)]
        simp [caseInsensitive, hflag, hx]
      | false =>
        have hci : caseInsensitive c name t.flag = true := by
          simp [caseInsensitive, hflag, hname, hx]
        simp only [Bool.false_eq_true, if_false]
        rw [hT _ _ _ true (fun _ => hfold hci), hci]
    · have hty' : (t.flag == CaseFlag.none && lower name == [116, 121, 112, 101]) = false := by
        simpa using hty
      simp only [hty', Bool.or_false, Bool.false_eq_true, if_false, Option.isSome_none,
        Bool.and_false]
      have hci : caseInsensitive c name t.flag = (t.flag == CaseFlag.i) := by
        cases hfl : t.flag with
        | i => simp [caseInsensitive]
        | s => simp [caseInsensitive]
        | none =>
          have : (lower name == [116, 121, 112, 101]) = false := by
            simpa [hfl] using hty'
          simp [caseInsensitive, this]
      rw [hT _ _ _ (t.flag == CaseFlag.i) (fun h => hfold (by rw [hci]; exact h)), hci]

theorem attrOnly_match (c : Ctx) (l : Loc) (e : Elem) (a : AttrSel) :
    matchSel c l e (attrOnlySel a) = matchAttributes c e [a] := by
  have h := matchSel_toSel c l e { attrs := [a] } none emptyList .none (by show (0 : Nat) < 4; decide)
  have h2 : attrOnlySel a = ({ attrs := [a] } : Parts).toSel none emptyList .none := rfl
  rw [h2, h]
  simp [partsOk, matchTag, matchNths_nil, matchId_nil, matchClasses_nil, matchSubs_nil, relOk_empty,
    hasFlag]

theorem attr_ne_sub (c : Ctx) (l : Loc) (e : Elem) (a : AttrSel) :
    matchList c l e (.mk [attrOnlySel a] true false) = !matchAttributes c e [a] := by
  rw [matchList_neg]
  simp [matchAny_cons, matchAny_nil, attrOnly_match]

/-- `[a op v]` with any operator but `!=`. -/
theorem attr_pos (c : Ctx) (e : Elem) (ns name : Str) (t : AttrTest) (hT : TemplatesOk c.env)
    (hfold : caseInsensitive c name t.flag = true → c.env.fold = lowerCp)
    (hop : (t.op == AttrOp.ne) = false) :
    matchAttributes c e [compileAttr ns name (some t)] = satAttr c e ns name (some t) := by
  rw [attr_value c e ns name t hT hfold]
  unfold satAttr
  simp [hop]

/-- `[a!=v]`. -/
theorem attr_neg (c : Ctx) (e : Elem) (ns name : Str) (t : AttrTest) (hT : TemplatesOk c.env)
    (hfold : caseInsensitive c name t.flag = true → c.env.fold = lowerCp)
    (hop : (t.op == AttrOp.ne) = true) :
    (!matchAttributes c e [compileAttr ns name (some t)]) = satAttr c e ns name (some t) := by
  rw [attr_value c e ns name t hT hfold]
  unfold satAttr
  simp [hop]

/-! ### `:empty` -/

theorem empty_eq (l : Loc) : matchEmpty l = isEmptyElem l := by
  unfold matchEmpty isEmptyElem
  rw [List.any_eq_not_all_not, Bool.not_not]
  congr 1
  funext ch
  simp [isElem, Loc.isTag]

end SatLeaf
end SoupVerif
