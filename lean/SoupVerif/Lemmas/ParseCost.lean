/-
  C07, parser level (umbrella).  The theory lives in `Lemmas/ParseCost/`:
  * `Twin`    : the twins of `Spec/ParseCost.lean` compute the model's results (any weight);
  * `Steps`   : potential argument for the number of loop iterations;
  * `Weight`  : accumulated weight ≤ (bound of one iteration) · (number of iterations);
  * `Caps`    : capture spans lie inside the match; `css_unescape` does not lengthen;
  * `Iter`    : polynomial bound of the regular-expression work of one iteration;
  * `Compile` : a whole `compile`.
-/
import SoupVerif.Lemmas.ParseCost.Twin
import SoupVerif.Lemmas.ParseCost.Steps
import SoupVerif.Lemmas.ParseCost.Weight
import SoupVerif.Lemmas.ParseCost.Caps
import SoupVerif.Lemmas.ParseCost.Iter
import SoupVerif.Lemmas.ParseCost.Compile
