/-
  C07 lemmas, part 4: `Det r` ⇒ the ends of `r` from any start are pairwise distinct, and the
  follow-last set is sound.  The unique-decomposition theorem for the repeat loop.
-/
import SoupVerif.Lemmas.RegexCost.Excl
import Mathlib.Data.List.Nodup
set_option autoImplicit false
namespace SoupVerif
namespace Rx

/-- Semantic determinism of a list of ends from every start: no duplicates, and whenever one end
    is a proper prefix of another, the symbol after the shorter lies in `FL`. -/
def DetSem (sp : Specials) (s : Str) (E : Nat → List Nat) (FL : CSet) : Prop :=
  ∀ i, (E i).Nodup ∧ ∀ e1 e2, e1 ∈ E i → e2 ∈ E i → e1 < e2 → FL.mem sp s[e1]? = true

theorem detSem_of_single (sp : Specials) (s : Str) (E : Nat → List Nat) (FL : CSet)
    (h : ∀ i, (E i).length ≤ 1) : DetSem sp s E FL := by
  intro i
  have := h i
  match hE : E i with
  | [] => simp
  | [a] => simp
  | a :: b :: l => rw [hE] at this; simp at this

theorem stepE_of_pos {body : Nat → List Nat} {mn : Nat} {mx : Option Nat} {g : Bool}
    {f c p p' : Nat} (h : p < p') :
    stepE body mn mx g f c p p' = iterE body mn mx g f (c + 1) p' := by
  unfold stepE
  have : (decide (p' > p) || decide (c + 1 < mn)) = true := by simp [h]
  rw [if_pos this]

theorem moreE_of_pos {body : Nat → List Nat} (hP : ∀ q e, e ∈ body q → q < e) {mn : Nat}
    {mx : Option Nat} {g : Bool} {f c p : Nat} :
    moreE body mn mx g f c p =
      if canMore mx c then (body p).flatMap (fun p' => iterE body mn mx g f (c + 1) p') else [] := by
  unfold moreE
  split
  · exact List.flatMap_congr (fun p' hp' => stepE_of_pos (hP p p' hp'))
  · rfl

/-- The unique-decomposition theorem: iterating a deterministic, non-nullable body whose
    follow-last set is disjoint from its first set is deterministic. -/
theorem iterE_detSem (sp : Specials) (s : Str) (B : Nat → List Nat) (FL FI CF : CSet) (mn : Nat) (mx : Option Nat)
    (g : Bool)
    (hB : DetSem sp s B FL)
    (hP : ∀ q e, e ∈ B q → q < e)
    (hFI : ∀ q e, e ∈ B q → FI.mem sp s[q]? = true)
    (hCF : ∀ q e, e ∈ B q → CF.mem sp s[q]? = true)
    (hD : mx = some 1 ∨ CSet.disjoint sp FL FI = true) :
    ∀ f c p,
      (iterE B mn mx g f c p).Nodup ∧
      ∀ e1 e2, e1 ∈ iterE B mn mx g f c p → e2 ∈ iterE B mn mx g f c p → e1 < e2 →
        (if mx == some mn then FL else CSet.union FL CF).mem sp s[e1]? = true := by
  have hge : ∀ f c p e, e ∈ iterE B mn mx g f c p → p ≤ e := by
    intro f c p e h
    rcases iterE_pos B hP mn mx g f c p e h with h | h <;> omega
  -- (K): a non-maximal end of the body cannot be continued
  have hK : ∀ f c p p1 p2 e, p1 ∈ B p → p2 ∈ B p → p1 < p2 →
      e ∈ iterE B mn mx g f (c + 1) p1 → e = p1 := by
    intro f c p p1 p2 e h1 h2 hlt he
    have hfl := (hB p).2 p1 p2 h1 h2 hlt
    rcases hD with hD | hD
    · subst hD
      cases f with
      | zero => simp [iterE_zero] at he
      | succ f =>
        rcases mem_iterE_succ.mp he with ⟨_, rfl⟩ | ⟨hcm, _⟩
        · rfl
        · simp [canMore] at hcm
    · rcases iterE_pos B hP mn mx g f _ _ _ he with hgt | ⟨rfl, _⟩
      · obtain ⟨p'', hp'', _⟩ :=
          iterE_consumes B (fun q e he => Nat.le_of_lt (hP q e he)) mn mx g f _ _ _ he hgt
        exact (CSet.disjoint_sound hD _ hfl (hFI p1 p'' hp'')).elim
      · rfl
  intro f
  induction f with
  | zero => intro c p; simp [iterE_zero]
  | succ f ih =>
    intro c p
    constructor
    · rw [(iterE_perm B mn mx g f c p).nodup_iff, List.nodup_append]
      refine ⟨?_, ?_, ?_⟩
      · unfold stopE; split <;> simp
      · rw [moreE_of_pos hP]
        split
        · rw [List.nodup_flatMap]
          refine ⟨fun p' _ => (ih _ _).1, ?_⟩
          apply (hB p).1.pairwise_of_forall_ne
          intro p1 h1 p2 h2 hne
          show List.Disjoint _ _
          intro e he1 he2
          rcases Nat.lt_or_gt_of_ne hne with hlt | hlt
          · have := hK f c p p1 p2 e h1 h2 hlt he1
            have := hge _ _ _ _ he2
            omega
          · have := hK f c p p2 p1 e h2 h1 hlt he2
            have := hge _ _ _ _ he1
            omega
        · simp
      · intro a ha b hb
        have ha' : a = p := by unfold stopE at ha; split at ha <;> simp at ha; exact ha
        rw [moreE_of_pos hP] at hb
        split at hb
        · obtain ⟨p', hp', hb'⟩ := List.mem_flatMap.mp hb
          have := hP p p' hp'
          have := hge _ _ _ _ hb'
          omega
        · simp at hb
    · intro e1 e2 h1 h2 hlt
      have hmem : ∀ e, e ∈ iterE B mn mx g (f + 1) c p →
          (c ≥ mn ∧ e = p) ∨ (canMore mx c = true ∧ ∃ p' ∈ B p, e ∈ iterE B mn mx g f (c + 1) p') := by
        intro e he
        rcases mem_iterE_succ.mp he with h | ⟨hcm, p', hp', hs⟩
        · exact Or.inl h
        · rw [stepE_of_pos (hP p p' hp')] at hs
          exact Or.inr ⟨hcm, p', hp', hs⟩
      rcases hmem e1 h1 with ⟨hc, rfl⟩ | ⟨_, p1, hp1, he1⟩
      · rcases hmem e2 h2 with ⟨_, rfl⟩ | ⟨hcm, p2, hp2, _⟩
        · omega
        · have hne : (mx == some mn) = false := by
            cases mx with
            | none => rfl
            | some m =>
              simp only [canMore, decide_eq_true_eq] at hcm
              simp; omega
          rw [hne]
          simp only [Bool.false_eq_true, if_false, CSet.mem_union, Bool.or_eq_true]
          exact Or.inr (hCF e1 p2 hp2)
      · rcases hmem e2 h2 with ⟨_, rfl⟩ | ⟨_, p2, hp2, he2⟩
        · have := hP e2 p1 hp1
          have := hge _ _ _ _ he1
          omega
        · have hFLT : ∀ o, FL.mem sp o = true →
              (if mx == some mn then FL else CSet.union FL CF).mem sp o = true := by
            intro o ho
            split
            · exact ho
            · rw [CSet.mem_union, ho]; rfl
          rcases Nat.lt_trichotomy p1 p2 with hlt' | heq | hlt'
          · have := hK f c p p1 p2 e1 hp1 hp2 hlt' he1
            subst this
            exact hFLT _ ((hB p).2 e1 p2 hp1 hp2 hlt')
          · subst heq
            exact (ih _ _).2 e1 e2 he1 he2 hlt
          · have := hK f c p p2 p1 e2 hp2 hp1 hlt' he2
            have := hge _ _ _ _ he1
            omega

theorem endsAlt_nil (env : CharEnv) (s : Str) (i : Nat) :
    ∀ rs : List Rx, (∀ y ∈ rs, ends env s y i = []) → endsAlt env s rs i = []
  | [], _ => rfl
  | r :: rs, h => by
    simp only [endsAlt]
    rw [h r (List.mem_cons_self ..), endsAlt_nil env s i rs (fun y hy => h y (List.mem_cons_of_mem _ hy))]
    rfl

mutual
theorem det_sound {sp : Specials} (env : CharEnv) (ok : EnvOK sp env) (s : Str) :
    ∀ r : Rx, Det sp r = true → DetSem sp s (fun i => ends env s r i) (fl sp r)
  | .lit c ic, _ => detSem_of_single sp s _ _ (leaf_length_le_one env s _ rfl)
  | .notLit c ic, _ => detSem_of_single sp s _ _ (leaf_length_le_one env s _ rfl)
  | .any d, _ => detSem_of_single sp s _ _ (leaf_length_le_one env s _ rfl)
  | .set n is ic, _ => detSem_of_single sp s _ _ (leaf_length_le_one env s _ rfl)
  | .seq rs, h => by
    simp only [Det] at h
    intro i; simp only [ends, fl]; exact detSeq_sound env ok s rs h i
  | .alt rs, h => by
    simp only [Det] at h
    intro i; simp only [ends, fl]; exact detAlt_sound env ok s rs h i
  | .group _ r, h => by
    simp only [Det] at h
    intro i; simp only [ends, fl]; exact det_sound env ok s r h i
  | .rep mn mx g r, h => by
    simp only [Det, Bool.and_eq_true, Bool.or_eq_true, Bool.not_eq_true', beq_iff_eq] at h
    obtain ⟨⟨hd, hn⟩, hD⟩ := h
    intro i
    simp only [ends, fl]
    exact iterE_detSem sp s (fun p => ends env s r p) (fl sp r) (first sp r) (cfirst sp r) mn mx g
      (det_sound env ok s r hd)
      (fun q e he => nullable_sound env s r hn q e he)
      (fun q e he => first_sound env ok s r q e he)
      (fun q e he => cfirst_sound env ok s r q e he (nullable_sound env s r hn q e he))
      hD _ _ _
  | .bos, _ => detSem_of_single sp s _ _ (zw_length_le_one env s _ rfl)
  | .eol, _ => detSem_of_single sp s _ _ (zw_length_le_one env s _ rfl)
  | .eos, _ => detSem_of_single sp s _ _ (zw_length_le_one env s _ rfl)
  | .look a n r, _ => detSem_of_single sp s _ _ (zw_length_le_one env s _ rfl)
theorem detSeq_sound {sp : Specials} (env : CharEnv) (ok : EnvOK sp env) (s : Str) :
    ∀ rs : List Rx, detSeq sp rs = true → DetSem sp s (fun i => endsSeq env s rs i) (flSeq sp rs)
  | [], _ => detSem_of_single sp s _ _ (fun i => by simp [endsSeq])
  | r :: rs, h => by
    simp only [detSeq, Bool.and_eq_true] at h
    obtain ⟨⟨hr, hrs⟩, hdis⟩ := h
    have ihr := det_sound env ok s r hr
    have ihs := detSeq_sound env ok s rs hrs
    -- a shorter end of `r` cannot be followed by a consuming match of the rest
    have hkey : ∀ i m1 m2 e, m1 ∈ ends env s r i → m2 ∈ ends env s r i → m1 < m2 →
        e ∈ endsSeq env s rs m1 → e = m1 := by
      intro i m1 m2 e h1 h2 hlt he
      have hfl := (ihr i).2 m1 m2 h1 h2 hlt
      have hge := (endsSeq_endOK env s rs m1 e he).1
      by_cases hgt : m1 < e
      · exact (CSet.disjoint_sound hdis _ hfl (cfirstSeq_sound env ok s rs m1 e he hgt)).elim
      · omega
    intro i
    simp only [endsSeq]
    constructor
    · rw [List.nodup_flatMap]
      refine ⟨fun m _ => (ihs m).1, ?_⟩
      apply (ihr i).1.pairwise_of_forall_ne
      intro m1 h1 m2 h2 hne
      show List.Disjoint _ _
      intro e he1 he2
      rcases Nat.lt_or_gt_of_ne hne with hlt | hlt
      · have := hkey i m1 m2 e h1 h2 hlt he1
        have := (endsSeq_endOK env s rs m2 e he2).1
        omega
      · have := hkey i m2 m1 e h2 h1 hlt he2
        have := (endsSeq_endOK env s rs m1 e he1).1
        omega
    · intro e1 e2 h1 h2 hlt
      obtain ⟨m1, hm1, he1⟩ := List.mem_flatMap.mp h1
      obtain ⟨m2, hm2, he2⟩ := List.mem_flatMap.mp h2
      simp only [flSeq, CSet.mem_union, Bool.or_eq_true]
      rcases Nat.lt_trichotomy m1 m2 with hlt' | heq | hlt'
      · right
        have := hkey i m1 m2 e1 hm1 hm2 hlt' he1
        subst this
        cases hn : nullableSeq rs with
        | false => have := nullableSeq_sound env s rs hn e1 e1 he1; omega
        | true =>
          simp only [if_true, CSet.mem_inter, Bool.and_eq_true]
          exact ⟨(ihr i).2 e1 m2 hm1 hm2 hlt', firstSeq_sound env ok s rs e1 e1 he1⟩
      · subst heq
        exact Or.inl ((ihs m1).2 e1 e2 he1 he2 hlt)
      · have := hkey i m2 m1 e2 hm2 hm1 hlt' he2
        have := (endsSeq_endOK env s rs m1 e1 he1).1
        omega
theorem detAlt_sound {sp : Specials} (env : CharEnv) (ok : EnvOK sp env) (s : Str) :
    ∀ rs : List Rx, detAlt sp rs = true → DetSem sp s (fun i => endsAlt env s rs i) (flAlt sp rs)
  | [], _ => detSem_of_single sp s _ _ (fun i => by simp [endsAlt])
  | r :: rs, h => by
    simp only [detAlt, Bool.and_eq_true, List.all_eq_true] at h
    obtain ⟨⟨hr, hrs⟩, hex⟩ := h
    have ihr := det_sound env ok s r hr
    have ihs := detAlt_sound env ok s rs hrs
    intro i
    simp only [endsAlt, flAlt]
    cases hE : ends env s r i with
    | nil =>
      rw [List.nil_append]
      refine ⟨(ihs i).1, fun e1 e2 h1 h2 hlt => ?_⟩
      rw [CSet.mem_union, (ihs i).2 e1 e2 h1 h2 hlt, Bool.or_true]
    | cons a l =>
      have hnil : endsAlt env s rs i = [] := by
        apply endsAlt_nil
        intro y hy
        cases hy' : ends env s y i with
        | nil => rfl
        | cons b _ =>
          exact (excl_sound env ok s _ r y (hex y hy) i a b (by rw [hE]; exact List.mem_cons_self ..)
            (by rw [hy']; exact List.mem_cons_self ..)).elim
      rw [hnil, List.append_nil, ← hE]
      refine ⟨(ihr i).1, fun e1 e2 h1 h2 hlt => ?_⟩
      rw [CSet.mem_union, (ihr i).2 e1 e2 h1 h2 hlt, Bool.true_or]
end

/-- Key lemma ("deterministic ⇒ unambiguous"): the end positions of a `Det` expression are
    pairwise distinct. -/
theorem det_ends_nodup {sp : Specials} (env : CharEnv) (ok : EnvOK sp env) (s : Str) (r : Rx) (h : Det sp r = true)
    (i : Nat) : (ends env s r i).Nodup := (det_sound env ok s r h i).1

end Rx
end SoupVerif
