/-
  C07 lemmas, part 2: soundness of the character-set abstraction, `nullable`, `first`, `cfirst`.
-/
import SoupVerif.Lemmas.RegexCost.Ends
namespace SoupVerif
namespace Rx

/-! ## CSet -/

theorem key_lt (o : Option Nat) : key o < 130 := by
  cases o with
  | none => simp [key]
  | some c => simp only [key]; split <;> omega

theorem key_some_le (x : Nat) : key (some x) ≤ 128 := by
  simp only [key]; split <;> omega

theorem CSet.disjoint_sound {a b : CSet} (h : CSet.disjoint a b = true) (o : Option Nat)
    (ha : a.mem o = true) (hb : b.mem o = true) : False := by
  unfold CSet.disjoint at h
  rw [List.all_eq_true] at h
  have := h (key o) (List.mem_range.mpr (key_lt o))
  simp only [CSet.mem] at ha hb
  simp [ha, hb] at this

theorem CSet.mem_union (a b : CSet) (o : Option Nat) :
    (CSet.union a b).mem o = (a.mem o || b.mem o) := rfl
theorem CSet.mem_inter (a b : CSet) (o : Option Nat) :
    (CSet.inter a b).mem o = (a.mem o && b.mem o) := rfl
theorem CSet.mem_all (o : Option Nat) : CSet.all.mem o = true := rfl
theorem CSet.mem_empty (o : Option Nat) : CSet.empty.mem o = false := rfl
theorem CSet.mem_compl (a : CSet) (o : Option Nat) : (CSet.compl a).mem o = !a.mem o := rfl

/-! ## The environment hypothesis -/

theorem lowerCp_lt {c : Nat} (h : c < 128) : lowerCp c < 128 := by
  unfold lowerCp; split <;> omega

theorem lowerCp_ge {c : Nat} (h : 128 ≤ c) : lowerCp c = c := by
  unfold lowerCp; split <;> omega

theorem asciiEnv_ok : EnvOK asciiEnv :=
  ⟨fun _ _ => rfl, fun c h => by show 128 ≤ lowerCp c; rw [lowerCp_ge h]; exact h⟩

theorem EnvOK.fold_eq_iff {env : CharEnv} (ok : EnvOK env) {y c : Nat} (hc : c < 128) :
    (env.fold y == env.fold c) = (lowerCp y == lowerCp c) := by
  rw [ok.ascii c hc]
  by_cases hy : y < 128
  · rw [ok.ascii y hy]
  · have h1 := ok.high y (by omega)
    have h2 := lowerCp_lt hc
    have h3 := lowerCp_ge (c := y) (by omega)
    have e1 : (env.fold y == lowerCp c) = false := by simp; omega
    have e2 : (lowerCp y == lowerCp c) = false := by simp; omega
    rw [e1, e2]

theorem itemHas_ascii {env : CharEnv} (ok : EnvOK env) (ic : Bool) {c : Nat} (hc : c < 128)
    (it : SetItem) (hcat : ∀ k, it ≠ .cat k) : itemHas env ic c it = itemHas asciiEnv ic c it := by
  cases it with
  | ch y =>
    simp only [itemHas]
    show (if ic = true then env.fold y == env.fold c else y == c) =
      (if ic = true then lowerCp y == lowerCp c else y == c)
    rw [ok.fold_eq_iff hc]
  | range lo hi =>
    simp only [itemHas]
    show _ = ((decide (lo ≤ c) && decide (c ≤ hi)) || (ic && ((decide (lo ≤ lowerCp c) && decide (lowerCp c ≤ hi)) || _)))
    rw [ok.ascii c hc]
  | cat k => exact absurd rfl (hcat k)

theorem itemHas_high {env : CharEnv} (ok : EnvOK env) (ic : Bool) {c : Nat} (hc : 128 ≤ c)
    (it : SetItem) (h : itemHas env ic c it = true) : itemHigh it = true := by
  cases it with
  | ch y =>
    simp only [itemHas] at h
    simp only [itemHigh, decide_eq_true_eq]
    cases ic
    · simp at h; omega
    · simp only [if_true, beq_iff_eq] at h
      by_cases hy : y < 128
      · have := ok.ascii y hy; have := lowerCp_lt hy; have := ok.high c hc; omega
      · omega
  | range lo hi =>
    simp only [itemHas, Bool.or_eq_true, Bool.and_eq_true, decide_eq_true_eq] at h
    simp only [itemHigh, decide_eq_true_eq]
    have := ok.high c hc
    omega
  | cat k => rfl

theorem itemApx_upper {env : CharEnv} (ok : EnvOK env) (ic : Bool) (x : Nat) (it : SetItem)
    (h : itemHas env ic x it = true) : itemApx true ic (key (some x)) it = true := by
  unfold itemApx key
  by_cases hx : x < 128
  · simp only [hx, if_true]
    cases it with
    | cat k => rfl
    | ch y => simp only []; rw [← itemHas_ascii ok ic hx _ (by intro k; simp)]; exact h
    | range lo hi => simp only []; rw [← itemHas_ascii ok ic hx _ (by intro k; simp)]; exact h
  · simp only [hx, if_false]
    have := itemHas_high ok ic (by omega : 128 ≤ x) it h
    simp [this]

theorem itemApx_lower {env : CharEnv} (ok : EnvOK env) (ic : Bool) (x : Nat) (it : SetItem)
    (h : itemApx false ic (key (some x)) it = true) : itemHas env ic x it = true := by
  unfold itemApx key at h
  by_cases hx : x < 128
  · simp only [hx, if_true] at h
    cases it with
    | cat k => simp at h
    | ch y => simp only [] at h; rw [itemHas_ascii ok ic hx _ (by intro k; simp)]; exact h
    | range lo hi => simp only [] at h; rw [itemHas_ascii ok ic hx _ (by intro k; simp)]; exact h
  · simp [hx] at h

theorem any_mono {α : Type} (l : List α) (f g : α → Bool) (h : ∀ x, f x = true → g x = true)
    (hf : l.any f = true) : l.any g = true := by
  rw [List.any_eq_true] at hf ⊢
  obtain ⟨x, hx, hfx⟩ := hf
  exact ⟨x, hx, h x hfx⟩

theorem EnvOK.fold_eq_iff' {env : CharEnv} (ok : EnvOK env) {x c : Nat} (hx : x < 128) :
    (env.fold x == env.fold c) = (lowerCp x == lowerCp c) := by
  rw [Bool.beq_comm, ok.fold_eq_iff hx, Bool.beq_comm]

theorem litOk_ascii {env : CharEnv} (ok : EnvOK env) (ic : Bool) {x : Nat} (c : Nat) (hx : x < 128) :
    (if ic = true then env.fold x == env.fold c else x == c) =
      (if ic = true then lowerCp x == lowerCp c else x == c) := by
  cases ic
  · rfl
  · simp only [if_true]; exact ok.fold_eq_iff' hx

theorem litOk_high {env : CharEnv} (ok : EnvOK env) (ic : Bool) {x c : Nat} (hx : 128 ≤ x)
    (h : (if ic = true then env.fold x == env.fold c else x == c) = true) : 128 ≤ c := by
  cases ic
  · simp at h; omega
  · simp only [if_true, beq_iff_eq] at h
    by_cases hc : c < 128
    · have := ok.ascii c hc; have := lowerCp_lt hc; have := ok.high x hx; omega
    · omega

theorem leafApx_upper {env : CharEnv} (ok : EnvOK env) (r : Rx) (x : Nat)
    (h : charOk env r x = true) : leafApx true r (key (some x)) = true := by
  cases r <;> simp only [charOk, Bool.false_eq_true] at h
  · -- lit
    rename_i c ic
    simp only [leafApx, key]
    by_cases hx : x < 128
    · simp only [hx, if_true]
      rw [← litOk_ascii ok ic c hx]; exact h
    · have := litOk_high ok ic (by omega) h
      simp [hx, this]
  · -- notLit
    rename_i c ic
    simp only [leafApx, key]
    by_cases hx : x < 128
    · simp only [hx, if_true]
      rw [← litOk_ascii ok ic c hx]; exact h
    · simp [hx]
  · -- any
    rename_i d
    simp only [leafApx, key]
    by_cases hx : x < 128
    · simp only [hx, if_true]; exact h
    · simp [hx]
  · -- set
    rename_i neg items ic
    simp only [leafApx]
    have hk := key_some_le x
    rw [if_pos (by omega)]
    unfold setHas at h
    cases neg
    · simp only [Bool.bne_false] at h ⊢
      exact any_mono _ _ _ (fun it => itemApx_upper ok ic x it) h
    · simp only [bne_self_eq_false, Bool.bne_true, Bool.not_eq_true'] at h ⊢
      cases hany : items.any (itemApx false ic (key (some x))) with
      | false => rfl
      | true =>
        have := any_mono _ _ _ (fun it => itemApx_lower ok ic x it) hany
        rw [h] at this; exact absurd this (by simp)

theorem leafApx_lower {env : CharEnv} (ok : EnvOK env) (r : Rx) (x : Nat)
    (h : leafApx false r (key (some x)) = true) : charOk env r x = true := by
  cases r <;> simp only [leafApx, Bool.false_eq_true] at h
  · -- lit
    rename_i c ic
    simp only [charOk]
    simp only [key] at h
    by_cases hx : x < 128
    · simp only [hx, if_true] at h
      rw [litOk_ascii ok ic c hx]; exact h
    · simp [hx] at h
  · -- notLit
    rename_i c ic
    simp only [charOk]
    simp only [key] at h
    by_cases hx : x < 128
    · simp only [hx, if_true] at h
      rw [litOk_ascii ok ic c hx]; exact h
    · have hc : c < 128 := by simpa [hx] using h
      cases hb : (if ic = true then env.fold x == env.fold c else x == c) with
      | false => rfl
      | true => have := litOk_high ok ic (by omega) hb; omega
  · -- any
    rename_i d
    simp only [charOk]
    simp only [key] at h
    by_cases hx : x < 128
    · simp only [hx, if_true] at h; exact h
    · simp only [Bool.or_eq_true, bne_iff_ne]; right; omega
  · -- set
    rename_i neg items ic
    simp only [charOk]
    have hk := key_some_le x
    rw [if_pos (by omega)] at h
    unfold setHas
    cases neg
    · simp only [Bool.bne_false] at h ⊢
      exact any_mono _ _ _ (fun it => itemApx_lower ok ic x it) h
    · simp only [Bool.bne_true, Bool.not_eq_true', Bool.not_false] at h ⊢
      cases hany : items.any (itemHas env ic x) with
      | false => rfl
      | true =>
        have := any_mono _ _ _ (fun it => itemApx_upper ok ic x it) hany
        rw [h] at this; exact absurd this (by simp)

theorem leafApx_eof (u : Bool) (r : Rx) : leafApx u r 129 = false := by
  cases r <;> simp [leafApx]

/-! ## The repeat loop: positivity, first symbols -/

theorem iterE_pos (body : Nat → List Nat) (hb : ∀ q e, e ∈ body q → q < e) (mn : Nat)
    (mx : Option Nat) (g : Bool) :
    ∀ f c p e, e ∈ iterE body mn mx g f c p → p < e ∨ (e = p ∧ c ≥ mn) := by
  intro f
  induction f with
  | zero => intro c p e h; simp [iterE_zero] at h
  | succ f ih =>
    intro c p e h
    rcases mem_iterE_succ.mp h with ⟨hc, rfl⟩ | ⟨_, p', hp', hs⟩
    · exact Or.inr ⟨rfl, hc⟩
    · have h1 := hb p p' hp'
      rcases mem_stepE.mp hs with ⟨_, h2⟩ | ⟨_, _, rfl⟩
      · rcases ih _ _ _ h2 with h3 | ⟨h3, _⟩ <;> left <;> omega
      · exact Or.inl h1

theorem iterE_consumes (body : Nat → List Nat) (hb : ∀ q e, e ∈ body q → q ≤ e) (mn : Nat)
    (mx : Option Nat) (g : Bool) :
    ∀ f c p e, e ∈ iterE body mn mx g f c p → p < e → ∃ p' ∈ body p, p < p' := by
  intro f
  induction f with
  | zero => intro c p e h; simp [iterE_zero] at h
  | succ f ih =>
    intro c p e h hlt
    rcases mem_iterE_succ.mp h with ⟨_, rfl⟩ | ⟨_, p', hp', hs⟩
    · omega
    · have h1 := hb p p' hp'
      by_cases hpp : p < p'
      · exact ⟨p', hp', hpp⟩
      · have : p' = p := by omega
        subst this
        rcases mem_stepE.mp hs with ⟨_, h2⟩ | ⟨_, _, rfl⟩
        · exact ih _ _ _ h2 hlt
        · omega

theorem iterE_first (body : Nat → List Nat) (mn : Nat) (hmn : 0 < mn)
    (mx : Option Nat) (g : Bool) (f p e : Nat) (h : e ∈ iterE body mn mx g f 0 p) :
    ∃ p', p' ∈ body p := by
  cases f with
  | zero => simp [iterE_zero] at h
  | succ f =>
    rcases mem_iterE_succ.mp h with ⟨hc, _⟩ | ⟨_, p', hp', _⟩
    · omega
    · exact ⟨p', hp'⟩

/-! ## Soundness of `nullable`, `first`, `cfirst` -/

theorem first_leaf {env : CharEnv} (ok : EnvOK env) {s : Str} {r : Rx} (hl : isLeaf r = true)
    {i e : Nat} (h : e ∈ ends env s r i) : (leafApx true r).mem s[i]? = true := by
  obtain ⟨_, x, hx, hc⟩ := (mem_ends_leaf hl).mp h
  rw [hx]; exact leafApx_upper ok r x hc

mutual
theorem nullable_sound (env : CharEnv) (s : Str) :
    ∀ (r : Rx), nullable r = false → ∀ i e, e ∈ ends env s r i → i < e
  | .lit c ic, _, i, e, h => by have := (mem_ends_leaf (r := .lit c ic) rfl).mp h; omega
  | .notLit c ic, _, i, e, h => by have := (mem_ends_leaf (r := .notLit c ic) rfl).mp h; omega
  | .any d, _, i, e, h => by have := (mem_ends_leaf (r := .any d) rfl).mp h; omega
  | .set n is ic, _, i, e, h => by have := (mem_ends_leaf (r := .set n is ic) rfl).mp h; omega
  | .seq rs, hn, i, e, h => by
    simp only [nullable] at hn; simp only [ends] at h; exact nullableSeq_sound env s rs hn i e h
  | .alt rs, hn, i, e, h => by
    simp only [nullable] at hn; simp only [ends] at h; exact nullableAlt_sound env s rs hn i e h
  | .group _ r, hn, i, e, h => by
    simp only [nullable] at hn; simp only [ends] at h; exact nullable_sound env s r hn i e h
  | .rep mn mx g r, hn, i, e, h => by
    simp only [nullable, Bool.or_eq_false_iff, beq_eq_false_iff_ne] at hn
    simp only [ends] at h
    rcases iterE_pos _ (fun q e he => nullable_sound env s r hn.2 q e he) mn mx g _ _ _ _ h with h | h
    · exact h
    · omega
  | .bos, hn, _, _, _ => by simp [nullable] at hn
  | .eol, hn, _, _, _ => by simp [nullable] at hn
  | .eos, hn, _, _, _ => by simp [nullable] at hn
  | .look _ _ _, hn, _, _, _ => by simp [nullable] at hn
theorem nullableSeq_sound (env : CharEnv) (s : Str) :
    ∀ (rs : List Rx), nullableSeq rs = false → ∀ i e, e ∈ endsSeq env s rs i → i < e
  | [], hn, _, _, _ => by simp [nullableSeq] at hn
  | r :: rs, hn, i, e, h => by
    simp only [endsSeq, List.mem_flatMap] at h
    obtain ⟨j, hj, he⟩ := h
    have h1 := ends_endOK env s r i j hj
    have h2 := endsSeq_endOK env s rs j e he
    simp only [nullableSeq, Bool.and_eq_false_iff] at hn
    rcases hn with hn | hn
    · have := nullable_sound env s r hn i j hj; omega
    · have := nullableSeq_sound env s rs hn j e he; omega
theorem nullableAlt_sound (env : CharEnv) (s : Str) :
    ∀ (rs : List Rx), nullableAlt rs = false → ∀ i e, e ∈ endsAlt env s rs i → i < e
  | [], _, _, _, h => by simp [endsAlt] at h
  | r :: rs, hn, i, e, h => by
    simp only [nullableAlt, Bool.or_eq_false_iff] at hn
    simp only [endsAlt, List.mem_append] at h
    rcases h with h | h
    · exact nullable_sound env s r hn.1 i e h
    · exact nullableAlt_sound env s rs hn.2 i e h
end

mutual
theorem first_sound (env : CharEnv) (ok : EnvOK env) (s : Str) :
    ∀ (r : Rx) (i e : Nat), e ∈ ends env s r i → (first r).mem s[i]? = true
  | .lit c ic, i, e, h => by simp only [first]; exact first_leaf ok rfl h
  | .notLit c ic, i, e, h => by simp only [first]; exact first_leaf ok rfl h
  | .any d, i, e, h => by simp only [first]; exact first_leaf ok rfl h
  | .set n is ic, i, e, h => by simp only [first]; exact first_leaf ok rfl h
  | .seq rs, i, e, h => by simp only [ends] at h; simp only [first]; exact firstSeq_sound env ok s rs i e h
  | .alt rs, i, e, h => by simp only [ends] at h; simp only [first]; exact firstAlt_sound env ok s rs i e h
  | .group _ r, i, e, h => by simp only [ends] at h; simp only [first]; exact first_sound env ok s r i e h
  | .rep mn mx g r, i, e, h => by
    simp only [first]
    split
    · rfl
    · rename_i hmn
      simp only [ends] at h
      obtain ⟨p', hp'⟩ := iterE_first _ mn (by simp at hmn; omega) mx g _ _ _ h
      exact first_sound env ok s r i p' hp'
  | .bos, _, _, _ => rfl
  | .eol, i, e, h => by
    simp only [ends] at h
    split at h
    · rename_i hc
      simp only [first, CSet.mem]
      simp only [Bool.or_eq_true, beq_iff_eq, Bool.and_eq_true] at hc
      rcases hc with hc | ⟨_, hc⟩
      · have : s[i]? = none := List.getElem?_eq_none (by omega)
        rw [this]; rfl
      · rw [hc]; rfl
    · simp at h
  | .eos, i, e, h => by
    simp only [ends] at h
    split at h
    · rename_i hc
      simp only [beq_iff_eq] at hc
      have : s[i]? = none := List.getElem?_eq_none (by omega)
      simp only [first, CSet.mem]; rw [this]; rfl
    · simp at h
  | .look true true r, i, e, h => by
    simp only [first]
    split
    · rename_i hl
      simp only [ends] at h
      rw [CSet.mem_compl]
      cases hx : s[i]? with
      | none => simp only [CSet.mem, key]; rw [leafApx_eof]; rfl
      | some x =>
        cases hm : (leafApx false r).mem (some x) with
        | false => rfl
        | true =>
          have hc := leafApx_lower ok r x hm
          have : (i + 1) ∈ ends env s r i := (mem_ends_leaf hl).mpr ⟨rfl, x, hx, hc⟩
          have hne : (ends env s r i).isEmpty = false := by
            cases hh : ends env s r i with
            | nil => rw [hh] at this; simp at this
            | cons _ _ => rfl
          rw [hne] at h; simp at h
    · rfl
  | .look true false r, i, e, h => by
    simp only [first]
    simp only [ends] at h
    cases hh : ends env s r i with
    | nil => rw [hh] at h; simp at h
    | cons e' _ =>
      exact first_sound env ok s r i e' (by rw [hh]; exact List.mem_cons_self ..)
  | .look false _ _, _, _, _ => rfl
theorem firstSeq_sound (env : CharEnv) (ok : EnvOK env) (s : Str) :
    ∀ (rs : List Rx) (i e : Nat), e ∈ endsSeq env s rs i → (firstSeq rs).mem s[i]? = true
  | [], _, _, _ => rfl
  | r :: rs, i, e, h => by
    simp only [endsSeq, List.mem_flatMap] at h
    obtain ⟨j, hj, he⟩ := h
    have h1 := first_sound env ok s r i j hj
    simp only [firstSeq]
    split
    · rw [CSet.mem_inter, CSet.mem_union, h1, Bool.true_and, Bool.or_eq_true]
      have hge := (ends_endOK env s r i j hj).1
      by_cases hij : i < j
      · exact Or.inl (cfirst_sound env ok s r i j hj hij)
      · have : j = i := by omega
        subst this
        exact Or.inr (firstSeq_sound env ok s rs j e he)
    · exact h1
theorem firstAlt_sound (env : CharEnv) (ok : EnvOK env) (s : Str) :
    ∀ (rs : List Rx) (i e : Nat), e ∈ endsAlt env s rs i → (firstAlt rs).mem s[i]? = true
  | [], _, _, h => by simp [endsAlt] at h
  | r :: rs, i, e, h => by
    simp only [endsAlt, List.mem_append] at h
    simp only [firstAlt, CSet.mem_union, Bool.or_eq_true]
    rcases h with h | h
    · exact Or.inl (first_sound env ok s r i e h)
    · exact Or.inr (firstAlt_sound env ok s rs i e h)
theorem cfirst_sound (env : CharEnv) (ok : EnvOK env) (s : Str) :
    ∀ (r : Rx) (i e : Nat), e ∈ ends env s r i → i < e → (cfirst r).mem s[i]? = true
  | .lit c ic, i, e, h, _ => by simp only [cfirst]; exact first_leaf ok rfl h
  | .notLit c ic, i, e, h, _ => by simp only [cfirst]; exact first_leaf ok rfl h
  | .any d, i, e, h, _ => by simp only [cfirst]; exact first_leaf ok rfl h
  | .set n is ic, i, e, h, _ => by simp only [cfirst]; exact first_leaf ok rfl h
  | .seq rs, i, e, h, hlt => by
    simp only [ends] at h; simp only [cfirst]; exact cfirstSeq_sound env ok s rs i e h hlt
  | .alt rs, i, e, h, hlt => by
    simp only [ends] at h; simp only [cfirst]; exact cfirstAlt_sound env ok s rs i e h hlt
  | .group _ r, i, e, h, hlt => by
    simp only [ends] at h; simp only [cfirst]; exact cfirst_sound env ok s r i e h hlt
  | .rep mn mx g r, i, e, h, hlt => by
    simp only [ends] at h; simp only [cfirst]
    obtain ⟨p', hp', hlt'⟩ := iterE_consumes _ (fun q e he => (ends_endOK env s r q e he).1) mn mx g _ _ _ _ h hlt
    exact cfirst_sound env ok s r i p' hp' hlt'
  | .bos, i, e, h, hlt => by have := mem_ends_zw (r := .bos) rfl h; omega
  | .eol, i, e, h, hlt => by have := mem_ends_zw (r := .eol) rfl h; omega
  | .eos, i, e, h, hlt => by have := mem_ends_zw (r := .eos) rfl h; omega
  | .look a n r, i, e, h, hlt => by have := mem_ends_zw (r := .look a n r) rfl h; omega
theorem cfirstSeq_sound (env : CharEnv) (ok : EnvOK env) (s : Str) :
    ∀ (rs : List Rx) (i e : Nat), e ∈ endsSeq env s rs i → i < e → (cfirstSeq rs).mem s[i]? = true
  | [], i, e, h, hlt => by simp [endsSeq] at h; omega
  | r :: rs, i, e, h, hlt => by
    simp only [endsSeq, List.mem_flatMap] at h
    obtain ⟨j, hj, he⟩ := h
    simp only [cfirstSeq, CSet.mem_union, Bool.or_eq_true]
    have hge := (ends_endOK env s r i j hj).1
    by_cases hij : i < j
    · exact Or.inl (cfirst_sound env ok s r i j hj hij)
    · have : j = i := by omega
      subst this
      right
      cases hn : nullable r with
      | false => have := nullable_sound env s r hn j j hj; omega
      | true =>
        simp only [if_true, CSet.mem_inter, Bool.and_eq_true]
        exact ⟨first_sound env ok s r j j hj, cfirstSeq_sound env ok s rs j e he hlt⟩
theorem cfirstAlt_sound (env : CharEnv) (ok : EnvOK env) (s : Str) :
    ∀ (rs : List Rx) (i e : Nat), e ∈ endsAlt env s rs i → i < e → (cfirstAlt rs).mem s[i]? = true
  | [], _, _, h, _ => by simp [endsAlt] at h
  | r :: rs, i, e, h, hlt => by
    simp only [endsAlt, List.mem_append] at h
    simp only [cfirstAlt, CSet.mem_union, Bool.or_eq_true]
    rcases h with h | h
    · exact Or.inl (cfirst_sound env ok s r i e h hlt)
    · exact Or.inr (cfirstAlt_sound env ok s rs i e h hlt)
end

end Rx
end SoupVerif
