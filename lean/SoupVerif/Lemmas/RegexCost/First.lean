/-
  C07 lemmas, part 2: soundness of the character-set abstraction (ASCII columns, one exact column
  per special code point, one approximate column for all other non-ASCII code points),
  `asciiEnv_ok`, `pyFoldEnv_ok`, `nullable`, `first`, `cfirst`.
-/
import SoupVerif.Lemmas.RegexCost.Ends
set_option autoImplicit false
namespace SoupVerif
namespace Rx

/-! ## CSet -/

theorem lookup_mem : ∀ (sp : Specials) (c a : Nat), sp.lookup c = some a → (c, a) ∈ sp
  | [], _, _, h => by simp [List.lookup] at h
  | (c', a') :: ps, c, a, h => by
    simp only [List.lookup] at h
    split at h
    · rename_i heq
      simp only [beq_iff_eq] at heq
      simp only [Option.some.injEq] at h
      subst heq; subst h; exact List.mem_cons_self ..
    · exact List.mem_cons_of_mem _ (lookup_mem ps c a h)

theorem isSpecial_mem {sp : Specials} {c : Nat} (h : isSpecial sp c = true) :
    ∃ a, sp.lookup c = some a ∧ (c, a) ∈ sp := by
  unfold isSpecial at h
  cases hl : sp.lookup c with
  | none => rw [hl] at h; simp at h
  | some a => exact ⟨a, rfl, lookup_mem sp c a hl⟩

theorem key_mem_keys (sp : Specials) (o : Option Nat) : key sp o ∈ keys sp := by
  unfold keys
  rw [List.mem_append]
  cases o with
  | none => left; simp [key]
  | some c =>
    simp only [key]
    split
    · left; rw [List.mem_range]; omega
    · split
      · rename_i hs
        obtain ⟨a, _, hm⟩ := isSpecial_mem hs
        right; exact List.mem_map.mpr ⟨(c, a), hm, rfl⟩
      · left; simp

theorem CSet.disjoint_sound {sp : Specials} {a b : CSet} (h : CSet.disjoint sp a b = true)
    (o : Option Nat) (ha : a.mem sp o = true) (hb : b.mem sp o = true) : False := by
  unfold CSet.disjoint at h
  rw [List.all_eq_true] at h
  have := h (key sp o) (key_mem_keys sp o)
  simp only [CSet.mem] at ha hb
  simp [ha, hb] at this

theorem CSet.mem_union (sp : Specials) (a b : CSet) (o : Option Nat) :
    (CSet.union a b).mem sp o = (a.mem sp o || b.mem sp o) := rfl
theorem CSet.mem_inter (sp : Specials) (a b : CSet) (o : Option Nat) :
    (CSet.inter a b).mem sp o = (a.mem sp o && b.mem sp o) := rfl
theorem CSet.mem_all (sp : Specials) (o : Option Nat) : CSet.all.mem sp o = true := rfl
theorem CSet.mem_empty (sp : Specials) (o : Option Nat) : CSet.empty.mem sp o = false := rfl
theorem CSet.mem_compl (sp : Specials) (a : CSet) (o : Option Nat) :
    (CSet.compl a).mem sp o = !a.mem sp o := rfl

/-! ## Keys: exact (ASCII or special) versus other -/

/-- An exact code point has its own key, from which it is recovered. -/
theorem key_exact {sp : Specials} {x : Nat} (h : isOther sp x = false) :
    (key sp (some x) == 128) = false ∧ (key sp (some x) == 129) = false ∧
      cpOfKey (key sp (some x)) = x := by
  simp only [key, cpOfKey]
  by_cases hx : x < 128
  · simp only [hx, if_true]
    refine ⟨by simp; omega, by simp; omega, trivial⟩
  · have hs : isSpecial sp x = true := by
      simp only [isOther, Bool.and_eq_false_iff, decide_eq_false_iff_not, Bool.not_eq_false'] at h
      rcases h with h | h
      · omega
      · exact h
    simp only [hx, if_false, hs, if_true]
    refine ⟨by simp; omega, by simp; omega, ?_⟩
    rw [if_neg (by omega)]; omega

theorem key_other {sp : Specials} {x : Nat} (h : isOther sp x = true) : key sp (some x) = 128 := by
  simp only [isOther, Bool.and_eq_true, decide_eq_true_eq, Bool.not_eq_true'] at h
  simp only [key]
  rw [if_neg (by omega), h.2]; rfl

theorem isOther_ge {sp : Specials} {x : Nat} (h : isOther sp x = true) : 128 ≤ x := by
  simp only [isOther, Bool.and_eq_true, decide_eq_true_eq] at h; exact h.1

/-! ## The environment hypothesis -/

theorem lowerCp_lt {c : Nat} (h : c < 128) : lowerCp c < 128 := by
  unfold lowerCp; split <;> omega

theorem lowerCp_ge {c : Nat} (h : 128 ≤ c) : lowerCp c = c := by
  unfold lowerCp; split <;> omega

theorem foldEnv_fold (sp : Specials) (c : Nat) :
    (foldEnv sp).fold c = match sp.lookup c with | some a => a | none => lowerCp c := rfl

/-- `foldEnv sp` is the canonical environment of a well-formed list of specials. -/
theorem foldEnv_ok {sp : Specials} (wf : ∀ p ∈ sp, 128 ≤ p.1 ∧ p.2 < 128)
    (nd : ∀ c a, (c, a) ∈ sp → sp.lookup c = some a) : EnvOK sp (foldEnv sp) where
  wf := wf
  ascii := by
    intro c hc
    rw [foldEnv_fold]
    cases hl : sp.lookup c with
    | none => rfl
    | some a => have := (wf _ (lookup_mem sp c a hl)).1; simp only at this; omega
  special := by
    intro p hp
    rw [foldEnv_fold, nd p.1 p.2 hp]
  high := by
    intro c hc hs
    rw [foldEnv_fold]
    unfold isSpecial at hs
    cases hl : sp.lookup c with
    | none => simp only; rw [lowerCp_ge hc]; exact hc
    | some a => rw [hl] at hs; simp at hs

theorem asciiEnv_ok : EnvOK [] asciiEnv :=
  foldEnv_ok (sp := []) (fun _ h => by simp at h) (fun _ _ h => by simp at h)

theorem pyFoldEnv_ok : EnvOK foldSpecials pyFoldEnv :=
  foldEnv_ok (sp := foldSpecials) (by decide) (by
    intro c a h
    simp only [foldSpecials, List.mem_cons, Prod.mk.injEq, List.not_mem_nil, or_false] at h
    rcases h with ⟨rfl, rfl⟩ | ⟨rfl, rfl⟩ | ⟨rfl, rfl⟩ | ⟨rfl, rfl⟩ <;> rfl)

/-- On an exact code point the environment agrees with `foldEnv sp`, and the fold is ASCII. -/
theorem EnvOK.fold_exact {sp : Specials} {env : CharEnv} (ok : EnvOK sp env) {x : Nat}
    (h : isOther sp x = false) : env.fold x = (foldEnv sp).fold x ∧ (foldEnv sp).fold x < 128 := by
  rw [foldEnv_fold]
  by_cases hx : x < 128
  · have hl : sp.lookup x = none := by
      cases hl : sp.lookup x with
      | none => rfl
      | some a => have := (ok.wf _ (lookup_mem sp x a hl)).1; simp only at this; omega
    rw [hl]
    exact ⟨ok.ascii x hx, lowerCp_lt hx⟩
  · have hs : isSpecial sp x = true := by
      simp only [isOther, Bool.and_eq_false_iff, decide_eq_false_iff_not, Bool.not_eq_false'] at h
      rcases h with h | h
      · omega
      · exact h
    obtain ⟨a, hl, hm⟩ := isSpecial_mem hs
    rw [hl]
    exact ⟨ok.special _ hm, (ok.wf _ hm).2⟩

/-- Another non-ASCII code point never folds into ASCII. -/
theorem EnvOK.fold_other {sp : Specials} {env : CharEnv} (ok : EnvOK sp env) {x : Nat}
    (h : isOther sp x = true) : 128 ≤ env.fold x := by
  simp only [isOther, Bool.and_eq_true, decide_eq_true_eq, Bool.not_eq_true'] at h
  exact ok.high x h.1 h.2

theorem foldEnv_fold_other {sp : Specials} {x : Nat} (h : isOther sp x = true) :
    (foldEnv sp).fold x = x := by
  simp only [isOther, Bool.and_eq_true, decide_eq_true_eq, Bool.not_eq_true'] at h
  rw [foldEnv_fold]
  have := h.2
  unfold isSpecial at this
  cases hl : sp.lookup x with
  | none => exact lowerCp_ge h.1
  | some a => rw [hl] at this; simp at this

theorem EnvOK.fold_eq_iff {sp : Specials} {env : CharEnv} (ok : EnvOK sp env) {y c : Nat}
    (hc : isOther sp c = false) :
    (env.fold y == env.fold c) = ((foldEnv sp).fold y == (foldEnv sp).fold c) := by
  obtain ⟨e1, l1⟩ := ok.fold_exact hc
  rw [e1]
  cases hy : isOther sp y with
  | false => rw [(ok.fold_exact hy).1]
  | true =>
    have h1 := ok.fold_other hy
    have h2 := foldEnv_fold_other hy
    have h3 := isOther_ge hy
    have e1 : (env.fold y == (foldEnv sp).fold c) = false := by simp; omega
    have e2 : ((foldEnv sp).fold y == (foldEnv sp).fold c) = false := by simp; omega
    rw [e1, e2]

theorem EnvOK.fold_eq_iff' {sp : Specials} {env : CharEnv} (ok : EnvOK sp env) {x c : Nat}
    (hx : isOther sp x = false) :
    (env.fold x == env.fold c) = ((foldEnv sp).fold x == (foldEnv sp).fold c) := by
  rw [Bool.beq_comm, ok.fold_eq_iff hx, Bool.beq_comm]

theorem itemHas_exact {sp : Specials} {env : CharEnv} (ok : EnvOK sp env) (ic : Bool) {c : Nat}
    (hc : isOther sp c = false) (it : SetItem) (hcat : ∀ k, it ≠ .cat k) :
    itemHas env ic c it = itemHas (foldEnv sp) ic c it := by
  cases it with
  | ch y =>
    simp only [itemHas]
    rw [ok.fold_eq_iff hc]
  | range lo hi =>
    simp only [itemHas]
    rw [(ok.fold_exact hc).1]
  | cat k => exact absurd rfl (hcat k)

theorem itemHas_high {sp : Specials} {env : CharEnv} (ok : EnvOK sp env) (ic : Bool) {c : Nat}
    (hc : isOther sp c = true) (it : SetItem) (h : itemHas env ic c it = true) :
    itemHigh sp it = true := by
  have hge := isOther_ge hc
  have hf := ok.fold_other hc
  cases it with
  | ch y =>
    simp only [itemHas] at h
    simp only [itemHigh]
    cases ic
    · simp at h; subst h; exact hc
    · simp only [if_true, beq_iff_eq] at h
      cases hy : isOther sp y with
      | true => rfl
      | false =>
        obtain ⟨e1, l1⟩ := ok.fold_exact hy
        omega
  | range lo hi =>
    simp only [itemHas, Bool.or_eq_true, Bool.and_eq_true, decide_eq_true_eq] at h
    simp only [itemHigh, decide_eq_true_eq]
    omega
  | cat k => rfl

theorem itemApx_upper {sp : Specials} {env : CharEnv} (ok : EnvOK sp env) (ic : Bool) (x : Nat)
    (it : SetItem) (h : itemHas env ic x it = true) :
    itemApx sp true ic (key sp (some x)) it = true := by
  unfold itemApx
  cases hx : isOther sp x with
  | false =>
    obtain ⟨k1, k2, k3⟩ := key_exact hx
    simp only [k1, k2, Bool.false_eq_true, if_false, k3]
    cases it with
    | cat k => rfl
    | ch y => simp only []; rw [← itemHas_exact ok ic hx _ (by intro k; simp)]; exact h
    | range lo hi => simp only []; rw [← itemHas_exact ok ic hx _ (by intro k; simp)]; exact h
  | true =>
    rw [key_other hx]
    have := itemHas_high ok ic hx it h
    simp [this]

theorem itemApx_lower {sp : Specials} {env : CharEnv} (ok : EnvOK sp env) (ic : Bool) (x : Nat)
    (it : SetItem) (h : itemApx sp false ic (key sp (some x)) it = true) :
    itemHas env ic x it = true := by
  unfold itemApx at h
  cases hx : isOther sp x with
  | false =>
    obtain ⟨k1, k2, k3⟩ := key_exact hx
    simp only [k1, k2, Bool.false_eq_true, if_false, k3] at h
    cases it with
    | cat k => simp at h
    | ch y => simp only [] at h; rw [itemHas_exact ok ic hx _ (by intro k; simp)]; exact h
    | range lo hi => simp only [] at h; rw [itemHas_exact ok ic hx _ (by intro k; simp)]; exact h
  | true =>
    rw [key_other hx] at h
    simp at h

theorem any_mono {α : Type} (l : List α) (f g : α → Bool) (h : ∀ x, f x = true → g x = true)
    (hf : l.any f = true) : l.any g = true := by
  rw [List.any_eq_true] at hf ⊢
  obtain ⟨x, hx, hfx⟩ := hf
  exact ⟨x, hx, h x hfx⟩

theorem litOk_exact {sp : Specials} {env : CharEnv} (ok : EnvOK sp env) (ic : Bool) {x : Nat}
    (c : Nat) (hx : isOther sp x = false) :
    (if ic = true then env.fold x == env.fold c else x == c) =
      (if ic = true then (foldEnv sp).fold x == (foldEnv sp).fold c else x == c) := by
  cases ic
  · rfl
  · simp only [if_true]; exact ok.fold_eq_iff' hx

theorem litOk_high {sp : Specials} {env : CharEnv} (ok : EnvOK sp env) (ic : Bool) {x c : Nat}
    (hx : isOther sp x = true)
    (h : (if ic = true then env.fold x == env.fold c else x == c) = true) : isOther sp c = true := by
  cases ic
  · simp at h; subst h; exact hx
  · simp only [if_true, beq_iff_eq] at h
    cases hc : isOther sp c with
    | true => rfl
    | false =>
      obtain ⟨e1, l1⟩ := ok.fold_exact hc
      have := ok.fold_other hx
      omega

theorem leafApx_upper {sp : Specials} {env : CharEnv} (ok : EnvOK sp env) (r : Rx) (x : Nat)
    (h : charOk env r x = true) : leafApx sp true r (key sp (some x)) = true := by
  cases r <;> simp only [charOk, Bool.false_eq_true] at h
  · -- lit
    rename_i c ic
    simp only [leafApx]
    cases hx : isOther sp x with
    | false =>
      obtain ⟨k1, k2, k3⟩ := key_exact hx
      simp only [k1, k2, Bool.false_eq_true, if_false, k3]
      rw [← litOk_exact ok ic c hx]; exact h
    | true =>
      rw [key_other hx]
      have := litOk_high ok ic hx h
      simp [this]
  · -- notLit
    rename_i c ic
    simp only [leafApx]
    cases hx : isOther sp x with
    | false =>
      obtain ⟨k1, k2, k3⟩ := key_exact hx
      simp only [k1, k2, Bool.false_eq_true, if_false, k3]
      rw [← litOk_exact ok ic c hx]; exact h
    | true =>
      rw [key_other hx]; simp
  · -- any
    rename_i d
    simp only [leafApx]
    cases hx : isOther sp x with
    | false =>
      obtain ⟨k1, k2, k3⟩ := key_exact hx
      simp only [k1, k2, Bool.false_eq_true, if_false, k3]; exact h
    | true =>
      rw [key_other hx]; simp
  · -- set
    rename_i neg items ic
    simp only [leafApx]
    have hk : (key sp (some x) == 129) = false := by
      cases hx : isOther sp x with
      | false => exact (key_exact hx).2.1
      | true => rw [key_other hx]; rfl
    rw [hk]
    simp only [Bool.false_eq_true, if_false]
    unfold setHas at h
    cases neg
    · simp only [Bool.bne_false] at h ⊢
      exact any_mono _ _ _ (fun it => itemApx_upper ok ic x it) h
    · simp only [bne_self_eq_false, Bool.bne_true, Bool.not_eq_true'] at h ⊢
      cases hany : items.any (itemApx sp false ic (key sp (some x))) with
      | false => rfl
      | true =>
        have := any_mono _ _ _ (fun it => itemApx_lower ok ic x it) hany
        rw [h] at this; exact absurd this (by simp)

theorem leafApx_lower {sp : Specials} {env : CharEnv} (ok : EnvOK sp env) (r : Rx) (x : Nat)
    (h : leafApx sp false r (key sp (some x)) = true) : charOk env r x = true := by
  cases r <;> simp only [leafApx, Bool.false_eq_true] at h
  · -- lit
    rename_i c ic
    simp only [charOk]
    cases hx : isOther sp x with
    | false =>
      obtain ⟨k1, k2, k3⟩ := key_exact hx
      simp only [k1, k2, Bool.false_eq_true, if_false, k3] at h
      rw [litOk_exact ok ic c hx]; exact h
    | true =>
      rw [key_other hx] at h; simp at h
  · -- notLit
    rename_i c ic
    simp only [charOk]
    cases hx : isOther sp x with
    | false =>
      obtain ⟨k1, k2, k3⟩ := key_exact hx
      simp only [k1, k2, Bool.false_eq_true, if_false, k3] at h
      rw [litOk_exact ok ic c hx]; exact h
    | true =>
      rw [key_other hx] at h
      have hc : isOther sp c = false := by simpa using h
      cases hb : (if ic = true then env.fold x == env.fold c else x == c) with
      | false => rfl
      | true => have := litOk_high ok ic hx hb; rw [hc] at this; exact absurd this (by simp)
  · -- any
    rename_i d
    simp only [charOk]
    cases hx : isOther sp x with
    | false =>
      obtain ⟨k1, k2, k3⟩ := key_exact hx
      simp only [k1, k2, Bool.false_eq_true, if_false, k3] at h; exact h
    | true =>
      have := isOther_ge hx
      simp only [Bool.or_eq_true, bne_iff_ne]; right; omega
  · -- set
    rename_i neg items ic
    simp only [charOk]
    have hk : (key sp (some x) == 129) = false := by
      cases hx : isOther sp x with
      | false => exact (key_exact hx).2.1
      | true => rw [key_other hx]; rfl
    rw [hk] at h
    simp only [Bool.false_eq_true, if_false] at h
    unfold setHas
    cases neg
    · simp only [Bool.bne_false] at h ⊢
      exact any_mono _ _ _ (fun it => itemApx_lower ok ic x it) h
    · simp only [Bool.bne_true, Bool.not_eq_true', Bool.not_false] at h ⊢
      cases hany : items.any (itemHas env ic x) with
      | false => rfl
      | true =>
        have := any_mono _ _ _ (fun it => itemApx_upper ok ic x it) hany
        rw [h] at this; exact absurd this (by simp)

theorem leafApx_eof (sp : Specials) (u : Bool) (r : Rx) : leafApx sp u r 129 = false := by
  cases r <;> simp [leafApx]

/-! ## The repeat loop: positivity, first sp symbols -/

theorem iterE_pos (body : Nat → List Nat) (hb : ∀ q e, e ∈ body q → q < e) (mn : Nat)
    (mx : Option Nat) (g : Bool) :
    ∀ f c p e, e ∈ iterE body mn mx g f c p → p < e ∨ (e = p ∧ c ≥ mn) := by
  intro f
  induction f with
  | zero => intro c p e h; simp [iterE_zero] at h
  | succ f ih =>
    intro c p e h
    rcases mem_iterE_succ.mp h with ⟨hc, rfl⟩ | ⟨_, p', hp', hs⟩
    · exact Or.inr ⟨rfl, hc⟩
    · have h1 := hb p p' hp'
      rcases mem_stepE.mp hs with ⟨_, h2⟩ | ⟨_, _, rfl⟩
      · rcases ih _ _ _ h2 with h3 | ⟨h3, _⟩ <;> left <;> omega
      · exact Or.inl h1

theorem iterE_consumes (body : Nat → List Nat) (hb : ∀ q e, e ∈ body q → q ≤ e) (mn : Nat)
    (mx : Option Nat) (g : Bool) :
    ∀ f c p e, e ∈ iterE body mn mx g f c p → p < e → ∃ p' ∈ body p, p < p' := by
  intro f
  induction f with
  | zero => intro c p e h; simp [iterE_zero] at h
  | succ f ih =>
    intro c p e h hlt
    rcases mem_iterE_succ.mp h with ⟨_, rfl⟩ | ⟨_, p', hp', hs⟩
    · omega
    · have h1 := hb p p' hp'
      by_cases hpp : p < p'
      · exact ⟨p', hp', hpp⟩
      · have : p' = p := by omega
        subst this
        rcases mem_stepE.mp hs with ⟨_, h2⟩ | ⟨_, _, rfl⟩
        · exact ih _ _ _ h2 hlt
        · omega

theorem iterE_first (body : Nat → List Nat) (mn : Nat) (hmn : 0 < mn)
    (mx : Option Nat) (g : Bool) (f p e : Nat) (h : e ∈ iterE body mn mx g f 0 p) :
    ∃ p', p' ∈ body p := by
  cases f with
  | zero => simp [iterE_zero] at h
  | succ f =>
    rcases mem_iterE_succ.mp h with ⟨hc, _⟩ | ⟨_, p', hp', _⟩
    · omega
    · exact ⟨p', hp'⟩

/-! ## Soundness of `nullable`, `first`, `cfirst` -/

theorem first_leaf {sp : Specials} {env : CharEnv} (ok : EnvOK sp env) {s : Str} {r : Rx} (hl : isLeaf r = true)
    {i e : Nat} (h : e ∈ ends env s r i) : (leafApx sp true r).mem sp s[i]? = true := by
  obtain ⟨_, x, hx, hc⟩ := (mem_ends_leaf hl).mp h
  rw [hx]; exact leafApx_upper ok r x hc

mutual
theorem nullable_sound (env : CharEnv) (s : Str) :
    ∀ (r : Rx), nullable r = false → ∀ i e, e ∈ ends env s r i → i < e
  | .lit c ic, _, i, e, h => by have := (mem_ends_leaf (r := .lit c ic) rfl).mp h; omega
  | .notLit c ic, _, i, e, h => by have := (mem_ends_leaf (r := .notLit c ic) rfl).mp h; omega
  | .any d, _, i, e, h => by have := (mem_ends_leaf (r := .any d) rfl).mp h; omega
  | .set n is ic, _, i, e, h => by have := (mem_ends_leaf (r := .set n is ic) rfl).mp h; omega
  | .seq rs, hn, i, e, h => by
    simp only [nullable] at hn; simp only [ends] at h; exact nullableSeq_sound env s rs hn i e h
  | .alt rs, hn, i, e, h => by
    simp only [nullable] at hn; simp only [ends] at h; exact nullableAlt_sound env s rs hn i e h
  | .group _ r, hn, i, e, h => by
    simp only [nullable] at hn; simp only [ends] at h; exact nullable_sound env s r hn i e h
  | .rep mn mx g r, hn, i, e, h => by
    simp only [nullable, Bool.or_eq_false_iff, beq_eq_false_iff_ne] at hn
    simp only [ends] at h
    rcases iterE_pos _ (fun q e he => nullable_sound env s r hn.2 q e he) mn mx g _ _ _ _ h with h | h
    · exact h
    · omega
  | .bos, hn, _, _, _ => by simp [nullable] at hn
  | .eol, hn, _, _, _ => by simp [nullable] at hn
  | .eos, hn, _, _, _ => by simp [nullable] at hn
  | .look _ _ _, hn, _, _, _ => by simp [nullable] at hn
theorem nullableSeq_sound (env : CharEnv) (s : Str) :
    ∀ (rs : List Rx), nullableSeq rs = false → ∀ i e, e ∈ endsSeq env s rs i → i < e
  | [], hn, _, _, _ => by simp [nullableSeq] at hn
  | r :: rs, hn, i, e, h => by
    simp only [endsSeq, List.mem_flatMap] at h
    obtain ⟨j, hj, he⟩ := h
    have h1 := ends_endOK env s r i j hj
    have h2 := endsSeq_endOK env s rs j e he
    simp only [nullableSeq, Bool.and_eq_false_iff] at hn
    rcases hn with hn | hn
    · have := nullable_sound env s r hn i j hj; omega
    · have := nullableSeq_sound env s rs hn j e he; omega
theorem nullableAlt_sound (env : CharEnv) (s : Str) :
    ∀ (rs : List Rx), nullableAlt rs = false → ∀ i e, e ∈ endsAlt env s rs i → i < e
  | [], _, _, _, h => by simp [endsAlt] at h
  | r :: rs, hn, i, e, h => by
    simp only [nullableAlt, Bool.or_eq_false_iff] at hn
    simp only [endsAlt, List.mem_append] at h
    rcases h with h | h
    · exact nullable_sound env s r hn.1 i e h
    · exact nullableAlt_sound env s rs hn.2 i e h
end

mutual
theorem first_sound {sp : Specials} (env : CharEnv) (ok : EnvOK sp env) (s : Str) :
    ∀ (r : Rx) (i e : Nat), e ∈ ends env s r i → (first sp r).mem sp s[i]? = true
  | .lit c ic, i, e, h => by simp only [first]; exact first_leaf ok rfl h
  | .notLit c ic, i, e, h => by simp only [first]; exact first_leaf ok rfl h
  | .any d, i, e, h => by simp only [first]; exact first_leaf ok rfl h
  | .set n is ic, i, e, h => by simp only [first]; exact first_leaf ok rfl h
  | .seq rs, i, e, h => by simp only [ends] at h; simp only [first]; exact firstSeq_sound env ok s rs i e h
  | .alt rs, i, e, h => by simp only [ends] at h; simp only [first]; exact firstAlt_sound env ok s rs i e h
  | .group _ r, i, e, h => by simp only [ends] at h; simp only [first]; exact first_sound env ok s r i e h
  | .rep mn mx g r, i, e, h => by
    simp only [first]
    split
    · rfl
    · rename_i hmn
      simp only [ends] at h
      obtain ⟨p', hp'⟩ := iterE_first _ mn (by simp at hmn; omega) mx g _ _ _ h
      exact first_sound env ok s r i p' hp'
  | .bos, _, _, _ => rfl
  | .eol, i, e, h => by
    simp only [ends] at h
    split at h
    · rename_i hc
      simp only [first, CSet.mem]
      simp only [Bool.or_eq_true, beq_iff_eq, Bool.and_eq_true] at hc
      rcases hc with hc | ⟨_, hc⟩
      · have : s[i]? = none := List.getElem?_eq_none (by omega)
        rw [this]; rfl
      · rw [hc]; rfl
    · simp at h
  | .eos, i, e, h => by
    simp only [ends] at h
    split at h
    · rename_i hc
      simp only [beq_iff_eq] at hc
      have : s[i]? = none := List.getElem?_eq_none (by omega)
      simp only [first, CSet.mem]; rw [this]; rfl
    · simp at h
  | .look true true r, i, e, h => by
    simp only [first]
    split
    · rename_i hl
      simp only [ends] at h
      rw [CSet.mem_compl]
      cases hx : s[i]? with
      | none => simp only [CSet.mem, key]; rw [leafApx_eof]; rfl
      | some x =>
        cases hm : (leafApx sp false r).mem sp (some x) with
        | false => rfl
        | true =>
          have hc := leafApx_lower ok r x hm
          have : (i + 1) ∈ ends env s r i := (mem_ends_leaf hl).mpr ⟨rfl, x, hx, hc⟩
          have hne : (ends env s r i).isEmpty = false := by
            cases hh : ends env s r i with
            | nil => rw [hh] at this; simp at this
            | cons _ _ => rfl
          rw [hne] at h; simp at h
    · rfl
  | .look true false r, i, e, h => by
    simp only [first]
    simp only [ends] at h
    cases hh : ends env s r i with
    | nil => rw [hh] at h; simp at h
    | cons e' _ =>
      exact first_sound env ok s r i e' (by rw [hh]; exact List.mem_cons_self ..)
  | .look false _ _, _, _, _ => rfl
theorem firstSeq_sound {sp : Specials} (env : CharEnv) (ok : EnvOK sp env) (s : Str) :
    ∀ (rs : List Rx) (i e : Nat), e ∈ endsSeq env s rs i → (firstSeq sp rs).mem sp s[i]? = true
  | [], _, _, _ => rfl
  | r :: rs, i, e, h => by
    simp only [endsSeq, List.mem_flatMap] at h
    obtain ⟨j, hj, he⟩ := h
    have h1 := first_sound env ok s r i j hj
    simp only [firstSeq]
    split
    · rw [CSet.mem_inter, CSet.mem_union, h1, Bool.true_and, Bool.or_eq_true]
      have hge := (ends_endOK env s r i j hj).1
      by_cases hij : i < j
      · exact Or.inl (cfirst_sound env ok s r i j hj hij)
      · have : j = i := by omega
        subst this
        exact Or.inr (firstSeq_sound env ok s rs j e he)
    · exact h1
theorem firstAlt_sound {sp : Specials} (env : CharEnv) (ok : EnvOK sp env) (s : Str) :
    ∀ (rs : List Rx) (i e : Nat), e ∈ endsAlt env s rs i → (firstAlt sp rs).mem sp s[i]? = true
  | [], _, _, h => by simp [endsAlt] at h
  | r :: rs, i, e, h => by
    simp only [endsAlt, List.mem_append] at h
    simp only [firstAlt, CSet.mem_union, Bool.or_eq_true]
    rcases h with h | h
    · exact Or.inl (first_sound env ok s r i e h)
    · exact Or.inr (firstAlt_sound env ok s rs i e h)
theorem cfirst_sound {sp : Specials} (env : CharEnv) (ok : EnvOK sp env) (s : Str) :
    ∀ (r : Rx) (i e : Nat), e ∈ ends env s r i → i < e → (cfirst sp r).mem sp s[i]? = true
  | .lit c ic, i, e, h, _ => by simp only [cfirst]; exact first_leaf ok rfl h
  | .notLit c ic, i, e, h, _ => by simp only [cfirst]; exact first_leaf ok rfl h
  | .any d, i, e, h, _ => by simp only [cfirst]; exact first_leaf ok rfl h
  | .set n is ic, i, e, h, _ => by simp only [cfirst]; exact first_leaf ok rfl h
  | .seq rs, i, e, h, hlt => by
    simp only [ends] at h; simp only [cfirst]; exact cfirstSeq_sound env ok s rs i e h hlt
  | .alt rs, i, e, h, hlt => by
    simp only [ends] at h; simp only [cfirst]; exact cfirstAlt_sound env ok s rs i e h hlt
  | .group _ r, i, e, h, hlt => by
    simp only [ends] at h; simp only [cfirst]; exact cfirst_sound env ok s r i e h hlt
  | .rep mn mx g r, i, e, h, hlt => by
    simp only [ends] at h; simp only [cfirst]
    obtain ⟨p', hp', hlt'⟩ := iterE_consumes _ (fun q e he => (ends_endOK env s r q e he).1) mn mx g _ _ _ _ h hlt
    exact cfirst_sound env ok s r i p' hp' hlt'
  | .bos, i, e, h, hlt => by have := mem_ends_zw (r := .bos) rfl h; omega
  | .eol, i, e, h, hlt => by have := mem_ends_zw (r := .eol) rfl h; omega
  | .eos, i, e, h, hlt => by have := mem_ends_zw (r := .eos) rfl h; omega
  | .look a n r, i, e, h, hlt => by have := mem_ends_zw (r := .look a n r) rfl h; omega
theorem cfirstSeq_sound {sp : Specials} (env : CharEnv) (ok : EnvOK sp env) (s : Str) :
    ∀ (rs : List Rx) (i e : Nat), e ∈ endsSeq env s rs i → i < e → (cfirstSeq sp rs).mem sp s[i]? = true
  | [], i, e, h, hlt => by simp [endsSeq] at h; omega
  | r :: rs, i, e, h, hlt => by
    simp only [endsSeq, List.mem_flatMap] at h
    obtain ⟨j, hj, he⟩ := h
    simp only [cfirstSeq, CSet.mem_union, Bool.or_eq_true]
    have hge := (ends_endOK env s r i j hj).1
    by_cases hij : i < j
    · exact Or.inl (cfirst_sound env ok s r i j hj hij)
    · have : j = i := by omega
      subst this
      right
      cases hn : nullable r with
      | false => have := nullable_sound env s r hn j j hj; omega
      | true =>
        simp only [if_true, CSet.mem_inter, Bool.and_eq_true]
        exact ⟨first_sound env ok s r j j hj, cfirstSeq_sound env ok s rs j e he hlt⟩
theorem cfirstAlt_sound {sp : Specials} (env : CharEnv) (ok : EnvOK sp env) (s : Str) :
    ∀ (rs : List Rx) (i e : Nat), e ∈ endsAlt env s rs i → i < e → (cfirstAlt sp rs).mem sp s[i]? = true
  | [], _, _, h, _ => by simp [endsAlt] at h
  | r :: rs, i, e, h, hlt => by
    simp only [endsAlt, List.mem_append] at h
    simp only [cfirstAlt, CSet.mem_union, Bool.or_eq_true]
    rcases h with h | h
    · exact Or.inl (cfirst_sound env ok s r i e h hlt)
    · exact Or.inr (cfirstAlt_sound env ok s rs i e h hlt)
end

end Rx
end SoupVerif
