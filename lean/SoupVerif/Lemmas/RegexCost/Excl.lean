/-
  C07 lemmas, part 3: syntactic equality, mutual exclusion of alternatives.
-/
import SoupVerif.Lemmas.RegexCost.First
set_option autoImplicit false
namespace SoupVerif
namespace Rx

mutual
theorem beq_sound : ∀ (x y : Rx), beq x y = true → x = y
  | .lit c ic, y, h => by
    cases y <;> simp only [beq, Bool.false_eq_true, Bool.and_eq_true, beq_iff_eq] at h
    obtain ⟨rfl, rfl⟩ := h; rfl
  | .notLit c ic, y, h => by
    cases y <;> simp only [beq, Bool.false_eq_true, Bool.and_eq_true, beq_iff_eq] at h
    obtain ⟨rfl, rfl⟩ := h; rfl
  | .any d, y, h => by
    cases y <;> simp only [beq, Bool.false_eq_true, beq_iff_eq] at h
    subst h; rfl
  | .set n is ic, y, h => by
    cases y <;> simp only [beq, Bool.false_eq_true, Bool.and_eq_true, beq_iff_eq] at h
    obtain ⟨⟨rfl, rfl⟩, rfl⟩ := h; rfl
  | .seq rs, y, h => by
    cases y <;> simp only [beq, Bool.false_eq_true] at h
    rw [beqList_sound rs _ h]
  | .alt rs, y, h => by
    cases y <;> simp only [beq, Bool.false_eq_true] at h
    rw [beqList_sound rs _ h]
  | .group k r, y, h => by
    cases y <;> simp only [beq, Bool.false_eq_true, Bool.and_eq_true, beq_iff_eq] at h
    obtain ⟨rfl, h⟩ := h; rw [beq_sound r _ h]
  | .rep mn mx g r, y, h => by
    cases y <;> simp only [beq, Bool.false_eq_true, Bool.and_eq_true, beq_iff_eq] at h
    obtain ⟨⟨⟨rfl, rfl⟩, rfl⟩, h⟩ := h; rw [beq_sound r _ h]
  | .bos, y, h => by cases y <;> simp only [beq, Bool.false_eq_true] at h; rfl
  | .eol, y, h => by cases y <;> simp only [beq, Bool.false_eq_true] at h; rfl
  | .eos, y, h => by cases y <;> simp only [beq, Bool.false_eq_true] at h; rfl
  | .look a n r, y, h => by
    cases y <;> simp only [beq, Bool.false_eq_true, Bool.and_eq_true, beq_iff_eq] at h
    obtain ⟨⟨rfl, rfl⟩, h⟩ := h; rw [beq_sound r _ h]
theorem beqList_sound : ∀ (xs ys : List Rx), beqList xs ys = true → xs = ys
  | [], ys, h => by cases ys <;> simp only [beqList, Bool.false_eq_true] at h; rfl
  | x :: xs, ys, h => by
    cases ys <;> simp only [beqList, Bool.false_eq_true, Bool.and_eq_true] at h
    rw [beq_sound x _ h.1, beqList_sound xs _ h.2]
end

/-! ## Repeats of a single leaf (maximal munch) -/

def leafAt (env : CharEnv) (s : Str) (r : Rx) (q : Nat) : Prop :=
  ∃ x, s[q]? = some x ∧ charOk env r x = true

theorem iterE_leaf (env : CharEnv) (s : Str) (l : Rx) (hl : isLeaf l = true) (mn : Nat)
    (mx : Option Nat) (g : Bool) :
    ∀ f c p e, e ∈ iterE (fun q => ends env s l q) mn mx g f c p →
      p ≤ e ∧ (∀ q, p ≤ q → q < e → leafAt env s l q) ∧ mn ≤ c + (e - p) ∧
      (∀ b, mx = some b → c + (e - p) ≤ max b c) := by
  intro f
  induction f with
  | zero => intro c p e h; simp [iterE_zero] at h
  | succ f ih =>
    intro c p e h
    rcases mem_iterE_succ.mp h with ⟨hc, rfl⟩ | ⟨hcm, p', hp', hs⟩
    · refine ⟨Nat.le_refl _, fun q h1 h2 => by omega, by omega, fun b _ => by omega⟩
    · obtain ⟨rfl, hm⟩ := (mem_ends_leaf hl).mp hp'
      rcases mem_stepE.mp hs with ⟨_, h2⟩ | ⟨hn, _, _⟩
      · obtain ⟨i1, i2, i3, i4⟩ := ih _ _ _ h2
        refine ⟨by omega, ?_, by omega, ?_⟩
        · intro q h1 h2
          by_cases hq : q = p
          · subst hq; exact hm
          · exact i2 q (by omega) h2
        · intro b hb
          have := i4 b hb
          subst hb
          simp only [canMore, decide_eq_true_eq] at hcm
          omega
      · exact absurd (Or.inl (Nat.lt_succ_self p)) hn

theorem ends_opt {env : CharEnv} {s : Str} {g : Bool} {a : Rx} {i e : Nat}
    (h : e ∈ ends env s (.rep 0 (some 1) g a) i) : e = i ∨ e ∈ ends env s a i := by
  simp only [ends] at h
  rcases mem_iterE_succ.mp h with ⟨_, rfl⟩ | ⟨_, p', hp', hs⟩
  · exact Or.inl rfl
  · right
    rcases mem_stepE.mp hs with ⟨_, h2⟩ | ⟨_, _, rfl⟩
    · rcases mem_iterE_succ.mp h2 with ⟨_, rfl⟩ | ⟨hcm, _⟩
      · exact hp'
      · simp [canMore] at hcm
    · exact hp'

theorem ends_seq_cons {env : CharEnv} {s : Str} {a : Rx} {as : List Rx} {i e : Nat} :
    e ∈ ends env s (.seq (a :: as)) i ↔ ∃ j ∈ ends env s a i, e ∈ ends env s (.seq as) j := by
  simp only [ends, endsSeq, List.mem_flatMap]

theorem ends_look_neg {env : CharEnv} {s : Str} {r : Rx} {i e : Nat}
    (h : e ∈ ends env s (.look true true r) i) : ends env s r i = [] := by
  simp only [ends] at h
  cases hh : ends env s r i with
  | nil => rfl
  | cons _ _ => rw [hh] at h; simp at h

/-! ## Soundness of `excl` -/

theorem exclGuard_sound (env : CharEnv) (s : Str) (x y : Rx) (h : exclGuard x y = true)
    (i e1 e2 : Nat) (h1 : e1 ∈ ends env s x i) (h2 : e2 ∈ ends env s y i) : False := by
  unfold exclGuard at h
  split at h
  · rename_i x' rest
    have := beq_sound _ _ h; subst this
    obtain ⟨j, hj, _⟩ := ends_seq_cons.mp h2
    have := ends_look_neg hj
    rw [this] at h1; simp at h1
  · simp at h

theorem exclMunch_sound (env : CharEnv) (s : Str) (x y : Rx) (h : exclMunch x y = true)
    (i e1 e2 : Nat) (h1 : e1 ∈ ends env s x i) (h2 : e2 ∈ ends env s y i) : False := by
  unfold exclMunch at h
  split at h
  · rename_i a b g c c' m mx' g' c''
    simp only [Bool.and_eq_true, decide_eq_true_eq] at h
    obtain ⟨⟨⟨hl, hc'⟩, hc''⟩, hbm⟩ := h
    have := beq_sound _ _ hc'; subst this
    have := beq_sound _ _ hc''; subst this
    obtain ⟨j, hj, hj2⟩ := ends_seq_cons.mp h1
    obtain ⟨j2, hj2, _⟩ := ends_seq_cons.mp hj2
    have hno := ends_look_neg hj2
    have hjj := mem_ends_zw (r := .look true true _) rfl hj2
    subst hjj
    simp only [ends] at hj h2
    obtain ⟨a1, _, _, a4⟩ := iterE_leaf env s _ hl _ _ _ _ _ _ _ hj
    obtain ⟨b1, b2, b3, _⟩ := iterE_leaf env s _ hl _ _ _ _ _ _ _ h2
    have := a4 b rfl
    obtain ⟨x, hx, hcx⟩ := b2 j2 a1 (by omega)
    have hmem := (mem_ends_leaf (env := env) (s := s) (i := j2) (e := j2 + 1) hl).mpr ⟨rfl, x, hx, hcx⟩
    rw [hno] at hmem; simp at hmem
  · simp at h

theorem exclBehind_sound (env : CharEnv) (s : Str) (x y : Rx) (h : exclBehind x y = true)
    (i e1 e2 : Nat) (h1 : e1 ∈ ends env s x i) (h2 : e2 ∈ ends env s y i) : False := by
  unfold exclBehind at h
  split at h
  · rename_i r
    split at h
    · rename_i w hw
      simp only [decide_eq_true_eq] at h
      simp only [ends, width] at h1
      simp only [ends, hw] at h2
      have hi : i = 0 := by
        split at h1
        · rename_i hok
          simp only [Nat.sub_zero, beq_iff_eq] at hok
          exact hok
        · rename_i hok
          simp only [Nat.sub_zero, beq_iff_eq] at hok
          simp at h1
      split at h2
      · rename_i hok
        simp only [bne_iff_ne, ne_eq, Bool.not_eq_false, Bool.and_eq_true, decide_eq_true_eq] at hok
        omega
      · simp at h2
    · simp at h
  · simp at h

theorem optSplit_sound (env : CharEnv) (s : Str) (x x1 x2 : Rx) (h : optSplit x = some (x1, x2))
    (i e : Nat) (h1 : e ∈ ends env s x i) : e ∈ ends env s x1 i ∨ e ∈ ends env s x2 i := by
  unfold optSplit at h
  split at h
  · rename_i g a as
    simp only [Option.some.injEq, Prod.mk.injEq] at h
    obtain ⟨rfl, rfl⟩ := h
    obtain ⟨j, hj, hj2⟩ := ends_seq_cons.mp h1
    rcases ends_opt hj with rfl | hj'
    · exact Or.inr hj2
    · exact Or.inl (ends_seq_cons.mpr ⟨j, hj', hj2⟩)
  · simp at h

theorem leafStrip_sound (env : CharEnv) (s : Str) (x y x' y' : Rx)
    (h : leafStrip x y = some (x', y')) (i e1 e2 : Nat)
    (h1 : e1 ∈ ends env s x i) (h2 : e2 ∈ ends env s y i) :
    e1 ∈ ends env s x' (i + 1) ∧ e2 ∈ ends env s y' (i + 1) := by
  unfold leafStrip at h
  split at h
  · rename_i a as b bs
    split at h
    · rename_i hc
      simp only [Option.some.injEq, Prod.mk.injEq] at h
      obtain ⟨rfl, rfl⟩ := h
      simp only [Bool.and_eq_true] at hc
      obtain ⟨hl, hb⟩ := hc
      have := beq_sound _ _ hb; subst this
      obtain ⟨j, hj, hj2⟩ := ends_seq_cons.mp h1
      obtain ⟨j', hj', hj2'⟩ := ends_seq_cons.mp h2
      obtain ⟨rfl, _⟩ := (mem_ends_leaf hl).mp hj
      obtain ⟨rfl, _⟩ := (mem_ends_leaf hl).mp hj'
      exact ⟨hj2, hj2'⟩
    · simp at h
  · simp at h

theorem excl_sound {sp : Specials} (env : CharEnv) (ok : EnvOK sp env) (s : Str) :
    ∀ fuel x y, excl sp fuel x y = true →
      ∀ i e1 e2, e1 ∈ ends env s x i → e2 ∈ ends env s y i → False := by
  intro fuel
  induction fuel with
  | zero => intro x y h; simp [excl] at h
  | succ fuel ih =>
    intro x y h i e1 e2 h1 h2
    simp only [excl, Bool.or_eq_true] at h
    rcases h with ((((h | h) | h) | h) | h) | h
    · exact CSet.disjoint_sound h s[i]? (first_sound env ok s x i e1 h1) (first_sound env ok s y i e2 h2)
    · exact exclGuard_sound env s x y h i e1 e2 h1 h2
    · exact exclMunch_sound env s x y h i e1 e2 h1 h2
    · exact exclBehind_sound env s x y h i e1 e2 h1 h2
    · cases hs : optSplit x with
      | none => rw [hs] at h; simp at h
      | some pr =>
        obtain ⟨x1, x2⟩ := pr
        rw [hs] at h
        simp only [Bool.and_eq_true] at h
        rcases optSplit_sound env s x x1 x2 hs i e1 h1 with h1' | h1'
        · exact ih _ _ h.1 _ _ _ h1' h2
        · exact ih _ _ h.2 _ _ _ h1' h2
    · cases hs : leafStrip x y with
      | none => rw [hs] at h; simp at h
      | some pr =>
        obtain ⟨x', y'⟩ := pr
        rw [hs] at h
        obtain ⟨a, b⟩ := leafStrip_sound env s x y x' y' hs i e1 e2 h1 h2
        exact ih _ _ h _ _ _ a b

end Rx
end SoupVerif
