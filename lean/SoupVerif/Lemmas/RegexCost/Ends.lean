/-
  C07 lemmas, part 1: `ends` is the projection of `runs`; `paths ≤ work`; ends are monotone and
  bounded by the input length.
-/
import SoupVerif.Spec.RegexCost
namespace SoupVerif
namespace Rx

theorem iter_map_fst (body : Nat → Caps → List (Nat × Caps)) (bodyE : Nat → List Nat)
    (h : ∀ p c, (body p c).map (·.1) = bodyE p) (mn : Nat) (mx : Option Nat) (g : Bool) :
    ∀ fuel count pos caps,
      (iter body mn mx g fuel count pos caps).map (·.1) = iterE bodyE mn mx g fuel count pos := by
  intro fuel
  induction fuel with
  | zero => intro count pos caps; simp [iter, iterE]
  | succ f ih =>
    intro count pos caps
    have hmore : ∀ (l : List (Nat × Caps)),
        (l.flatMap fun (x : Nat × Caps) =>
          if x.1 > pos || count + 1 < mn then iter body mn mx g f (count + 1) x.1 x.2
          else if count + 1 ≥ mn then [(x.1, x.2)] else []).map (·.1) =
        (l.map (·.1)).flatMap fun p' =>
          if p' > pos || count + 1 < mn then iterE bodyE mn mx g f (count + 1) p'
          else if count + 1 ≥ mn then [p'] else [] := by
      intro l
      induction l with
      | nil => simp
      | cons x xs ihl =>
        simp only [List.flatMap_cons, List.map_append, List.map_cons, ihl]
        congr 1
        split
        · exact ih _ _ _
        · split <;> simp
    have hstop : (if count ≥ mn then [(pos, caps)] else []).map (·.1) =
        (if count ≥ mn then [pos] else []) := by split <;> simp
    simp only [iter, iterE]
    rw [← h pos caps]
    cases mx with
    | none =>
      cases g <;> simp only [List.map_append, Bool.false_eq_true, if_false, if_true, hstop, hmore]
    | some m =>
      by_cases hc : count < m <;>
      cases g <;> simp only [List.map_append, Bool.false_eq_true, if_false, if_true, hstop, hmore,
        hc, decide_true, decide_false, List.map_nil]

mutual
theorem runs_map_fst (env : CharEnv) (s : Str) :
    ∀ (r : Rx) (i : Nat) (caps : Caps), (runs env s r i caps).map (·.1) = ends env s r i
  | .lit c ic, i, caps => by
    simp only [runs, ends]; cases s[i]? <;> simp only [List.map_nil]
    generalize (if ic then _ else _ : Bool) = b; cases b <;> simp
  | .notLit c ic, i, caps => by
    simp only [runs, ends]; cases s[i]? <;> simp only [List.map_nil]
    generalize (if ic then _ else _ : Bool) = b; cases b <;> simp
  | .any d, i, caps => by
    simp only [runs, ends]; cases s[i]? <;> simp only [List.map_nil]; split <;> simp
  | .set n is ic, i, caps => by
    simp only [runs, ends]; cases s[i]? <;> simp only [List.map_nil]; split <;> simp
  | .seq rs, i, caps => by simp only [runs, ends]; exact runsSeq_map_fst env s rs i caps
  | .alt rs, i, caps => by simp only [runs, ends]; exact runsAlt_map_fst env s rs i caps
  | .group idx r, i, caps => by
    simp only [runs, ends, List.map_map]
    rw [← runs_map_fst env s r i caps]; rfl
  | .rep mn mx g r, i, caps => by
    simp only [runs, ends]
    exact iter_map_fst _ _ (fun p c => runs_map_fst env s r p c) mn mx g _ _ _ _
  | .bos, i, caps => by simp only [runs, ends]; split <;> simp
  | .eol, i, caps => by simp only [runs, ends]; split <;> simp
  | .eos, i, caps => by simp only [runs, ends]; split <;> simp
  | .look true neg r, i, caps => by
    simp only [runs, ends]
    rw [← runs_map_fst env s r i caps]
    simp only [List.isEmpty_map]
    split <;> simp
  | .look false neg r, i, caps => by
    simp only [runs, ends]
    cases width r with
    | none => simp
    | some w =>
      simp only
      rw [← runs_map_fst env s r (i - w) caps]
      simp only [List.any_map]
      split <;> simp_all [Function.comp_def]
theorem runsSeq_map_fst (env : CharEnv) (s : Str) :
    ∀ (rs : List Rx) (i : Nat) (caps : Caps), (runsSeq env s rs i caps).map (·.1) = endsSeq env s rs i
  | [], i, caps => by simp [runsSeq, endsSeq]
  | r :: rs, i, caps => by
    simp only [runsSeq, endsSeq]
    rw [← runs_map_fst env s r i caps, List.map_flatMap, List.flatMap_map]
    congr 1; funext x
    exact runsSeq_map_fst env s rs x.1 x.2
theorem runsAlt_map_fst (env : CharEnv) (s : Str) :
    ∀ (rs : List Rx) (i : Nat) (caps : Caps), (runsAlt env s rs i caps).map (·.1) = endsAlt env s rs i
  | [], i, caps => by simp [runsAlt, endsAlt]
  | r :: rs, i, caps => by
    simp only [runsAlt, endsAlt, List.map_append]
    rw [runs_map_fst env s r i caps, runsAlt_map_fst env s rs i caps]
end

theorem paths_eq (env : CharEnv) (s : Str) (r : Rx) (i : Nat) :
    paths env s r i = (ends env s r i).length := by
  unfold paths; rw [← runs_map_fst env s r i [], List.length_map]

/-! ## The repeat loop in unfolded form -/

def canMore (mx : Option Nat) (c : Nat) : Bool :=
  match mx with
  | none => true
  | some m => c < m

def stepE (body : Nat → List Nat) (mn : Nat) (mx : Option Nat) (g : Bool) (f c p p' : Nat) :
    List Nat :=
  if p' > p || c + 1 < mn then iterE body mn mx g f (c + 1) p'
  else if c + 1 ≥ mn then [p'] else []

def moreE (body : Nat → List Nat) (mn : Nat) (mx : Option Nat) (g : Bool) (f c p : Nat) : List Nat :=
  if canMore mx c then (body p).flatMap (stepE body mn mx g f c p) else []

def stopE (mn c p : Nat) : List Nat := if c ≥ mn then [p] else []

theorem iterE_succ (body : Nat → List Nat) (mn : Nat) (mx : Option Nat) (g : Bool) (f c p : Nat) :
    iterE body mn mx g (f + 1) c p =
      if g then moreE body mn mx g f c p ++ stopE mn c p
      else stopE mn c p ++ moreE body mn mx g f c p := rfl

theorem iterE_perm (body : Nat → List Nat) (mn : Nat) (mx : Option Nat) (g : Bool) (f c p : Nat) :
    (iterE body mn mx g (f + 1) c p).Perm (stopE mn c p ++ moreE body mn mx g f c p) := by
  rw [iterE_succ]; cases g
  · exact List.Perm.refl _
  · exact List.perm_append_comm

theorem mem_iterE_succ {body : Nat → List Nat} {mn : Nat} {mx : Option Nat} {g : Bool} {f c p e : Nat} :
    e ∈ iterE body mn mx g (f + 1) c p ↔
      (c ≥ mn ∧ e = p) ∨
      (canMore mx c = true ∧ ∃ p' ∈ body p, e ∈ stepE body mn mx g f c p p') := by
  rw [(iterE_perm body mn mx g f c p).mem_iff, List.mem_append]
  apply or_congr
  · unfold stopE; split <;> simp [*]
  · unfold moreE; split <;> simp [*]

theorem mem_stepE {body : Nat → List Nat} {mn : Nat} {mx : Option Nat} {g : Bool} {f c p p' e : Nat} :
    e ∈ stepE body mn mx g f c p p' ↔
      ((p' > p ∨ c + 1 < mn) ∧ e ∈ iterE body mn mx g f (c + 1) p') ∨
      (¬ (p' > p ∨ c + 1 < mn) ∧ c + 1 ≥ mn ∧ e = p') := by
  unfold stepE
  by_cases h : p' > p ∨ c + 1 < mn
  · have : (decide (p' > p) || decide (c + 1 < mn)) = true := by simpa using h
    simp [this, h]
  · have : ¬ (decide (p' > p) || decide (c + 1 < mn)) = true := by simpa using h
    rw [if_neg this]
    simp only [h, false_and, false_or, not_false_eq_true, true_and]
    split <;> simp [*]

/-! ## Leaves and zero-width atoms -/

def isZW : Rx → Bool
  | .bos | .eol | .eos | .look _ _ _ => true
  | _ => false

theorem ends_leaf (env : CharEnv) (s : Str) (r : Rx) (h : isLeaf r = true) (i : Nat) :
    ends env s r i =
      match s[i]? with
      | some x => if charOk env r x then [i + 1] else []
      | none => [] := by
  cases r <;> simp only [isLeaf, Bool.false_eq_true] at h <;> simp only [ends, charOk]
  · rfl
  · rename_i c ic
    cases s[i]? with
    | none => rfl
    | some x =>
      simp only
      by_cases hb : (if ic = true then env.fold x == env.fold c else x == c) = true <;> simp [hb]
  · rfl
  · rfl

theorem mem_ends_leaf {env : CharEnv} {s : Str} {r : Rx} (h : isLeaf r = true) {i e : Nat} :
    e ∈ ends env s r i ↔ e = i + 1 ∧ ∃ x, s[i]? = some x ∧ charOk env r x = true := by
  rw [ends_leaf env s r h]
  cases s[i]? with
  | none => simp
  | some x =>
    simp only
    split <;> simp [*]

theorem ends_zw (env : CharEnv) (s : Str) (r : Rx) (h : isZW r = true) (i : Nat) :
    ends env s r i = [i] ∨ ends env s r i = [] := by
  cases r <;> simp only [isZW, Bool.false_eq_true] at h
  · simp only [ends]; split <;> simp
  · simp only [ends]; split <;> simp
  · simp only [ends]; split <;> simp
  · rename_i a n r
    cases a
    · simp only [ends]; cases width r <;> simp only [] <;> first | (split <;> simp) | simp
    · simp only [ends]; split <;> simp

theorem mem_ends_zw {env : CharEnv} {s : Str} {r : Rx} (h : isZW r = true) {i e : Nat}
    (he : e ∈ ends env s r i) : e = i := by
  rcases ends_zw env s r h i with h' | h' <;> rw [h'] at he <;> simp at he
  exact he

/-! ## Ends are monotone and bounded -/

theorem iterE_zero (body : Nat → List Nat) (mn : Nat) (mx : Option Nat) (g : Bool) (c p : Nat) :
    iterE body mn mx g 0 c p = [] := rfl

theorem iterE_endOK (n : Nat) (body : Nat → List Nat)
    (hb : ∀ q e, e ∈ body q → q ≤ e ∧ (e = q ∨ e ≤ n)) (mn : Nat) (mx : Option Nat) (g : Bool) :
    ∀ f c p e, e ∈ iterE body mn mx g f c p → p ≤ e ∧ (e = p ∨ e ≤ n) := by
  intro f
  induction f with
  | zero => intro c p e h; simp [iterE_zero] at h
  | succ f ih =>
    intro c p e h
    rcases mem_iterE_succ.mp h with ⟨_, rfl⟩ | ⟨_, p', hp', hs⟩
    · exact ⟨Nat.le_refl _, Or.inl rfl⟩
    · have h1 := hb p p' hp'
      rcases mem_stepE.mp hs with ⟨_, h2⟩ | ⟨_, _, rfl⟩
      · have h3 := ih _ _ _ h2
        omega
      · exact h1

theorem leaf_endOK (env : CharEnv) (s : Str) (r : Rx) (hl : isLeaf r = true) (i e : Nat)
    (h : e ∈ ends env s r i) : i ≤ e ∧ (e = i ∨ e ≤ s.length) := by
  obtain ⟨rfl, x, hx, _⟩ := (mem_ends_leaf hl).mp h
  have : i < s.length := by
    rcases List.getElem?_eq_some_iff.mp hx with ⟨hlt, _⟩
    exact hlt
  omega

mutual
theorem ends_endOK (env : CharEnv) (s : Str) :
    ∀ (r : Rx) (i e : Nat), e ∈ ends env s r i → i ≤ e ∧ (e = i ∨ e ≤ s.length)
  | .lit c ic, i, e, h => leaf_endOK env s (.lit c ic) rfl i e h
  | .notLit c ic, i, e, h => leaf_endOK env s (.notLit c ic) rfl i e h
  | .any d, i, e, h => leaf_endOK env s (.any d) rfl i e h
  | .set n is ic, i, e, h => leaf_endOK env s (.set n is ic) rfl i e h
  | .seq rs, i, e, h => by simp only [ends] at h; exact endsSeq_endOK env s rs i e h
  | .alt rs, i, e, h => by simp only [ends] at h; exact endsAlt_endOK env s rs i e h
  | .group _ r, i, e, h => by simp only [ends] at h; exact ends_endOK env s r i e h
  | .rep mn mx g r, i, e, h => by
    simp only [ends] at h
    exact iterE_endOK s.length _ (fun q e he => ends_endOK env s r q e he) mn mx g _ _ _ _ h
  | .bos, i, e, h => by have := mem_ends_zw (r := .bos) rfl h; omega
  | .eol, i, e, h => by have := mem_ends_zw (r := .eol) rfl h; omega
  | .eos, i, e, h => by have := mem_ends_zw (r := .eos) rfl h; omega
  | .look a n r, i, e, h => by have := mem_ends_zw (r := .look a n r) rfl h; omega
theorem endsSeq_endOK (env : CharEnv) (s : Str) :
    ∀ (rs : List Rx) (i e : Nat), e ∈ endsSeq env s rs i → i ≤ e ∧ (e = i ∨ e ≤ s.length)
  | [], i, e, h => by simp [endsSeq] at h; omega
  | r :: rs, i, e, h => by
    simp only [endsSeq, List.mem_flatMap] at h
    obtain ⟨j, hj, he⟩ := h
    have h1 := ends_endOK env s r i j hj
    have h2 := endsSeq_endOK env s rs j e he
    omega
theorem endsAlt_endOK (env : CharEnv) (s : Str) :
    ∀ (rs : List Rx) (i e : Nat), e ∈ endsAlt env s rs i → i ≤ e ∧ (e = i ∨ e ≤ s.length)
  | [], i, e, h => by simp [endsAlt] at h
  | r :: rs, i, e, h => by
    simp only [endsAlt, List.mem_append] at h
    rcases h with h | h
    · exact ends_endOK env s r i e h
    · exact endsAlt_endOK env s rs i e h
end

/-! ## `paths ≤ work` -/

theorem sum_map_le_sum_map {α : Type} (l : List α) (f g : α → Nat) (h : ∀ x ∈ l, f x ≤ g x) :
    (l.map f).sum ≤ (l.map g).sum := by
  induction l with
  | nil => simp
  | cons x xs ih =>
    simp only [List.map_cons, List.sum_cons]
    have h1 := h x (List.mem_cons_self ..)
    have h2 := ih (fun y hy => h y (List.mem_cons_of_mem _ hy))
    omega

theorem length_flatMap_eq {α β : Type} (l : List α) (f : α → List β) :
    (l.flatMap f).length = (l.map fun x => (f x).length).sum := by
  induction l with
  | nil => simp
  | cons x xs ih => simp [List.flatMap_cons, ih]

def stepW (bodyE : Nat → List Nat) (bodyW : Nat → Nat) (mn : Nat) (mx : Option Nat)
    (f c p p' : Nat) : Nat :=
  if p' > p || c + 1 < mn then workIter bodyE bodyW mn mx f (c + 1) p' else 1

theorem workIter_succ (bodyE : Nat → List Nat) (bodyW : Nat → Nat) (mn : Nat) (mx : Option Nat)
    (f c p : Nat) :
    workIter bodyE bodyW mn mx (f + 1) c p =
      1 + (if canMore mx c then
            bodyW p + ((bodyE p).map (stepW bodyE bodyW mn mx f c p)).sum else 0) := rfl

theorem iterE_length_le_workIter (bodyE : Nat → List Nat) (bodyW : Nat → Nat) (mn : Nat)
    (mx : Option Nat) (g : Bool) :
    ∀ f c p, (iterE bodyE mn mx g f c p).length ≤ workIter bodyE bodyW mn mx f c p := by
  intro f
  induction f with
  | zero => intro c p; simp [iterE_zero]
  | succ f ih =>
    intro c p
    rw [(iterE_perm bodyE mn mx g f c p).length_eq, List.length_append, workIter_succ]
    have h1 : (stopE mn c p).length ≤ 1 := by unfold stopE; split <;> simp
    have h2 : (moreE bodyE mn mx g f c p).length ≤
        (if canMore mx c then bodyW p + ((bodyE p).map (stepW bodyE bodyW mn mx f c p)).sum else 0) := by
      unfold moreE
      split
      · rw [length_flatMap_eq]
        refine Nat.le_trans (sum_map_le_sum_map _ _ (stepW bodyE bodyW mn mx f c p) ?_) (Nat.le_add_left _ _)
        intro p' _
        unfold stepE stepW
        split
        · exact ih _ _
        · split <;> simp
      · simp
    omega

theorem leaf_length_le_one (env : CharEnv) (s : Str) (r : Rx) (hl : isLeaf r = true) (i : Nat) :
    (ends env s r i).length ≤ 1 := by
  rw [ends_leaf env s r hl]
  cases s[i]? with
  | none => simp
  | some x => simp only []; split <;> simp

theorem zw_length_le_one (env : CharEnv) (s : Str) (r : Rx) (hl : isZW r = true) (i : Nat) :
    (ends env s r i).length ≤ 1 := by
  rcases ends_zw env s r hl i with h | h <;> rw [h] <;> simp

mutual
theorem ends_length_le_work (env : CharEnv) (s : Str) :
    ∀ (r : Rx) (i : Nat), (ends env s r i).length ≤ work env s r i
  | .lit c ic, i => by simp only [work]; exact leaf_length_le_one env s _ rfl i
  | .notLit c ic, i => by simp only [work]; exact leaf_length_le_one env s _ rfl i
  | .any d, i => by simp only [work]; exact leaf_length_le_one env s _ rfl i
  | .set n is ic, i => by simp only [work]; exact leaf_length_le_one env s _ rfl i
  | .seq rs, i => by simp only [ends, work]; exact endsSeq_length_le_work env s rs i
  | .alt rs, i => by simp only [ends, work]; exact endsAlt_length_le_work env s rs i
  | .group _ r, i => by
    simp only [ends, work]; have := ends_length_le_work env s r i; omega
  | .rep mn mx g r, i => by
    simp only [ends, work]; exact iterE_length_le_workIter _ _ mn mx g _ _ _
  | .bos, i => by rcases ends_zw env s .bos rfl i with h | h <;> rw [h] <;> simp [work]
  | .eol, i => by rcases ends_zw env s .eol rfl i with h | h <;> rw [h] <;> simp [work]
  | .eos, i => by rcases ends_zw env s .eos rfl i with h | h <;> rw [h] <;> simp [work]
  | .look true n r, i => by
    rcases ends_zw env s (.look true n r) rfl i with h | h <;> rw [h] <;> simp [work]
  | .look false n r, i => by
    rcases ends_zw env s (.look false n r) rfl i with h | h <;> rw [h] <;> simp only [work]
    · cases width r <;> simp only [] <;> first | (split <;> simp) | simp
    · simp
theorem endsSeq_length_le_work (env : CharEnv) (s : Str) :
    ∀ (rs : List Rx) (i : Nat), (endsSeq env s rs i).length ≤ workSeq env s rs i
  | [], i => by simp [endsSeq, workSeq]
  | r :: rs, i => by
    simp only [endsSeq, workSeq]
    rw [length_flatMap_eq]
    exact Nat.le_trans (sum_map_le_sum_map _ _ _ (fun j _ => endsSeq_length_le_work env s rs j))
      (Nat.le_add_left _ _)
theorem endsAlt_length_le_work (env : CharEnv) (s : Str) :
    ∀ (rs : List Rx) (i : Nat), (endsAlt env s rs i).length ≤ workAlt env s rs i
  | [], i => by simp [endsAlt, workAlt]
  | r :: rs, i => by
    simp only [endsAlt, workAlt, List.length_append]
    have := ends_length_le_work env s r i
    have := endsAlt_length_le_work env s rs i
    omega
end

theorem paths_le_work (env : CharEnv) (s : Str) (r : Rx) (i : Nat) :
    paths env s r i ≤ work env s r i := by
  rw [paths_eq]; exact ends_length_le_work env s r i

end Rx
end SoupVerif
