/-
  C07 lemmas, part 5: polynomial bounds on the number of paths and on the work.
-/
import SoupVerif.Lemmas.RegexCost.Det
import Mathlib.Data.List.Perm.Subperm
import Mathlib.Data.List.Range
import Mathlib.Tactic.Ring
set_option autoImplicit false
namespace SoupVerif
namespace Rx

/-! ## List counting -/

theorem nodup_length_le (l : List Nat) (a b : Nat) (h : l.Nodup) (hb : ∀ e ∈ l, a ≤ e ∧ e < b) :
    l.length ≤ b - a := by
  have hs : l ⊆ List.range' a (b - a) := by
    intro e he; have := hb e he; rw [List.mem_range'_1]; omega
  have := (List.subperm_of_subset h hs).length_le
  simpa using this

theorem sum_map_le_mul {α : Type} (l : List α) (f : α → Nat) (B : Nat) (h : ∀ x ∈ l, f x ≤ B) :
    (l.map f).sum ≤ l.length * B := by
  induction l with
  | nil => simp
  | cons x xs ih =>
    simp only [List.map_cons, List.sum_cons, List.length_cons]
    have h1 := h x (List.mem_cons_self ..)
    have h2 := ih (fun y hy => h y (List.mem_cons_of_mem _ hy))
    rw [Nat.succ_mul]; omega

theorem exists_max (l : List Nat) (h : l ≠ []) : ∃ m ∈ l, ∀ x ∈ l, x ≤ m := by
  induction l with
  | nil => exact absurd rfl h
  | cons x xs ih =>
    by_cases hxs : xs = []
    · subst hxs; exact ⟨x, List.mem_cons_self .., by simp⟩
    · obtain ⟨m, hm, hmax⟩ := ih hxs
      by_cases hxm : x ≤ m
      · refine ⟨m, List.mem_cons_of_mem _ hm, ?_⟩
        intro y hy
        rcases List.mem_cons.mp hy with rfl | hy
        · exact hxm
        · exact hmax y hy
      · refine ⟨x, List.mem_cons_self .., ?_⟩
        intro y hy
        rcases List.mem_cons.mp hy with rfl | hy
        · exact Nat.le_refl _
        · have := hmax y hy; omega

theorem sum_le_with_max (w : Nat → Nat) (K pm : Nat) :
    ∀ l : List Nat, pm ∈ l → l.Nodup → (∀ x ∈ l, x ≠ pm → w x ≤ K) →
      (l.map w).sum ≤ w pm + K * (l.length - 1)
  | [], h, _, _ => by simp at h
  | x :: xs, h, hnd, hw => by
    simp only [List.map_cons, List.sum_cons, List.length_cons, Nat.add_sub_cancel]
    rw [List.nodup_cons] at hnd
    by_cases hx : x = pm
    · subst hx
      have : (xs.map w).sum ≤ xs.length * K :=
        sum_map_le_mul xs w K (fun y hy => hw y (List.mem_cons_of_mem _ hy)
          (fun e => hnd.1 (e ▸ hy)))
      rw [Nat.mul_comm] at this; omega
    · have hmem : pm ∈ xs := by
        rcases List.mem_cons.mp h with h | h
        · exact absurd h.symm hx
        · exact h
      have ih := sum_le_with_max w K pm xs hmem hnd.2 (fun y hy => hw y (List.mem_cons_of_mem _ hy))
      have h1 := hw x (List.mem_cons_self ..) hx
      have hlen : 1 ≤ xs.length := List.length_pos_of_mem hmem
      have : K * xs.length = K * (xs.length - 1) + K := by
        rw [← Nat.mul_succ]; congr 1; omega
      omega

/-! ## Arithmetic with powers -/

theorem pow_mono {N a b : Nat} (hN : 0 < N) (h : a ≤ b) : N ^ a ≤ N ^ b :=
  Nat.pow_le_pow_right hN h

theorem le_coef_pow {N x c a b : Nat} (hN : 0 < N) (h : x ≤ c * N ^ a) (hab : a ≤ b) :
    x ≤ c * N ^ b :=
  Nat.le_trans h (Nat.mul_le_mul_left _ (pow_mono hN hab))

/-! ## Number of paths -/

theorem det_length_le {sp : Specials} (env : CharEnv) (ok : EnvOK sp env) (s : Str) (r : Rx) (h : Det sp r = true)
    (i : Nat) : (ends env s r i).length ≤ s.length + 1 := by
  have hnd := det_ends_nodup env ok s r h i
  by_cases hi : i ≤ s.length
  · have := nodup_length_le _ 0 (s.length + 1) hnd (fun e he => by
      have := ends_endOK env s r i e he; omega)
    simpa using this
  · have := nodup_length_le _ i (i + 1) hnd (fun e he => by
      have := ends_endOK env s r i e he; omega)
    omega

theorem stopE_length_le (mn c p : Nat) : (stopE mn c p).length ≤ 1 := by
  unfold stopE; split <;> simp

theorem iterE_bounded_length (B : Nat → List Nat) (P : Nat) (hP1 : 1 ≤ P)
    (hB : ∀ q, (B q).length ≤ P) (mn m : Nat) (g : Bool) :
    ∀ f c p d, m ≤ c + d → (iterE B mn (some m) g f c p).length ≤ (d + 1) * P ^ d := by
  intro f
  induction f with
  | zero => intro c p d _; simp [iterE_zero]
  | succ f ih =>
    intro c p d hd
    rw [(iterE_perm B mn (some m) g f c p).length_eq, List.length_append]
    have h1 := stopE_length_le mn c p
    have hpow : 1 ≤ P ^ d := Nat.one_le_pow _ _ hP1
    unfold moreE
    by_cases hc : c < m
    · obtain ⟨d', rfl⟩ : ∃ d', d = d' + 1 := ⟨d - 1, by omega⟩
      have hcm : canMore (some m) c = true := by simp [canMore, hc]
      rw [if_pos hcm, length_flatMap_eq]
      have hstep : ∀ p' ∈ B p, (stepE B mn (some m) g f c p p').length ≤ (d' + 1) * P ^ d' := by
        intro p' _
        have hpow' : 1 ≤ P ^ d' := Nat.one_le_pow _ _ hP1
        have h1' : 1 ≤ (d' + 1) * P ^ d' := by
          calc 1 = 1 * 1 := rfl
            _ ≤ (d' + 1) * P ^ d' := Nat.mul_le_mul (by omega) hpow'
        unfold stepE
        split
        · exact ih _ _ _ (by omega)
        · split
          · simpa using h1'
          · simp
      have h2 := sum_map_le_mul (B p) _ _ hstep
      have h3 : (B p).length * ((d' + 1) * P ^ d') ≤ P * ((d' + 1) * P ^ d') :=
        Nat.mul_le_mul_right _ (hB p)
      have h4 : P * ((d' + 1) * P ^ d') = (d' + 1) * P ^ (d' + 1) := by ring
      have h5 : (d' + 1 + 1) * P ^ (d' + 1) = (d' + 1) * P ^ (d' + 1) + P ^ (d' + 1) := by ring
      omega
    · have hcm : canMore (some m) c = false := by simp [canMore, hc]
      rw [hcm]
      simp only [Bool.false_eq_true, if_false, List.length_nil, Nat.add_zero]
      calc (stopE mn c p).length ≤ 1 := h1
        _ = 1 * 1 := rfl
        _ ≤ (d + 1) * P ^ d := Nat.mul_le_mul (by omega) hpow

mutual
theorem pcoef_pos {sp : Specials} : ∀ r : Rx, 1 ≤ pcoef sp r
  | .lit _ _ => by simp [pcoef]
  | .notLit _ _ => by simp [pcoef]
  | .any _ => by simp [pcoef]
  | .set _ _ _ => by simp [pcoef]
  | .seq rs => by simp only [pcoef]; split; exact Nat.le_refl _; exact pcoefSeq_pos rs
  | .alt rs => by simp only [pcoef]; split; exact Nat.le_refl _; exact pcoefAlt_pos rs
  | .group _ r => by simp only [pcoef]; exact pcoef_pos r
  | .rep mn mx g r => by
    simp only [pcoef]; split
    · exact Nat.le_refl _
    · cases mx with
      | none => exact Nat.le_refl _
      | some m =>
        simp only
        calc 1 = 1 * 1 := rfl
          _ ≤ (m + 1) * pcoef sp r ^ m :=
            Nat.mul_le_mul (by omega) (Nat.one_le_pow _ _ (pcoef_pos r))
  | .bos => by simp [pcoef]
  | .eol => by simp [pcoef]
  | .eos => by simp [pcoef]
  | .look _ _ _ => by simp [pcoef]
theorem pcoefSeq_pos {sp : Specials} : ∀ rs : List Rx, 1 ≤ pcoefSeq sp rs
  | [] => by simp [pcoefSeq]
  | r :: rs => by
    simp only [pcoefSeq]
    calc 1 = 1 * 1 := rfl
      _ ≤ pcoef sp r * pcoefSeq sp rs := Nat.mul_le_mul (pcoef_pos r) (pcoefSeq_pos rs)
theorem pcoefAlt_pos {sp : Specials} : ∀ rs : List Rx, 1 ≤ pcoefAlt sp rs
  | [] => by simp [pcoefAlt]
  | r :: rs => by simp only [pcoefAlt]; have := pcoef_pos (sp := sp) r; omega
end

mutual
theorem ends_poly {sp : Specials} (env : CharEnv) (ok : EnvOK sp env) (s : Str) :
    ∀ r : Rx, StarSafe sp r = true → ∀ i,
      (ends env s r i).length ≤ pcoef sp r * (s.length + 1) ^ pdeg sp r
  | .lit c ic, _, i => by simpa [pcoef, pdeg] using leaf_length_le_one env s (.lit c ic) rfl i
  | .notLit c ic, _, i => by simpa [pcoef, pdeg] using leaf_length_le_one env s (.notLit c ic) rfl i
  | .any d, _, i => by simpa [pcoef, pdeg] using leaf_length_le_one env s (.any d) rfl i
  | .set n is ic, _, i => by simpa [pcoef, pdeg] using leaf_length_le_one env s (.set n is ic) rfl i
  | .seq rs, h, i => by
    simp only [StarSafe] at h
    simp only [pcoef, pdeg]
    split
    · rename_i hd
      have := det_length_le env ok s (.seq rs) (by simpa [Det] using hd) i
      simpa using this
    · simp only [ends]; exact endsSeq_poly env ok s rs h i
  | .alt rs, h, i => by
    simp only [StarSafe] at h
    simp only [pcoef, pdeg]
    split
    · rename_i hd
      have := det_length_le env ok s (.alt rs) (by simpa [Det] using hd) i
      simpa using this
    · simp only [ends]; exact endsAlt_poly env ok s rs h i
  | .group _ r, h, i => by
    simp only [StarSafe] at h
    simp only [pcoef, pdeg, ends]; exact ends_poly env ok s r h i
  | .rep mn mx g r, h, i => by
    simp only [StarSafe, Bool.and_eq_true, Bool.or_eq_true] at h
    obtain ⟨hr, hor⟩ := h
    simp only [pcoef, pdeg]
    split
    · rename_i hd
      have := det_length_le env ok s (.rep mn mx g r) hd i
      simpa using this
    · rename_i hd
      cases mx with
      | none => rcases hor with h | h; exact absurd h hd; simp at h
      | some m =>
        simp only [ends]
        have hN : 0 < s.length + 1 := Nat.succ_pos _
        have hP1 : 1 ≤ pcoef sp r * (s.length + 1) ^ pdeg sp r := by
          calc 1 = 1 * 1 := rfl
            _ ≤ _ := Nat.mul_le_mul (pcoef_pos r) (Nat.one_le_pow _ _ hN)
        have := iterE_bounded_length (fun p => ends env s r p) _ hP1
          (fun q => ends_poly env ok s r hr q) mn m g (s.length - i + mn + 2) 0 i m (by omega)
        refine Nat.le_trans this (Nat.le_of_eq ?_)
        rw [Nat.mul_pow, ← Nat.pow_mul, Nat.mul_comm (pdeg sp r) m, Nat.mul_assoc]
  | .bos, _, i => by simpa [pcoef, pdeg] using zw_length_le_one env s .bos rfl i
  | .eol, _, i => by simpa [pcoef, pdeg] using zw_length_le_one env s .eol rfl i
  | .eos, _, i => by simpa [pcoef, pdeg] using zw_length_le_one env s .eos rfl i
  | .look a n r, _, i => by simpa [pcoef, pdeg] using zw_length_le_one env s (.look a n r) rfl i
theorem endsSeq_poly {sp : Specials} (env : CharEnv) (ok : EnvOK sp env) (s : Str) :
    ∀ rs : List Rx, starSafeList sp rs = true → ∀ i,
      (endsSeq env s rs i).length ≤ pcoefSeq sp rs * (s.length + 1) ^ pdegSeq sp rs
  | [], _, i => by simp [endsSeq, pcoefSeq, pdegSeq]
  | r :: rs, h, i => by
    simp only [starSafeList, Bool.and_eq_true] at h
    simp only [endsSeq, pcoefSeq, pdegSeq]
    rw [length_flatMap_eq]
    have h1 := sum_map_le_mul (ends env s r i) _ _ (fun j _ => endsSeq_poly env ok s rs h.2 j)
    have h2 := ends_poly env ok s r h.1 i
    refine Nat.le_trans h1 (Nat.le_trans (Nat.mul_le_mul_right _ h2) (Nat.le_of_eq ?_))
    rw [Nat.pow_add]; ring
theorem endsAlt_poly {sp : Specials} (env : CharEnv) (ok : EnvOK sp env) (s : Str) :
    ∀ rs : List Rx, starSafeList sp rs = true → ∀ i,
      (endsAlt env s rs i).length ≤ pcoefAlt sp rs * (s.length + 1) ^ pdegAlt sp rs
  | [], _, i => by simp [endsAlt]
  | r :: rs, h, i => by
    simp only [starSafeList, Bool.and_eq_true] at h
    simp only [endsAlt, pcoefAlt, pdegAlt, List.length_append]
    have hN : 0 < s.length + 1 := Nat.succ_pos _
    have h1 := le_coef_pow hN (ends_poly env ok s r h.1 i) (Nat.le_max_left (pdeg sp r) (pdegAlt sp rs))
    have h2 := le_coef_pow hN (endsAlt_poly env ok s rs h.2 i) (Nat.le_max_right (pdeg sp r) (pdegAlt sp rs))
    rw [Nat.add_mul]; omega
end

/-! ## Work of a deterministic repeat: every loop state sits at a distinct position -/

theorem stepW_of_pos {B : Nat → List Nat} {W : Nat → Nat} {mn : Nat} {mx : Option Nat}
    {f c p p' : Nat} (h : p < p') :
    stepW B W mn mx f c p p' = workIter B W mn mx f (c + 1) p' := by
  unfold stepW
  have : (decide (p' > p) || decide (c + 1 < mn)) = true := by simp [h]
  rw [if_pos this]

theorem workIter_det (sp : Specials) (s : Str) (B : Nat → List Nat) (W : Nat → Nat) (FL FI : CSet) (mn : Nat)
    (mx : Option Nat)
    (hB : DetSem sp s B FL)
    (hP : ∀ q e, e ∈ B q → q < e)
    (hle : ∀ q e, e ∈ B q → e ≤ s.length)
    (hFI : ∀ q e, e ∈ B q → FI.mem sp s[q]? = true)
    (hD : mx = some 1 ∨ CSet.disjoint sp FL FI = true)
    (K : Nat) (hK : ∀ q, 1 + W q ≤ K) :
    ∀ f c p, workIter B W mn mx f c p ≤ K * ((s.length + 1 - p) + 1) := by
  have hK1 : 1 ≤ K := Nat.le_trans (Nat.le_add_right 1 (W 0)) (hK 0)
  have hbase : ∀ p, K ≤ K * ((s.length + 1 - p) + 1) := fun p =>
    Nat.le_mul_of_pos_right K (Nat.succ_pos _)
  -- a non-maximal end of the body is a dead end
  have hdead : ∀ f c p p1 p2, p1 ∈ B p → p2 ∈ B p → p1 < p2 →
      workIter B W mn mx f (c + 1) p1 ≤ K := by
    intro f c p p1 p2 h1 h2 hlt
    cases f with
    | zero => exact hK1
    | succ f =>
      rw [workIter_succ]
      rcases hD with hD | hD
      · subst hD
        have : canMore (some 1) (c + 1) = false := by simp [canMore]
        rw [this]; simpa using hK1
      · have hnil : B p1 = [] := by
          cases hb : B p1 with
          | nil => rfl
          | cons x _ =>
            have hx : x ∈ B p1 := by rw [hb]; exact List.mem_cons_self ..
            exact (CSet.disjoint_sound hD _ ((hB p).2 p1 p2 h1 h2 hlt) (hFI p1 x hx)).elim
        rw [hnil]
        have := hK p1
        split <;> simp <;> omega
  intro f
  induction f with
  | zero => intro c p; exact Nat.le_trans hK1 (hbase p)
  | succ f ih =>
    intro c p
    rw [workIter_succ]
    split
    · have hWp := hK p
      have hcongr : (B p).map (stepW B W mn mx f c p) =
          (B p).map (fun p' => workIter B W mn mx f (c + 1) p') :=
        List.map_congr_left (fun p' hp' => stepW_of_pos (hP p p' hp'))
      rw [hcongr]
      by_cases hnil : B p = []
      · rw [hnil]; simp only [List.map_nil, List.sum_nil, Nat.add_zero]
        exact Nat.le_trans hWp (hbase p)
      · obtain ⟨pm, hpm, hmax⟩ := exists_max (B p) hnil
        have hsum := sum_le_with_max (fun p' => workIter B W mn mx f (c + 1) p') K pm (B p) hpm
          (hB p).1 (fun x hx hne => hdead f c p x pm hx hpm (by
            have := hmax x hx; omega))
        have hih := ih (c + 1) pm
        have hlen := nodup_length_le (B p) (p + 1) (pm + 1) (hB p).1 (fun e he => by
          have := hP p e he; have := hmax e he; omega)
        have h1 := hP p pm hpm
        have h2 := hle p pm hpm
        have harith : ((s.length + 1 - pm) + 1) + ((B p).length - 1) + 1 ≤ (s.length + 1 - p) + 1 := by
          omega
        have hmul := Nat.mul_le_mul_left K harith
        have hexp : K * (((s.length + 1 - pm) + 1) + ((B p).length - 1) + 1) =
            K * ((s.length + 1 - pm) + 1) + K * ((B p).length - 1) + K := by ring
        omega
    · simpa using Nat.le_trans hK1 (hbase p)

theorem workIter_bounded (B : Nat → List Nat) (W : Nat → Nat) (P K : Nat) (hP1 : 1 ≤ P)
    (hB : ∀ q, (B q).length ≤ P) (hK : ∀ q, 1 + W q ≤ K) (mn m : Nat) :
    ∀ f c p d, m ≤ c + d → workIter B W mn (some m) f c p ≤ (d + 1) * K * P ^ d := by
  have hK1 : 1 ≤ K := Nat.le_trans (Nat.le_add_right 1 (W 0)) (hK 0)
  have hone : ∀ d, 1 ≤ (d + 1) * K * P ^ d := by
    intro d
    calc 1 = 1 * 1 * 1 := rfl
      _ ≤ (d + 1) * K * P ^ d :=
        Nat.mul_le_mul (Nat.mul_le_mul (by omega) hK1) (Nat.one_le_pow _ _ hP1)
  intro f
  induction f with
  | zero => intro c p d _; exact hone d
  | succ f ih =>
    intro c p d hd
    rw [workIter_succ]
    by_cases hc : c < m
    · obtain ⟨d', rfl⟩ : ∃ d', d = d' + 1 := ⟨d - 1, by omega⟩
      have hcm : canMore (some m) c = true := by simp [canMore, hc]
      rw [if_pos hcm]
      have hstep : ∀ p' ∈ B p, stepW B W mn (some m) f c p p' ≤ (d' + 1) * K * P ^ d' := by
        intro p' _
        unfold stepW
        split
        · exact ih _ _ _ (by omega)
        · exact hone d'
      have h2 := sum_map_le_mul (B p) _ _ hstep
      have h3 : (B p).length * ((d' + 1) * K * P ^ d') ≤ P * ((d' + 1) * K * P ^ d') :=
        Nat.mul_le_mul_right _ (hB p)
      have h4 : P * ((d' + 1) * K * P ^ d') = (d' + 1) * K * P ^ (d' + 1) := by ring
      have h5 : (d' + 1 + 1) * K * P ^ (d' + 1) = (d' + 1) * K * P ^ (d' + 1) + K * P ^ (d' + 1) := by ring
      have h6 : K ≤ K * P ^ (d' + 1) := Nat.le_mul_of_pos_right K (Nat.one_le_pow _ _ hP1)
      have := hK p
      omega
    · have hcm : canMore (some m) c = false := by simp [canMore, hc]
      rw [hcm]
      simpa using hone d

/-! ## Work is polynomial -/

theorem one_add_le {N w c d : Nat} (hN : 0 < N) (h : w ≤ c * N ^ d) : 1 + w ≤ (1 + c) * N ^ d := by
  have : 1 ≤ N ^ d := Nat.one_le_pow _ _ hN
  rw [Nat.add_mul]; omega

mutual
theorem work_poly_aux {sp : Specials} (env : CharEnv) (ok : EnvOK sp env) (s : Str) :
    ∀ r : Rx, StarSafe sp r = true → ∀ i,
      work env s r i ≤ wcoef sp r * (s.length + 1) ^ wdeg sp r
  | .lit _ _, _, _ => by simp [work, wcoef, wdeg]
  | .notLit _ _, _, _ => by simp [work, wcoef, wdeg]
  | .any _, _, _ => by simp [work, wcoef, wdeg]
  | .set _ _ _, _, _ => by simp [work, wcoef, wdeg]
  | .seq rs, h, i => by
    simp only [StarSafe] at h
    simp only [work, wcoef, wdeg]; exact workSeq_poly env ok s rs h i
  | .alt rs, h, i => by
    simp only [StarSafe] at h
    simp only [work, wcoef, wdeg]; exact workAlt_poly env ok s rs h i
  | .group _ r, h, i => by
    simp only [StarSafe] at h
    simp only [work, wcoef, wdeg]
    exact one_add_le (Nat.succ_pos _) (work_poly_aux env ok s r h i)
  | .rep mn mx g r, h, i => by
    simp only [StarSafe, Bool.and_eq_true, Bool.or_eq_true] at h
    obtain ⟨hr, hor⟩ := h
    have hN : 0 < s.length + 1 := Nat.succ_pos _
    have hK : ∀ q, 1 + work env s r q ≤ (1 + wcoef sp r) * (s.length + 1) ^ wdeg sp r :=
      fun q => one_add_le hN (work_poly_aux env ok s r hr q)
    simp only [work, wcoef, wdeg]
    split
    · rename_i hd
      simp only [Det, Bool.and_eq_true, Bool.or_eq_true, Bool.not_eq_true', beq_iff_eq] at hd
      obtain ⟨⟨hdr, hn⟩, hD⟩ := hd
      have := workIter_det sp s (fun p => ends env s r p) (fun p => work env s r p) (fl sp r) (first sp r)
        mn mx (det_sound env ok s r hdr)
        (fun q e he => nullable_sound env s r hn q e he)
        (fun q e he => by
          have h1 := nullable_sound env s r hn q e he
          have h2 := ends_endOK env s r q e he
          omega)
        (fun q e he => first_sound env ok s r q e he)
        hD _ hK (s.length - i + mn + 2) 0 i
      refine Nat.le_trans this ?_
      have h2 : (s.length + 1 - i) + 1 ≤ 2 * (s.length + 1) := by omega
      refine Nat.le_trans (Nat.mul_le_mul_left _ h2) (Nat.le_of_eq ?_)
      rw [Nat.pow_succ]; ring
    · rename_i hd
      cases mx with
      | none => rcases hor with h | h; exact absurd h hd; simp at h
      | some m =>
        simp only
        have hP1 : 1 ≤ pcoef sp r * (s.length + 1) ^ pdeg sp r := by
          calc 1 = 1 * 1 := rfl
            _ ≤ _ := Nat.mul_le_mul (pcoef_pos r) (Nat.one_le_pow _ _ hN)
        have := workIter_bounded (fun p => ends env s r p) (fun p => work env s r p) _ _ hP1
          (fun q => ends_poly env ok s r hr q) hK mn m (s.length - i + mn + 2) 0 i m (by omega)
        refine Nat.le_trans this (Nat.le_of_eq ?_)
        rw [Nat.mul_pow, ← Nat.pow_mul, Nat.pow_add, Nat.mul_comm (pdeg sp r) m]; ring
  | .bos, _, _ => by simp [work, wcoef, wdeg]
  | .eol, _, _ => by simp [work, wcoef, wdeg]
  | .eos, _, _ => by simp [work, wcoef, wdeg]
  | .look true _ r, h, i => by
    simp only [StarSafe] at h
    simp only [work, wcoef, wdeg]
    exact one_add_le (Nat.succ_pos _) (work_poly_aux env ok s r h i)
  | .look false _ r, h, i => by
    simp only [StarSafe] at h
    simp only [work, wcoef, wdeg]
    have hN : 0 < s.length + 1 := Nat.succ_pos _
    have h1 : 1 ≤ (1 + wcoef sp r) * (s.length + 1) ^ wdeg sp r := by
      calc 1 = 1 * 1 := rfl
        _ ≤ _ := Nat.mul_le_mul (by omega) (Nat.one_le_pow _ _ hN)
    cases width r with
    | none => exact h1
    | some w =>
      simp only
      split
      · exact one_add_le hN (work_poly_aux env ok s r h _)
      · exact h1
theorem workSeq_poly {sp : Specials} (env : CharEnv) (ok : EnvOK sp env) (s : Str) :
    ∀ rs : List Rx, starSafeList sp rs = true → ∀ i,
      workSeq env s rs i ≤ wcoefSeq sp rs * (s.length + 1) ^ wdegSeq sp rs
  | [], _, _ => by simp [workSeq, wcoefSeq, wdegSeq]
  | r :: rs, h, i => by
    simp only [starSafeList, Bool.and_eq_true] at h
    simp only [workSeq, wcoefSeq, wdegSeq]
    have hN : 0 < s.length + 1 := Nat.succ_pos _
    have h1 := le_coef_pow hN (work_poly_aux env ok s r h.1 i)
      (Nat.le_max_left (wdeg sp r) (pdeg sp r + wdegSeq sp rs))
    have h2 := sum_map_le_mul (ends env s r i) (fun j => workSeq env s rs j) _
      (fun j _ => workSeq_poly env ok s rs h.2 j)
    have h3 := ends_poly env ok s r h.1 i
    have h4 : (ends env s r i).length * (wcoefSeq sp rs * (s.length + 1) ^ wdegSeq sp rs) ≤
        (pcoef sp r * wcoefSeq sp rs) * (s.length + 1) ^ (pdeg sp r + wdegSeq sp rs) := by
      refine Nat.le_trans (Nat.mul_le_mul_right _ h3) (Nat.le_of_eq ?_)
      rw [Nat.pow_add]; ring
    have h5 := le_coef_pow hN h4 (Nat.le_max_right (wdeg sp r) (pdeg sp r + wdegSeq sp rs))
    rw [Nat.add_mul]; omega
theorem workAlt_poly {sp : Specials} (env : CharEnv) (ok : EnvOK sp env) (s : Str) :
    ∀ rs : List Rx, starSafeList sp rs = true → ∀ i,
      workAlt env s rs i ≤ wcoefAlt sp rs * (s.length + 1) ^ wdegAlt sp rs
  | [], _, _ => by simp [workAlt, wcoefAlt, wdegAlt]
  | r :: rs, h, i => by
    simp only [starSafeList, Bool.and_eq_true] at h
    simp only [workAlt, wcoefAlt, wdegAlt]
    have hN : 0 < s.length + 1 := Nat.succ_pos _
    have h1 := le_coef_pow hN (work_poly_aux env ok s r h.1 i) (Nat.le_max_left (wdeg sp r) (wdegAlt sp rs))
    have h2 := le_coef_pow hN (workAlt_poly env ok s rs h.2 i) (Nat.le_max_right (wdeg sp r) (wdegAlt sp rs))
    rw [Nat.add_mul]; omega
end

end Rx
end SoupVerif
