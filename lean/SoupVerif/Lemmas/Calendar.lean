/-
  Helper lemmas about the first-principles calendar of `SoupVerif.Spec.Calendar`:
  closed form and 400-year periodicity of `daysBeforeYear`, weekdays of 1 January and
  31 December, the characterisation of ISO long years, monotonicity of `dayNumber`,
  and the link from the model's `dec31` / `isLeap` arithmetic to the specification.
  (Everything is proved with `omega` over literals; no Mathlib module is needed.)
-/
import SoupVerif.Spec.Calendar
import SoupVerif.Model.Inputs
namespace SoupVerif
namespace Spec

theorem leap_iff (y : Nat) : leap y = true ↔ (y % 4 = 0 ∧ y % 100 ≠ 0) ∨ y % 400 = 0 := by
  unfold leap
  split
  · simp; omega
  · split
    · simp; omega
    · simp; omega

theorem daysBeforeMonth_succ (y m : Nat) (h : 1 ≤ m) :
    daysBeforeMonth y (m + 1) = daysBeforeMonth y m + daysInMonth y m := by
  obtain ⟨k, rfl⟩ : ∃ k, m = k + 1 := ⟨m - 1, by omega⟩
  rfl

theorem daysBeforeMonth_table (y : Nat) :
    daysBeforeMonth y 1 = 0 ∧ daysBeforeMonth y 2 = 31 ∧
    daysBeforeMonth y 3 = 31 + daysInMonth y 2 ∧
    daysBeforeMonth y 12 = 306 + daysInMonth y 2 ∧
    daysBeforeMonth y 13 = 337 + daysInMonth y 2 := by
  simp [daysBeforeMonth, daysInMonth]
  omega

theorem daysInYear_eq (y : Nat) : daysInYear y = if leap y then 366 else 365 := by
  unfold daysInYear
  rw [(daysBeforeMonth_table y).2.2.2.2]
  simp only [daysInMonth]
  split <;> rfl

theorem daysBeforeYear_succ (y : Nat) (h : 1 ≤ y) :
    daysBeforeYear (y + 1) = daysBeforeYear y + daysInYear y := by
  obtain ⟨k, rfl⟩ : ∃ k, y = k + 1 := ⟨y - 1, by omega⟩
  rfl

private theorem d4 (m : Nat) : (m+1)/4 = if (m+1)%4 = 0 then m/4+1 else m/4 := by split <;> omega
private theorem d100 (m : Nat) : (m+1)/100 = if (m+1)%100 = 0 then m/100+1 else m/100 := by
  split <;> omega
private theorem d400 (m : Nat) : (m+1)/400 = if (m+1)%400 = 0 then m/400+1 else m/400 := by
  split <;> omega

/-- Number of leap days among years `1 … n`. -/
def leapsUpTo (n : Nat) : Nat := n / 4 - n / 100 + n / 400

theorem leapsUpTo_succ (m : Nat) :
    leapsUpTo (m + 1) = leapsUpTo m + (if leap (m + 1) then 1 else 0) := by
  unfold leapsUpTo
  have a := d4 m; have b := d100 m; have c := d400 m
  have h1 : (m+1)%100 = 0 → (m+1)%4 = 0 := by omega
  have h2 : (m+1)%400 = 0 → (m+1)%100 = 0 := by omega
  have h3 : m/100 ≤ m/4 := by omega
  have hl := leap_iff (m + 1)
  cases hb : leap (m + 1) with
  | true =>
    have h4 := hl.1 hb
    simp only [if_true]
    split at a <;> split at b <;> split at c <;> omega
  | false =>
    have h4 : ((m+1) % 4 ≠ 0 ∨ (m+1) % 100 = 0) ∧ (m+1) % 400 ≠ 0 := by
      have h5 : ¬(((m+1) % 4 = 0 ∧ (m+1) % 100 ≠ 0) ∨ (m+1) % 400 = 0) := by
        rw [← hl, hb]; exact Bool.false_ne_true
      omega
    simp only [Bool.false_eq_true, if_false]
    split at a <;> split at b <;> split at c <;> omega

theorem daysBeforeYear_succ_closed (n : Nat) : daysBeforeYear (n + 1) = 365 * n + leapsUpTo n := by
  induction n with
  | zero => rfl
  | succ n ih =>
    rw [daysBeforeYear_succ (n + 1) (by omega), ih, daysInYear_eq, leapsUpTo_succ]
    split <;> omega

/-- Closed form: days before 1 January of year `y`. -/
theorem daysBeforeYear_closed (y : Nat) (h : 1 ≤ y) :
    daysBeforeYear y = 365 * (y - 1) + (y - 1) / 4 - (y - 1) / 100 + (y - 1) / 400 := by
  obtain ⟨n, rfl⟩ : ∃ n, y = n + 1 := ⟨y - 1, by omega⟩
  rw [daysBeforeYear_succ_closed, leapsUpTo]
  have : n / 100 ≤ n / 4 := by omega
  simp only [Nat.add_sub_cancel]
  omega

theorem daysBeforeYear_period (y : Nat) (h : 1 ≤ y) :
    daysBeforeYear (y + 400) = daysBeforeYear y + 146097 := by
  rw [daysBeforeYear_closed y h, daysBeforeYear_closed (y + 400) (by omega)]
  omega

theorem period_weeks : 146097 % 7 = 0 := by decide

theorem leap_period (y : Nat) : leap (y + 400) = leap y := by
  have a := leap_iff y; have b := leap_iff (y + 400)
  cases h1 : leap y <;> cases h2 : leap (y + 400) <;> simp_all <;> omega

/-! ### Anchor dates -/

theorem daysInYear_eq_bit (y : Nat) : daysInYear y = 365 + (if leap y then 1 else 0) := by
  rw [daysInYear_eq]; split <;> rfl

theorem dayNumber_jan1 (y : Nat) : dayNumber y 1 1 = daysBeforeYear y + 1 := by
  simp [dayNumber, daysBeforeMonth]

theorem dayNumber_jan4 (y : Nat) : dayNumber y 1 4 = daysBeforeYear y + 4 := by
  simp [dayNumber, daysBeforeMonth]

theorem dayNumber_dec31 (y : Nat) (h : 1 ≤ y) : dayNumber y 12 31 = daysBeforeYear (y + 1) := by
  rw [daysBeforeYear_succ y h]
  unfold dayNumber daysInYear
  rw [(daysBeforeMonth_table y).2.2.2.1, (daysBeforeMonth_table y).2.2.2.2]
  omega

theorem dayNumber_dec28 (y : Nat) (h : 1 ≤ y) : dayNumber y 12 28 + 3 = daysBeforeYear (y + 1) := by
  rw [← dayNumber_dec31 y h]; unfold dayNumber; omega

/-- Weekday of 1 January from the closed form. -/
theorem weekday_jan1 (y : Nat) (h : 1 ≤ y) :
    weekday (dayNumber y 1 1) = ((y - 1) + leapsUpTo (y - 1)) % 7 + 1 := by
  obtain ⟨n, rfl⟩ : ∃ n, y = n + 1 := ⟨y - 1, by omega⟩
  rw [dayNumber_jan1, daysBeforeYear_succ_closed]
  simp only [Nat.add_sub_cancel, weekday]
  generalize leapsUpTo n = a
  omega

/-- Weekday of 31 December from the closed form. -/
theorem weekday_dec31 (y : Nat) (h : 1 ≤ y) :
    weekday (dayNumber y 12 31) = (y + leapsUpTo y + 6) % 7 + 1 := by
  rw [dayNumber_dec31 y h, daysBeforeYear_succ_closed]
  simp only [weekday]
  generalize leapsUpTo y = a
  omega

/-! ### ISO weeks -/

theorem week1Monday_eq (y : Nat) :
    week1Monday y = daysBeforeYear y + 4 - (daysBeforeYear y + 3) % 7 := by
  simp only [week1Monday, dayNumber_jan4, weekday]
  omega

theorem week1Monday_is_monday (y : Nat) : weekday (week1Monday y) = 1 := by
  rw [week1Monday_eq]; simp only [weekday]; omega

theorem week1Monday_contains_jan4 (y : Nat) :
    week1Monday y ≤ dayNumber y 1 4 ∧ dayNumber y 1 4 < week1Monday y + 7 := by
  rw [week1Monday_eq, dayNumber_jan4]; omega

/-- 28 December belongs to the ISO year of its own calendar year. -/
theorem isoYearWeek_dec28 (y : Nat) (h : 1 ≤ y) :
    isoYearWeek y 12 28 = (y, (dayNumber y 12 28 - week1Monday y) / 7 + 1) := by
  have h28 := dayNumber_dec28 y h
  have hs := daysBeforeYear_succ y h
  have hy := daysInYear_eq_bit y
  unfold isoYearWeek
  simp only [week1Monday_eq]
  have h1 : ¬ dayNumber y 12 28 < daysBeforeYear y + 4 - (daysBeforeYear y + 3) % 7 := by
    split at hy <;> omega
  have h2 : ¬ daysBeforeYear (y + 1) + 4 - (daysBeforeYear (y + 1) + 3) % 7 ≤ dayNumber y 12 28 := by
    omega
  simp only [h1, h2, if_false]

theorem isoWeeksInYear_eq (y : Nat) (h : 1 ≤ y) :
    isoWeeksInYear y =
      (daysBeforeYear y + 362 + (if leap y then 1 else 0)
        - (daysBeforeYear y + 4 - (daysBeforeYear y + 3) % 7)) / 7 + 1 := by
  have h28 := dayNumber_dec28 y h
  have hs := daysBeforeYear_succ y h
  have hy := daysInYear_eq_bit y
  unfold isoWeeksInYear isoWeekOf
  rw [isoYearWeek_dec28 y h, week1Monday_eq]
  simp only
  have : dayNumber y 12 28 = daysBeforeYear y + 362 + (if leap y then 1 else 0) := by omega
  rw [this]

theorem isoWeeksInYear_52_or_53 (y : Nat) (h : 1 ≤ y) :
    isoWeeksInYear y = 52 ∨ isoWeeksInYear y = 53 := by
  rw [isoWeeksInYear_eq y h]
  split <;> omega

/-- A year has 53 ISO weeks iff 1 January is a Thursday, or it is a leap year and
    1 January is a Wednesday. -/
theorem isoWeeksInYear_53_iff_jan1 (y : Nat) (h : 1 ≤ y) :
    isoWeeksInYear y = 53 ↔
      weekday (dayNumber y 1 1) = 4 ∨ (leap y = true ∧ weekday (dayNumber y 1 1) = 3) := by
  rw [isoWeeksInYear_eq y h, dayNumber_jan1]
  simp only [weekday]
  cases leap y <;> simp <;> omega

/-- A year has 53 ISO weeks iff 31 December is a Thursday, or it is a leap year and
    31 December is a Friday. -/
theorem isoWeeksInYear_53_iff_dec31 (y : Nat) (h : 1 ≤ y) :
    isoWeeksInYear y = 53 ↔
      weekday (dayNumber y 12 31) = 4 ∨ (leap y = true ∧ weekday (dayNumber y 12 31) = 5) := by
  rw [isoWeeksInYear_eq y h, dayNumber_dec31 y h, daysBeforeYear_succ y h, daysInYear_eq_bit]
  simp only [weekday]
  cases leap y <;> simp <;> omega

/-- The weeks of ISO year `y` exactly tile the span between the two week-1 Mondays. -/
theorem isoWeeksInYear_span (y : Nat) (h : 1 ≤ y) :
    week1Monday y + 7 * isoWeeksInYear y = week1Monday (y + 1) := by
  rw [isoWeeksInYear_eq y h, week1Monday_eq, week1Monday_eq, daysBeforeYear_succ y h,
    daysInYear_eq_bit]
  split <;> omega

/-- 31 December lies in week 1 of the next ISO year iff it is a Monday, Tuesday or Wednesday. -/
theorem dec31InNextWeek1_iff (y : Nat) (h : 1 ≤ y) :
    dec31InNextWeek1 y ↔ weekday (dayNumber y 12 31) ≤ 3 := by
  have hs := daysBeforeYear_succ y h
  have hy := daysInYear_eq_bit y
  have h31 := dayNumber_dec31 y h
  unfold dec31InNextWeek1 isoYearWeek
  simp only [week1Monday_eq, weekday]
  have h1 : ¬ dayNumber y 12 31 < daysBeforeYear y + 4 - (daysBeforeYear y + 3) % 7 := by
    split at hy <;> omega
  simp only [h1, if_false]
  split
  · rename_i h2
    simp only [Prod.mk.injEq, true_and]
    omega
  · rename_i h2
    simp only [Prod.mk.injEq]
    omega

/-! ### Closed forms for fast evaluation at concrete years
  (the recursive specification walks through every year since year 1, which is slow to
  evaluate in the kernel; these equalities let concrete instances be checked arithmetically) -/

theorem daysBeforeYear_closed' (y : Nat) (h : 1 ≤ y) :
    daysBeforeYear y = 365 * (y - 1) + leapsUpTo (y - 1) := by
  obtain ⟨n, rfl⟩ : ∃ n, y = n + 1 := ⟨y - 1, by omega⟩
  rw [daysBeforeYear_succ_closed, Nat.add_sub_cancel]

theorem dayNumber_closed (y m d : Nat) (h : 1 ≤ y) :
    dayNumber y m d = 365 * (y - 1) + leapsUpTo (y - 1) + daysBeforeMonth y m + d := by
  unfold dayNumber; rw [daysBeforeYear_closed' y h]

theorem isoWeeksInYear_closed (y : Nat) (h : 1 ≤ y) :
    isoWeeksInYear y =
      (365 * (y - 1) + leapsUpTo (y - 1) + 362 + (if leap y then 1 else 0)
        - (365 * (y - 1) + leapsUpTo (y - 1) + 4 - (365 * (y - 1) + leapsUpTo (y - 1) + 3) % 7)) / 7
        + 1 := by
  rw [isoWeeksInYear_eq y h, daysBeforeYear_closed' y h]

theorem dec31InNextWeek1_closed (y : Nat) (h : 1 ≤ y) :
    dec31InNextWeek1 y ↔ (y + leapsUpTo y + 6) % 7 + 1 ≤ 3 := by
  rw [dec31InNextWeek1_iff y h, weekday_dec31 y h]

/-- Arithmetic evaluation of `isoWeeksInYear` (proved equal below; used only to check
    concrete instances quickly). -/
def isoWeeksFast (y : Nat) : Nat :=
  (365 * (y - 1) + leapsUpTo (y - 1) + 362 + (if leap y then 1 else 0)
    - (365 * (y - 1) + leapsUpTo (y - 1) + 4 - (365 * (y - 1) + leapsUpTo (y - 1) + 3) % 7)) / 7 + 1

/-- Arithmetic evaluation of the weekday of 31 December. -/
def dec31WeekdayFast (y : Nat) : Nat := (y + leapsUpTo y + 6) % 7 + 1

theorem isoWeeksInYear_of_fast {y k : Nat} (h : 1 ≤ y) (hk : isoWeeksFast y = k) :
    isoWeeksInYear y = k := by
  rw [isoWeeksInYear_closed y h]; exact hk

theorem dec31InNextWeek1_of_fast {y : Nat} (h : 1 ≤ y) (hk : dec31WeekdayFast y ≤ 3) :
    dec31InNextWeek1 y := (dec31InNextWeek1_closed y h).2 hk

theorem not_dec31InNextWeek1_of_fast {y : Nat} (h : 1 ≤ y) (hk : ¬ dec31WeekdayFast y ≤ 3) :
    ¬ dec31InNextWeek1 y := fun hx => hk ((dec31InNextWeek1_closed y h).1 hx)

theorem weekday_dayNumber_of_fast {y m d k : Nat} (h : 1 ≤ y)
    (hk : (365 * (y - 1) + leapsUpTo (y - 1) + daysBeforeMonth y m + d + 6) % 7 + 1 = k) :
    weekday (dayNumber y m d) = k := by
  rw [dayNumber_closed y m d h]; exact hk

/-- The ISO week count repeats every 400 years (146097 days = 20871 whole weeks). -/
theorem isoWeeksInYear_period (y : Nat) (h : 1 ≤ y) :
    isoWeeksInYear (y + 400) = isoWeeksInYear y := by
  rw [isoWeeksInYear_eq y h, isoWeeksInYear_eq (y + 400) (by omega), daysBeforeYear_period y h,
    leap_period]
  split <;> omega

/-! ### Monotonicity of the day number -/

theorem daysBeforeMonth_mono (y : Nat) {m1 m2 : Nat} (h1 : 1 ≤ m1) (h : m1 ≤ m2) :
    daysBeforeMonth y m1 ≤ daysBeforeMonth y m2 := by
  induction m2 with
  | zero => omega
  | succ k ih =>
    by_cases hk : m1 = k + 1
    · subst hk; exact Nat.le_refl _
    · have := ih (by omega)
      rw [daysBeforeMonth_succ y k (by omega)]
      omega

theorem daysBeforeMonth_next (y : Nat) {m1 m2 : Nat} (h1 : 1 ≤ m1) (h : m1 < m2) :
    daysBeforeMonth y m1 + daysInMonth y m1 ≤ daysBeforeMonth y m2 := by
  rw [← daysBeforeMonth_succ y m1 h1]
  exact daysBeforeMonth_mono y (by omega) h

theorem daysBeforeMonth_le_year (y : Nat) {m : Nat} (h1 : 1 ≤ m) (h : m ≤ 12) :
    daysBeforeMonth y m + daysInMonth y m ≤ daysInYear y :=
  daysBeforeMonth_next y h1 (by omega)

theorem daysBeforeYear_mono {y1 y2 : Nat} (h1 : 1 ≤ y1) (h : y1 ≤ y2) :
    daysBeforeYear y1 ≤ daysBeforeYear y2 := by
  induction y2 with
  | zero => omega
  | succ k ih =>
    by_cases hk : y1 = k + 1
    · subst hk; exact Nat.le_refl _
    · have := ih (by omega)
      rw [daysBeforeYear_succ k (by omega)]
      omega

theorem daysBeforeYear_next {y1 y2 : Nat} (h1 : 1 ≤ y1) (h : y1 < y2) :
    daysBeforeYear y1 + daysInYear y1 ≤ daysBeforeYear y2 := by
  rw [← daysBeforeYear_succ y1 h1]
  exact daysBeforeYear_mono (by omega) h

/-- Lexicographically earlier valid dates have smaller day numbers. -/
theorem dayNumber_lt_of_lex {y1 m1 d1 y2 m2 d2 : Nat}
    (v1 : validDate y1 m1 d1) (v2 : validDate y2 m2 d2)
    (h : y1 < y2 ∨ (y1 = y2 ∧ (m1 < m2 ∨ (m1 = m2 ∧ d1 < d2)))) :
    dayNumber y1 m1 d1 < dayNumber y2 m2 d2 := by
  obtain ⟨hy1, hm1, hm1', hd1, hd1'⟩ := v1
  obtain ⟨hy2, hm2, hm2', hd2, hd2'⟩ := v2
  unfold dayNumber
  rcases h with h | ⟨rfl, h | ⟨rfl, h⟩⟩
  · have a := daysBeforeYear_next hy1 h
    have b := daysBeforeMonth_le_year y1 hm1 hm1'
    omega
  · have b := daysBeforeMonth_next y1 hm1 h
    omega
  · omega

theorem dayNumber_lt_iff_lex {y1 m1 d1 y2 m2 d2 : Nat}
    (v1 : validDate y1 m1 d1) (v2 : validDate y2 m2 d2) :
    dayNumber y1 m1 d1 < dayNumber y2 m2 d2 ↔
      (y1 < y2 ∨ (y1 = y2 ∧ (m1 < m2 ∨ (m1 = m2 ∧ d1 < d2)))) := by
  constructor
  · intro h
    by_cases hlex : y1 < y2 ∨ (y1 = y2 ∧ (m1 < m2 ∨ (m1 = m2 ∧ d1 < d2)))
    · exact hlex
    · by_cases heq : y1 = y2 ∧ m1 = m2 ∧ d1 = d2
      · obtain ⟨rfl, rfl, rfl⟩ := heq; omega
      · have : y2 < y1 ∨ (y2 = y1 ∧ (m2 < m1 ∨ (m2 = m1 ∧ d2 < d1))) := by omega
        have := dayNumber_lt_of_lex v2 v1 this
        omega
  · exact dayNumber_lt_of_lex v1 v2

/-- Distinct valid dates have distinct day numbers. -/
theorem dayNumber_inj {y1 m1 d1 y2 m2 d2 : Nat}
    (v1 : validDate y1 m1 d1) (v2 : validDate y2 m2 d2)
    (h : dayNumber y1 m1 d1 = dayNumber y2 m2 d2) : y1 = y2 ∧ m1 = m2 ∧ d1 = d2 := by
  have a := dayNumber_lt_iff_lex v1 v2
  have b := dayNumber_lt_iff_lex v2 v1
  omega

end Spec

/-! ### The model's arithmetic against the specification -/
namespace Inputs
open Spec

theorem isLeap_eq (y : Nat) : isLeap y = leap y := by
  have a := leap_iff y
  cases h1 : leap y <;> cases h2 : isLeap y <;> simp_all [isLeap] <;> omega

/-- The model's `dec31` is the weekday of 31 December. -/
theorem dec31_eq (y : Nat) (h : 1 ≤ y) : dec31 y = weekday (dayNumber y 12 31) := by
  rw [weekday_dec31 y h]
  unfold dec31 leapsUpTo
  have : y / 100 ≤ y / 4 := by omega
  have e : y + y / 4 - y / 100 + y / 400 = y + (y / 4 - y / 100 + y / 400) := by omega
  simp only [e]
  generalize y / 4 - y / 100 + y / 400 = a
  simp only [beq_iff_eq]
  split <;> omega

end Inputs
end SoupVerif
