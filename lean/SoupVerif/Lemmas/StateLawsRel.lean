/-
  C17 helpers, part 4: relations and the iframe cut under the HTML-only context.
-/
import SoupVerif.Lemmas.StateLawsSem
import SoupVerif.Lemmas.TreeWalk
namespace SoupVerif.StateLaws
open SoupVerif

variable (c : Ctx) (l : Loc) (e : Elem)

/-! ### The ancestor chain with the iframe cut -/

/-- With `no_iframe=True` the chain is the longest iframe-free prefix of the real ancestors. -/
theorem ancestorsCut_true (ps : List Loc) :
    c.ancestorsCut true ps = ps.takeWhile (fun p => !c.locIsIframe p) := by
  induction ps with
  | nil => rfl
  | cons p ps ih =>
    unfold Ctx.ancestorsCut
    rw [ih, List.takeWhile_cons]
    cases c.locIsIframe p <;> rfl

/-- Without it, it is all of them. -/
theorem ancestorsCut_false (ps : List Loc) : c.ancestorsCut false ps = ps := by
  induction ps with
  | nil => rfl
  | cons p ps ih => unfold Ctx.ancestorsCut; rw [ih]; rfl

theorem mem_takeWhile_sat {α} (p : α → Bool) : ∀ (xs : List α) (x : α), x ∈ xs.takeWhile p → p x = true
  | [], x, h => by cases h
  | y :: ys, x, h => by
    rw [List.takeWhile_cons] at h
    cases hy : p y with
    | false => rw [hy] at h; cases h
    | true =>
      rw [hy] at h
      rcases List.mem_cons.mp h with rfl | h'
      · exact hy
      · exact mem_takeWhile_sat p ys x h'

/-- `ancestorsCut_stops_at_iframe`: no member of the cut chain is an iframe, the chain is a prefix
    of the real one, and when it is a proper prefix the next real ancestor is an iframe. -/
theorem ancestorsCut_stops_at_iframe (ps : List Loc) :
    (∀ p ∈ c.ancestorsCut true ps, c.locIsIframe p = false) ∧
    (∃ rest, ps = c.ancestorsCut true ps ++ rest ∧
      ∀ q, rest.head? = some q → c.locIsIframe q = true) := by
  rw [ancestorsCut_true]
  refine ⟨?_, ps.dropWhile (fun p => !c.locIsIframe p), (List.takeWhile_append_dropWhile).symm, ?_⟩
  · intro p hp
    have := mem_takeWhile_sat _ _ _ hp
    simpa using this
  · intro q hq
    have := List.head?_dropWhile_not (fun p => !c.locIsIframe p) ps
    rw [hq] at this
    simpa using this

theorem ancestors_true : c.ancestors l true = l.ancestors.takeWhile (fun p => !c.locIsIframe p) :=
  ancestorsCut_true c _

theorem ancestors_no_iframe (p : Loc) (hp : p ∈ c.ancestors l true) : c.locIsIframe p = false :=
  (ancestorsCut_stops_at_iframe c l.ancestors).1 p hp

/-! ### The relation walks an HTML-only list can take -/

/-- Descendant combinator inside an HTML-only list: ancestors with `no_iframe=True`. -/
theorem relationWalk_desc (on : Loc → Bool) :
    relationWalk c.htmlOnly l .desc on =
      ((c.ancestors l true).takeWhile (fun p => !p.isDoc)).any on := by
  unfold relationWalk
  simp only [htmlOnly_iframeRestrict, htmlOnly_ancestors]

/-- Child combinator inside an HTML-only list: the parent with `no_iframe=True`. -/
theorem relationWalk_child (on : Loc → Bool) :
    relationWalk c.htmlOnly l .child on =
      (match c.parent l true with
       | some p => !p.isDoc && on p
       | none => false) := by
  unfold relationWalk
  simp only [htmlOnly_iframeRestrict, htmlOnly_parent]
  rfl

/-- The parent (iframe cut, not the document object) satisfies `P`. -/
def parentIs (c : Ctx) (l : Loc) (P : Loc → Bool) : Bool :=
  match c.parent l true with
  | some p => !p.isDoc && P p
  | none => false

/-- Some ancestor (iframe cut, below the document object) satisfies `P`. -/
def ancestorIs (c : Ctx) (l : Loc) (P : Loc → Bool) : Bool :=
  ((c.ancestors l true).takeWhile (fun p => !p.isDoc)).any P

/-- A relation list with one `>` entry. -/
theorem relPart_child (s : Sel) (hs : s.relType = .child) :
    relPart c.htmlOnly l (isL [s]) =
      parentIs c l (fun t => match t.elem? with
        | some te => matchSel c.htmlOnly t te s
        | none => false) := by
  unfold relPart parentIs
  have h1 : (isL [s]).nonEmpty = true := rfl
  have h2 : headRel (isL [s]) = .child := hs
  rw [h1, h2, relationWalk_child]
  simp only [Bool.not_true, Bool.false_or, matchList_isL, matchAny_cons, matchAny_nil, Bool.or_false]
  rfl

/-- A relation list with one descendant-combinator entry. -/
theorem relPart_desc (s : Sel) (hs : s.relType = .desc) :
    relPart c.htmlOnly l (isL [s]) =
      ancestorIs c l (fun t => match t.elem? with
        | some te => matchSel c.htmlOnly t te s
        | none => false) := by
  unfold relPart ancestorIs
  have h1 : (isL [s]).nonEmpty = true := rfl
  have h2 : headRel (isL [s]) = .desc := hs
  rw [h1, h2, relationWalk_desc]
  simp only [Bool.not_true, Bool.false_or, matchList_isL, matchAny_cons, matchAny_nil, Bool.or_false]
  rfl

/-! ### Descendants with the iframe cut -/

/-- Reachability by `children` steps that never passes *through* a location rejected by `enter`
    (the end point itself may be rejected: an iframe is yielded, its content is not). -/
inductive IsDescVia (enter : Loc → Bool) : Loc → Loc → Prop where
  | child {l ch : Loc} : ch ∈ l.children → IsDescVia enter l ch
  | step {l ch d : Loc} : ch ∈ l.children → enter ch = true → IsDescVia enter ch d → IsDescVia enter l d

def nodeSize : Node → Nat
  | .elem _ ks => 1 + nodeSizes ks
  | .str _ _ => 1
where nodeSizes : List Node → Nat
  | [] => 0
  | k :: ks => nodeSize k + nodeSizes ks

theorem nodeSizes_mem {k : Node} {ks : List Node} (h : k ∈ ks) : nodeSize k ≤ nodeSize.nodeSizes ks := by
  induction ks with
  | nil => cases h
  | cons x xs ih =>
    rw [nodeSize.nodeSizes]
    rcases List.mem_cons.mp h with rfl | h'
    · omega
    · have := ih h'; omega

theorem child_smaller {l ch : Loc} (h : ch ∈ l.children) : nodeSize ch.focus < nodeSize l.focus := by
  have hf : ch.focus ∈ l.focus.kids := by
    rw [← Loc.children_focus]; exact List.mem_map_of_mem h
  cases hl : l.focus with
  | str k s => rw [hl] at hf; cases hf
  | elem e ks =>
    rw [hl] at hf
    simp only [Node.kids] at hf
    have := nodeSizes_mem hf
    rw [nodeSize]; omega

/-- The walk with an `enter` test only yields locations reachable without passing through a
    rejected one. -/
theorem descendants_via (enter : Loc → Bool) :
    ∀ (n : Nat) (l d : Loc), nodeSize l.focus ≤ n → d ∈ l.descendants enter → IsDescVia enter l d := by
  intro n
  induction n with
  | zero =>
    intro l d hn
    cases hl : l.focus <;> rw [hl, nodeSize] at hn <;> omega
  | succ n ih =>
    intro l d hn hd
    rw [Loc.descendants_unfold] at hd
    obtain ⟨ch, hch, hmem⟩ := List.mem_flatMap.mp hd
    rcases List.mem_cons.mp hmem with rfl | hrest
    · exact .child hch
    · cases hent : enter ch with
      | false => rw [hent] at hrest; simp at hrest
      | true =>
        rw [hent] at hrest
        have hlt := child_smaller hch
        exact .step hch hent (ih ch d (by omega) hrest)

/-- `get_descendants(el, no_iframe=True)` never looks inside an iframe: every location it yields
    is reached from `l` through non-iframe locations only (and `l` itself is not an iframe). -/
theorem descendants_iframe_cut (d : Loc) (hd : d ∈ c.descendants l true) :
    c.locIsIframe l = false ∧ IsDescVia (fun x => !c.locIsIframe x) l d := by
  unfold Ctx.descendants at hd
  cases hi : c.locIsIframe l with
  | true => rw [hi] at hd; simp at hd
  | false =>
    rw [hi] at hd
    simp only [Bool.and_false, Bool.false_eq_true, if_false, Bool.true_and] at hd
    exact ⟨rfl, descendants_via _ _ l d (Nat.le_refl _) hd⟩

theorem tagDescendants_iframe_cut (d : Loc) (hd : d ∈ c.tagDescendants l true) :
    c.locIsIframe l = false ∧ IsDescVia (fun x => !c.locIsIframe x) l d :=
  descendants_iframe_cut c l d (List.mem_filter.mp hd).1

end SoupVerif.StateLaws
