/-
  Lemmas about the spelling definitions of `Spec/Spelling.lean`, used by `Properties/C09`.
  No Mathlib.
-/
import SoupVerif.Spec.Spelling
import SoupVerif.Lemmas.Escape
namespace SoupVerif
namespace SpellingLemmas
open Escape EscapeLemmas Spelling

/-! ### Letter case -/

theorem lowerCp_upperCp (c : Nat) (h : ¬ (65 ≤ c ∧ c ≤ 90)) : lowerCp (upperCp c) = c := by
  unfold lowerCp upperCp
  split <;> (try split) <;> omega

theorem lowerCp_of_not_upper (c : Nat) (h : ¬ (65 ≤ c ∧ c ≤ 90)) : lowerCp c = c := by
  unfold lowerCp; split <;> omega

theorem lowerCp_idem (c : Nat) : lowerCp (lowerCp c) = lowerCp c := by
  unfold lowerCp; split <;> (try split) <;> omega

theorem lower_idem (s : Str) : lower (lower s) = lower s := by
  unfold lower
  rw [List.map_map]
  apply List.map_congr_left
  intro c _
  exact lowerCp_idem c

theorem lower_append (s t : Str) : lower (s ++ t) = lower s ++ lower t := by
  simp [lower]

theorem lower_length (s : Str) : (lower s).length = s.length := by simp [lower]

theorem mixCase_nil (m : List Bool) : mixCase m [] = [] := by
  cases m <;> rfl

theorem mixCase_nil_mask (s : Str) : mixCase [] s = s := by
  cases s <;> rfl

theorem mixCase_cons (b : Bool) (m : List Bool) (c : Nat) (cs : Str) :
    mixCase (b :: m) (c :: cs) = (if b then upperCp c else c) :: mixCase m cs := rfl

theorem mixCase_length (m : List Bool) (s : Str) : (mixCase m s).length = s.length := by
  induction s generalizing m with
  | nil => rw [mixCase_nil]
  | cons c cs ih =>
    cases m with
    | nil => rw [mixCase_nil_mask]
    | cons b m => simp [mixCase_cons, ih]

/-- Lower-casing any case variant of a keyword without capitals gives the keyword back. -/
theorem lower_mixCase (mask : List Bool) (kw : Str) (h : ∀ c ∈ kw, ¬ (65 ≤ c ∧ c ≤ 90)) :
    lower (mixCase mask kw) = kw := by
  induction kw generalizing mask with
  | nil => rw [mixCase_nil]; rfl
  | cons c cs ih =>
    have hc := h c (by simp)
    have hcs : ∀ d ∈ cs, ¬ (65 ≤ d ∧ d ≤ 90) := fun d hd => h d (by simp [hd])
    cases mask with
    | nil =>
      rw [mixCase_nil_mask]
      have := ih [] hcs
      rw [mixCase_nil_mask] at this
      simp only [lower, List.map_cons] at this ⊢
      rw [this, lowerCp_of_not_upper c hc]
    | cons b m =>
      rw [mixCase_cons]
      have := ih m hcs
      simp only [lower, List.map_cons] at this ⊢
      rw [this]
      cases b
      · simp [lowerCp_of_not_upper c hc]
      · simp [lowerCp_upperCp c hc]

theorem lower_kw_self (kw : Str) (h : ∀ c ∈ kw, ¬ (65 ≤ c ∧ c ≤ 90)) : lower kw = kw := by
  have := lower_mixCase [] kw h
  rwa [mixCase_nil_mask] at this

/-- Conversely every string that lower-cases to `kw` is a case variant of `kw`: `mixCase`
    enumerates all of them. -/
theorem exists_mask_of_lower (s kw : Str) (h : lower s = kw) : ∃ mask, s = mixCase mask kw := by
  subst h
  induction s with
  | nil => exact ⟨[], rfl⟩
  | cons c cs ih =>
    obtain ⟨m, hm⟩ := ih
    by_cases hc : 65 ≤ c ∧ c ≤ 90
    · refine ⟨true :: m, ?_⟩
      simp only [lower, List.map_cons, mixCase_cons, if_true]
      have : upperCp (lowerCp c) = c := by unfold upperCp lowerCp; split <;> (try split) <;> omega
      rw [this]
      simp only [lower] at hm
      rw [← hm]
    · refine ⟨false :: m, ?_⟩
      simp only [lower, List.map_cons, mixCase_cons]
      rw [lowerCp_of_not_upper c hc]
      simp only [lower] at hm
      rw [← hm]
      simp

/-! ### Case of hex digits -/

theorem isHex_upperCp (c : Nat) (h : isHex c = true) : isHex (upperCp c) = true := by
  rw [isHex_iff] at h ⊢
  unfold upperCp; split <;> omega

theorem hexDigitVal_upperCp (c : Nat) (h : isHex c = true) : hexDigitVal (upperCp c) = hexDigitVal c := by
  rw [isHex_iff] at h
  unfold hexDigitVal upperCp
  split <;> split <;> (try split) <;> (try split) <;> (try split) <;> omega

theorem mixCase_allHex (m : List Bool) (s : Str) (h : ∀ d ∈ s, isHex d = true) :
    ∀ d ∈ mixCase m s, isHex d = true := by
  induction s generalizing m with
  | nil => rw [mixCase_nil]; simp
  | cons c cs ih =>
    cases m with
    | nil => rw [mixCase_nil_mask]; exact h
    | cons b m =>
      rw [mixCase_cons]
      intro d hd
      rw [List.mem_cons] at hd
      rcases hd with hd | hd
      · subst hd
        cases b
        · simpa using h c (by simp)
        · simpa using isHex_upperCp c (h c (by simp))
      · exact ih m (fun x hx => h x (by simp [hx])) d hd

theorem foldl_hex_mixCase (m : List Bool) (s : Str) (h : ∀ d ∈ s, isHex d = true) (a : Nat) :
    (mixCase m s).foldl (fun a c => a * 16 + hexDigitVal c) a =
      s.foldl (fun a c => a * 16 + hexDigitVal c) a := by
  induction s generalizing m a with
  | nil => rw [mixCase_nil]
  | cons c cs ih =>
    cases m with
    | nil => rw [mixCase_nil_mask]
    | cons b m =>
      rw [mixCase_cons]
      simp only [List.foldl_cons]
      have hcs : ∀ d ∈ cs, isHex d = true := fun x hx => h x (by simp [hx])
      cases b
      · simp only [Bool.false_eq_true, if_false]; exact ih m hcs _
      · simp only [if_true]; rw [hexDigitVal_upperCp c (h c (by simp))]; exact ih m hcs _

theorem hexVal_mixCase (m : List Bool) (s : Str) (h : ∀ d ∈ s, isHex d = true) :
    hexVal (mixCase m s) = hexVal s := foldl_hex_mixCase m s h 0

theorem hexVal_zeros (k : Nat) (s : Str) : hexVal (List.replicate k 48 ++ s) = hexVal s := by
  induction k with
  | zero => simp
  | succ k ih =>
    rw [List.replicate_succ, List.cons_append]
    unfold hexVal at ih ⊢
    rw [List.foldl_cons]
    simpa [hexDigitVal] using ih

theorem zeros_allHex (k : Nat) : ∀ d ∈ List.replicate k 48, isHex d = true := by
  intro d hd
  rw [List.mem_replicate] at hd
  rw [hd.2]; rfl

/-! ### The digits of a hex escape -/

theorem hexOk_iff (c digits : Nat) :
    hexOk c digits = true ↔ (hexDigits c).length ≤ digits ∧ digits ≤ 6 := by
  simp [hexOk]

theorem hexText_length (c digits : Nat) (mask : List Bool) (h : (hexDigits c).length ≤ digits) :
    (hexText c digits mask).length = digits := by
  unfold hexText
  rw [mixCase_length, List.length_append, List.length_replicate]
  omega

theorem hexText_allHex (c digits : Nat) (mask : List Bool) :
    ∀ d ∈ hexText c digits mask, isHex d = true := by
  unfold hexText
  apply mixCase_allHex
  intro d hd
  rw [List.mem_append] at hd
  rcases hd with hd | hd
  · exact zeros_allHex _ d hd
  · exact hexDigits_allHex c d hd

theorem hexText_val (c digits : Nat) (mask : List Bool) : hexVal (hexText c digits mask) = c := by
  unfold hexText
  rw [hexVal_mixCase, hexVal_zeros, hexVal_hexDigits]
  intro d hd
  rw [List.mem_append] at hd
  rcases hd with hd | hd
  · exact zeros_allHex _ d hd
  · exact hexDigits_allHex c d hd

theorem hexText_ne_nil (c digits : Nat) (mask : List Bool) (h : (hexDigits c).length ≤ digits) :
    hexText c digits mask ≠ [] := by
  intro he
  have := hexText_length c digits mask h
  rw [he] at this
  have := hexDigits_length_pos c
  simp at *
  omega

/-! ### One hex escape, whatever its digits and terminator -/

/-- A full run of `k` hex digits is taken whole, whatever follows. -/
theorem hexRun_full (ds t : Str) :
    ∀ k, (∀ d ∈ ds, isHex d = true) → ds.length = k → hexRun k (ds ++ t) = k := by
  induction ds with
  | nil => intro k _ hk; simp at hk; subst hk; rfl
  | cons d ds ih =>
    intro k hd hk
    cases k with
    | zero => simp at hk
    | succ k =>
      have h1 : isHex d = true := hd d (by simp)
      have h2 := ih k (fun x hx => hd x (by simp [hx])) (by simpa using hk)
      simp [hexRun, h1, h2]

theorem wsLen_of_not_ws (t : Str) (h : ∀ n ∈ t.head?, isCssWs n = false) : wsLen t = 0 := by
  cases t with
  | nil => rfl
  | cons n t =>
    have hn := h n (by simp)
    have h13 : n ≠ 13 := by intro h13; subst h13; simp [isCssWs] at hn
    simp [wsLen, hn, h13]

theorem wsLen_text (u : WsUnit) (t : Str) (h : u = .cr → t.head? ≠ some 10) :
    wsLen (u.text ++ t) = u.text.length := by
  cases u with
  | space => simp [WsUnit.text, wsLen, isCssWs]
  | tab => simp [WsUnit.text, wsLen, isCssWs]
  | lf => simp [WsUnit.text, wsLen, isCssWs]
  | ff => simp [WsUnit.text, wsLen, isCssWs]
  | cr =>
    have := h rfl
    simp [WsUnit.text, wsLen, isCssWs, this]
  | crlf => simp [WsUnit.text, wsLen]

theorem wsText_head_not_hex (u : WsUnit) (t : Str) : ∀ c ∈ (u.text ++ t).head?, isHex c = false := by
  cases u <;> simp [WsUnit.text, isHex]

/-- The heart of the matter: in `\` `ds` `ws` `t` with `termOk`, the digit run found by the
    scanners is exactly `ds` and the whitespace unit found is exactly `ws`. -/
theorem hex_term (ds t : Str) (ws : Option WsUnit) (hd : ∀ d ∈ ds, isHex d = true)
    (hl : ds.length ≤ 6) (hok : termOk ds.length ws t.head? = true) :
    hexRun 6 (ds ++ (wsText ws ++ t)) = ds.length ∧ wsLen (wsText ws ++ t) = (wsText ws).length := by
  cases ws with
  | none =>
    simp only [wsText, List.nil_append, List.length_nil]
    cases t with
    | nil =>
      exact ⟨hexRun_append ds [] 6 hd hl (by simp), rfl⟩
    | cons n t =>
      simp only [termOk, List.head?_cons, Bool.and_eq_true, Bool.not_eq_true', Bool.or_eq_true,
        beq_iff_eq] at hok
      refine ⟨?_, wsLen_of_not_ws _ (by simpa using hok.1)⟩
      rcases hok.2 with h6 | hh
      · have := hexRun_full ds (n :: t) 6 hd h6
        rw [this, h6]
      · exact hexRun_append ds (n :: t) 6 hd hl (by simpa using hh)
  | some u =>
    simp only [wsText]
    refine ⟨hexRun_append ds (u.text ++ t) 6 hd hl (wsText_head_not_hex u t), wsLen_text u t ?_⟩
    intro hu
    subst hu
    simpa [termOk] using hok

theorem escLen_hexStep (d : Nat) (ds : Str) (hd : isHex d = true) :
    escLen (92 :: d :: ds) =
      some (1 + hexRun 6 (d :: ds) + wsLen ((d :: ds).drop (hexRun 6 (d :: ds)))) := by
  simp [escLen, hd]

theorem cssUnescapeAux_hexStep (d : Nat) (ds : Str) (hd : isHex d = true) :
    cssUnescapeAux 0 (92 :: d :: ds) =
      fixCp (hexVal ((d :: ds).take (hexRun 6 (d :: ds)))) ::
        cssUnescapeAux (hexRun 6 (d :: ds) + wsLen ((d :: ds).drop (hexRun 6 (d :: ds)))) (d :: ds) := by
  simp [cssUnescapeAux, hd]

theorem unescapeStringAux_hexStep (d : Nat) (ds : Str) (hd : isHex d = true) :
    unescapeStringAux 0 (92 :: d :: ds) =
      fixCp (hexVal ((d :: ds).take (hexRun 6 (d :: ds)))) ::
        unescapeStringAux (hexRun 6 (d :: ds) + wsLen ((d :: ds).drop (hexRun 6 (d :: ds)))) (d :: ds) := by
  simp [unescapeStringAux, hd]

theorem strEscLen_hexStep (d : Nat) (ds : Str) (hd : isHex d = true) :
    strEscLen (92 :: d :: ds) =
      some (1 + hexRun 6 (d :: ds) + wsLen ((d :: ds).drop (hexRun 6 (d :: ds)))) := by
  simp [strEscLen, hd]

/-- `\` `ds` `ws` is one `CSS_ESCAPES` match. -/
theorem escLen_hex (ds t : Str) (ws : Option WsUnit) (hne : ds ≠ []) (hd : ∀ d ∈ ds, isHex d = true)
    (hl : ds.length ≤ 6) (hok : termOk ds.length ws t.head? = true) :
    escLen (92 :: (ds ++ (wsText ws ++ t))) = some (1 + ds.length + (wsText ws).length) := by
  obtain ⟨hrun, hws⟩ := hex_term ds t ws hd hl hok
  cases hds : ds with
  | nil => exact absurd hds hne
  | cons d ds' =>
    rw [hds] at hrun hd
    rw [List.cons_append] at hrun ⊢
    rw [escLen_hexStep d _ (hd d (by simp)), hrun, ← List.cons_append, List.drop_left' rfl, hws]

/-- `css_unescape` decodes `\` `ds` `ws` to the code point numbered by `ds`. -/
theorem cssUnescapeAux_hex (ds t : Str) (ws : Option WsUnit) (hne : ds ≠ [])
    (hd : ∀ d ∈ ds, isHex d = true) (hl : ds.length ≤ 6) (hok : termOk ds.length ws t.head? = true) :
    cssUnescapeAux 0 (92 :: (ds ++ (wsText ws ++ t))) = fixCp (hexVal ds) :: cssUnescapeAux 0 t := by
  obtain ⟨hrun, hws⟩ := hex_term ds t ws hd hl hok
  cases hds : ds with
  | nil => exact absurd hds hne
  | cons d ds' =>
    rw [hds] at hrun hd
    rw [List.cons_append] at hrun ⊢
    rw [cssUnescapeAux_hexStep d _ (hd d (by simp)), hrun, ← List.cons_append,
      List.drop_left' rfl, List.take_left' rfl, hws, ← List.append_assoc]
    rw [cssUnescapeAux_skip _ t _ (by simp; omega)]

theorem unescapeStringAux_succ (k c : Nat) (cs : Str) :
    unescapeStringAux (k + 1) (c :: cs) = unescapeStringAux k cs := by
  simp [unescapeStringAux]

theorem unescapeStringAux_skip (p t : Str) :
    ∀ k, p.length = k → unescapeStringAux k (p ++ t) = unescapeStringAux 0 t := by
  induction p with
  | nil => intro k hk; simp at hk; subst hk; simp
  | cons c p ih =>
    intro k hk
    cases k with
    | zero => simp at hk
    | succ k => simpa [unescapeStringAux_succ] using ih k (by simpa using hk)

/-- `css_unescape(…, string=True)` does the same. -/
theorem unescapeStringAux_hex (ds t : Str) (ws : Option WsUnit) (hne : ds ≠ [])
    (hd : ∀ d ∈ ds, isHex d = true) (hl : ds.length ≤ 6) (hok : termOk ds.length ws t.head? = true) :
    unescapeStringAux 0 (92 :: (ds ++ (wsText ws ++ t))) =
      fixCp (hexVal ds) :: unescapeStringAux 0 t := by
  obtain ⟨hrun, hws⟩ := hex_term ds t ws hd hl hok
  cases hds : ds with
  | nil => exact absurd hds hne
  | cons d ds' =>
    rw [hds] at hrun hd
    rw [List.cons_append] at hrun ⊢
    rw [unescapeStringAux_hexStep d _ (hd d (by simp)), hrun, ← List.cons_append,
      List.drop_left' rfl, List.take_left' rfl, hws, ← List.append_assoc]
    rw [unescapeStringAux_skip _ t _ (by simp; omega)]

/-- `\` `ds` `ws` is one `CSS_STRING_ESCAPES` match. -/
theorem strEscLen_hex (ds t : Str) (ws : Option WsUnit) (hne : ds ≠ []) (hd : ∀ d ∈ ds, isHex d = true)
    (hl : ds.length ≤ 6) (hok : termOk ds.length ws t.head? = true) :
    strEscLen (92 :: (ds ++ (wsText ws ++ t))) = some (1 + ds.length + (wsText ws).length) := by
  obtain ⟨hrun, hws⟩ := hex_term ds t ws hd hl hok
  cases hds : ds with
  | nil => exact absurd hds hne
  | cons d ds' =>
    rw [hds] at hrun hd
    rw [List.cons_append] at hrun ⊢
    rw [strEscLen_hexStep d _ (hd d (by simp)), hrun, ← List.cons_append, List.drop_left' rfl, hws]

theorem fixCp_of_range (c : Nat) (h0 : 0 < c) (h1 : c ≤ 0x10FFFF) : fixCp c = c := by
  unfold fixCp; rw [if_neg]; simp; omega

/-! ### Forms -/

theorem renderForm_ne_nil (c : Nat) (f : EscForm) : renderForm c f ≠ [] := by
  cases f <;> simp [renderForm]

theorem head?_append_of_ne_nil (x r : Str) (h : x ≠ []) : (x ++ r).head? = x.head? := by
  cases x with
  | nil => exact absurd rfl h
  | cons _ _ => rfl

theorem renderIdentWith_cons (c : Nat) (f : EscForm) (rest : List (Nat × EscForm)) :
    renderIdentWith ((c, f) :: rest) = renderForm c f ++ renderIdentWith rest := rfl

theorem renderIdentWith_ne_nil (forms : List (Nat × EscForm)) (h : forms ≠ []) :
    renderIdentWith forms ≠ [] := by
  cases forms with
  | nil => exact absurd rfl h
  | cons p rest =>
    obtain ⟨c, f⟩ := p
    rw [renderIdentWith_cons]
    intro he
    exact renderForm_ne_nil c f (List.append_eq_nil_iff.1 he).1

theorem validForms_cons (c : Nat) (f : EscForm) (rest : List (Nat × EscForm)) (r : Str) :
    validForms ((c, f) :: rest) r =
      (formOk c f (renderIdentWith rest ++ r).head? && validForms rest r) := rfl

theorem formOk_bs (c : Nat) (next : Option Nat) (h : formOk c .bs next = true) :
    isHex c = false ∧ c ≠ 10 ∧ c ≠ 13 ∧ c ≠ 12 := by
  simp only [formOk, Bool.and_eq_true, Bool.not_eq_true', bne_iff_ne, ne_eq] at h
  exact ⟨h.1.1.1, h.1.1.2, h.1.2, h.2⟩

theorem formOk_hex (c digits : Nat) (mask : List Bool) (ws : Option WsUnit) (next : Option Nat)
    (h : formOk c (.hex digits mask ws) next = true) :
    (hexDigits c).length ≤ digits ∧ digits ≤ 6 ∧ termOk digits ws next = true := by
  simp only [formOk, Bool.and_eq_true, hexOk_iff] at h
  exact ⟨h.1.1, h.1.2, h.2⟩

theorem rangeOk_hex (c digits : Nat) (mask : List Bool) (ws : Option WsUnit)
    (h : rangeOk c (.hex digits mask ws) = true) : 0 < c ∧ c ≤ 0x10FFFF := by
  simpa [rangeOk, isHexForm] using h

theorem rangeOk_of_range (c : Nat) (f : EscForm) (h : 0 < c ∧ c ≤ 0x10FFFF) : rangeOk c f = true := by
  simp [rangeOk, h.1, h.2]

/-- One hex form is one `CSS_ESCAPES` match. -/
theorem escLen_hexForm (c digits : Nat) (mask : List Bool) (ws : Option WsUnit) (t : Str)
    (h : formOk c (.hex digits mask ws) t.head? = true) :
    escLen (renderForm c (.hex digits mask ws) ++ t) =
      some (renderForm c (.hex digits mask ws)).length := by
  obtain ⟨hlen, h6, hterm⟩ := formOk_hex c digits mask ws _ h
  have hL := hexText_length c digits mask hlen
  simp only [renderForm, List.cons_append, List.append_assoc]
  rw [escLen_hex _ t ws (hexText_ne_nil c digits mask hlen) (hexText_allHex c digits mask)
    (by omega) (by rw [hL]; exact hterm)]
  simp; omega

/-- The `*` loop of `IDENTIFIER` consumes one admissible form, whatever it is, and continues
    after it. -/
theorem scanCont_form (c : Nat) (f : EscForm) (t : Str) (h : formOk c f t.head? = true) :
    scanCont 0 (renderForm c f ++ t) = (renderForm c f ++ (scanCont 0 t).1, (scanCont 0 t).2) := by
  cases f with
  | lit =>
    have hc : identContChar c = true := h
    simp [renderForm, scanCont_zero_cons, hc]
  | bs =>
    obtain ⟨hh, h10, h13, h12⟩ := formOk_bs c _ h
    have := scanCont_esc [c] t (by simpa using escLen_char c t hh h10 h13 h12)
    simpa [renderForm] using this
  | hex digits mask ws =>
    have he := escLen_hexForm c digits mask ws t h
    simp only [renderForm, List.cons_append, List.length_cons] at he ⊢
    have := scanCont_esc (hexText c digits mask ++ wsText ws) t he
    simpa [List.append_assoc] using this

/-- `css_unescape` turns one admissible form back into the code point it spells. -/
theorem cssUnescapeAux_form (c : Nat) (f : EscForm) (t : Str) (h : formOk c f t.head? = true)
    (hr : rangeOk c f = true) :
    cssUnescapeAux 0 (renderForm c f ++ t) = c :: cssUnescapeAux 0 t := by
  cases f with
  | lit =>
    have hc : identContChar c = true := h
    have h92 : c ≠ 92 := by rw [identContChar_iff] at hc; omega
    simp [renderForm, cssUnescapeAux, h92]
  | bs =>
    obtain ⟨hh, h10, h13, h12⟩ := formOk_bs c _ h
    simp [renderForm, cssUnescapeAux, hh, h10, h13, h12]
  | hex digits mask ws =>
    obtain ⟨hlen, h6, hterm⟩ := formOk_hex c digits mask ws _ h
    have hL := hexText_length c digits mask hlen
    simp only [renderForm, List.cons_append, List.append_assoc]
    obtain ⟨h0, h1⟩ := rangeOk_hex c digits mask ws hr
    rw [cssUnescapeAux_hex _ t ws (hexText_ne_nil c digits mask hlen) (hexText_allHex c digits mask)
      (by omega) (by rw [hL]; exact hterm), hexText_val, fixCp_of_range c h0 h1]

/-- The loop consumes a whole admissible spelling. -/
theorem scanCont_forms (forms : List (Nat × EscForm)) (r : Str) (h : validForms forms r = true) :
    scanCont 0 (renderIdentWith forms ++ r) =
      (renderIdentWith forms ++ (scanCont 0 r).1, (scanCont 0 r).2) := by
  induction forms with
  | nil => simp [renderIdentWith]
  | cons p rest ih =>
    obtain ⟨c, f⟩ := p
    rw [validForms_cons, Bool.and_eq_true] at h
    rw [renderIdentWith_cons, List.append_assoc, scanCont_form c f _ h.1, ih h.2]
    simp

/-- `css_unescape` decodes a whole admissible spelling, independently of the text after it. -/
theorem cssUnescapeAux_forms (forms : List (Nat × EscForm)) (r : Str)
    (h : validForms forms r = true) (hcp : ∀ p ∈ forms, rangeOk p.1 p.2 = true) :
    cssUnescapeAux 0 (renderIdentWith forms ++ r) = valueOf forms ++ cssUnescapeAux 0 r := by
  induction forms with
  | nil => simp [renderIdentWith, valueOf]
  | cons p rest ih =>
    obtain ⟨c, f⟩ := p
    rw [validForms_cons, Bool.and_eq_true] at h
    have hc := hcp (c, f) (by simp)
    rw [renderIdentWith_cons, List.append_assoc,
      cssUnescapeAux_form c f _ h.1 hc, ih h.2 (fun q hq => hcp q (by simp [hq]))]
    simp [valueOf]

/-! ### The head of `IDENTIFIER` -/

theorem startLen_form (c : Nat) (f : EscForm) (t : Str) (hs : startOk c f = true)
    (h : formOk c f t.head? = true) :
    startLen (renderForm c f ++ t) = some (renderForm c f).length := by
  cases f with
  | lit =>
    have hc : identStartChar c = true := hs
    simp [renderForm, startLen, hc]
  | bs =>
    obtain ⟨hh, h10, h13, h12⟩ := formOk_bs c _ h
    simp [renderForm, startLen, identStartChar, escLen_char c t hh h10 h13 h12]
  | hex digits mask ws =>
    have he := escLen_hexForm c digits mask ws t h
    simp only [renderForm, List.cons_append] at he ⊢
    simp only [startLen]
    rw [if_neg (by decide), he]

theorem renderForm_head_ne_dash (c : Nat) (f : EscForm) (t : Str)
    (h : (c == 45 && isLit f) = false) : (renderForm c f ++ t).head? ≠ some 45 := by
  cases f with
  | lit => simpa [renderForm, isLit] using h
  | bs => simp [renderForm]
  | hex _ _ _ => simp [renderForm]

/-- The head rule: a split of the text into the part matched by
    `(?:-?(?:[^...]|CSS_ESCAPES)|--)` and the part left to the `*` loop. -/
theorem headLen_forms (forms : List (Nat × EscForm)) (r : Str) (hh : headOk forms = true)
    (hv : validForms forms r = true) :
    ∃ p g, renderIdentWith forms = p ++ g ∧ headLen (p ++ (g ++ r)) = some p.length ∧
      scanCont 0 (g ++ r) = (g ++ (scanCont 0 r).1, (scanCont 0 r).2) := by
  cases forms with
  | nil => simp [headOk] at hh
  | cons p1 rest =>
    obtain ⟨c, f⟩ := p1
    rw [validForms_cons, Bool.and_eq_true] at hv
    by_cases hd : (c == 45 && isLit f) = true
    · -- a literal dash first
      have hc : c = 45 := by simp at hd; exact hd.1
      have hf : f = .lit := by cases f <;> simp [isLit] at hd ⊢
      subst hc; subst hf
      cases rest with
      | nil => simp [headOk, isLit] at hh
      | cons p2 rest2 =>
        obtain ⟨c2, f2⟩ := p2
        have hv2 := hv.2
        rw [validForms_cons, Bool.and_eq_true] at hv2
        simp only [headOk, isLit, beq_self_eq_true, Bool.and_self, if_true, Bool.or_eq_true,
          Bool.and_eq_true, beq_iff_eq] at hh
        by_cases hs : startOk c2 f2 = true
        · refine ⟨45 :: renderForm c2 f2, renderIdentWith rest2, ?_, ?_, scanCont_forms rest2 r hv2.2⟩
          · simp [renderIdentWith, renderForm]
          · have := startLen_form c2 f2 (renderIdentWith rest2 ++ r) hs hv2.1
            simp [headLen, this]
        · rcases hh with hh | ⟨hc2, hf2⟩
          · exact absurd hh hs
          · have hf2' : f2 = .lit := by cases f2 <;> simp at hf2 ⊢
            subst hc2; subst hf2'
            refine ⟨[45, 45], renderIdentWith rest2, ?_, ?_, scanCont_forms rest2 r hv2.2⟩
            · simp [renderIdentWith, renderForm]
            · simpa using headLen_dash_dash (renderIdentWith rest2 ++ r)
    · have hd' : (c == 45 && isLit f) = false := by simpa using hd
      have hs : startOk c f = true := by
        simp only [headOk, hd', Bool.false_eq_true, if_false] at hh
        exact hh
      refine ⟨renderForm c f, renderIdentWith rest, rfl, ?_, scanCont_forms rest r hv.2⟩
      rw [headLen_of_ne_dash _ (renderForm_head_ne_dash c f _ hd')]
      exact startLen_form c f _ hs hv.1

/-- The identifier scanner reads any admissible spelling and then continues with the `*` loop on
    the following text alone. -/
theorem scanIdent_forms_append (forms : List (Nat × EscForm)) (r : Str) (hh : headOk forms = true)
    (hv : validForms forms r = true) :
    scanIdent (renderIdentWith forms ++ r) =
      some (renderIdentWith forms ++ (scanCont 0 r).1, (scanCont 0 r).2) := by
  obtain ⟨p, g, hpg, hhead, hg⟩ := headLen_forms forms r hh hv
  rw [hpg]
  exact scanIdent_of_headLen p g r hhead hg

theorem scanIdent_forms (forms : List (Nat × EscForm)) (r : Str) (hh : headOk forms = true)
    (hv : validForms forms r = true) (hr : continuesIdent r = false) :
    scanIdent (renderIdentWith forms ++ r) = some (renderIdentWith forms, r) := by
  rw [scanIdent_forms_append forms r hh hv, scanCont_stop r hr]; simp

/-! ### From "nothing follows" to "`r` follows" -/

theorem termOk_mono (digits : Nat) (ws : Option WsUnit) (n : Nat) (hw : isCssWs n = false)
    (hx : isHex n = false) (h : termOk digits ws none = true) : termOk digits ws (some n) = true := by
  cases ws with
  | none => simp [termOk, hw, hx]
  | some u =>
    cases u <;> simp [termOk] at h ⊢
    intro h10; subst h10; simp [isCssWs] at hw

theorem formOk_mono (c : Nat) (f : EscForm) (n : Nat) (hw : isCssWs n = false)
    (hx : isHex n = false) (h : formOk c f none = true) : formOk c f (some n) = true := by
  cases f with
  | lit => exact h
  | bs => exact h
  | hex digits mask ws =>
    simp only [formOk, Bool.and_eq_true] at h ⊢
    exact ⟨h.1, termOk_mono digits ws n hw hx h.2⟩

/-- A spelling that is admissible as a whole content stays admissible in front of any text that
    begins with neither whitespace nor a hex digit (only a final terminator-less hex escape, or a
    final hex escape terminated by a lone CR, looks at that text at all). -/
theorem validForms_of_valid (forms : List (Nat × EscForm)) (r : Str) (h : validForms forms [] = true)
    (hr : ∀ n ∈ r.head?, isCssWs n = false ∧ isHex n = false) : validForms forms r = true := by
  induction forms with
  | nil => rfl
  | cons p rest ih =>
    obtain ⟨c, f⟩ := p
    rw [validForms_cons, Bool.and_eq_true] at h ⊢
    refine ⟨?_, ih h.2⟩
    by_cases hrest : rest = []
    · subst hrest
      have h1 := h.1
      simp only [renderIdentWith, List.nil_append, List.head?_nil] at h1 ⊢
      cases r with
      | nil => exact h1
      | cons n r' =>
        have := hr n (by simp)
        exact formOk_mono c f n this.1 this.2 h1
    · have hne := renderIdentWith_ne_nil rest hrest
      have h1 := h.1
      rw [head?_append_of_ne_nil _ _ hne] at h1 ⊢
      exact h1

theorem formOk_none (c : Nat) (f : EscForm) (next : Option Nat) (h : formOk c f next = true) :
    formOk c f none = true := by
  cases f with
  | lit => exact h
  | bs => exact h
  | hex digits mask ws =>
    simp only [formOk, Bool.and_eq_true] at h ⊢
    refine ⟨h.1, ?_⟩
    cases ws with
    | none => rfl
    | some u => cases u <;> simp [termOk]

/-- Admissible in front of `r` implies admissible as a whole content. -/
theorem validForms_nil_of (forms : List (Nat × EscForm)) (r : Str) (h : validForms forms r = true) :
    validForms forms [] = true := by
  induction forms with
  | nil => rfl
  | cons p rest ih =>
    obtain ⟨c, f⟩ := p
    rw [validForms_cons, Bool.and_eq_true] at h ⊢
    refine ⟨?_, ih h.2⟩
    by_cases hrest : rest = []
    · subst hrest
      simp only [renderIdentWith, List.nil_append, List.head?_nil]
      exact formOk_none c f _ h.1
    · have hne := renderIdentWith_ne_nil rest hrest
      have h1 := h.1
      rw [head?_append_of_ne_nil _ _ hne] at h1 ⊢
      exact h1

theorem not_hex_of_not_continues (r : Str) (h : continuesIdent r = false) :
    ∀ n ∈ r.head?, isHex n = false := by
  cases r with
  | nil => simp
  | cons n r' =>
    simp only [continuesIdent, Bool.or_eq_false_iff] at h
    intro m hm
    simp at hm; subst hm
    have := (identContChar_false_iff n).1 h.1
    rw [isHex_false_iff]; omega

/-! ### `skipWSC` -/

theorem dropComment_cons (a : Nat) (rest : Str) :
    dropComment (a :: rest) =
      if a == 42 && rest.head? == some 47 then some rest.tail else dropComment rest := rfl

theorem dropComment_length (s t : Str) (h : dropComment s = some t) : t.length + 2 ≤ s.length := by
  induction s with
  | nil => simp [dropComment] at h
  | cons a rest ih =>
    rw [dropComment_cons] at h
    split at h
    · next hc =>
      cases rest with
      | nil => simp at hc
      | cons b t' => simp at h; subst h; simp
    · have := ih h; simp; omega

/-- A comment that is complete in `s` is the same comment in `s ++ r`. -/
theorem dropComment_append (s t r : Str) (h : dropComment s = some t) :
    dropComment (s ++ r) = some (t ++ r) := by
  induction s with
  | nil => simp [dropComment] at h
  | cons a rest ih =>
    rw [dropComment_cons] at h
    rw [List.cons_append, dropComment_cons]
    have hne : rest ≠ [] := by
      intro he; subst he; simp [dropComment] at h
    have hhead : (rest ++ r).head? = rest.head? := head?_append_of_ne_nil rest r hne
    have htail : (rest ++ r).tail = rest.tail ++ r := by
      cases rest with
      | nil => exact absurd rfl hne
      | cons _ _ => rfl
    rw [hhead, htail]
    by_cases hc : (a == 42 && rest.head? == some 47) = true
    · rw [if_pos hc] at h ⊢; simp at h; simp [h]
    · rw [if_neg hc] at h ⊢; exact ih h

/-- The comment body found by `dropComment` is a prefix that is complete by itself. -/
theorem dropComment_split (s t : Str) (h : dropComment s = some t) :
    ∃ p, s = p ++ t ∧ dropComment p = some [] := by
  induction s with
  | nil => simp [dropComment] at h
  | cons a rest ih =>
    rw [dropComment_cons] at h
    split at h
    · next hc =>
      cases rest with
      | nil => simp at hc
      | cons b t' =>
        simp at h hc; subst h
        refine ⟨[a, b], by simp, ?_⟩
        simp [dropComment, hc.1, hc.2]
    · next hc =>
      obtain ⟨p, hp, hd⟩ := ih h
      refine ⟨a :: p, by simp [hp], ?_⟩
      cases p with
      | nil => simp [dropComment] at hd
      | cons b p' =>
        rw [dropComment_cons]
        have : (a == 42 && (b :: p').head? == some 47) = false := by
          rw [hp] at hc; simpa using hc
        rw [this]; exact hd

theorem skipWSCF_nil (f : Nat) : skipWSCF f [] = [] := by cases f <;> rfl

theorem skipWSCF_succ_cons (f c : Nat) (cs : Str) :
    skipWSCF (f + 1) (c :: cs) =
      if isCssWs c then skipWSCF f cs
      else if c == 47 && cs.head? == some 42 then
        match dropComment cs.tail with
        | some t => skipWSCF f t
        | none => c :: cs
      else c :: cs := rfl

/-- The fuel of `skipWSC` is never exhausted. -/
theorem skipWSCF_fuel : ∀ f g (s : Str), s.length ≤ f → s.length ≤ g → skipWSCF f s = skipWSCF g s := by
  intro f
  induction f with
  | zero =>
    intro g s hf _
    have : s = [] := by cases s with | nil => rfl | cons _ _ => simp at hf
    subst this; rw [skipWSCF_nil, skipWSCF_nil]
  | succ f ih =>
    intro g s hf hg
    cases s with
    | nil => rw [skipWSCF_nil, skipWSCF_nil]
    | cons c cs =>
      cases g with
      | zero => simp at hg
      | succ g =>
        simp only [List.length_cons] at hf hg
        rw [skipWSCF_succ_cons, skipWSCF_succ_cons]
        split
        · exact ih g cs (by omega) (by omega)
        · split
          · cases hdc : dropComment cs.tail with
            | none => rfl
            | some t =>
              have h1 := dropComment_length _ _ hdc
              have h2 : cs.tail.length ≤ cs.length := by simp
              exact ih g t (by omega) (by omega)
          · rfl

theorem skipWSC_nil : skipWSC [] = [] := rfl

theorem skipWSC_cons (c : Nat) (cs : Str) :
    skipWSC (c :: cs) =
      if isCssWs c then skipWSC cs
      else if c == 47 && cs.head? == some 42 then
        match dropComment cs.tail with
        | some t => skipWSC t
        | none => c :: cs
      else c :: cs := by
  unfold skipWSC
  rw [List.length_cons, skipWSCF_succ_cons]
  split
  · rfl
  · split
    · cases hdc : dropComment cs.tail with
      | none => rfl
      | some t =>
        have h1 := dropComment_length _ _ hdc
        have h2 : cs.tail.length ≤ cs.length := by simp
        exact skipWSCF_fuel _ _ t (by omega) (by omega)
    · rfl

theorem skipWSC_ws (c : Nat) (cs : Str) (h : isCssWs c = true) : skipWSC (c :: cs) = skipWSC cs := by
  rw [skipWSC_cons, if_pos h]

theorem skipWSC_comment (cs t : Str) (h : dropComment cs = some t) :
    skipWSC (47 :: 42 :: cs) = skipWSC t := by
  rw [skipWSC_cons]; simp [isCssWs, h]

theorem skipWSC_open (cs : Str) (h : dropComment cs = none) :
    skipWSC (47 :: 42 :: cs) = 47 :: 42 :: cs := by
  rw [skipWSC_cons]; simp [isCssWs, h]

theorem skipWSC_other (c : Nat) (cs : Str) (hw : isCssWs c = false)
    (hc : (c == 47 && cs.head? == some 42) = false) : skipWSC (c :: cs) = c :: cs := by
  rw [skipWSC_cons, hw, hc]; simp

/-- The four ways `skipWSC` can start. -/
inductive Step (s : Str) : Prop
  | nil : s = [] → Step s
  | ws (c : Nat) (cs : Str) : s = c :: cs → isCssWs c = true → skipWSC s = skipWSC cs → Step s
  | comment (cs t : Str) : s = 47 :: 42 :: cs → dropComment cs = some t → skipWSC s = skipWSC t →
      Step s
  | stop : s ≠ [] → skipWSC s = s → Step s

theorem skipWSC_step (s : Str) : Step s := by
  cases s with
  | nil => exact .nil rfl
  | cons c cs =>
    by_cases hw : isCssWs c = true
    · exact .ws c cs rfl hw (skipWSC_ws c cs hw)
    · have hw' : isCssWs c = false := by simpa using hw
      by_cases hc : (c == 47 && cs.head? == some 42) = true
      · simp only [Bool.and_eq_true, beq_iff_eq] at hc
        obtain ⟨h47, h42⟩ := hc
        subst h47
        cases cs with
        | nil => simp at h42
        | cons b cs' =>
          simp at h42; subst h42
          cases hdc : dropComment cs' with
          | none => exact .stop (by simp) (skipWSC_open cs' hdc)
          | some t => exact .comment cs' t rfl hdc (skipWSC_comment cs' t hdc)
      · have hc' : (c == 47 && cs.head? == some 42) = false := by simpa using hc
        exact .stop (by simp) (skipWSC_other c cs hw' hc')

/-- A gap in front of any text is skipped entirely, and then skipping continues in that text. -/
theorem skipWSC_gap_append (r : Str) : ∀ n (g : Str), g.length ≤ n → skipWSC g = [] →
    skipWSC (g ++ r) = skipWSC r := by
  intro n
  induction n with
  | zero =>
    intro g hn _
    have : g = [] := by cases g with | nil => rfl | cons _ _ => simp at hn
    subst this; rfl
  | succ n ih =>
    intro g hn hg
    cases skipWSC_step g with
    | nil h => subst h; rfl
    | ws c cs hs hw he =>
      subst hs
      rw [List.cons_append, skipWSC_ws c _ hw]
      exact ih cs (by simp at hn; omega) (by rw [← he]; exact hg)
    | comment cs t hs hd he =>
      subst hs
      have hl := dropComment_length _ _ hd
      rw [List.cons_append, List.cons_append, skipWSC_comment _ _ (dropComment_append cs t r hd)]
      exact ih t (by simp at hn; omega) (by rw [← he]; exact hg)
    | stop hne he => rw [he] at hg; exact absurd hg hne

theorem skipWSC_idem_aux : ∀ n (s : Str), s.length ≤ n → skipWSC (skipWSC s) = skipWSC s := by
  intro n
  induction n with
  | zero =>
    intro s hn
    have : s = [] := by cases s with | nil => rfl | cons _ _ => simp at hn
    subst this; rfl
  | succ n ih =>
    intro s hn
    cases skipWSC_step s with
    | nil h => subst h; rfl
    | ws c cs hs hw he => subst hs; rw [he]; exact ih cs (by simp at hn; omega)
    | comment cs t hs hd he =>
      subst hs
      have hl := dropComment_length _ _ hd
      rw [he]; exact ih t (by simp at hn; omega)
    | stop _ he => rw [he, he]

/-- What `skipWSC` removes is a gap. -/
theorem skipWSC_prefix_aux : ∀ n (s : Str), s.length ≤ n →
    ∃ g, skipWSC g = [] ∧ s = g ++ skipWSC s := by
  intro n
  induction n with
  | zero =>
    intro s hn
    have : s = [] := by cases s with | nil => rfl | cons _ _ => simp at hn
    subst this; exact ⟨[], rfl, rfl⟩
  | succ n ih =>
    intro s hn
    cases skipWSC_step s with
    | nil h => subst h; exact ⟨[], rfl, rfl⟩
    | ws c cs hs hw he =>
      subst hs
      obtain ⟨g, hg, hsg⟩ := ih cs (by simp at hn; omega)
      refine ⟨c :: g, by rw [skipWSC_ws c g hw]; exact hg, ?_⟩
      rw [he, List.cons_append, ← hsg]
    | comment cs t hs hd he =>
      subst hs
      have hl := dropComment_length _ _ hd
      obtain ⟨g, hg, hsg⟩ := ih t (by simp at hn; omega)
      obtain ⟨p, hp, hpd⟩ := dropComment_split cs t hd
      refine ⟨47 :: 42 :: (p ++ g), ?_, ?_⟩
      · rw [skipWSC_comment (p ++ g) ([] ++ g) (dropComment_append p [] g hpd)]
        simpa using hg
      · rw [he, hp]
        simp only [List.cons_append, List.append_assoc]
        rw [← hsg]
    | stop _ he => exact ⟨[], rfl, by rw [he]; rfl⟩

theorem skipWSC_of_noGapStart (r : Str) (h : noGapStart r = true) : skipWSC r = r := by
  cases r with
  | nil => rfl
  | cons c cs =>
    simp only [noGapStart, Bool.and_eq_true, Bool.not_eq_true'] at h
    exact skipWSC_other c cs h.1 h.2

/-! ### Quoted strings: `css_unescape(…, string=True)` -/

theorem renderPiece_ne_nil (p : StrPiece) : renderPiece p ≠ [] := by
  cases p with
  | ch c f => exact renderForm_ne_nil c f
  | cont nl => simp [renderPiece]

theorem renderStrWith_cons (p : StrPiece) (rest : List StrPiece) :
    renderStrWith (p :: rest) = renderPiece p ++ renderStrWith rest := rfl

theorem renderStrWith_ne_nil (ps : List StrPiece) (h : ps ≠ []) : renderStrWith ps ≠ [] := by
  cases ps with
  | nil => exact absurd rfl h
  | cons p rest =>
    rw [renderStrWith_cons]
    intro he
    exact renderPiece_ne_nil p (List.append_eq_nil_iff.1 he).1

theorem validStr_cons (q : Nat) (p : StrPiece) (rest : List StrPiece) (r : Str) :
    validStr q (p :: rest) r =
      (pieceOk q p (renderStrWith rest ++ r).head? && validStr q rest r) := rfl

theorem pieceOk_lit (q c : Nat) (next : Option Nat) (h : pieceOk q (.ch c .lit) next = true) :
    c ≠ 92 ∧ c ≠ q ∧ c ≠ 10 ∧ c ≠ 13 ∧ c ≠ 12 := by
  simp only [pieceOk, Bool.and_eq_true, bne_iff_ne, ne_eq] at h
  exact ⟨h.1.1.1.1, h.1.1.1.2, h.1.1.2, h.1.2, h.2⟩

theorem pieceOk_cont (q : Nat) (nl : WsUnit) (next : Option Nat) (h : pieceOk q (.cont nl) next = true) :
    isNewlineUnit nl = true ∧ (nl = .cr → next ≠ some 10) := by
  simp only [pieceOk, Bool.and_eq_true, Bool.or_eq_true, bne_iff_ne, ne_eq] at h
  refine ⟨h.1, fun hcr => ?_⟩
  rcases h.2 with h2 | h2
  · exact absurd hcr h2
  · exact h2

/-- `css_unescape(…, True)` turns one admissible piece of a string body into what it spells. -/
theorem unescapeStringAux_piece (q : Nat) (p : StrPiece) (t : Str) (h : pieceOk q p t.head? = true)
    (hr : pieceRangeOk p = true) :
    unescapeStringAux 0 (renderPiece p ++ t) = pieceValue p ++ unescapeStringAux 0 t := by
  cases p with
  | ch c f =>
    cases f with
    | lit =>
      obtain ⟨h92, _, _, _, _⟩ := pieceOk_lit q c _ h
      simp [renderPiece, renderForm, pieceValue, unescapeStringAux, h92]
    | bs =>
      obtain ⟨hh, h10, h13, h12⟩ := formOk_bs c t.head? h
      simp [renderPiece, renderForm, pieceValue, unescapeStringAux, hh, h10, h13, h12]
    | hex digits mask ws =>
      obtain ⟨hlen, h6, hterm⟩ := formOk_hex c digits mask ws t.head? h
      have hL := hexText_length c digits mask hlen
      obtain ⟨h0, h1⟩ := rangeOk_hex c digits mask ws hr
      simp only [renderPiece, renderForm, pieceValue, List.cons_append, List.append_assoc]
      rw [unescapeStringAux_hex _ t ws (hexText_ne_nil c digits mask hlen)
        (hexText_allHex c digits mask) (by omega) (by rw [hL]; exact hterm), hexText_val,
        fixCp_of_range c h0 h1]
      rfl
  | cont nl =>
    obtain ⟨hnl, hcr⟩ := pieceOk_cont q nl _ h
    cases nl with
    | space => simp [isNewlineUnit] at hnl
    | tab => simp [isNewlineUnit] at hnl
    | lf => simp [renderPiece, WsUnit.text, pieceValue, unescapeStringAux, isHex]
    | ff => simp [renderPiece, WsUnit.text, pieceValue, unescapeStringAux, isHex]
    | cr =>
      have := hcr rfl
      simp [renderPiece, WsUnit.text, pieceValue, unescapeStringAux, isHex, this]
    | crlf => simp [renderPiece, WsUnit.text, pieceValue, unescapeStringAux, isHex]

theorem unescapeStringAux_pieces (q : Nat) (ps : List StrPiece) (r : Str)
    (h : validStr q ps r = true) (hr : ∀ p ∈ ps, pieceRangeOk p = true) :
    unescapeStringAux 0 (renderStrWith ps ++ r) = strValue ps ++ unescapeStringAux 0 r := by
  induction ps with
  | nil => simp [renderStrWith, strValue]
  | cons p rest ih =>
    rw [validStr_cons, Bool.and_eq_true] at h
    rw [renderStrWith_cons, List.append_assoc,
      unescapeStringAux_piece q p _ h.1 (hr p (by simp)), ih h.2 (fun x hx => hr x (by simp [hx]))]
    simp [strValue]

/-! ### Quoted strings: the token -/

theorem scanStrBody_succ (q k c : Nat) (cs : Str) :
    scanStrBody q (k + 1) (c :: cs) = (scanStrBody q k cs).map fun r => (c :: r.1, r.2) := by
  simp [scanStrBody]

theorem scanStrBody_copy (q : Nat) (p t : Str) : ∀ k, p.length = k →
    scanStrBody q k (p ++ t) = (scanStrBody q 0 t).map fun r => (p ++ r.1, r.2) := by
  induction p with
  | nil => intro k hk; simp at hk; subst hk; simp
  | cons c p ih =>
    intro k hk
    cases k with
    | zero => simp at hk
    | succ k =>
      rw [List.cons_append, scanStrBody_succ, ih k (by simpa using hk)]
      simp [Option.map_map, Function.comp_def]

theorem scanStrBody_esc (q : Nat) (p t : Str) (hq : q ≠ 92)
    (h : strEscLen (92 :: (p ++ t)) = some (p.length + 1)) :
    scanStrBody q 0 (92 :: (p ++ t)) = (scanStrBody q 0 t).map fun r => (92 :: p ++ r.1, r.2) := by
  have hq' : (92 == q) = false := by simp; omega
  simp only [scanStrBody, hq', Bool.false_eq_true, if_false, beq_self_eq_true, if_true, h]
  rw [Nat.add_sub_cancel, scanStrBody_copy q p t p.length rfl]
  simp [Option.map_map, Function.comp_def]

theorem scanStrBody_piece (q : Nat) (p : StrPiece) (t : Str) (hq : q ≠ 92)
    (h : pieceOk q p t.head? = true) :
    scanStrBody q 0 (renderPiece p ++ t) =
      (scanStrBody q 0 t).map fun r => (renderPiece p ++ r.1, r.2) := by
  cases p with
  | ch c f =>
    cases f with
    | lit =>
      obtain ⟨h92, hcq, h10, h13, h12⟩ := pieceOk_lit q c _ h
      simp [renderPiece, renderForm, scanStrBody, h92, hcq, h10, h13, h12]
    | bs =>
      obtain ⟨hh, h10, h13, h12⟩ := formOk_bs c t.head? h
      have := scanStrBody_esc q [c] t hq (by simp [strEscLen, hh, h10, h13, h12])
      simpa [renderPiece, renderForm] using this
    | hex digits mask ws =>
      obtain ⟨hlen, h6, hterm⟩ := formOk_hex c digits mask ws t.head? h
      have hL := hexText_length c digits mask hlen
      have := scanStrBody_esc q (hexText c digits mask ++ wsText ws) t hq (by
        rw [List.append_assoc, strEscLen_hex _ t ws (hexText_ne_nil c digits mask hlen)
          (hexText_allHex c digits mask) (by omega) (by rw [hL]; exact hterm)]
        simp; omega)
      simpa [renderPiece, renderForm, List.append_assoc] using this
  | cont nl =>
    obtain ⟨hnl, hcr⟩ := pieceOk_cont q nl _ h
    have hw := wsLen_text nl t hcr
    have := scanStrBody_esc q nl.text t hq (by
      cases nl with
      | space => simp [isNewlineUnit] at hnl
      | tab => simp [isNewlineUnit] at hnl
      | lf => simp [WsUnit.text] at hw ⊢; simp [strEscLen, isHex, hw]
      | ff => simp [WsUnit.text] at hw ⊢; simp [strEscLen, isHex, hw]
      | cr => simp [WsUnit.text] at hw ⊢; simp [strEscLen, isHex, hw]
      | crlf => simp [WsUnit.text] at hw ⊢; simp [strEscLen, isHex, hw])
    simpa [renderPiece] using this

/-- The string scanner reads any admissible body up to the closing quote. -/
theorem scanStrBody_pieces (q : Nat) (ps : List StrPiece) (r : Str) (hq : q ≠ 92)
    (h : validStr q ps (q :: r) = true) :
    scanStrBody q 0 (renderStrWith ps ++ q :: r) = some (renderStrWith ps, r) := by
  induction ps with
  | nil => simp [renderStrWith, scanStrBody]
  | cons p rest ih =>
    rw [validStr_cons, Bool.and_eq_true] at h
    rw [renderStrWith_cons, List.append_assoc, scanStrBody_piece q p _ hq h.1, ih h.2]
    simp

/-! ### From "nothing follows" to "the closing quote follows" -/

theorem pieceOk_mono (q : Nat) (p : StrPiece) (n : Nat) (hw : isCssWs n = false)
    (hx : isHex n = false) (h : pieceOk q p none = true) : pieceOk q p (some n) = true := by
  cases p with
  | ch c f =>
    cases f with
    | lit => exact h
    | bs => exact h
    | hex digits mask ws => exact formOk_mono c (.hex digits mask ws) n hw hx h
  | cont nl =>
    simp only [pieceOk, Bool.and_eq_true, Bool.or_eq_true, bne_iff_ne, ne_eq] at h ⊢
    refine ⟨h.1, ?_⟩
    by_cases hnl : nl = .cr
    · right; intro h10; simp at h10; subst h10; simp [isCssWs] at hw
    · left; exact hnl

theorem validStr_of_nil (q : Nat) (ps : List StrPiece) (r : Str) (h : validStr q ps [] = true)
    (hr : ∀ n ∈ r.head?, isCssWs n = false ∧ isHex n = false) : validStr q ps r = true := by
  induction ps with
  | nil => rfl
  | cons p rest ih =>
    rw [validStr_cons, Bool.and_eq_true] at h ⊢
    refine ⟨?_, ih h.2⟩
    by_cases hrest : rest = []
    · subst hrest
      have h1 := h.1
      simp only [renderStrWith, List.nil_append, List.head?_nil] at h1 ⊢
      cases r with
      | nil => exact h1
      | cons n r' =>
        have := hr n (by simp)
        exact pieceOk_mono q p n this.1 this.2 h1
    · have hne := renderStrWith_ne_nil rest hrest
      have h1 := h.1
      rw [head?_append_of_ne_nil _ _ hne] at h1 ⊢
      exact h1

/-! ### The canonical quoted rendering is one of the admissible spellings -/

/-- The piece `renderStringBody` writes for `c`. -/
def canonPiece (q c : Nat) : StrPiece :=
  .ch c (if c == 10 || c == 13 || c == 12 then .hex (hexDigits c).length [] (some .space)
         else if c == 92 || c == q then .bs else .lit)

theorem hexText_natural (c : Nat) : hexText c (hexDigits c).length [] = hexDigits c := by
  simp [hexText, mixCase_nil_mask]

theorem renderPiece_canon (q c : Nat) : renderPiece (canonPiece q c) = strEscChar q c := by
  unfold canonPiece strEscChar
  split
  · simp [renderPiece, renderForm, hexText_natural, wsText, WsUnit.text]
  · split <;> simp [renderPiece, renderForm]

theorem pieceValue_canon (q c : Nat) : pieceValue (canonPiece q c) = [c] := rfl

theorem pieceRangeOk_canon (q c : Nat) : pieceRangeOk (canonPiece q c) = true := by
  unfold canonPiece
  split
  · next h =>
    simp only [Bool.or_eq_true, beq_iff_eq] at h
    simp only [pieceRangeOk, rangeOk, isHexForm]
    rcases h with (h | h) | h <;> subst h <;> decide
  · split <;> simp [pieceRangeOk, rangeOk, isHexForm]

theorem pieceOk_canon (q c : Nat) (next : Option Nat) (hq : isHex q = false) :
    pieceOk q (canonPiece q c) next = true := by
  unfold canonPiece
  split
  · next h =>
    simp only [Bool.or_eq_true, beq_iff_eq] at h
    have hl : (hexDigits c).length ≤ 2 := hexDigits_length_le_two c (by omega)
    simp only [pieceOk, formOk, hexOk, termOk, Bool.and_eq_true, decide_eq_true_eq]
    exact ⟨⟨Nat.le_refl _, by omega⟩, trivial⟩
  · next h =>
    simp only [Bool.or_eq_true, beq_iff_eq, not_or] at h
    split
    · next h2 =>
      simp only [Bool.or_eq_true, beq_iff_eq] at h2
      have hh : isHex c = false := by
        rcases h2 with h2 | h2
        · subst h2; rfl
        · subst h2; exact hq
      simp [pieceOk, formOk, hh, h.1.1, h.1.2, h.2]
    · next h2 =>
      simp only [Bool.or_eq_true, beq_iff_eq, not_or] at h2
      simp [pieceOk, h.1.1, h.1.2, h.2, h2.1, h2.2]

theorem renderStringBody_eq (q : Nat) (v : Str) :
    renderStringBody q v = renderStrWith (v.map (canonPiece q)) := by
  induction v with
  | nil => rfl
  | cons c cs ih => simp [renderStringBody, renderStrWith, renderPiece_canon, ih]

theorem strValue_canon (q : Nat) (v : Str) : strValue (v.map (canonPiece q)) = v := by
  induction v with
  | nil => rfl
  | cons c cs ih => simp [strValue, pieceValue_canon, ih]

theorem validStr_canon (q : Nat) (v r : Str) (hq : isHex q = false) :
    validStr q (v.map (canonPiece q)) r = true := by
  induction v with
  | nil => rfl
  | cons c cs ih =>
    rw [List.map_cons, validStr_cons, Bool.and_eq_true]
    exact ⟨pieceOk_canon q c _ hq, ih⟩

/-! ### `escape` never begins with a quote -/

theorem escapeChar_head (lead : Bool) (c : Nat) :
    ∀ h ∈ (escapeChar lead c).head?, h ≠ 34 ∧ h ≠ 39 := by
  cases escapeChar_piece lead c with
  | nul _ he => rw [he]; simp
  | hex _ _ he => rw [he]; simp
  | lit hc _ he => rw [he]; rw [identContChar_iff] at hc; simp; omega
  | bs _ _ _ _ he => rw [he]; simp

theorem escape_head (s : Str) : ∀ h ∈ (escape s).head?, h ≠ 34 ∧ h ≠ 39 := by
  rcases escape_eq_dash_or_go s with ⟨_, he⟩ | he
  · rw [he]; simp
  · rw [he]
    cases s with
    | nil => simp [escapeGo]
    | cons c cs =>
      simp only [escapeGo]
      rw [head?_append_of_ne_nil _ _ (escapeChar_ne_nil _ c)]
      exact escapeChar_head _ c

/-! ### The spelling chosen by `escape` is one of the admissible spellings -/

/-- A spelling that is admissible whatever follows, with the value `v`. -/
def SpellsAnywhere (text v : Str) : Prop :=
  ∃ forms, text = renderIdentWith forms ∧ valueOf forms = v ∧ (∀ r, validForms forms r = true) ∧
    ∀ p ∈ forms, rangeOk p.1 p.2 = true

theorem escapeChar_form (lead : Bool) (c : Nat) :
    ∃ f, escapeChar lead c = renderForm (if c == 0 then 0xFFFD else c) f ∧
      (∀ next, formOk (if c == 0 then 0xFFFD else c) f next = true) ∧
      rangeOk (if c == 0 then 0xFFFD else c) f = true := by
  cases escapeChar_piece lead c with
  | nul h0 he =>
    refine ⟨.lit, ?_, ?_, ?_⟩
    · rw [he]; simp [h0, renderForm]
    · intro _; simp [h0, formOk, identContChar]
    · simp [rangeOk, isHexForm]
  | hex h0 h128 he =>
    have hc0 : (c == 0) = false := by simp; omega
    have hl := hexDigits_length_le_two c (by omega)
    refine ⟨.hex (hexDigits c).length [] (some .space), ?_, ?_, ?_⟩
    · rw [he, hc0]
      simp [renderForm, hexText, mixCase_nil_mask, wsText, WsUnit.text]
    · intro _
      rw [hc0]
      simp only [formOk, hexOk, termOk, Bool.false_eq_true, if_false, Bool.and_eq_true,
        decide_eq_true_eq]
      exact ⟨⟨Nat.le_refl _, by omega⟩, trivial⟩
    · rw [hc0]; simp [rangeOk, isHexForm]; omega
  | lit hc _ he =>
    have hc0 : (c == 0) = false := by rw [identContChar_iff] at hc; simp; omega
    refine ⟨.lit, ?_, ?_, ?_⟩
    · rw [he, hc0]; simp [renderForm]
    · intro _; rw [hc0]; simpa [formOk] using hc
    · simp [rangeOk, isHexForm]
  | bs h32 h127 hh _ he =>
    have hc0 : (c == 0) = false := by simp; omega
    have h10 : c ≠ 10 := by omega
    have h13 : c ≠ 13 := by omega
    have h12 : c ≠ 12 := by omega
    refine ⟨.bs, ?_, ?_, ?_⟩
    · rw [he, hc0]; simp [renderForm]
    · intro _; rw [hc0]; simp [formOk, hh, h10, h13, h12]
    · simp [rangeOk, isHexForm]

theorem escapeGo_spells (sd : Bool) (s : Str) : ∀ i, SpellsAnywhere (escapeGo sd i s) (nulToFFFD s) := by
  induction s with
  | nil => intro i; exact ⟨[], rfl, rfl, fun _ => rfl, by simp⟩
  | cons c cs ih =>
    intro i
    obtain ⟨forms, ht, hval, hv, hr⟩ := ih (i + 1)
    obtain ⟨f, he, hok, hrg⟩ := escapeChar_form (i == 0 || (sd && i == 1)) c
    refine ⟨((if c == 0 then 0xFFFD else c), f) :: forms, ?_, ?_, ?_, ?_⟩
    · simp only [escapeGo, renderIdentWith_cons]; rw [he, ht]
    · simp only [valueOf, List.map_cons, nulToFFFD] at hval ⊢; rw [hval]
    · intro r; rw [validForms_cons, hok, hv r]; rfl
    · intro p hp
      rw [List.mem_cons] at hp
      rcases hp with hp | hp
      · rw [hp]; exact hrg
      · exact hr p hp

/-- `escape s` is, for every `s`, one of the spellings of `nulToFFFD s` quantified over by the
    C09 theorems (and one that is admissible in front of any text). -/
theorem escape_spells (s : Str) : SpellsAnywhere (escape s) (nulToFFFD s) := by
  rcases escape_eq_dash_or_go s with ⟨hs, he⟩ | he
  · rw [he, hs]
    refine ⟨[(45, .bs)], by simp [renderIdentWith, renderForm], by simp [valueOf, nulToFFFD], ?_, ?_⟩
    · intro r; simp [validForms, formOk, isHex]
    · intro p hp; simp at hp; subst hp; simp [rangeOk, isHexForm]
  · rw [he]; exact escapeGo_spells _ s 0

end SpellingLemmas
end SoupVerif
