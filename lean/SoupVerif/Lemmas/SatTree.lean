/-
  Tree facts relating the zipper walks of `Model/Tree.lean` (and the matcher's `Ctx` walks with
  `no_iframe = False`) to the sets of the standard defined in `Spec/Css.lean`.
-/
import SoupVerif.Spec.Css
import SoupVerif.Lemmas.TreeWalk
namespace SoupVerif
namespace SatTree
open Css

/-! ### Children, siblings, parent -/

theorem childrenAux_eq_nextSiblingsAux (e : Elem) (up : List Frame) :
    ∀ (R L : List Node), Loc.childrenAux e up L R = Loc.nextSiblingsAux e up L R := by
  intro R
  induction R with
  | nil => intro L; simp [Loc.childrenAux, Loc.nextSiblingsAux]
  | cons k R ih => intro L; simp [Loc.childrenAux, Loc.nextSiblingsAux, ih]

theorem childrenAux_split (e : Elem) (up : List Frame) :
    ∀ (left right : List Node),
      Loc.childrenAux e up [] (left.reverse ++ right) =
        (Loc.prevSiblingsAux e up left right).reverse ++ Loc.childrenAux e up left right := by
  intro left
  induction left with
  | nil => intro right; simp [Loc.prevSiblingsAux]
  | cons p left ih =>
    intro right
    have := ih (p :: right)
    simp only [List.reverse_cons, List.append_assoc, List.singleton_append]
    rw [this]
    simp [Loc.prevSiblingsAux, Loc.childrenAux]

/-- The parent's children list is: previous siblings (reversed: `prevSiblings` is nearest-first),
    the node itself, next siblings.  Structural equality of `Loc`s. -/
theorem parent_children (l : Loc) (f : Frame) (rest : List Frame) (h : l.up = f :: rest) :
    (⟨Loc.plug f l.focus, rest⟩ : Loc).children = l.prevSiblings.reverse ++ l :: l.nextSiblings := by
  obtain ⟨n, up⟩ := l
  simp only at h
  subst h
  obtain ⟨fl, fe, fr⟩ := f
  simp only [Loc.children, Loc.plug, Loc.prevSiblings, Loc.nextSiblings]
  rw [childrenAux_split]
  simp [Loc.childrenAux, childrenAux_eq_nextSiblingsAux]

theorem parent?_children (l p : Loc) (h : l.parent? = some p) :
    p.children = l.prevSiblings.reverse ++ l :: l.nextSiblings := by
  unfold Loc.parent? at h
  split at h
  · simp at h
  · rename_i f rest hu
    simp only [Option.some.injEq] at h
    subst h
    exact parent_children l f rest hu

theorem childrenAux_shape (e : Elem) (up : List Frame) :
    ∀ (ks acc : List Node) (ch : Loc), ch ∈ Loc.childrenAux e up acc ks →
      ∃ k left right, ch = ⟨k, ⟨left, e, right⟩ :: up⟩ ∧
        left.reverse ++ k :: right = acc.reverse ++ ks := by
  intro ks
  induction ks with
  | nil => intro acc ch h; simp [Loc.childrenAux] at h
  | cons k0 right ih =>
    intro acc ch h
    simp only [Loc.childrenAux, List.mem_cons] at h
    rcases h with rfl | h
    · exact ⟨k0, acc, right, rfl, rfl⟩
    · obtain ⟨k, left, r, h1, h2⟩ := ih (k0 :: acc) ch h
      exact ⟨k, left, r, h1, by simpa using h2⟩

theorem child_parent (l ch : Loc) (h : ch ∈ l.children) : ch.parent? = some l := by
  obtain ⟨n, up⟩ := l
  unfold Loc.children at h
  split at h
  · rename_i e ks hf
    simp only at hf
    subst hf
    obtain ⟨k, left, right, rfl, h2⟩ := childrenAux_shape e up ks [] ch h
    simp only [List.reverse_nil, List.nil_append] at h2
    simp [Loc.parent?, Loc.plug, h2]
  · simp at h

theorem same_self (l : Loc) : l.same l = true := by simp [Loc.same]

theorem prevSiblingsAux_mem (e : Elem) (up : List Frame) :
    ∀ (left right : List Node) (s : Loc), s ∈ Loc.prevSiblingsAux e up left right →
      ∃ f, s.up = f :: up ∧ f.left.length < left.length := by
  intro left
  induction left with
  | nil => intro right s h; simp [Loc.prevSiblingsAux] at h
  | cons p left ih =>
    intro right s h
    simp only [Loc.prevSiblingsAux, List.mem_cons] at h
    rcases h with rfl | h
    · exact ⟨_, rfl, by simp⟩
    · obtain ⟨f, h1, h2⟩ := ih _ s h
      exact ⟨f, h1, by simp; omega⟩

theorem nextSiblingsAux_mem (e : Elem) (up : List Frame) :
    ∀ (right left : List Node) (s : Loc), s ∈ Loc.nextSiblingsAux e up left right →
      ∃ f, s.up = f :: up ∧ left.length ≤ f.left.length := by
  intro right left s h
  rw [← childrenAux_eq_nextSiblingsAux] at h
  obtain ⟨f, h1, _, h3⟩ := childrenAux_mem e up right left s h
  exact ⟨f, h1, h3⟩

theorem prev_not_same (l s : Loc) (h : s ∈ l.prevSiblings) : s.same l = false := by
  unfold Loc.prevSiblings at h
  split at h
  · simp at h
  · rename_i f rest hu
    obtain ⟨g, hg, hlt⟩ := prevSiblingsAux_mem _ _ _ _ s h
    cases hsame : s.same l with
    | false => rfl
    | true =>
      rw [Loc.same_iff, Loc.pos_eq_posOf, Loc.pos_eq_posOf, hg, hu, posOf_cons, posOf_cons] at hsame
      have := List.append_cancel_left hsame
      simp at this
      omega

theorem next_not_same (l s : Loc) (h : s ∈ l.nextSiblings) : s.same l = false := by
  unfold Loc.nextSiblings at h
  split at h
  · simp at h
  · rename_i f rest hu
    obtain ⟨g, hg, hle⟩ := nextSiblingsAux_mem _ _ _ _ s h
    cases hsame : s.same l with
    | false => rfl
    | true =>
      rw [Loc.same_iff, Loc.pos_eq_posOf, Loc.pos_eq_posOf, hg, hu, posOf_cons, posOf_cons] at hsame
      have := List.append_cancel_left hsame
      simp at this
      simp at hle
      omega

theorem siblings_nil_of_top (l : Loc) (h : l.up = []) : l.prevSiblings = [] ∧ l.nextSiblings = [] := by
  simp [Loc.prevSiblings, Loc.nextSiblings, h]

theorem parent?_none_iff (l : Loc) : l.parent? = none ↔ l.up = [] := by
  unfold Loc.parent?
  cases l.up <;> simp

/-! ### The matcher's walks with `no_iframe = False` -/

theorem ancestorsCut_false (c : Ctx) : ∀ L : List Loc, c.ancestorsCut false L = L := by
  intro L
  induction L with
  | nil => simp [Ctx.ancestorsCut]
  | cons p ps ih => simp [Ctx.ancestorsCut, ih]

theorem ctx_ancestors_false (c : Ctx) (l : Loc) : c.ancestors l false = l.ancestors := by
  simp [Ctx.ancestors, ancestorsCut_false]

theorem ctx_parent_false (c : Ctx) (l : Loc) : c.parent l false = l.parent? := by
  unfold Ctx.parent
  cases l.parent? <;> simp

theorem ctx_tagChildren_false (c : Ctx) (l : Loc) : c.tagChildren l false = childElems l := by
  simp [Ctx.tagChildren, Ctx.contents, childElems]
  rfl

theorem ancestorsAux_takeWhile : ∀ (up : List Frame) (n : Node),
    (Loc.ancestorsAux n up).takeWhile (fun p => !p.isDoc) = ancestorElemsAux n up := by
  intro up
  induction up with
  | nil => intro n; simp [Loc.ancestorsAux, ancestorElemsAux]
  | cons f rest ih =>
    intro n
    simp only [Loc.ancestorsAux, ancestorElemsAux, List.takeWhile_cons]
    have hd : (⟨Loc.plug f n, rest⟩ : Loc).isDoc = f.info.isDoc := rfl
    rw [hd, ih]
    cases f.info.isDoc <;> simp

theorem ancestors_takeWhile (l : Loc) :
    l.ancestors.takeWhile (fun p => !p.isDoc) = ancestorElems l :=
  ancestorsAux_takeWhile l.up l.focus

theorem parentElem_eq (l : Loc) :
    parentElem l = (match l.parent? with
      | some p => if p.isDoc then none else some p
      | none => none) := by
  unfold parentElem Loc.parent?
  cases l.up with
  | nil => rfl
  | cons f rest => rfl

theorem descElemsKids_nil (e : Elem) (up : List Frame) (left : List Node) :
    descElemsKids e up left [] = [] := by
  conv => lhs; unfold descElemsKids

theorem descElemsKids_cons (e : Elem) (up : List Frame) (left : List Node) (k : Node)
    (right : List Node) :
    descElemsKids e up left (k :: right) =
      (match k with
       | .elem _ _ => [(⟨k, ⟨left, e, right⟩ :: up⟩ : Loc)]
       | .str _ _ => []) ++
      descElemsNode (⟨left, e, right⟩ :: up) k ++ descElemsKids e up (k :: left) right := by
  cases k <;> (conv => lhs; unfold descElemsKids)

theorem descElemsNode_elem (up : List Frame) (e : Elem) (ks : List Node) :
    descElemsNode up (.elem e ks) = descElemsKids e up [] ks := by
  conv => lhs; unfold descElemsNode

theorem descElemsNode_str (up : List Frame) (k : StrKind) (s : Str) :
    descElemsNode up (.str k s) = [] := by
  conv => lhs; unfold descElemsNode

theorem descElems_eq :
    (∀ (e : Elem) (up : List Frame) (left ks : List Node),
        descElemsKids e up left ks = (descAux (fun _ => true) e up left ks).filter Loc.isTag) ∧
    (∀ (n : Node) (up : List Frame) (self : Loc),
        descElemsNode up n = (descNode (fun _ => true) n up self).filter Loc.isTag) := by
  apply descAux.mutual_induct (fun _ => true)
    (fun e up left ks =>
      descElemsKids e up left ks = (descAux (fun _ => true) e up left ks).filter Loc.isTag)
    (fun n up self =>
      descElemsNode up n = (descNode (fun _ => true) n up self).filter Loc.isTag)
  · intro up self e ks _ ih
    rw [descNode_elem, descElemsNode_elem, if_pos rfl]; exact ih
  · intro up self e ks hent
    exact absurd rfl hent
  · intro up self k s
    rw [descNode_str, descElemsNode_str]; rfl
  · intro e up left
    rw [descAux_nil, descElemsKids_nil]; rfl
  · intro e up left k right here ih2 ih1
    rw [descAux_cons, descElemsKids_cons, ih1, ih2]
    cases k with
    | elem e' ks' => simp [List.filter_cons, Loc.isTag, Node.isTag, here]
    | str sk s => simp [Loc.isTag, Node.isTag, here]

theorem descendantElems_eq (l : Loc) :
    descendantElems l = (l.descendants (fun _ => true)).filter Loc.isTag := by
  unfold descendantElems Loc.descendants
  cases hf : l.focus with
  | elem e ks =>
    simp only
    rw [descElemsNode_elem]; exact descElems_eq.1 e l.up [] ks
  | str k s => simp only; rw [descElemsNode_str]; rfl

theorem ctx_tagDescendants_false (c : Ctx) (l : Loc) :
    c.tagDescendants l false = descendantElems l := by
  rw [descendantElems_eq, Ctx.tagDescendants, Ctx.descendants_false]

/-! ### Everything in the spec's sets is an element -/

theorem ancestorElemsAux_isElem : ∀ (up : List Frame) (n : Node) (t : Loc),
    t ∈ ancestorElemsAux n up → isElem t = true := by
  intro up
  induction up with
  | nil => intro n t h; simp [ancestorElemsAux] at h
  | cons f rest ih =>
    intro n t h
    simp only [ancestorElemsAux] at h
    split at h
    · simp at h
    · simp only [List.mem_cons] at h
      rcases h with rfl | h
      · rfl
      · exact ih _ t h

theorem parentElem_isElem (l t : Loc) (h : parentElem l = some t) : isElem t = true := by
  unfold parentElem at h
  split at h
  · simp at h
  · split at h
    · simp at h
    · simp only [Option.some.injEq] at h; subst h; rfl

theorem mem_head?_toList {α} {L : List α} {t : α} (h : t ∈ L.head?.toList) : t ∈ L := by
  cases L with
  | nil => simp at h
  | cons a L => simp at h; simp [h]

theorem leftOf_isElem (k : Comb) (l t : Loc) (h : t ∈ leftOf k l) : isElem t = true := by
  cases k with
  | desc => exact ancestorElemsAux_isElem _ _ t h
  | child =>
    simp only [leftOf, Option.mem_toList] at h
    exact parentElem_isElem l t h
  | sib =>
    simp only [leftOf, precedingElemSiblings, List.mem_filter] at h
    exact h.2
  | adj =>
    have := mem_head?_toList h
    simp only [precedingElemSiblings, List.mem_filter] at this
    exact this.2

theorem rightOf_isElem (k : Comb) (l t : Loc) (h : t ∈ rightOf k l) : isElem t = true := by
  cases k with
  | desc =>
    simp only [rightOf, descendantElems_eq, List.mem_filter] at h
    exact h.2
  | child =>
    simp only [rightOf, childElems, List.mem_filter] at h
    exact h.2
  | sib =>
    simp only [rightOf, followingElemSiblings, List.mem_filter] at h
    exact h.2
  | adj =>
    have := mem_head?_toList h
    simp only [followingElemSiblings, List.mem_filter] at this
    exact this.2

/-! ### Predicates closed under the tree steps -/

/-- A predicate on locations closed under the two tree steps. -/
structure Closed (P : Loc → Prop) : Prop where
  parent : ∀ l p, P l → l.parent? = some p → P p
  child : ∀ l ch, P l → ch ∈ l.children → P ch

theorem exists_parent_of_up_ne (l : Loc) (h : l.up ≠ []) : ∃ p, l.parent? = some p := by
  cases hp : l.parent? with
  | some p => exact ⟨p, rfl⟩
  | none => exact absurd ((parent?_none_iff l).mp hp) h

theorem Closed.prev {P} (hP : Closed P) (l s : Loc) (hl : P l) (h : s ∈ l.prevSiblings) : P s := by
  have hne : l.up ≠ [] := by
    intro hu; rw [(siblings_nil_of_top l hu).1] at h; simp at h
  obtain ⟨p, hp⟩ := exists_parent_of_up_ne l hne
  refine hP.child p s (hP.parent l p hl hp) ?_
  rw [parent?_children l p hp]
  simp [h]

theorem Closed.next {P} (hP : Closed P) (l s : Loc) (hl : P l) (h : s ∈ l.nextSiblings) : P s := by
  have hne : l.up ≠ [] := by
    intro hu; rw [(siblings_nil_of_top l hu).2] at h; simp at h
  obtain ⟨p, hp⟩ := exists_parent_of_up_ne l hne
  refine hP.child p s (hP.parent l p hl hp) ?_
  rw [parent?_children l p hp]
  simp [h]

theorem Closed.ancestorsAux {P} (hP : Closed P) : ∀ (up : List Frame) (n : Node),
    P ⟨n, up⟩ → ∀ a ∈ Loc.ancestorsAux n up, P a := by
  intro up
  induction up with
  | nil => intro n _ a h; simp [Loc.ancestorsAux] at h
  | cons f rest ih =>
    intro n hn a h
    have hp : P ⟨Loc.plug f n, rest⟩ := hP.parent ⟨n, f :: rest⟩ _ hn rfl
    simp only [Loc.ancestorsAux, List.mem_cons] at h
    rcases h with rfl | h
    · exact hp
    · exact ih _ hp a h

theorem Closed.ancestors {P} (hP : Closed P) (l a : Loc) (hl : P l) (h : a ∈ l.ancestors) : P a :=
  hP.ancestorsAux l.up l.focus hl a h

theorem Closed.isDesc {P} (hP : Closed P) {l t : Loc} (h : IsDesc l t) (hl : P l) : P t := by
  induction h with
  | child hc => exact hP.child _ _ hl hc
  | step hc _ ih => exact ih (hP.child _ _ hl hc)

theorem Closed.leftOf {P} (hP : Closed P) (k : Comb) (l t : Loc) (hl : P l) (h : t ∈ leftOf k l) :
    P t := by
  cases k with
  | desc =>
    simp only [Css.leftOf, ← ancestors_takeWhile] at h
    exact hP.ancestors l t hl ((List.takeWhile_sublist _).mem h)
  | child =>
    simp only [Css.leftOf, Option.mem_toList, parentElem_eq] at h
    split at h
    · rename_i p hp
      split at h
      · simp at h
      · simp only [Option.some.injEq] at h; subst h; exact hP.parent l _ hl hp
    · simp at h
  | sib =>
    simp only [Css.leftOf, precedingElemSiblings, List.mem_filter] at h
    exact hP.prev l t hl h.1
  | adj =>
    have := mem_head?_toList h
    simp only [precedingElemSiblings, List.mem_filter] at this
    exact hP.prev l t hl this.1

theorem Closed.rightOf {P} (hP : Closed P) (k : Comb) (l t : Loc) (hl : P l) (h : t ∈ rightOf k l) :
    P t := by
  cases k with
  | desc =>
    simp only [Css.rightOf, descendantElems_eq, List.mem_filter] at h
    exact hP.isDesc (Loc.descendants_sound _ l t h.1) hl
  | child =>
    simp only [Css.rightOf, childElems, List.mem_filter] at h
    exact hP.child l t hl h.1
  | sib =>
    simp only [Css.rightOf, followingElemSiblings, List.mem_filter] at h
    exact hP.next l t hl h.1
  | adj =>
    have := mem_head?_toList h
    simp only [followingElemSiblings, List.mem_filter] at this
    exact hP.next l t hl this.1

theorem closed_true : Closed (fun _ => True) := ⟨fun _ _ _ _ => trivial, fun _ _ _ _ => trivial⟩

theorem top_parent (l p : Loc) (h : l.parent? = some p) : l.top = p.top := by
  obtain ⟨n, up⟩ := l
  cases up with
  | nil => simp [Loc.parent?] at h
  | cons f rest =>
    simp only [Loc.parent?, Option.some.injEq] at h
    subst h
    simp [Loc.top, Loc.ancestors, Loc.ancestorsAux, List.getLast?_cons]

theorem top_child (l ch : Loc) (h : ch ∈ l.children) : ch.top = l.top :=
  top_parent ch l (child_parent l ch h)

/-- "being in the tree whose top is `T`" is closed. -/
theorem closed_top (T : Loc) : Closed (fun l => l.top = T) :=
  ⟨fun l p hl hp => by rw [← top_parent l p hp]; exact hl,
   fun l ch hl hc => by rw [top_child l ch hc]; exact hl⟩

end SatTree
end SoupVerif
