/-
  Helper lemmas for property C13 (`:lang()` extended filtering).
-/
import SoupVerif.Model.Lang
import SoupVerif.Spec.Rfc4647
namespace SoupVerif
namespace LangLemmas
open Spec

/-! ### Constants -/

theorem star_toStr : ("*".toStr : Str) = star := by decide

theorem star_ne_nil : star ≠ [] := by decide

/-! ### `lower`, `splitOn` -/

theorem lowerCp_idem (c : Nat) : lowerCp (lowerCp c) = lowerCp c := by
  unfold lowerCp
  by_cases h : 65 ≤ c ∧ c ≤ 90
  · simp [h]; omega
  · simp [h]

theorem lower_idem (s : Str) : lower (lower s) = lower s := by
  simp [lower, List.map_map, Function.comp_def, lowerCp_idem]

theorem lowerCp_eq_45 (c : Nat) : lowerCp c = 45 ↔ c = 45 := by
  unfold lowerCp
  by_cases h : 65 ≤ c ∧ c ≤ 90
  · simp [h]; omega
  · simp [h]

theorem lowerCp_eq_42 (c : Nat) : lowerCp c = 42 ↔ c = 42 := by
  unfold lowerCp
  by_cases h : 65 ≤ c ∧ c ≤ 90
  · simp [h]; omega
  · simp [h]

theorem lower_eq_nil (s : Str) : lower s = [] ↔ s = [] := by
  simp [lower]

theorem lower_eq_star (s : Str) : lower s = star ↔ s = star := by
  unfold lower star
  match s with
  | [] => simp
  | [c] => simp [lowerCp_eq_42]
  | _ :: _ :: _ => simp

theorem lower_length (s : Str) : (lower s).length = s.length := by simp [lower]

theorem splitOn_ne_nil (sep : Nat) (s : Str) : splitOn sep s ≠ [] := by
  cases s with
  | nil => simp [splitOn]
  | cons c cs =>
    unfold splitOn
    split
    · simp
    · split <;> simp

/-- `lower` fixes `-`, so splitting commutes with lower-casing. -/
theorem splitOn_lower (s : Str) : splitOn 45 (lower s) = (splitOn 45 s).map lower := by
  induction s with
  | nil => simp [lower, splitOn]
  | cons c cs ih =>
    have hl : lower (c :: cs) = lowerCp c :: lower cs := by simp [lower]
    rw [hl]
    unfold splitOn
    rw [ih]
    cases hsp : splitOn 45 cs with
    | nil => simp [lower]
    | cons p ps =>
      by_cases hc : c = 45
      · subst hc; simp [lowerCp, lower]
      · have hc' : ¬ lowerCp c = 45 := fun h => hc ((lowerCp_eq_45 c).1 h)
        simp [hc, hc', lower]

/-! ### The model loop -/

theorem filterLoop_nil (ss : List Str) : Lang.filterLoop [] ss = true := by
  rw [Lang.filterLoop]

theorem filterLoop_cons_nil (r : Str) (rs : List Str) : Lang.filterLoop (r :: rs) [] = false := by
  rw [Lang.filterLoop]

theorem filterLoop_cons_cons (r : Str) (rs : List Str) (s : Str) (ss : List Str) :
    Lang.filterLoop (r :: rs) (s :: ss) =
      if r.isEmpty then false
      else if s == r then Lang.filterLoop rs ss
      else if s.length == 1 then false
      else Lang.filterLoop (r :: rs) ss := by
  rw [Lang.filterLoop]

theorem filterLoop_empty_head (rs ss : List Str) : Lang.filterLoop ([] :: rs) ss = false := by
  cases ss with
  | nil => exact filterLoop_cons_nil _ _
  | cons s ss => rw [filterLoop_cons_cons]; rfl

theorem filterLoop_eq_rfcLoop (ss : List Str) :
    ∀ rs : List Str, (∀ r ∈ rs, r ≠ star) → (∀ r ∈ rs, r ≠ []) →
      Lang.filterLoop rs ss = rfcLoop rs ss := by
  induction ss with
  | nil =>
    intro rs h1 h2
    cases rs with
    | nil => rw [filterLoop_nil, rfcLoop_nil]
    | cons r rs =>
      have hs : (r == star) = false := by simpa using h1 r (by simp)
      rw [filterLoop_cons_nil, rfcLoop_cons_nil, hs]; rfl
  | cons s ss ih =>
    intro rs h1 h2
    cases rs with
    | nil => rw [filterLoop_nil, rfcLoop_nil]
    | cons r rs =>
      have hs : (r == star) = false := by simpa using h1 r (by simp)
      have he : r.isEmpty = false := by simpa using h2 r (by simp)
      have h1' : ∀ x ∈ rs, x ≠ star := fun x hx => h1 x (by simp [hx])
      have h2' : ∀ x ∈ rs, x ≠ [] := fun x hx => h2 x (by simp [hx])
      rw [filterLoop_cons_cons, rfcLoop_cons_cons, hs, he, ih rs h1' h2', ih (r :: rs) h1 h2]
      simp [isSingleton]

/-! ### Wildcards inside the range are redundant for the RFC loop -/

theorem rfcLoop_filter_star (rs : List Str) :
    ∀ ts, rfcLoop rs ts = rfcLoop (rs.filter (· != star)) ts := by
  induction rs with
  | nil => intro ts; rfl
  | cons r rs ih =>
    intro ts
    by_cases h : (r == star) = true
    · have : (r != star) = false := by simp [bne, h]
      simp only [List.filter_cons, this]
      simp only [rfcLoop, h, if_true]
      exact ih ts
    · have h' : (r != star) = true := by simp [bne, h]
      simp only [List.filter_cons, h', if_true]
      simp only [rfcLoop, h]
      have : rfcLoop rs = rfcLoop (rs.filter (· != star)) := funext ih
      rw [this]

theorem filter_bne_eq_filter_ne (rs : List Str) :
    rs.filter (fun x => decide (x ≠ star)) = rs.filter (· != star) := by
  apply List.filter_congr
  intro x _
  by_cases hx : x = star <;> simp [bne, hx]

theorem rfcLoop_append_star (rs : List Str) (ts : List Str) :
    rfcLoop (rs ++ [star]) ts = rfcLoop rs ts := by
  rw [rfcLoop_filter_star (rs ++ [star]), rfcLoop_filter_star rs]
  simp [List.filter_append]

/-! ### `stripWild` -/

theorem stripWild_idem (rs : List Str) : stripWild (stripWild rs) = stripWild rs := by
  cases rs with
  | nil => rfl
  | cons r rs => simp [stripWild, List.filter_filter]

theorem stripWild_wellFormed (r : Str) (rs : List Str) (h : ∀ x ∈ rs, x ≠ []) :
    WellFormedRange (stripWild (r :: rs)) := by
  intro x hx
  simp only [List.mem_filter] at hx
  exact ⟨h x hx.1, by simpa using hx.2⟩

theorem stripWild_of_wellFormed (rs : List Str) (h : WellFormedRange rs) : stripWild rs = rs := by
  cases rs with
  | nil => rfl
  | cons r rs =>
    simp only [stripWild, List.cons.injEq, true_and, List.filter_eq_self]
    intro x hx
    simpa using (h x hx).2

theorem stripWild_map_lower (rs : List Str) :
    stripWild (rs.map lower) = (stripWild rs).map lower := by
  cases rs with
  | nil => rfl
  | cons r rs =>
    simp only [List.map_cons, stripWild, List.filter_map, List.cons.injEq, true_and]
    congr 1
    apply List.filter_congr
    intro x _
    have h : (lower x == star) = (x == star) := by
      rw [Bool.eq_iff_iff, beq_iff_eq, beq_iff_eq]; exact lower_eq_star x
    simp [bne, h]

/-! ### The declarative characterisation -/

theorem Embeds.skip_any {rs : List Str} {t : Str} {ts : List Str}
    (ht : isSingleton t = false) (h : Embeds rs ts) : Embeds rs (t :: ts) := by
  cases rs with
  | nil => exact Embeds.done _
  | cons r rs => exact Embeds.skip r rs t ts ht h

theorem Embeds.not_cons_nil {r : Str} {rs : List Str} : ¬ Embeds (r :: rs) [] := by
  intro h; cases h

/-- Dropping a leading range subtag that is not a singleton keeps an embedding: its match
    position becomes a skipped position. -/
theorem Embeds.drop_head {r : Str} (hr : isSingleton r = false) {rs : List Str} :
    ∀ {ts : List Str}, Embeds (r :: rs) ts → Embeds rs ts := by
  intro ts
  induction ts with
  | nil => intro h; cases h
  | cons t ts ih =>
    intro h
    cases h with
    | here _ _ _ h' => exact Embeds.skip_any hr h'
    | skip _ _ _ _ ht h' => exact Embeds.skip_any ht (ih h')

/-- Greedy exchange: if `r :: rs` embeds in `r :: ts` in any way, then `rs` embeds in `ts`
    (so taking the first possible match never loses). -/
theorem Embeds.cons_same {r : Str} {rs ts : List Str} (h : Embeds (r :: rs) (r :: ts)) :
    Embeds rs ts := by
  cases h with
  | here _ _ _ h' => exact h'
  | skip _ _ _ _ ht h' => exact Embeds.drop_head ht h'

theorem rfcLoop_iff_embeds (ts : List Str) :
    ∀ rs : List Str, (∀ r ∈ rs, r ≠ star) → (rfcLoop rs ts = true ↔ Embeds rs ts) := by
  induction ts with
  | nil =>
    intro rs h1
    cases rs with
    | nil => simp [rfcLoop_nil, Embeds.done]
    | cons r rs =>
      have hs : (r == star) = false := by simpa using h1 r (by simp)
      rw [rfcLoop_cons_nil, hs]
      simp [Embeds.not_cons_nil]
  | cons t ts ih =>
    intro rs h1
    cases rs with
    | nil => simp [rfcLoop_nil, Embeds.done]
    | cons r rs =>
      have hs : (r == star) = false := by simpa using h1 r (by simp)
      have h1' : ∀ x ∈ rs, x ≠ star := fun x hx => h1 x (by simp [hx])
      rw [rfcLoop_cons_cons, hs]
      by_cases htr : t = r
      · subst htr
        simp only [Bool.false_eq_true, if_false, beq_self_eq_true, if_true]
        rw [ih rs h1']
        exact ⟨fun h => Embeds.here _ _ _ h, Embeds.cons_same⟩
      · have htr' : (t == r) = false := by simpa using htr
        simp only [Bool.false_eq_true, if_false, htr']
        cases hsing : isSingleton t with
        | true =>
          simp only [if_true, Bool.false_eq_true, false_iff]
          intro h
          cases h with
          | here _ _ _ _ => exact htr rfl
          | skip _ _ _ _ ht _ => rw [hsing] at ht; cases ht
        | false =>
          simp only [Bool.false_eq_true, if_false]
          rw [ih (r :: rs) h1]
          constructor
          · exact fun h => Embeds.skip _ _ _ _ hsing h
          · intro h
            cases h with
            | here _ _ _ _ => exact absurd rfl htr
            | skip _ _ _ _ _ h' => exact h'

theorem embedsB_iff (ts : List Str) : ∀ rs : List Str, embedsB rs ts = true ↔ Embeds rs ts := by
  induction ts with
  | nil =>
    intro rs
    cases rs with
    | nil => simp [embedsB, Embeds.done]
    | cons r rs => simp [embedsB, Embeds.not_cons_nil]
  | cons t ts ih =>
    intro rs
    cases rs with
    | nil => simp [embedsB, Embeds.done]
    | cons r rs =>
      simp only [embedsB, Bool.or_eq_true, Bool.and_eq_true, beq_iff_eq, Bool.not_eq_true',
        ih rs, ih (r :: rs)]
      constructor
      · rintro (⟨rfl, h⟩ | ⟨ht, h⟩)
        · exact Embeds.here _ _ _ h
        · exact Embeds.skip _ _ _ _ ht h
      · intro h
        cases h with
        | here _ _ _ h' => exact Or.inl ⟨rfl, h'⟩
        | skip _ _ _ _ ht h' => exact Or.inr ⟨ht, h'⟩

instance (rs ts : List Str) : Decidable (Embeds rs ts) :=
  decidable_of_iff _ (embedsB_iff ts rs)

instance (range tag : List Str) : Decidable (extFilterDecl range tag) := by
  unfold extFilterDecl
  split <;> infer_instance

end LangLemmas
end SoupVerif
